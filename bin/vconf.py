"""Per-property configuration of bin/vcheck: Lean targets, correspondence streams, evidence texts."""
import os, json

TRUSTED_COMMON = [
    "Lean 4.33 kernel (thorough tier: re-checked by leanchecker); axioms limited to propext, Classical.choice, Quot.sound (audited per theorem with #print axioms)",
    "factgen translator (harness/cmd/factgen) and the bridge lemmas Gen = Model",
    "correspondence harness + generators (differential testing of the hand-written model against the real code; bounded by generator quality, see histogram)",
]

# output lines per op of each Lean driver (used to map a differing output line back to its op)
LINES_PER_OP = {
    "DbDriver": lambda op: 1 if op.get("op") in ("snap", "states") else 2,
}


def factgen(cx, sh, goenv, harness, lean, tags):
    """regenerate lean/DrummerVerif/Gen/*.lean from /repo; returns an error string or None"""
    if not os.path.isdir(os.path.join(harness, "cmd", "factgen")):
        return None
    rc, out = sh(["go", "run", "./cmd/factgen", "-repo", "/repo", "-out", os.path.join(lean, "DrummerVerif", "Gen")], cwd=harness, env=goenv, timeout=600)
    if rc != 0:
        return out[-1500:]
    return None


DB_ASSUME = [
    "protobuf / encoding/json behave as specified (commands are decoded before the modelled code runs)",
    "uint64 logical time does not overflow (3e18 ticks)",
]

def dbstream(profile, nq, nt, sections=None, replicas=False, length=60):
    extra = ["-replicas"] if replicas else []
    return {"cmd": "dbdiff", "driver": "DbDriver", "sections": sections,
            "args": {"quick": ["-n", str(nq), "-profile", profile, "-len", str(length)] + extra,
                     "thorough": ["-n", str(nt), "-profile", profile, "-len", str(length * 3)] + extra}}

CHECKS = {
    "C13": {
        "lean": ["DrummerVerif.Props.C13"],
        "streams": [dbstream("c13", 250, 4000, ["res", "defs", "kv"]), dbstream("general", 150, 2000, ["res", "defs", "kv"])],
        "rule": "seeded command sequences on the real DB (profile c13: KV writes over 7 keys x 3 instance ids x finalized or not, definitions over 4 ids, snapshots in the middle; profile general: all command kinds); a sequence is non-trivial when it has >= 4 commands; distinct = distinct seeds",
        "assumptions": DB_ASSUME,
    },
}
