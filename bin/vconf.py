"""Per-property configuration of bin/vcheck: Lean targets, correspondence streams, evidence texts."""
import os, json

TRUSTED_COMMON = [
    "Lean 4.33 kernel (thorough tier: re-checked by leanchecker); axioms limited to propext, Classical.choice, Quot.sound (audited per theorem with #print axioms)",
    "factgen translator (harness/cmd/factgen) and the bridge lemmas Gen = Model",
    "correspondence harness + generators (differential testing of the hand-written model against the real code; bounded by generator quality, see histogram)",
]

# output lines per op of each Lean driver (used to map a differing output line back to its op)
LINES_PER_OP = {
    "DbDriver": lambda op: 1 if op.get("op") in ("snap", "states") else 2,
    "SchedDriver": lambda op: 1,
    "LoopDriver": lambda op: 1,
    "KvsmDriver": lambda op: 1,
    "FsDriver": lambda op: 1,
    "AgentDriver": lambda op: 1,
    "NHApiDriver": lambda op: 1,
    "ApiDriver": lambda op: 1,
    "ElectDriver": lambda op: 1,
    "JepsenDriver": lambda op: len(op.get("events", [])) + 1,
}


def factgen(cx, sh, goenv, harness, lean, tags, repo="/repo"):
    """regenerate lean/DrummerVerif/Gen/*.lean from /repo; returns an error string or None"""
    if not os.path.isdir(os.path.join(harness, "cmd", "factgen")):
        return None
    rc, out = sh(["go", "run", "-tags", tags, "./cmd/factgen", "-repo", repo, "-out", os.path.join(lean, "DrummerVerif", "Gen")], cwd=harness, env=goenv, timeout=600)
    if rc != 0:
        return out[-1500:]
    return None


DB_ASSUME = [
    "protobuf / encoding/json behave as specified (commands are decoded before the modelled code runs)",
    "uint64 logical time does not overflow (3e18 ticks)",
]

def dbstream(profile, nq, nt, sections=None, replicas=False, length=60):
    extra = ["-replicas"] if replicas else []
    return {"cmd": "dbdiff", "driver": "DbDriver", "sections": sections,
            "args": {"quick": ["-n", str(nq), "-profile", profile, "-len", str(length)] + extra,
                     "thorough": ["-n", str(nt), "-profile", profile, "-len", str(length * 3)] + extra}}

RULE_DB = "seeded command sequences on the real DB state machine (drummer.NewDB), reports drawn from a random linear membership history per shard (any version a replica could have seen; stale, duplicated, reordered, partial, pending) plus a malformed stream (1 in 5 sequences); a sequence is non-trivial when it has >= 4 commands; distinct = distinct seeds; profile %s"

ALLDB = ["res", "T", "D", "F", "defs", "kv", "img", "kill", "hosts", "Requests", "Outgoing", "info"]

def schedstream(profile, nq, nt, modes, length=120):
    return {"cmd": "scheddiff", "driver": "SchedDriver", "sections": ALLDB + ["sched:" + m for m in modes], "eval_re": r"^(op_sched)[:_]",
            "args": {"quick": ["-n", str(nq), "-profile", profile, "-len", str(length)],
                     "thorough": ["-n", str(nt), "-profile", profile, "-len", str(length * 2)]}}

RULE_SCHED = "real scheduler (launch() / Drummer.maintainShards() through the verif hook, scripted random source, Go map orders read back and handed to the model) on contexts answered by the real DB; profiles: launch = definitions of 1..6 shards x 1..5 members, the full matrix of region specifications (absent, shorter, longer, over/under-subscribed, duplicate, unknown, count 2^63), fleets of 0..8 hosts with regions and liveness; repair = views built member by member (healthy / failed after silence / failed never seen / waiting; host live or not; log record or not; surplus or missing members; stray replicas with an older membership on hosts that run no member of the shard), 1..4 shards of <=5 members on 4..7 hosts; general = random command sequences; evaluations = scheduling calls, non-trivial = calls that produced requests"

def loopstream(nq, nt, faults=60):
    return {"cmd": "loopsim", "driver": "LoopDriver", "sections": None, "eval_re": r"^case:", "timeout": 3000,
            "args": {"quick": ["-n", str(nq), "-faults", str(faults)], "thorough": ["-n", str(nt), "-faults", str(faults * 2)]}}

RULE_LOOP = "closed loop: the real Drummer DB and the real scheduler against a simulated fleet (Go transliteration of the fleet half of the Lean loop model, compared with the Lean step after every event): fleets of size+1..7 NodeHosts, 1..6 shards of size 3 or 5; launch, then 5..64 (quick) faulty rounds (per host and round: crash for 1..3 rounds 4%, crash for 6..30 rounds 3%, report lost 10%, reply lost 10%, requests not executed 20%, replicas lagging / catching up), then all hosts up and fault-free round-fair rounds (4 ticks, every host reports / executes / catches up in random order, one scheduling round); oracles: healed within 12 rounds and stays healed (C01), request stream dry within 8 more rounds (C11), membership size and co-location after every round (C02), every scheduling decision by the scheduler oracles (C02, C11, C12); evaluations = events; non-trivial = sequences"

# the scripted scenario of the agent harness on real NodeHosts: the execute step that the loop model assumes
AGENT_SCENARIO = {"cmd": "agent", "driver": "AgentDriver", "sections": None, "eval_re": r"^case:", "timeout": 1500,
                  "args": {"quick": ["-reports", "0", "-dispatch", "0"], "thorough": ["-reports", "0", "-dispatch", "4"]}}

# C11 also needs the report grid: a stray replica that is not reported (a pending one in particular) is never killed
AGENT_C11 = {"cmd": "agent", "driver": "AgentDriver", "sections": None, "eval_re": r"^case:", "timeout": 1500,
             "args": {"quick": ["-reports", "60", "-dispatch", "0"], "thorough": ["-reports", "300", "-dispatch", "4"]}}

CHECKS = {
    "C01": {
        "lean": ["DrummerVerif.Props.C01", "DrummerVerif.Props.Witness", "DrummerVerif.Props.WitnessHeal", "DrummerVerif.Props.WitnessQuiet", "DrummerVerif.Props.WitnessTimeline", "DrummerVerif.Props.WitnessFleet", "DrummerVerif.Props.WitnessReplace", "DrummerVerif.Props.WitnessJoin"],
        "streams": [loopstream(25, 600),
                    AGENT_SCENARIO],
        "rule": RULE_LOOP + " | execute step on real NodeHosts (agent harness, scenario part): every row of the launch / join / restore table the scheduler can produce (launch on a fresh host, join without data, join again after a restart with data, restore with data, restore without data), fenced add / delete, kill, compared with the model's table `instantiate` that the fleet half of the loop model follows (theorem fleet_model_follows_agent_table)",
        "assumptions": DB_ASSUME + ["the fleet half of the loop model (how NodeHosts execute requests: dragonboat's ordered config change, start / join / restore rules, data kept across restarts, a removed replica that learns of its removal stops) is an assumption, exercised against real NodeHosts by the agent harness (C18)"],
    },
    "C20": {
        "lean": ["DrummerVerif.Props.C20", "DrummerVerif.Props.WitnessMisc"],
        "streams": [{"cmd": "kvcodec", "driver": "CodecDriver", "sections": None, "eval_re": r"^case:",
                     "args": {"quick": ["-n", "1500", "-depth", "5"], "thorough": ["-n", "40000", "-depth", "6", "-big"]}}],
        "rule": "kv.KV of the real package: (1) pairs over the length grid {0,1,2,127,128,129,16383,16384,16385,70000}^2 with random byte content, (2) EVERY byte string over the alphabet {00,01,02,7f,80,ff} up to the given depth decoded into a non-empty prior object (exhaustive), (3) random pairs incl. empty key/value, each with three mutated encodings (truncated, bit flipped, suffix appended, over-long varint inserted), (4) encodings of exactly ColferSizeMax-1 and ColferSizeMax bytes; non-trivial = encode cases (each also decoded back, decoded with a suffix and length-checked on the implementation)",
        "assumptions": ["Go strings hold arbitrary bytes; copy/len as specified"],
        "trusted": ["16 MiB boundary case is run on the real code only (the model proves the round trip under the exact guard len < ColferSizeMax)"],
    },
    "C15": {
        "lean": ["DrummerVerif.Props.C15", "DrummerVerif.Props.WitnessMisc"],
        "streams": [{"cmd": "kvsm", "driver": "KvsmDriver", "sections": None, "eval_re": r"^case:", "timeout": 1500,
                     "args": {"quick": ["-n", "25"], "thorough": ["-n", "400"]}}],
        "rule": "the three real test state machines (KVTest, ConcurrentKVTest, DiskKVTest on vfs.NewStrictMem), two replicas per sequence: batches of 1..8 updates over key/value alphabets incl. the empty string, multi-byte UTF-8, JSON-special characters and (on-disk machine) binary strings, applied to both replicas; replica 1 additionally gets lookups / Sync / PrepareSnapshot / SaveSnapshot / Close+Open, and is replaced at random points by a fresh replica restored from replica 0's snapshot; after every step every key is looked up on both replicas and both hashes are taken (compared with the model as equality classes); evaluations = protocol operations; non-trivial = sequences",
        "assumptions": ["md5 collisions ignored", "pebble: a synced batch is atomic and durable (C16 covers crashes)", "a user key equal to the on-disk machine's applied-index key is outside the model"],
    },
    "C16": {
        "lean": ["DrummerVerif.Props.C16"],
        "streams": [{"cmd": "diskcrash", "driver": "FsDriver", "sections": None, "eval_re": r"^case:(crash_point|double_crash_point)", "timeout": 3000,
                     "args": {"quick": ["-n", "3", "-double", "3"], "thorough": ["-n", "12", "-double", "400"]}}],
        "rule": "DiskKVTest on a counting wrapper around vfs.NewStrictMem: EVERY mutating / syncing file-system operation index of each workload (workload 0 = first open; 3 updates; Sync; recovery from a foreign snapshot; 2 updates; Close+Open; 1 update; further workloads vary each part by seed) is a crash point (from that operation on nothing reaches stable storage, then ResetToSyncedState: all unsynced data and directory entries are lost), followed by reopen and the check 'applied index >= last acknowledged, data = updates up to that index on top of the last installed snapshot'; double crashes: for selected first crash points, every operation index of the recovering Open is a second crash point; the non-pebble part of the real trace of first open / snapshot recovery / reopen is compared with the model's sequences; evaluations = crash points (single + double), all distinct, exhaustive per workload",
        "assumptions": ["pebble: a synced batch is atomic and durable when it returns; open after a crash recovers an acknowledged prefix (crash points inside pebble are covered by the enumeration only)", "vfs.NewStrictMem is the definition of a crash"],
    },
    "C07": {
        "lean": ["DrummerVerif.Props.C07"],
        "streams": [{"cmd": "lcmrun", "driver": "JepsenDriver", "sections": None, "eval_re": r"^case:", "timeout": 1500,
                     "args": {"quick": ["-n", "8", "-synth", "300"], "thorough": ["-n", "120", "-synth", "6000"]}}],
        "rule": "(A) the real lcm Coordinator (scheduleProcesses through the hook, 25 rounds) with 1..40 or 1000..2000 processes against fake Drummer + NodehostAPI gRPC services on loopback implementing a linearizable register with injected latencies (0..7 ms before and after the effect) and failures (never / 1 in 30 / 1 in 8; a failed write may or may not have taken effect): the recorded history must be well formed (one outstanding operation per process, invocation before completion, written values unique and increasing, no operation after a failure), survive SaveAsJepsenLog + ParseJepsenLog with all operations, and be accepted by the bundled checker (skipped when concurrent + never-completed operations > 12: the search is exponential); (B) synthetic event lists the recorder can emit with process ids around 10 / 1000 / 10000 and up to 3000, reads of nothing, failed reads and writes: every log line and the parsed history are compared with the Lean model; evaluations = coordinator runs + log round trips",
        "assumptions": ["Go memory model for sync/atomic and the mutex (preemption is modelled at the granularity of those operations)", "gRPC / loopback TCP"],
    },
    "C14": {
        "lean": ["DrummerVerif.Props.C14"],
        "streams": [{"cmd": "elect", "driver": "ElectDriver", "sections": None, "eval_re": r"^case:", "timeout": 1500,
                     "args": {"quick": ["-n", "40"], "thorough": ["-n", "1500"]}}],
        "rule": "2..5 hook-built election managers (no ticker goroutine) on a real in-process single-replica NodeHost running the real Drummer DB; per sequence: phase 1 = 6..25 rounds of arbitrary schedules (random order, one round in four a random multiset of servers, servers pausing for 3..10 turns, one turn in 15 with a cancelled context so that every DB operation of the turn fails); phase 2 = 12 round-fair rounds without failures (a leader emerges and renews); phase 3 = the holder stops taking turns, the others continue round-fairly for 10 rounds; after every turn the election record and every manager's view are compared with the Lean model; evaluations = turns, non-trivial = sequences",
        "assumptions": ["dragonboat SyncPropose / SyncRead are linearizable (one atomic DB operation per call)", "turn-level atomicity: interleavings of DB operations INSIDE two concurrent turns are not driven by this harness (PARTIAL, see level note)"],
    },
    "C17": {
        "lean": ["DrummerVerif.Props.C17", "DrummerVerif.Props.WitnessMisc"],
        "streams": [{"cmd": "apisrv", "driver": "ApiDriver", "sections": None, "eval_re": r"^case:", "timeout": 1500,
                     "args": {"quick": ["-n", "12", "-len", "60"], "thorough": ["-n", "300", "-len", "150"]}}],
        "rule": "the real Drummer service implementation on a real in-process single-replica NodeHost running the real DB; (1) each malformed configuration call (no members, empty application name, empty region specification, region/count lists of different length) is tried in a child process - a child that dies is a fail-stopped replica; (2) sequences of 60 (quick) calls: SubmitChange over 3 shard ids (one in four malformed), SetRegions (one in three malformed), SetBootstrapped, ReportAvailableNodeHost with reports drawn from a membership history, the leader's own ticks and request batches, GetShards / GetNodeHostCollection / GetShardConfigChangeIndexList / GetShardStates (0..2 ids of 4, known or not) / GetDeploymentInfo; every answer is compared with the Lean model; evaluations = calls + probes; non-trivial = sequences",
        "assumptions": ["dragonboat SyncPropose / SyncRead are linearizable: an answer reflects the state at a single point between call and return (PARTIAL for concurrent callers: the correspondence uses sequential calls)"],
    },
    "C19": {
        "lean": ["DrummerVerif.Props.C19", "DrummerVerif.Bridge.Bridge", "DrummerVerif.Props.WitnessMisc"],
        "audit": ["DrummerVerif.Props.C19"],
        "streams": [{"cmd": "nhapi", "driver": "NHApiDriver", "sections": None, "eval_re": r"^case:", "timeout": 1500,
                     "args": {"quick": ["-n", "12"], "thorough": ["-n", "400"]}}],
        "rule": "a real NodeHost hosting 1..4 shards (ids drawn from 6) of mixed state-machine types (KVTest regular, ConcurrentKVTest concurrent, DiskKVTest on-disk) started in a random order, the real NodehostAPI on top: 14 GetSession queries per NodeHost for hosted and non-hosted ids in random order (repeats exercise the cache); for every session handed out for a hosted shard a Propose and a Read through the facade are compared with the state machine's result and a local SyncRead; sessions are converted to the wire form and back; every dragonboat / context error value plus unlisted ones through GRPCError; answers compared with the Lean model; evaluations = queries + error mappings; non-trivial = NodeHosts",
        "assumptions": ["dragonboat SyncGetSession / SyncPropose / SyncRead behave as documented (the facade's transparency is compared against them)"],
    },
    "C18": {
        "lean": ["DrummerVerif.Props.C18", "DrummerVerif.Props.WitnessMisc"],
        "streams": [{"cmd": "agent", "driver": "AgentDriver", "sections": None, "eval_re": r"^case:", "timeout": 1500,
                     "args": {"quick": ["-reports", "300", "-dispatch", "6"], "thorough": ["-reports", "8000", "-dispatch", "60"]}}],
        "rule": "the real DrummerClient on real in-process NodeHosts against a scripted Drummer gRPC service on loopback. (A) report construction: 1..4 hosted replicas, each with a local membership version 1..20 or pending, Drummer advertising for each shard nothing / one less / equal / more, with and without log info (0..3 records): the pb.NodeHostInfo the scripted Drummer receives is compared with the model; (B) dispatch: batches for 1..3 shards, per shard a launch / kill / launch ... sequence of 1..4 requests (fresh replica id per launch), randomly interleaved across shards, executed by HandleMasterRequests on a real NodeHost: the final running state and erased data of every shard reveal order and at-most-once execution, handling the empty queue again must change nothing; (C) one scripted scenario on four NodeHosts: launch with zipped peers, add with a wrong then the right version, join, delete delivered twice, kill + erase, restart (runs nothing, reports its log), restore, restore without data; evaluations = report cases + batches + scenario steps",
        "assumptions": ["dragonboat's NodeHost API (StartReplica, RequestAddReplica / RequestDeleteReplica with ordered config change, StopReplica, RemoveData, HasNodeInfo) behaves as documented", "infrastructure timeouts (elections, replication) make a scenario step inconclusive, never a violation"],
    },
    "C06": {
        "lean": ["DrummerVerif.Props.C06", "DrummerVerif.Props.WitnessMisc"],
        "streams": [{"cmd": "porc", "driver": "PorcDriver", "sections": None, "eval_re": r"^case:",
                     "args": {"quick": ["-n", "1500", "-exhaustive", "2"], "thorough": ["-n", "30000", "-exhaustive", "3"]}},
                    # the checker as the checker binary uses it: a log is parsed, then checked (runs against a linearizable register must be accepted)
                    {"cmd": "lcmrun", "driver": "JepsenDriver", "sections": None, "eval_re": r"^case:", "timeout": 1500,
                     "args": {"quick": ["-n", "8", "-synth", "300"], "thorough": ["-n", "60", "-synth", "3000"]}}],
        "rule": "histories for the bundled register model: EVERY history with up to 2 (quick) / 3 (thorough) operations over reads (absent / 0 / 1 / unknown), writes (0,1; known / unknown) and CAS (all of {0,1}^2; ok / failed / unknown) in every well-formed interleaving of invocations and responses (exhaustive), plus random histories of up to 12 operations by up to 6 processes produced by a simulated register (two thirds linearizable by construction, one third with corrupted outcomes, one outcome in eight unknown); for every history: verdict and the full sequence of Step calls of the real CheckEvents are compared with the Lean model of checkSingle, the verdict with a brute-force search over all real-time-respecting orders (<= 9 operations), with the verdict after an injective renumbering and with two repeated runs; non-trivial = histories with >= 2 operations, distinct by content",
        "assumptions": ["with the default NoPartitionEvent there is one worker goroutine; without a timeout CheckEvents returns its result"],
    },
    "C08": {
        "lean": ["DrummerVerif.Props.C08"],
        "streams": [schedstream("launch", 400, 6000, ["launch"]), schedstream("general", 100, 1500, ["launch"])],
        "rule": RULE_SCHED, "assumptions": DB_ASSUME + ["scripted random sources return what math/rand can return (Int() >= 0)"],
    },
    "C12": {
        "lean": ["DrummerVerif.Props.C12", "DrummerVerif.Props.Witness"],
        "streams": [schedstream("repair", 400, 6000, ["maintain"]), schedstream("general", 100, 1500, ["maintain"]), loopstream(10, 300),
                    dbstream("general", 150, 2000, ["res", "hosts"])],
        "rule": RULE_SCHED + " | " + RULE_LOOP + " | " + (RULE_DB % "general") + " (here: the per-host record of persisted logs that restore decisions read)", "assumptions": DB_ASSUME,
    },
    "C02": {
        "lean": ["DrummerVerif.Props.C02", "DrummerVerif.Props.Witness"],
        "streams": [schedstream("repair", 400, 6000, ["maintain"]), schedstream("general", 100, 1500, ["maintain"]), loopstream(12, 300),
                    AGENT_SCENARIO],
        "rule": RULE_SCHED + " | " + RULE_LOOP + " | execute step on real NodeHosts (agent harness, scenario part): membership changes fenced by the version on launched, joined and restored replicas", "assumptions": DB_ASSUME + ["fleet half of the loop model (dragonboat's ordered config change, start/restart rules) is an assumption validated by the agent harness"],
    },
    "C13": {
        "lean": ["DrummerVerif.Props.C13"],
        "streams": [dbstream("c13", 250, 4000, ["res", "defs", "kv"]), dbstream("general", 150, 2000, ["res", "defs", "kv"]),
                    {"cmd": "apisrv", "driver": "ApiDriver", "sections": None, "eval_re": r"^case:", "timeout": 1500,
                     "args": {"quick": ["-n", "6", "-len", "60"], "thorough": ["-n", "100", "-len", "150"]}}],
        "rule": RULE_DB % "c13 (KV writes over 7 keys x 3 instance ids x finalized or not, definitions over 4 ids, snapshots in the middle) and general" + " | the real Drummer service on a real NodeHost (apisrv): the code SubmitChange reports (OK / SHARD_EXIST / BOOTSTRAPPED) against what the DB decided",
        "assumptions": DB_ASSUME,
    },
    "C10": {
        "lean": ["DrummerVerif.Props.C10", "DrummerVerif.Props.WitnessDb"],
        "streams": [dbstream("c10", 250, 4000, ["res", "Requests", "Outgoing"], replicas=True), dbstream("general", 150, 2000, ["res", "Requests", "Outgoing"]),
                    {"cmd": "apisrv", "driver": "ApiDriver", "sections": None, "eval_re": r"^case:", "timeout": 1500,
                     "args": {"quick": ["-n", "4", "-len", "60"], "thorough": ["-n", "60", "-len", "150"]}}],
        "rule": RULE_DB % "c10 (request batches for arbitrary subsets of up to 6 addresses, possibly empty, interleaved with reports; a lost reply = the host reports again; a lagging replica that installs a snapshot) and general" + " | the real Drummer service on a real NodeHost (apisrv): replies to reports, incl. a report that cannot be applied",
        "assumptions": DB_ASSUME,
    },
    "C09": {
        "lean": ["DrummerVerif.Props.C09", "DrummerVerif.Props.WitnessDb"],
        "streams": [dbstream("c09", 300, 5000, ["res", "T", "D", "F", "defs", "kv", "img"], replicas=True), dbstream("general", 150, 2000, ["res", "T", "D", "F", "defs", "kv"])],
        "rule": RULE_DB % "c09 (3 of 4 sequences are launch scenarios: definitions, launch batch, ticks with the completing reports placed one tick before / at / after the deadline, a member that never reports, repeated launch attempts, snapshots across the deadline, a reporting shard that is not defined) and general",
        "assumptions": DB_ASSUME,
    },
    "C05": {
        "lean": ["DrummerVerif.Props.C05", "DrummerVerif.Props.WitnessDb"],
        "streams": [dbstream("c05", 250, 4000, ["res", "T", "img", "hosts", "info", "states"]), dbstream("general", 150, 2000, ["res", "T", "img", "hosts", "info", "states"]),
                    schedstream("repair", 250, 4000, ["maintain"]), schedstream("launch", 150, 2000, ["launch"])],
        "rule": RULE_DB % "c05 (silences of TTL-1 step, TTL, TTL+1 step between reports, reports at time 0, replicas that never report, hosts that stop and resume) and general; availability is read through the real SHARD_STATES query after every command",
        "assumptions": DB_ASSUME,
    },
    "C04": {
        "lean": ["DrummerVerif.Props.C04", "DrummerVerif.Props.WitnessDb"],
        "streams": [dbstream("c04", 250, 4000, ["res", "img", "states"], replicas=True), dbstream("general", 150, 2000, ["res", "img", "states"])],
        "rule": RULE_DB % "c04 (report heavy) and general",
        "assumptions": DB_ASSUME,
    },
    "C11": {
        "lean": ["DrummerVerif.Props.C11", "DrummerVerif.Props.Witness", "DrummerVerif.Props.WitnessDb", "DrummerVerif.Props.WitnessQuiet"],
        "streams": [dbstream("c11", 250, 4000, ["res", "img", "kill"], replicas=True), dbstream("general", 150, 2000, ["res", "img", "kill"]),
                    schedstream("general", 150, 2000, ["maintain"]), schedstream("repair", 200, 3000, ["maintain"]), loopstream(12, 300), AGENT_C11],
        "rule": RULE_DB % "c11 (every second report of a non-member host carries a stray replica) and general",
        "assumptions": DB_ASSUME,
    },
    "C03": {
        "lean": ["DrummerVerif.Props.C03"],
        "streams": [dbstream("c03", 250, 4000, None, replicas=True), dbstream("general", 150, 2000, None, replicas=True), dbstream("c09", 80, 1200, None, replicas=True)],
        "rule": RULE_DB % "c03 (snapshot heavy); every sequence is run on replica A (straight), replica B (restored from A's snapshot at a random prefix) and A' (a repeated run); results, hashes, dumps and the scheduler-context query are compared among the Go replicas and with the model",
        "assumptions": DB_ASSUME + ["md5 collisions ignored (hashes compared as equal/unequal)"],
    },
}
