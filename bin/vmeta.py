"""texts of MANIFEST.json per property"""
HOOKS = {
    "guard": "verif",
    "enable": "go build -tags 'verif dragonboat_monkeytest' (the harness module /verif/harness replaces github.com/lni/drummer/v3 => /repo; tests/, client/, lcm/ need dragonboat_monkeytest to compile)",
    "baseline_off_cmd": "cd /repo && GOFLAGS=-mod=mod GOPROXY=off GOSUMDB=off go test -vet=off -count=1 -timeout 25m ./...",
    "source_commits": [],
    "add_only": True,
}
NOTES = "Every check: bin/vcheck <id> <tier> = factgen (regenerate Gen/*.lean from /repo) + lake build of the property's theorems + axiom audit + go build of the harness from /repo + correspondence diff (real code vs Lean driver) + Go-side oracles on the implementation trace. See DESIGN.md."
NA = {}
DBTB = "Trusted: Lean kernel; factgen + bridge lemmas; the dbdiff correspondence (real drummer.NewDB state machine vs Model/Db.lean, compared after every command on a canonical dump of the state SaveSnapshot serialises); protobuf/JSON decoding; uint64 time not overflowing."
META = {
    "C13": {
        "text": "Unbounded Lean theorems over the DB model: the complete one-write law of applyKVUpdate (kv_write_law, kv_write_code), finalized records survive every command history (finalized_immutable, induction over the command list), the definition gate (definition_gate) and its lift to histories (defs_history). The model is the object dbdiff compares with the real DB after every command; a Go-side oracle re-states the laws on the implementation's own states and is what produces the failing input.",
        "note": DBTB,
        "technique": "Lean 4 proof (induction over command histories) + differential correspondence with the real DB + regenerated predicate bridge",
    },
}
