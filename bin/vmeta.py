"""texts of MANIFEST.json per property"""
HOOKS = {
    "guard": "verif",
    "enable": "go build -tags 'verif dragonboat_monkeytest' (the harness module /verif/harness replaces github.com/lni/drummer/v3 => /repo; tests/, client/, lcm/ need dragonboat_monkeytest to compile)",
    "baseline_off_cmd": "cd /repo && GOFLAGS=-mod=mod GOPROXY=off GOSUMDB=off go test -vet=off -count=1 -timeout 25m ./...",
    "source_commits": ["af17878"],
    "add_only": True,
}
NOTES = "Every check: bin/vcheck <id> <tier> = factgen (regenerate Gen/*.lean from /repo) + lake build of the property's theorems + axiom audit + go build of the harness from /repo + correspondence diff (real code vs Lean driver) + Go-side oracles on the implementation trace. See DESIGN.md."
NA = {}
DBTB = "Trusted: Lean kernel; factgen + bridge lemmas; the dbdiff correspondence (real drummer.NewDB state machine vs Model/Db.lean, compared after every command on a canonical dump of the state SaveSnapshot serialises); protobuf/JSON decoding; uint64 time not overflowing."
TECH = "Lean 4 proof over an executable model + differential correspondence with the real code + regenerated (factgen) definitions"
META = {
    "C13": {
        "text": "Unbounded Lean theorems over the DB model: the complete one-write law of applyKVUpdate (kv_write_law, kv_write_code), finalized records survive every command history (finalized_immutable, induction over the command list), the definition gate (definition_gate) and its lift to histories (defs_history). The model is the object dbdiff compares with the real DB after every command; a Go-side oracle re-states the laws on the implementation's own states and is what produces the failing input.",
        "note": DBTB, "technique": TECH,
    },
    "C10": {
        "text": "Refinement proof: the Requests/Outgoing maps of the DB model refine, for every address and every command history, a two-slot mailbox specification (history_refines; per-command step_refines, schedule_refines, report_reply), and everything ever handed to an address is addressed to it (only_addressee). dbdiff ties the model to the real DB; the Go-side oracle runs the mailbox specification against the real REQUESTS lookup after every command.",
        "note": DBTB, "technique": TECH,
    },
    "C09": {
        "text": "Theorems over the DB model for all command histories: a mixed batch is never accepted (never_mixed), a launch batch is ignored once launched and the launched flag is permanent (launch_ignored_when_launched, launched_forever), acceptance arms the deadline (launch_accepted), a tick fail-stops iff the new time is past an armed deadline (tick_failstop_iff), a report disarms exactly when every defined shard is fully reporting and a disarmed DB stays disarmed (report_disarms, disarmed_forever, deadline_history); Failed/LaunchDeadline are among the snapshot fields (failed_persisted, regenerated field fact); the deadline condition and the launch-request test are regenerated from db.go and proved equal to the model's. Found and fixed F-C09.",
        "note": DBTB + " The fail-stop itself (Go panic, Failed latch) is observed by the harness: after a late tick every update, query, snapshot and hash must panic.", "technique": TECH,
    },
    "C05": {
        "text": "Theorems over the DB model: the three replica classes are characterised by (last own report time, first observed time, now) exactly as the property states and partition the membership (class_characterisation, classes_exclusive, classes_partition); availability = strict majority of healthy members; a host silent for more than the timeout passes neither the placement nor the restore predicate, one more recent than the timeout passes both (silent_host_never_used); time moves only by ticks, by one fixed step (tick_step); stored times never exceed now in any reachable state, so uint64 subtraction never wraps (stored_le_now); the complete per-report law of the liveness record (report_law). All predicates are regenerated from shardimage.go / nodehostimage.go / filter.go by factgen and proved equal to the model's (code_* theorems).",
        "note": DBTB, "technique": TECH,
    },
    "C04": {
        "text": "Theorems over the DB model for every report consistent with a membership history H: a first complete report creates a view mirroring H, syncShard keeps the view mirroring H and never lowers the version, an older/pending/incomplete entry changes neither version nor membership, FirstObserved of surviving members is kept (first_report_mirrors, sync_mirrors, sync_newer, update_mirrors, version_never_decreases). The Go-side oracle recomputes 'membership of the complete report with the highest version so far' from the command history alone and compares it with the real view after every command.",
        "note": DBTB, "technique": TECH,
    },
    "C11": {
        "text": "DB-level clauses proved over the model: a kill entry is recorded only for a listed replica that is not a member of the view and whose reported version is older than the view's (kill_test_spec, kill_entry_justified), and after a report from address a the kill list is exactly the other addresses' entries plus a's currently reported stray replicas (kill_list_after_report) - so entries stop with the first report that no longer lists the replica. Found and fixed F-C11. Closed-loop clauses (member_never_killed, quiescence) are served by the loop model once loopsim is registered.",
        "note": DBTB, "technique": TECH,
    },
    "C20": {
        "text": "Complete for the model of kv/kv.go over List UInt8: the decoder never reads out of bounds on ANY byte list and prior object (decode_never_reads_out_of_bounds: the checked decoder flags every read at an index >= length and is proved never to flag), the varint loop inverts the encoder for every value (varint_roundtrip, strong induction, any accumulator/offset), decode(encode(pair)) returns the pair and the encoded length into any prior object for every pair whose encoding is shorter than ColferSizeMax (roundtrip_into_any_object, roundtrip_fresh), MarshalLen = produced length (declared_length_is_produced_length), a valid encoding followed by any non-empty suffix is reported as ColferTail(length) (tail_reported). ColferSizeMax is regenerated from the package. kvcodec compares every result of the real Marshal/Unmarshal with the model incl. exhaustive short byte strings; F-C20 (encoding of exactly ColferSizeMax bytes) is a recorded known finding in generated code.",
        "note": "Trusted: Lean kernel; kvcodec correspondence (canonical digests of every output); Go string/slice semantics. uint shifts are modelled with explicit mod 2^64 and Go's shift>=64 rule.", "technique": TECH,
    },
    "C06": {
        "text": "Theorems over the Lean model of checkSingle (memoised depth-first search with lift/unlift and the (linearized set, state) cache) for any model, any state type with decidable equality, every complete well-formed history of any length: the search answers true iff some total order of the operations respects real-time order and is accepted step by step (check_exact, via the inductive 'pick a minimal call' characterisation search_iff_inductive_characterisation: soundness by mutual induction, completeness by the cache invariant); the verdict is invariant under every injective renumbering (linearizable_rename_iff, wf_rename, verdict_renaming_invariant); the register semantics incl. unknown outcomes is the bundled Step function, transcribed (register_read/write/cas). porc compares verdict AND the complete sequence of Step calls of the real CheckEvents with the model, and the Go-side oracle compares with a brute-force search.",
        "note": "Trusted: Lean kernel; porc correspondence (the recursive model makes the same Step calls in the same order as the iterative Go loop - compared call by call); partial: goroutine scheduling and the timeout path are exercised by repeated runs only (one worker goroutine with the default partitioner); renumber() itself is covered by the renaming theorem plus the harness's renumbered re-run, not by a proof that its table is injective.", "technique": TECH,
    },
    "C08": {
        "text": "Theorems over the scheduler model for every context, region specification, host order and random stream: the launch planner never crashes (launch_never_crashes: the only non-result is running out of scripted draws), an accepted launch is one valid plan per definition in order (launch_complete, launch_count), every planned shard has exactly one request per member pairing member i with target i, on pairwise distinct hosts that pass the live and not-hosting filters (launch_shard_valid), and per region exactly the quota (launch_quota). scheddiff runs the real launch() on contexts answered by the real DB over the full matrix of region specifications with the Go map orders and draws handed to the model; the Go-side oracle re-states the plan validity on the real requests. Found and fixed F-C08.",
        "note": DBTB + " The model of the planner is the repaired one; the planner of the pinned commit with its crashes is kept as Drummer.launch (Model/Sched2.lean).", "technique": TECH,
    },
    "C12": {
        "text": "Theorems over the scheduler model for every context/order/stream: every restore request targets a failed member whose host is in the image, available and lists exactly that replica in its persisted log, carries the view's membership, Restore=true, Join=false, the definition's app name and goes to the replica's own host (restore_justified, restorable_spec, restore_requests_shape); every restorable member gets one (restore_complete); repair skips restored shards so no shard gets a restore and a membership change in one round (repair_skips_restored). The quorum clause holds on the restoreUnavailableShards path; for restoreFailed with a waiting member it does not (restore_below_quorum_witness, a theorem about the model, replayed on the real code by scheddiff): known finding F-C12.",
        "note": DBTB, "technique": TECH,
    },
    "C02": {
        "text": "Per decision (scheduler model, all contexts/orders/draws): every DELETE / ADD / join-CREATE is justified by the classification it was computed from, fenced by the view's version, sent to a healthy member's host, at most one per shard per round, the ADD target passes the live and not-hosting filters and the new id is non-zero and unused in the view (repair_decision_justified, repair_round_justified, replacement_host_ok). Closed loop (loop model: real DB model + scheduler model + fleet model, any events incl. crashes, restarts, lost reports/replies, lagging replicas, from a cold start incl. launch): size <= |members| <= size+1, member addresses pairwise distinct, views mirror a past membership, removed ids never return (step_preserves_invariant, reachable_groups_wf, reachable_views_mirror, removed_ids_never_return, cold_start_invariant). Found and fixed F-C02.",
        "note": DBTB + " The fleet half of the loop model (dragonboat's ordered config change: applies only at the version it carries; start/restart rules) is an assumption, validated against real NodeHosts by the agent harness (C18).", "technique": TECH,
    },
    "C03": {
        "text": "In the model apply is a function of state and command, so determinism is by construction; what carries content is (i) the regenerated field fact snapshot_fields_agree (every serialised field of DB is restored by RecoverFromSnapshot and nothing else), (ii) order irrelevance of the one map-order-dependent merge (merge_order_irrelevant), and (iii) the correspondence run, which executes every sequence on three real replicas (straight, restored from a snapshot at a random prefix, repeated run) and compares results, hashes, dumps and the scheduler-context answer among them and with the model. F-C03 (non-UTF-8 KV key lost by the JSON snapshot) is a recorded known finding.",
        "note": DBTB + " JSON text and md5 are not modelled in Lean; hashes are compared as equality classes.", "technique": TECH,
    },
}
