// agent: harness of C18 (client/nodehost.go). The real DrummerClient on real
// in-process NodeHosts against a scripted Drummer gRPC service on loopback.
// (A) report construction over the full grid of (advertised version absent /
// older / equal / newer than the local one) x (pending or not) for 1..4 hosted
// replicas, with and without log info: the pb.NodeHostInfo the scripted Drummer
// receives is compared with the Lean model. (B) dispatch: batches mixing shards
// and kinds (launch / kill sequences per shard, interleaved) are executed by
// HandleMasterRequests on a real NodeHost; the final state of every shard
// reveals the order of execution within the shard. (C) a scripted scenario on
// four NodeHosts: launch, fenced add (wrong then right version), join, fenced
// delete delivered twice, kill + erase, restart + restore, restore without data.
package main

import (
	"context"
	"flag"
	"fmt"
	"net"
	"os"
	"sort"
	"strings"
	"sync"
	"time"

	"google.golang.org/grpc"
	"google.golang.org/grpc/codes"
	"google.golang.org/grpc/status"

	"github.com/lni/dragonboat/v4"
	"github.com/lni/dragonboat/v4/raftio"
	"github.com/lni/drummer/v3/client"
	pb "github.com/lni/drummer/v3/drummerpb"
	"verif/harness/internal/hx"
	"verif/harness/internal/nhx"
)

type scripted struct {
	pb.UnimplementedDrummerServer
	mu      sync.Mutex
	indexes map[uint64]uint64
	replies map[string][]*pb.NodeHostRequest
	last    map[string]*pb.NodeHostInfo
	refuse  map[string]int // the next n reports of this address are answered with an RPC error
}

func (s *scripted) GetShardConfigChangeIndexList(ctx context.Context, e *pb.Empty) (*pb.ConfigChangeIndexList, error) {
	s.mu.Lock()
	defer s.mu.Unlock()
	m := map[uint64]uint64{}
	for k, v := range s.indexes {
		m[k] = v
	}
	return &pb.ConfigChangeIndexList{Indexes: m}, nil
}
func (s *scripted) ReportAvailableNodeHost(ctx context.Context, nhi *pb.NodeHostInfo) (*pb.NodeHostRequestCollection, error) {
	s.mu.Lock()
	defer s.mu.Unlock()
	if s.refuse[nhi.RaftAddress] > 0 {
		s.refuse[nhi.RaftAddress]--
		return nil, status.Error(codes.Unavailable, "scripted: report refused")
	}
	s.last[nhi.RaftAddress] = nhi
	r := s.replies[nhi.RaftAddress]
	delete(s.replies, nhi.RaftAddress)
	return &pb.NodeHostRequestCollection{Requests: r}, nil
}

func ctx() context.Context {
	c, _ := context.WithTimeout(context.Background(), 15*time.Second)
	return c
}

type host struct {
	*nhx.Host
	dc *client.DrummerClient
}

func newHost() *host {
	h := nhx.NewHost(5)
	return &host{h, client.NewDrummerClient(h.NH)}
}

func (h *host) stop() { h.dc.Stop(); h.Close() }

type J = map[string]interface{}

var run *hx.Run

func reportLine(nhi *pb.NodeHostInfo) string {
	var b strings.Builder
	ids := []string{}
	for _, x := range nhi.ShardIdList {
		ids = append(ids, fmt.Sprint(x))
	}
	fmt.Fprintf(&b, "report %s rpc=%s region=%s ids=[%s] plog=%v:", nhi.RaftAddress, nhi.RPCAddress, nhi.Region, strings.Join(ids, ","), nhi.PlogInfoIncluded)
	for _, l := range nhi.PlogInfo {
		fmt.Fprintf(&b, "(%d,%d),", l.ShardId, l.ReplicaId)
	}
	b.WriteString(" ")
	for _, i := range nhi.ShardInfo {
		ks := []uint64{}
		for k := range i.Replicas {
			ks = append(ks, k)
		}
		sort.Slice(ks, func(a, c int) bool { return ks[a] < ks[c] })
		fmt.Fprintf(&b, "[%d/%d cci=%d leader=%v inc=%v pend=%v members=", i.ShardId, i.ReplicaId, i.ConfigChangeIndex, i.IsLeader, i.Incomplete, i.Pending)
		for _, k := range ks {
			fmt.Fprintf(&b, "%d@%s,", k, i.Replicas[k])
		}
		b.WriteString("]")
	}
	return b.String()
}

func main() {
	nhx.Quiet()
	os.Setenv("IOEI", "1")
	seed := flag.Int64("seed", hx.Seed(), "PRNG seed")
	nrep := flag.Int("reports", 300, "report-construction cases")
	ndisp := flag.Int("dispatch", 6, "dispatch batches")
	scenario := flag.Bool("scenario", true, "run the four-NodeHost scenario")
	out := flag.String("out", "", "output directory")
	flag.Parse()
	if *out == "" {
		hx.Die("need -out")
	}
	wd, _ := os.MkdirTemp("", "agent")
	os.Chdir(wd)
	defer os.RemoveAll(wd)
	run = hx.NewRun(*out)
	defer run.Close()
	l, _ := net.Listen("tcp", "127.0.0.1:0")
	d := &scripted{indexes: map[uint64]uint64{}, replies: map[string][]*pb.NodeHostRequest{}, last: map[string]*pb.NodeHostInfo{}, refuse: map[string]int{}}
	gs := grpc.NewServer()
	pb.RegisterDrummerServer(gs, d)
	go gs.Serve(l)
	defer gs.Stop()
	dAddr := l.Addr().String()
	r := hx.Rng(*seed, 0)
	fail := func(clause, sig, what string, ops interface{}) {
		run.Violate(hx.Violation{Property: "C18", Clause: clause, Signature: sig, What: what, Ops: ops})
		if clause == "kill_exact" {
			// the NodeHost side of "a current member is never killed"
			run.Violate(hx.Violation{Property: "C11", Clause: "member_never_killed", Signature: sig, What: what, Ops: ops})
		}
		if clause == "fenced_change" {
			// C02's closed-loop argument assumes dragonboat's ordered config change on every started replica
			run.Violate(hx.Violation{Property: "C02", Clause: "execute_step", Signature: sig, What: what, Ops: ops})
		}
		if clause == "report_lists_everything" {
			// a stray replica Drummer is not told about (a pending one has no view to go by: its entry in the report is the
			// only trace of it) is never asked to be killed
			run.Violate(hx.Violation{Property: "C11", Clause: "stray_keeps_being_reported", Signature: sig, What: what, Ops: ops})
		}
		if clause == "instantiate_table" {
			// the execute step of the report -> schedule -> deliver -> execute loop: the loop model (C01) assumes this table
			run.Violate(hx.Violation{Property: "C01", Clause: "execute_step", Signature: sig, What: what, Ops: ops})
		}
	}

	// (A) report construction: SendNodeHostInfo is a function of the NodeHost info it is given and of what Drummer advertises
	h := newHost()
	for c := 0; c < *nrep; c++ {
		k := 1 + r.Intn(4)
		nhi := dragonboat.NodeHostInfo{RaftAddress: h.Addr}
		locals := []J{}
		adv := [][]uint64{}
		d.mu.Lock()
		d.indexes = map[uint64]uint64{}
		d.mu.Unlock()
		for i := 0; i < k; i++ {
			sid := uint64(1 + i)
			cci := uint64(1 + r.Intn(20))
			pend := r.Intn(4) == 0
			members := map[uint64]string{}
			reps := [][]interface{}{}
			for m := 0; m < 1+r.Intn(3); m++ {
				members[uint64(100*int(sid)+m+1)] = fmt.Sprintf("a%d", m+1)
				reps = append(reps, []interface{}{uint64(100*int(sid) + m + 1), fmt.Sprintf("a%d", m+1)})
			}
			if pend {
				cci, members, reps = 0, nil, nil
			}
			leader := r.Intn(3) == 0
			nhi.ShardInfoList = append(nhi.ShardInfoList, dragonboat.ShardInfo{ShardID: sid, ReplicaID: uint64(100*int(sid) + 1), IsLeader: leader,
				Replicas: members, ConfigChangeIndex: cci, Pending: pend})
			locals = append(locals, J{"s": sid, "r": uint64(100*int(sid) + 1), "cci": cci, "leader": leader, "pend": pend, "reps": reps})
			switch r.Intn(5) {
			case 0: // Drummer does not know the shard
			case 1:
				if cci > 0 {
					adv = append(adv, []uint64{sid, cci - 1})
				}
			case 2, 3:
				adv = append(adv, []uint64{sid, cci})
			default:
				adv = append(adv, []uint64{sid, cci + 1 + uint64(r.Intn(3))})
			}
		}
		d.mu.Lock()
		for _, p := range adv {
			d.indexes[p[0]] = p[1]
		}
		d.mu.Unlock()
		plogInc := r.Intn(2) == 0
		plog := [][]uint64{}
		if plogInc {
			for i := 0; i < r.Intn(4); i++ {
				nhi.LogInfo = append(nhi.LogInfo, raftio.NodeInfo{ShardID: uint64(1 + r.Intn(5)), ReplicaID: uint64(1 + r.Intn(500))})
				plog = append(plog, []uint64{nhi.LogInfo[i].ShardID, nhi.LogInfo[i].ReplicaID})
			}
		}
		op := J{"op": "report", "addr": h.Addr, "api": "api-" + h.Addr, "locals": locals, "adv": adv, "plog_inc": plogInc, "plog": plog}
		// what the NodeHost knows, noted before the call (the call must not change what it was given)
		wantReps := []int{}
		for _, lo := range nhi.ShardInfoList {
			wantReps = append(wantReps, len(lo.Replicas))
		}
		if err := h.dc.SendNodeHostInfo(ctx(), dAddr, nhi, "api-"+h.Addr, plogInc); err != nil {
			run.Count("c18:inconclusive_report")
			continue
		}
		d.mu.Lock()
		got := d.last[h.Addr]
		d.mu.Unlock()
		run.OpLine(op)
		run.OutLine(reportLine(got))
		run.Count("case:report")
		run.Nontrivial(fmt.Sprintf("rep%d", c))
		// Go-side oracle: truthful, never hides news
		advm := map[uint64]uint64{}
		known := map[uint64]bool{}
		for _, p := range adv {
			advm[p[0]], known[p[0]] = p[1], true
		}
		if len(got.ShardInfo) != k || len(got.ShardIdList) != k {
			fail("report_lists_everything", "replica-not-listed", fmt.Sprintf("%d hosted replicas, report lists %d / %d", k, len(got.ShardIdList), len(got.ShardInfo)), op)
		}
		for i, si := range got.ShardInfo {
			if i >= k {
				break
			}
			lo := nhi.ShardInfoList[i]
			news := !known[lo.ShardID] || advm[lo.ShardID] < lo.ConfigChangeIndex || lo.Pending
			if news {
				run.Count("c18:news_case")
				if si.Incomplete || len(si.Replicas) != len(lo.Replicas) {
					fail("never_hides_news", "news-hidden", fmt.Sprintf("shard %d: local version %d, advertised %d (known=%v), pending=%v, but details were left out", lo.ShardID, lo.ConfigChangeIndex, advm[lo.ShardID], known[lo.ShardID], lo.Pending), op)
				}
			} else {
				run.Count("c18:no_news_case")
			}
			if si.ShardId != lo.ShardID || si.ReplicaId != lo.ReplicaID || si.ConfigChangeIndex != lo.ConfigChangeIndex || si.Pending != lo.Pending || si.IsLeader != lo.IsLeader {
				fail("report_truthful", "report-untruthful", fmt.Sprintf("shard %d reported as %d/%d cci %d", lo.ShardID, si.ShardId, si.ReplicaId, si.ConfigChangeIndex), op)
			}
		}
		if got.PlogInfoIncluded != plogInc || len(got.PlogInfo) != len(nhi.LogInfo) {
			fail("loginfo_iff_announced", "loginfo", fmt.Sprintf("log info announced=%v, report says %v with %d records (have %d)", plogInc, got.PlogInfoIncluded, len(got.PlogInfo), len(nhi.LogInfo)), op)
		}
		if c == 0 {
			run.Sample(op)
		}
		// the same NodeHost info goes to the next Drummer server when the first one fails after answering the version query
		// (NodeHostClient.reportNodeHostInfo tries the servers in turn with one info value): this one knows nothing, so
		// every entry has to carry its details
		for i, lo := range nhi.ShardInfoList {
			if len(lo.Replicas) != wantReps[i] {
				fail("report_truthful", "report-changed-its-input", fmt.Sprintf("shard %d: SendNodeHostInfo changed the NodeHost info it was given (%d members before the call, %d after)", lo.ShardID, wantReps[i], len(lo.Replicas)), op)
				break
			}
		}
		d.mu.Lock()
		d.indexes = map[uint64]uint64{}
		d.mu.Unlock()
		if err := h.dc.SendNodeHostInfo(ctx(), dAddr, nhi, "api-"+h.Addr, plogInc); err == nil {
			d.mu.Lock()
			got2 := d.last[h.Addr]
			d.mu.Unlock()
			op2 := J{"op": "report", "addr": h.Addr, "api": "api-" + h.Addr, "locals": locals, "adv": [][]uint64{}, "plog_inc": plogInc, "plog": plog}
			run.OpLine(op2)
			run.OutLine(reportLine(got2))
			run.Count("case:report_resent_to_another_server")
			for i, si := range got2.ShardInfo {
				if i < k && (si.Incomplete || len(si.Replicas) != wantReps[i]) {
					fail("never_hides_news", "news-hidden-on-failover", fmt.Sprintf("shard %d: the info sent again to a server that does not know the shard carries incomplete=%v and %d members, the NodeHost knows %d", si.ShardId, si.Incomplete, len(si.Replicas), wantReps[i]), op2)
					break
				}
			}
		}
	}
	h.stop()

	// (B) dispatch: launch / kill sequences per shard, interleaved across shards
	cfg := &pb.Config{ElectionRTT: 20, HeartbeatRTT: 2, CheckQuorum: true, SnapshotEntries: 100, CompactionOverhead: 50}
	for b := 0; b < *ndisp; b++ {
		h := newHost()
		nsh := 1 + r.Intn(3)
		seqs := map[uint64][]string{}
		total := 0
		for s := 1; s <= nsh; s++ {
			sid := uint64(1000*(b+1) + s)
			n := 1 + r.Intn(4)
			for i := 0; i < n; i++ {
				seqs[sid] = append(seqs[sid], []string{"create", "kill"}[i%2])
			}
			total += n
		}
		reqs := []*pb.NodeHostRequest{}
		jr := []J{}
		pos := map[uint64]int{}
		for len(reqs) < total {
			sids := []uint64{}
			for sid, l := range seqs {
				if pos[sid] < len(l) {
					sids = append(sids, sid)
				}
			}
			sort.Slice(sids, func(i, j int) bool { return sids[i] < sids[j] })
			sid := sids[r.Intn(len(sids))]
			t := seqs[sid][pos[sid]]
			rid := uint64(pos[sid]/2 + 1) // a killed replica id never returns (dragonboat refuses it): every launch uses a fresh id
			pos[sid]++
			if t == "create" {
				reqs = append(reqs, &pb.NodeHostRequest{Change: &pb.Request{Type: pb.Request_CREATE, ShardId: sid, Members: []uint64{rid}}, ReplicaIdList: []uint64{rid},
					AddressList: []string{h.Addr}, InstantiateReplicaId: rid, RaftAddress: h.Addr, AppName: "kvtest", Config: cfg})
			} else {
				reqs = append(reqs, &pb.NodeHostRequest{Change: &pb.Request{Type: pb.Request_KILL, ShardId: sid, Members: []uint64{rid}}, RaftAddress: h.Addr})
			}
			jr = append(jr, J{"t": t, "s": sid, "members": []uint64{rid}, "ids": []uint64{rid}, "addrs": []string{h.Addr}, "inst": rid, "addr": h.Addr, "app": "kvtest"})
		}
		d.mu.Lock()
		d.replies[h.Addr] = reqs
		d.mu.Unlock()
		op := J{"op": "dispatch", "reqs": jr}
		crashed := func() (c bool) {
			defer func() {
				if rec := recover(); rec != nil {
					c = true
				}
			}()
			nhi := h.NH.GetNodeHostInfo(dragonboat.DefaultNodeHostInfoOption)
			if err := h.dc.SendNodeHostInfo(ctx(), dAddr, *nhi, "api", false); err != nil {
				panic(err)
			}
			if err := h.dc.HandleMasterRequests(ctx()); err != nil {
				panic(err)
			}
			return false
		}()
		running := map[uint64]bool{}
		for _, ci := range h.NH.GetNodeHostInfo(dragonboat.DefaultNodeHostInfoOption).ShardInfoList {
			running[ci.ShardID] = true
		}
		sids := []uint64{}
		for sid := range seqs {
			sids = append(sids, sid)
		}
		sort.Slice(sids, func(i, j int) bool { return sids[i] < sids[j] })
		var sb strings.Builder
		sb.WriteString("final ")
		for _, sid := range sids {
			fmt.Fprintf(&sb, "%d:%v,", sid, running[sid])
			want := seqs[sid][len(seqs[sid])-1] == "create"
			if running[sid] != want {
				fail("dispatch_once_in_order", "order-or-count", fmt.Sprintf("shard %d received %v in this order; afterwards running=%v", sid, seqs[sid], running[sid]), op)
			}
			if !want && h.NH.HasNodeInfo(sid, uint64(len(seqs[sid])/2)) {
				fail("kill_erases", "kill-left-data", fmt.Sprintf("shard %d: the killed replica's data is still there", sid), op)
			}
		}
		if crashed {
			fail("dispatch_once_in_order", "dispatch-crash", "executing a batch of launch / kill requests crashed the agent", op)
		}
		// the queue is empty afterwards: handling again must change nothing
		h.dc.HandleMasterRequests(ctx())
		after := map[uint64]bool{}
		for _, ci := range h.NH.GetNodeHostInfo(dragonboat.DefaultNodeHostInfoOption).ShardInfoList {
			after[ci.ShardID] = true
		}
		for _, sid := range sids {
			if after[sid] != running[sid] {
				fail("dispatch_once_in_order", "executed-twice", fmt.Sprintf("shard %d changed state when the (empty) queue was handled again", sid), op)
			}
		}
		run.OpLine(op)
		run.OutLine(sb.String())
		run.Count("case:dispatch_batch")
		run.Add("c18:dispatched_requests", total)
		run.Nontrivial(fmt.Sprintf("disp%d", b))
		h.stop()
	}
	if *scenario {
		runScenario(d, dAddr, cfg, fail)
		concurrentDelivery(d, dAddr, cfg, fail)
		bigBatch(d, dAddr, cfg, fail)
		failoverReports(d, dAddr, cfg, fail)
		reportAfterARefusedReport(d, dAddr, fail)
	}
}

// runScenario: the intended effect of every request kind on real NodeHosts (this is also the validation of the fleet
// half of the closed-loop model against dragonboat).
func runScenario(d *scripted, dAddr string, cfg *pb.Config, fail func(clause, sig, what string, ops interface{})) {
	hosts := []*host{newHost(), newHost(), newHost(), newHost()}
	defer func() {
		for _, h := range hosts {
			h.stop()
		}
	}()
	A, B, C, D := hosts[0], hosts[1], hosts[2], hosts[3]
	const sid = 77
	round := func(h *host, plog bool) {
		nhi := h.NH.GetNodeHostInfo(dragonboat.DefaultNodeHostInfoOption)
		if !plog {
			nhi.LogInfo = nil
		}
		if err := h.dc.SendNodeHostInfo(ctx(), dAddr, *nhi, "api-"+h.Addr, plog); err != nil {
			run.Count("c18:inconclusive_report")
			return
		}
		h.dc.HandleMasterRequests(ctx())
	}
	info := func(h *host) *dragonboat.ShardInfo {
		for _, ci := range h.NH.GetNodeHostInfo(dragonboat.DefaultNodeHostInfoOption).ShardInfoList {
			if ci.ShardID == sid {
				c := ci
				return &c
			}
		}
		return nil
	}
	members := func(h *host) string {
		ci := info(h)
		if ci == nil {
			return "none"
		}
		ks := []uint64{}
		for k := range ci.Replicas {
			ks = append(ks, k)
		}
		sort.Slice(ks, func(i, j int) bool { return ks[i] < ks[j] })
		return fmt.Sprint(ks)
	}
	// wait until cond holds (infrastructure: elections, replication); false = inconclusive
	wait := func(cond func() bool) bool {
		for i := 0; i < 400; i++ {
			if cond() {
				return true
			}
			time.Sleep(25 * time.Millisecond)
		}
		return false
	}
	cci := func(h *host) uint64 {
		if ci := info(h); ci != nil && !ci.Pending {
			return ci.ConfigChangeIndex
		}
		return 0
	}
	set := func(h *host, reqs ...*pb.NodeHostRequest) {
		d.mu.Lock()
		d.replies[h.Addr] = reqs
		d.mu.Unlock()
	}
	step := func(name string) { run.Count("case:scenario_" + name) }
	// one row of the launch / join / restore decision table, as observed on the real NodeHost
	inst := func(join, restore, has, started bool) {
		run.OpLine(J{"op": "inst", "join": join, "restore": restore, "has": has})
		run.OutLine(fmt.Sprintf("inst started=%v", started))
		run.Count("case:instantiate_row")
	}
	ids := []uint64{1, 2, 3}
	addrs := []string{A.Addr, B.Addr, C.Addr}
	// 1. launch
	for i, h := range []*host{A, B, C} {
		set(h, &pb.NodeHostRequest{Change: &pb.Request{Type: pb.Request_CREATE, ShardId: sid, Members: ids}, ReplicaIdList: ids, AddressList: addrs,
			InstantiateReplicaId: ids[i], RaftAddress: h.Addr, AppName: "kvtest", Config: cfg})
		round(h, true)
	}
	step("launch")
	inst(false, false, false, wait(func() bool { return info(A) != nil }))
	if !wait(func() bool { return cci(A) > 0 && members(A) == "[1 2 3]" }) {
		fail("instantiate_table", "launch-no-effect", "launch requests did not start a shard with the zipped peers: members "+members(A), nil)
		return
	}
	v1 := cci(A)
	// (a membership change is dropped while the shard has no leader: wait for one, so that the next step is not vacuous)
	if !wait(func() bool { _, _, ok, err := A.NH.GetLeaderID(sid); return ok && err == nil }) {
		run.Count("c18:inconclusive_scenario")
		return
	}
	// 2. fenced ADD: wrong version has no effect, the right one applies
	add := func(ver uint64) *pb.NodeHostRequest {
		return &pb.NodeHostRequest{Change: &pb.Request{Type: pb.Request_ADD, ShardId: sid, Members: []uint64{4}, ConfChangeId: ver}, RaftAddress: A.Addr, AddressList: []string{D.Addr}}
	}
	set(A, add(v1+100))
	round(A, false)
	time.Sleep(400 * time.Millisecond)
	step("add_wrong_version")
	if members(A) != "[1 2 3]" {
		fail("fenced_change", "unfenced-add", "an add-member request carrying a wrong membership version took effect: members "+members(A), nil)
	}
	// version 0 is a version like any other: the shard's membership is past it, so the request is stale
	if v1 > 0 {
		set(A, add(0))
		round(A, false)
		time.Sleep(400 * time.Millisecond)
		step("add_version_zero")
		if members(A) != "[1 2 3]" {
			fail("fenced_change", "unfenced-add-version-zero", fmt.Sprintf("an add-member request carrying membership version 0 took effect on a shard at version %d: members %s", v1, members(A)), nil)
			return
		}
	}
	set(A, add(v1))
	round(A, false)
	step("add_right_version")
	if !wait(func() bool { return members(A) == "[1 2 3 4]" }) {
		if cci(A) == v1 {
			run.Count("c18:inconclusive_scenario")
		} else {
			fail("fenced_change", "add-no-effect", "an add-member request with the current version did not add the member: members "+members(A), nil)
		}
		return
	}
	v2 := cci(A)
	// 3. join
	m4 := []uint64{1, 2, 3, 4}
	a4 := []string{A.Addr, B.Addr, C.Addr, D.Addr}
	set(D, &pb.NodeHostRequest{Change: &pb.Request{Type: pb.Request_CREATE, ShardId: sid, Members: m4}, ReplicaIdList: m4, AddressList: a4,
		InstantiateReplicaId: 4, RaftAddress: D.Addr, Join: true, AppName: "kvtest", Config: cfg})
	round(D, false)
	step("join")
	joined := wait(func() bool { return info(D) != nil && info(D).ReplicaID == 4 })
	inst(true, false, false, joined)
	if !joined {
		fail("instantiate_table", "join-no-effect", "a join request did not start the replica", nil)
		return
	}
	// 4. fenced DELETE delivered twice: applied once
	del := &pb.NodeHostRequest{Change: &pb.Request{Type: pb.Request_DELETE, ShardId: sid, Members: []uint64{3}, ConfChangeId: v2}, RaftAddress: B.Addr}
	set(B, del, del)
	round(B, false)
	step("delete_twice")
	if !wait(func() bool { return members(A) == "[1 2 4]" }) {
		if cci(A) == v2 {
			run.Count("c18:inconclusive_scenario")
		} else {
			fail("fenced_change", "delete-effect", "a remove-member request delivered twice with the same version left members "+members(A), nil)
		}
		return
	}
	// 5. kill + erase on C (C may already have stopped by itself when it applied its own removal)
	set(C, &pb.NodeHostRequest{Change: &pb.Request{Type: pb.Request_KILL, ShardId: sid, Members: []uint64{3}}, RaftAddress: C.Addr})
	// (fleet model, `Loop.settle`: a replica that applies its own removal stops; a removed replica may also never learn
	// of it and stay as a stray, which is what the kill request is for)
	if wait(func() bool { return info(C) == nil }) {
		run.Count("c18:removed_replica_stopped_by_itself")
	} else {
		run.Count("c18:removed_replica_stayed_as_stray")
	}
	stillRunning := info(C) != nil
	round(C, true)
	step("kill")
	if !wait(func() bool { return info(C) == nil }) {
		fail("kill_erases", "kill-no-effect", "a kill request did not stop the stray replica", nil)
	}
	if stillRunning && C.NH.HasNodeInfo(sid, 3) {
		fail("kill_erases", "kill-left-data", "a kill request for a running stray replica left its data behind", nil)
	}
	// 6. restart B (data preserved), it runs nothing until told; restore brings replica 2 back
	bdir, baddr := B.Dir, B.Addr
	B.dc.Stop()
	B.NH.Close()
	nb := nhx.ReopenHost(bdir, baddr, 5)
	B.Host = nb
	B.dc = client.NewDrummerClient(nb.NH)
	round(B, true)
	step("restart")
	if info(B) != nil {
		fail("instantiate_table", "restart-runs-replica", "a restarted NodeHost runs a replica without having been told", nil)
	}
	d.mu.Lock()
	rep := d.last[B.Addr]
	d.mu.Unlock()
	hasLog := false
	if rep != nil {
		for _, li := range rep.PlogInfo {
			if li.ShardId == sid && li.ReplicaId == 2 {
				hasLog = true
			}
		}
	}
	if !hasLog {
		fail("loginfo_iff_announced", "restart-log-missing", "the first report of a restarted NodeHost does not list the persisted log of its replica", nil)
	}
	m := []uint64{1, 2, 4}
	am := []string{A.Addr, B.Addr, D.Addr}
	set(B, &pb.NodeHostRequest{Change: &pb.Request{Type: pb.Request_CREATE, ShardId: sid, Members: m}, ReplicaIdList: m, AddressList: am,
		InstantiateReplicaId: 2, RaftAddress: B.Addr, Restore: true, AppName: "kvtest", Config: cfg})
	round(B, false)
	step("restore")
	restored := wait(func() bool { return info(B) != nil && info(B).ReplicaID == 2 })
	inst(false, true, true, restored)
	if !restored {
		fail("instantiate_table", "restore-no-effect", "a restore request did not restart the replica from its data", nil)
	}
	// 6b. the restored replica fences membership changes like a launched one: a change carrying a stale version, handed to
	// the restored replica's NodeHost, has no effect on any replica
	if restored && wait(func() bool { return members(B) == "[1 2 4]" }) {
		stale := cci(A) - 1
		if cci(A) > 0 && stale > 0 {
			wait(func() bool { return cci(B) == cci(A) && cci(B) == cci(D) })
			va, vb := cci(A), cci(B)
			if vb > va && va == cci(D) && va != 0 {
				// the same log applied under the same rules gives the same membership version on every replica; a restored
				// replica that is ahead of two replicas which never stopped has accepted a change they refused
				time.Sleep(time.Second)
				if cci(A) == va && cci(B) == vb && cci(D) == va {
					fail("fenced_change", "restored-replica-membership-diverges", fmt.Sprintf("the replica started by a restore request ended up at membership version %d while the replicas that kept running are at %d: it accepted a change they refused as stale", vb, va), nil)
				}
			}
			// (a membership change can be dropped on its way - leader busy with another one, transfer in progress - so the stale
			// request is delivered up to four times; on a fenced replica none of them can have an effect)
			for try := 0; try < 4; try++ {
				set(B, &pb.NodeHostRequest{Change: &pb.Request{Type: pb.Request_DELETE, ShardId: sid, Members: []uint64{4}, ConfChangeId: stale}, RaftAddress: B.Addr})
				round(B, false)
				changed := false
				for i := 0; i < 24 && !changed; i++ {
					time.Sleep(25 * time.Millisecond)
					changed = members(B) != "[1 2 4]" || members(A) != "[1 2 4]" || cci(B) != vb || cci(A) != va
				}
				if changed {
					break
				}
			}
			step("stale_change_after_restore")
			if va != vb {
				run.Count("c18:inconclusive_scenario")
			} else if members(B) != "[1 2 4]" || members(A) != "[1 2 4]" || cci(B) != vb || cci(A) != va {
				fail("fenced_change", "unfenced-change-after-restore", "a remove-member request carrying a stale membership version, executed on a NodeHost whose replica was started by a restore request, took effect: members seen by the restored replica "+members(B)+", by another replica "+members(A)+fmt.Sprintf("; membership version of the restored replica %d -> %d, of the other %d -> %d", vb, cci(B), va, cci(A)), nil)
			}
		}
	}
	// 7. restore for a replica without data: refused
	set(C, &pb.NodeHostRequest{Change: &pb.Request{Type: pb.Request_CREATE, ShardId: sid, Members: m}, ReplicaIdList: m, AddressList: am,
		InstantiateReplicaId: 9, RaftAddress: C.Addr, Restore: true, AppName: "kvtest", Config: cfg})
	round(C, false)
	time.Sleep(300 * time.Millisecond)
	step("restore_without_data")
	inst(false, true, false, info(C) != nil)
	if info(C) != nil {
		fail("instantiate_table", "restore-without-data", "a restore request for a replica without data started a replica", nil)
	}
	// 8. the joined replica's host restarts before Drummer saw the replica: Drummer resends the same join request
	// (shardRepair.createRequired), which has to start the replica from its data
	ddir, daddr := D.Dir, D.Addr
	D.dc.Stop()
	D.NH.Close()
	nd := nhx.ReopenHost(ddir, daddr, 5)
	D.Host = nd
	D.dc = client.NewDrummerClient(nd.NH)
	m5 := []uint64{1, 2, 4}
	a5 := []string{A.Addr, B.Addr, D.Addr}
	set(D, &pb.NodeHostRequest{Change: &pb.Request{Type: pb.Request_CREATE, ShardId: sid, Members: m5}, ReplicaIdList: m5, AddressList: a5,
		InstantiateReplicaId: 4, RaftAddress: D.Addr, Join: true, AppName: "kvtest", Config: cfg})
	round(D, false)
	step("join_again_after_restart")
	rejoined := wait(func() bool { return info(D) != nil && info(D).ReplicaID == 4 })
	inst(true, false, true, rejoined)
	if !rejoined {
		fail("instantiate_table", "join-after-restart-no-effect", "a join request resent to a restarted NodeHost that already holds the replica's data did not start the replica", nil)
	}
	// 9. a stale kill request naming another replica of the shard than the one running here must leave that one alone
	if rejoined {
		set(D, &pb.NodeHostRequest{Change: &pb.Request{Type: pb.Request_KILL, ShardId: sid, Members: []uint64{3}}, RaftAddress: D.Addr})
		round(D, false)
		time.Sleep(500 * time.Millisecond)
		step("kill_names_another_replica")
		if ci := info(D); ci == nil || ci.ReplicaID != 4 {
			fail("kill_exact", "kill-stopped-another-replica", "a kill request for replica 3 stopped replica 4 of the same shard, a current member, on the NodeHost that received it", nil)
		} else if !D.NH.HasNodeInfo(sid, 4) {
			fail("kill_exact", "kill-erased-another-replica", "a kill request for replica 3 erased the data of replica 4 of the same shard", nil)
		}
	}
}

// concurrentDelivery: a batch arrives (reply to a report) while the previous batch is still being executed by
// HandleMasterRequests in another goroutine, as reporter and executor do in the real NodeHost process. The batch in
// flight must be executed completely and in order, the new one exactly once afterwards.
func concurrentDelivery(d *scripted, dAddr string, cfg *pb.Config, fail func(clause, sig, what string, ops interface{})) {
	h := newHost()
	defer h.stop()
	const s1, s2, s3 = 9001, 9002, 9003
	set := func(reqs ...*pb.NodeHostRequest) {
		d.mu.Lock()
		d.replies[h.Addr] = reqs
		d.mu.Unlock()
	}
	report := func() bool {
		nhi := h.NH.GetNodeHostInfo(dragonboat.DefaultNodeHostInfoOption)
		nhi.LogInfo = nil
		return h.dc.SendNodeHostInfo(ctx(), dAddr, *nhi, "api", false) == nil
	}
	info := func(sid uint64) *dragonboat.ShardInfo {
		for _, ci := range h.NH.GetNodeHostInfo(dragonboat.DefaultNodeHostInfoOption).ShardInfoList {
			if ci.ShardID == sid {
				c := ci
				return &c
			}
		}
		return nil
	}
	wait := func(cond func() bool) bool {
		for i := 0; i < 400; i++ {
			if cond() {
				return true
			}
			time.Sleep(25 * time.Millisecond)
		}
		return false
	}
	create := func(sid uint64) *pb.NodeHostRequest {
		return &pb.NodeHostRequest{Change: &pb.Request{Type: pb.Request_CREATE, ShardId: sid, Members: []uint64{1}}, ReplicaIdList: []uint64{1},
			AddressList: []string{h.Addr}, InstantiateReplicaId: 1, RaftAddress: h.Addr, AppName: "kvtest", Config: cfg}
	}
	// launch shard s1, then give it a second member on an unreachable address: from now on no further change commits
	set(create(s1))
	if !report() {
		run.Count("c18:inconclusive_concurrent_step_1")
		return
	}
	h.dc.HandleMasterRequests(ctx())
	if !wait(func() bool {
		ci := info(s1)
		_, _, ok, err := h.NH.GetLeaderID(s1)
		return ci != nil && !ci.Pending && ci.ConfigChangeIndex > 0 && ok && err == nil
	}) {
		run.Count("c18:inconclusive_concurrent_step_2")
		return
	}
	v := info(s1).ConfigChangeIndex
	set(&pb.NodeHostRequest{Change: &pb.Request{Type: pb.Request_ADD, ShardId: s1, Members: []uint64{2}, ConfChangeId: v}, RaftAddress: h.Addr, AddressList: []string{"127.0.0.1:1"}})
	report()
	h.dc.HandleMasterRequests(ctx())
	if !wait(func() bool { ci := info(s1); return ci != nil && len(ci.Replicas) == 2 }) {
		run.Count("c18:inconclusive_concurrent_step_3")
		return
	}
	v2 := info(s1).ConfigChangeIndex
	// batch A: an add-member that cannot commit (blocks until the local timeout), then the kill of the local replica
	set(&pb.NodeHostRequest{Change: &pb.Request{Type: pb.Request_ADD, ShardId: s1, Members: []uint64{3}, ConfChangeId: v2}, RaftAddress: h.Addr, AddressList: []string{"127.0.0.1:2"}},
		&pb.NodeHostRequest{Change: &pb.Request{Type: pb.Request_KILL, ShardId: s1, Members: []uint64{1}}, RaftAddress: h.Addr})
	report()
	done := make(chan struct{})
	go func() {
		c, cancel := context.WithTimeout(context.Background(), 60*time.Second)
		defer cancel()
		h.dc.HandleMasterRequests(c)
		close(done)
	}()
	time.Sleep(400 * time.Millisecond)
	// batch B arrives while A is being executed
	set(create(s2), create(s3))
	report()
	select {
	case <-done:
	case <-time.After(90 * time.Second):
		run.Count("c18:inconclusive_concurrent_step_4")
		return
	}
	h.dc.HandleMasterRequests(ctx())
	run.Count("case:scenario_concurrent_delivery")
	ops := []string{"launch shard 9001", "add member 2 on an unreachable address", "batch A = [add member 3 (blocks), kill replica 1 of 9001] being executed", "batch B = [launch 9002, launch 9003] received meanwhile", "execute again"}
	if !wait(func() bool { return info(s1) == nil }) {
		fail("dispatch_once_in_order", "batch-in-flight-disturbed", "a batch received while another one was being executed made the batch in flight lose its kill request (the replica still runs)", ops)
	} else if h.NH.HasNodeInfo(s1, 1) {
		fail("kill_erases", "kill-left-data", "the kill request of the batch in flight did not erase the replica's data", ops)
	}
	if !wait(func() bool { return info(s2) != nil && info(s3) != nil }) {
		fail("dispatch_once_in_order", "batch-received-meanwhile-lost", "requests received while another batch was being executed were not executed afterwards", ops)
	}
}

// bigBatch: two replies are queued before the executor drains the queue - start requests for seven shards, then kill
// requests for the same seven replicas (fourteen requests in one drained batch, the requests of a shard far apart).
// Requests for one shard are executed in the order received: every replica is started and then killed, nothing is left.
func bigBatch(d *scripted, dAddr string, cfg *pb.Config, fail func(clause, sig, what string, ops interface{})) {
	h := newHost()
	defer h.stop()
	report := func(reqs []*pb.NodeHostRequest) bool {
		d.mu.Lock()
		d.replies[h.Addr] = reqs
		d.mu.Unlock()
		nhi := h.NH.GetNodeHostInfo(dragonboat.DefaultNodeHostInfoOption)
		nhi.LogInfo = nil
		return h.dc.SendNodeHostInfo(ctx(), dAddr, *nhi, "api", false) == nil
	}
	const n = 7
	creates, kills := []*pb.NodeHostRequest{}, []*pb.NodeHostRequest{}
	ops := []J{}
	for i := 0; i < n; i++ {
		sid := uint64(9101 + i)
		creates = append(creates, &pb.NodeHostRequest{Change: &pb.Request{Type: pb.Request_CREATE, ShardId: sid, Members: []uint64{1}}, ReplicaIdList: []uint64{1},
			AddressList: []string{h.Addr}, InstantiateReplicaId: 1, RaftAddress: h.Addr, AppName: "kvtest", Config: cfg})
		kills = append(kills, &pb.NodeHostRequest{Change: &pb.Request{Type: pb.Request_KILL, ShardId: sid, Members: []uint64{1}}, RaftAddress: h.Addr})
	}
	for i := 0; i < n; i++ {
		ops = append(ops, J{"t": "create", "s": 9101 + i})
	}
	for i := 0; i < n; i++ {
		ops = append(ops, J{"t": "kill", "s": 9101 + i})
	}
	if !report(creates) || !report(kills) {
		run.Count("c18:inconclusive_big_batch")
		return
	}
	h.dc.HandleMasterRequests(ctx())
	run.Count("case:big_batch")
	time.Sleep(100 * time.Millisecond)
	for _, ci := range h.NH.GetNodeHostInfo(dragonboat.DefaultNodeHostInfoOption).ShardInfoList {
		if ci.ShardID >= 9101 && ci.ShardID < 9101+n {
			fail("dispatch_in_order", "same-shard-requests-reordered", fmt.Sprintf("one drained batch of %d requests (start requests for %d shards, then kill requests for the same replicas): replica 1 of shard %d is still running, its kill request was executed before its start request", 2*n, n, ci.ShardID), ops)
			return
		}
	}
	for i := 0; i < n; i++ {
		if h.NH.HasNodeInfo(uint64(9101+i), 1) {
			fail("dispatch_in_order", "same-shard-requests-reordered", fmt.Sprintf("after start-then-kill in one drained batch the data of shard %d is still on disk", 9101+i), ops)
			return
		}
	}
}

// reportAfterARefusedReport: one report is answered with an RPC error (Drummer restarting, a dropped connection); the
// reports after it have to reach Drummer again and bring back what is waiting for the NodeHost - a NodeHost that stays
// silent after one failed report is never seen alive again and can never be told to restore anything (C01, C18)
func reportAfterARefusedReport(d *scripted, dAddr string, fail func(clause, sig, what string, ops interface{})) {
	h := newHost()
	defer h.stop()
	send := func() error {
		nhi := h.NH.GetNodeHostInfo(dragonboat.DefaultNodeHostInfoOption)
		return h.dc.SendNodeHostInfo(ctx(), dAddr, *nhi, "api-"+h.Addr, false)
	}
	for i := 0; i < 2; i++ {
		if send() != nil {
			run.Count("c18:inconclusive_refused_report")
			return
		}
	}
	d.mu.Lock()
	d.refuse[h.Addr] = 1
	delete(d.last, h.Addr)
	d.mu.Unlock()
	first := send()
	arrived := 0
	for i := 0; i < 5; i++ {
		if send() == nil {
			d.mu.Lock()
			if d.last[h.Addr] != nil {
				arrived++
			}
			delete(d.last, h.Addr)
			d.mu.Unlock()
		}
	}
	run.Count("case:report_after_refused_report")
	if first == nil {
		run.Count("c18:inconclusive_refused_report") // the refusal did not reach the agent as an error
		return
	}
	if arrived == 0 {
		why := "two reports arrive, one is answered with an RPC error, and none of the five report cycles after it reaches Drummer: the NodeHost is up and silent for good"
		ops := []string{"report", "report", "report (answered Unavailable)", "report x5"}
		fail("reports_keep_flowing", "silent-after-one-refused-report", why, ops)
		run.Violate(hx.Violation{Property: "C01", Clause: "report_step", Signature: "silent-after-one-refused-report", What: why, Ops: ops})
	}
}

// failoverReports: the agent's report cycle with several Drummer servers of which only one answers (the agent tries them in
// a random order). Whatever server the report reaches, and after however many failed attempts, it lists the persisted
// logs exactly when it announces them.
func failoverReports(d *scripted, dAddr string, cfg *pb.Config, fail func(clause, sig, what string, ops interface{})) {
	h := newHost()
	defer h.stop()
	const sid = 9201
	d.mu.Lock()
	d.replies[h.Addr] = []*pb.NodeHostRequest{{Change: &pb.Request{Type: pb.Request_CREATE, ShardId: sid, Members: []uint64{1}}, ReplicaIdList: []uint64{1},
		AddressList: []string{h.Addr}, InstantiateReplicaId: 1, RaftAddress: h.Addr, AppName: "kvtest", Config: cfg}}
	d.mu.Unlock()
	nhi := h.NH.GetNodeHostInfo(dragonboat.DefaultNodeHostInfoOption)
	if h.dc.SendNodeHostInfo(ctx(), dAddr, *nhi, "api", false) != nil {
		run.Count("c18:inconclusive_failover")
		return
	}
	h.dc.HandleMasterRequests(ctx())
	for i := 0; i < 200 && !h.NH.HasNodeInfo(sid, 1); i++ {
		time.Sleep(10 * time.Millisecond)
	}
	// the servers that fail answer every call with an error at once (an unreachable address would cost a connection
	// timeout per attempt)
	bl, _ := net.Listen("tcp", "127.0.0.1:0")
	bad := grpc.NewServer()
	pb.RegisterDrummerServer(bad, &pb.UnimplementedDrummerServer{})
	go bad.Serve(bl)
	defer bad.Stop()
	dead := func() string { return bl.Addr().String() }
	agent := client.VerifNewNodeHostClient(h.NH, []string{dead(), dead(), dAddr, dead()}, "api-"+h.Addr)
	for round := 0; round < 16; round++ {
		plog := round%2 == 0
		d.mu.Lock()
		delete(d.last, h.Addr)
		d.mu.Unlock()
		agent.VerifReport(plog)
		d.mu.Lock()
		got := d.last[h.Addr]
		d.mu.Unlock()
		if got == nil {
			run.Count("c18:inconclusive_failover_round")
			continue
		}
		run.Count("case:failover_report")
		listed := false
		for _, li := range got.PlogInfo {
			listed = listed || (li.ShardId == sid && li.ReplicaId == 1)
		}
		op := J{"op": "report-cycle", "servers": "3 of 4 answer every call with an error, tried in random order", "announce_log_info": plog}
		switch {
		case got.PlogInfoIncluded != plog:
			fail("loginfo_exact", "loginfo-flag-after-failover", fmt.Sprintf("the report cycle was asked to announce log information = %v, the report that arrived says %v", plog, got.PlogInfoIncluded), op)
			return
		case plog && !listed:
			fail("loginfo_exact", "loginfo-missing-after-failover", fmt.Sprintf("the report announces persisted-log information but does not list replica 1 of shard %d, whose log is on disk (it lists %d records): Drummer reads this as a lost disk", sid, len(got.PlogInfo)), op)
			return
		case !plog && len(got.PlogInfo) != 0:
			fail("loginfo_exact", "loginfo-unannounced-after-failover", "the report lists persisted logs without announcing them", op)
			return
		}
	}
}
