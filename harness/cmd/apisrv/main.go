// apisrv: correspondence driver for M-API. The real Drummer service
// implementation (server.go, built through the verif hook) on a real in-process
// single-replica NodeHost running the real Drummer DB: sequences of API calls
// (define shard, set regions, set bootstrapped, report, get shards / NodeHosts
// / states / version list / deployment info) with well-formed and malformed
// arguments, interleaved with the commands the Drummer leader proposes itself
// (ticks, request batches), compared call by call with the Lean model. Calls
// that could crash the replicated DB (F-C17) are first tried in a child
// process; a child that dies is the failing input.
package main

import (
	"context"
	"encoding/hex"
	"flag"
	"fmt"
	"math"
	"os"
	"os/exec"
	"sort"
	"strconv"
	"strings"
	"sync"
	"time"

	"github.com/lni/dragonboat/v4"
	"github.com/lni/dragonboat/v4/config"
	sm "github.com/lni/dragonboat/v4/statemachine"
	drummer "github.com/lni/drummer/v3"
	pb "github.com/lni/drummer/v3/drummerpb"
	"google.golang.org/protobuf/proto"
	"verif/harness/internal/dbx"
	"verif/harness/internal/hx"
	"verif/harness/internal/nhx"
)

func ctx() context.Context {
	c, _ := context.WithTimeout(context.Background(), 10*time.Second)
	return c
}

// guardCall: a configuration call made in process; a handler that panics is a finding (the call sequence so far is
// the failing input), not the end of the harness
func guardCall(fail func(clause, sig, what string), name string, f func() string) (res string) {
	defer func() {
		if rec := recover(); rec != nil {
			res = "panic"
			fail("config_never_failstops", "config-call-panics:"+name, fmt.Sprintf("%s made the service handler panic: %v", name, rec))
		}
	}()
	return f()
}

// expCtx: a context whose deadline has passed from its k-th derived operation on (every DB operation of the service
// derives its own context with a timeout, which asks the parent for its deadline once): the k-th operation fails before
// it is issued, the ones before it run normally
type expCtx struct {
	mu sync.Mutex
	n  int
	k  int
}

func (c *expCtx) Deadline() (time.Time, bool) {
	c.mu.Lock()
	defer c.mu.Unlock()
	c.n++
	if c.n >= c.k {
		return time.Now().Add(-time.Second), true
	}
	return time.Time{}, false
}
func (c *expCtx) Done() <-chan struct{}         { return nil }
func (c *expCtx) Err() error                    { return nil }
func (c *expCtx) Value(interface{}) interface{} { return nil }

// replyReadFails: a report is two operations - the report is proposed and applied (the scheduled batch is handed over),
// then the reply is read. A fault between the two (the read fails) is a lost reply and has to look like one: an error.
// An answer without error carries exactly the batch that was scheduled for the address.
func replyReadFails(run *hx.Run) {
	h := nhx.NewDrummerDBHost()
	defer h.Close()
	srv := drummer.VerifNewServer(h.NH)
	for k := 1; k <= 10; k++ {
		addr := fmt.Sprintf("h%d", k)
		batch := &pb.NodeHostRequestCollection{Requests: []*pb.NodeHostRequest{
			{Change: &pb.Request{Type: pb.Request_KILL, ShardId: uint64(k), Members: []uint64{1}}, RaftAddress: addr},
			{Change: &pb.Request{Type: pb.Request_DELETE, ShardId: uint64(k), Members: []uint64{2}, ConfChangeId: 3}, RaftAddress: addr}}}
		if _, err := propose(h, &pb.Update{Type: pb.Update_REQUESTS, Requests: batch}); err != nil {
			run.Count("c17:inconclusive_reply_read_probe")
			continue
		}
		c := &expCtx{k: k}
		reply, err := srv.ReportAvailableNodeHost(c, &pb.NodeHostInfo{RaftAddress: addr, RPCAddress: "rpc-" + addr, Region: "reg0"})
		run.Count("case:report_with_failing_operation")
		if err != nil {
			run.Count("c17:report_with_failing_operation_refused")
			continue
		}
		got := []string{}
		if reply != nil {
			for _, rq := range reply.Requests {
				got = append(got, dbx.ReqStr(rq))
			}
		}
		want := []string{dbx.ReqStr(batch.Requests[0]), dbx.ReqStr(batch.Requests[1])}
		run.Count("c17:report_with_failing_operation_answered")
		if strings.Join(got, ",") != strings.Join(want, ",") {
			ops := []string{fmt.Sprintf("schedule %v for %s", want, addr), fmt.Sprintf("ReportAvailableNodeHost(%s) under a context whose deadline has passed from its operation %d on", addr, k)}
			for _, p := range []string{"C10", "C17"} {
				run.Violate(hx.Violation{Property: p, Clause: "reply_is_the_scheduled_batch", Signature: "answered-report-without-its-batch",
					What: fmt.Sprintf("the report of %s was answered without error with %v; the batch scheduled for it is %v (the report was applied, the read of the reply failed: a lost reply has to be an error, the batch is gone at the next report)", addr, got, want), Ops: ops})
			}
		}
	}
}

// deploymentIDs: the deployment id is any 64-bit value; what the DB holds is what GetDeploymentInfo answers
func deploymentIDs(run *hx.Run) {
	for _, id := range []uint64{1, math.MaxInt64, math.MaxInt64 + 1, math.MaxUint64} {
		h := nhx.NewDrummerDBHost()
		srv := drummer.VerifNewServer(h.NH)
		_, err := propose(h, &pb.Update{Type: pb.Update_KV, KvUpdate: &pb.KV{Key: []byte("deployment-id"), Value: []byte(strconv.FormatUint(id, 10)), Finalized: true}})
		if err != nil {
			run.Count("c17:inconclusive_deployment_id")
			h.Close()
			continue
		}
		di, err := srv.GetDeploymentInfo(ctx(), &pb.Empty{})
		run.Count("case:deployment_id_probe")
		if err != nil || di == nil || di.DeploymentId != id {
			got := "an error"
			if err == nil && di != nil {
				got = fmt.Sprint(di.DeploymentId)
			} else if err != nil {
				got = "error " + err.Error()
			}
			run.Violate(hx.Violation{Property: "C17", Clause: "query_reflects_state", Signature: "deployment-id-not-as-recorded",
				What: fmt.Sprintf("the DB holds deployment id %d; GetDeploymentInfo answered %s", id, got),
				Ops:  []string{fmt.Sprintf("KV deployment-id = %d (finalized)", id), "GetDeploymentInfo"}})
		}
		h.Close()
	}
}

func codeStr(r *pb.ChangeResponse, err error) string {
	if err != nil {
		return "refused"
	}
	return r.Code.String()
}

func malformedCall(srv pb.DrummerServer, kind string) string {
	switch kind {
	case "nomembers":
		return codeStr(srv.SubmitChange(ctx(), &pb.Change{Type: pb.Change_CREATE, ShardId: 7, AppName: "app"}))
	case "emptyapp":
		return codeStr(srv.SubmitChange(ctx(), &pb.Change{Type: pb.Change_CREATE, ShardId: 7, Members: []uint64{1, 2, 3}}))
	case "emptyregions":
		return codeStr(srv.SetRegions(ctx(), &pb.Regions{}))
	case "mismatchedregions":
		return codeStr(srv.SetRegions(ctx(), &pb.Regions{Region: []string{"r1", "r2"}, Count: []uint64{3}}))
	case "morecounts":
		return codeStr(srv.SetRegions(ctx(), &pb.Regions{Region: []string{"r1"}, Count: []uint64{2, 1}}))
	case "countsonly":
		return codeStr(srv.SetRegions(ctx(), &pb.Regions{Count: []uint64{3}}))
	case "badtype1", "badtype3", "badtypeneg":
		// Change.Type is an open enum on the wire: any value but CREATE is malformed
		t := map[string]int32{"badtype1": 1, "badtype3": 3, "badtypeneg": -1}[kind]
		return codeStr(srv.SubmitChange(ctx(), &pb.Change{Type: pb.Change_Type(t), ShardId: 7, Members: []uint64{1, 2, 3}, AppName: "app"}))
	case "edge-shard0", "edge-shardmax", "edge-member0", "edge-dupmembers", "edge-manymembers":
		// well-formed by the letter (members and an application name), with values at the edges of their types: whatever
		// the answer, the replica survives
		c := &pb.Change{Type: pb.Change_CREATE, ShardId: 7, Members: []uint64{1, 2, 3}, AppName: "app"}
		switch kind {
		case "edge-shard0":
			c.ShardId = 0
		case "edge-shardmax":
			c.ShardId = math.MaxUint64
		case "edge-member0":
			c.Members = []uint64{0, 1, 2}
		case "edge-dupmembers":
			c.Members = []uint64{5, 5, 6}
		case "edge-manymembers":
			c.Members = nil
			for i := 1; i <= 2000; i++ {
				c.Members = append(c.Members, uint64(i))
			}
		}
		first := codeStr(srv.SubmitChange(ctx(), c))
		return "edge:" + first + ":" + codeStr(srv.SubmitChange(ctx(), c))
	case "edge-regions-zero", "edge-regions-huge", "edge-regions-dup":
		rg := &pb.Regions{Region: []string{"r"}, Count: []uint64{0}}
		switch kind {
		case "edge-regions-huge":
			rg.Count = []uint64{1 << 63}
		case "edge-regions-dup":
			rg = &pb.Regions{Region: []string{"r", "r"}, Count: []uint64{1, 2}}
		}
		return "edge:" + codeStr(srv.SetRegions(ctx(), rg))
	case "donectx":
		// the four updating calls under a context that is already cancelled, and one that has expired: an error each
		// time (a panic here would kill the child), and nothing changes
		cc, cancel := context.WithCancel(context.Background())
		cancel()
		ec, cancel2 := context.WithDeadline(context.Background(), time.Now().Add(-time.Second))
		defer cancel2()
		for _, c := range []context.Context{cc, ec} {
			if _, err := srv.SubmitChange(c, &pb.Change{Type: pb.Change_CREATE, ShardId: 7, Members: []uint64{1, 2, 3}, AppName: "app"}); err == nil {
				return "accepted:SubmitChange"
			}
			if _, err := srv.SetRegions(c, &pb.Regions{Region: []string{"r"}, Count: []uint64{3}}); err == nil {
				return "accepted:SetRegions"
			}
			if _, err := srv.SetBootstrapped(c, &pb.Empty{}); err == nil {
				return "accepted:SetBootstrapped"
			}
			if _, err := srv.ReportAvailableNodeHost(c, &pb.NodeHostInfo{RaftAddress: "a1", RPCAddress: "rpc-a1", Region: "r"}); err == nil {
				return "accepted:ReportAvailableNodeHost"
			}
		}
		if sc, err := srv.GetShards(ctx(), &pb.Empty{}); err != nil || len(sc.Shards) != 0 {
			return "accepted:state-changed"
		}
		return "refused"
	}
	panic(kind)
}

// restartProbe: the service in front of a DB replica that was restarted from its own snapshot. Variants take the
// snapshot at different points of the mailbox cycle (nothing scheduled yet / a batch waiting / a batch handed out); after
// the restart a batch is scheduled, the addressee reports and must get exactly that batch, and every query still answers.
func restartProbe(kind string) string {
	h := nhx.NewDrummerDBHost()
	srv := drummer.VerifNewServer(h.NH)
	report := func(srv pb.DrummerServer, a string) (*pb.NodeHostRequestCollection, error) {
		return srv.ReportAvailableNodeHost(ctx(), &pb.NodeHostInfo{RaftAddress: a, RPCAddress: "rpc-" + a, Region: "r",
			ShardInfo: []*pb.ShardInfo{{ShardId: 1, ReplicaId: map[string]uint64{"a1": 1, "a2": 2, "a3": 3}[a], ConfigChangeIndex: 3,
				Replicas: map[uint64]string{1: "a1", 2: "a2", 3: "a3"}}}, ShardIdList: []uint64{1}})
	}
	batchFor := func(a string, rid uint64) *pb.NodeHostRequestCollection {
		return &pb.NodeHostRequestCollection{Requests: []*pb.NodeHostRequest{{Change: &pb.Request{Type: pb.Request_KILL, ShardId: 5, Members: []uint64{rid}}, RaftAddress: a}}}
	}
	if _, err := srv.SubmitChange(ctx(), &pb.Change{Type: pb.Change_CREATE, ShardId: 1, Members: []uint64{1, 2, 3}, AppName: "app"}); err != nil {
		return "restart:setup-failed"
	}
	for _, a := range []string{"a1", "a2", "a3"} {
		if _, err := report(srv, a); err != nil {
			return "restart:setup-failed"
		}
	}
	switch kind {
	case "restart-batch-waiting":
		if _, err := propose(h, &pb.Update{Type: pb.Update_REQUESTS, Requests: batchFor("a2", 8)}); err != nil {
			return "restart:setup-failed"
		}
	case "restart-batch-handed-out":
		if _, err := propose(h, &pb.Update{Type: pb.Update_REQUESTS, Requests: batchFor("a2", 8)}); err != nil {
			return "restart:setup-failed"
		}
		if _, err := report(srv, "a2"); err != nil {
			return "restart:setup-failed"
		}
	}
	if _, err := h.NH.SyncRequestSnapshot(ctx(), 0, dragonboat.SnapshotOption{}); err != nil {
		return "restart:setup-failed-snapshot"
	}
	dir, addr := h.Dir, h.Addr
	h.NH.Close()
	h = nhx.ReopenHost(dir, addr, 2)
	if err := h.NH.StartReplica(map[uint64]string{1: addr}, false, drummer.NewDB,
		config.Config{ReplicaID: 1, ShardID: 0, ElectionRTT: 10, HeartbeatRTT: 1}); err != nil {
		return "restart:setup-failed-start"
	}
	ready := false
	for i := 0; i < 2000 && !ready; i++ {
		c, cancel := context.WithTimeout(context.Background(), time.Second)
		_, err := h.NH.SyncGetSession(c, 0)
		cancel()
		ready = err == nil
		if !ready {
			time.Sleep(5 * time.Millisecond)
		}
	}
	if !ready {
		return "restart:setup-failed-ready"
	}
	srv = drummer.VerifNewServer(h.NH)
	res := "restart:ok"
	// what was waiting before the restart is still handed to its addressee, what was handed out is gone at its next report
	if kind == "restart-batch-waiting" {
		reply, err := report(srv, "a2")
		if err != nil || reply == nil || len(reply.Requests) != 1 || reply.Requests[0].Change.Members[0] != 8 {
			res = "restart:waiting-batch-lost"
		}
	}
	if kind == "restart-batch-handed-out" {
		reply, err := report(srv, "a2")
		if err != nil || reply == nil || len(reply.Requests) != 0 {
			res = "restart:handed-out-batch-delivered-again"
		}
	}
	if _, err := propose(h, &pb.Update{Type: pb.Update_REQUESTS, Requests: batchFor("a1", 9)}); err != nil {
		return "restart:inconclusive"
	}
	reply, err := report(srv, "a1")
	if err != nil || reply == nil || len(reply.Requests) != 1 || reply.Requests[0].Change.Members[0] != 9 {
		res = "restart:scheduled-batch-not-delivered"
	}
	sc, err := srv.GetShards(ctx(), &pb.Empty{})
	if err != nil || len(sc.Shards) != 1 {
		res = "restart:definitions-lost"
	}
	h.Close()
	return res
}

func child(kind string) {
	if strings.HasPrefix(kind, "restart-") {
		fmt.Fprintf(os.Stderr, "CHILD-RESULT %s true\n", restartProbe(kind))
		os.Exit(0)
	}
	h := nhx.NewDrummerDBHost()
	srv := drummer.VerifNewServer(h.NH)
	res := malformedCall(srv, kind)
	// the replica must still answer
	_, err := srv.GetShards(ctx(), &pb.Empty{})
	fmt.Fprintf(os.Stderr, "CHILD-RESULT %s %v\n", res, err == nil)
	h.Close()
	os.Exit(0)
}

func propose(h *nhx.Host, u *pb.Update) (sm.Result, error) {
	data, err := proto.Marshal(u)
	if err != nil {
		panic(err)
	}
	var last error
	for try := 0; try < 5; try++ {
		cs := h.NH.GetNoOPSession(0)
		r, err := h.NH.SyncPropose(ctx(), cs, data)
		if err == nil {
			return r, nil
		}
		last = err
	}
	return sm.Result{}, last
}

func main() {
	nhx.Quiet()
	seed := flag.Int64("seed", hx.Seed(), "PRNG seed")
	nseq := flag.Int("n", 12, "number of sequences (one NodeHost each)")
	length := flag.Int("len", 60, "calls per sequence")
	probe := flag.String("probe", "", "child mode: try one malformed call")
	out := flag.String("out", "", "output directory")
	flag.Parse()
	if *probe != "" {
		child(*probe)
		return
	}
	if *out == "" {
		hx.Die("need -out")
	}
	run := hx.NewRun(*out)
	defer run.Close()
	// 1. malformed configuration calls, each in a child process
	safe := map[string]bool{}
	for _, kind := range []string{"nomembers", "emptyapp", "emptyregions", "mismatchedregions", "morecounts", "countsonly", "badtype1", "badtype3", "badtypeneg", "donectx",
		"edge-shard0", "edge-shardmax", "edge-member0", "edge-dupmembers", "edge-manymembers", "edge-regions-zero", "edge-regions-huge", "edge-regions-dup"} {
		cmd := exec.Command(os.Args[0], "-probe", kind)
		outb, err := cmd.CombinedOutput()
		res := ""
		for _, l := range strings.Split(string(outb), "\n") {
			if strings.HasPrefix(l, "CHILD-RESULT ") {
				res = strings.TrimPrefix(l, "CHILD-RESULT ")
			}
		}
		run.Count("case:malformed_probe")
		op := map[string]interface{}{"op": "malformed-call", "kind": kind}
		switch {
		case err != nil || res == "":
			run.Violate(hx.Violation{Property: "C17", Clause: "config_never_failstops", Signature: "config-call-crashes-replica:" + kind,
				What: fmt.Sprintf("a %s configuration call made the replicated DB fail-stop (child process died: %v)", kind, err), Ops: []interface{}{op}})
		case strings.HasPrefix(res, "edge:"):
			// answered one way or the other and the replica is alive (the child checks that it still answers queries)
			run.Count("c17:edge_value_call_survived")
			if !strings.HasSuffix(res, " true") {
				run.Violate(hx.Violation{Property: "C17", Clause: "config_never_failstops", Signature: "config-call-crashes-replica:" + kind,
					What: fmt.Sprintf("after a %s configuration call the replica no longer answers queries (%s)", kind, res), Ops: []interface{}{op}})
			}
		case !strings.HasPrefix(res, "refused"):
			run.Violate(hx.Violation{Property: "C17", Clause: "malformed_refused", Signature: "malformed-accepted:" + kind,
				What: fmt.Sprintf("a %s configuration call was answered %s instead of being refused", kind, res), Ops: []interface{}{op}})
			safe[kind] = true // accepted without a crash: can be run in-process
		default:
			safe[kind] = true
			run.Count("c17:malformed_refused_in_child")
		}
	}
	// 1b. the service in front of a replica restarted from its own snapshot, each variant in a child process (a fail-stop
	// of the DB inside dragonboat kills the process)
	for _, kind := range []string{"restart-nothing-scheduled", "restart-batch-waiting", "restart-batch-handed-out"} {
		cmd := exec.Command(os.Args[0], "-probe", kind)
		outb, err := cmd.CombinedOutput()
		res := ""
		for _, l := range strings.Split(string(outb), "\n") {
			if strings.HasPrefix(l, "CHILD-RESULT ") {
				res = strings.TrimSuffix(strings.TrimPrefix(l, "CHILD-RESULT "), " true")
			}
		}
		run.Count("case:restart_probe")
		op := map[string]interface{}{"op": "restart-probe", "kind": kind,
			"sequence": "define shard 1; reports a1 a2 a3; [schedule a batch for a2; [report a2]]; snapshot; restart the NodeHost; schedule a batch for a1; report a1; GetShards"}
		switch {
		case err != nil || res == "":
			tail := string(outb)
			if len(tail) > 600 {
				tail = tail[len(tail)-600:]
			}
			run.Violate(hx.Violation{Property: "C17", Clause: "report_never_failstops", Signature: "report-after-snapshot-restart-crashes-replica:" + kind,
				What: fmt.Sprintf("after a restart from its own snapshot the replicated DB fail-stopped while serving a report or a request round (child process died: %v): %s", err, tail), Ops: []interface{}{op}})
		case strings.Contains(res, "setup-failed") || strings.Contains(res, "inconclusive"):
			run.Count("c17:restart_probe_inconclusive:" + res)
		case res != "restart:ok":
			run.Violate(hx.Violation{Property: "C17", Clause: "report_reply_after_restart", Signature: res + ":" + kind,
				What: "after a restart from its own snapshot the service answered " + res, Ops: []interface{}{op}})
		default:
			run.Count("c17:restart_probe_ok")
		}
	}
	// 2. call sequences, in process
	oversizedReport(run)
	timedOutRound(run)
	repeatedLaunchRound(run)
	replyReadFails(run)
	slowReport(run)
	deploymentIDs(run)
	for s := 0; s < *nseq; s++ {
		r := hx.Rng(*seed, s)
		g := dbx.NewGen(r, "general")
		g.Malformed = false
		h := nhx.NewDrummerDBHost()
		srv := drummer.VerifNewServer(h.NH)
		run.OpLine(dbx.Op{Op: "new"})
		run.OutLine("new")
		ops := []interface{}{}
		fail := func(clause, sig, what string) {
			run.Violate(hx.Violation{Property: "C17", Clause: clause, Signature: sig, What: what, Seq: s, OpIndex: len(ops), Ops: append([]interface{}{}, ops...)})
			if sig == "submit-outcome" {
				// C13 "the outcome tells the caller who won", at the service level
				run.Violate(hx.Violation{Property: "C13", Clause: "definition_outcome", Signature: sig, What: what, Seq: s, OpIndex: len(ops), Ops: append([]interface{}{}, ops...)})
			}
		}
		emit := func(op interface{}, res string) {
			ops = append(ops, op)
			run.OpLine(op)
			run.OutLine(res)
			run.Count("case:call")
		}
		// reference for the Go-side oracle
		defs := map[uint64]bool{}
		booted := false
		pending := map[string][]string{}
		launched := false
		shardsLine := func() string {
			sc, err := srv.GetShards(ctx(), &pb.Empty{})
			if err != nil {
				return "shards error"
			}
			l := sc.Shards
			sort.Slice(l, func(i, j int) bool { return l[i].ShardId < l[j].ShardId })
			var b strings.Builder
			b.WriteString("shards ")
			for _, c := range l {
				ms := []string{}
				for _, m := range c.Members {
					ms = append(ms, fmt.Sprint(m))
				}
				fmt.Fprintf(&b, "%d:[%s]:%s,", c.ShardId, strings.Join(ms, ","), c.AppName)
			}
			return b.String()
		}
		// what GetShardStates last said about a shard, kept only while nothing but ticks and queries happens
		lastStates := map[uint64]string{}
		for i := 0; i < *length; i++ {
			x := r.Intn(100)
			if !(x >= 50 && x < 62) && x < 72 {
				lastStates = map[uint64]string{}
			}
			switch {
			case x < 10:
				id := uint64(1 + r.Intn(3))
				members := []uint64{}
				for k := 0; k < 1+r.Intn(3); k++ {
					members = append(members, uint64(100*int(id)+k+1))
				}
				app := "app"
				kind := ""
				if r.Intn(4) == 0 {
					kind = []string{"nomembers", "emptyapp"}[r.Intn(2)]
					if !safe[kind] {
						continue
					}
					if kind == "nomembers" {
						members = nil
					} else {
						app = ""
					}
				}
				before := shardsLine()
				res := guardCall(fail, "SubmitChange", func() string {
					return codeStr(srv.SubmitChange(ctx(), &pb.Change{Type: pb.Change_CREATE, ShardId: id, Members: members, AppName: app}))
				})
				emit(dbx.Op{Op: "submit", ID: id, Members: members, App: app}, map[string]string{"OK": "OK", "SHARD_EXIST": "SHARD_EXIST", "BOOTSTRAPPED": "BOOTSTRAPPED", "refused": "refused"}[res])
				want := "OK"
				switch {
				case kind != "":
					want = "refused"
				case booted:
					want = "BOOTSTRAPPED"
				case defs[id]:
					want = "SHARD_EXIST"
				default:
					defs[id] = true
				}
				if res != want {
					fail("config_outcome", "submit-outcome", fmt.Sprintf("SubmitChange answered %s, the DB state dictates %s", res, want))
				}
				if want != "OK" && shardsLine() != before {
					fail("malformed_refused", "refused-call-changed-db", "a refused / rejected definition changed the shard list")
				}
			case x < 16:
				regs := []string{"reg0", "reg1"}
				counts := []uint64{1, 2}
				kind := ""
				if r.Intn(3) == 0 {
					kind = []string{"emptyregions", "mismatchedregions", "morecounts", "countsonly"}[r.Intn(4)]
					if !safe[kind] {
						continue
					}
					switch kind {
					case "emptyregions":
						regs, counts = nil, nil
					case "mismatchedregions":
						counts = counts[:1]
					case "morecounts":
						counts = append(counts, 1)
					default:
						regs = nil
					}
				}
				pr := &pb.Regions{Region: regs, Count: counts}
				raw, _ := proto.Marshal(pr)
				res := guardCall(fail, "SetRegions", func() string { return codeStr(srv.SetRegions(ctx(), pr)) })
				emit(dbx.Op{Op: "regions", Hex: hex.EncodeToString(raw), Regs: regs, Counts: counts}, res)
				if (kind != "") != (res == "refused") {
					fail("malformed_refused", "regions-outcome:"+kind, fmt.Sprintf("SetRegions(%v, %v) answered %s", regs, counts, res))
				}
			case x < 20:
				res := guardCall(fail, "SetBootstrapped", func() string { return codeStr(srv.SetBootstrapped(ctx(), &pb.Empty{})) })
				emit(dbx.Op{Op: "boot"}, res)
				booted = true
				if res != "OK" {
					fail("config_outcome", "boot-outcome", "SetBootstrapped answered "+res)
				}
			case x < 50:
				op := g.Next()
				for op.Op != "report" {
					op = g.Next()
				}
				u := op.ToUpdate()
				// what GetShardStates says about the reported shards just before the report (a query changes nothing)
				type lv struct{ version, leader uint64 }
				beforeReport := map[uint64]lv{}
				for _, ci := range u.NodehostInfo.ShardInfo {
					if st, err := srv.GetShardStates(ctx(), &pb.ShardStateRequest{ShardIdList: []uint64{ci.ShardId}}); err == nil && len(st.Collection) == 1 {
						beforeReport[ci.ShardId] = lv{st.Collection[0].ConfigChangeIndex, st.Collection[0].LeaderReplicaId}
					}
				}
				reply, err := srv.ReportAvailableNodeHost(ctx(), u.NodehostInfo)
				if err != nil {
					hx.Die("report failed: %v", err)
				}
				var b strings.Builder
				b.WriteString("reply ")
				got := []string{}
				for _, rq := range reply.Requests {
					b.WriteString(dbx.ReqStr(rq) + ",")
					got = append(got, dbx.ReqStr(rq))
					if rq.RaftAddress != op.Addr {
						fail("report_reply", "foreign-request-in-reply", "the reply to a report carries a request addressed to another NodeHost")
					}
				}
				emit(op, b.String())
				want := pending[op.Addr]
				delete(pending, op.Addr)
				if strings.Join(got, ",") != strings.Join(want, ",") {
					fail("report_reply", "reply-not-pending-batch", fmt.Sprintf("the reply to %s's report carries %v, pending for it: %v", op.Addr, got, want))
				}
				if len(got) > 0 {
					run.Count("c17:nonempty_reply")
				}
				// an acknowledged report is on record as received now: the NodeHost collection shows the reporter with the DB's
				// current logical time, whatever time field the report itself carried
				if nc, err := srv.GetNodeHostCollection(ctx(), &pb.Empty{}); err == nil {
					found := false
					for _, v := range nc.Collection {
						if v.RaftAddress == op.Addr {
							found = true
							run.Count("c17:report_time_checked")
							if v.LastTick != nc.Tick {
								fail("query_reflects_state", "reported-host-not-stamped-now", fmt.Sprintf("%s just reported at logical time %d, the NodeHost collection shows it with last report time %d (the report carried %d)", op.Addr, nc.Tick, v.LastTick, u.NodehostInfo.LastTick))
							}
						}
					}
					if !found {
						fail("query_reflects_state", "reported-host-missing", fmt.Sprintf("%s just reported and is not in the NodeHost collection", op.Addr))
					}
				}
				// who leads a shard is what its members last said: a replica the view knows, reporting for a membership
				// version at least the view's, is shown as the leader exactly when it says so - whether or not the shard
				// counts as available
				perShard := map[uint64]int{}
				for _, ci := range u.NodehostInfo.ShardInfo {
					perShard[ci.ShardId]++
				}
				for _, ci := range u.NodehostInfo.ShardInfo {
					if perShard[ci.ShardId] != 1 {
						continue
					}
					st, err := srv.GetShardStates(ctx(), &pb.ShardStateRequest{ShardIdList: []uint64{ci.ShardId}})
					if err != nil || len(st.Collection) != 1 {
						continue
					}
					a := st.Collection[0]
					if was, ok := beforeReport[ci.ShardId]; ok && was.version > ci.ConfigChangeIndex && !ci.Pending {
						// a report for an older membership version than the view's is ignored as far as the view goes: who leads
						// the shard is what it was before
						run.Count("c17:leader_checked_after_older_report")
						if a.LeaderReplicaId != was.leader || a.ConfigChangeIndex != was.version {
							fail("query_reflects_state", "older-report-changed-leader", fmt.Sprintf("replica %d of shard %d reported leader=%v for membership version %d, older than the view's %d; GetShardStates showed leader %d before that report and shows leader %d (version %d) after it", ci.ReplicaId, ci.ShardId, ci.IsLeader, ci.ConfigChangeIndex, was.version, was.leader, a.LeaderReplicaId, a.ConfigChangeIndex))
						}
					}
					if _, member := a.Replicas[ci.ReplicaId]; !member || a.ConfigChangeIndex > ci.ConfigChangeIndex {
						continue
					}
					run.Count(fmt.Sprintf("c17:leader_checked_after_report_available_%v", a.State == pb.ShardState_OK))
					if ci.IsLeader != (a.LeaderReplicaId == ci.ReplicaId) {
						fail("query_reflects_state", "leader-not-as-reported", fmt.Sprintf("replica %d of shard %d just reported leader=%v for membership version %d; GetShardStates shows version %d, available=%v, leader %d", ci.ReplicaId, ci.ShardId, ci.IsLeader, ci.ConfigChangeIndex, a.ConfigChangeIndex, a.State == pb.ShardState_OK, a.LeaderReplicaId))
					}
				}
			case x < 62:
				op := dbx.Op{Op: "tick"}
				res, err := propose(h, op.ToUpdate())
				if err != nil {
					hx.Die("tick failed: %v", err)
				}
				emit(op, fmt.Sprintf("applied %d", res.Value))
			case x < 72:
				op := g.Next()
				for op.Op != "reqs" {
					op = g.Next()
				}
				launch, mixed := false, false
				nl := 0
				for k := range op.Reqs {
					if op.Reqs[k].IsLaunch() {
						nl++
					}
				}
				launch = nl > 0
				mixed = nl > 0 && nl != len(op.Reqs)
				if mixed || (launch && launched) || launch {
					continue // launch batches arm the deadline; kept out of this stream
				}
				res, err := propose(h, op.ToUpdate())
				if err != nil {
					hx.Die("batch failed: %v", err)
				}
				emit(op, fmt.Sprintf("applied %d", res.Value))
				by := map[string][]string{}
				for k := range op.Reqs {
					by[op.Reqs[k].Addr] = append(by[op.Reqs[k].Addr], dbx.ReqStr(op.Reqs[k].PB()))
				}
				for a, l := range by {
					pending[a] = l
				}
			case x < 80:
				emit(map[string]string{"op": "getshards"}, shardsLine())
			case x < 87:
				nc, err := srv.GetNodeHostCollection(ctx(), &pb.Empty{})
				if err != nil {
					hx.Die("GetNodeHostCollection: %v", err)
				}
				l := nc.Collection
				sort.Slice(l, func(i, j int) bool { return l[i].RaftAddress < l[j].RaftAddress })
				var b strings.Builder
				fmt.Fprintf(&b, "hosts tick=%d ", nc.Tick)
				for _, v := range l {
					fmt.Fprintf(&b, "%s:%d:%s:%s,", v.RaftAddress, v.LastTick, v.Region, v.RPCAddress)
				}
				emit(map[string]string{"op": "gethosts"}, b.String())
			case x < 92:
				cl, err := srv.GetShardConfigChangeIndexList(ctx(), &pb.Empty{})
				if err != nil {
					hx.Die("GetShardConfigChangeIndexList: %v", err)
				}
				ids := []uint64{}
				for k := range cl.Indexes {
					ids = append(ids, k)
				}
				sort.Slice(ids, func(i, j int) bool { return ids[i] < ids[j] })
				var b strings.Builder
				b.WriteString("cci ")
				for _, k := range ids {
					fmt.Fprintf(&b, "%d:%d,", k, cl.Indexes[k])
				}
				emit(map[string]string{"op": "getcci"}, b.String())
			case x < 98:
				ids := []uint64{}
				for k := 0; k < r.Intn(3); k++ {
					ids = append(ids, uint64(1+r.Intn(4)))
				}
				st, err := srv.GetShardStates(ctx(), &pb.ShardStateRequest{ShardIdList: ids})
				res := "states notfound"
				if err == nil {
					var b strings.Builder
					b.WriteString("states ")
					for _, a := range st.Collection {
						pairs := func(m map[uint64]string) string {
							ks := []uint64{}
							for k := range m {
								ks = append(ks, k)
							}
							sort.Slice(ks, func(i, j int) bool { return ks[i] < ks[j] })
							var p strings.Builder
							for _, k := range ks {
								fmt.Fprintf(&p, "%d@%s,", k, m[k])
							}
							return p.String()
						}
						fmt.Fprintf(&b, "%d:%d:%v:%d:[%s]:[%s],", a.ShardId, a.ConfigChangeIndex, a.State == pb.ShardState_OK, a.LeaderReplicaId, pairs(a.Replicas), pairs(a.RPCAddresses))
						// time alone changes availability and nothing else: who leads, who is a member and where they are reachable
						// is what the hosts last reported
						now := fmt.Sprintf("version %d leader %d members [%s] at [%s]", a.ConfigChangeIndex, a.LeaderReplicaId, pairs(a.Replicas), pairs(a.RPCAddresses))
						if was, ok := lastStates[a.ShardId]; ok {
							run.Count("c17:states_compared_across_ticks")
							if was != now {
								fail("query_reflects_state", "states-changed-without-a-report", fmt.Sprintf("GetShardStates for shard %d answered %q, then with only ticks and queries in between %q", a.ShardId, was, now))
							}
						}
						lastStates[a.ShardId] = now
					}
					res = b.String()
				}
				emit(map[string]interface{}{"op": "getstates", "ids": ids}, res)
				// oracle: the answer covers exactly the requested shards, in order; a request naming a shard Drummer has no
				// view of is refused as a whole (the view's shard set is read through another query)
				if cl, cerr := srv.GetShardConfigChangeIndexList(ctx(), &pb.Empty{}); cerr == nil && len(ids) > 0 {
					allKnown := true
					for _, id := range ids {
						if _, ok := cl.Indexes[id]; !ok {
							allKnown = false
						}
					}
					switch {
					case !allKnown && err == nil:
						fail("query_reflects_state", "states-for-unknown-shard", fmt.Sprintf("GetShardStates(%v) was answered although Drummer has no view of one of the shards (views: %v)", ids, cl.Indexes))
					case allKnown && err != nil:
						fail("query_reflects_state", "states-refused-for-known-shards", fmt.Sprintf("GetShardStates(%v) was refused although Drummer has a view of every shard", ids))
					case allKnown:
						okOrder := len(st.Collection) == len(ids)
						for k := 0; okOrder && k < len(ids); k++ {
							okOrder = st.Collection[k].ShardId == ids[k] && st.Collection[k].ConfigChangeIndex == cl.Indexes[ids[k]]
						}
						if !okOrder {
							fail("query_reflects_state", "states-not-the-requested-shards", fmt.Sprintf("GetShardStates(%v) answered %s", ids, res))
						}
					}
				}
			default:
				di, err := srv.GetDeploymentInfo(ctx(), &pb.Empty{})
				res := "did error"
				if err == nil {
					res = fmt.Sprintf("did %d", di.DeploymentId)
				}
				emit(map[string]string{"op": "getdeploy"}, res)
			}
		}
		run.Nontrivial(fmt.Sprintf("%d", s))
		if s == 0 {
			run.Sample(ops[:min(len(ops), 6)])
		}
		h.Close()
	}
}

// oversizedReport: an update that dragonboat refuses (the report does not fit the shard's in-memory log limit). Whatever
// the service answers, an acknowledged report must have been applied.
func oversizedReport(run *hx.Run) {
	h := nhx.NewDrummerDBHostLimit(64 * 1024)
	defer h.Close()
	srv := drummer.VerifNewServer(h.NH)
	// a batch scheduled for a host and picked up by an ordinary report must not come back in the reply to a later report
	// that was never applied (C10: each batch is handed over once)
	{
		addr := "redeliver"
		small := &pb.NodeHostInfo{RaftAddress: addr, RPCAddress: "rpc-" + addr, Region: "reg0"}
		batch := &pb.NodeHostRequestCollection{Requests: []*pb.NodeHostRequest{{Change: &pb.Request{Type: pb.Request_KILL, ShardId: 5, Members: []uint64{7}}, RaftAddress: addr}}}
		if _, err := propose(h, &pb.Update{Type: pb.Update_REQUESTS, Requests: batch}); err == nil {
			first, err1 := srv.ReportAvailableNodeHost(ctx(), small)
			huge := &pb.NodeHostInfo{RaftAddress: addr, RPCAddress: "rpc-" + addr, Region: "reg0", PlogInfoIncluded: true}
			for i := 0; i < 20000; i++ {
				huge.PlogInfo = append(huge.PlogInfo, &pb.LogInfo{ShardId: uint64(1 + i%50), ReplicaId: uint64(1 + i)})
			}
			second, err2 := srv.ReportAvailableNodeHost(ctx(), huge)
			run.Count("case:redelivery_probe")
			if err1 == nil && first != nil && len(first.Requests) == 1 && err2 == nil && second != nil && len(second.Requests) > 0 {
				for _, p := range []string{"C10", "C17"} {
					run.Violate(hx.Violation{Property: p, Clause: "batch_handed_over_once", Signature: "batch-delivered-again-by-unapplied-report",
						What: "a batch picked up by one report came back in the reply to a later, oversized report that was acknowledged without having been applied",
						Ops:  []string{"DB shard with MaxInMemLogSize=64KB; schedule [kill 5/7] for the host; ordinary report (reply carries the batch); report with 20000 log records (cannot be proposed); its reply carries the batch again"}})
				}
			}
		}
	}
	for _, n := range []int{10, 20000} {
		addr := fmt.Sprintf("big%d", n)
		nhi := &pb.NodeHostInfo{RaftAddress: addr, RPCAddress: "rpc-" + addr, Region: "reg0", PlogInfoIncluded: true}
		for i := 0; i < n; i++ {
			nhi.PlogInfo = append(nhi.PlogInfo, &pb.LogInfo{ShardId: uint64(1 + i%50), ReplicaId: uint64(1 + i)})
		}
		_, err := srv.ReportAvailableNodeHost(ctx(), nhi)
		nc, cerr := srv.GetNodeHostCollection(ctx(), &pb.Empty{})
		if cerr != nil {
			run.Count("c17:inconclusive_oversized_report")
			continue
		}
		listed := false
		for _, v := range nc.Collection {
			if v.RaftAddress == addr {
				listed = true
			}
		}
		run.Count(fmt.Sprintf("case:report_%d_log_records_acknowledged_%v", n, err == nil))
		if err == nil && !listed {
			run.Violate(hx.Violation{Property: "C17", Clause: "report_then_read", Signature: "acknowledged-report-not-applied",
				What: fmt.Sprintf("a report carrying %d log records was acknowledged (no error) although it was not applied: the NodeHost is not in GetNodeHostCollection", n),
				Ops:  []string{fmt.Sprintf("DB shard with MaxInMemLogSize=64KB; ReportAvailableNodeHost(%s with %d log records); GetNodeHostCollection", addr, n)}})
		}
		if err != nil && listed {
			run.Violate(hx.Violation{Property: "C17", Clause: "report_then_read", Signature: "failed-report-applied",
				What: fmt.Sprintf("a report carrying %d log records failed (%v) but was applied", n, err)})
		}
	}
}

func min(a, b int) int {
	if a < b {
		return a
	}
	return b
}

// repeatedLaunchRound: the leader proposes the launch round again (its read of the launched flag failed or was stale): the
// DB ignores it (count 0). The rounds after it are ordinary rounds on the same long-lived session and must be applied and
// delivered like any other.
func repeatedLaunchRound(run *hx.Run) {
	h := nhx.NewDrummerDBHost()
	defer h.Close()
	srv := drummer.VerifNewServer(h.NH)
	rounds := drummer.VerifNewRounds(h.NH)
	launch := func(a string, rid uint64) *pb.NodeHostRequest {
		return &pb.NodeHostRequest{Change: &pb.Request{Type: pb.Request_CREATE, ShardId: 1, Members: []uint64{1, 2, 3}}, ReplicaIdList: []uint64{1, 2, 3},
			AddressList: []string{"l1", "l2", "l3"}, InstantiateReplicaId: rid, RaftAddress: a, AppName: "app"}
	}
	batch := []*pb.NodeHostRequest{launch("l1", 1), launch("l2", 2), launch("l3", 3)}
	kill := func(s uint64) *pb.NodeHostRequest {
		return &pb.NodeHostRequest{Change: &pb.Request{Type: pb.Request_KILL, ShardId: s, Members: []uint64{7}}, RaftAddress: "l1"}
	}
	n1, err1 := rounds.UpdateRequests(batch)
	n2, err2 := rounds.UpdateRequests(batch)
	n3, err3 := rounds.UpdateRequests([]*pb.NodeHostRequest{kill(8)})
	n4, err4 := rounds.UpdateRequests([]*pb.NodeHostRequest{kill(9), kill(10)})
	run.Count("case:repeated_launch_round_probe")
	if err1 != nil || err2 != nil || err3 != nil || err4 != nil {
		run.Count("c17:inconclusive_repeated_launch_round")
		return
	}
	reply, err := srv.ReportAvailableNodeHost(ctx(), &pb.NodeHostInfo{RaftAddress: "l1", RPCAddress: "rpc-l1", Region: "reg0"})
	if err != nil {
		run.Count("c17:inconclusive_repeated_launch_round")
		return
	}
	got := []string{}
	for _, rq := range reply.Requests {
		got = append(got, dbx.ReqStr(rq))
	}
	want := []string{dbx.ReqStr(kill(9)), dbx.ReqStr(kill(10))}
	run.Count("c17:repeated_launch_round_checked")
	if n1 != 3 || n2 != 0 || n3 != 1 || n4 != 2 || strings.Join(got, ",") != strings.Join(want, ",") {
		ops := []string{fmt.Sprintf("launch round (3 requests) acknowledged with count %d", n1), fmt.Sprintf("the same launch round again: count %d", n2),
			fmt.Sprintf("round [kill shard 8] acknowledged with count %d", n3), fmt.Sprintf("round [kill shard 9, kill shard 10] acknowledged with count %d", n4), "report of l1"}
		for _, p := range []string{"C10", "C17"} {
			run.Violate(hx.Violation{Property: p, Clause: "latest_batch_delivered", Signature: "round-after-ignored-launch-round-not-delivered",
				What: fmt.Sprintf("after a launch round that the DB ignored (already launched), the rounds acknowledged with counts %d and %d carried %v for l1 last; its report was answered with %v", n3, n4, want, got), Ops: ops})
		}
	}
}

// slowReport: the proposal of a report is applied only after the service has given up waiting for it (and is applied all
// the same, later). That is a lost reply: the call fails. An answer without error still carries the batch scheduled for
// the address - a service that quietly proposes the report again has it applied twice, and the second application
// discards what the first one handed over.
func slowReport(run *hx.Run) {
	h, slow := nhx.NewSlowDrummerDBHost()
	defer h.Close()
	srv := drummer.VerifNewServer(h.NH)
	addr := "slow1"
	batch := &pb.NodeHostRequestCollection{Requests: []*pb.NodeHostRequest{
		{Change: &pb.Request{Type: pb.Request_KILL, ShardId: 3, Members: []uint64{1}}, RaftAddress: addr},
		{Change: &pb.Request{Type: pb.Request_KILL, ShardId: 4, Members: []uint64{2}}, RaftAddress: addr}}}
	if _, err := propose(h, &pb.Update{Type: pb.Update_REQUESTS, Requests: batch}); err != nil {
		run.Count("c17:inconclusive_slow_report")
		return
	}
	old := drummer.VerifSetRaftOpTimeout(300)
	slow.HoldNext(1, 900*time.Millisecond)
	reply, err := srv.ReportAvailableNodeHost(ctx(), &pb.NodeHostInfo{RaftAddress: addr, RPCAddress: "rpc-" + addr, Region: "reg0"})
	drummer.VerifSetRaftOpTimeout(old)
	time.Sleep(1200 * time.Millisecond)
	run.Count("case:slow_report_probe")
	if err != nil {
		run.Count("c17:slow_report_refused")
		return
	}
	got := []string{}
	if reply != nil {
		for _, rq := range reply.Requests {
			got = append(got, dbx.ReqStr(rq))
		}
	}
	want := []string{dbx.ReqStr(batch.Requests[0]), dbx.ReqStr(batch.Requests[1])}
	run.Count("c17:slow_report_answered")
	if strings.Join(got, ",") != strings.Join(want, ",") {
		ops := []string{fmt.Sprintf("schedule %v for %s", want, addr), "ReportAvailableNodeHost: the report's proposal is applied 900 ms after the service's 300 ms timeout"}
		for _, p := range []string{"C10", "C17"} {
			run.Violate(hx.Violation{Property: p, Clause: "reply_is_the_scheduled_batch", Signature: "answered-report-without-its-batch:slow-proposal",
				What: fmt.Sprintf("the report of %s was answered without error with %v; the batch scheduled for it is %v (the report's proposal timed out and was applied late)", addr, got, want), Ops: ops})
		}
	}
}

// timedOutRound: a scheduling round whose proposal is applied only after the leader has given up waiting for it, then a
// second round that is acknowledged, then the report of the addressed NodeHost. The fate of the first round is open; the
// second one was acknowledged, so it is the batch most recently scheduled and the one the NodeHost receives (C10), and
// the service answers with what the DB holds (C17).
func timedOutRound(run *hx.Run) {
	h, slow := nhx.NewSlowDrummerDBHost()
	defer h.Close()
	srv := drummer.VerifNewServer(h.NH)
	rounds := drummer.VerifNewRounds(h.NH)
	addr := "late"
	kill := func(s uint64) *pb.NodeHostRequest {
		return &pb.NodeHostRequest{Change: &pb.Request{Type: pb.Request_KILL, ShardId: s, Members: []uint64{7}}, RaftAddress: addr}
	}
	// a first, ordinary round: the leader's session is in use from here on
	if _, err := rounds.UpdateRequests([]*pb.NodeHostRequest{kill(1)}); err != nil {
		run.Count("c17:inconclusive_timed_out_round")
		return
	}
	old := drummer.VerifSetRaftOpTimeout(250)
	slow.HoldNext(1, 900*time.Millisecond)
	_, err1 := rounds.UpdateRequests([]*pb.NodeHostRequest{kill(2)})
	drummer.VerifSetRaftOpTimeout(old)
	time.Sleep(1200 * time.Millisecond) // the held-back proposal has been applied by now
	n3, err3 := rounds.UpdateRequests([]*pb.NodeHostRequest{kill(3), kill(4)})
	run.Count("case:timed_out_round_probe")
	if err1 == nil || err3 != nil {
		run.Count("c17:inconclusive_timed_out_round") // the first did not time out, or the second was not acknowledged
		return
	}
	reply, err := srv.ReportAvailableNodeHost(ctx(), &pb.NodeHostInfo{RaftAddress: addr, RPCAddress: "rpc-" + addr, Region: "reg0"})
	if err != nil {
		run.Count("c17:inconclusive_timed_out_round")
		return
	}
	got := []string{}
	for _, rq := range reply.Requests {
		got = append(got, dbx.ReqStr(rq))
	}
	want := []string{dbx.ReqStr(kill(3)), dbx.ReqStr(kill(4))}
	run.Count("c17:timed_out_round_checked")
	if n3 != 2 || strings.Join(got, ",") != strings.Join(want, ",") {
		ops := []string{"round [kill shard 1] acknowledged", "round [kill shard 2]: the proposal is applied 900ms after the leader's 250ms timeout (" + err1.Error() + ")",
			fmt.Sprintf("round [kill shard 3, kill shard 4] acknowledged with count %d", n3), "report of " + addr}
		for _, p := range []string{"C10", "C17"} {
			run.Violate(hx.Violation{Property: p, Clause: "latest_batch_delivered", Signature: "acknowledged-round-not-delivered",
				What: fmt.Sprintf("the round acknowledged last carried %v for %s; its report was answered with %v (a proposal of the round before had timed out and was applied late)", want, addr, got), Ops: ops})
		}
	}
}
