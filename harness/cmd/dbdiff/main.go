// dbdiff: correspondence driver for M-DB. Generates command sequences (or
// replays a given op file), runs them on the real Drummer DB, prints the
// canonical result of every command for the diff against the Lean driver, and
// evaluates the Go-side oracles of C03/C04/C05/C09/C10/C11/C13.
package main

import (
	"bufio"
	"bytes"
	"encoding/json"
	"flag"
	"fmt"
	"os"
	"sort"
	"strings"

	"github.com/lni/dragonboat/v4/logger"
	sm "github.com/lni/dragonboat/v4/statemachine"
	drummer "github.com/lni/drummer/v3"
	pb "github.com/lni/drummer/v3/drummerpb"
	"verif/harness/internal/dbx"
	"verif/harness/internal/hx"
)

type replicaSet struct {
	a      sm.IStateMachine // straight run
	b      sm.IStateMachine // restored from a's snapshot at some prefix (nil before)
	resA   []string
	hashes []uint64
}

func c03fail(run *hx.Run, seq, idx int, ops []dbx.Op, sig, what string) {
	cp := make([]dbx.Op, len(ops))
	copy(cp, ops)
	run.Violate(hx.Violation{Property: "C03", Clause: "replicas_agree", Signature: sig, What: what, Seq: seq, OpIndex: idx, Ops: cp})
}

func runSeq(run *hx.Run, seq int, ops []dbx.Op, gen func() (dbx.Op, bool), replicas bool, snapAt int) {
	run.OpLine(dbx.Op{Op: "new"})
	run.OutLine("new")
	db := drummer.NewDB(0, 1)
	var b sm.IStateMachine
	var twin sm.IStateMachine // the replica as it was before the last "snap" (which replaced it by one restored from its snapshot)
	// replica C lags: it applies a prefix, stops, and later catches up from A's snapshot installed into the SAME instance
	var c sm.IStateMachine
	lagAt, catchAt, caught := -1, -1, false
	if replicas {
		c = drummer.NewDB(0, 4)
		lagAt = snapAt / 2
		catchAt = snapAt + (snapAt % 7)
	}
	or := dbx.NewOracle(run, seq)
	// the launch deadline is decided on the views and on the members' report times: a wrong record there is a wrong
	// input of that decision (C09)
	or.Also = map[string][]string{"liveness-record": {"C09"}, "view-shard-set": {"C09"}, "view-missing": {"C09"}, "view-members": {"C09"}, "first-observed": {"C05"}}
	done := []dbx.Op{}
	results := []string{}
	pre := dbx.TakeDump(db)
	for i := 0; ; i++ {
		var op dbx.Op
		if ops != nil {
			if i >= len(ops) {
				break
			}
			op = ops[i]
		} else {
			var ok bool
			op, ok = gen()
			if !ok {
				break
			}
		}
		run.OpLine(op)
		done = append(done, op)
		if replicas && b == nil && i == snapAt {
			// hand a snapshot of A to a fresh replica B, which then applies the same suffix
			if data, p := dbx.Snapshot(db); !p {
				if nb, p2 := dbx.Restore(data); !p2 {
					b = nb
					run.Count("c03:replica_b_started")
					if ha, _ := dbx.Hash(db); true {
						if hb, _ := dbx.Hash(b); ha != hb {
							c03fail(run, seq, i, done, "hash-after-restore", "hash of a freshly restored replica differs from the source's")
						}
					}
				}
			}
		}
		if c != nil && !caught && i >= catchAt {
			if data, p := dbx.Snapshot(db); !p {
				// the lagging replica has been serving queries (any read-side cache of it is warm) ...
				dbx.LookupAll(c, dbx.TakeDump(c), lookKeys, lookAddrs)
				if dbx.RestoreInto(c, data) {
					c03fail(run, seq, i, done, "lagging-replica-recover-panic", "installing a snapshot into a lagging replica crashed it")
					c = nil
				} else {
					caught = true
					run.Count("c03:replica_c_caught_up")
					dc, da := dbx.TakeDump(c), dbx.TakeDump(db)
					// ... and right after installing the snapshot, before any further update, it answers every query as the
					// snapshot's source does
					if qa, pa := dbx.LookupAll(db, da, lookKeys, lookAddrs); !pa {
						qc, pc := dbx.LookupAll(c, da, lookKeys, lookAddrs)
						run.Count("c03:lookups_compared_after_install")
						if pc || qc != qa {
							why := "a lagging replica that had been answering queries and then installed a snapshot answers differently from the snapshot's source (before any further update): " + firstDiff(qa, qc)
							c03fail(run, seq, i, done, "lookup-differs-after-snapshot-install", why)
							cp := make([]dbx.Op, len(done))
							copy(cp, done)
							// the scheduler context / shard states it serves are Drummer's view (C04), the request queries its mailboxes (C10)
							run.Violate(hx.Violation{Property: "C04", Clause: "view_as_served", Signature: "lookup-differs-after-snapshot-install", What: why, Seq: seq, OpIndex: i, Ops: cp})
							run.Violate(hx.Violation{Property: "C05", Clause: "view_as_served", Signature: "lookup-differs-after-snapshot-install", What: why, Seq: seq, OpIndex: i, Ops: cp})
						}
					}
					if dc.Canon() != da.Canon() {
						c03fail(run, seq, i, done, "lagging-replica-state-differs", "a lagging replica that installed a snapshot differs from the replica that took it")
						if mailboxes(dc) != mailboxes(da) {
							cp := make([]dbx.Op, len(done))
							copy(cp, done)
							run.Violate(hx.Violation{Property: "C10", Clause: "mailbox_on_every_replica", Signature: "restored-replica-mailboxes-differ",
								What: "a lagging replica that installed a snapshot keeps scheduled or picked-up batches the snapshot's source no longer has (or lacks some): they would be delivered again, or never", Seq: seq, OpIndex: i, Ops: cp})
							hasKill := false
							for _, t := range []map[string][]*pb.NodeHostRequest{dc.Requests, dc.Outgoing} {
								for _, l := range t {
									for _, rq := range l {
										hasKill = hasKill || (rq.Change != nil && rq.Change.Type == pb.Request_KILL)
									}
								}
							}
							if hasKill {
								// among them kill requests: a request for a replica that is gone and no longer reported is issued again (C11)
								run.Violate(hx.Violation{Property: "C11", Clause: "kill_stops_when_gone", Signature: "restored-replica-mailboxes-differ",
									What: "a lagging replica that installed a snapshot still holds kill requests the snapshot's source has already handed out and dropped: the NodeHost is asked again to kill a replica it no longer reports", Seq: seq, OpIndex: i, Ops: cp})
							}
						}
						if dc.LaunchDeadline != da.LaunchDeadline || dc.Failed != da.Failed {
							cp := make([]dbx.Op, len(done))
							copy(cp, done)
							run.Violate(hx.Violation{Property: "C09", Clause: "deadline_on_every_replica", Signature: "restored-replica-deadline-differs",
								What: fmt.Sprintf("a lagging replica that installed a snapshot keeps deadline=%d failed=%v, the snapshot's source has deadline=%d failed=%v", dc.LaunchDeadline, dc.Failed, da.LaunchDeadline, da.Failed), Seq: seq, OpIndex: i, Ops: cp})
						}
					}
				}
			}
		}
		switch op.Op {
		case "snap":
			// the replica is replaced by one restored from its own snapshot
			data, p := dbx.Snapshot(db)
			if p {
				run.OutLine("panic")
				run.Count("snap:panic")
				results = append(results, "panic")
				goto end
			}
			ndb, p := dbx.Restore(data)
			if p {
				run.OutLine("panic")
				results = append(results, "panic")
				goto end
			}
			h0, _ := dbx.Hash(db)
			h1, _ := dbx.Hash(ndb)
			if h0 != h1 {
				c03fail(run, seq, i, done, "hash-after-restore", "hash changed across snapshot/restore")
			}
			twin = db // the replica that took the snapshot lives on beside the restored one: same commands, same answers
			db = ndb
			post := dbx.TakeDump(db)
			if pre.Canon() != post.Canon() {
				c03fail(run, seq, i, done, "state-after-restore", "state changed across snapshot/restore")
			}
			// the write-once / compare-and-swap law is about the record a key holds: a record that a snapshot hand-over drops
			// or alters re-opens the key to writers it was closed to (C13)
			for k, v := range pre.KVMap {
				if w, ok := post.KVMap[k]; !ok || string(w) != string(v) {
					ops := make([]dbx.Op, len(done))
					copy(ops, done)
					run.Violate(hx.Violation{Property: "C13", Clause: "record_survives_snapshot", Signature: "kv-record-changed-by-restore", Seq: seq, OpIndex: i,
						What: fmt.Sprintf("the record of key %q is not the same on a replica restored from this replica's snapshot (present: %v): the next write to it is judged against another holder / finality than on this replica", k, ok), Ops: ops})
					break
				}
			}
			run.OutLine("snap " + post.Canon())
			run.Count("snap:ok")
			results = append(results, "snap")
			pre = post
			continue
		case "states":
			run.OutLine(dbx.StatesLine(db, pre))
			continue
		}
		{
			res := dbx.Apply(db, op.ToUpdate())
			results = append(results, res)
			if twin != nil {
				rt := dbx.Apply(twin, op.ToUpdate())
				run.Count("c03:twin_ops")
				if rt != res {
					why := fmt.Sprintf("a replica restored from a snapshot answered %s to %s, the replica that took the snapshot (and applied the same commands since) answered %s", res, op.Op, rt)
					c03fail(run, seq, i, done, "restored-replica-result-differs", why)
					cp := make([]dbx.Op, len(done))
					copy(cp, done)
					switch op.Op {
					case "report":
						// the view (C04), the liveness record (C05), the mailboxes (C10), the launch decision (C09) all move on reports
						for _, prop := range []string{"C04", "C05", "C09", "C10", "C11"} {
							run.Violate(hx.Violation{Property: prop, Clause: "same_on_every_replica", Signature: "restored-replica-result-differs", What: why, Seq: seq, OpIndex: i, Ops: cp})
						}
					case "kv", "shard":
						run.Violate(hx.Violation{Property: "C13", Clause: "same_on_every_replica", Signature: "restored-replica-result-differs", What: why, Seq: seq, OpIndex: i, Ops: cp})
					case "tick":
						run.Violate(hx.Violation{Property: "C09", Clause: "deadline_on_every_replica", Signature: "restored-replica-result-differs", What: why, Seq: seq, OpIndex: i, Ops: cp})
					case "reqs":
						for _, prop := range []string{"C09", "C10"} {
							run.Violate(hx.Violation{Property: prop, Clause: "same_on_every_replica", Signature: "restored-replica-result-differs", What: why, Seq: seq, OpIndex: i, Ops: cp})
						}
					}
					twin = nil
				}
			}
			run.Count(op.Op + ":" + map[bool]string{true: "panic", false: "ok"}[res == "panic"])
			var post *dbx.Dump
			if res == "panic" {
				post = pre
			} else {
				post = dbx.TakeDump(db)
			}
			or.Ops = done
			or.Observe(i, op, res, pre, post, db)
			if res != "panic" {
				// reads are reads: the queries the service and the scheduler issue between two commands leave the
				// replicated state as it is (a read is served by one replica only)
				if _, pl := dbx.LookupAll(db, post, lookKeys, lookAddrs); !pl {
					run.Count("c03:reads_checked")
					after := dbx.TakeDump(db)
					if after.Canon() != post.Canon() {
						cp := make([]dbx.Op, len(done))
						copy(cp, done)
						why := "the state of the replica changed while it answered queries: " + firstDiff(post.Canon(), after.Canon())
						c03fail(run, seq, i, done, "read-changes-state", why)
						sec := func(c, from, to string) string {
							a := strings.Index(c, from)
							b := strings.Index(c, to)
							if a < 0 || b < a {
								return c
							}
							return c[a:b]
						}
						pc, ac := post.Canon(), after.Canon()
						if sec(pc, "];kill=[", "];hosts=[") != sec(ac, "];kill=[", "];hosts=[") {
							run.Violate(hx.Violation{Property: "C11", Clause: "kill_while_reported", Signature: "kill-record-lost-by-a-read", What: why, Seq: seq, OpIndex: i, Ops: cp})
						}
						if sec(pc, "];Requests=[", "];info=[") != sec(ac, "];Requests=[", "];info=[") {
							run.Violate(hx.Violation{Property: "C10", Clause: "only_addressee", Signature: "mailbox-changed-by-a-read", What: why, Seq: seq, OpIndex: i, Ops: cp})
						}
						if sec(pc, "defs=[", "];img=[") != sec(ac, "defs=[", "];img=[") {
							// a shard definition or a KV record rewritten while answering a query
							run.Violate(hx.Violation{Property: "C13", Clause: "definition_immutable", Signature: "definition-or-record-altered-by-a-read", What: why, Seq: seq, OpIndex: i, Ops: cp})
						}
						if sec(pc, "];img=[", "];kill=[") != sec(ac, "];img=[", "];kill=[") {
							for _, prop := range []string{"C04", "C05"} {
								run.Violate(hx.Violation{Property: prop, Clause: "view_moves_only_on_reports", Signature: "view-altered-by-a-read", What: why, Seq: seq, OpIndex: i, Ops: cp})
							}
						}
						post = after
					}
				}
			}
			if replicas && res != "panic" {
				// every kind of query, after every command (keeps any read-side cache of this replica warm); one time in
				// four the answers are compared with those of a replica freshly restored from this one's snapshot
				ans, pa := dbx.LookupAll(db, post, lookKeys, lookAddrs)
				if pa {
					run.Count("c03:query_panics") // e.g. the context query on a regions record that is not a region specification: the same on every replica
				}
				if (seq+i)%4 == 0 {
					if data, p := dbx.Snapshot(db); !p {
						if fr, p2 := dbx.Restore(data); !p2 {
							fa, pf := dbx.LookupAll(fr, post, lookKeys, lookAddrs)
							run.Count("c03:lookups_compared_with_fresh_replica")
							if pf != pa {
								c03fail(run, seq, i, done, "lookup-differs-from-fresh-replica", fmt.Sprintf("queries crash on one of (replica, replica freshly restored from its snapshot) only: %v vs %v", pa, pf))
							} else if fa != ans {
								c03fail(run, seq, i, done, "lookup-differs-from-fresh-replica", "a replica that has been answering queries all along answers differently from one freshly restored from its snapshot: "+firstDiff(ans, fa))
							}
						}
					}
				}
			}
			if b != nil {
				rb := dbx.Apply(b, op.ToUpdate())
				if rb != res {
					c03fail(run, seq, i, done, "result-differs", fmt.Sprintf("restored replica answered %s, the straight one %s", rb, res))
				} else if res != "panic" {
					ha, _ := dbx.Hash(db)
					hb, _ := dbx.Hash(b)
					if ha != hb || dbx.TakeDump(b).Canon() != post.Canon() {
						c03fail(run, seq, i, done, "state-differs", "restored replica's state or hash differs from the straight one's")
					}
					run.Count("c03:replica_b_ops")
				}
			}
			if c != nil && (i < lagAt || caught) {
				rc := dbx.Apply(c, op.ToUpdate())
				if caught {
					if rc != res {
						c03fail(run, seq, i, done, "lagging-replica-result-differs", fmt.Sprintf("a replica that caught up from a snapshot answered %s, the straight one %s", rc, res))
						if op.Op == "tick" {
							cp := make([]dbx.Op, len(done))
							copy(cp, done)
							run.Violate(hx.Violation{Property: "C09", Clause: "deadline_on_every_replica", Signature: "restored-replica-failstops-alone",
								What: fmt.Sprintf("on a tick a replica that caught up from a snapshot answered %s, the straight one %s", rc, res), Seq: seq, OpIndex: i, Ops: cp})
						}
						c = nil
					} else if res != "panic" {
						hc, _ := dbx.Hash(c)
						ha, _ := dbx.Hash(db)
						if hc != ha {
							c03fail(run, seq, i, done, "lagging-replica-hash-differs", "a replica that caught up from a snapshot has another hash than the straight one")
							c = nil
						}
						run.Count("c03:replica_c_ops")
					}
				}
			}
			if res == "panic" {
				run.OutLine("panic")
				break
			}
			run.OutLine(res + " " + post.Canon())
			run.OutLine(dbx.StatesLine(db, post))
			pre = post
			continue
		}
		break
	}
end:
	if replicas {
		// A': the same commands on another fresh replica (exposes map-order dependence)
		a2 := drummer.NewDB(0, 3)
		k := 0
		for _, op := range done {
			if op.Op == "states" {
				continue
			}
			if op.Op == "snap" {
				k++
				continue
			}
			if k >= len(results) {
				break
			}
			r2 := dbx.Apply(a2, op.ToUpdate())
			if r2 != results[k] {
				c03fail(run, seq, k, done, "rerun-result-differs", fmt.Sprintf("a repeated run answered %s, the first one %s", r2, results[k]))
				break
			}
			k++
			if r2 == "panic" {
				break
			}
		}
		if len(results) > 0 && results[len(results)-1] != "panic" {
			h1, _ := dbx.Hash(db)
			h2, _ := dbx.Hash(a2)
			if h1 != h2 {
				c03fail(run, seq, len(done)-1, done, "rerun-hash-differs", "a repeated run ends with a different hash")
			}
			ctx1, _ := dbx.LookupContext(db)
			ctx2, _ := dbx.LookupContext(a2)
			if string(ctx1) != string(ctx2) {
				c03fail(run, seq, len(done)-1, done, "rerun-context-differs", "a repeated run answers the scheduler-context query differently")
			}
			run.Count("c03:rerun_compared")
		}
	}
	if len(done) >= 4 {
		run.Nontrivial(fmt.Sprintf("%d", seq))
	}
	if len(done) > 0 {
		run.Sample(done[:min(len(done), 6)])
	}
}

// probeNonUTF8 replays the F-C03 witness on the real code: a KV key that is not
// valid UTF-8 does not survive the JSON snapshot (encoding/json coerces invalid
// bytes to U+FFFD), so a restored replica answers a later write to that key
// differently from the replica that took the snapshot.
func probeNonUTF8(run *hx.Run) {
	for _, key := range []string{"\xff", "k\xfe\x01", "\xc3\x28"} {
		a := drummer.NewDB(0, 1)
		w1 := dbx.Op{Op: "kv", Key: key, Value: "v", Inst: 1, Fin: true}
		w2 := dbx.Op{Op: "kv", Key: key, Value: "w", Inst: 2}
		dbx.Apply(a, w1.ToUpdate())
		data, _ := dbx.Snapshot(a)
		b, p := dbx.Restore(data)
		if p {
			continue
		}
		ra, rb := dbx.Apply(a, w2.ToUpdate()), dbx.Apply(b, w2.ToUpdate())
		ha, _ := dbx.Hash(a)
		hb, _ := dbx.Hash(b)
		run.Count("c03:non_utf8_probe")
		if ra != rb || ha != hb {
			run.Violate(hx.Violation{Property: "C03", Clause: "snapshot_equivalent", Signature: "non-utf8-kv-key-lost-by-json-snapshot",
				What: fmt.Sprintf("KV key %q (not valid UTF-8): straight replica answers %s, the one restored from its snapshot %s", key, ra, rb), Seq: -1,
				Ops: []interface{}{map[string]interface{}{"op": "kv", "key_bytes": []byte(key), "value": "v", "inst": 1, "fin": true}, "snapshot+restore", map[string]interface{}{"op": "kv", "key_bytes": []byte(key), "value": "w", "inst": 2}}})
		}
	}
}

var lookKeys = []string{"k1", "k2", "election-key", "launched-flag", "bootstrapped-flag", "regions-key", "deployment-id", "nokey"}
var lookAddrs = []string{"a1", "a2", "a3", "a4", "a5", "a6", "a7", "a8"}

func firstDiff(a, b string) string {
	i := 0
	for i < len(a) && i < len(b) && a[i] == b[i] {
		i++
	}
	lo := i - 40
	if lo < 0 {
		lo = 0
	}
	return fmt.Sprintf("at byte %d: %q vs %q", i, a[lo:min(len(a), i+60)], b[lo:min(len(b), i+60)])
}

// mailboxes renders the two request tables of a dump canonically
func mailboxes(d *dbx.Dump) string {
	var b strings.Builder
	for _, t := range []map[string][]*pb.NodeHostRequest{d.Requests, d.Outgoing} {
		ks := []string{}
		for k := range t {
			ks = append(ks, k)
		}
		sort.Strings(ks)
		for _, k := range ks {
			b.WriteString(k + "=")
			for _, r := range t[k] {
				b.WriteString(dbx.ReqStr(r))
			}
			b.WriteString(";")
		}
		b.WriteString("|")
	}
	return b.String()
}

func min(a, b int) int {
	if a < b {
		return a
	}
	return b
}

func readOps(path string) [][]dbx.Op {
	f, err := os.Open(path)
	if err != nil {
		hx.Die("open %s: %v", path, err)
	}
	defer f.Close()
	sc := bufio.NewScanner(f)
	sc.Buffer(make([]byte, 1<<20), 1<<26)
	var seqs [][]dbx.Op
	for sc.Scan() {
		var op dbx.Op
		dec := json.NewDecoder(bytesReader(sc.Bytes()))
		dec.UseNumber()
		if err := dec.Decode(&op); err != nil {
			hx.Die("bad op line: %v", err)
		}
		if op.Op == "new" {
			seqs = append(seqs, []dbx.Op{})
			continue
		}
		if len(seqs) == 0 {
			seqs = append(seqs, []dbx.Op{})
		}
		seqs[len(seqs)-1] = append(seqs[len(seqs)-1], op)
	}
	return seqs
}

func main() {
	for _, n := range []string{"drummer", "dragonboat", "raft", "rsm", "transport", "logdb"} {
		logger.GetLogger(n).SetLevel(logger.CRITICAL)
	}
	seed := flag.Int64("seed", hx.Seed(), "PRNG seed")
	n := flag.Int("n", 100, "number of sequences")
	maxLen := flag.Int("len", 60, "maximal sequence length")
	profile := flag.String("profile", "general", "generator profile")
	out := flag.String("out", "", "output directory")
	replay := flag.String("replay", "", "op file to replay instead of generating")
	replicas := flag.Bool("replicas", false, "also run a snapshot-restored replica and a repeated run (C03)")
	flag.Parse()
	if *out == "" {
		hx.Die("need -out")
	}
	run := hx.NewRun(*out)
	defer run.Close()
	if *replay != "" {
		for i, ops := range readOps(*replay) {
			runSeq(run, i, ops, nil, *replicas, len(ops)/2)
		}
		return
	}
	if *replicas {
		probeNonUTF8(run)
	}
	for s := 0; s < *n; s++ {
		r := hx.Rng(*seed, s)
		g := dbx.NewGen(r, *profile)
		var script []dbx.Op
		if *profile == "c09" && r.Intn(4) != 0 {
			script = g.LaunchScenario()
		}
		length := 5 + r.Intn(*maxLen)
		i := 0
		gen := func() (dbx.Op, bool) {
			if script != nil {
				if i >= len(script) {
					return dbx.Op{}, false
				}
				i++
				return script[i-1], true
			}
			if i >= length {
				return dbx.Op{}, false
			}
			i++
			return g.Next(), true
		}
		if g.Malformed {
			run.Count("seq:malformed_stream")
		} else {
			run.Count("seq:valid_stream")
		}
		runSeq(run, s, nil, gen, *replicas, r.Intn(length))
	}
}

func bytesReader(b []byte) *bytes.Reader { return bytes.NewReader(b) }
