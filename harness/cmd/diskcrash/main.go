// diskcrash: crash-point enumeration and file-system trace correspondence for
// the on-disk test state machine (tests/diskkv.go). A counting wrapper around
// vfs.NewStrictMem numbers every mutating / syncing file-system operation of a
// workload; every index is used as a crash point (from that operation on
// nothing reaches stable storage; afterwards all unsynced data and directory
// entries are dropped), the machine is reopened and must report an applied
// index that is not below the last acknowledged one, with exactly the data of
// the updates up to that index (on top of the last installed snapshot). Double
// crashes (a second crash inside the recovering Open) are enumerated too. The
// non-pebble part of the trace of the first Open and of the snapshot recovery
// is printed in the vocabulary of the Lean model (M-FS) for the diff against
// the model's own sequences.
package main

import (
	"bytes"
	"flag"
	"fmt"
	"os"
	"sort"
	"strings"

	"github.com/lni/dragonboat/v4/logger"
	sm "github.com/lni/dragonboat/v4/statemachine"
	"github.com/lni/drummer/v3/kv"
	"github.com/lni/drummer/v3/tests"
	"github.com/lni/vfs"
	"verif/harness/internal/hx"
)

type crashNow struct{}

// countFS counts mutating / syncing operations and "crashes" (stops persisting, then aborts) at index crashAt.
type countFS struct {
	*vfs.MemFS
	n       int
	crashAt int
	trace   []string
	rec     bool
	crashed bool
	onCrash func()
}

func (c *countFS) step(name string) {
	c.n++
	if c.rec {
		c.trace = append(c.trace, name)
	}
	if c.crashAt > 0 && c.n == c.crashAt {
		// from here on nothing reaches stable storage any more: the crash happens "now"
		c.MemFS.SetIgnoreSyncs(true)
		c.crashed = true
		if c.onCrash != nil {
			c.onCrash()
		}
	}
}

func short(p string) string {
	i := strings.Index(p, "test_pebble_db_safe_to_delete")
	if i >= 0 {
		p = p[i+len("test_pebble_db_safe_to_delete"):]
	}
	return p
}

type countFile struct {
	vfs.File
	c    *countFS
	name string
}

func (f *countFile) Write(p []byte) (int, error) { f.c.step("write " + f.name); return f.File.Write(p) }
func (f *countFile) Sync() error                 { f.c.step("sync " + f.name); return f.File.Sync() }
func (f *countFile) Close() error                { return f.File.Close() }

func (c *countFS) Create(name string) (vfs.File, error) {
	c.step("create " + short(name))
	f, err := c.MemFS.Create(name)
	if err != nil {
		return nil, err
	}
	return &countFile{File: f, c: c, name: short(name)}, nil
}
func (c *countFS) OpenDir(name string) (vfs.File, error) {
	f, err := c.MemFS.OpenDir(name)
	if err != nil {
		return nil, err
	}
	return &countFile{File: f, c: c, name: "dir " + short(name)}, nil
}
func (c *countFS) Remove(name string) error {
	c.step("remove " + short(name))
	return c.MemFS.Remove(name)
}
func (c *countFS) RemoveAll(name string) error {
	c.step("removeall " + short(name))
	return c.MemFS.RemoveAll(name)
}
func (c *countFS) Rename(o, n string) error {
	c.step("rename " + short(o) + " " + short(n))
	return c.MemFS.Rename(o, n)
}
func (c *countFS) Link(o, n string) error { c.step("link " + short(o)); return c.MemFS.Link(o, n) }
func (c *countFS) ReuseForWrite(o, n string) (vfs.File, error) {
	c.step("reuse " + short(o))
	f, err := c.MemFS.ReuseForWrite(o, n)
	if err != nil {
		return nil, err
	}
	return &countFile{File: f, c: c, name: short(n)}, nil
}
func (c *countFS) MkdirAll(dir string, perm os.FileMode) error {
	c.step("mkdirall " + short(dir))
	return c.MemFS.MkdirAll(dir, perm)
}
func (c *countFS) OpenForAppend(name string) (vfs.File, error) {
	c.step("append " + short(name))
	f, err := c.MemFS.OpenForAppend(name)
	if err != nil {
		return nil, err
	}
	return &countFile{File: f, c: c, name: short(name)}, nil
}

func enc(k, v string) []byte {
	d, _ := (&kv.KV{Key: k, Val: v}).MarshalBinary()
	return d
}

type ack struct {
	index    uint64
	snapshot map[string]string // non-nil: state replaced by this snapshot (applied index = index)
	key, val string
}

// a workload is a fixed script derived from the seed
type workload struct {
	pre     int  // updates before the snapshot recovery
	sync    bool // Sync after them
	recover bool // install a foreign snapshot
	same    bool // ... whose applied index is exactly the index this replica has applied (instead of one far ahead)
	post    int  // updates after it
	reopen  bool // Close + Open
	tail    int  // updates after the reopen
}

func (w workload) String() string {
	return fmt.Sprintf("open;%d updates;sync=%v;recover=%v(same index=%v);%d updates;reopen=%v;%d updates", w.pre, w.sync, w.recover, w.same, w.post, w.reopen, w.tail)
}

func snapshotBytes(entries map[string]string, applied uint64) []byte {
	mem := vfs.NewStrictMem()
	d := tests.NewDiskKVTest(9, 9).(*tests.DiskKVTest)
	d.SetTestFS(mem)
	if _, err := d.Open(nil); err != nil {
		panic(err)
	}
	keys := []string{}
	for k := range entries {
		keys = append(keys, k)
	}
	sort.Strings(keys)
	ents := []sm.Entry{}
	for i, k := range keys {
		ents = append(ents, sm.Entry{Index: applied - uint64(len(keys)) + uint64(i) + 1, Cmd: enc(k, entries[k])})
	}
	if len(ents) > 0 {
		if _, err := d.Update(ents); err != nil {
			panic(err)
		}
	}
	for {
		ctx, _ := d.PrepareSnapshot()
		var buf bytes.Buffer
		if err := d.SaveSnapshot(ctx, &buf, nil); err == nil {
			d.Close()
			return buf.Bytes()
		}
	}
}

var snapEntries = map[string]string{"a": "1", "b": "2"}

const snapIndex = 100

func runWorkload(w workload, fs *countFS, snap []byte, acks *[]ack, mark func(string)) {
	d := tests.NewDiskKVTest(1, 1).(*tests.DiskKVTest)
	d.SetTestFS(fs)
	mark("open")
	if _, err := d.Open(nil); err != nil {
		panic(err)
	}
	mark("")
	idx := uint64(0)
	upd := func(n int, tag string) {
		// batches of 1..3 entries; every fifth value is empty (an empty field is absent from the encoding, so a
		// decoder object reused across the entries of a batch would leak the previous value into it)
		for i := 0; i < n; {
			sz := 1 + int(idx%3)
			if sz > n-i {
				sz = n - i
			}
			ents := []sm.Entry{}
			batch := []ack{}
			for j := 0; j < sz; j++ {
				idx++
				k, v := fmt.Sprintf("k%d", idx%2), fmt.Sprintf("%s%d", tag, idx)
				if idx%5 == 3 || (j > 0 && idx%7 == 2) {
					v = ""
				}
				ents = append(ents, sm.Entry{Index: idx, Cmd: enc(k, v)})
				batch = append(batch, ack{index: idx, key: k, val: v})
			}
			if _, err := d.Update(ents); err != nil {
				panic(err)
			}
			*acks = append(*acks, batch...)
			i += sz
			if idx%4 == 1 && i < n {
				// an idempotent retry: the same keys and values again under the next indices (nothing stored changes, the
				// applied index does)
				rents, rbatch := []sm.Entry{}, []ack{}
				for _, b := range batch {
					idx++
					rents = append(rents, sm.Entry{Index: idx, Cmd: enc(b.key, b.val)})
					rbatch = append(rbatch, ack{index: idx, key: b.key, val: b.val})
				}
				if _, err := d.Update(rents); err != nil {
					panic(err)
				}
				*acks = append(*acks, rbatch...)
				i += len(rbatch)
			}
		}
	}
	upd(w.pre, "v")
	if w.sync {
		if err := d.Sync(); err != nil {
			panic(err)
		}
	}
	if w.recover {
		img, at, content := snap, uint64(snapIndex), snapEntries
		if w.same {
			// a snapshot taken by another replica at exactly the index this one has applied (as many entries as fit below it)
			content = map[string]string{}
			if idx >= 1 {
				content["a"] = "1"
			}
			if idx >= 2 {
				content["b"] = "2"
			}
			img, at = snapshotBytes(content, idx), idx
		}
		mark("recover")
		if err := d.RecoverFromSnapshot(hx.NewShortReader(img), nil); err != nil {
			panic(err)
		}
		mark("")
		idx = at
		*acks = append(*acks, ack{index: at, snapshot: content})
	}
	upd(w.post, "w")
	if w.reopen {
		d.Close()
		d = tests.NewDiskKVTest(1, 1).(*tests.DiskKVTest)
		d.SetTestFS(fs)
		mark("reopen")
		if _, err := d.Open(nil); err != nil {
			panic(err)
		}
		mark("")
	}
	upd(w.tail, "z")
	d.Close()
}

func expected(all []ack, upto uint64) map[string]string {
	st := map[string]string{}
	for _, a := range all {
		if a.index > upto {
			break
		}
		if a.snapshot != nil {
			st = map[string]string{}
			for k, v := range a.snapshot {
				st[k] = v
			}
		} else {
			st[a.key] = a.val
		}
	}
	return st
}

// canonical vocabulary of M-FS for the operations on the node directory (everything inside a database directory
// belongs to pebble and is skipped)
func primOf(t string) string {
	switch {
	case strings.HasPrefix(t, "create ") && strings.HasSuffix(t, "current.updating"):
		return "createUpd"
	case strings.HasPrefix(t, "write ") && strings.HasSuffix(t, "current.updating"):
		return "writeUpd"
	case strings.HasPrefix(t, "sync ") && strings.HasSuffix(t, "current.updating"):
		return "syncUpd"
	case strings.HasPrefix(t, "rename ") && strings.Contains(t, "current.updating"):
		return "renameUpd"
	case strings.HasPrefix(t, "removeall ") && strings.HasSuffix(t, "current.updating"):
		return "removeUpd"
	case strings.HasPrefix(t, "sync dir ") && strings.HasSuffix(t, "/1_1"):
		return "syncDir"
	case strings.HasPrefix(t, "mkdirall /1_1/") && strings.Count(short2(t), "/") == 2:
		return "mkdir"
	case strings.HasPrefix(t, "removeall /1_1/") && strings.Count(short2(t), "/") == 2:
		return "removeDir"
	}
	return ""
}

func short2(t string) string {
	f := strings.Fields(t)
	return f[len(f)-1]
}

func check(mem *vfs.MemFS, full []ack, lastAck uint64, acked int) (res string, idx uint64) {
	defer func() {
		if r := recover(); r != nil {
			res = fmt.Sprintf("reopen-panic:%v", r)
		}
	}()
	d := tests.NewDiskKVTest(1, 1).(*tests.DiskKVTest)
	d.SetTestFS(mem)
	idx, err := d.Open(nil)
	if err != nil {
		return fmt.Sprintf("reopen-error:%v", err), 0
	}
	defer d.Close()
	if idx < lastAck {
		return fmt.Sprintf("index-below-acknowledged: applied index %d lower than last acknowledged %d", idx, lastAck), idx
	}
	compare := func(want map[string]string) string {
		for _, key := range []string{"k0", "k1", "a", "b", "dummy-key"} {
			v, _ := d.Lookup([]byte(key))
			got := ""
			if v != nil {
				got = string(v.([]byte))
			}
			if got != want[key] {
				return fmt.Sprintf("data-mismatch: index %d key %s: got %q want %q", idx, key, got, want[key])
			}
		}
		return ""
	}
	res = compare(expected(full, idx))
	if res != "" {
		// a snapshot installed at the very index the replica had already applied: until that installation is acknowledged,
		// the content before it and the content after it both belong to that index
		for pos, a := range full {
			if a.snapshot != nil && a.index == idx && pos >= acked {
				alt := append(append([]ack{}, full[:pos]...), full[pos+1:]...)
				if compare(expected(alt, idx)) == "" {
					res = ""
				}
			}
		}
	}
	return res, idx
}

func main() {
	for _, n := range []string{"tests", "pebble", "dragonboat"} {
		logger.GetLogger(n).SetLevel(logger.CRITICAL)
	}
	os.Setenv("IOEI", "1")
	seed := flag.Int64("seed", hx.Seed(), "PRNG seed")
	nw := flag.Int("n", 3, "number of workloads")
	double := flag.Int("double", 6, "first crash points per workload that are extended to double crashes (0 = none)")
	out := flag.String("out", "", "output directory")
	flag.Parse()
	if *out == "" {
		hx.Die("need -out")
	}
	devnull, _ := os.OpenFile(os.DevNull, os.O_WRONLY, 0)
	os.Stdout = devnull
	run := hx.NewRun(*out)
	defer run.Close()
	snap := snapshotBytes(snapEntries, snapIndex)
	r := hx.Rng(*seed, 0)
	// snapshot sizes around the powers of two (batching / chunking boundaries of a recovery): recover, which is then
	// acknowledged, and lose power at once; the reopened machine must be at the snapshot
	// a recovery that fails half-way (the snapshot stream breaks off) must leave the machine where it was: it keeps
	// serving, and it reopens at its acknowledged state after a restart or a power loss
	for _, mode := range []string{"restart", "power-loss"} {
		ents := map[string]string{}
		for i := 0; i < 200; i++ {
			ents[fmt.Sprintf("s%04d", i)] = fmt.Sprintf("val%d", i)
		}
		big := snapshotBytes(ents, 20000)
		for _, cut := range []int{len(big) / 2, len(big) - 1, 9} {
			mem := vfs.NewStrictMem()
			res := func() (res string) {
				defer func() {
					if r := recover(); r != nil {
						res = fmt.Sprintf("panic-without-crash:%v", r)
					}
				}()
				d := tests.NewDiskKVTest(1, 1).(*tests.DiskKVTest)
				d.SetTestFS(mem)
				if _, err := d.Open(nil); err != nil {
					return "open-error:" + err.Error()
				}
				for i := uint64(1); i <= 3; i++ {
					if _, err := d.Update([]sm.Entry{{Index: i, Cmd: enc("k0", fmt.Sprintf("v%d", i))}}); err != nil {
						return "update-error:" + err.Error()
					}
				}
				if err := d.RecoverFromSnapshot(hx.NewShortReader(big[:cut]), nil); err == nil {
					return "" // a cut the decoder does not notice: nothing to judge
				}
				if v, _ := d.Lookup([]byte("k0")); v == nil || string(v.([]byte)) != "v3" {
					return fmt.Sprintf("data-mismatch: after a failed recovery the machine answers %v for k0", v)
				}
				if mode == "power-loss" {
					mem.SetIgnoreSyncs(true)
				}
				d.Close()
				if mode == "power-loss" {
					mem.ResetToSyncedState()
					mem.SetIgnoreSyncs(false)
				}
				d2 := tests.NewDiskKVTest(1, 1).(*tests.DiskKVTest)
				d2.SetTestFS(mem)
				idx, err := d2.Open(nil)
				if err != nil {
					return "reopen-error:" + err.Error()
				}
				defer d2.Close()
				if idx < 3 {
					return fmt.Sprintf("index-below-acknowledged: applied index %d after a failed recovery and a %s, 3 was acknowledged", idx, mode)
				}
				if v, _ := d2.Lookup([]byte("k0")); v == nil || string(v.([]byte)) != "v3" {
					return fmt.Sprintf("data-mismatch: k0 is %v after a failed recovery and a %s", v, mode)
				}
				return ""
			}()
			run.Count("case:failed_recovery_then_" + mode)
			if res != "" {
				sig := strings.SplitN(res, ":", 2)[0]
				if strings.HasPrefix(res, "panic-without-crash") {
					sig = "panic"
				}
				run.Violate(hx.Violation{Property: "C16", Clause: "failed_recovery_harmless", Signature: sig + "-after-failed-recovery", Seq: -cut,
					What: fmt.Sprintf("snapshot stream cut after %d of %d bytes, then %s: %s", cut, len(big), mode, res),
					Ops:  map[string]interface{}{"sequence": "open; 3 updates; RecoverFromSnapshot(truncated image) fails; " + mode + "; reopen", "cut": cut}})
			}
		}
	}
	for _, nk := range []int{1, 31, 32, 62, 63, 64, 65, 126, 127, 128, 129, 255, 256, 257, 1000} {
		ents := map[string]string{}
		for i := 0; i < nk; i++ {
			ents[fmt.Sprintf("s%04d", i)] = fmt.Sprintf("val%d", i)
		}
		big := snapshotBytes(ents, uint64(10000+nk))
		mem := vfs.NewStrictMem()
		res := func() (res string) {
			defer func() {
				if r := recover(); r != nil {
					res = fmt.Sprintf("panic-without-crash:%v", r)
				}
			}()
			d := tests.NewDiskKVTest(1, 1).(*tests.DiskKVTest)
			d.SetTestFS(mem)
			if _, err := d.Open(nil); err != nil {
				return "open-error:" + err.Error()
			}
			if _, err := d.Update([]sm.Entry{{Index: 1, Cmd: enc("k0", "v1")}}); err != nil {
				return "update-error:" + err.Error()
			}
			if err := d.RecoverFromSnapshot(hx.NewShortReader(big), nil); err != nil {
				return "recover-error:" + err.Error()
			}
			// acknowledged; power is lost now
			mem.SetIgnoreSyncs(true)
			d.Close()
			return ""
		}()
		run.Count("case:snapshot_size_then_power_loss")
		if res == "" {
			mem.ResetToSyncedState()
			mem.SetIgnoreSyncs(false)
			res = func() (res string) {
				defer func() {
					if r := recover(); r != nil {
						res = fmt.Sprintf("reopen-panic:%v", r)
					}
				}()
				d := tests.NewDiskKVTest(1, 1).(*tests.DiskKVTest)
				d.SetTestFS(mem)
				idx, err := d.Open(nil)
				if err != nil {
					return "reopen-error:" + err.Error()
				}
				defer d.Close()
				if idx < uint64(10000+nk) {
					return fmt.Sprintf("index-below-acknowledged: applied index %d after the power loss, the acknowledged recovery was at %d", idx, 10000+nk)
				}
				for k, want := range ents {
					v, _ := d.Lookup([]byte(k))
					if v == nil || string(v.([]byte)) != want {
						return fmt.Sprintf("data-mismatch: key %s of the recovered snapshot is %v after the power loss", k, v)
					}
				}
				return ""
			}()
		}
		if res != "" {
			sig := strings.SplitN(res, ":", 2)[0]
			run.Violate(hx.Violation{Property: "C16", Clause: "recovery_durable_when_acknowledged", Signature: sig + "-after-recovery", Seq: -nk,
				What: fmt.Sprintf("snapshot of %d keys recovered (acknowledged), power lost at once: %s", nk, res),
				Ops:  map[string]interface{}{"snapshot_keys": nk, "sequence": "open; update; RecoverFromSnapshot; power loss; reopen"}})
		}
	}
	for wi := 0; wi < *nw; wi++ {
		w := workload{pre: r.Intn(4), sync: r.Intn(2) == 0, recover: r.Intn(4) != 0, same: r.Intn(3) == 0, post: r.Intn(3), reopen: r.Intn(2) == 0, tail: r.Intn(3)}
		if wi == 0 {
			w = workload{pre: 3, sync: true, recover: true, post: 2, reopen: true, tail: 1} // the full workload of the property text
		}
		if wi == 1 {
			// the same with a snapshot taken at exactly the index this replica has applied
			w = workload{pre: 3, sync: true, recover: true, same: true, post: 2, reopen: true, tail: 1}
		}
		// reference run: acknowledgements and the trace
		full := []ack{}
		ref := &countFS{MemFS: vfs.NewStrictMem(), rec: true}
		segs := map[string][]string{}
		cur := ""
		segStart := 0
		made := map[string]bool{}
		mark := func(name string) {
			if cur != "" {
				for _, t := range ref.trace[segStart:] {
					if p := primOf(t); p != "" {
						if p == "mkdir" {
							if made[short2(t)] {
								continue // pebble's own MkdirAll of the directory that already exists
							}
							made[short2(t)] = true
						}
						if l := segs[cur]; p == "writeUpd" && len(l) > 0 && l[len(l)-1] == "writeUpd" {
							continue // checksum and content are two writes of one logical write
						}
						segs[cur] = append(segs[cur], p)
					}
				}
			}
			cur = name
			segStart = len(ref.trace)
		}
		var refPanic interface{}
		func() {
			defer func() { refPanic = recover() }()
			runWorkload(w, ref, snap, &full, mark)
		}()
		if refPanic != nil {
			// the workload crashed the state machine without any injected crash
			run.Violate(hx.Violation{Property: "C16", Clause: "restart_never_panics", Signature: fmt.Sprintf("panic-without-crash:%v", refPanic), Seq: wi,
				What: fmt.Sprintf("workload %q run without any crash: the state machine panicked in its %q phase: %v", w.String(), cur, refPanic),
				Ops:  map[string]interface{}{"workload": w.String(), "crash_at": 0, "seed": *seed, "workload_index": wi}})
			continue
		}
		total := ref.n
		run.Extra[fmt.Sprintf("workload_%d", wi)] = fmt.Sprintf("%s: %d file-system operations", w, total)
		for _, name := range []string{"open", "recover", "reopen"} {
			if l, ok := segs[name]; ok {
				run.OpLine(map[string]interface{}{"op": "seq", "name": name})
				run.OutLine("seq " + name + " " + strings.Join(l, ","))
				run.Count("case:trace_" + name)
			}
		}
		noop := func(string) {}
		bad := 0
		for k := 1; k <= total; k++ {
			mem := vfs.NewStrictMem()
			fs := &countFS{MemFS: mem, crashAt: k}
			acks := []ack{}
			ackedAtCrash := -1
			fs.onCrash = func() { ackedAtCrash = len(acks) }
			func() {
				defer func() { recover() }()
				runWorkload(w, fs, snap, &acks, noop)
			}()
			mem.ResetToSyncedState()
			mem.SetIgnoreSyncs(false)
			lastAck := uint64(0)
			if ackedAtCrash > 0 {
				lastAck = acks[ackedAtCrash-1].index
			}
			run.Count("case:crash_point")
			run.Nontrivial(fmt.Sprintf("%d/%d", wi, k))
			viol := func(res string, second int) {
				bad++
				sig := strings.SplitN(res, ":", 2)[0]
				if strings.HasPrefix(res, "reopen-panic") {
					sig = res
				}
				run.Violate(hx.Violation{Property: "C16", Clause: "crash_consistent", Signature: sig, Seq: wi, OpIndex: k,
					What: fmt.Sprintf("workload %q, crash at file-system operation %d (%s), second crash at %d: %s", w.String(), k, ref.trace[k-1], second, res),
					Ops:  map[string]interface{}{"workload": w.String(), "crash_at": k, "operation": ref.trace[k-1], "second_crash_at": second, "seed": *seed, "workload_index": wi}})
			}
			if k <= *double || (k%7 == 0 && *double > 0) {
				// double crash: crash inside the recovering Open, at each of its operations
				probe := &countFS{MemFS: mem}
				n2 := func() (n int) {
					defer func() { recover() }()
					d := tests.NewDiskKVTest(1, 1).(*tests.DiskKVTest)
					d.SetTestFS(probe)
					if _, err := d.Open(nil); err == nil {
						d.Close()
					}
					return probe.n
				}()
				if n2 == 0 {
					n2 = probe.n
				}
				for j := 1; j <= n2; j++ {
					// rebuild the state after the first crash, then crash again at operation j of the recovery
					mem2 := vfs.NewStrictMem()
					fs1 := &countFS{MemFS: mem2, crashAt: k}
					func() {
						defer func() { recover() }()
						a := []ack{}
						runWorkload(w, fs1, snap, &a, noop)
					}()
					mem2.ResetToSyncedState()
					mem2.SetIgnoreSyncs(false)
					fs2 := &countFS{MemFS: mem2, crashAt: j}
					func() {
						defer func() { recover() }()
						d := tests.NewDiskKVTest(1, 1).(*tests.DiskKVTest)
						d.SetTestFS(fs2)
						if _, err := d.Open(nil); err == nil {
							d.Close()
						}
					}()
					mem2.ResetToSyncedState()
					mem2.SetIgnoreSyncs(false)
					run.Count("case:double_crash_point")
					if res, _ := check(mem2, full, lastAck, ackedAtCrash); res != "" {
						viol(res, j)
					}
				}
			}
			if res, _ := check(mem, full, lastAck, ackedAtCrash); res != "" {
				viol(res, 0)
			}
		}
		run.Sample(map[string]interface{}{"workload": w.String(), "operations": total, "failing_crash_points": bad, "first_operations": ref.trace[:min(len(ref.trace), 12)]})
	}
}

func min(a, b int) int {
	if a < b {
		return a
	}
	return b
}
