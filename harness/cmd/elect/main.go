// elect: correspondence driver for M-ELECT. Hook-built election managers (no
// ticker goroutine) take turns, in schedules the harness chooses, on a real
// single-replica NodeHost running the real Drummer DB; after every turn the
// election record and every manager's view are printed for the diff against the
// Lean model, and the Go-side oracle of C14 is evaluated: a server turns leader
// only when the record names it; a leader whose turn fails or finds another
// holder steps down; while the holder renews every round nobody replaces it;
// when it stops, one of the servers that keep taking turns takes over within a
// bounded number of rounds and stays the only one.
package main

import (
	"flag"
	"fmt"
	"strings"

	drummer "github.com/lni/drummer/v3"
	"verif/harness/internal/hx"
	"verif/harness/internal/nhx"
)

type view struct {
	leader bool
	has    bool
	inst   uint64
	tick   uint64
	static uint64
}

const takeoverBound = 7 // rounds (the turn-level theorem gives 5; two rounds of slack)

func main() {
	nhx.Quiet()
	seed := flag.Int64("seed", hx.Seed(), "PRNG seed")
	nseq := flag.Int("n", 40, "number of sequences (one NodeHost each)")
	out := flag.String("out", "", "output directory")
	flag.Parse()
	if *out == "" {
		hx.Die("need -out")
	}
	run := hx.NewRun(*out)
	defer run.Close()
	for s := 0; s < *nseq; s++ {
		r := hx.Rng(*seed, s)
		h := nhx.NewDrummerDBHost()
		n := 2 + r.Intn(4)
		ms := []*drummer.VerifElection{}
		for i := 0; i < n; i++ {
			ms = append(ms, drummer.VerifNewElection(h.NH, uint64(i+1)))
		}
		run.OpLine(map[string]interface{}{"op": "new", "n": n})
		run.OutLine("new")
		ops := []map[string]interface{}{}
		fail := func(clause, sig, what string) {
			run.Violate(hx.Violation{Property: "C14", Clause: clause, Signature: sig, What: what, Seq: s, OpIndex: len(ops), Ops: append([]map[string]interface{}{{"op": "new", "n": n}}, ops...)})
		}
		views := func() []view {
			vs := []view{}
			for _, m := range ms {
				l, has, ci, ct, st := m.View()
				vs = append(vs, view{l, has, ci, ct, st})
			}
			return vs
		}
		record := func() (uint64, uint64) {
			for try := 0; ; try++ {
				inst, tick, err := drummer.VerifElectionRecord(h.NH)
				if err == nil {
					return inst, tick
				}
				if try > 50 {
					hx.Die("cannot read the election record: %v", err)
				}
			}
		}
		turn := func(i int, cancelled bool) {
			before := views()[i]
			ms[i].Turn(cancelled)
			op := map[string]interface{}{"op": "turn", "srv": i, "cancel": cancelled}
			ops = append(ops, op)
			run.OpLine(op)
			inst, tick := record()
			var b strings.Builder
			fmt.Fprintf(&b, "rec=%d/%d", inst, tick)
			vs := views()
			for _, v := range vs {
				if v.has {
					fmt.Fprintf(&b, " [%v %d/%d/%d]", v.leader, v.inst, v.tick, v.static)
				} else {
					fmt.Fprintf(&b, " [%v -]", v.leader)
				}
			}
			run.OutLine(b.String())
			run.Count("case:turn")
			after := vs[i]
			id := uint64(i + 1)
			if !before.leader && after.leader {
				run.Count("c14:became_leader")
				if inst != id {
					fail("leader_only_after_own_id", "leader-without-record", fmt.Sprintf("server %d turned leader although the election record names %d", id, inst))
				}
			}
			if before.leader {
				if cancelled && after.leader {
					fail("step_down", "leader-kept-after-failed-read", fmt.Sprintf("leader %d stayed leader after a turn whose read failed", id))
				}
				if after.leader && inst != id {
					fail("step_down", "leader-kept-under-other-holder", fmt.Sprintf("leader %d stayed leader although the record names %d", id, inst))
				}
				if !after.leader {
					run.Count("c14:stepped_down")
				}
			}
			if cancelled {
				run.Count("c14:failed_turn")
			}
		}
		// phase 1: arbitrary schedules, pauses and failed turns (safety)
		paused := map[int]int{}
		rounds := 6 + r.Intn(20)
		for rd := 0; rd < rounds; rd++ {
			order := r.Perm(n)
			if r.Intn(4) == 0 {
				for i := range order {
					order[i] = r.Intn(n)
				}
			}
			for _, i := range order {
				if paused[i] > 0 {
					paused[i]--
					continue
				}
				if r.Intn(25) == 0 {
					paused[i] = 3 + r.Intn(8)
					continue
				}
				turn(i, r.Intn(15) == 0)
			}
		}
		// phase 2: round-fair, no failures: a leader emerges, then it is stable under renewal
		holder := uint64(0)
		for rd := 0; rd < 12; rd++ {
			for _, i := range r.Perm(n) {
				turn(i, false)
			}
			inst, _ := record()
			vs := views()
			if inst != 0 && vs[inst-1].leader {
				if holder == 0 {
					holder = inst
					run.Count("c14:leader_established")
				}
			}
			if holder != 0 && rd >= 8 {
				// by now every server has watched the holder renew for several rounds
				leaders := 0
				for _, v := range vs {
					if v.leader {
						leaders++
					}
				}
				if inst != holder || leaders != 1 {
					fail("stable_under_renewal", "leader-replaced-while-renewing", fmt.Sprintf("holder %d renewed every round, record now names %d, %d servers regard themselves as leader", holder, inst, leaders))
				}
				if inst != holder {
					holder = inst
				}
			}
		}
		if holder == 0 {
			fail("bounded_takeover", "no-leader-after-fair-rounds", "12 round-fair rounds without failures did not produce a leader")
		} else {
			// phase 3: the holder stops taking turns; the others keep taking them round-fairly
			stop := int(holder - 1)
			took := -1
			newHolder := uint64(0)
			for rd := 1; rd <= takeoverBound+3; rd++ {
				for _, i := range r.Perm(n) {
					if i != stop {
						turn(i, false)
					}
				}
				inst, _ := record()
				vs := views()
				leaders := 0
				for i, v := range vs {
					if i != stop && v.leader {
						leaders++
					}
				}
				if leaders > 1 {
					fail("bounded_takeover", "two-leaders-among-active", fmt.Sprintf("%d of the servers that keep taking turns regard themselves as leader", leaders))
				}
				if took < 0 && leaders == 1 && inst != holder {
					took = rd
					newHolder = inst
					run.Count(fmt.Sprintf("c14:takeover_in_round_%d", rd))
				} else if took >= 0 && inst != newHolder {
					fail("stable_under_renewal", "new-leader-replaced-while-renewing", fmt.Sprintf("server %d took over in round %d and renewed every round since, but the record now names %d", newHolder, took, inst))
					newHolder = inst
				}
				if took >= 0 && (leaders != 1 || !vs[inst-1].leader) {
					fail("bounded_takeover", "takeover-not-stable", "after the take-over the new leader did not stay the only leader")
				}
			}
			if took < 0 || took > takeoverBound {
				fail("bounded_takeover", "takeover-too-late", fmt.Sprintf("holder %d stopped; no other server took over within %d rounds (took over in round %d)", holder, takeoverBound, took))
			}
		}
		run.Nontrivial(fmt.Sprintf("%d", s))
		if s == 0 {
			run.Sample(ops[:min(len(ops), 8)])
		}
		h.Close()
	}
}

func min(a, b int) int {
	if a < b {
		return a
	}
	return b
}
