// elect: correspondence driver for M-ELECT. Hook-built election managers (no
// ticker goroutine) take turns, in schedules the harness chooses, on a real
// single-replica NodeHost running the real Drummer DB; after every turn the
// election record and every manager's view are printed for the diff against the
// Lean model, and the Go-side oracle of C14 is evaluated: a server turns leader
// only when the record names it; a leader whose turn fails or finds another
// holder steps down; while the holder renews every round nobody replaces it;
// when it stops, one of the servers that keep taking turns takes over within a
// bounded number of rounds and stays the only one.
package main

import (
	"context"
	"flag"
	"fmt"
	"runtime"
	"strings"
	"sync"
	"time"

	drummer "github.com/lni/drummer/v3"
	"verif/harness/internal/hx"
	"verif/harness/internal/nhx"
)

type view struct {
	leader bool
	has    bool
	inst   uint64
	tick   uint64
	static uint64
}

const takeoverBound = 7 // rounds (the turn-level theorem gives 5; two rounds of slack)

func main() {
	nhx.Quiet()
	seed := flag.Int64("seed", hx.Seed(), "PRNG seed")
	nseq := flag.Int("n", 40, "number of sequences (one NodeHost each)")
	out := flag.String("out", "", "output directory")
	flag.Parse()
	if *out == "" {
		hx.Die("need -out")
	}
	run := hx.NewRun(*out)
	defer run.Close()
	for s := 0; s < *nseq; s++ {
		r := hx.Rng(*seed, s)
		h := nhx.NewDrummerDBHost()
		n := 2 + r.Intn(4)
		ms := []guarded{}
		var schedNow *[]string // the schedule of the implementation-only phase in progress (for the replay of a crashed turn)
		var panicMu sync.Mutex
		for i := 0; i < n; i++ {
			i := i
			ms = append(ms, guarded{VerifElection: drummer.VerifNewElection(h.NH, uint64(i+1)), onPanic: func(rec interface{}) {
				// a turn of the election state machine never crashes, whatever the other servers did in between
				panicMu.Lock()
				defer panicMu.Unlock()
				sched := []string{fmt.Sprintf("%d servers; sequence %d of the op stream, then:", n, s)}
				if schedNow != nil {
					sched = append(sched, *schedNow...)
				}
				sched = append(sched, fmt.Sprintf("turn %d: panic %v", i+1, rec))
				run.Count("c14:turn_panicked")
				run.Violate(hx.Violation{Property: "C14", Clause: "turn_never_crashes", Signature: "election-turn-panicked", Seq: s,
					What: fmt.Sprintf("a turn of server %d crashed: %v", i+1, rec), Ops: sched})
			}})
		}
		run.OpLine(map[string]interface{}{"op": "new", "n": n})
		run.OutLine("new")
		ops := []map[string]interface{}{}
		fail := func(clause, sig, what string) {
			run.Violate(hx.Violation{Property: "C14", Clause: clause, Signature: sig, What: what, Seq: s, OpIndex: len(ops), Ops: append([]map[string]interface{}{{"op": "new", "n": n}}, ops...)})
		}
		views := func() []view {
			vs := []view{}
			for _, m := range ms {
				l, has, ci, ct, st := m.View()
				vs = append(vs, view{l, has, ci, ct, st})
			}
			return vs
		}
		record := func() (uint64, uint64) {
			for try := 0; ; try++ {
				inst, tick, err := drummer.VerifElectionRecord(h.NH)
				if err == nil {
					return inst, tick
				}
				if try > 50 {
					hx.Die("cannot read the election record: %v", err)
				}
			}
		}
		turns := make([]uint64, n) // the local turn counter of every server (the hook counts the same way)
		// fail = 0: no failure; 1: every DB operation of the turn fails; k > 1: the operations fail from the k-th on (the
		// read succeeds, then getting a session, the vote or the read after it fail): all failures happen before the
		// operation is issued (expired deadline), so the outcome is deterministic
		var turnK func(i int, failAt int)
		turn := func(i int, cancelled bool) {
			if cancelled {
				turnK(i, 1)
			} else {
				turnK(i, 0)
			}
		}
		turnK = func(i int, failAt int) {
			cancelled := failAt == 1
			before := views()[i]
			if failAt == 1 && r.Intn(2) == 0 {
				// the other way a turn's operations all fail: the caller's context was cancelled (and, so that the failure does not
				// race with the operation completing inside dragonboat, its deadline has passed as well)
				ms[i].TurnCtx(cancelledCtx{})
				run.Count("c14:failed_turn_by_cancellation")
			} else if failAt <= 1 {
				ms[i].Turn(cancelled)
			} else {
				sc := newStepCtx(0, 0)
				sc.expireAt = failAt
				ms[i].TurnCtx(sc)
				run.Count(fmt.Sprintf("c14:turn_failing_from_operation_%d", failAt))
			}
			turns[i]++
			op := map[string]interface{}{"op": "turn", "srv": i, "cancel": cancelled, "fail": failAt}
			ops = append(ops, op)
			run.OpLine(op)
			inst, tick := record()
			var b strings.Builder
			fmt.Fprintf(&b, "rec=%d/%d", inst, tick)
			vs := views()
			for _, v := range vs {
				if v.has {
					fmt.Fprintf(&b, " [%v %d/%d/%d]", v.leader, v.inst, v.tick, v.static)
				} else {
					fmt.Fprintf(&b, " [%v -]", v.leader)
				}
			}
			run.OutLine(b.String())
			run.Count("case:turn")
			after := vs[i]
			id := uint64(i + 1)
			if !before.leader && after.leader {
				run.Count("c14:became_leader")
				if inst != id {
					fail("leader_only_after_own_id", "leader-without-record", fmt.Sprintf("server %d turned leader although the election record names %d", id, inst))
				}
			}
			if before.leader {
				if cancelled && after.leader {
					fail("step_down", "leader-kept-after-failed-read", fmt.Sprintf("leader %d stayed leader after a turn whose read failed", id))
				}
				if after.leader && inst != id {
					fail("step_down", "leader-kept-under-other-holder", fmt.Sprintf("leader %d stayed leader although the record names %d", id, inst))
				}
				if !after.leader {
					run.Count("c14:stepped_down")
				}
			}
			if cancelled {
				run.Count("c14:failed_turn")
			}
			// a turn without failures of the server the record names (as leader, or as a follower that finds its own id
			// there and resumes) refreshes the record with the server's own current turn number: that is what lets the
			// others see it is alive
			if failAt == 0 && inst == id {
				run.Count("c14:holder_turn_checked")
				if tick != turns[i] {
					fail("renewal_visible", "holder-turn-did-not-refresh-record", fmt.Sprintf("server %d took turn %d without failures while the record names it, but the record carries turn %d: its renewal is invisible to the others", id, turns[i], tick))
				}
			}
		}
		// phase 1: arbitrary schedules, pauses and failed turns (safety)
		paused := map[int]int{}
		rounds := 6 + r.Intn(20)
		for rd := 0; rd < rounds; rd++ {
			order := r.Perm(n)
			if r.Intn(4) == 0 {
				for i := range order {
					order[i] = r.Intn(n)
				}
			}
			for _, i := range order {
				if paused[i] > 0 {
					paused[i]--
					continue
				}
				if r.Intn(25) == 0 {
					paused[i] = 3 + r.Intn(8)
					continue
				}
				switch x := r.Intn(30); {
				case x < 2:
					turnK(i, 1)
				case x < 5:
					turnK(i, 2+r.Intn(3))
				default:
					turnK(i, 0)
				}
			}
		}
		// phase 2: round-fair, no failures: a leader emerges, then it is stable under renewal
		holder := uint64(0)
		for rd := 0; rd < 12; rd++ {
			for _, i := range r.Perm(n) {
				turn(i, false)
			}
			inst, _ := record()
			vs := views()
			if inst != 0 && vs[inst-1].leader {
				if holder == 0 {
					holder = inst
					run.Count("c14:leader_established")
				}
			}
			if holder != 0 && rd >= 8 {
				// by now every server has watched the holder renew for several rounds
				leaders := 0
				for _, v := range vs {
					if v.leader {
						leaders++
					}
				}
				if inst != holder || leaders != 1 {
					fail("stable_under_renewal", "leader-replaced-while-renewing", fmt.Sprintf("holder %d renewed every round, record now names %d, %d servers regard themselves as leader", holder, inst, leaders))
				}
				if inst != holder {
					holder = inst
				}
			}
		}
		if holder == 0 {
			fail("bounded_takeover", "no-leader-after-fair-rounds", "12 round-fair rounds without failures did not produce a leader")
		} else {
			// phase 3: the holder stops taking turns; the others keep taking them round-fairly
			stop := int(holder - 1)
			took := -1
			newHolder := uint64(0)
			for rd := 1; rd <= takeoverBound+3; rd++ {
				for _, i := range r.Perm(n) {
					if i != stop {
						turn(i, false)
					}
				}
				inst, _ := record()
				vs := views()
				leaders := 0
				for i, v := range vs {
					if i != stop && v.leader {
						leaders++
					}
				}
				if leaders > 1 {
					fail("bounded_takeover", "two-leaders-among-active", fmt.Sprintf("%d of the servers that keep taking turns regard themselves as leader", leaders))
				}
				if took < 0 && leaders == 1 && inst != holder {
					took = rd
					newHolder = inst
					run.Count(fmt.Sprintf("c14:takeover_in_round_%d", rd))
				} else if took >= 0 && inst != newHolder {
					fail("stable_under_renewal", "new-leader-replaced-while-renewing", fmt.Sprintf("server %d took over in round %d and renewed every round since, but the record now names %d", newHolder, took, inst))
					newHolder = inst
				}
				if took >= 0 && (leaders != 1 || !vs[inst-1].leader) {
					fail("bounded_takeover", "takeover-not-stable", "after the take-over the new leader did not stay the only leader")
				}
			}
			if took < 0 || took > takeoverBound {
				fail("bounded_takeover", "takeover-too-late", fmt.Sprintf("holder %d stopped; no other server took over within %d rounds (took over in round %d)", holder, takeoverBound, took))
			}
		}
		// phase 7 (compared with the model after every single DB operation): any interleaving of the servers' operations.
		// A turn runs in its own goroutine and stops before each DB operation until the schedule lets that operation go
		// (or fail); between two operations of one server the others do theirs. Stretches in which some servers (often the
		// holder) stay silent let the others' dead-leader counters grow, so that campaigns, refused votes and refused
		// renewals happen in the middle of other servers' turns.
		{
			// bring every server to the end of its turn first: the model's turn-level state and the servers agree there
			inflight := make([]*opCtx, n)
			dones := make([]chan struct{}, n)
			microOp := func(i int, failOp bool) {
				before := views()[i]
				recBefore, _ := record()
				if inflight[i] == nil {
					oc := newOpCtx()
					d := make(chan struct{})
					inflight[i], dones[i] = oc, d
					turns[i]++
					go func() { ms[i].TurnCtx(oc); close(d) }()
					select {
					case <-oc.arrive:
					case <-d:
						hx.Die("a turn without any DB operation")
					}
				}
				oc := inflight[i]
				kind := oc.kind()
				oc.release <- failOp
				doneNow := false
				select {
				case <-oc.arrive:
				case <-dones[i]:
					doneNow = true
					inflight[i] = nil
				}
				op := map[string]interface{}{"op": "micro", "srv": i, "fail": failOp}
				ops = append(ops, op)
				run.OpLine(op)
				inst, tick := record()
				var b strings.Builder
				fmt.Fprintf(&b, "%s done=%v rec=%d/%d", kind, doneNow, inst, tick)
				vs := views()
				for _, v := range vs {
					if v.has {
						fmt.Fprintf(&b, " [%v %d/%d/%d]", v.leader, v.inst, v.tick, v.static)
					} else {
						fmt.Fprintf(&b, " [%v -]", v.leader)
					}
				}
				run.OutLine(b.String())
				run.Count("case:micro_" + kind)
				id := uint64(i + 1)
				// leader only after own id, operation by operation: a server that regards itself as leader after one of its
				// operations on the record has just read its own id there or had its write accepted; the session request in
				// between leaves it what it was
				if vs[i].leader {
					switch {
					case kind == "session":
						if !before.leader {
							fail("leader_only_after_own_id", "leader-after-session-request", fmt.Sprintf("server %d turned leader on a session request", id))
						}
					case failOp:
						fail("leader_only_after_own_id", "leader-after-failed-operation", fmt.Sprintf("server %d regards itself as leader after a %s that failed", id, kind))
					case inst != id:
						fail("leader_only_after_own_id", "leader-after-operation-that-did-not-confirm-it", fmt.Sprintf("server %d regards itself as leader after a %s that left the record naming %d (it named %d before)", id, kind, inst, recBefore))
					}
				}
				// compare-and-swap, operation by operation: a vote that takes the record over from another holder is accepted only
				// if that holder is the one the voter saw when it last read the record (or the record was vacant)
				if kind == "vote" && !failOp && inst == id && recBefore != id && recBefore != 0 && !(before.has && before.inst == recBefore) {
					seen := uint64(0)
					if before.has {
						seen = before.inst
					}
					fail("cas_exclusive", "vote-accepted-against-another-holder", fmt.Sprintf("server %d's vote was accepted although the record named %d at that moment and the voter had last seen %d there: the record had changed hands since, two campaigns against the same holder both succeeded", id, recBefore, seen))
				}
				if kind == "read" && before.leader && inflight[i] == nil && (failOp || recBefore != id) && vs[i].leader {
					fail("step_down", "leader-kept-after-read", fmt.Sprintf("leader %d read the record (failed: %v, names %d) and stayed leader", id, failOp, recBefore))
				}
			}
			steps := 60 + r.Intn(80)
			silent := map[int]bool{}
			for t := 0; t < steps; t++ {
				if t%25 == 0 {
					// a new stretch: who stays silent (servers in the middle of a turn stay there meanwhile)
					silent = map[int]bool{}
					if inst, _ := record(); inst != 0 && r.Intn(3) != 0 {
						silent[int(inst-1)] = true
					}
					for q := 0; q < n; q++ {
						if r.Intn(5) == 0 && len(silent) < n-1 {
							silent[q] = true
						}
					}
				}
				cand := []int{}
				for q := 0; q < n; q++ {
					if !silent[q] {
						cand = append(cand, q)
					}
				}
				i := cand[r.Intn(len(cand))]
				if r.Intn(3) == 0 {
					// prefer finishing something that is under way
					for _, q := range cand {
						if inflight[q] != nil {
							i = q
							break
						}
					}
				}
				microOp(i, r.Intn(14) == 0)
			}
			// drain: every turn under way is completed
			for q := 0; q < n; q++ {
				for inflight[q] != nil {
					microOp(q, false)
				}
			}
			run.Count("case:interleaved_schedule")
			// and from whatever state that left: one server alone becomes leader within the bound
			x := r.Intn(n)
			took := false
			for rd := 1; rd <= 2*(takeoverBound+3) && !took; rd++ {
				turn(x, false)
				inst, _ := record()
				took = views()[x].leader && inst == uint64(x+1)
			}
			if !took {
				fail("bounded_takeover", "sole-survivor-never-leader-after-interleaving", fmt.Sprintf("after an interleaved schedule, server %d took %d turns alone without becoming leader", x+1, 2*(takeoverBound+3)))
			}
		}
		// phase 4 (implementation only, nothing emitted for the model): schedules at the granularity of single DB operations.
		// A turn is paused before its k-th operation while another server takes a whole turn, or its k-th operation is
		// issued and then abandoned (the caller stops waiting; the operation may still take effect). Afterwards one server
		// alone keeps taking turns: it has to become leader within the bound, whatever happened before.
		for rep := 0; rep < 3; rep++ {
			sched := []string{}
			schedNow = &sched
			bg := func(i int) {
				ms[i].TurnCtx(context.Background())
				sched = append(sched, fmt.Sprintf("turn %d", i+1))
			}
			// some servers (often the current holder) stay silent for the whole repetition, so that the others race for
			// the take-over
			silent := map[int]bool{}
			if inst, _ := record(); inst != 0 && r.Intn(3) != 0 {
				silent[int(inst-1)] = true
			}
			for q := 0; q < n; q++ {
				if r.Intn(5) == 0 && len(silent) < n-1 {
					silent[q] = true
				}
			}
			active := []int{}
			for q := 0; q < n; q++ {
				if !silent[q] {
					active = append(active, q)
				}
			}
			sched = append(sched, fmt.Sprintf("servers taking turns: %v (numbered from 0)", active))
			steps := 12 + r.Intn(30)
			for t := 0; t < steps; t++ {
				i := active[r.Intn(len(active))]
				switch x := r.Intn(10); {
				case x < 5:
					bg(i)
				case x < 8:
					k := 1 + r.Intn(4)
					sc := newStepCtx(0, k)
					ms[i].TurnCtx(sc)
					sched = append(sched, fmt.Sprintf("turn %d, operation %d abandoned (%d operations started)", i+1, k, sc.calls()))
					time.Sleep(3 * time.Millisecond)
					run.Count("c14:turn_with_abandoned_operation")
				default:
					k := 1 + r.Intn(3)
					sc := newStepCtx(k, 0)
					done := make(chan struct{})
					go func() { ms[i].TurnCtx(sc); close(done) }()
					select {
					case <-sc.paused:
						j := active[r.Intn(len(active))]
						if j != i {
							ms[j].TurnCtx(context.Background())
						}
						sched = append(sched, fmt.Sprintf("turn %d paused before operation %d; turn %d; turn %d resumed", i+1, k, j+1, i+1))
						close(sc.resume)
						<-done
						run.Count("c14:turn_paused_mid_way")
					case <-done:
						sched = append(sched, fmt.Sprintf("turn %d (fewer than %d operations)", i+1, k))
					}
				}
				inst, _ := record()
				for q, v := range views() {
					if v.leader && inst != uint64(q+1) {
						// allowed transiently: the leader learns of it at its next turn; counted, not judged
						run.Count("c14:stale_leader_observed")
					}
				}
			}
			time.Sleep(5 * time.Millisecond)
			x := active[r.Intn(len(active))]
			bound := 2 * (takeoverBound + 3)
			took := -1
			for rd := 1; rd <= bound; rd++ {
				ms[x].TurnCtx(context.Background())
				inst, _ := record()
				if l, _, _, _, _ := ms[x].View(); l && inst == uint64(x+1) {
					took = rd
					break
				}
				time.Sleep(time.Millisecond)
			}
			run.Count("case:sole_survivor")
			if took < 0 {
				sched = append(sched, fmt.Sprintf("then server %d alone takes %d turns", x+1, bound))
				run.Violate(hx.Violation{Property: "C14", Clause: "bounded_takeover", Signature: "sole-survivor-never-leader", Seq: s,
					What: fmt.Sprintf("after a schedule with paused turns and abandoned operations, server %d took %d turns alone without becoming leader", x+1, bound),
					Ops:  append([]string{fmt.Sprintf("%d servers; phases 1-3 as in the op stream of sequence %d, then:", n, s)}, sched...)})
				break
			}
			run.Count(fmt.Sprintf("c14:sole_survivor_leader_in_round_%02d", took))
		}
		// phase 5 (implementation only): a directed race for the take-over. Everybody but two followers falls silent; the two
		// watch the dead holder in lock step, and in every round the first one is paused between reading the record and
		// its next operation while the second takes a whole turn, so that both campaign against the same record and one
		// loses. Then the winner falls silent too and the loser, alone, has to take over.
		if n >= 3 {
			inst, _ := record()
			cand := []int{}
			for q := 0; q < n; q++ {
				if uint64(q+1) != inst {
					cand = append(cand, q)
				}
			}
			a, b := cand[0], cand[1]
			if r.Intn(2) == 0 {
				a, b = b, a
			}
			k := 2 + r.Intn(2)
			sched := []string{fmt.Sprintf("%d servers, holder %d silent; followers %d and %d in lock step", n, inst, a+1, b+1)}
			schedNow = &sched
			for rd := 0; rd < takeoverBound+4; rd++ {
				wasA, wasB := views()[a].leader, views()[b].leader
				sc := newStepCtx(k, 0)
				done := make(chan struct{})
				go func() { ms[a].TurnCtx(sc); close(done) }()
				select {
				case <-sc.paused:
					ms[b].TurnCtx(context.Background())
					close(sc.resume)
					<-done
					sched = append(sched, fmt.Sprintf("turn %d paused before operation %d; turn %d; turn %d resumed", a+1, k, b+1, a+1))
				case <-done:
					ms[b].TurnCtx(context.Background())
					sched = append(sched, fmt.Sprintf("turn %d; turn %d", a+1, b+1))
				}
				if vs := views(); !wasA && !wasB && vs[a].leader && vs[b].leader {
					run.Violate(hx.Violation{Property: "C14", Clause: "cas_exclusive", Signature: "two-campaigns-against-one-holder-both-succeeded", Seq: s,
						What: fmt.Sprintf("followers %d and %d campaigned against the same silent holder %d in one round (the first paused between its read and a later operation while the second took its whole turn) and both regard themselves as leader", a+1, b+1, inst),
						Ops:  append([]string{}, sched...)})
					break
				}
			}
			now, _ := record()
			loser := -1
			if now == uint64(a+1) {
				loser = b
			} else if now == uint64(b+1) {
				loser = a
			}
			run.Count("case:directed_race")
			if loser >= 0 {
				run.Count("c14:race_had_a_winner")
				bound := 2 * (takeoverBound + 3)
				took := false
				for rd := 1; rd <= bound && !took; rd++ {
					ms[loser].TurnCtx(context.Background())
					i2, _ := record()
					if l, _, _, _, _ := ms[loser].View(); l && i2 == uint64(loser+1) {
						took = true
					}
					time.Sleep(time.Millisecond)
				}
				if !took {
					sched = append(sched, fmt.Sprintf("record names %d; then server %d alone takes %d turns", now, loser+1, bound))
					run.Violate(hx.Violation{Property: "C14", Clause: "bounded_takeover", Signature: "loser-of-a-race-never-leader", Seq: s,
						What: fmt.Sprintf("server %d lost a race for the take-over against %d; when %d fell silent as well, %d took %d turns alone without becoming leader", loser+1, now, now, loser+1, bound),
						Ops:  sched})
				}
			}
		}
		// phase 6 (implementation only): a renewal that is refused. The server the record names reads the record, finds its
		// own id and is paused before its renewal; meanwhile a follower that has watched the record stand still for long
		// enough campaigns against it and wins; the renewal is then refused. Whoever was refused has just been told that the
		// record is not its own: it must not regard itself as leader after that turn. First with the holder being the leader,
		// then with a holder that had stepped down after a failed read and is resuming.
		if n >= 2 {
			sched := []string{}
			schedNow = &sched
			holderID, _ := record()
			for try := 0; try < 14 && (holderID == 0 || !views()[holderID-1].leader); try++ {
				for q := 0; q < n; q++ {
					ms[q].TurnCtx(context.Background())
				}
				holderID, _ = record()
			}
			if holderID != 0 && views()[holderID-1].leader {
				L := int(holderID - 1)
				F := (L + 1 + r.Intn(n-1)) % n
				sched = append(sched, fmt.Sprintf("%d servers; record names %d, which is leader; only servers %d and %d take turns from here", n, L+1, L+1, F+1))
				refused := func(X, Y int, how string) {
					// Y watches the silent holder X until its next turn will campaign
					for t := 0; t < 12; t++ {
						if _, has, ci, _, st := ms[Y].View(); has && ci == uint64(X+1) && st >= 3 {
							break
						}
						ms[Y].TurnCtx(context.Background())
						sched = append(sched, fmt.Sprintf("turn %d", Y+1))
					}
					sc := newStepCtx(2, 0)
					done := make(chan struct{})
					go func() { ms[X].TurnCtx(sc); close(done) }()
					select {
					case <-sc.paused:
						ms[Y].TurnCtx(context.Background())
						close(sc.resume)
						<-done
						sched = append(sched, fmt.Sprintf("turn %d paused after it has read the record (before operation 2); turn %d; turn %d resumed", X+1, Y+1, X+1))
					case <-done:
						sched = append(sched, fmt.Sprintf("turn %d (one operation only)", X+1))
					}
					inst, _ := record()
					run.Count("case:refused_renewal_" + how)
					if inst == uint64(Y+1) {
						run.Count("c14:renewal_refused_" + how)
						if views()[X].leader {
							run.Violate(hx.Violation{Property: "C14", Clause: "leader_only_after_own_id", Signature: "leader-after-refused-renewal:" + how, Seq: s,
								What: fmt.Sprintf("server %d regards itself as leader at the end of a turn whose last operation, the renewal, was refused: the record names %d, which campaigned while %d was between reading the record and renewing it", X+1, Y+1, X+1),
								Ops:  append([]string{}, sched...)})
						}
					}
				}
				refused(L, F, "leader")
				// now F holds the record (and leads); a failed read makes it step down while the record keeps naming it
				if inst, _ := record(); inst == uint64(F+1) && views()[F].leader {
					ms[F].Turn(true)
					sched = append(sched, fmt.Sprintf("turn %d with a failing read: it steps down, the record still names it", F+1))
					if !views()[F].leader {
						refused(F, L, "resuming-holder")
					}
				}
			}
		}
		// phase 6b (implementation only): a campaigner overtaken between its vote and its read-back. Y has watched the
		// silent holder X for long enough and campaigns; its vote is accepted and Y is paused before it reads the record back;
		// meanwhile X comes back, finds the record naming Y, follows, sees the record stand still and campaigns against Y in
		// turn, and wins. Y's read-back then shows X's id: Y has not "read or written the record with its own id" as the last
		// thing it did and must not regard itself as leader.
		if n >= 2 {
			sched := []string{}
			schedNow = &sched
			holderID, _ := record()
			for try := 0; try < 14 && (holderID == 0 || !views()[holderID-1].leader); try++ {
				for q := 0; q < n; q++ {
					ms[q].TurnCtx(context.Background())
				}
				holderID, _ = record()
			}
			if holderID != 0 && views()[holderID-1].leader {
				X := int(holderID - 1)
				Y := (X + 1 + r.Intn(n-1)) % n
				sched = append(sched, fmt.Sprintf("%d servers; record names %d, which is leader; only servers %d and %d take turns from here", n, X+1, X+1, Y+1))
				for t := 0; t < 12; t++ {
					if _, has, ci, _, st := ms[Y].View(); has && ci == uint64(X+1) && st >= 3 {
						break
					}
					ms[Y].TurnCtx(context.Background())
					sched = append(sched, fmt.Sprintf("turn %d", Y+1))
				}
				sc := newStepCtx(3, 0)
				done := make(chan struct{})
				go func() { ms[Y].TurnCtx(sc); close(done) }()
				select {
				case <-sc.paused:
					run.Count("case:campaigner_paused_before_read_back")
					// the overtaker: a third server when there is one (the old holder stays silent), else the old holder itself
					Z := X
					if n >= 3 {
						for Z == X || Z == Y {
							Z = r.Intn(n)
						}
					}
					if inst, _ := record(); inst == uint64(Y+1) {
						sched = append(sched, fmt.Sprintf("turn %d: reads the record, votes for itself (accepted), paused before reading the record back", Y+1))
						for t := 0; t < 16; t++ {
							ms[Z].TurnCtx(context.Background())
							sched = append(sched, fmt.Sprintf("turn %d", Z+1))
							if inst, _ := record(); inst == uint64(Z+1) {
								break
							}
						}
					}
					close(sc.resume)
					<-done
					sched = append(sched, fmt.Sprintf("turn %d resumed: reads the record back", Y+1))
					if inst, _ := record(); inst == uint64(Z+1) {
						run.Count(fmt.Sprintf("c14:campaigner_overtaken_before_read_back_third_server_%v", Z != X))
						if views()[Y].leader {
							run.Violate(hx.Violation{Property: "C14", Clause: "leader_only_after_own_id", Signature: "leader-after-reading-another-holder", Seq: s,
								What: fmt.Sprintf("server %d regards itself as leader at the end of a turn whose last operation read an election record naming %d (which took the record over while %d was between its vote and its read-back)", Y+1, Z+1, Y+1),
								Ops:  append([]string{}, sched...)})
						}
					}
				case <-done:
					run.Count("c14:inconclusive_campaign_pause")
				}
			}
		}
		schedNow = nil
		run.Nontrivial(fmt.Sprintf("%d", s))
		if s == 0 {
			run.Sample(ops[:min(len(ops), 8)])
		}
		h.Close()
	}
}

// guarded wraps a server's election state machine: a turn taken under a harness context that panics is recorded as a
// finding (with the schedule that led to it) instead of killing the harness
type guarded struct {
	*drummer.VerifElection
	onPanic func(rec interface{})
}

func (g guarded) TurnCtx(c context.Context) {
	defer func() {
		if rec := recover(); rec != nil {
			g.onPanic(rec)
		}
	}()
	g.VerifElection.TurnCtx(c)
}

// stepCtx is a context that counts the DB operations started under it (every operation of the election code derives its
// own context with context.WithTimeout, which asks the parent for its deadline exactly once). Before operation pauseAt it
// blocks until resumed; from operation abandonAt on it is cancelled, so that operation is issued and then abandoned.
type stepCtx struct {
	mu        sync.Mutex
	n         int
	pauseAt   int
	abandonAt int
	expireAt  int // from this operation on the deadline has passed: operations fail before they are issued
	paused    chan struct{}
	resume    chan struct{}
	done      chan struct{}
	closed    bool
}

// opCtx stops a turn before every DB operation until the schedule releases that operation (to succeed, or to fail before
// it is issued). Which operation is about to be issued is read off the call stack. Closing a session that is being dropped
// (resetSession) is not an operation on the election record and belongs to the step that dropped it: it is let through.
type opCtx struct {
	mu      sync.Mutex
	k       string
	last    time.Time
	arrive  chan struct{}
	release chan bool
}

func newOpCtx() *opCtx { return &opCtx{arrive: make(chan struct{}), release: make(chan bool)} }

func (c *opCtx) kind() string { c.mu.Lock(); defer c.mu.Unlock(); return c.k }

func (c *opCtx) Deadline() (time.Time, bool) {
	pcs := make([]uintptr, 24)
	nn := runtime.Callers(2, pcs)
	frames := runtime.CallersFrames(pcs[:nn])
	k := "other"
	derive := false
	for {
		f, more := frames.Next()
		if strings.HasPrefix(f.Function, "context.WithDeadline") || strings.HasPrefix(f.Function, "context.WithTimeout") {
			derive = true
		}
		switch {
		case k != "other":
		case strings.Contains(f.Function, "resetSession"):
			k = "close"
		case strings.Contains(f.Function, "getElectionInfo"):
			k = "read"
		case strings.Contains(f.Function, "getSession"):
			k = "session"
		case strings.Contains(f.Function, "makeDrummerVote"):
			k = "vote"
		}
		if !more {
			break
		}
	}
	if !derive {
		// not the start of an operation: the context derived for an operation whose deadline has already passed asks its
		// parent again (context.WithTimeout returns a plain child when the parent's deadline is the earlier one)
		c.mu.Lock()
		defer c.mu.Unlock()
		return c.last, true
	}
	if k == "close" {
		return time.Now().Add(time.Hour), true
	}
	c.mu.Lock()
	c.k = k
	c.mu.Unlock()
	c.arrive <- struct{}{}
	d := time.Now().Add(time.Hour)
	if failOp := <-c.release; failOp {
		d = time.Now().Add(-time.Hour)
	}
	c.mu.Lock()
	c.last = d
	c.mu.Unlock()
	return d, true
}
func (c *opCtx) Done() <-chan struct{}         { return nil }
func (c *opCtx) Err() error                    { return nil }
func (c *opCtx) Value(interface{}) interface{} { return nil }

func newStepCtx(pauseAt, abandonAt int) *stepCtx {
	return &stepCtx{pauseAt: pauseAt, abandonAt: abandonAt, paused: make(chan struct{}), resume: make(chan struct{}), done: make(chan struct{})}
}

func (c *stepCtx) calls() int { c.mu.Lock(); defer c.mu.Unlock(); return c.n }

func (c *stepCtx) Deadline() (time.Time, bool) {
	c.mu.Lock()
	c.n++
	n := c.n
	if c.abandonAt > 0 && n >= c.abandonAt && !c.closed {
		c.closed = true
		close(c.done)
	}
	c.mu.Unlock()
	if c.pauseAt > 0 && n == c.pauseAt {
		close(c.paused)
		<-c.resume
	}
	if c.expireAt > 0 && n >= c.expireAt {
		return time.Now().Add(-time.Hour), true
	}
	return time.Now().Add(time.Hour), true
}
func (c *stepCtx) Done() <-chan struct{} { return c.done }
func (c *stepCtx) Err() error {
	c.mu.Lock()
	defer c.mu.Unlock()
	if c.closed {
		return context.Canceled
	}
	return nil
}
func (c *stepCtx) Value(interface{}) interface{} { return nil }

func min(a, b int) int {
	if a < b {
		return a
	}
	return b
}

// cancelledCtx: a context that has been cancelled and whose deadline has passed.
type cancelledCtx struct{}

var closedCh = func() chan struct{} { c := make(chan struct{}); close(c); return c }()

func (cancelledCtx) Deadline() (time.Time, bool)   { return time.Now().Add(-time.Hour), true }
func (cancelledCtx) Done() <-chan struct{}         { return closedCh }
func (cancelledCtx) Err() error                    { return context.Canceled }
func (cancelledCtx) Value(interface{}) interface{} { return nil }
