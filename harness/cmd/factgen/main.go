// factgen: the translator tie (DESIGN.md 2.2). Reads /repo's working tree and
// regenerates lean/DrummerVerif/Gen/*.lean:
//
//	GenConst.lean   constants, evaluated in-process from the real packages
//	GenPred.lean    decision predicates, translated expression by expression
//	GenOrder.lean   program-order skeletons of concurrent procedures
//	GenFields.lean  field / table facts (snapshot fields, session conversions)
//
// Files are rewritten only when their content changes so that lake rebuilds
// nothing on an unchanged tree.
package main

import (
	"bytes"
	"flag"
	"fmt"
	"go/ast"
	"go/parser"
	"go/printer"
	"go/token"
	"os"
	"path/filepath"
	"reflect"
	"sort"
	"strings"

	drummer "github.com/lni/drummer/v3"
	"github.com/lni/drummer/v3/kv"
	"github.com/lni/drummer/v3/settings"
)

type target struct {
	recv, name string // Go function (receiver type, name)
	lean       string // Lean name under Drummer.Gen
	// cond targets: translate the first if-condition (or return expression) of
	// the function whose source text contains marker, with the given locals
	marker string
	locals [][2]string // name, Go type (in order: become the Lean parameters)
}

// Go type -> Lean type
var leanType = map[string]string{"shardRepair": "ShardRepair", "replica": "Replica", "shard": "Shard",
	"nodeHostSpec": "HostSpec", "uint64": "Nat", "int": "Nat", "bool": "Bool", "string": "String",
	"DB": "DB", "pb.KV": "KVRec", "pb.ShardInfo": "ShardInfo", "pb.NodeHostRequest": "Request"}

// Go struct field -> Lean field
var leanField = map[string]string{
	"shardRepair.failedReplicas": "failed", "shardRepair.okReplicas": "ok", "shardRepair.replicasToStart": "toStart",
	"replica.Tick": "tick", "replica.FirstObserved": "firstObserved", "replica.ReplicaID": "replicaId",
	"shard.Replicas": "replicas", "shard.ConfigChangeIndex": "cci",
	"nodeHostSpec.Tick": "tick", "nodeHostSpec.Region": "region",
	"DB.LaunchDeadline": "launchDeadline", "DB.Tick": "tick", "DB.Failed": "failed",
	"pb.KV.InstanceId": "instanceId", "pb.KV.OldInstanceId": "oldInstanceId", "pb.KV.Finalized": "finalized",
	"pb.ShardInfo.ConfigChangeIndex": "cci", "pb.ShardInfo.ReplicaId": "replicaId",
	"pb.NodeHostRequest.Join": "join", "pb.NodeHostRequest.Restore": "restore",
}

// receivers whose fields become plain parameters (no Lean record for them)
var flatten = map[string][][2]string{
	"liveFilter":           {{"currentTick", "uint64"}, {"gap", "uint64"}},
	"regionFilter":         {{"region", "string"}},
	"dragonboat.ShardInfo": {{"ConfigChangeIndex", "uint64"}, {"Pending", "bool"}},
}

// source-text rewrites for selectors that are not struct fields of the model
var rewrite = map[string]string{
	"r.Change.Type":     "r.type",
	"pb.Request_CREATE": "ReqType.create",
}

// extra field types of foreign structs (protobuf messages), for typeOf
var foreignFields = map[string]map[string]string{
	"pb.KV":                {"InstanceId": "uint64", "OldInstanceId": "uint64", "Finalized": "bool", "Tick": "uint64"},
	"pb.ShardInfo":         {"ConfigChangeIndex": "uint64", "ReplicaId": "uint64"},
	"pb.NodeHostRequest":   {"Join": "bool", "Restore": "bool"},
	"dragonboat.ShardInfo": {"ConfigChangeIndex": "uint64", "Pending": "bool"},
}

type gen struct {
	fset    *token.FileSet
	structs map[string]map[string]string
	funcs   map[string]*ast.FuncDecl
	names   map[string]string
	unsup   []string
}

func typeStr(e ast.Expr) string {
	switch t := e.(type) {
	case *ast.Ident:
		return t.Name
	case *ast.StarExpr:
		return typeStr(t.X)
	case *ast.ArrayType:
		return "[]" + typeStr(t.Elt)
	case *ast.MapType:
		return "map[" + typeStr(t.Key) + "]" + typeStr(t.Value)
	case *ast.SelectorExpr:
		return typeStr(t.X) + "." + t.Sel.Name
	}
	return "?"
}

type env map[string]string

func (g *gen) src(n ast.Node) string {
	var b bytes.Buffer
	printer.Fprint(&b, g.fset, n)
	return b.String()
}

func (g *gen) typeOf(e ast.Expr, en env) string {
	switch x := e.(type) {
	case *ast.Ident:
		if t, ok := en[x.Name]; ok {
			return t
		}
		return "?"
	case *ast.StarExpr:
		return g.typeOf(x.X, en)
	case *ast.SelectorExpr:
		st := g.typeOf(x.X, en)
		if f, ok := g.structs[st]; ok {
			return f[x.Sel.Name]
		}
		if f, ok := foreignFields[st]; ok {
			return f[x.Sel.Name]
		}
		return "?"
	case *ast.BinaryExpr:
		switch x.Op {
		case token.ADD, token.SUB, token.MUL, token.QUO, token.REM:
			t := g.typeOf(x.X, en)
			if t == "?" || t == "lit" {
				t = g.typeOf(x.Y, en)
			}
			return t
		}
		return "bool"
	case *ast.BasicLit:
		return "lit"
	case *ast.ParenExpr:
		return g.typeOf(x.X, en)
	case *ast.CallExpr:
		if id, ok := x.Fun.(*ast.Ident); ok && id.Name == "len" {
			return "int"
		}
		if fd := g.callee(x, en); fd != nil && fd.Type.Results != nil {
			return typeStr(fd.Type.Results.List[0].Type)
		}
	}
	return "?"
}

func (g *gen) callee(c *ast.CallExpr, en env) *ast.FuncDecl {
	switch f := c.Fun.(type) {
	case *ast.Ident:
		return g.funcs[f.Name]
	case *ast.SelectorExpr:
		return g.funcs[g.typeOf(f.X, en)+"."+f.Sel.Name]
	}
	return nil
}

func (g *gen) fail(n ast.Node, why string) string {
	g.unsup = append(g.unsup, fmt.Sprintf("%s: %s", g.fset.Position(n.Pos()), why))
	return "UNSUPPORTED"
}

func (g *gen) expr(e ast.Expr, en env) string {
	if r, ok := rewrite[g.src(e)]; ok {
		return r
	}
	switch x := e.(type) {
	case *ast.ParenExpr:
		return "(" + g.expr(x.X, en) + ")"
	case *ast.StarExpr:
		return g.expr(x.X, en)
	case *ast.BasicLit:
		return x.Value
	case *ast.Ident:
		if x.Name == "true" || x.Name == "false" {
			return x.Name
		}
		if _, ok := en[x.Name]; ok {
			return x.Name
		}
		return "Gen." + x.Name // package-level constant
	case *ast.SelectorExpr:
		st := g.typeOf(x.X, en)
		if fl, ok := flatten[st]; ok {
			for _, f := range fl {
				if f[0] == x.Sel.Name {
					return g.expr(x.X, en) + "_" + x.Sel.Name
				}
			}
		}
		lf, ok := leanField[st+"."+x.Sel.Name]
		if !ok {
			return g.fail(x, "no Lean field for "+st+"."+x.Sel.Name)
		}
		return g.expr(x.X, en) + "." + lf
	case *ast.UnaryExpr:
		if x.Op == token.NOT {
			return "(!" + g.expr(x.X, en) + ")"
		}
	case *ast.BinaryExpr:
		a, b := g.expr(x.X, en), g.expr(x.Y, en)
		switch x.Op {
		case token.LAND:
			return "(" + a + " && " + b + ")"
		case token.LOR:
			return "(" + a + " || " + b + ")"
		case token.EQL:
			return "(" + a + " == " + b + ")"
		case token.NEQ:
			return "(" + a + " != " + b + ")"
		case token.LSS, token.GTR, token.LEQ, token.GEQ:
			op := map[token.Token]string{token.LSS: "<", token.GTR: ">", token.LEQ: "≤", token.GEQ: "≥"}[x.Op]
			return "decide (" + a + " " + op + " " + b + ")"
		case token.ADD:
			return "(" + a + " + " + b + ")"
		case token.MUL:
			return "(" + a + " * " + b + ")"
		case token.QUO:
			return "(" + a + " / " + b + ")"
		case token.REM:
			return "(" + a + " % " + b + ")"
		case token.SUB:
			if g.typeOf(x, en) == "uint64" {
				return "(Gen.usub64 " + a + " " + b + ")" // wrap-around, never truncated
			}
			return g.fail(x, "subtraction on "+g.typeOf(x, en))
		}
	case *ast.CallExpr:
		if id, ok := x.Fun.(*ast.Ident); ok && id.Name == "len" {
			return g.expr(x.Args[0], en) + ".length"
		}
		var key string
		var args []string
		switch f := x.Fun.(type) {
		case *ast.Ident:
			key = f.Name
		case *ast.SelectorExpr:
			key = g.typeOf(f.X, en) + "." + f.Sel.Name
			args = append(args, g.expr(f.X, en))
		}
		ln, ok := g.names[key]
		if !ok {
			return g.fail(x, "call to untranslated "+key)
		}
		for _, a := range x.Args {
			args = append(args, "("+g.expr(a, en)+")")
		}
		return "(Gen." + ln + " " + strings.Join(args, " ") + ")"
	}
	return g.fail(e, fmt.Sprintf("expression %T", e))
}

func copyEnv(en env) env {
	en2 := env{}
	for k, t := range en {
		en2[k] = t
	}
	return en2
}

// filterLoop recognises  result := make(..); for _, v := range X { if C { result = append(result, v|*v) } }; return result
func (g *gen) filterLoop(stmts []ast.Stmt, en env) (string, bool) {
	if len(stmts) != 3 {
		return "", false
	}
	as, ok1 := stmts[0].(*ast.AssignStmt)
	rg, ok2 := stmts[1].(*ast.RangeStmt)
	rt, ok3 := stmts[2].(*ast.ReturnStmt)
	if !ok1 || !ok2 || !ok3 || len(rg.Body.List) != 1 || rg.Value == nil {
		return "", false
	}
	resID, ok := as.Lhs[0].(*ast.Ident)
	if !ok {
		return "", false
	}
	iff, ok := rg.Body.List[0].(*ast.IfStmt)
	if !ok || iff.Else != nil || iff.Init != nil || len(iff.Body.List) != 1 {
		return "", false
	}
	if id, ok := rt.Results[0].(*ast.Ident); !ok || id.Name != resID.Name {
		return "", false
	}
	v := rg.Value.(*ast.Ident).Name
	ct := g.typeOf(rg.X, en)
	elem := strings.TrimPrefix(ct, "[]")
	if i := strings.Index(ct, "]"); strings.HasPrefix(ct, "map[") {
		elem = ct[i+1:]
	}
	en2 := copyEnv(en)
	en2[v] = elem
	return fmt.Sprintf("%s.filter (fun %s => %s)", g.expr(rg.X, en), v, g.expr(iff.Cond, en2)), true
}

func (g *gen) body(stmts []ast.Stmt, en env) string {
	if s, ok := g.filterLoop(stmts, en); ok {
		return s
	}
	if len(stmts) == 0 {
		return "UNSUPPORTED"
	}
	switch s := stmts[0].(type) {
	case *ast.ReturnStmt:
		return g.expr(s.Results[0], en)
	case *ast.AssignStmt:
		if s.Tok == token.DEFINE && len(s.Lhs) == 1 {
			n := s.Lhs[0].(*ast.Ident).Name
			en2 := copyEnv(en)
			en2[n] = g.typeOf(s.Rhs[0], en)
			return "let " + n + " := " + g.expr(s.Rhs[0], en) + "\n  " + g.body(stmts[1:], en2)
		}
	case *ast.IfStmt:
		if s.Init == nil {
			els := ""
			if s.Else != nil {
				els = g.body(s.Else.(*ast.BlockStmt).List, en)
			} else {
				els = g.body(stmts[1:], en)
			}
			return "if " + g.expr(s.Cond, en) + " then " + g.body(s.Body.List, en) + "\n  else " + els
		}
	}
	return g.fail(stmts[0], fmt.Sprintf("statement %T", stmts[0]))
}

// findCond returns the first if-condition / return expression inside fd whose
// source text contains marker.
func (g *gen) findCond(fd *ast.FuncDecl, marker string) ast.Expr {
	var found ast.Expr
	ast.Inspect(fd.Body, func(n ast.Node) bool {
		if found != nil {
			return false
		}
		switch x := n.(type) {
		case *ast.IfStmt:
			if strings.Contains(g.src(x.Cond), marker) {
				found = x.Cond
				return false
			}
		case *ast.ReturnStmt:
			if len(x.Results) == 1 && strings.Contains(g.src(x.Results[0]), marker) {
				found = x.Results[0]
				return false
			}
		}
		return true
	})
	return found
}

func (g *gen) parseDir(dir string) {
	files, _ := filepath.Glob(filepath.Join(dir, "*.go"))
	sort.Strings(files)
	for _, f := range files {
		if strings.HasSuffix(f, "_test.go") || strings.HasSuffix(f, "verif_hooks.go") {
			continue
		}
		af, err := parser.ParseFile(g.fset, f, nil, 0)
		if err != nil {
			fmt.Fprintln(os.Stderr, err)
			os.Exit(2)
		}
		for _, d := range af.Decls {
			switch x := d.(type) {
			case *ast.FuncDecl:
				key := x.Name.Name
				if x.Recv != nil {
					key = typeStr(x.Recv.List[0].Type) + "." + key
				}
				g.funcs[key] = x
			case *ast.GenDecl:
				for _, sp := range x.Specs {
					if ts, ok := sp.(*ast.TypeSpec); ok {
						if st, ok := ts.Type.(*ast.StructType); ok {
							m := map[string]string{}
							for _, fl := range st.Fields.List {
								for _, n := range fl.Names {
									m[n.Name] = typeStr(fl.Type)
								}
							}
							g.structs[ts.Name.Name] = m
						}
					}
				}
			}
		}
	}
}

func key(t target) string {
	if t.recv != "" {
		return t.recv + "." + t.name
	}
	return t.name
}

func genPred(repo string) (string, []string) {
	targets := []target{
		{recv: "", name: "EntityFailed", lean: "entityFailed"},
		{recv: "replica", name: "failed", lean: "replica_failed"},
		{recv: "replica", name: "waitingToBeStarted", lean: "replica_waiting"},
		{recv: "shard", name: "quorum", lean: "shard_quorum"},
		{recv: "shard", name: "getOkReplicas", lean: "shard_okReplicas"},
		{recv: "shard", name: "getReplicasToStart", lean: "shard_toStart"},
		{recv: "shard", name: "getFailedReplicas", lean: "shard_failedReplicas"},
		{recv: "shard", name: "available", lean: "shard_available"},
		{recv: "shardRepair", name: "quorum", lean: "repair_quorum"},
		{recv: "shardRepair", name: "available", lean: "repair_available"},
		{recv: "shardRepair", name: "addRequired", lean: "repair_addRequired"},
		{recv: "shardRepair", name: "createRequired", lean: "repair_createRequired"},
		{recv: "shardRepair", name: "deleteRequired", lean: "repair_deleteRequired"},
		{recv: "shardRepair", name: "needToBeRestored", lean: "repair_needToBeRestored"},
		{recv: "nodeHostSpec", name: "available", lean: "host_available"},
		{recv: "liveFilter", name: "filter", lean: "liveFilter_filter"},
		{recv: "regionFilter", name: "filter", lean: "regionFilter_filter"},
		// conditions inside larger functions
		{recv: "DB", name: "checkLaunchDeadline", lean: "deadline_missed", marker: "LaunchDeadline", locals: [][2]string{{"d", "DB"}}},
		{recv: "DB", name: "applyKVUpdate", lean: "kv_holder_ok", marker: "OldInstanceId", locals: [][2]string{{"oldRec", "pb.KV"}, {"kv", "pb.KV"}}},
		{recv: "shard", name: "killRequestRequired", lean: "kill_version_guard", marker: "ConfigChangeIndex", locals: [][2]string{{"c", "shard"}, {"ci", "pb.ShardInfo"}}},
		{recv: "", name: "isLaunchRequests", lean: "is_launch_request", marker: "Request_CREATE", locals: [][2]string{{"r", "pb.NodeHostRequest"}}},
		// client/nodehost.go: when the agent leaves the membership details out of its report
		{recv: "DrummerClient", name: "SendNodeHostInfo", lean: "agent_incomplete", marker: "ConfigChangeIndex", locals: [][2]string{{"ok", "bool"}, {"cci", "uint64"}, {"v", "dragonboat.ShardInfo"}}},
	}
	g := &gen{fset: token.NewFileSet(), structs: map[string]map[string]string{}, funcs: map[string]*ast.FuncDecl{}, names: map[string]string{}}
	g.parseDir(repo)
	g.parseDir(filepath.Join(repo, "client"))
	for _, t := range targets {
		if t.marker == "" {
			g.names[key(t)] = t.lean
		}
	}
	var out strings.Builder
	out.WriteString("-- GENERATED by factgen from the Go sources; do not edit\nimport DrummerVerif.Model.Sched2\nimport DrummerVerif.Gen.GenConst\nnamespace Drummer\nnamespace Gen\n")
	out.WriteString("def usub64 (a b : Nat) : Nat := (a + 18446744073709551616 - b) % 18446744073709551616\n\n")
	for _, t := range targets {
		fd := g.funcs[key(t)]
		if fd == nil {
			g.unsup = append(g.unsup, "missing function "+key(t))
			continue
		}
		pos := g.fset.Position(fd.Pos())
		if t.marker != "" {
			c := g.findCond(fd, t.marker)
			if c == nil {
				g.unsup = append(g.unsup, "no condition mentioning "+t.marker+" in "+key(t))
				continue
			}
			en := env{}
			var params []string
			for _, l := range t.locals {
				en[l[0]] = l[1]
				if fl, ok := flatten[l[1]]; ok {
					for _, f := range fl {
						params = append(params, fmt.Sprintf("(%s_%s : %s)", l[0], f[0], leanType[f[1]]))
					}
					continue
				}
				params = append(params, fmt.Sprintf("(%s : %s)", l[0], leanType[l[1]]))
			}
			fmt.Fprintf(&out, "/-- %s:%d condition in `%s`: `%s` -/\ndef %s %s : Bool :=\n  %s\n\n", filepath.Base(pos.Filename), g.fset.Position(c.Pos()).Line, key(t),
				strings.ReplaceAll(g.src(c), "\n", " "), t.lean, strings.Join(params, " "), g.expr(c, en))
			continue
		}
		en := env{}
		var params []string
		if fd.Recv != nil && len(fd.Recv.List[0].Names) > 0 {
			rn := fd.Recv.List[0].Names[0].Name
			rt := typeStr(fd.Recv.List[0].Type)
			en[rn] = rt
			if fl, ok := flatten[rt]; ok {
				for _, f := range fl {
					params = append(params, fmt.Sprintf("(%s_%s : %s)", rn, f[0], leanType[f[1]]))
				}
			} else {
				params = append(params, fmt.Sprintf("(%s : %s)", rn, leanType[rt]))
			}
		}
		for _, p := range fd.Type.Params.List {
			for _, n := range p.Names {
				pt := typeStr(p.Type)
				en[n.Name] = pt
				lt := leanType[pt]
				if strings.HasPrefix(pt, "[]") {
					lt = "List " + leanType[pt[2:]]
				}
				params = append(params, fmt.Sprintf("(%s : %s)", n.Name, lt))
			}
		}
		rt := typeStr(fd.Type.Results.List[0].Type)
		lrt := leanType[rt]
		if strings.HasPrefix(rt, "[]") {
			lrt = "List " + leanType[rt[2:]]
		}
		fmt.Fprintf(&out, "/-- %s:%d `%s` -/\ndef %s %s : %s :=\n  %s\n\n", filepath.Base(pos.Filename), pos.Line, key(t), t.lean,
			strings.Join(params, " "), lrt, g.body(fd.Body.List, en))
	}
	out.WriteString("end Gen\nend Drummer\n")
	return out.String(), g.unsup
}

// ---------------------------------------------------------------- constants

func genConst() string {
	c := drummer.VerifConsts()
	var out strings.Builder
	out.WriteString("-- GENERATED by factgen: constants as evaluated by the Go compiler in the real packages; do not edit\nnamespace Drummer\nnamespace Gen\n")
	ks := make([]string, 0, len(c))
	for k := range c {
		ks = append(ks, k)
	}
	sort.Strings(ks)
	for _, k := range ks {
		fmt.Fprintf(&out, "def %s : Nat := %d\n", k, c[k])
	}
	fmt.Fprintf(&out, "def settingsNodeHostTTL : Nat := %d\n", settings.Soft.NodeHostTTL)
	fmt.Fprintf(&out, "def settingsLaunchDeadlineTick : Nat := %d\n", settings.LaunchDeadlineTick)
	fmt.Fprintf(&out, "def persisentLogReportCycle : Nat := %d\n", settings.Soft.PersisentLogReportCycle)
	fmt.Fprintf(&out, "def nodeHostInfoReportSecond : Nat := %d\n", settings.Soft.NodeHostInfoReportSecond)
	fmt.Fprintf(&out, "def colferSizeMax : Nat := %d\n", kv.ColferSizeMax)
	out.WriteString("end Gen\nend Drummer\n")
	return out.String()
}

// ---------------------------------------------------------------- program order

var acts = map[string]bool{"setBusy": true, "setIdle": true, "setStopped": true, "rpc": true, "recordFailed": true,
	"recordCompleted": true, "recordInvoked": true}

type orderGen struct {
	recv string
	// calls to these receiver methods / fields are the RPC of the procedure
	rpc map[string]bool
}

func (o *orderGen) callName(e ast.Expr) string {
	c, ok := e.(*ast.CallExpr)
	if !ok {
		return ""
	}
	if s, ok := c.Fun.(*ast.SelectorExpr); ok {
		if id, ok := s.X.(*ast.Ident); ok && id.Name == o.recv {
			return s.Sel.Name
		}
	}
	return ""
}

func act(n string) string {
	if acts[n] {
		return "." + n
	}
	return ".unknown"
}

func isErrCond(e ast.Expr) (neg bool, ok bool) {
	b, ok := e.(*ast.BinaryExpr)
	if !ok {
		return false, false
	}
	x, ok1 := b.X.(*ast.Ident)
	y, ok2 := b.Y.(*ast.Ident)
	if ok1 && ok2 && x.Name == "err" && y.Name == "nil" {
		return b.Op == token.EQL, true
	}
	return false, false
}

func (o *orderGen) block(stmts []ast.Stmt) string {
	var parts []string
	for _, s := range stmts {
		switch x := s.(type) {
		case *ast.ExprStmt:
			if n := o.callName(x.X); n != "" {
				parts = append(parts, ".call "+act(o.mapName(n)))
			} else {
				parts = append(parts, ".other")
			}
		case *ast.AssignStmt:
			if len(x.Rhs) == 1 {
				if n := o.callName(x.Rhs[0]); n != "" {
					parts = append(parts, ".call "+act(o.mapName(n)))
					continue
				}
			}
			parts = append(parts, ".other")
		case *ast.DeferStmt:
			if n := o.callName(x.Call); n != "" {
				parts = append(parts, ".defer "+act(o.mapName(n)))
			} else {
				parts = append(parts, ".other")
			}
		case *ast.GoStmt:
			if fl, ok := x.Call.Fun.(*ast.FuncLit); ok {
				parts = append(parts, ".spawn ("+o.block(fl.Body.List)+")")
			} else {
				parts = append(parts, ".other")
			}
		case *ast.IfStmt:
			neg, ok := isErrCond(x.Cond)
			if !ok || x.Init != nil {
				parts = append(parts, ".other")
				continue
			}
			thenB := o.block(x.Body.List)
			elseB := ".seq []"
			if x.Else != nil {
				if eb, ok := x.Else.(*ast.BlockStmt); ok {
					elseB = o.block(eb.List)
				} else {
					elseB = ".other"
				}
			}
			if neg {
				thenB, elseB = elseB, thenB
			}
			parts = append(parts, ".onErr ("+thenB+") ("+elseB+")")
		default:
			parts = append(parts, ".other")
		}
	}
	return ".seq [" + strings.Join(parts, ", ") + "]"
}

func (o *orderGen) mapName(n string) string {
	if o.rpc[n] {
		return "rpc"
	}
	if strings.HasPrefix(n, "record") {
		for _, suf := range []string{"Failed", "Completed", "Invoked"} {
			if strings.HasSuffix(n, suf) {
				return "record" + suf
			}
		}
	}
	return n
}

func genOrder(repo string) (string, []string) {
	var unsup []string
	fset := token.NewFileSet()
	var out strings.Builder
	out.WriteString("-- GENERATED by factgen (program order); do not edit\nimport DrummerVerif.Model.Order\nnamespace Drummer.Gen\n")
	af, err := parser.ParseFile(fset, filepath.Join(repo, "lcm", "process.go"), nil, 0)
	if err != nil {
		return "", []string{err.Error()}
	}
	want := map[string]bool{"StartWrite": false, "StartRead": false}
	for _, d := range af.Decls {
		fd, ok := d.(*ast.FuncDecl)
		if !ok || fd.Recv == nil || len(fd.Recv.List[0].Names) == 0 {
			continue
		}
		if _, ok := want[fd.Name.Name]; ok {
			o := &orderGen{recv: fd.Recv.List[0].Names[0].Name, rpc: map[string]bool{"write": true, "read": true}}
			fmt.Fprintf(&out, "def prog_%s : Prog := %s\n", fd.Name.Name, o.block(fd.Body.List))
			want[fd.Name.Name] = true
		}
	}
	for k, v := range want {
		if !v {
			unsup = append(unsup, "lcm/process.go: procedure "+k+" not found")
		}
	}
	out.WriteString("end Drummer.Gen\n")
	return out.String(), unsup
}

// ---------------------------------------------------------------- field facts

func q(l []string) string {
	var p []string
	for _, s := range l {
		p = append(p, fmt.Sprintf("%q", s))
	}
	return "[" + strings.Join(p, ", ") + "]"
}

func genFields(repo string) (string, []string) {
	fset := token.NewFileSet()
	af, err := parser.ParseFile(fset, filepath.Join(repo, "db.go"), nil, 0)
	if err != nil {
		return "", []string{err.Error()}
	}
	var serialised, restored []string
	for _, d := range af.Decls {
		switch x := d.(type) {
		case *ast.GenDecl:
			for _, sp := range x.Specs {
				ts, ok := sp.(*ast.TypeSpec)
				if !ok || ts.Name.Name != "DB" {
					continue
				}
				for _, f := range ts.Type.(*ast.StructType).Fields.List {
					tag := ""
					if f.Tag != nil {
						tag = reflect.StructTag(strings.Trim(f.Tag.Value, "`")).Get("json")
					}
					for _, n := range f.Names {
						if tag != "-" && n.IsExported() {
							serialised = append(serialised, n.Name)
						}
					}
				}
			}
		case *ast.FuncDecl:
			if x.Name.Name != "RecoverFromSnapshot" || x.Recv == nil {
				continue
			}
			recv := x.Recv.List[0].Names[0].Name
			// only unconditional assignments at the top level of the function body count: a field restored under a
			// condition is not restored
			for _, st := range x.Body.List {
				as, ok := st.(*ast.AssignStmt)
				if !ok || as.Tok != token.ASSIGN || len(as.Lhs) != 1 {
					continue
				}
				l, ok1 := as.Lhs[0].(*ast.SelectorExpr)
				r, ok2 := as.Rhs[0].(*ast.SelectorExpr)
				if ok1 && ok2 {
					if li, ok := l.X.(*ast.Ident); ok && li.Name == recv && l.Sel.Name == r.Sel.Name {
						restored = append(restored, l.Sel.Name)
					}
				}
			}
		}
	}
	sort.Strings(serialised)
	sort.Strings(restored)
	var out strings.Builder
	out.WriteString("-- GENERATED by factgen (field facts); do not edit\nnamespace Drummer.Gen\n")
	fmt.Fprintf(&out, "def dbSerialised : List String := %s\ndef dbRestored : List String := %s\n", q(serialised), q(restored))
	// session conversions in nodehostapi.go: field-wise maps
	af2, err := parser.ParseFile(fset, filepath.Join(repo, "nodehostapi.go"), nil, 0)
	if err != nil {
		return "", []string{err.Error()}
	}
	for _, d := range af2.Decls {
		fd, ok := d.(*ast.FuncDecl)
		if !ok {
			continue
		}
		switch fd.Name.Name {
		case "ToNodeHostSession", "ToPBSession", "updatePBSession":
			pairs := []string{}
			ast.Inspect(fd.Body, func(n ast.Node) bool {
				switch x := n.(type) {
				case *ast.KeyValueExpr:
					if k, ok := x.Key.(*ast.Ident); ok {
						if v, ok := x.Value.(*ast.SelectorExpr); ok {
							pairs = append(pairs, k.Name+"<-"+v.Sel.Name)
						}
					}
				case *ast.AssignStmt:
					if len(x.Lhs) == 1 && x.Tok == token.ASSIGN {
						l, ok1 := x.Lhs[0].(*ast.SelectorExpr)
						r, ok2 := x.Rhs[0].(*ast.SelectorExpr)
						if ok1 && ok2 {
							pairs = append(pairs, l.Sel.Name+"<-"+r.Sel.Name)
						}
					}
				}
				return true
			})
			sort.Strings(pairs)
			fmt.Fprintf(&out, "def session_%s : List String := %s\n", fd.Name.Name, q(pairs))
		}
	}
	out.WriteString("end Drummer.Gen\n")
	return out.String(), nil
}

func writeIfChanged(path, content string) bool {
	old, err := os.ReadFile(path)
	if err == nil && string(old) == content {
		return false
	}
	if err := os.WriteFile(path, []byte(content), 0o644); err != nil {
		fmt.Fprintln(os.Stderr, err)
		os.Exit(2)
	}
	return true
}

func main() {
	repo := flag.String("repo", "/repo", "repository root")
	outDir := flag.String("out", "", "output directory (lean/DrummerVerif/Gen)")
	flag.Parse()
	if *outDir == "" {
		fmt.Fprintln(os.Stderr, "need -out")
		os.Exit(2)
	}
	os.MkdirAll(*outDir, 0o755)
	var all []string
	pred, u1 := genPred(*repo)
	all = append(all, u1...)
	order, u2 := genOrder(*repo)
	all = append(all, u2...)
	fields, u3 := genFields(*repo)
	all = append(all, u3...)
	for name, content := range map[string]string{"GenConst.lean": genConst(), "GenPred.lean": pred, "GenOrder.lean": order, "GenFields.lean": fields} {
		if writeIfChanged(filepath.Join(*outDir, name), content) {
			fmt.Println("factgen: rewrote", name)
		}
	}
	for _, u := range all {
		fmt.Println("UNSUPPORTED", u)
	}
	if len(all) > 0 {
		// the untranslatable predicates fall back to tie C; the generated file then
		// contains UNSUPPORTED and the bridge for that predicate no longer checks
		os.Exit(3)
	}
}
