// kvcodec: correspondence driver for M-CODEC (kv/kv.go). Encodes pairs and decodes
// byte strings with the real Colfer code, prints canonical digests for the diff
// against the Lean driver, and evaluates the Go-side oracle of C20 (round trip,
// declared length, no crash, tail reported).
package main

import (
	"encoding/hex"
	"flag"
	"fmt"
	"io"
	"strings"

	"github.com/lni/drummer/v3/kv"
	"verif/harness/internal/hx"
)

var run *hx.Run
var caseNo int

func viol(clause, sig, what string, op interface{}) {
	run.Violate(hx.Violation{Property: "C20", Clause: clause, Signature: sig, What: what, Seq: caseNo, Ops: op})
}

func digest(b []byte) string {
	sum, x := uint32(0), uint32(0)
	for i, c := range b {
		sum += uint32(c) * uint32(i%251+1)
		x = x*31 + uint32(c)
	}
	head := b
	if len(head) > 12 {
		head = head[:12]
	}
	tail := b
	if len(tail) > 12 {
		tail = tail[len(tail)-12:]
	}
	return fmt.Sprintf("%d:%s:%s:%d:%d", len(b), hex.EncodeToString(head), hex.EncodeToString(tail), sum, x)
}

func errStr(err error) string {
	switch e := err.(type) {
	case nil:
		return "nil"
	case kv.ColferMax:
		return "max"
	case kv.ColferError:
		return fmt.Sprintf("header@%d", int(e))
	case kv.ColferTail:
		return fmt.Sprintf("tail@%d", int(e))
	}
	if err == io.EOF {
		return "eof"
	}
	return "other"
}

func encode(k, v []byte) (res string) {
	defer func() {
		if r := recover(); r != nil {
			res = "PANIC"
			viol("marshal_len", "encode-crash", fmt.Sprintf("encoding a pair (key %d bytes, value %d bytes) crashed: %v", len(k), len(v), r),
				map[string]interface{}{"op": "enc", "klen": len(k), "vlen": len(v)})
		}
	}()
	o := &kv.KV{Key: string(k), Val: string(v)}
	l, lerr := o.MarshalLen()
	data, err := o.MarshalBinary()
	if err != nil {
		return fmt.Sprintf("len=%d/%s marshal=%s", l, errStr(lerr), errStr(err))
	}
	// round trip on the implementation itself (oracle of C20)
	var back kv.KV
	uerr := back.UnmarshalBinary(data)
	opd := map[string]interface{}{"op": "enc", "k": hex.EncodeToString(k[:min(len(k), 64)]), "klen": len(k), "v": hex.EncodeToString(v[:min(len(v), 64)]), "vlen": len(v)}
	if l != len(data) {
		viol("marshal_len", "declared-length", fmt.Sprintf("MarshalLen says %d, %d bytes produced", l, len(data)), opd)
	}
	if len(data) < kv.ColferSizeMax {
		var b2 kv.KV
		n, e2 := b2.Unmarshal(data)
		if uerr != nil || e2 != nil || back.Key != string(k) || back.Val != string(v) || n != len(data) {
			viol("roundtrip", "roundtrip", fmt.Sprintf("decode(encode(pair)) = err %v/%v, consumed %d of %d, equal=%v", uerr, e2, n, len(data), back.Key == string(k) && back.Val == string(v)), opd)
		}
		// the decoded pair is the caller's: it does not change when the input buffer is reused afterwards (a recycled read
		// buffer), and what MarshalTo writes does not depend on what the caller's buffer held before
		if len(data) <= 1<<16 {
			buf := append([]byte{}, data...)
			var b4 kv.KV
			if _, e4 := b4.Unmarshal(buf); e4 == nil {
				for i := range buf {
					buf[i] = 0xff
				}
				run.Count("c20:buffer_reuse_checked")
				if b4.Key != string(k) || b4.Val != string(v) {
					viol("roundtrip", "decoded-pair-aliases-input", "the pair decoded from a buffer changed when the buffer was overwritten afterwards: it shares memory with the input", opd)
				}
			}
			for _, fill := range []byte{0xff, 0x01, 0x7f} {
				dirty := make([]byte, l)
				for i := range dirty {
					dirty[i] = fill
				}
				n5 := o.MarshalTo(dirty)
				if n5 != len(data) || string(dirty[:min(n5, len(dirty))]) != string(data) {
					viol("marshal_len", "marshalto-depends-on-buffer", fmt.Sprintf("MarshalTo into a buffer filled with %#x wrote %d bytes that differ from MarshalBinary's %d bytes (the encoding depends on what the buffer held before)", fill, n5, len(data)), opd)
					break
				}
			}
		}
		// trailing bytes after a valid encoding are reported
		var b3 kv.KV
		if e3 := b3.UnmarshalBinary(append(append([]byte{}, data...), 0x00)); e3 != kv.ColferTail(len(data)) {
			viol("tail_reported", "tail", fmt.Sprintf("valid encoding + 1 byte: %v", e3), opd)
		}
		run.Count("c20:roundtrip_checked")
	}
	return fmt.Sprintf("len=%d/%s bytes=%s rt=%s/%v", l, errStr(lerr), digest(data), errStr(uerr), back.Key == string(k) && back.Val == string(v))
}

func decode(pk, pv, data []byte) (res string) {
	defer func() {
		if r := recover(); r != nil {
			res = "PANIC"
			viol("decode_total", "decode-crash", fmt.Sprintf("decoding crashed: %v", r), map[string]interface{}{"op": "dec", "data": hex.EncodeToString(data)})
		}
	}()
	o := &kv.KV{Key: string(pk), Val: string(pv)}
	n, err := o.Unmarshal(data)
	o2 := &kv.KV{Key: string(pk), Val: string(pv)}
	err2 := o2.UnmarshalBinary(data)
	return fmt.Sprintf("n=%d err=%s key=%s val=%s bin=%s key=%s val=%s", n, errStr(err), digest([]byte(o.Key)), digest([]byte(o.Val)), errStr(err2), digest([]byte(o2.Key)), digest([]byte(o2.Val)))
}

// safeMarshal: a crash of the encoder is reported by encode(); here it only ends the case
func safeMarshal(k, v []byte) (data []byte) {
	defer func() {
		if r := recover(); r != nil {
			data = nil
		}
	}()
	d, err := (&kv.KV{Key: string(k), Val: string(v)}).MarshalBinary()
	if err != nil {
		return nil
	}
	return d
}

func min(a, b int) int {
	if a < b {
		return a
	}
	return b
}

func main() {
	seed := flag.Int64("seed", hx.Seed(), "PRNG seed")
	n := flag.Int("n", 2000, "random pairs")
	depth := flag.Int("depth", 5, "exhaustive decode depth over the reduced alphabet")
	out := flag.String("out", "", "output directory")
	big := flag.Bool("big", false, "include value lengths around 2^21 in the length grid")
	boundary := flag.Bool("boundary", true, "probe the ColferSizeMax boundary on the real code")
	flag.Parse()
	if *out == "" {
		hx.Die("need -out")
	}
	run = hx.NewRun(*out)
	defer run.Close()
	r := hx.Rng(*seed, 0)
	emit := func(op string, res string) {
		run.Ops.WriteString(op + "\n")
		run.OutLine(res)
		caseNo++
		if caseNo%4001 == 1 {
			run.Sample(map[string]string{"op": op, "result": res})
		}
		run.Count("case:" + op[7:10])
		if strings.Contains(res, "err=nil") || strings.Contains(res, "rt=nil") {
			run.Count("c20:accepted")
		} else {
			run.Count("c20:rejected_or_error")
		}
	}
	lens := []int{0, 1, 2, 127, 128, 129, 255, 256, 16383, 16384, 16385, 16511, 16512, 70000}
	if *big {
		lens = append(lens, 2097151, 2097152, 2097153) // the four-byte varint boundary (slow on the model side)
	}
	rep := func(b byte, n int) []byte { return []byte(strings.Repeat(string([]byte{b}), n)) }
	// 1. boundary-length pairs
	for _, kn := range lens {
		for _, vn := range lens {
			kb, vb := byte(r.Intn(256)), byte(r.Intn(256))
			emit(fmt.Sprintf("{\"op\":\"encrep\",\"kb\":%d,\"kn\":%d,\"vb\":%d,\"vn\":%d}", kb, kn, vb, vn), encode(rep(kb, kn), rep(vb, vn)))
			run.Nontrivial(fmt.Sprintf("len%d/%d", kn, vn))
		}
	}
	// 2. exhaustive byte strings over a reduced alphabet, decoded into a non-empty prior object
	alpha := []byte{0, 1, 2, 0x7f, 0x80, 0xff}
	var rec func(cur []byte, d int)
	rec = func(cur []byte, d int) {
		emit(fmt.Sprintf("{\"op\":\"dec\",\"pk\":\"aa\",\"pv\":\"bb\",\"data\":\"%s\"}", hex.EncodeToString(cur)), decode([]byte{0xaa}, []byte{0xbb}, cur))
		if d == *depth {
			return
		}
		for _, a := range alpha {
			rec(append(append([]byte{}, cur...), a), d+1)
		}
	}
	rec(nil, 0)
	run.Extra["exhaustive_decode_depth"] = *depth
	// 2b. crafted length prefixes: header 0 / 1, a varint of 1..12 bytes (continuation bytes 80 / ff / random), a last
	// byte from a small set, optionally followed by payload bytes and the terminator - reaches lengths >= 2^63, shifts
	// >= 64 and the size limit, which no short exhaustive string can
	for _, hdr := range []byte{0, 1} {
		for n := 1; n <= 12; n++ {
			for _, cont := range []int{0x80, 0xff, -1} {
				for _, last := range []byte{0x00, 0x01, 0x02, 0x7f} {
					d := []byte{hdr}
					for i := 0; i < n-1; i++ {
						c := byte(cont)
						if cont < 0 {
							c = byte(0x80 | r.Intn(128))
						}
						d = append(d, c)
					}
					d = append(d, last)
					for _, tail := range [][]byte{nil, {0x7f}, {0x41, 0x7f}, {0x41, 0x42, 0x43, 0x7f}} {
						dd := append(append([]byte{}, d...), tail...)
						emit(fmt.Sprintf("{\"op\":\"dec\",\"pk\":\"6b\",\"pv\":\"76\",\"data\":\"%s\"}", hex.EncodeToString(dd)), decode([]byte("k"), []byte("v"), dd))
						run.Count("c20:crafted_varint")
					}
				}
			}
		}
	}
	// 3. random pairs and mutated encodings
	for i := 0; i < *n; i++ {
		k := make([]byte, r.Intn(40))
		v := make([]byte, r.Intn(300))
		r.Read(k)
		r.Read(v)
		if r.Intn(10) == 0 {
			k = nil
		}
		if r.Intn(10) == 0 {
			v = nil
		}
		emit(fmt.Sprintf("{\"op\":\"enc\",\"k\":\"%s\",\"v\":\"%s\"}", hex.EncodeToString(k), hex.EncodeToString(v)), encode(k, v))
		run.Nontrivial(fmt.Sprintf("r%d", i))
		data := safeMarshal(k, v)
		for m := 0; m < 3 && data != nil; m++ {
			d := append([]byte{}, data...)
			switch r.Intn(4) {
			case 0:
				d = d[:r.Intn(len(d)+1)]
			case 1:
				if len(d) > 0 {
					d[r.Intn(len(d))] ^= byte(1 << uint(r.Intn(8)))
				}
			case 2:
				extra := make([]byte, 1+r.Intn(4))
				r.Read(extra)
				d = append(d, extra...)
			case 3:
				if len(d) > 2 {
					p := r.Intn(len(d) - 1)
					d = append(append(append([]byte{}, d[:p]...), byte(0x80|r.Intn(128)), byte(0x80|r.Intn(128)), byte(r.Intn(256))), d[p:]...)
				}
			}
			pk, pv := []byte{}, []byte{}
			if r.Intn(2) == 0 {
				pk, pv = []byte("old-key"), []byte("old-val")
			}
			emit(fmt.Sprintf("{\"op\":\"dec\",\"pk\":\"%s\",\"pv\":\"%s\",\"data\":\"%s\"}", hex.EncodeToString(pk), hex.EncodeToString(pv), hex.EncodeToString(d)), decode(pk, pv, d))
		}
	}
	// 4. the size limit (F-C20): an encoding of exactly ColferSizeMax bytes, and one byte less
	if *boundary {
		for _, total := range []int{kv.ColferSizeMax - 1, kv.ColferSizeMax} {
			// 1 (header) + 4 (varint of a 3-byte-varint length... computed below) ; search the value length that gives `total`
			for vl := total - 16; vl <= total; vl++ {
				o := &kv.KV{Key: "k", Val: strings.Repeat("x", vl)}
				l, err := o.MarshalLen()
				if err != nil || l != total {
					continue
				}
				data := safeMarshal([]byte(o.Key), []byte(o.Val))
				err = nil
				if data == nil {
					break
				}
				var back kv.KV
				uerr := back.UnmarshalBinary(data)
				run.Count("c20:size_limit_probe")
				if err == nil && (uerr != nil || back.Val != o.Val) {
					sig := "roundtrip-near-limit"
					if total == kv.ColferSizeMax {
						sig = "encoding-of-exactly-ColferSizeMax-not-decodable"
					}
					viol("roundtrip", sig, fmt.Sprintf("a pair whose encoding has %d bytes (limit %d) is produced by MarshalBinary but UnmarshalBinary answers %v", total, kv.ColferSizeMax, uerr),
						map[string]interface{}{"op": "enc", "k": "6b", "vlen": vl, "vbyte": "78"})
				}
				break
			}
		}
		// 5. over the limit: each field within the limit, the pair's encoding not. Whatever the encoder hands out decodes to
		// the same pair (so it has to refuse these), with the default limit and with a lowered one (ColferSizeMax is a variable
		// the application may set)
		M := kv.ColferSizeMax
		check := func(kl, vl int) {
			o := &kv.KV{Key: strings.Repeat("k", kl), Val: strings.Repeat("x", vl)}
			l, lerr := o.MarshalLen()
			data := safeMarshal([]byte(o.Key), []byte(o.Val))
			run.Count("c20:limit_grid_pair")
			if data == nil {
				run.Count("c20:limit_grid_refused")
				return
			}
			opd := map[string]interface{}{"op": "enc", "klen": kl, "vlen": vl, "limit": kv.ColferSizeMax}
			if lerr != nil || l != len(data) {
				viol("declared_length", "declared-length-near-limit", fmt.Sprintf("a pair of %d + %d bytes (limit %d) is encoded into %d bytes, MarshalLen answers %d, %v", kl, vl, kv.ColferSizeMax, len(data), l, lerr), opd)
			}
			var back kv.KV
			uerr := back.UnmarshalBinary(data)
			if uerr != nil || back.Key != o.Key || back.Val != o.Val {
				sig := "pair-over-limit-encoded-not-decodable"
				if len(data) == kv.ColferSizeMax {
					sig = "encoding-of-exactly-ColferSizeMax-not-decodable"
				}
				viol("roundtrip", sig, fmt.Sprintf("a pair of %d + %d bytes is encoded into %d bytes (limit %d) by MarshalBinary but UnmarshalBinary answers %v", kl, vl, len(data), kv.ColferSizeMax, uerr), opd)
			}
		}
		for _, c := range [][2]int{{1, M - 3}, {1, M}, {M/2 + 8, M/2 + 8}, {M - 3, 1}, {M, M}} {
			check(c[0], c[1])
		}
		for _, lim := range []int{24, 200} {
			kv.ColferSizeMax = lim
			for kl := 0; kl <= lim+6; kl += 1 + kl/40 {
				for vl := 0; vl <= lim+6; vl += 1 + vl/40 {
					check(kl, vl)
				}
			}
		}
		kv.ColferSizeMax = M
	}
}
