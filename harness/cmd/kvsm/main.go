// kvsm: correspondence driver for M-KVSM (tests/kvtest.go, tests/concurrentkv.go,
// tests/diskkv.go). Drives replicas of the three real test state machines with
// update batches interleaved with lookups, Sync, PrepareSnapshot / SaveSnapshot,
// GetHash, Close+Open and snapshot hand-over between replicas; prints every
// answer for the diff against the Lean driver (hashes as equality classes) and
// evaluates the Go-side oracle of C15 (every lookup returns the last value
// written; replicas that applied the same updates have the same hash).
package main

import (
	"bytes"
	"encoding/hex"
	"encoding/json"
	"flag"
	"fmt"
	"math/rand"
	"os"

	"github.com/lni/dragonboat/v4/logger"
	sm "github.com/lni/dragonboat/v4/statemachine"
	"github.com/lni/drummer/v3/kv"
	"github.com/lni/drummer/v3/tests"
	"github.com/lni/vfs"
	"verif/harness/internal/hx"
)

// preparer: machines whose snapshot is taken in two steps (PrepareSnapshot fixes the point in time, SaveSnapshot
// writes it later, possibly after further updates)
type preparer interface {
	prepare() interface{}
	saveCtx(ctx interface{}) ([]byte, error)
}

func (m *concM) prepare() interface{} { c, _ := m.s.PrepareSnapshot(); return c }
func (m *concM) saveCtx(ctx interface{}) ([]byte, error) {
	var b bytes.Buffer
	err := m.s.SaveSnapshot(ctx, &b, nil, nil)
	return b.Bytes(), err
}
func (m *diskM) prepare() interface{} { c, _ := m.s.PrepareSnapshot(); return c }
func (m *diskM) saveCtx(ctx interface{}) ([]byte, error) {
	var b bytes.Buffer
	err := m.s.SaveSnapshot(ctx, &b, nil)
	return b.Bytes(), err
}

type machine interface {
	update(idx uint64, cmds [][]byte)
	lookup(key []byte) []byte
	hash() uint64
	snapshot() []byte
	recover(b []byte)
	extra(what string)
	name() string
}

type memM struct{ s *tests.KVTest }

func (m *memM) name() string { return "mem" }
func (m *memM) update(idx uint64, cmds [][]byte) {
	for i, c := range cmds {
		m.s.Update(sm.Entry{Index: idx + uint64(i), Cmd: c})
	}
}
func (m *memM) lookup(k []byte) []byte { v, _ := m.s.Lookup(k); return v.([]byte) }
func (m *memM) hash() uint64           { h, _ := m.s.GetHash(); return h }
func (m *memM) snapshot() []byte {
	var b bytes.Buffer
	if err := m.s.SaveSnapshot(&b, nil, nil); err != nil {
		panic(err)
	}
	return b.Bytes()
}
func (m *memM) recover(b []byte) {
	if err := m.s.RecoverFromSnapshot(hx.NewShortReader(b), nil, nil); err != nil {
		panic(err)
	}
}
func (m *memM) extra(what string) {
	switch what {
	case "save", "prepare":
		m.snapshot()
	default:
		m.lookup([]byte("k1"))
	}
}

type concM struct{ s *tests.ConcurrentKVTest }

func (m *concM) name() string { return "conc" }
func (m *concM) update(idx uint64, cmds [][]byte) {
	ents := []sm.Entry{}
	for i, c := range cmds {
		ents = append(ents, sm.Entry{Index: idx + uint64(i), Cmd: c})
	}
	m.s.Update(ents)
}
func (m *concM) lookup(k []byte) []byte { v, _ := m.s.Lookup(k); return v.([]byte) }
func (m *concM) hash() uint64           { h, _ := m.s.GetHash(); return h }
func (m *concM) snapshot() []byte {
	ctx, _ := m.s.PrepareSnapshot()
	var b bytes.Buffer
	if err := m.s.SaveSnapshot(ctx, &b, nil, nil); err != nil {
		panic(err)
	}
	return b.Bytes()
}
func (m *concM) recover(b []byte) {
	if err := m.s.RecoverFromSnapshot(hx.NewShortReader(b), nil, nil); err != nil {
		panic(err)
	}
}
func (m *concM) extra(what string) {
	switch what {
	case "prepare":
		m.s.PrepareSnapshot()
	case "save":
		m.snapshot()
	default:
		m.lookup([]byte("k1"))
	}
}

type diskM struct {
	s    *tests.DiskKVTest
	fs   vfs.FS
	c, n uint64
}

func (m *diskM) name() string { return "disk" }
func (m *diskM) update(idx uint64, cmds [][]byte) {
	ents := []sm.Entry{}
	for i, c := range cmds {
		ents = append(ents, sm.Entry{Index: idx + uint64(i), Cmd: c})
	}
	if _, err := m.s.Update(ents); err != nil {
		panic(err)
	}
}
func (m *diskM) lookup(k []byte) []byte {
	v, err := m.s.Lookup(k)
	if err != nil {
		panic(err)
	}
	if v == nil {
		return nil
	}
	return v.([]byte)
}
func (m *diskM) hash() uint64 { h, _ := m.s.GetHash(); return h }
func (m *diskM) snapshot() []byte {
	for {
		ctx, _ := m.s.PrepareSnapshot()
		var b bytes.Buffer
		if err := m.s.SaveSnapshot(ctx, &b, nil); err == nil {
			return b.Bytes()
		}
	}
}
func (m *diskM) recover(b []byte) {
	if err := m.s.RecoverFromSnapshot(hx.NewShortReader(b), nil); err != nil {
		panic(err)
	}
}
func (m *diskM) extra(what string) {
	switch what {
	case "sync":
		if err := m.s.Sync(); err != nil {
			panic(err)
		}
	case "prepare", "save":
		m.snapshot()
	case "reopen":
		m.s.Close()
		m.s = tests.NewDiskKVTest(m.c, m.n).(*tests.DiskKVTest)
		m.s.SetTestFS(m.fs)
		if _, err := m.s.Open(nil); err != nil {
			panic(err)
		}
	default:
		m.lookup([]byte("k1"))
	}
}

var nextNode uint64

func newMachine(kind string) machine {
	nextNode++
	switch kind {
	case "mem":
		s := tests.NewKVTest(1, nextNode).(*tests.KVTest)
		s.DisableLargeDelay()
		return &memM{s}
	case "conc":
		return &concM{tests.NewConcurrentKVTest(1, nextNode).(*tests.ConcurrentKVTest)}
	default:
		fs := vfs.NewStrictMem()
		s := tests.NewDiskKVTest(1, nextNode).(*tests.DiskKVTest)
		s.SetTestFS(fs)
		if _, err := s.Open(nil); err != nil {
			panic(err)
		}
		return &diskM{s: s, fs: fs, c: 1, n: nextNode}
	}
}

func enc(k, v []byte) []byte {
	d, err := (&kv.KV{Key: string(k), Val: string(v)}).MarshalBinary()
	if err != nil {
		panic(err)
	}
	return d
}

type J = map[string]interface{}

var run *hx.Run
var classes = map[string]int{}

func class(kind string, h uint64) int {
	k := fmt.Sprintf("%s/%d", kind, h)
	if c, ok := classes[k]; ok {
		return c
	}
	classes[k] = len(classes)
	return classes[k]
}

func guard(f func()) (panicked bool) {
	defer func() {
		if r := recover(); r != nil {
			panicked = true
		}
	}()
	f()
	return false
}

func main() {
	for _, n := range []string{"tests", "pebble", "dragonboat"} {
		logger.GetLogger(n).SetLevel(logger.CRITICAL)
	}
	os.Setenv("IOEI", "1") // no injected delays
	seed := flag.Int64("seed", hx.Seed(), "PRNG seed")
	n := flag.Int("n", 40, "sequences per machine kind")
	out := flag.String("out", "", "output directory")
	flag.Parse()
	if *out == "" {
		hx.Die("need -out")
	}
	// the real machines print to stdout
	devnull, _ := os.OpenFile(os.DevNull, os.O_WRONLY, 0)
	os.Stdout = devnull
	run = hx.NewRun(*out)
	defer run.Close()
	utf := [][]byte{[]byte("k1"), []byte("k2"), []byte(""), []byte("ключ"), []byte("<&>"), []byte("k ")}
	bin := [][]byte{{0xff, 0x00}, {0x80}, {0x00}, {0xc3, 0x28}}
	uvals := [][]byte{[]byte("v1"), []byte(""), []byte("значение"), []byte("v2"), []byte("\"q\"\\")}
	bvals := [][]byte{{0x80, 0x81}, {0x00, 0xff}}
	emit := func(op J, res string) {
		run.OpLine(op)
		run.OutLine(res)
		run.Count("case:" + op["op"].(string))
	}
	for seqNo := 0; seqNo < *n; seqNo++ {
		for _, kind := range []string{"mem", "conc", "disk"} {
			r := hx.Rng(*seed, seqNo*3+len(kind))
			keys, vals := utf, uvals
			if kind == "disk" {
				keys = append(append([][]byte{}, utf...), bin...)
				vals = append(append([][]byte{}, uvals...), bvals...)
			}
			if seqNo%3 == 0 {
				// values at the length-prefix boundary of the codec (the on-disk machine re-encodes every pair in its snapshot)
				vals = append(append([][]byte{}, vals...), bytes.Repeat([]byte("x"), 127), bytes.Repeat([]byte("y"), 128), bytes.Repeat([]byte("z"), 129))
			}
			emit(J{"op": "reset"}, "reset")
			classes = map[string]int{}
			ms := map[int]machine{0: newMachine(kind), 1: newMachine(kind)}
			// a third replica gets the same entries one per Update call: how Raft groups entries into batches differs from
			// replica to replica, the state hash must not (Go-side oracle only, nothing emitted for it)
			single := newMachine(kind)
			singleDead := false
			emit(J{"op": "new", "id": 0, "kind": kind}, "ok")
			emit(J{"op": "new", "id": 1, "kind": kind}, "ok")
			ref := map[string][]byte{}
			idx := uint64(1)
			steps := 5 + r.Intn(25)
			ops := []J{}
			fail := func(clause, sig, what string) {
				run.Violate(hx.Violation{Property: "C15", Clause: clause, Signature: kind + ":" + sig, What: what, Seq: seqNo, Ops: append([]J{}, ops...)})
			}
			dead := false
			if seqNo%4 == 1 {
				// a snapshot of the still empty machine handed over before anything was applied
				snap0 := ms[0].snapshot()
				c := newMachine(kind)
				emit(J{"op": "new", "id": 1, "kind": kind}, "ok")
				op := J{"op": "snap", "id": 0, "to": 1}
				ops = append(ops, op)
				if guard(func() { c.recover(snap0) }) {
					emit(op, "panic")
					fail("snapshot_restores_exactly", "recover-crash", kind+": installing the snapshot of an empty machine crashed the replica")
					dead = true
				} else {
					ms[1] = c
					emit(op, "ok")
					run.Count("c15:empty_snapshot_handover")
				}
			}
			// a snapshot prepared on replica 0 at some point and saved later
			var prepCtx interface{}
			type batch struct {
				idx   uint64
				cmds  [][]byte
				hexes []string
			}
			var since []batch
			refAtPrep := map[string][]byte{}
			for s := 0; s < steps && !dead; s++ {
				nb := 1 + r.Intn(8)
				cmds := [][]byte{}
				hexes := []string{}
				for i := 0; i < nb; i++ {
					k, v := keys[r.Intn(len(keys))], vals[r.Intn(len(vals))]
					c := enc(k, v)
					cmds = append(cmds, c)
					hexes = append(hexes, hex.EncodeToString(c))
					ref[string(k)] = v
				}
				for id := 0; id < 2; id++ {
					op := J{"op": "update", "id": id, "idx": idx, "cmds": hexes, "pooled": true}
					ops = append(ops, op)
					if guard(func() { ms[id].update(idx, cmds) }) {
						emit(op, "panic")
						fail("update_total", "update-crash", kind+": a well-formed update batch crashed the machine")
						dead = true
						break
					}
					emit(op, "ok")
				}
				if dead {
					break
				}
				if !singleDead {
					for j, c := range cmds {
						c := c
						if guard(func() { single.update(idx+uint64(j), [][]byte{c}) }) {
							singleDead = true
							break
						}
					}
					if !singleDead {
						run.Count("c15:hash_compared_across_batchings")
						if h0, h1 := ms[0].hash(), single.hash(); h0 != h1 {
							fail("hash_function_of_updates", "hash-depends-on-batching", fmt.Sprintf("%s: two replicas applied the same %d entries, one in batches as delivered, one entry per Update call: their state hashes differ", kind, idx+uint64(nb)))
							singleDead = true
						}
					}
				}
				if prepCtx != nil {
					since = append(since, batch{idx, cmds, hexes})
				}
				idx += uint64(nb)
				pm, isPrep := ms[0].(preparer)
				{
					if prepCtx == nil && r.Intn(5) == 0 {
						if isPrep {
							prepCtx = pm.prepare()
						} else {
							// a machine without PrepareSnapshot: the snapshot is taken now and kept for later
							prepCtx = ms[0].snapshot()
						}
						since = nil
						refAtPrep = map[string][]byte{}
						for k, v := range ref {
							refAtPrep[k] = v
						}
						op := J{"op": "prep", "id": 0}
						ops = append(ops, op)
						emit(op, "ok")
						run.Count("c15:snapshot_prepared")
					} else if prepCtx != nil && len(since) > 0 && r.Intn(3) == 0 {
						// the prepared snapshot is saved only now, after further updates, and handed to a fresh replica, which
						// then applies the updates it missed
						var data []byte
						var err error
						if isPrep {
							data, err = pm.saveCtx(prepCtx)
						} else {
							data = prepCtx.([]byte)
						}
						prepCtx = nil
						if err != nil {
							run.Count("c15:inconclusive_snapshot_aborted")
							emit(J{"op": "unprep", "id": 0}, "ok")
						} else {
							// ... handed to a fresh replica, or installed into the used replica 1, which has applied everything since
							// and has to go back to exactly the snapshot's state
							// (the on-disk machine refuses by contract - "last applied not moving forward" - a snapshot older than
							// what it has applied, so it always gets the fresh replica)
							c := ms[1]
							if kind == "disk" || r.Intn(2) == 0 {
								c = newMachine(kind)
								emit(J{"op": "new", "id": 1, "kind": kind}, "ok")
							} else {
								run.Count("c15:snapshot_installed_into_used_replica")
							}
							op := J{"op": "snapprep", "id": 0, "to": 1}
							ops = append(ops, op)
							if guard(func() { c.recover(data) }) {
								emit(op, "panic")
								fail("snapshot_restores_exactly", "recover-crash", kind+": installing a snapshot crashed the replica")
								dead = true
								break
							}
							ms[1] = c
							emit(op, "ok")
							for _, k := range keys {
								got := ms[1].lookup(k)
								emit(J{"op": "lookup", "id": 1, "key": hex.EncodeToString(k)}, hex.EncodeToString(got))
								if want := refAtPrep[string(k)]; !bytes.Equal(got, want) {
									fail("snapshot_restores_exactly", "state-after-recover-not-the-snapshot", fmt.Sprintf("%s: right after installing a snapshot, lookup of %q returns %q, the snapshot's state has %q", kind, k, got, want))
								}
							}
							for _, b := range since {
								uop := J{"op": "update", "id": 1, "idx": b.idx, "cmds": b.hexes, "pooled": true}
								ops = append(ops, uop)
								if guard(func() { ms[1].update(b.idx, b.cmds) }) {
									emit(uop, "panic")
									fail("snapshot_restores_exactly", "replay-after-prepared-snapshot-crash", kind+": a replica restored from a snapshot prepared earlier crashed on the updates made since")
									dead = true
									break
								}
								emit(uop, "ok")
							}
							run.Count("c15:prepared_snapshot_handover")
						}
					}
				}
				if dead {
					break
				}
				if r.Intn(2) == 0 {
					what := []string{"lookup", "sync", "prepare", "save", "reopen"}[r.Intn(5)]
					if kind != "disk" && (what == "sync" || what == "reopen") {
						what = "save"
					}
					op := J{"op": "extra", "id": 1, "what": what}
					ops = append(ops, op)
					if guard(func() { ms[1].extra(what) }) {
						emit(op, "panic")
						fail("restart_transparent", "crash-on-"+what, kind+": "+what+" crashed the replica")
						dead = true
						break
					}
					emit(op, "ok")
					run.Count("c15:extra_" + what)
				}
				if kind == "disk" && r.Intn(6) == 0 {
					// a snapshot installation that fails half way (the stream ends early), then a restart: the replica is what
					// it was before, in this life and in the next
					snap := ms[0].snapshot()
					cut := 1 + r.Intn(12)
					if cut < len(snap) {
						failed := guard(func() { ms[1].recover(snap[:len(snap)-cut]) })
						run.Count("c15:failed_snapshot_installation")
						if !failed {
							run.Count("c15:truncated_snapshot_accepted")
						} else {
							op := J{"op": "extra", "id": 1, "what": "reopen"}
							ops = append(ops, J{"op": "failed-install", "id": 1, "cut": cut}, op)
							if guard(func() { ms[1].extra("reopen") }) {
								emit(op, "panic")
								fail("restart_transparent", "crash-on-reopen-after-failed-install", kind+": restarting after a failed snapshot installation crashed the replica")
								dead = true
								break
							}
							emit(op, "ok")
						}
					}
				}
				if r.Intn(6) == 0 {
					// hand replica 0's snapshot over to a fresh replica that replaces replica 1
					snap := ms[0].snapshot()
					c := newMachine(kind)
					emit(J{"op": "new", "id": 1, "kind": kind}, "ok")
					op := J{"op": "snap", "id": 0, "to": 1}
					ops = append(ops, op)
					c.recover(snap)
					ms[1] = c
					emit(op, "ok")
					run.Count("c15:snapshot_handover")
				}
				for id := 0; id < 2; id++ {
					for _, k := range keys {
						got := ms[id].lookup(k)
						emit(J{"op": "lookup", "id": id, "key": hex.EncodeToString(k)}, hex.EncodeToString(got))
						if want := ref[string(k)]; !bytes.Equal(got, want) {
							sig := "lookup-not-last-write"
							fail("lookup_is_last_write", sig, fmt.Sprintf("%s replica %d: lookup of %q returns %q, last value written is %q", kind, id, k, got, want))
						}
					}
				}
				if r.Intn(2) == 0 {
					// only replica 1 is asked for keys nobody ever wrote: reading is not writing, the hashes below still agree
					for i := 0; i < 1+r.Intn(3); i++ {
						k := []byte(fmt.Sprintf("never-written-%d", r.Intn(5)))
						got := ms[1].lookup(k)
						op := J{"op": "lookup", "id": 1, "key": hex.EncodeToString(k)}
						ops = append(ops, op)
						emit(op, hex.EncodeToString(got))
						if len(got) != 0 {
							fail("lookup_is_last_write", "lookup-not-last-write", fmt.Sprintf("%s replica 1: lookup of the never written %q returns %q", kind, k, got))
						}
					}
					run.Count("c15:absent_key_lookups_on_one_replica")
				}
				if prepCtx == nil && r.Intn(4) == 0 {
					// replica 1 falls behind: replica 0 alone applies some batches while replica 1 keeps answering hash
					// requests, then replica 1 (used, not fresh) installs replica 0's snapshot, which is ahead of it, and is
					// asked for its hash and contents before anything else is applied
					for b := 0; b < 1+r.Intn(3) && !dead; b++ {
						nb := 1 + r.Intn(4)
						cmds := [][]byte{}
						hexes := []string{}
						for i := 0; i < nb; i++ {
							k, v := keys[r.Intn(len(keys))], vals[r.Intn(len(vals))]
							c := enc(k, v)
							cmds = append(cmds, c)
							hexes = append(hexes, hex.EncodeToString(c))
							ref[string(k)] = v
						}
						op := J{"op": "update", "id": 0, "idx": idx, "cmds": hexes, "pooled": true}
						ops = append(ops, op)
						if guard(func() { ms[0].update(idx, cmds) }) {
							emit(op, "panic")
							fail("update_total", "update-crash", kind+": a well-formed update batch crashed the machine")
							dead = true
							break
						}
						emit(op, "ok")
						if !singleDead {
							for j, c := range cmds {
								c := c
								if guard(func() { single.update(idx+uint64(j), [][]byte{c}) }) {
									singleDead = true
									break
								}
							}
						}
						idx += uint64(nb)
						hop := J{"op": "hash", "id": 1}
						ops = append(ops, hop)
						emit(hop, fmt.Sprintf("class %d", class(kind, ms[1].hash())))
					}
					if dead {
						break
					}
					snap := ms[0].snapshot()
					op := J{"op": "snap", "id": 0, "to": 1}
					ops = append(ops, op)
					if guard(func() { ms[1].recover(snap) }) {
						emit(op, "panic")
						fail("snapshot_restores_exactly", "recover-crash", kind+": installing a newer snapshot crashed the replica that had fallen behind")
						dead = true
						break
					}
					emit(op, "ok")
					run.Count("c15:lagging_replica_caught_up_by_snapshot")
				}
				h0, h1 := ms[0].hash(), ms[1].hash()
				emit(J{"op": "hash", "id": 0}, fmt.Sprintf("class %d", class(kind, h0)))
				emit(J{"op": "hash", "id": 1}, fmt.Sprintf("class %d", class(kind, h1)))
				if h0 != h1 {
					fail("hash_function_of_updates", "hash-differs", kind+": two replicas that applied the same updates (one of them with lookups / sync / snapshot activity / restart / restored from the other's snapshot) have different hashes")
				}
				for _, k := range keys {
					got := ms[1].lookup(k)
					emit(J{"op": "lookup", "id": 1, "key": hex.EncodeToString(k)}, hex.EncodeToString(got))
					if want := ref[string(k)]; !bytes.Equal(got, want) {
						fail("lookup_is_last_write", "lookup-not-last-write", fmt.Sprintf("%s replica 1: lookup of %q returns %q, last value written is %q", kind, k, got, want))
					}
				}
			}
			run.Nontrivial(fmt.Sprintf("%s/%d", kind, seqNo))
			if seqNo == 0 {
				b, _ := json.Marshal(ops[:min(len(ops), 4)])
				run.Sample(json.RawMessage(b))
			}
		}
	}
	// directed, the on-disk machine: (1) raft indexes are not always consecutive inside one Update batch (config changes and
	// leader no-ops take indexes the machine never sees): the state, the hash and the applied index reported after a restart
	// depend on the entries, not on how they were batched; (2) a snapshot install that fails half way (the stream breaks
	// off) leaves the replica answering from the state it had
	for round := 0; round < 6; round++ {
		r := hx.Rng(*seed, 7000+round)
		a, b := newMachine("disk").(*diskM), newMachine("disk").(*diskM)
		idxs := []uint64{}
		cmds := [][]byte{}
		at := uint64(1)
		n := 2 + r.Intn(5)
		for i := 0; i < n; i++ {
			idxs = append(idxs, at)
			cmds = append(cmds, enc([]byte(fmt.Sprintf("k%d", r.Intn(4))), []byte(fmt.Sprintf("v%d", i))))
			at += 1 + uint64(r.Intn(3)) // holes of 0..2 indexes
		}
		ops := []J{{"op": "update-at", "machine": "disk", "indexes": idxs}}
		apply := func(m *diskM, from, to int) bool {
			ents := []sm.Entry{}
			for i := from; i < to; i++ {
				ents = append(ents, sm.Entry{Index: idxs[i], Cmd: cmds[i]})
			}
			return guard(func() {
				if _, err := m.s.Update(ents); err != nil {
					panic(err)
				}
			})
		}
		cut := 1 + r.Intn(n-1)
		if apply(a, 0, n) || apply(b, 0, cut) || apply(b, cut, n) {
			run.Violate(hx.Violation{Property: "C15", Clause: "update_total", Signature: "update-crash-on-index-hole", Seq: -1, Ops: ops,
				What: "disk: an Update batch whose entries do not have consecutive indexes crashed the machine"})
			continue
		}
		run.Count("c15:index_holes_checked")
		if a.hash() != b.hash() {
			run.Violate(hx.Violation{Property: "C15", Clause: "hash_function_of_updates", Signature: "hash-depends-on-batching", Seq: -1, Ops: ops,
				What: fmt.Sprintf("disk: the same %d entries (indexes %v) applied as one batch and as two batches cut at %d give different state hashes", n, idxs, cut)})
		}
		reopen := func(m *diskM) (uint64, bool) {
			var ai uint64
			p := guard(func() {
				m.s.Close()
				m.s = tests.NewDiskKVTest(m.c, m.n).(*tests.DiskKVTest)
				m.s.SetTestFS(m.fs)
				v, err := m.s.Open(nil)
				if err != nil {
					panic(err)
				}
				ai = v
			})
			return ai, p
		}
		ia, pa := reopen(a)
		ib, pb := reopen(b)
		if !pa && !pb && (ia != idxs[n-1] || ib != idxs[n-1]) {
			run.Violate(hx.Violation{Property: "C15", Clause: "applied_index", Signature: "applied-index-after-restart", Seq: -1, Ops: ops,
				What: fmt.Sprintf("disk: after applying entries up to index %d and a restart the machine reports applied index %d (one batch) / %d (two batches)", idxs[n-1], ia, ib)})
		}
		// (2) on machine a, which holds data now
		want := map[string][]byte{}
		for i := range cmds {
			want[fmt.Sprintf("k%d", i%4)] = nil
		}
		keys := []string{"k0", "k1", "k2", "k3"}
		before := map[string][]byte{}
		for _, k := range keys {
			before[k] = a.lookup([]byte(k))
		}
		h0 := a.hash()
		snap := b.snapshot()
		short := snap[:len(snap)-1-r.Intn(min(len(snap)-1, 40))]
		var ierr error
		crashed := guard(func() { ierr = a.s.RecoverFromSnapshot(bytes.NewReader(short), nil) })
		if crashed || ierr == nil {
			run.Count("c15:inconclusive_failed_install")
			continue
		}
		run.Count("c15:failed_install_checked")
		same := a.hash() == h0
		for _, k := range keys {
			var got []byte
			if guard(func() { got = a.lookup([]byte(k)) }) || !bytes.Equal(got, before[k]) {
				same = false
			}
		}
		if !same {
			run.Violate(hx.Violation{Property: "C15", Clause: "snapshot_install_atomic", Signature: "failed-install-changes-state", Seq: -1,
				Ops:  append(ops, J{"op": "recover-from-truncated-snapshot", "bytes": len(short), "of": len(snap)}),
				What: fmt.Sprintf("disk: installing a snapshot whose stream breaks off (%d of %d bytes) fails with %v, and the replica no longer answers from the state it had (lookups or hash changed)", len(short), len(snap), ierr)})
		}
		_ = want
	}
	// F-C15c: the JSON snapshot of the in-memory machines does not preserve strings that are not valid UTF-8
	for _, kind := range []string{"mem", "conc"} {
		a := newMachine(kind)
		k, v := []byte{0xff, 0x00}, []byte{0x80, 0x81}
		a.update(1, [][]byte{enc(k, v)})
		b := newMachine(kind)
		b.recover(a.snapshot())
		run.Count("c15:non_utf8_probe")
		if !bytes.Equal(b.lookup(k), v) {
			run.Violate(hx.Violation{Property: "C15", Clause: "snapshot_restores_exactly", Signature: kind + ":json-snapshot-coerces-invalid-utf8",
				What: kind + ": a key/value that is not valid UTF-8 is not restored from the machine's JSON snapshot", Seq: -1,
				Ops: []J{{"op": "update", "key": hex.EncodeToString(k), "val": hex.EncodeToString(v)}, {"op": "snap"}}})
		}
	}
	_ = rand.Int
}

func min(a, b int) int {
	if a < b {
		return a
	}
	return b
}
