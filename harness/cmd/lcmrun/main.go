// lcmrun: harness of C07. (A) the real lcm Coordinator (scheduleProcesses through
// the verif hook) against fake Drummer + NodehostAPI gRPC services on loopback
// that behave as a linearizable register with injected latencies and failures:
// the recorded history must be well formed, survive the Jepsen log round trip
// and be accepted by the bundled checker. (B) recorded and synthetic event lists
// (process ids up to 2000+, boundary values) are written with the real
// SaveAsJepsenLog and parsed with the real ParseJepsenLog; lines and parsed
// history are printed for the diff against the Lean model (M-JEPSEN).
package main

import (
	"bufio"
	"context"
	"errors"
	"flag"
	"fmt"
	"math"
	"math/rand"
	"net"
	"os"
	"path/filepath"
	"sort"
	"os/exec"
	"strings"
	"sync"
	"time"

	"google.golang.org/grpc"

	"github.com/lni/dragonboat/v4/logger"
	pb "github.com/lni/drummer/v3/drummerpb"
	"github.com/lni/drummer/v3/kv"
	"github.com/lni/drummer/v3/lcm"
	"github.com/lni/drummer/v3/lcm/porcupine"
	mr "github.com/lni/drummer/v3/multiraftpb"
	"verif/harness/internal/hx"
)

type fakeDrummer struct {
	pb.UnimplementedDrummerServer
	apiAddr string
}

func (f *fakeDrummer) GetShardStates(ctx context.Context, req *pb.ShardStateRequest) (*pb.ShardStates, error) {
	return &pb.ShardStates{Collection: []*pb.ShardState{{ShardId: req.ShardIdList[0], State: pb.ShardState_OK,
		Replicas: map[uint64]string{1: "x"}, RPCAddresses: map[uint64]string{1: f.apiAddr}}}}, nil
}

// a linearizable register with injected latency and failures
type fakeAPI struct {
	mr.UnimplementedNodehostAPIServer
	mu      sync.Mutex
	val     string
	r       *rand.Rand
	fail    int      // one in `fail` operations fails (0 = never)
	arrived []string // values of the writes that have reached the service
	refused map[string]bool // values of the writes the service answered with an error
}

func (f *fakeAPI) jitter() (time.Duration, time.Duration, bool) {
	f.mu.Lock()
	defer f.mu.Unlock()
	failed := f.fail > 0 && f.r.Intn(f.fail) == 0
	return time.Duration(f.r.Intn(8)) * time.Millisecond, time.Duration(f.r.Intn(8)) * time.Millisecond, failed
}

func (f *fakeAPI) GetSession(ctx context.Context, req *mr.SessionRequest) (*mr.Session, error) {
	return &mr.Session{ShardID: req.ShardId, ClientID: 1}, nil
}
func (f *fakeAPI) CloseSession(ctx context.Context, s *mr.Session) (*mr.SessionResponse, error) {
	return &mr.SessionResponse{Completed: true}, nil
}
func (f *fakeAPI) Propose(ctx context.Context, p *mr.RaftProposal) (*mr.RaftResponse, error) {
	var k kv.KV
	if err := k.UnmarshalBinary(p.Data); err != nil {
		return nil, err
	}
	f.mu.Lock()
	f.arrived = append(f.arrived, k.Val) // the write has reached the service
	f.mu.Unlock()
	before, after, failed := f.jitter()
	time.Sleep(before)
	applied := true
	if failed {
		// a failed write may have taken effect, may never take effect, or may take effect later (after its caller has been
		// told that it failed: the proposal was still in flight)
		f.mu.Lock()
		how := f.r.Intn(3)
		late := time.Duration(5+f.r.Intn(25)) * time.Millisecond
		f.mu.Unlock()
		applied = how == 0
		if how == 2 {
			go func(v string) {
				time.Sleep(late)
				f.mu.Lock()
				f.val = v
				f.mu.Unlock()
			}(k.Val)
		}
	}
	if applied {
		f.mu.Lock()
		f.val = k.Val
		f.mu.Unlock()
	}
	time.Sleep(after)
	if failed {
		f.mu.Lock()
		if f.refused == nil {
			f.refused = map[string]bool{}
		}
		f.refused[k.Val] = true
		f.mu.Unlock()
		return nil, errors.New("injected failure")
	}
	return &mr.RaftResponse{Result: uint64(len(p.Data))}, nil
}
func (f *fakeAPI) Read(ctx context.Context, ri *mr.RaftReadIndex) (*mr.RaftResponse, error) {
	before, after, failed := f.jitter()
	time.Sleep(before)
	f.mu.Lock()
	v := f.val
	f.mu.Unlock()
	time.Sleep(after)
	if failed {
		return nil, errors.New("injected failure")
	}
	return &mr.RaftResponse{Data: []byte(v)}, nil
}

func serve(reg func(*grpc.Server)) (string, *grpc.Server) {
	l, err := net.Listen("tcp", "127.0.0.1:0")
	if err != nil {
		panic(err)
	}
	s := grpc.NewServer()
	reg(s)
	go s.Serve(l)
	return l.Addr().String(), s
}

func wellFormed(evs []lcm.VerifEvent) string {
	open := map[uint64]bool{}
	kind := map[uint64]int{}
	failed := map[uint64]bool{}
	lastW := uint64(0)
	for i, e := range evs {
		switch e.Result {
		case 0:
			kind[e.ID] = int(e.Type)
			if open[e.ID] {
				return fmt.Sprintf("event %d: process %d invoked with an outstanding operation", i, e.ID)
			}
			if failed[e.ID] {
				return fmt.Sprintf("event %d: process %d invoked after a failure", i, e.ID)
			}
			open[e.ID] = true
			if e.Type == 1 {
				if e.Value <= lastW {
					return fmt.Sprintf("event %d: write value %d not fresh", i, e.Value)
				}
				lastW = e.Value
			}
		default:
			if !open[e.ID] {
				return fmt.Sprintf("event %d: completion without invocation for %d", i, e.ID)
			}
			if kind[e.ID] != int(e.Type) {
				return fmt.Sprintf("event %d: process %d invoked an operation of type %d and its completion (result %d) is recorded with type %d", i, e.ID, kind[e.ID], e.Result, e.Type)
			}
			open[e.ID] = false
			if e.Result == 2 {
				failed[e.ID] = true
			}
		}
	}
	return ""
}

var run *hx.Run

type pev struct {
	call        bool
	id          uint
	op, arg     int
	ex, unknown bool
	value       int
}

func (p pev) String() string {
	if p.call {
		return fmt.Sprintf("call %d op=%d arg=%d", p.id, p.op, p.arg)
	}
	return fmt.Sprintf("ret %d exists=%v value=%d unknown=%v", p.id, p.ex, p.value, p.unknown)
}

func decode(evs []porcupine.Event) []pev {
	out := []pev{}
	for _, e := range evs {
		s := fmt.Sprintf("%+v", e.Value)
		p := pev{id: e.Id}
		if e.Kind == porcupine.CallEvent {
			p.call = true
			var a2 int
			fmt.Sscanf(s, "{op:%d arg1:%d arg2:%d}", &p.op, &p.arg, &a2)
		} else {
			var ok bool
			fmt.Sscanf(s, "{ok:%t exists:%t value:%d unknown:%t}", &ok, &p.ex, &p.value, &p.unknown)
		}
		out = append(out, p)
	}
	return out
}

// roundTrip writes evs with the real SaveAsJepsenLog, prints the lines and the parsed history, and returns the parse
func roundTrip(c *lcm.Coordinator, evs []lcm.VerifEvent, dir string, n int) []porcupine.Event {
	c.VerifSetEvents(evs)
	// the monkey test saves every run under one fixed name: so does the harness (a shorter history over a longer one)
	fn := filepath.Join(dir, "drummer-lcm.jepsen")
	c.SaveAsJepsenLog(fn)
	arr := [][]interface{}{}
	for _, e := range evs {
		var v interface{} = e.Value
		if e.Value == math.MaxUint64 {
			v = nil
		}
		arr = append(arr, []interface{}{e.Type, e.Result, e.ID, v})
	}
	run.OpLine(map[string]interface{}{"op": "log", "events": arr})
	f, err := os.Open(fn)
	if err != nil {
		panic(err)
	}
	sc := bufio.NewScanner(f)
	for sc.Scan() {
		run.OutLine("line " + sc.Text())
	}
	f.Close()
	parsed := porcupine.ParseJepsenLog(fn)
	// the same log without the newline after its last line (a log cut by a copy, an editor, a crash of the writer between
	// the line and its terminator) is the same history
	if raw, err := os.ReadFile(fn); err == nil && len(raw) > 0 && raw[len(raw)-1] == '\n' {
		fn2 := filepath.Join(dir, "drummer-lcm-nonl.jepsen")
		if os.WriteFile(fn2, raw[:len(raw)-1], 0644) == nil {
			// (the returns the parser appends for operations still open at the end come in map order: canonical order first)
			canon := func(ps []pev) []pev {
				k := len(ps)
				for k > 0 && !ps[k-1].call && ps[k-1].unknown {
					k--
				}
				tail := ps[k:]
				sort.Slice(tail, func(i, j int) bool { return tail[i].id < tail[j].id })
				return ps
			}
			alt := canon(decode(porcupine.ParseJepsenLog(fn2)))
			ref := canon(decode(parsed))
			same := len(alt) == len(ref)
			for i := 0; same && i < len(ref); i++ {
				same = alt[i] == ref[i]
			}
			run.Count("c07:unterminated_last_line_checked")
			if !same {
				what := fmt.Sprintf("the log parsed without the newline after its last line gives %d events, with it %d: the last line is read differently (an operation whose completion is on that line is left open-ended, i.e. unconstrained for the checker)", len(alt), len(ref))
				arr := [][]interface{}{}
				for _, e := range evs[:minInt(len(evs), 60)] {
					arr = append(arr, []interface{}{e.Type, e.Result, e.ID, e.Value})
				}
				run.Violate(hx.Violation{Property: "C07", Clause: "log_roundtrip", Signature: "unterminated-last-line-parsed-differently", Seq: n, What: what, Ops: arr})
				run.Violate(hx.Violation{Property: "C06", Clause: "verdict_exact_at_the_binary", Signature: "unterminated-last-line-parsed-differently", Seq: n, What: what, Ops: arr})
			}
		}
	}
	ps := decode(parsed)
	k := len(ps)
	for k > 0 && !ps[k-1].call && ps[k-1].unknown {
		k--
	}
	tail := ps[k:]
	sort.Slice(tail, func(i, j int) bool { return tail[i].id < tail[j].id })
	strs := []string{}
	for _, p := range ps {
		strs = append(strs, p.String())
	}
	run.OutLine("parsed " + strings.Join(strs, "; "))
	run.Count("case:log_roundtrip")
	return parsed
}

// judge evaluates the property's clauses on a recorded history and its parse
func judge(evs []lcm.VerifEvent, parsed []porcupine.Event, kind string, seq int, linearizableSource bool) {
	fail := func(clause, sig, what string) {
		ops := evs
		if len(ops) > 60 {
			ops = ops[:60]
		}
		run.Violate(hx.Violation{Property: "C07", Clause: clause, Signature: sig, What: what, Seq: seq, Ops: ops})
		if clause == "failed_write_open_ended" {
			// what the checker binary decides on is the parsed history: an operation of unknown outcome that the parser
			// closes early (or with a definite outcome) is no longer unconstrained for the checker (C06)
			run.Violate(hx.Violation{Property: "C06", Clause: "verdict_exact_at_the_binary", Signature: sig, What: what, Seq: seq, Ops: ops})
		}
	}
	if kind == "recorded" {
		if msg := wellFormed(evs); msg != "" {
			fail("history_well_formed", "ill-formed-history", msg)
		}
	}
	invokes, maxID := 0, uint64(0)
	for _, e := range evs {
		if e.Result == 0 {
			invokes++
		}
		if e.ID > maxID {
			maxID = e.ID
		}
	}
	calls := 0
	for _, e := range parsed {
		if e.Kind == porcupine.CallEvent {
			calls++
		}
	}
	if maxID >= 1000 {
		run.Count("c07:history_with_ids_ge_1000")
	}
	if calls != invokes {
		sig := "log-roundtrip-loses-operations"
		fail("log_roundtrip", sig, fmt.Sprintf("%d operations recorded, %d found after saving and parsing the log (largest process id %d)", invokes, calls, maxID))
		return
	}
	// a failed write may still take effect later: its operation has to stay open until the end of the parsed history,
	// i.e. its return comes after every call (operation ids are given in call order, the k-th invoke is operation k)
	if wellFormed(evs) == "" {
		ps := decode(parsed)
		lastCall := -1
		retPos := map[int]int{}
		callPos := map[int]int{}
		for i, p := range ps {
			if p.call {
				lastCall = i
				callPos[int(p.id)] = i
			} else {
				retPos[int(p.id)] = i
			}
		}
		opOf := map[uint64]int{} // process -> operation id of its outstanding invoke
		k := 0
		for _, e := range evs {
			switch {
			case e.Result == 0:
				opOf[e.ID] = k
				k++
			case e.Result == 2 && e.Type == 0:
				// a failed read changes nothing, now or later: it is closed where it failed, i.e. before the call of whatever
				// was invoked next (the same operations in the same order)
				if cp, ok := callPos[k]; ok {
					run.Count("c07:failed_read_checked_closed_in_place")
					if pos, ok2 := retPos[opOf[e.ID]]; !ok2 || pos > cp {
						fail("log_roundtrip", "failed-read-left-open", fmt.Sprintf("the failed read of process %d (operation %d) is not closed where it failed: its return is at position %d of the parsed history, after the call of the operation invoked next (position %d)", e.ID, opOf[e.ID], pos, cp))
						return
					}
				}
			case e.Result == 2 && e.Type == 1:
				if pos, ok := retPos[opOf[e.ID]]; ok && pos < lastCall {
					fail("failed_write_open_ended", "failed-write-closed-early", fmt.Sprintf("the failed write of process %d (operation %d) is given a return at position %d of the parsed history, before the call at position %d: it can no longer take effect later", e.ID, opOf[e.ID], pos, lastCall))
					return
				}
				run.Count("c07:failed_write_checked_open_ended")
				// ... and with an outcome the checker may not rely on: the write may or may not have taken effect
				if pos, ok := retPos[opOf[e.ID]]; ok && !ps[pos].unknown {
					fail("failed_write_open_ended", "failed-write-given-a-definite-outcome", fmt.Sprintf("the failed write of process %d (operation %d) is closed in the parsed history with a definite outcome: the checker will take it as applied before its return", e.ID, opOf[e.ID]))
					return
				}
			}
		}
		// an operation that is still outstanding when the log ends (its completion was never recorded) is closed at the end
		// of the parsed history, with an unknown outcome as well
		completed := map[int]bool{}
		k = 0
		cur := map[uint64]int{}
		for _, e := range evs {
			if e.Result == 0 {
				cur[e.ID] = k
				k++
			} else if e.Result == 1 {
				completed[cur[e.ID]] = true
			}
		}
		for op := 0; op < k; op++ {
			if pos, ok := retPos[op]; ok && !completed[op] {
				run.Count("c07:open_operation_checked_unknown")
				if !ps[pos].unknown {
					fail("failed_write_open_ended", "open-operation-given-a-definite-outcome", fmt.Sprintf("operation %d has no recorded completion (failed, or still outstanding when the log ends) and is closed in the parsed history with a definite outcome", op))
					return
				}
			}
		}
	}
	// the search is exponential in (concurrent + never-completed) operations: bound it
	openNow, maxOpen, unknown := 0, 0, 0
	for _, e := range evs {
		switch e.Result {
		case 0:
			openNow++
			if openNow > maxOpen {
				maxOpen = openNow
			}
		case 1:
			openNow--
		default:
			unknown++
		}
	}
	if linearizableSource && maxOpen+unknown > 12 {
		run.Count("c07:linearizability_check_skipped_too_concurrent")
		linearizableSource = false
	}
	if linearizableSource {
		if !porcupine.CheckEvents(porcupine.GetEtcdModel(), parsed) {
			fail("faithful_history_accepted", "linearizable-run-rejected", "a run against a linearizable register was rejected by the checker")
			// the same finding seen from the checker: a linearizable history, given to it the way the checker binary does (log,
			// parser, CheckEvents), is answered "not linearizable" (C06)
			run.Violate(hx.Violation{Property: "C06", Clause: "verdict_exact_at_the_binary", Signature: "linearizable-run-rejected", Seq: seq,
				What: "the log of a run against a linearizable register, parsed and checked as the checker binary does, is answered not linearizable", Ops: evs[:minInt(len(evs), 60)]})
		}
		run.Count("c07:checked_linearizable")
	}
}

func main() {
	logger.GetLogger("drummer/client").SetLevel(logger.CRITICAL)
	seed := flag.Int64("seed", hx.Seed(), "PRNG seed")
	runs := flag.Int("n", 12, "coordinator runs against the fake services")
	synth := flag.Int("synth", 200, "synthetic event lists for the log round trip")
	edge := flag.Int("edge", -1, "child mode: check one sequential run of this many operations")
	out := flag.String("out", "", "output directory")
	flag.Parse()
	if *edge >= 0 {
		edgeChild(*edge)
		return
	}
	if *out == "" {
		hx.Die("need -out")
	}
	run = hx.NewRun(*out)
	defer run.Close()
	dir, _ := os.MkdirTemp("", "lcmrun")
	defer os.RemoveAll(dir)
	totalEv := 0
	for n := 0; n < *runs; n++ {
		r := hx.Rng(*seed, n)
		api := &fakeAPI{r: rand.New(rand.NewSource(*seed*7 + int64(n))), fail: []int{0, 30, 8}[r.Intn(3)]}
		apiAddr, s1 := serve(func(s *grpc.Server) { mr.RegisterNodehostAPIServer(s, api) })
		dAddr, s2 := serve(func(s *grpc.Server) { pb.RegisterDrummerServer(s, &fakeDrummer{apiAddr: apiAddr}) })
		size := uint64(1 + r.Intn(40))
		if n%4 == 3 {
			size = uint64(1000 + r.Intn(1000)) // process ids of four digits
		}
		// schedule search: in every third run each process is descheduled for a while between the return of its RPC and
		// the recording of the outcome, while the scheduler runs at a high rate over a handful of processes
		perturbed := n%3 == 1
		if perturbed {
			size = uint64(1 + r.Intn(3))
		}
		t0 := time.Now()
		c := lcm.NewCoordinator(context.Background(), size, 1, []string{dAddr})
		if perturbed {
			c.VerifDelayCompletions(time.Duration(4+r.Intn(8)) * time.Millisecond)
			run.Count("c07:perturbed_runs")
			for round := 0; round < 120; round++ {
				c.VerifSchedule()
				time.Sleep(time.Duration(1+r.Intn(3)) * time.Millisecond)
			}
		} else if n%3 == 2 {
			// schedule search, second kind: the history mutex is held (as by the recorder of another process, or by
			// SaveAsJepsenLog) while the scheduler runs. Whatever reaches the register service in the meantime must already
			// have its invocation in the history: an invocation is logged before the operation starts.
			run.Count("c07:lock_contention_runs")
			for round := 0; round < 40; round++ {
				c.VerifLockHistory()
				before := len(c.VerifEventsLocked())
				done := make(chan struct{})
				go func() { c.VerifSchedule(); close(done) }()
				time.Sleep(time.Duration(3+r.Intn(4)) * time.Millisecond)
				// nobody records anything while the history mutex is held by somebody else: an event appended now was appended
				// without the mutex, i.e. it races with every other recorder and with SaveAsJepsenLog (events get lost)
				if after := c.VerifEventsLocked(); len(after) != before {
					e := after[len(after)-1]
					run.Violate(hx.Violation{Property: "C07", Clause: "history_well_formed", Signature: "event-recorded-without-the-history-mutex", Seq: n,
						What: fmt.Sprintf("while the harness held the history mutex the history grew from %d to %d events (last: type %d result %d process %d): that recorder does not take the mutex", before, len(after), e.Type, e.Result, e.ID),
						Ops:  []string{fmt.Sprintf("coordinator run %d, round %d: history mutex held; scheduleProcesses started in another goroutine; history read under the lock before and after", n, round)}})
				}
				logged := map[string]bool{}
				for _, e := range c.VerifEventsLocked() {
					if e.Type == 1 && e.Result == 0 {
						logged[fmt.Sprint(e.Value)] = true
					}
				}
				api.mu.Lock()
				arrived := append([]string{}, api.arrived...)
				api.mu.Unlock()
				c.VerifUnlockHistory()
				<-done
				for _, v := range arrived {
					if !logged[v] {
						run.Violate(hx.Violation{Property: "C07", Clause: "invoke_logged_before_start", Signature: "operation-started-before-its-invocation-was-logged", Seq: n,
							What: fmt.Sprintf("the write of %s reached the register service while the history (held locked by the harness, as another recorder would) had no invocation for it", v),
							Ops:  []string{fmt.Sprintf("coordinator run %d, round %d: history mutex held; scheduleProcesses started; write %s arrived at the service; history read under the lock", n, round, v)}})
						break
					}
				}
				time.Sleep(time.Duration(2+r.Intn(6)) * time.Millisecond)
			}
		} else {
			for round := 0; round < 25; round++ {
				c.VerifSchedule()
				time.Sleep(time.Duration(2+r.Intn(12)) * time.Millisecond)
			}
		}
		for i := 0; i < 3000 && c.VerifBusy() > 0; i++ {
			time.Sleep(2 * time.Millisecond)
		}
		if c.VerifBusy() > 0 {
			run.Count("c07:inconclusive_run") // infrastructure: operations still in flight
			c.Stop()
			s1.Stop()
			s2.Stop()
			continue
		}
		evs := c.VerifEvents()
		totalEv += len(evs)
		// the recorded outcome of an operation is the outcome its caller saw: a write the service answered with an error
		// is not in the history as completed (the checker would take it as applied before its return)
		api.mu.Lock()
		for _, e := range evs {
			if e.Type == 1 && e.Result != 0 && api.refused[fmt.Sprint(e.Value)] {
				run.Count("c07:refused_write_outcome_checked")
				if e.Result == 1 {
					run.Violate(hx.Violation{Property: "C07", Clause: "outcome_recorded_faithfully", Signature: "failed-write-recorded-as-completed", Seq: n,
						What: fmt.Sprintf("the write of %d by process %d was answered with an error by the register service and is in the history as completed", e.Value, e.ID),
						Ops:  []string{fmt.Sprintf("coordinator run %d (failure rate 1/%d): Propose(%d) answered \"injected failure\"; recorded event {type write, process %d, result ok}", n, api.fail, e.Value, e.ID)}})
					break
				}
			}
		}
		api.mu.Unlock()
		run.Add("c07:recorded_events", len(evs))
		run.Count(fmt.Sprintf("case:coordinator_run_failrate_%d", api.fail))
		run.Nontrivial(fmt.Sprintf("run%d", n))
		t1 := time.Now()
		parsed := roundTrip(c, evs, dir, n)
		t2 := time.Now()
		judge(evs, parsed, "recorded", n, true)
		fmt.Fprintf(os.Stderr, "run %d size %d fail %d: sched %v roundtrip %v judge %v\n", n, size, api.fail, t1.Sub(t0), t2.Sub(t1), time.Since(t2))
		if n == 0 && len(evs) > 6 {
			run.Sample(evs[:6])
		}
		c.Stop()
		s1.Stop()
		s2.Stop()
	}
	// synthetic event lists the recorder can emit: per process alternating invoke / completion, failed processes stop
	c := lcm.NewCoordinator(context.Background(), 1, 1, []string{"127.0.0.1:1"})
	defer c.Stop()
	r := hx.Rng(*seed, 100000)
	for n := 0; n < *synth; n++ {
		procs := []uint64{}
		for i := 0; i < 1+r.Intn(8); i++ {
			switch r.Intn(4) {
			case 0:
				procs = append(procs, uint64(r.Intn(10)))
			case 1:
				procs = append(procs, uint64(990+r.Intn(20)))
			case 2:
				procs = append(procs, uint64(9990+r.Intn(20)))
			default:
				procs = append(procs, uint64(r.Intn(3000)))
			}
		}
		open := map[uint64]*lcm.VerifEvent{}
		dead := map[uint64]bool{}
		evs := []lcm.VerifEvent{}
		val := uint64(r.Intn(3)) * 999
		for k := 0; k < 4+r.Intn(30); k++ {
			p := procs[r.Intn(len(procs))]
			if dead[p] {
				continue
			}
			if o, ok := open[p]; ok {
				e := lcm.VerifEvent{Type: o.Type, ID: p, Result: 1, Value: o.Value}
				if r.Intn(5) == 0 {
					e.Result = 2
					dead[p] = true
				} else if o.Type == 0 {
					e.Value = val
					if r.Intn(4) == 0 {
						e.Value = math.MaxUint64 // a read that found nothing
					}
				}
				evs = append(evs, e)
				delete(open, p)
			} else {
				e := lcm.VerifEvent{Type: uint64(r.Intn(2)), ID: p, Result: 0}
				if e.Type == 1 {
					val++
					e.Value = val
				}
				evs = append(evs, e)
				ev := e
				open[p] = &ev
			}
		}
		parsed := roundTrip(c, evs, dir, 1000+n)
		judge(evs, parsed, "synthetic", 1000+n, false)
		run.Nontrivial(fmt.Sprintf("synth%d", n))
	}
	// runs of every length are accepted, the empty one included (a run in which nothing was ever scheduled saves an empty
	// log; the checker sizes its bookkeeping by the number of operations: 0, and the multiples of its word size, are the
	// edges). The checker works in goroutines of its own, so a crash in it cannot be caught here: the verdict is taken in a
	// child process.
	for _, nops := range []int{0, 1, 2, 63, 64, 65, 128, 129} {
		evs := edgeRun(nops)
		parsed := roundTrip(c, evs, dir, 5000+nops)
		judge(evs, parsed, "synthetic", 5000+nops, false)
		run.Count("case:sequential_run_of_edge_length")
		outb, err := exec.Command(os.Args[0], "-edge", fmt.Sprint(nops)).CombinedOutput()
		verdict := ""
		for _, l := range strings.Split(string(outb), "\n") {
			if strings.HasPrefix(l, "EDGE-RESULT ") {
				verdict = strings.TrimPrefix(l, "EDGE-RESULT ")
			}
		}
		if verdict != "accepted" {
			tail := string(outb)
			if len(tail) > 400 {
				tail = tail[:400]
			}
			what := fmt.Sprintf("the log of a sequential run of %d operations against a linearizable register was not accepted by the checker (verdict %q, child process: %v): %s", nops, verdict, err, tail)
			sig := "sequential-run-rejected"
			if verdict == "" {
				sig = "checker-crash-on-accepted-run"
			}
			run.Violate(hx.Violation{Property: "C07", Clause: "faithful_history_accepted", Signature: sig, Seq: 5000 + nops, What: what, Ops: evs[:minInt(len(evs), 60)]})
			run.Violate(hx.Violation{Property: "C06", Clause: "verdict_exact_at_the_binary", Signature: sig, Seq: 5000 + nops, What: what, Ops: evs[:minInt(len(evs), 60)]})
		}
	}
	// a write that is answered with a failure and takes effect afterwards (the proposal was still in flight): reads after
	// the failure first see the old value, then the new one. The run is linearizable exactly because a failed write stays
	// open-ended in the parsed history; also with the late effect never happening.
	for variant, tail := range [][]lcm.VerifEvent{
		{{Type: 0, Result: 0, ID: 3, Value: math.MaxUint64}, {Type: 0, Result: 1, ID: 3, Value: 1}, {Type: 0, Result: 0, ID: 3, Value: math.MaxUint64}, {Type: 0, Result: 1, ID: 3, Value: 2}},
		{{Type: 0, Result: 0, ID: 3, Value: math.MaxUint64}, {Type: 0, Result: 1, ID: 3, Value: 1}, {Type: 0, Result: 0, ID: 3, Value: math.MaxUint64}, {Type: 0, Result: 1, ID: 3, Value: 1}},
	} {
		evs := append([]lcm.VerifEvent{{Type: 1, Result: 0, ID: 1, Value: 1}, {Type: 1, Result: 1, ID: 1, Value: 1},
			{Type: 1, Result: 0, ID: 2, Value: 2}, {Type: 1, Result: 2, ID: 2, Value: 2}}, tail...)
		parsed := roundTrip(c, evs, dir, 6000+variant)
		run.Count("case:failed_write_with_late_effect")
		judge(evs, parsed, "synthetic", 6000+variant, true)
	}
	_ = totalEv
}

// edgeRun: a sequential run of nops operations (write i+1, read it back, ...) by three processes taking turns
func edgeRun(nops int) []lcm.VerifEvent {
	evs := []lcm.VerifEvent{}
	for i := 0; i < nops; i++ {
		id := uint64(1 + i%3)
		if i%2 == 0 {
			evs = append(evs, lcm.VerifEvent{Type: 1, Result: 0, ID: id, Value: uint64(i + 1)}, lcm.VerifEvent{Type: 1, Result: 1, ID: id, Value: uint64(i + 1)})
		} else {
			evs = append(evs, lcm.VerifEvent{Type: 0, Result: 0, ID: id, Value: math.MaxUint64}, lcm.VerifEvent{Type: 0, Result: 1, ID: id, Value: uint64(i)})
		}
	}
	return evs
}

// edgeChild: save, parse and check one edge-length run; a crash of the checker kills this process, not the harness
func edgeChild(nops int) {
	dir, _ := os.MkdirTemp("", "lcmedge")
	defer os.RemoveAll(dir)
	c := lcm.NewCoordinator(context.Background(), 1, 1, []string{"127.0.0.1:1"})
	c.VerifSetEvents(edgeRun(nops))
	fn := filepath.Join(dir, "drummer-lcm.jepsen")
	c.SaveAsJepsenLog(fn)
	parsed := porcupine.ParseJepsenLog(fn)
	if porcupine.CheckEvents(porcupine.GetEtcdModel(), parsed) {
		fmt.Fprintln(os.Stderr, "EDGE-RESULT accepted")
	} else {
		fmt.Fprintln(os.Stderr, "EDGE-RESULT rejected")
	}
	os.RemoveAll(dir)
	os.Exit(0)
}

func minInt(a, b int) int {
	if a < b {
		return a
	}
	return b
}
