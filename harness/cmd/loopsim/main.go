// loopsim: correspondence driver for M-LOOP and the closed-loop oracles of C01 /
// C02 / C11 / C12. The REAL Drummer DB and the REAL scheduler (launch() /
// Drummer.maintainShards() through the verif hook) run against a Go
// transliteration of the fleet half of the model (NodeHosts executing requests
// the way client/nodehost.go + dragonboat do: ordered config change fenced by the
// membership version, start / join / restore rules, data kept across restarts,
// lagging replicas); every event is compared with the Lean `step`. Phases per
// sequence: launch, a fault phase (crashes, long outages, restarts, lost reports
// and replies, delayed executions, lagging replicas), then fault-free round-fair
// rounds in which the fleet must heal within a bounded number of rounds (C01) and
// then fall silent (C11); membership size and co-location are checked after
// every round (C02), every scheduling decision by the scheduler oracles.
package main

import (
	"encoding/base64"
	"encoding/json"
	"flag"
	"fmt"
	"math/rand"
	"sort"
	"strconv"
	"strings"

	"encoding/hex"

	"github.com/lni/dragonboat/v4"
	sm "github.com/lni/dragonboat/v4/statemachine"
	drummer "github.com/lni/drummer/v3"
	pb "github.com/lni/drummer/v3/drummerpb"
	"google.golang.org/protobuf/proto"
	"verif/harness/internal/hx"
	"verif/harness/internal/nhx"
	"verif/harness/internal/schedx"
)

type J = map[string]interface{}

func num(v interface{}) uint64 {
	switch x := v.(type) {
	case float64:
		return uint64(x)
	case json.Number:
		n, _ := strconv.ParseUint(string(x), 10, 64)
		return n
	case nil:
		return 0
	}
	panic(fmt.Sprintf("num %T", v))
}
func str(v interface{}) string {
	if v == nil {
		return ""
	}
	return v.(string)
}
func boolean(v interface{}) bool {
	if v == nil {
		return false
	}
	return v.(bool)
}
func sortedKeys(m J) []string {
	ks := make([]string, 0, len(m))
	for k := range m {
		ks = append(ks, k)
	}
	sort.Slice(ks, func(i, j int) bool {
		a, e1 := strconv.ParseUint(ks[i], 10, 64)
		b, e2 := strconv.ParseUint(ks[j], 10, 64)
		if e1 == nil && e2 == nil {
			return a < b
		}
		return ks[i] < ks[j]
	})
	return ks
}
func asMap(v interface{}) J {
	if v == nil {
		return J{}
	}
	return v.(map[string]interface{})
}
func asList(v interface{}) []interface{} {
	if v == nil {
		return nil
	}
	return v.([]interface{})
}
func nums(v interface{}) string {
	parts := []string{}
	for _, x := range asList(v) {
		parts = append(parts, fmt.Sprint(num(x)))
	}
	return "[" + strings.Join(parts, ",") + "]"
}
func strs(v interface{}) string {
	parts := []string{}
	for _, x := range asList(v) {
		parts = append(parts, str(x))
	}
	return "[" + strings.Join(parts, ",") + "]"
}

func pbReqStr(r *pb.NodeHostRequest) string {
	ids := append([]uint64{}, r.ReplicaIdList...)
	addrs := append([]string{}, r.AddressList...)
	members := append([]uint64{}, r.Change.Members...)
	if r.Change.Type == pb.Request_CREATE && (r.Join || r.Restore) && len(ids) == len(addrs) {
		idx := make([]int, len(ids))
		for i := range idx {
			idx[i] = i
		}
		sort.Slice(idx, func(a, b int) bool { return ids[idx[a]] < ids[idx[b]] })
		nids := []uint64{}
		naddrs := []string{}
		for _, i := range idx {
			nids = append(nids, ids[i])
			naddrs = append(naddrs, addrs[i])
		}
		ids, addrs = nids, naddrs
		sort.Slice(members, func(a, b int) bool { return members[a] < members[b] })
	}
	f := func(l []uint64) string {
		p := []string{}
		for _, x := range l {
			p = append(p, fmt.Sprint(x))
		}
		return "[" + strings.Join(p, ",") + "]"
	}
	return fmt.Sprintf("{%d:%d:%s:%d:%s:[%s]:%d:%s:%v:%v:%s}", int(r.Change.Type), r.Change.ShardId, f(members), r.Change.ConfChangeId,
		f(ids), strings.Join(addrs, ","), r.InstantiateReplicaId, r.RaftAddress, r.Join, r.Restore, r.AppName)
}

func reqStr(r J) string {
	ch := asMap(r["change"])
	ids := []uint64{}
	for _, x := range asList(r["replica_id_list"]) {
		ids = append(ids, num(x))
	}
	addrs := []string{}
	for _, x := range asList(r["address_list"]) {
		addrs = append(addrs, str(x))
	}
	members := []uint64{}
	for _, x := range asList(ch["members"]) {
		members = append(members, num(x))
	}
	rq := &pb.NodeHostRequest{Change: &pb.Request{Type: pb.Request_Type(num(ch["type"])), ShardId: num(ch["shard_id"]), Members: members, ConfChangeId: num(ch["conf_change_id"])},
		ReplicaIdList: ids, AddressList: addrs, InstantiateReplicaId: num(r["instantiate_replica_id"]), RaftAddress: str(r["raft_address"]),
		Join: boolean(r["join"]), Restore: boolean(r["restore"]), AppName: str(r["app_name"])}
	return pbReqStr(rq)
}

func canon(db sm.IStateMachine) string {
	data, err := json.Marshal(db)
	if err != nil {
		panic(err)
	}
	var d J
	dec := json.NewDecoder(strings.NewReader(string(data)))
	dec.UseNumber()
	if err := dec.Decode(&d); err != nil {
		panic(err)
	}
	var b strings.Builder
	fmt.Fprintf(&b, "T=%d;D=%d;F=%v;", num(d["Tick"]), num(d["LaunchDeadline"]), boolean(d["Failed"]))
	b.WriteString("defs=[")
	sh := asMap(d["Shards"])
	for _, k := range sortedKeys(sh) {
		c := asMap(sh[k])
		fmt.Fprintf(&b, "%d:%s:%s,", num(c["shard_id"]), nums(c["members"]), str(c["app_name"]))
	}
	b.WriteString("];kv=[")
	kv := asMap(d["KVMap"])
	for _, k := range sortedKeys(kv) {
		raw, _ := base64.StdEncoding.DecodeString(str(kv[k]))
		var rec pb.KV
		if err := proto.Unmarshal(raw, &rec); err != nil {
			panic(err)
		}
		val := string(rec.Value)
		if string(rec.Key) == "regions-key" {
			val = hex.EncodeToString(rec.Value)
		}
		fmt.Fprintf(&b, "%s:%s:%d:%d:%d:%v,", string(rec.Key), val, rec.InstanceId, rec.Tick, rec.OldInstanceId, rec.Finalized)
	}
	b.WriteString("];img=[")
	img := asMap(d["ShardImage"])
	ish := asMap(img["Shards"])
	for _, k := range sortedKeys(ish) {
		c := asMap(ish[k])
		fmt.Fprintf(&b, "%d:%d:[", num(c["ShardID"]), num(c["ConfigChangeIndex"]))
		reps := asMap(c["Replicas"])
		for _, rk := range sortedKeys(reps) {
			r := asMap(reps[rk])
			fmt.Fprintf(&b, "%d@%s:%v:%d:%d,", num(r["ReplicaID"]), str(r["Address"]), boolean(r["IsLeader"]), num(r["Tick"]), num(r["FirstObserved"]))
		}
		b.WriteString("],")
	}
	b.WriteString("];kill=[")
	for _, x := range asList(img["ReplicasToKill"]) {
		e := asMap(x)
		fmt.Fprintf(&b, "(%d,%d,%s),", num(e["ShardID"]), num(e["ReplicaID"]), str(e["Address"]))
	}
	b.WriteString("];hosts=[")
	nh := asMap(asMap(d["NodeHostImage"])["Nodehosts"])
	for _, k := range sortedKeys(nh) {
		h := asMap(nh[k])
		fmt.Fprintf(&b, "%s:%s:%s:%d:[", str(h["Address"]), str(h["RPCAddress"]), str(h["Region"]), num(h["Tick"]))
		for _, x := range asList(h["PersistentLog"]) {
			e := asMap(x)
			fmt.Fprintf(&b, "(%d,%d),", num(e["shard_id"]), num(e["replica_id"]))
		}
		b.WriteString("]:[")
		for _, sk := range sortedKeys(asMap(h["Shards"])) {
			b.WriteString(sk + ",")
		}
		b.WriteString("],")
	}
	for _, name := range []string{"Requests", "Outgoing"} {
		fmt.Fprintf(&b, "];%s=[", name)
		m := asMap(d[name])
		for _, k := range sortedKeys(m) {
			fmt.Fprintf(&b, "%s:[", k)
			for _, x := range asList(m[k]) {
				b.WriteString(reqStr(asMap(x)) + ",")
			}
			b.WriteString("],")
		}
	}
	b.WriteString("];info=[")
	hi := asMap(d["NodeHostInfo"])
	for _, k := range sortedKeys(hi) {
		fmt.Fprintf(&b, "%s:%d,", k, num(asMap(hi[k])["last_tick"]))
	}
	b.WriteString("]")
	return b.String()
}

type simReplica struct {
	shard, id uint64
	applied   int // index into group history, -1 = pending
}

type simHost struct {
	addr        string
	up          bool
	reportCount int
	running     map[uint64]*simReplica
	data        map[[2]uint64]int
	queue       []*pb.NodeHostRequest
}

type membership struct {
	ver     uint64
	members map[uint64]string
	removed map[uint64]bool
}

type group struct{ hist []membership }

func (g *group) cur() *membership { return &g.hist[len(g.hist)-1] }

type loop struct {
	db      sm.IStateMachine
	nh      *dragonboat.NodeHost
	hosts   []*simHost
	groups  map[uint64]*group
	shards  []*pb.Shard
	r       *rand.Rand
	nextVer uint64
	run     *hx.Run
	seq     int
	opsLog  []J
	stats   map[string]int
	viol    []string
	quiet   int
	faulty  bool                    // inside the fault window
	sched   *drummer.VerifScheduler // one long-lived scheduler per leader, as in Drummer; replaced now and then (leader change)
	stamped map[[2]uint64]uint64    // (shard, member) -> last positive report time seen in the view while it stayed a member
	late    []*pb.NodeHostInfo      // copies of reports that will arrive a second time, late (a retransmitted message)
}

func (l *loop) fail(prop, clause, sig, what string) {
	ops := l.opsLog
	l.run.Violate(hx.Violation{Property: prop, Clause: clause, Signature: sig, What: what, Seq: l.seq, OpIndex: len(ops), Ops: append([]J{}, ops...)})
}

func (l *loop) emit(op J) {
	l.run.OpLine(op)
	l.opsLog = append(l.opsLog, op)
	l.run.Count("case:" + op["op"].(string))
}

func u64s(m map[uint64]string) []uint64 {
	ks := []uint64{}
	for k := range m {
		ks = append(ks, k)
	}
	sort.Slice(ks, func(i, j int) bool { return ks[i] < ks[j] })
	return ks
}

func (l *loop) fleetStr() string {
	var b strings.Builder
	b.WriteString("hosts=[")
	for _, h := range l.hosts {
		fmt.Fprintf(&b, "%s:%v:%d:run[", h.addr, h.up, h.reportCount)
		sids := []uint64{}
		for s := range h.running {
			sids = append(sids, s)
		}
		sort.Slice(sids, func(i, j int) bool { return sids[i] < sids[j] })
		for _, s := range sids {
			fmt.Fprintf(&b, "%d/%d@%d,", s, h.running[s].id, h.running[s].applied)
		}
		b.WriteString("]data[")
		keys := [][2]uint64{}
		for k := range h.data {
			keys = append(keys, k)
		}
		sort.Slice(keys, func(i, j int) bool {
			return keys[i][0] < keys[j][0] || (keys[i][0] == keys[j][0] && keys[i][1] < keys[j][1])
		})
		for _, k := range keys {
			fmt.Fprintf(&b, "%d/%d@%d,", k[0], k[1], h.data[k])
		}
		b.WriteString("]q[")
		for _, rq := range h.queue {
			b.WriteString(pbReqStr(rq) + ",")
		}
		b.WriteString("],")
	}
	b.WriteString("];groups=[")
	gids := []uint64{}
	for g := range l.groups {
		gids = append(gids, g)
	}
	sort.Slice(gids, func(i, j int) bool { return gids[i] < gids[j] })
	for _, g := range gids {
		fmt.Fprintf(&b, "%d:[", g)
		for _, m := range l.groups[g].hist {
			fmt.Fprintf(&b, "v%d{", m.ver)
			for _, k := range u64s(m.members) {
				fmt.Fprintf(&b, "%d@%s,", k, m.members[k])
			}
			b.WriteString("}")
		}
		b.WriteString("],")
	}
	b.WriteString("]")
	return b.String()
}

func (l *loop) record(res string) {
	l.run.OutLine(res + " " + canon(l.db) + " " + l.fleetStr())
}

func (l *loop) upd(u *pb.Update) uint64 {
	data, err := proto.Marshal(u)
	if err != nil {
		panic(err)
	}
	r, _ := l.db.Update(sm.Entry{Cmd: data})
	return r.Value
}

func (l *loop) ctxJSON() []byte {
	q, _ := proto.Marshal(&pb.LookupRequest{Type: pb.LookupRequest_SCHEDULER_CONTEXT})
	v, _ := l.db.Lookup(q)
	return v.([]byte)
}

func (l *loop) viewCCI() map[uint64]uint64 {
	var sc struct {
		ShardImage struct {
			Shards map[uint64]struct{ ConfigChangeIndex uint64 }
		}
	}
	if err := json.Unmarshal(l.ctxJSON(), &sc); err != nil {
		panic(err)
	}
	r := map[uint64]uint64{}
	for k, v := range sc.ShardImage.Shards {
		r[k] = v.ConfigChangeIndex
	}
	return r
}

func (l *loop) tick() {
	l.emit(J{"op": "tick"})
	v := l.upd(&pb.Update{Type: pb.Update_TICK})
	l.record(fmt.Sprint(v))
}

func (l *loop) report(h *simHost, lost bool, replyLost bool) {
	if !h.up || lost {
		return
	}
	l.emit(J{"op": "report", "addr": h.addr, "replyLost": replyLost})
	h.reportCount++
	cci := l.viewCCI()
	nhi := &pb.NodeHostInfo{RaftAddress: h.addr, RPCAddress: "rpc-" + h.addr, Region: "r"}
	sids := []uint64{}
	for sid := range h.running {
		sids = append(sids, sid)
	}
	sort.Slice(sids, func(i, j int) bool { return sids[i] < sids[j] })
	for _, sid := range sids {
		r := h.running[sid]
		nhi.ShardIdList = append(nhi.ShardIdList, sid)
		si := &pb.ShardInfo{ShardId: sid, ReplicaId: r.id}
		if r.applied < 0 {
			si.Pending = true
		} else {
			m := l.groups[sid].hist[r.applied]
			si.ConfigChangeIndex = m.ver
			if known, ok := cci[sid]; ok && known >= m.ver {
				si.Incomplete = true
			} else {
				si.Replicas = map[uint64]string{}
				for k, v := range m.members {
					si.Replicas[k] = v
				}
			}
		}
		nhi.ShardInfo = append(nhi.ShardInfo, si)
	}
	if h.reportCount == 1 || h.reportCount%3 == 0 {
		nhi.PlogInfoIncluded = true
		keys := [][2]uint64{}
		for k := range h.data {
			keys = append(keys, k)
		}
		sort.Slice(keys, func(i, j int) bool {
			return keys[i][0] < keys[j][0] || (keys[i][0] == keys[j][0] && keys[i][1] < keys[j][1])
		})
		for _, k := range keys {
			nhi.PlogInfo = append(nhi.PlogInfo, &pb.LogInfo{ShardId: k[0], ReplicaId: k[1]})
		}
	}
	// one report in twelve will arrive a second time, late; a report that carries membership details (they are sent around
	// membership changes, which is when a late copy matters) one time in two
	full := false
	for _, si := range nhi.ShardInfo {
		full = full || len(si.Replicas) > 0
	}
	if l.faulty && (l.r.Intn(12) == 0 || (full && l.r.Intn(2) == 0)) {
		l.late = append(l.late, proto.Clone(nhi).(*pb.NodeHostInfo))
	}
	v := l.upd(&pb.Update{Type: pb.Update_NODEHOST_INFO, NodehostInfo: nhi})
	if !replyLost {
		q, _ := proto.Marshal(&pb.LookupRequest{Type: pb.LookupRequest_REQUESTS, Address: h.addr})
		rv, _ := l.db.Lookup(q)
		var resp pb.LookupResponse
		if err := proto.Unmarshal(rv.([]byte), &resp); err != nil {
			panic(err)
		}
		h.queue = append(h.queue, resp.Requests.Requests...)
	}
	l.record(fmt.Sprint(v))
}

// deliverLate: a copy of an earlier report arrives (again), whatever has happened in between; nobody waits for its reply
func (l *loop) deliverLate() {
	if len(l.late) == 0 {
		return
	}
	k := l.r.Intn(len(l.late))
	nhi := l.late[k]
	l.late = append(l.late[:k], l.late[k+1:]...)
	infos := []J{}
	for _, si := range nhi.ShardInfo {
		reps := [][]interface{}{}
		ids := []uint64{}
		for id := range si.Replicas {
			ids = append(ids, id)
		}
		sort.Slice(ids, func(i, j int) bool { return ids[i] < ids[j] })
		for _, id := range ids {
			reps = append(reps, []interface{}{id, si.Replicas[id]})
		}
		infos = append(infos, J{"s": si.ShardId, "r": si.ReplicaId, "leader": si.IsLeader, "cci": si.ConfigChangeIndex, "inc": si.Incomplete, "pend": si.Pending, "reps": reps})
	}
	plog := [][]uint64{}
	for _, li := range nhi.PlogInfo {
		plog = append(plog, []uint64{li.ShardId, li.ReplicaId})
	}
	ids := nhi.ShardIdList
	if ids == nil {
		ids = []uint64{}
	}
	l.emit(J{"op": "late_report", "addr": nhi.RaftAddress, "rpc": nhi.RPCAddress, "region": nhi.Region, "plog_inc": nhi.PlogInfoIncluded, "plog": plog, "ids": ids, "infos": infos})
	v := l.upd(&pb.Update{Type: pb.Update_NODEHOST_INFO, NodehostInfo: proto.Clone(nhi).(*pb.NodeHostInfo)})
	l.record(fmt.Sprint(v))
}

func (l *loop) launched() bool {
	q, _ := proto.Marshal(&pb.LookupRequest{Type: pb.LookupRequest_KV, KvLookup: &pb.KV{Key: []byte("launched-flag")}})
	v, _ := l.db.Lookup(q)
	var resp pb.LookupResponse
	proto.Unmarshal(v.([]byte), &resp)
	return string(resp.KvResult.Value) == "true"
}

func (l *loop) schedule() {
	draws := []uint64{}
	for k := 0; k < 80; k++ {
		draws = append(draws, uint64(1+l.r.Intn(100000)))
	}
	cj := l.ctxJSON()
	mode := "maintain"
	var sc struct {
		ShardImage struct{ Shards map[uint64]interface{} }
	}
	json.Unmarshal(cj, &sc)
	if !l.launched() && len(sc.ShardImage.Shards) == 0 {
		mode = "launch"
	}
	if l.sched == nil || l.r.Intn(25) == 0 {
		l.sched = drummer.VerifNewScheduler()
	}
	res := l.sched.Schedule(l.nh, cj, draws, mode)
	reps := []J{}
	for _, cr := range res.Repairs {
		reps = append(reps, J{"s": cr.ShardID, "f": cr.Failed, "o": cr.OK, "w": cr.ToStart})
	}
	l.emit(J{"op": "schedule", "mode": mode, "draws": draws, "shards": res.ShardsOrder, "hosts": res.HostsOrder, "repairs": reps})
	if mode == "maintain" {
		// in the closed loop a recorded stray that is not killed keeps its NodeHost occupied for the shard (one replica per
		// shard per NodeHost): a member placed there cannot start, so a missing KILL is a failing input of the healing
		// property as well
		jd := &schedx.Judge{Run: l.run, Seq: l.seq, Idx: len(l.opsLog), Ops: append([]J{}, l.opsLog...), ConsistentHistory: true,
			Also: map[string][]string{"kill-request-missing": {"C01"}}}
		jd.Maintain(schedx.ParseContext(cj), &res, strings.Contains(res.Panic, "random draws exhausted"), draws)
	} else {
		jd := &schedx.Judge{Run: l.run, Seq: l.seq, Idx: len(l.opsLog), Ops: append([]J{}, l.opsLog...), ConsistentHistory: true, Draws: draws}
		jd.Launch(schedx.ParseContext(cj), &res, strings.Contains(res.Panic, "random draws exhausted"))
	}
	if res.Panic != "" {
		l.stats["sched-panic"]++
		if !strings.Contains(res.Panic, "random draws exhausted") {
			// the leader's scheduling step died: no round after this one, nothing heals any more
			l.fail("C01", "loop_alive", "scheduling-step-crashed", "the scheduling step of the control loop crashed: "+res.Panic)
		}
		l.record("sched panic")
		return
	}
	if res.Err != "" {
		l.stats["sched-error"]++
		l.record("sched error")
		return
	}
	for _, r := range res.Requests {
		k := r.Change.Type.String()
		if r.Restore {
			k += "-restore"
		} else if r.Join {
			k += "-join"
		}
		l.stats[k]++
		if r.Change.Type == pb.Request_KILL {
			if g := l.groups[r.Change.ShardId]; g != nil {
				if a, ok := g.cur().members[r.Change.Members[0]]; ok && a == r.RaftAddress {
					why := fmt.Sprintf("kill request for (%d,%d) on %s which is a member of the shard's current membership", r.Change.ShardId, r.Change.Members[0], a)
					l.fail("C11", "member_never_killed", "current-member-killed", why)
					// the loop itself takes a healthy member away (replica stopped, data erased): the opposite of healing
					l.fail("C01", "no_self_inflicted_damage", "current-member-killed", why)
				}
			}
		}
	}
	var v uint64
	if len(res.Requests) > 0 {
		v = l.upd(&pb.Update{Type: pb.Update_REQUESTS, Requests: &pb.NodeHostRequestCollection{Requests: res.Requests}})
	}
	if len(res.Requests) == 0 {
		l.quiet++
	} else {
		l.quiet = 0
	}
	l.record(fmt.Sprintf("sched %d %d", len(res.Requests), v))
}

func (l *loop) host(addr string) *simHost {
	for _, h := range l.hosts {
		if h.addr == addr {
			return h
		}
	}
	return nil
}

func (l *loop) quorumRunning(sid uint64) bool {
	g := l.groups[sid]
	if g == nil {
		return false
	}
	m := g.cur()
	n := 0
	for id, a := range m.members {
		h := l.host(a)
		if h != nil && h.up {
			if r, ok := h.running[sid]; ok && r.id == id {
				n++
			}
		}
	}
	return n >= len(m.members)/2+1
}

func (l *loop) execute(h *simHost) {
	if !h.up {
		return
	}
	l.emit(J{"op": "execute", "addr": h.addr})
	q := h.queue
	h.queue = nil
	for _, r := range q {
		sid := r.Change.ShardId
		switch r.Change.Type {
		case pb.Request_CREATE:
			rid := r.InstantiateReplicaId
			_, has := h.data[[2]uint64{sid, rid}]
			if _, running := h.running[sid]; running {
				continue
			}
			if r.Restore && !r.Join {
				if !has {
					continue
				}
				h.running[sid] = &simReplica{shard: sid, id: rid, applied: h.data[[2]uint64{sid, rid}]}
			} else if r.Join {
				ap := -1
				if has {
					ap = h.data[[2]uint64{sid, rid}]
				}
				h.running[sid] = &simReplica{shard: sid, id: rid, applied: ap}
				h.data[[2]uint64{sid, rid}] = ap
			} else {
				if has {
					continue
				}
				if _, ok := l.groups[sid]; !ok {
					l.nextVer++
					m := membership{ver: l.nextVer, members: map[uint64]string{}, removed: map[uint64]bool{}}
					for i, id := range r.ReplicaIdList {
						m.members[id] = r.AddressList[i]
					}
					l.groups[sid] = &group{hist: []membership{m}}
				}
				h.running[sid] = &simReplica{shard: sid, id: rid, applied: 0}
				h.data[[2]uint64{sid, rid}] = 0
			}
		case pb.Request_ADD, pb.Request_DELETE:
			rep, ok := h.running[sid]
			if !ok {
				continue
			}
			g := l.groups[sid]
			cur := g.cur()
			if _, member := cur.members[rep.id]; !member {
				continue
			}
			if r.Change.ConfChangeId != cur.ver || !l.quorumRunning(sid) {
				l.stats["cc-rejected"]++
				continue
			}
			nm := membership{members: map[uint64]string{}, removed: map[uint64]bool{}}
			for k, v := range cur.members {
				nm.members[k] = v
			}
			for k := range cur.removed {
				nm.removed[k] = true
			}
			id := r.Change.Members[0]
			if r.Change.Type == pb.Request_ADD {
				if nm.removed[id] {
					continue
				}
				if _, ok := nm.members[id]; ok {
					continue
				}
				dup := false
				for _, a := range nm.members {
					if a == r.AddressList[0] {
						dup = true
					}
				}
				if dup {
					l.viol = append(l.viol, "ADD onto address already in membership")
					continue
				}
				nm.members[id] = r.AddressList[0]
			} else {
				if _, ok := nm.members[id]; !ok {
					continue
				}
				if len(nm.members) == 1 {
					continue
				}
				delete(nm.members, id)
				nm.removed[id] = true
			}
			l.nextVer++
			nm.ver = l.nextVer
			g.hist = append(g.hist, nm)
			rep.applied = len(g.hist) - 1
			h.data[[2]uint64{sid, rep.id}] = rep.applied
			l.stats["cc-applied-"+r.Change.Type.String()]++
		case pb.Request_KILL:
			rid := r.Change.Members[0]
			if rep, ok := h.running[sid]; ok && rep.id == rid {
				if g := l.groups[sid]; g != nil {
					if _, member := g.cur().members[rid]; member {
						l.viol = append(l.viol, "executed KILL of current member")
					}
				}
				delete(h.running, sid)
				delete(h.data, [2]uint64{sid, rid})
			}
		}
	}
	l.settle(h)
	l.record("exec")
}

func (l *loop) progress(h *simHost, all bool) {
	if !h.up {
		return
	}
	l.emit(J{"op": "progress", "addr": h.addr, "all": all})
	sids := []uint64{}
	for sid := range h.running {
		sids = append(sids, sid)
	}
	for _, sid := range sids {
		r := h.running[sid]
		g := l.groups[sid]
		if g == nil || !l.quorumRunning(sid) {
			continue
		}
		last := len(g.hist) - 1
		if r.applied < last {
			if all {
				r.applied = last
			} else {
				r.applied++
			}
			h.data[[2]uint64{sid, r.id}] = r.applied
		}
	}
	l.settle(h)
	l.record("progress")
}

// settle: dragonboat stops a replica as soon as it applies its own removal (from the log or from a snapshot); its data
// stays. Part of every execute and progress event.
func (l *loop) settle(h *simHost) {
	for sid, r := range h.running {
		g := l.groups[sid]
		if g == nil || r.applied < 0 || r.applied >= len(g.hist) {
			continue
		}
		if g.hist[r.applied].removed[r.id] {
			delete(h.running, sid)
			l.stats["removed_replica_stopped_itself"]++
		}
	}
}

func (l *loop) crash(h *simHost) {
	l.emit(J{"op": "crash", "addr": h.addr})
	h.up = false
	h.running = map[uint64]*simReplica{}
	h.queue = nil
	h.reportCount = 0
	l.record("crash")
}

func (l *loop) restart(h *simHost) {
	if h.up {
		return
	}
	l.emit(J{"op": "restart", "addr": h.addr})
	h.up = true
	l.record("restart")
}

func (l *loop) healed() (bool, string) {
	cj := l.ctxJSON()
	for _, s := range l.shards {
		g := l.groups[s.ShardId]
		if g == nil {
			return false, "no group"
		}
		m := g.cur()
		if len(m.members) < len(s.Members) {
			return false, "too few members"
		}
		for id, a := range m.members {
			h := l.host(a)
			if h == nil || !h.up {
				return false, "member on down host"
			}
			if r, ok := h.running[s.ShardId]; !ok || r.id != id {
				return false, "member not running"
			}
		}
		st, err := drummer.VerifToShardState(cj, s.ShardId)
		if err != nil || st.State != pb.ShardState_OK {
			return false, "state not OK"
		}
	}
	return true, ""
}

// checkDetectionInput: failure detection works off the time of a member's last own report; a member that has such a time
// keeps one for as long as it stays a member (only a newer report changes it, to a later time). A view that forgets it
// turns a crashed member into one "waiting to be started", which is never classified failed and never repaired.
func (l *loop) checkDetectionInput() {
	var sc struct {
		ShardImage struct {
			Shards map[uint64]struct {
				Replicas map[uint64]struct{ Tick uint64 }
			}
		}
	}
	if err := json.Unmarshal(l.ctxJSON(), &sc); err != nil {
		panic(err)
	}
	if l.stamped == nil {
		l.stamped = map[[2]uint64]uint64{}
	}
	now := map[[2]uint64]uint64{}
	for sid, v := range sc.ShardImage.Shards {
		for rid, n := range v.Replicas {
			k := [2]uint64{sid, rid}
			l.run.Count("c01:detection_input_checked")
			if was, ok := l.stamped[k]; ok && n.Tick < was {
				why := fmt.Sprintf("member %d of shard %d was last reported by its NodeHost at logical time %d; it is still a member and the view now holds %d for it", rid, sid, was, n.Tick)
				l.fail("C01", "detection_input", "report-time-of-a-member-forgotten", why)
				l.fail("C05", "class_follows_report_history", "report-time-of-a-member-forgotten", why)
			}
			if n.Tick > 0 {
				now[k] = n.Tick
			}
		}
	}
	l.stamped = now
}

func (l *loop) checkSafety() {
	l.checkDetectionInput()
	for _, s := range l.shards {
		g := l.groups[s.ShardId]
		if g == nil {
			continue
		}
		m := g.cur()
		if len(m.members) > len(s.Members)+1 || len(m.members) < len(s.Members) {
			l.fail("C02", "size_bounds", "membership-size", fmt.Sprintf("shard %d (size %d) has %d members", s.ShardId, len(s.Members), len(m.members)))
		}
		seen := map[string]bool{}
		for _, a := range m.members {
			if seen[a] {
				l.fail("C02", "no_colocation", "two-members-one-host", fmt.Sprintf("two members of shard %d live on %s", s.ShardId, a))
			}
			seen[a] = true
		}
	}
}

func (l *loop) healthyRound() {
	order := l.r.Perm(len(l.hosts))
	ticks := 0
	for _, i := range order {
		if ticks < 4 && l.r.Intn(2) == 0 {
			l.tick()
			ticks++
		}
		h := l.hosts[i]
		l.report(h, false, false)
		l.execute(h)
		l.progress(h, true)
	}
	for ; ticks < 4; ticks++ {
		l.tick()
	}
	l.schedule()
}

func (l *loop) faultyRound(longDown map[int]int) {
	for t := 0; t < 4; t++ {
		l.tick()
	}
	for hi, h := range l.hosts {
		if longDown[hi] > 0 {
			if h.up {
				l.crash(h)
			}
			longDown[hi]--
			continue
		}
		l.restart(h)
		x := l.r.Intn(100)
		if x < 4 {
			l.crash(h)
			longDown[hi] = 1 + l.r.Intn(3)
			continue
		} else if x < 7 {
			l.crash(h)
			longDown[hi] = 6 + l.r.Intn(25)
			continue
		}
		l.report(h, l.r.Intn(10) == 0, l.r.Intn(10) == 0)
		if l.r.Intn(6) == 0 {
			l.deliverLate()
		}
		if l.r.Intn(5) != 0 {
			l.execute(h)
		}
		if l.r.Intn(10) < 7 {
			l.progress(h, l.r.Intn(2) == 0)
		}
	}
	l.schedule()
}

const healBound = 12 // healthy rounds within which the fleet must be healed (C01)
const quietBound = 8 // further healthy rounds within which no more requests may be issued (C11)

func main() {
	nhx.Quiet()
	seedF := flag.Int64("seed", hx.Seed(), "PRNG seed")
	nseq := flag.Int("n", 30, "number of sequences")
	maxFault := flag.Int("faults", 60, "maximal number of faulty rounds")
	outDir := flag.String("out", "", "output directory")
	flag.Parse()
	if *outDir == "" {
		hx.Die("need -out")
	}
	h := nhx.NewHost(50)
	defer h.Close()
	nh := h.NH
	run := hx.NewRun(*outDir)
	defer run.Close()
	hist := map[int]int{}
	for s := 0; s < *nseq; s++ {
		r := hx.Rng(*seedF, s)
		size := []int{3, 5}[r.Intn(2)]
		nHosts := size + 1 + r.Intn(3)
		if nHosts > 7 {
			nHosts = 7
		}
		nShards := 1 + r.Intn(6)
		l := &loop{db: drummer.NewDB(0, 1), nh: nh, groups: map[uint64]*group{}, r: r, run: run, seq: s, stats: map[string]int{}}
		addrs := []string{}
		for i := 0; i < nHosts; i++ {
			a := "h" + strconv.Itoa(i)
			addrs = append(addrs, a)
			l.hosts = append(l.hosts, &simHost{addr: a, up: true, running: map[uint64]*simReplica{}, data: map[[2]uint64]int{}})
		}
		defs := []J{}
		for i := 0; i < nShards; i++ {
			members := []uint64{}
			for j := 0; j < size; j++ {
				members = append(members, uint64(100*(i+1)+j+1))
			}
			l.upd(&pb.Update{Type: pb.Update_SHARD, Change: &pb.Change{Type: pb.Change_CREATE, ShardId: uint64(i + 1), Members: members, AppName: "kvtest"}})
			l.shards = append(l.shards, &pb.Shard{ShardId: uint64(i + 1), Members: members, AppName: "kvtest"})
			defs = append(defs, J{"id": i + 1, "members": members, "app": "kvtest"})
		}
		rg := &pb.Regions{Region: []string{"r"}, Count: []uint64{uint64(size)}}
		raw, _ := proto.Marshal(rg)
		l.upd(&pb.Update{Type: pb.Update_KV, KvUpdate: &pb.KV{Key: []byte("regions-key"), Value: raw, Finalized: true}})
		l.upd(&pb.Update{Type: pb.Update_KV, KvUpdate: &pb.KV{Key: []byte("bootstrapped-flag"), Value: []byte("true"), Finalized: true}})
		l.emit(J{"op": "new", "hosts": addrs, "defs": defs, "regions_hex": hex.EncodeToString(raw), "region": rg.Region, "count": rg.Count})
		l.record("new")
		ok := false
		for rd := 0; rd < 12; rd++ {
			l.healthyRound()
			if h, _ := l.healed(); h {
				ok = true
				break
			}
		}
		if !ok {
			_, why := l.healed()
			l.fail("C01", "launch_completes", "launch-incomplete", "the initial launch did not complete within 12 fault-free rounds: "+why)
			continue
		}
		run.Count("c01:launched")
		longDown := map[int]int{}
		nf := 5 + r.Intn(*maxFault)
		// in a third of the sequences a whole shard goes dark at some point: every NodeHost that runs a member of it is
		// down for longer than the failure timeout, while the rest of the fleet keeps reporting
		outageAt := -1
		if r.Intn(3) == 0 {
			outageAt = r.Intn(nf)
		}
		for rd := 0; rd < nf; rd++ {
			if rd == outageAt && len(l.groups) > 0 {
				ids := []uint64{}
				for id := range l.groups {
					ids = append(ids, id)
				}
				sort.Slice(ids, func(a, b int) bool { return ids[a] < ids[b] })
				g := l.groups[ids[r.Intn(len(ids))]]
				down := 5 + r.Intn(4)
				for _, a := range g.cur().members {
					for hi, h := range l.hosts {
						if h.addr == a {
							longDown[hi] = down
						}
					}
				}
				run.Count("c01:whole_shard_outage")
			}
			l.faulty = true
			l.faultyRound(longDown)
			l.faulty = false
			l.checkSafety()
		}
		// faults stop: what is still in flight arrives now or never
		for len(l.late) > 0 && r.Intn(3) != 0 {
			l.deliverLate()
		}
		l.late = nil
		for _, h := range l.hosts {
			l.restart(h)
		}
		healedAt := -1
		for rd := 1; rd <= healBound; rd++ {
			l.healthyRound()
			l.checkSafety()
			if h, _ := l.healed(); h {
				healedAt = rd
				break
			}
		}
		hist[healedAt]++
		run.Count(fmt.Sprintf("c01:healed_in_round_%02d", healedAt))
		if healedAt < 0 {
			_, why := l.healed()
			l.fail("C01", "self_healing", "not-healed-in-bound", fmt.Sprintf("after %d faulty rounds the fleet (%d hosts, %d shards of %d) did not heal within %d fault-free rounds: %s", nf, nHosts, nShards, size, healBound, why))
		} else {
			// it stays healed, and the request stream dries up
			l.quiet = 0
			quietAt := -1
			for rd := 1; rd <= quietBound; rd++ {
				l.healthyRound()
				l.checkSafety()
				if h, why := l.healed(); !h {
					l.fail("C01", "stays_healed", "healed-then-broken", "a healed fleet without faults stopped being healed: "+why)
					break
				}
				if l.quiet >= 2 && quietAt < 0 {
					quietAt = rd
				}
			}
			run.Count(fmt.Sprintf("c11:quiet_after_round_%02d", quietAt))
			if quietAt < 0 {
				l.fail("C11", "quiescence", "never-quiet", fmt.Sprintf("a healed fleet without stray replicas kept receiving requests for %d fault-free rounds", quietBound))
			}
		}
		for k, v := range l.stats {
			run.Add("req:"+k, v)
		}
		run.Nontrivial(fmt.Sprintf("%d", s))
		if s == 0 {
			run.Sample(l.opsLog[:6])
		}
	}
}
