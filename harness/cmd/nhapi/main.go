// nhapi: correspondence driver for M-NHAPI (nodehostapi.go). A real NodeHost
// hosting 1..4 shards of mixed state-machine types started in a chosen order,
// the real NodehostAPI on top of it: GetSession for hosted and non-hosted shard
// ids in random orders (session kind), Propose / Read through the facade
// compared with the local calls, session conversions, and the error table.
package main

import (
	"context"
	"errors"
	"flag"
	"fmt"
	"io"
	"math"
	"os"
	"sync/atomic"
	"time"

	"github.com/lni/dragonboat/v4"
	"github.com/lni/dragonboat/v4/client"
	"github.com/lni/dragonboat/v4/config"
	sm "github.com/lni/dragonboat/v4/statemachine"
	drummer "github.com/lni/drummer/v3"
	"github.com/lni/drummer/v3/kv"
	mr "github.com/lni/drummer/v3/multiraftpb"
	"github.com/lni/drummer/v3/tests"
	"google.golang.org/grpc/status"
	"verif/harness/internal/hx"
	"verif/harness/internal/nhx"
)

func ctx() context.Context {
	c, _ := context.WithTimeout(context.Background(), 10*time.Second)
	return c
}

var diskUsed map[uint64]bool

type beat struct {
	t    time.Time
	seq  int
	what string
	ops  []interface{}
}

var heartbeat atomic.Value

func main() {
	nhx.Quiet()
	seed := flag.Int64("seed", hx.Seed(), "PRNG seed")
	nseq := flag.Int("n", 12, "number of NodeHosts")
	out := flag.String("out", "", "output directory")
	flag.Parse()
	if *out == "" {
		hx.Die("need -out")
	}
	run := hx.NewRun(*out)

	heartbeat.Store(beat{time.Now(), -1, "start-up", nil})
	go func() {
		for {
			time.Sleep(time.Second)
			b := heartbeat.Load().(beat)
			if time.Since(b.t) > 45*time.Second {
				run.Violate(hx.Violation{Property: "C19", Clause: "facade_total", Signature: "facade-call-never-returns", Seq: b.seq,
					What: "a call through the NodeHost facade has not come back for 45 s (" + b.what + "): the local call it stands for answers at once", Ops: b.ops})
				os.Exit(3)
			}
		}
	}()
	defer run.Close()
	// the on-disk test state machine keeps its database under the working directory
	wd, _ := os.MkdirTemp("", "nhapi")
	os.Chdir(wd)
	defer os.RemoveAll(wd)
	// error table
	errs := []struct {
		name string
		err  error
	}{{"invalidSession", dragonboat.ErrInvalidSession}, {"payloadTooBig", dragonboat.ErrPayloadTooBig}, {"timeoutTooSmall", dragonboat.ErrTimeoutTooSmall},
		{"systemBusy", dragonboat.ErrSystemBusy}, {"closed", dragonboat.ErrClosed}, {"shardClosed", dragonboat.ErrShardClosed},
		{"shardNotFound", dragonboat.ErrShardNotFound}, {"ctxCanceled", context.Canceled}, {"canceled", dragonboat.ErrCanceled},
		{"ctxDeadline", context.DeadlineExceeded}, {"timeout", dragonboat.ErrTimeout}, {"other", errors.New("something else")},
		{"other", dragonboat.ErrShardNotReady}, {"other", dragonboat.ErrRejected}}
	for _, e := range errs {
		st, ok := status.FromError(drummer.GRPCError(e.err))
		code := "none"
		if ok {
			code = st.Code().String()
		}
		run.OpLine(map[string]string{"op": "err", "e": e.name})
		run.OutLine(code)
		run.Count("case:error_mapping")
		// theorem error_table restated on the implementation (written down here, not taken from the model)
		want := map[string]string{"invalidSession": "InvalidArgument", "payloadTooBig": "InvalidArgument", "timeoutTooSmall": "InvalidArgument",
			"systemBusy": "Unavailable", "closed": "Unavailable", "shardClosed": "Unavailable", "shardNotFound": "NotFound",
			"ctxCanceled": "Canceled", "canceled": "Canceled", "ctxDeadline": "DeadlineExceeded", "timeout": "DeadlineExceeded", "other": "Unknown"}[e.name]
		if code != want {
			run.Violate(hx.Violation{Property: "C19", Clause: "error_table", Signature: "error-code:" + e.name,
				What: fmt.Sprintf("error %q (%v) is mapped to status %s, the table says %s", e.name, e.err, code, want), Ops: []string{"GRPCError(" + e.name + ")"}})
		}
	}
	if drummer.GRPCError(nil) != nil {
		run.Violate(hx.Violation{Property: "C19", Clause: "error_table_total", Signature: "nil-error-mapped", What: "a nil error is mapped to a status"})
	}
	for s := 0; s < *nseq; s++ {
		r := hx.Rng(*seed, s)
		h := nhx.NewHost(2)
		nshards := 1 + r.Intn(4)
		if s == 0 {
			diskUsed = map[uint64]bool{}
		}
		type hosted struct {
			id  uint64
			typ int // 1 regular 2 concurrent 3 on-disk
		}
		hs := []hosted{}
		ids := r.Perm(6)
		for i := 0; i < nshards; i++ {
			hs = append(hs, hosted{uint64(1000*(s+1) + 10*(ids[i]+1)), 1 + r.Intn(3)}) // ids unique per NodeHost: the injected test file system is shared by the process
		}
		// ... except for in-memory machines: a few shard ids (0 and the largest among them) come back on later NodeHosts of
		// this process, with another in-memory type or not hosted at all, so that nothing learnt about one NodeHost may be
		// served to another
		shared := []uint64{0, 7, math.MaxUint64}
		for _, k := range r.Perm(len(shared))[:r.Intn(3)] {
			typ := 1 + r.Intn(2)
			if !diskUsed[shared[k]] && r.Intn(2) == 0 {
				// once per process and id also as an on-disk machine (its directory in the shared test file system is used once)
				typ = 3
				diskUsed[shared[k]] = true
			}
			hs = append(hs, hosted{shared[k], typ})
		}
		for _, x := range hs {
			cfg := config.Config{ReplicaID: 1, ShardID: x.id, ElectionRTT: 10, HeartbeatRTT: 1}
			var err error
			switch x.typ {
			case 1:
				err = h.NH.StartReplica(map[uint64]string{1: h.Addr}, false, func(c, n uint64) sm.IStateMachine {
					k := tests.NewKVTest(c, n).(*tests.KVTest)
					k.DisableLargeDelay()
					return k
				}, cfg)
			case 2:
				err = h.NH.StartConcurrentReplica(map[uint64]string{1: h.Addr}, false, tests.NewConcurrentKVTest, cfg)
			default:
				// with the dragonboat_monkeytest tag dragonboat injects its own test file system into the machine
				err = h.NH.StartOnDiskReplica(map[uint64]string{1: h.Addr}, false, tests.NewDiskKVTest, cfg)
			}
			if err != nil {
				hx.Die("start shard %d: %v", x.id, err)
			}
		}
		for _, x := range hs {
			for i := 0; i < 3000; i++ {
				if _, _, ok, err := h.NH.GetLeaderID(x.id); err == nil && ok {
					break
				}
				time.Sleep(3 * time.Millisecond)
			}
		}
		api := drummer.NewNodehostAPI(nhx.FreeAddr(), h.NH)
		pairs := [][]uint64{}
		for _, x := range hs {
			pairs = append(pairs, []uint64{x.id, uint64(x.typ)})
		}
		run.OpLine(map[string]interface{}{"op": "new", "hosted": pairs})
		run.OutLine("new")
		ops := []interface{}{map[string]interface{}{"op": "new", "hosted": pairs}}
		typeOf := map[uint64]int{}
		for _, x := range hs {
			typeOf[x.id] = x.typ
		}
		fail := func(clause, sig, what string) {
			run.Violate(hx.Violation{Property: "C19", Clause: clause, Signature: sig, What: what, Seq: s, Ops: append([]interface{}{}, ops...)})
		}
		var kept struct {
			propose *mr.RaftResponse
			result  uint64
		}
		for q := 0; q < 14; q++ {
			sid := uint64(1000*(s+1) + 10*(1+r.Intn(6)))
			if r.Intn(3) == 0 {
				sid = shared[r.Intn(len(shared))]
			}
			op := map[string]interface{}{"op": "get", "sid": sid}
			ops = append(ops, op)
			// every call of the facade comes back (with an answer or an error): the watchdog is told what is going on
			heartbeat.Store(beat{time.Now(), s, fmt.Sprintf("sequence %d, step %d: GetSession / Propose / Read / CloseSession for shard %d", s, q, sid), append([]interface{}{}, ops...)})
			var ps *mr.Session
			var err error
			crashed := func() (c bool) {
				defer func() {
					if r := recover(); r != nil {
						c = true
					}
				}()
				ps, err = api.GetSession(ctx(), &mr.SessionRequest{ShardId: sid})
				return false
			}()
			if crashed {
				err = errors.New("crashed")
				run.Count("c19:get_session_crashed")
			}
			res := "error"
			if err == nil {
				cs := drummer.ToNodeHostSession(ps)
				if cs.IsNoOPSession() {
					res = "noop"
				} else {
					res = "tracked"
				}
				// conversion round trip
				back := drummer.ToPBSession(cs)
				if back.ShardID != ps.ShardID || back.ClientID != ps.ClientID || back.SeriesID != ps.SeriesID || back.RespondedTo != ps.RespondedTo {
					fail("session_roundtrip", "session-conversion", "a session does not survive conversion to and from its wire form")
				}
			}
			run.OpLine(op)
			run.OutLine(res)
			run.Count("case:get_session")
			t, isHosted := typeOf[sid]
			want := "error"
			if isHosted {
				want = map[bool]string{true: "noop", false: "tracked"}[t == 3]
				run.Count("c19:hosted_query")
			} else {
				run.Count("c19:non_hosted_query")
			}
			if res != want {
				fail("session_kind", fmt.Sprintf("session-kind:%s-for-%s", res, map[int]string{0: "non-hosted", 1: "regular", 2: "concurrent", 3: "on-disk"}[t]),
					fmt.Sprintf("GetSession(%d) handed out %s, shard is %s, expected %s", sid, res, map[int]string{0: "not hosted", 1: "regular", 2: "concurrent", 3: "on-disk"}[t], want))
			}
			if isHosted && q%3 == 0 {
				// the same call with a context the local call refuses (no deadline): the facade has to hand back the local
				// error through the status-code table, whatever kind of session the shard gets
				_, lerr := h.NH.SyncGetSession(context.Background(), sid)
				var ferr error
				fc := func() (c bool) {
					defer func() {
						if r := recover(); r != nil {
							c = true
						}
					}()
					_, ferr = api.GetSession(context.Background(), &mr.SessionRequest{ShardId: sid})
					return false
				}()
				run.Count("c19:get_session_with_refused_context")
				switch {
				case fc:
					fail("every_error_mapped", "get-session-failure-crashes", fmt.Sprintf("GetSession(%d) with a context the NodeHost refuses (%v locally) crashed the facade instead of returning a status", sid, lerr))
				case t != 3 && lerr != nil && ferr == nil:
					fail("every_error_mapped", "get-session-failure-hidden", fmt.Sprintf("GetSession(%d): the local call fails with %v, the facade reports success", sid, lerr))
				case t != 3 && lerr != nil && status.Code(ferr) != status.Code(drummer.GRPCError(lerr)):
					fail("every_error_mapped", "get-session-failure-code", fmt.Sprintf("GetSession(%d): the local call fails with %v (status %s), the facade reports %s", sid, lerr, status.Code(drummer.GRPCError(lerr)), status.Code(ferr)))
				}
			}
			if !isHosted && q%2 == 0 {
				// Propose and Read for a shard this NodeHost does not host, with both kinds of session: whatever the local call
				// says goes through the status-code table
				cmd, _ := (&kv.KV{Key: "k", Val: "v"}).MarshalBinary()
				for _, ps := range []*mr.Session{
					{ShardID: sid, ClientID: 123456, SeriesID: client.SeriesIDFirstProposal, RespondedTo: 0},
					drummer.ToPBSession(h.NH.GetNoOPSession(sid))} {
					_, lerr := h.NH.SyncPropose(ctx(), drummer.ToNodeHostSession(ps), cmd)
					var ferr error
					fc := func() (c bool) {
						defer func() {
							if r := recover(); r != nil {
								c = true
							}
						}()
						_, ferr = api.Propose(ctx(), &mr.RaftProposal{Session: ps, Data: cmd})
						return false
					}()
					kind := map[bool]string{true: "noop", false: "tracked"}[drummer.ToNodeHostSession(ps).IsNoOPSession()]
					run.Count("c19:propose_on_non_hosted_" + kind)
					_, isStatus := status.FromError(ferr)
					switch {
					case fc:
						fail("every_error_mapped", "propose-failure-crashes", fmt.Sprintf("Propose(%d) with a %s session on a shard that is not hosted crashed the facade (the local call returns %v)", sid, kind, lerr))
					case lerr != nil && ferr == nil:
						fail("every_error_mapped", "propose-failure-hidden", fmt.Sprintf("Propose(%d) with a %s session: the local call fails with %v, the facade reports success", sid, kind, lerr))
					case lerr != nil && (!isStatus || status.Code(ferr) != status.Code(drummer.GRPCError(lerr))):
						fail("every_error_mapped", "propose-failure-code", fmt.Sprintf("Propose(%d) with a %s session: the local call fails with %v (status %s), the facade reports %v (a status: %v, code %s)", sid, kind, lerr, status.Code(drummer.GRPCError(lerr)), ferr, isStatus, status.Code(ferr)))
					}
				}
				_, lerr := h.NH.SyncRead(ctx(), sid, []byte("k"))
				_, ferr := api.Read(ctx(), &mr.RaftReadIndex{ShardId: sid, Data: []byte("k")})
				run.Count("c19:read_on_non_hosted")
				if _, isStatus := status.FromError(ferr); lerr != nil && (ferr == nil || !isStatus || status.Code(ferr) != status.Code(drummer.GRPCError(lerr))) {
					fail("every_error_mapped", "read-failure-code", fmt.Sprintf("Read(%d): the local call fails with %v (status %s), the facade reports %v", sid, lerr, status.Code(drummer.GRPCError(lerr)), ferr))
				}
			}
			if err == nil && isHosted {
				// the facade is transparent: propose and read through it, then read locally
				cmd, _ := (&kv.KV{Key: fmt.Sprintf("k%d", q), Val: fmt.Sprintf("v%d", q)}).MarshalBinary()
				sessBefore := [4]uint64{ps.ShardID, ps.ClientID, ps.SeriesID, ps.RespondedTo}
				resp, perr := api.Propose(ctx(), &mr.RaftProposal{Session: ps, Data: cmd})
				if perr != nil {
					run.Count("c19:inconclusive_propose")
				} else {
					// the local SyncPropose leaves the caller's session as it was (the caller completes the proposal itself):
					// so does the facade, field by field
					if after := [4]uint64{ps.ShardID, ps.ClientID, ps.SeriesID, ps.RespondedTo}; after != sessBefore {
						fail("facade_transparent", "session-changed-by-propose", fmt.Sprintf("Propose through the facade left the session as (shard, client, series, responded-to) = %v, it was %v and the local call leaves it untouched", after, sessBefore))
					}
					if resp.Result != uint64(len(cmd)) {
						fail("facade_transparent", "propose-result", "Propose through the facade returned another result than the state machine's")
					}
					// an answer belongs to its caller: a later call (a longer command, so another result; another read) does not
					// change what an earlier one returned - locally every call returns a value of its own
					if kept.propose != nil && kept.propose.Result != kept.result {
						fail("facade_transparent", "earlier-propose-answer-changed", fmt.Sprintf("the answer of an earlier Propose said result %d; after a later Propose through the facade the same answer says %d", kept.result, kept.propose.Result))
					}
					cmd2, _ := (&kv.KV{Key: fmt.Sprintf("k%d", q), Val: fmt.Sprintf("v%d-and-a-longer-value-%d", q, q)}).MarshalBinary()
					cs2 := drummer.ToNodeHostSession(ps)
					if res == "tracked" {
						func() {
							defer func() { recover() }()
							cs2.ProposalCompleted()
						}()
					}
					ps2 := drummer.ToPBSession(cs2)
					if resp2, perr2 := api.Propose(ctx(), &mr.RaftProposal{Session: ps2, Data: cmd2}); perr2 == nil {
						run.Count("c19:answer_kept_across_calls_checked")
						if resp.Result != uint64(len(cmd)) || resp2.Result != uint64(len(cmd2)) {
							fail("facade_transparent", "earlier-propose-answer-changed", fmt.Sprintf("Propose answered %d; after a second Propose (answer %d, want %d) the first answer says %d", len(cmd), resp2.Result, len(cmd2), resp.Result))
						}
						kept.propose, kept.result = resp2, resp2.Result
						ps = ps2
						// put the value the rest of the step expects back
						if res == "tracked" {
							cs3 := drummer.ToNodeHostSession(ps)
							func() {
								defer func() { recover() }()
								cs3.ProposalCompleted()
							}()
							ps = drummer.ToPBSession(cs3)
						}
						if _, perr3 := api.Propose(ctx(), &mr.RaftProposal{Session: ps, Data: cmd}); perr3 != nil {
							run.Count("c19:inconclusive_propose")
						}
					}
					rr, rerr := api.Read(ctx(), &mr.RaftReadIndex{ShardId: sid, Data: []byte(fmt.Sprintf("k%d", q))})
					local, lerr := h.NH.SyncRead(ctx(), sid, []byte(fmt.Sprintf("k%d", q)))
					if rerr == nil && lerr == nil && string(rr.Data) != string(local.([]byte)) {
						fail("facade_transparent", "read-differs", "Read through the facade differs from the local read")
					}
					if rerr == nil && string(rr.Data) != fmt.Sprintf("v%d", q) {
						fail("facade_transparent", "read-after-propose", "Read through the facade does not return the value proposed through it")
					}
					run.Count("c19:propose_read_checked")
				}
				if res == "tracked" {
					if perr == nil {
						// as a local caller would: the proposal is completed before the session is used again
						cs := drummer.ToNodeHostSession(ps)
						if func() (c bool) {
							defer func() {
								if r := recover(); r != nil {
									c = true
								}
							}()
							cs.ProposalCompleted()
							return false
						}() {
							fail("facade_transparent", "session-unusable-after-propose", "the session handed back by Propose through the facade cannot be completed (ProposalCompleted panics on it)")
							continue
						}
						ps = drummer.ToPBSession(cs)
					}
					cr, cerr := api.CloseSession(ctx(), ps)
					if cerr != nil || cr == nil || !cr.Completed {
						run.Count("c19:inconclusive_close")
					} else {
						// closing it a second time fails locally (the session is gone): the facade has to say so
						lerr := h.NH.SyncCloseSession(ctx(), drummer.ToNodeHostSession(ps))
						cr2, cerr2 := api.CloseSession(ctx(), ps)
						run.Count("c19:double_close_checked")
						if lerr != nil && (cerr2 == nil || (cr2 != nil && cr2.Completed)) {
							fail("every_error_mapped", "close-failure-hidden", fmt.Sprintf("closing a session that is already closed fails locally (%v), the facade answered completed=%v error=%v", lerr, cr2 != nil && cr2.Completed, cerr2))
						}
					}
				}
			}
		}
		// a state machine that answers with a value AND a payload, hosted next to the others; stopped and started again under
		// the same long-lived facade: Propose through the facade hands back what the local call hands back, before, while
		// and after
		{
			eid := uint64(1000*(s+1) + 99)
			ecfg := config.Config{ReplicaID: 1, ShardID: eid, ElectionRTT: 10, HeartbeatRTT: 1}
			start := func() error {
				return h.NH.StartReplica(map[uint64]string{1: h.Addr}, false, func(c, n uint64) sm.IStateMachine { return &echoSM{} }, ecfg)
			}
			waitLeader := func() {
				for i := 0; i < 3000; i++ {
					if _, _, ok, err := h.NH.GetLeaderID(eid); err == nil && ok {
						return
					}
					time.Sleep(3 * time.Millisecond)
				}
			}
			eops := append(append([]interface{}{}, ops[:1]...), map[string]interface{}{"op": "echo-shard", "sid": eid})
			efail := func(clause, sig, what string) {
				run.Violate(hx.Violation{Property: "C19", Clause: clause, Signature: sig, What: what, Seq: s, Ops: eops})
			}
			compare := func(phase string, cmd []byte) {
				heartbeat.Store(beat{time.Now(), s, fmt.Sprintf("sequence %d: Propose on the value-and-payload shard %d (%s)", s, eid, phase), eops})
				noop := h.NH.GetNoOPSession(eid)
				lres, lerr := h.NH.SyncPropose(ctx(), noop, cmd)
				var fres *mr.RaftResponse
				var ferr error
				if func() (c bool) {
					defer func() {
						if r := recover(); r != nil {
							c = true
						}
					}()
					fres, ferr = api.Propose(ctx(), &mr.RaftProposal{Session: drummer.ToPBSession(noop), Data: cmd})
					return false
				}() {
					efail("every_error_mapped", "propose-crashes", fmt.Sprintf("%s: Propose through the facade crashed; the local call returns (%v, %v)", phase, lres, lerr))
					return
				}
				run.Count("c19:value_and_payload_" + phase)
				switch {
				case lerr == nil && ferr != nil:
					efail("facade_transparent", "propose-fails-where-local-succeeds", fmt.Sprintf("%s: the local SyncPropose on shard %d succeeds (value %d), Propose through the facade fails: %v", phase, eid, lres.Value, ferr))
				case lerr != nil && ferr == nil:
					efail("every_error_mapped", "propose-failure-hidden", fmt.Sprintf("%s: the local SyncPropose fails with %v, the facade reports success", phase, lerr))
				case lerr == nil && fres.Result != lres.Value:
					// (the facade's answer carries the value; the payload of a result is not part of its wire contract. Which
					// error a stopped shard gives - not found or closed - depends on how far the NodeHost got with the stop, so
					// error codes are not compared here)
					efail("facade_transparent", "propose-result", fmt.Sprintf("%s: the state machine answered value %d (with a payload of %d bytes); Propose through the facade returned result %d", phase, lres.Value, len(lres.Data), fres.Result))
				}
			}
			if err := start(); err == nil {
				waitLeader()
				compare("running", []byte("first command"))
				compare("running", []byte{})
				if err := h.NH.StopShard(eid); err == nil {
					compare("stopped", []byte("while stopped"))
					// the stop completes in the background: starting the shard again is refused until it has
					var rerr error
					for i := 0; i < 400; i++ {
						if rerr = start(); rerr == nil {
							break
						}
						time.Sleep(10 * time.Millisecond)
					}
					if rerr == nil {
						waitLeader()
						compare("restarted", []byte("after the restart"))
						compare("restarted", []byte("and once more"))
					} else {
						run.Count("c19:inconclusive_restart")
					}
				}
			} else {
				run.Count("c19:inconclusive_echo_start")
			}
		}
		run.Nontrivial(fmt.Sprintf("%d", s))
		if s == 0 {
			run.Sample(ops[:min(len(ops), 6)])
		}
		api.Stop()
		h.Close()
	}
	_ = client.NoOPSeriesID
}

// echoSM answers every update with a value and a payload (all the state machines shipped in tests/ answer with a value only)
type echoSM struct{ n uint64 }

func (e *echoSM) Update(ent sm.Entry) (sm.Result, error) {
	e.n++
	return sm.Result{Value: uint64(len(ent.Cmd)) + 7, Data: append([]byte("echo:"), ent.Cmd...)}, nil
}
func (e *echoSM) Lookup(q interface{}) (interface{}, error) { return []byte{}, nil }
func (e *echoSM) SaveSnapshot(w io.Writer, fc sm.ISnapshotFileCollection, done <-chan struct{}) error {
	_, err := w.Write([]byte{byte(e.n)})
	return err
}
func (e *echoSM) RecoverFromSnapshot(r io.Reader, files []sm.SnapshotFile, done <-chan struct{}) error {
	b := make([]byte, 1)
	if _, err := io.ReadFull(r, b); err != nil {
		return err
	}
	e.n = uint64(b[0])
	return nil
}
func (e *echoSM) Close() error { return nil }

func min(a, b int) int {
	if a < b {
		return a
	}
	return b
}
