// porc: correspondence driver for M-WGL (lcm/porcupine). Runs the bundled
// linearizability checker on generated histories with a wrapped register model
// that logs every Step call, prints verdict + Step-call sequence for the diff
// against the Lean model of checkSingle, and evaluates the Go-side oracle of
// C06: the verdict equals a brute-force search for a legal total order that
// respects real time, does not depend on the numbering of the operations, and
// is the same on repeated runs.
package main

import (
	"encoding/json"
	"flag"
	"fmt"
	"math/rand"
	"strings"

	"github.com/lni/drummer/v3/lcm/porcupine"
	"verif/harness/internal/hx"
)

type op struct {
	Op  int  `json:"op"` // 0 read 1 write 2 cas
	A1  int  `json:"a1"`
	A2  int  `json:"a2"`
	OK  bool `json:"ok"`
	Ex  bool `json:"ex"`
	Val int  `json:"val"`
	Unk bool `json:"unk"`
}

type hist struct {
	Ops    []op    `json:"ops"`
	Events [][]int `json:"events"` // [kind(0 call,1 ret), op index, external id]
}

func gen(r *rand.Rand, maxOps int) hist {
	n := 1 + r.Intn(maxOps)
	procs := 1 + r.Intn(6)
	h := hist{}
	busy := map[int]int{}
	reg := -1
	have := false
	issued := 0
	faulty := r.Intn(3) == 0 // one history in three gets corrupted outcomes
	for issued < n || len(busy) > 0 {
		p := r.Intn(procs)
		if idx, ok := busy[p]; ok {
			// complete: consistent with a real register at completion time (hence linearizable) unless corrupted
			o := &h.Ops[idx]
			switch o.Op {
			case 0:
				o.Ex, o.Val = have, reg
				if !have {
					o.Val = 0
				}
			case 1:
				reg, have = o.A1, true
			case 2:
				if have && reg == o.A1 {
					reg = o.A2
					o.OK = true
				}
			}
			if r.Intn(8) == 0 {
				o.Unk = true
			}
			if faulty && r.Intn(4) == 0 {
				switch o.Op {
				case 0:
					o.Ex = !o.Ex
					o.Val = r.Intn(3)
				case 2:
					o.OK = !o.OK
				}
			}
			h.Events = append(h.Events, []int{1, idx, 0})
			delete(busy, p)
		} else if issued < n {
			o := op{Op: r.Intn(3), A1: r.Intn(3), A2: r.Intn(3)}
			h.Ops = append(h.Ops, o)
			busy[p] = len(h.Ops) - 1
			h.Events = append(h.Events, []int{0, len(h.Ops) - 1, 0})
			issued++
		}
	}
	perm := r.Perm(len(h.Ops) + 5)
	for i := range h.Events {
		h.Events[i][2] = perm[h.Events[i][1]]
	}
	return h
}

func events(h hist, renum func(int) int) []porcupine.Event {
	evs := []porcupine.Event{}
	for _, e := range h.Events {
		o := h.Ops[e[1]]
		if e[0] == 0 {
			evs = append(evs, porcupine.VerifCall(uint(renum(e[2])), uint8(o.Op), o.A1, o.A2))
		} else {
			evs = append(evs, porcupine.VerifReturn(uint(renum(e[2])), o.OK, o.Ex, o.Val, o.Unk))
		}
	}
	return evs
}

// brute force: is there a total order of the operations that contains a before
// b whenever a's return precedes b's call, and along which the register model
// accepts every step? (the real Step function is the register semantics)
func bruteForce(h hist) bool {
	n := len(h.Ops)
	callAt, retAt := make([]int, n), make([]int, n)
	for i, e := range h.Events {
		if e[0] == 0 {
			callAt[e[1]] = i
		} else {
			retAt[e[1]] = i
		}
	}
	// the register semantics of the property, independent of the bundled model's Step function: the register holds
	// nothing or a value; a read is accepted iff it reports the content (or its outcome is unknown); a write always
	// applies; a compare-and-swap applies iff the register holds the expected value - whether or not its outcome is
	// known - and is accepted iff the reported success matches (or its outcome is unknown)
	const none = -1000000
	step := func(st int, o op) (bool, int) {
		switch o.Op {
		case 0:
			return (!o.Ex && st == none) || (o.Ex && st == o.Val) || o.Unk, st
		case 1:
			return true, o.A1
		default:
			ns := st
			if o.A1 == st {
				ns = o.A2
			}
			return (o.A1 == st && o.OK) || (o.A1 != st && !o.OK) || o.Unk, ns
		}
	}
	used := make([]bool, n)
	var rec func(st int, k int) bool
	rec = func(st int, k int) bool {
		if k == n {
			return true
		}
		for i := 0; i < n; i++ {
			if used[i] {
				continue
			}
			// i may come next only if no unused operation returned before i was called
			okNext := true
			for j := 0; j < n; j++ {
				if !used[j] && j != i && retAt[j] < callAt[i] {
					okNext = false
					break
				}
			}
			if !okNext {
				continue
			}
			ok, ns := step(st, h.Ops[i])
			if !ok {
				continue
			}
			used[i] = true
			if rec(ns, k+1) {
				used[i] = false
				return true
			}
			used[i] = false
		}
		return false
	}
	return rec(none, 0)
}

var run *hx.Run
var caseNo int

func check(h hist, r *rand.Rand) {
	line, _ := json.Marshal(h)
	run.Ops.Write(line)
	run.Ops.WriteByte('\n')
	m := porcupine.GetEtcdModel()
	orig := m.Step
	var trace strings.Builder
	steps := 0
	m.Step = func(st, in, outp interface{}) (bool, interface{}) {
		ok, ns := orig(st, in, outp)
		fmt.Fprintf(&trace, "%v%+v%+v>%v%v;", st, in, outp, ok, ns)
		steps++
		return ok, ns
	}
	v := porcupine.CheckEvents(m, events(h, func(x int) int { return x }))
	run.OutLine(fmt.Sprintf("%v %s", v, trace.String()))
	run.Count(fmt.Sprintf("case:ops%d", len(h.Ops)))
	run.Add("c06:step_calls", steps)
	if v {
		run.Count("c06:linearizable")
	} else {
		run.Count("c06:not_linearizable")
	}
	unk := false
	for _, o := range h.Ops {
		unk = unk || o.Unk
	}
	if unk {
		run.Count("c06:has_unknown_outcome")
	}
	fail := func(clause, sig, what string) {
		run.Violate(hx.Violation{Property: "C06", Clause: clause, Signature: sig, What: what, Seq: caseNo, Ops: h})
	}
	if len(h.Ops) <= 9 {
		if b := bruteForce(h); b != v {
			fail("check_exact", map[bool]string{true: "false-negative", false: "false-positive"}[b], fmt.Sprintf("checker says %v, a brute-force search over all real-time-respecting orders says %v", v, b))
		}
		run.Count("c06:brute_force_compared")
	}
	// numbering: any injective renumbering gives the same verdict
	k := 7 + r.Intn(1000)
	if v2 := porcupine.CheckEvents(porcupine.GetEtcdModel(), events(h, func(x int) int { return x*3 + k })); v2 != v {
		fail("verdict_renaming_invariant", "numbering-dependent", fmt.Sprintf("verdict %v, after renumbering the operations %v", v, v2))
	}
	// scheduling of the checker's goroutine: repeated runs agree
	for i := 0; i < 2; i++ {
		if v3 := porcupine.CheckEvents(porcupine.GetEtcdModel(), events(h, func(x int) int { return x })); v3 != v {
			fail("verdict_deterministic", "run-dependent", fmt.Sprintf("verdict %v, on a repeated run %v", v, v3))
		}
	}
	if len(h.Ops) >= 2 {
		run.Nontrivial(string(line))
	}
	if caseNo%997 == 0 {
		run.Sample(h)
	}
	caseNo++
}

// all well-formed interleavings of n operations (calls in index order)
func interleavings(n int) [][][2]int {
	var res [][][2]int
	var rec func(cur [][2]int, called int, open []int)
	rec = func(cur [][2]int, called int, open []int) {
		if called == n && len(open) == 0 {
			res = append(res, append([][2]int{}, cur...))
			return
		}
		if called < n {
			rec(append(cur, [2]int{0, called}), called+1, append(append([]int{}, open...), called))
		}
		for i, o := range open {
			rest := append(append([]int{}, open[:i]...), open[i+1:]...)
			rec(append(cur, [2]int{1, o}), called, rest)
		}
	}
	rec(nil, 0, nil)
	return res
}

func allOps() []op {
	var l []op
	for _, o := range []op{{Op: 0}, {Op: 0, Ex: true, Val: 0}, {Op: 0, Ex: true, Val: 1}, {Op: 0, Unk: true}} {
		l = append(l, o)
	}
	for v := 0; v < 2; v++ {
		l = append(l, op{Op: 1, A1: v}, op{Op: 1, A1: v, Unk: true})
	}
	for a := 0; a < 2; a++ {
		for b := 0; b < 2; b++ {
			l = append(l, op{Op: 2, A1: a, A2: b, OK: true}, op{Op: 2, A1: a, A2: b}, op{Op: 2, A1: a, A2: b, Unk: true})
		}
	}
	return l
}

func main() {
	seed := flag.Int64("seed", hx.Seed(), "PRNG seed")
	n := flag.Int("n", 1500, "random histories")
	maxOps := flag.Int("maxops", 12, "operations per random history")
	exh := flag.Int("exhaustive", 2, "enumerate every history with up to this many operations")
	out := flag.String("out", "", "output directory")
	flag.Parse()
	if *out == "" {
		hx.Die("need -out")
	}
	run = hx.NewRun(*out)
	defer run.Close()
	r := hx.Rng(*seed, 0)
	ops := allOps()
	count := 0
	for k := 1; k <= *exh; k++ {
		for _, il := range interleavings(k) {
			idx := make([]int, k)
			for {
				h := hist{}
				for i := 0; i < k; i++ {
					h.Ops = append(h.Ops, ops[idx[i]])
				}
				for _, e := range il {
					h.Events = append(h.Events, []int{e[0], e[1], e[1] + 1})
				}
				check(h, r)
				count++
				j := 0
				for ; j < k; j++ {
					idx[j]++
					if idx[j] < len(ops) {
						break
					}
					idx[j] = 0
				}
				if j == k {
					break
				}
			}
		}
	}
	run.Extra["exhaustive_histories"] = count
	run.Extra["exhaustive_max_ops"] = *exh
	for i := 0; i < *n; i++ {
		check(gen(r, *maxOps), r)
	}
}
