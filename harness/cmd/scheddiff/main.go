// scheddiff: correspondence driver for M-SCHED. Runs command sequences on the
// real Drummer DB and, at random points, the real scheduler (launch() or
// Drummer.maintainShards(), through the verif hook) on the context the DB
// answers; prints requests for the diff against the Lean driver (the Go map
// iteration orders and the random draws are handed to the model as inputs) and
// evaluates the Go-side oracles of C02 / C08 / C11 / C12.
package main

import (
	"encoding/hex"
	"flag"
	"fmt"
	"math/rand"
	"os"
	"sort"
	"strings"

	"github.com/lni/dragonboat/v4"
	"github.com/lni/dragonboat/v4/config"
	"github.com/lni/dragonboat/v4/logger"
	drummer "github.com/lni/drummer/v3"
	pb "github.com/lni/drummer/v3/drummerpb"
	"google.golang.org/protobuf/proto"
	"verif/harness/internal/dbx"
	"verif/harness/internal/hx"
	"verif/harness/internal/schedx"
)

// requests built from a Go map (membership lists of join / restore requests)
// are compared up to the order of that map
func pbReqStr(r *pb.NodeHostRequest) string {
	ids := append([]uint64{}, r.ReplicaIdList...)
	addrs := append([]string{}, r.AddressList...)
	members := append([]uint64{}, r.Change.Members...)
	if r.Change.Type == pb.Request_CREATE && (r.Join || r.Restore) && len(ids) == len(addrs) {
		idx := make([]int, len(ids))
		for i := range idx {
			idx[i] = i
		}
		sort.Slice(idx, func(a, b int) bool { return ids[idx[a]] < ids[idx[b]] })
		nids := []uint64{}
		naddrs := []string{}
		for _, i := range idx {
			nids = append(nids, ids[i])
			naddrs = append(naddrs, addrs[i])
		}
		ids, addrs = nids, naddrs
		sort.Slice(members, func(a, b int) bool { return members[a] < members[b] })
	}
	f := func(l []uint64) string {
		p := []string{}
		for _, x := range l {
			p = append(p, fmt.Sprint(x))
		}
		return "[" + strings.Join(p, ",") + "]"
	}
	return fmt.Sprintf("{%d:%d:%s:%d:%s:[%s]:%d:%s:%v:%v:%s}", int(r.Change.Type), r.Change.ShardId, f(members), r.Change.ConfChangeId,
		f(ids), strings.Join(addrs, ","), r.InstantiateReplicaId, r.RaftAddress, r.Join, r.Restore, r.AppName)
}

func regionsOp(regs []string, counts []uint64, absent bool) dbx.Op {
	pr := &pb.Regions{Region: regs, Count: counts}
	raw, _ := proto.Marshal(pr)
	return dbx.Op{Op: "regions", Hex: hex.EncodeToString(raw), Regs: regs, Counts: counts}
}

// launchScenario: definitions, a region specification from the full matrix, a
// fleet of 0..8 hosts reporting from three regions (some of them silent for
// longer than the timeout afterwards), then launch attempts.
func launchScenario(r *rand.Rand) []dbx.Op {
	ops := []dbx.Op{}
	nsh := 1 + r.Intn(6)
	size := 1 + r.Intn(5)
	for s := 1; s <= nsh; s++ {
		nm := size
		if r.Intn(30) == 0 {
			nm = 1 + r.Intn(5)
		}
		members := []uint64{}
		for i := 0; i < nm; i++ {
			members = append(members, uint64(100*s+i+1))
		}
		ops = append(ops, dbx.Op{Op: "shard", ID: uint64(s), Members: members, App: "app"})
	}
	regs := []string{"reg0", "reg1", "reg2"}[:1+r.Intn(3)]
	counts := make([]uint64, len(regs))
	left := size
	for i := range counts {
		c := r.Intn(left + 1)
		if i == len(counts)-1 {
			c = left
		}
		counts[i] = uint64(c)
		left -= c
	}
	switch r.Intn(24) {
	case 0:
		counts = counts[:len(counts)-1] // shorter
	case 1:
		counts = append(counts, uint64(r.Intn(2))) // longer (the surplus count may be 0: the sums still add up, the lists do not match)
	case 2:
		counts[0]++ // over-subscribed
	case 3:
		if counts[0] > 0 {
			counts[0]-- // under-subscribed
		}
	case 4:
		regs = append(regs, regs[0]) // duplicate region
		counts = append(counts, 1)
		if counts[0] > 0 {
			counts[0]--
		}
	case 5:
		regs[len(regs)-1] = "nowhere"
	case 6:
		counts[0] = 1 << 63
	case 7:
		// counts that wrap around when added up (or turn negative as int): the sum is "right", the specification is not
		regs = []string{"reg0", "reg1", "reg2"}
		counts = []uint64{1<<64 - 1, 1, uint64(size)}
	case 8:
		regs = []string{"reg0", "reg1", "reg2"}
		counts = []uint64{1 << 63, 1 << 63, uint64(size)}
	case 9, 10:
		// a region whose name is the empty string is a region like any other: no NodeHost is in it here, so its quota cannot
		// be filled (from hosts of other regions least of all)
		regs[0] = ""
		if counts[0] == 0 {
			counts[0] = 1
		}
	}
	if r.Intn(10) != 0 {
		ops = append(ops, regionsOp(regs, counts, false))
	}
	// the fleet: per region about as many hosts as its quota asks for (sometimes one short, sometimes a few more),
	// or a completely random fleet of 0..8 hosts
	late := []dbx.Op{}
	h := 0
	addHost := func(reg string) {
		h++
		a := fmt.Sprintf("a%d", h)
		rep := dbx.Op{Op: "report", Addr: a, RPC: "rpc-" + a, Region: reg}
		if r.Intn(14) == 0 {
			rep.IDs = []uint64{uint64(1 + r.Intn(nsh))} // already hosts one of the shards
		}
		if r.Intn(9) == 0 {
			ops = append(ops, rep) // reports early, possibly stale by the time of the launch
		} else {
			late = append(late, rep)
		}
	}
	if r.Intn(4) == 0 {
		for i := r.Intn(9); i > 0; i-- {
			addHost([]string{"reg0", "reg1", "reg2"}[r.Intn(3)])
		}
	} else {
		for i, reg := range regs {
			n := 0
			if i < len(counts) && counts[i] < 6 {
				n = int(counts[i])
			}
			switch r.Intn(12) {
			case 0:
				n--
			case 1, 2, 3, 4, 5:
				n += r.Intn(3)
			}
			for ; n > 0 && h < 8; n-- {
				addHost(reg)
			}
		}
	}
	for i := 0; i < r.Intn(15); i++ {
		ops = append(ops, dbx.Op{Op: "tick"})
	}
	ops = append(ops, late...)
	for i := 0; i < r.Intn(4); i++ {
		ops = append(ops, dbx.Op{Op: "tick"})
	}
	ops = append(ops, dbx.Op{Op: "sched", Mode: "launch"})
	if r.Intn(3) == 0 {
		for i := 0; i < 10+r.Intn(4); i++ {
			ops = append(ops, dbx.Op{Op: "tick"})
		}
		ops = append(ops, dbx.Op{Op: "sched", Mode: "launch"})
	}
	if r.Intn(3) == 0 && h > 0 {
		// another planning round by the same leader after the fleet has changed without changing size: hosts report
		// again from another region, or now host (a pending replica of) one of the shards, or fell silent meanwhile
		for k := 1 + r.Intn(3); k > 0; k-- {
			a := fmt.Sprintf("a%d", 1+r.Intn(h))
			rep := dbx.Op{Op: "report", Addr: a, RPC: "rpc-" + a, Region: []string{"reg0", "reg1", "reg2"}[r.Intn(3)]}
			if r.Intn(2) == 0 {
				rep.IDs = []uint64{uint64(1 + r.Intn(nsh))}
			}
			ops = append(ops, rep)
		}
		if r.Intn(3) == 0 {
			for i := 0; i < 13; i++ {
				ops = append(ops, dbx.Op{Op: "tick"})
			}
			a := fmt.Sprintf("a%d", 1+r.Intn(h))
			ops = append(ops, dbx.Op{Op: "report", Addr: a, RPC: "rpc-" + a, Region: "reg0"})
		}
		ops = append(ops, dbx.Op{Op: "sched", Mode: "launch"})
	}
	return ops
}

// repairScenario builds views member by member: every member of 1..4 shards of
// up to 5 members is given a class (healthy / failed after a silence / failed
// because never seen / waiting to be started), its host a liveness and a
// persisted-log record or none; then maintenance rounds are run.
func repairScenario(r *rand.Rand) []dbx.Op {
	ops := []dbx.Op{}
	nhosts := 4 + r.Intn(4)
	addrs := []string{}
	for h := 1; h <= nhosts; h++ {
		addrs = append(addrs, fmt.Sprintf("a%d", h))
	}
	nsh := 1 + r.Intn(4)
	type mem struct {
		id        uint64
		addr      string
		class     int // 0 healthy 1 failed-stale 2 failed-never 3 waiting
		live, log bool
	}
	type sh struct {
		id      uint64
		early   bool
		members []mem
		ver     uint64
	}
	shards := []sh{}
	for s := 1; s <= nsh; s++ {
		k := 1 + r.Intn(5)
		if k > nhosts {
			k = nhosts
		}
		c := sh{id: uint64(s), early: r.Intn(3) == 0, ver: uint64(1 + r.Intn(3))}
		perm := r.Perm(nhosts)
		profile := []int{0, 0, 0, 1, 2}[r.Intn(5)] // bias: mostly healthy / mostly failed / mixed
		for i := 0; i < k; i++ {
			m := mem{id: uint64(100*s + i + 1), addr: addrs[perm[i]], live: r.Intn(4) != 0, log: r.Intn(2) != 0}
			x := r.Intn(10)
			switch profile {
			case 0:
				if x < 7 {
					m.class = 0
				} else {
					m.class = 1 + r.Intn(3)
				}
			case 1:
				if x < 6 {
					m.class = 1
				} else {
					m.class = r.Intn(4)
				}
			default:
				m.class = r.Intn(4)
			}
			if m.class == 2 && !c.early {
				m.class = 1
			}
			if m.class == 3 && c.early {
				m.class = 2
			}
			if m.class == 0 {
				m.live = true
			}
			if m.class == 1 && profile == 0 && r.Intn(3) != 0 {
				// a failed member that cannot be restored: the shard needs a membership change
				if r.Intn(2) == 0 {
					m.log = false
				} else {
					m.live = false
				}
			}
			c.members = append(c.members, m)
		}
		size := k
		switch r.Intn(6) {
		case 0:
			if size > 1 {
				size-- // a surplus member: deletion becomes possible
			}
		case 1:
			size++
		}
		defMembers := []uint64{}
		for i := 0; i < size; i++ {
			defMembers = append(defMembers, uint64(100*s+i+1))
		}
		if r.Intn(60) != 0 {
			ops = append(ops, dbx.Op{Op: "shard", ID: c.id, Members: defMembers, App: fmt.Sprintf("app%d", s%2)})
		}
		shards = append(shards, c)
	}
	if r.Intn(3) != 0 {
		ops = append(ops, regionsOp([]string{"reg0", "reg1"}, []uint64{1, 2}, false))
	}
	region := func(a string) string { return "reg" + string(a[1]%2+'0') }
	reps := func(c sh) [][]interface{} {
		out := [][]interface{}{}
		for _, m := range c.members {
			out = append(out, []interface{}{m.id, m.addr})
		}
		return out
	}
	creation := func(c sh) dbx.Op {
		// the membership first becomes known through a host that runs a non-member replica of the shard, so that no
		// member is stamped by the creating report
		return dbx.Op{Op: "report", Addr: "seed", RPC: "rpc-seed", Region: "reg0", IDs: []uint64{c.id},
			Infos: []dbx.Info{{S: c.id, R: 9999, Cci: c.ver, Reps: reps(c)}}}
	}
	for _, c := range shards {
		if c.early {
			ops = append(ops, creation(c))
		}
	}
	for i := 0; i < 1+r.Intn(3); i++ {
		ops = append(ops, dbx.Op{Op: "tick"})
	}
	for _, c := range shards {
		if !c.early {
			ops = append(ops, creation(c))
		}
	}
	hostReport := func(a string, listAll bool, classes map[int]bool, withLog bool) dbx.Op {
		op := dbx.Op{Op: "report", Addr: a, RPC: "rpc-" + a, Region: region(a)}
		for _, c := range shards {
			for _, m := range c.members {
				if m.addr != a {
					continue
				}
				if m.log && withLog {
					op.Plog = append(op.Plog, []uint64{c.id, m.id})
				}
				if !classes[m.class] {
					continue
				}
				op.IDs = append(op.IDs, c.id)
				in := dbx.Info{S: c.id, R: m.id, Cci: c.ver, Leader: r.Intn(4) == 0}
				switch r.Intn(4) {
				case 0:
					in.Inc = true
				default:
					in.Reps = reps(c)
				}
				op.Infos = append(op.Infos, in)
			}
		}
		if withLog {
			op.PlogInc = true
			if r.Intn(8) == 0 {
				op.Plog = append(op.Plog, []uint64{1, 777}) // a record for a replica nobody knows
			}
		}
		return op
	}
	// first own reports: healthy members and those that will go stale
	for _, a := range addrs {
		ops = append(ops, hostReport(a, true, map[int]bool{0: true, 1: true}, r.Intn(2) == 0))
	}
	// a silence longer than the timeout
	n := 13 + r.Intn(3)
	switch r.Intn(6) {
	case 0:
		n = 11 + r.Intn(2) // not long enough: nobody fails
	case 1:
		n = r.Intn(6) // the round is planned within the first minute of logical time: only members that were announced at time 0 and never reported are failed, and the hosts that have just reported are as live as they get
	}
	for i := 0; i < n; i++ {
		ops = append(ops, dbx.Op{Op: "tick"})
	}
	// second reports: live hosts report their healthy replicas (and their log records)
	liveHost := map[string]bool{}
	for _, c := range shards {
		for _, m := range c.members {
			if m.live {
				liveHost[m.addr] = true
			}
		}
	}
	for _, a := range addrs {
		hosted := false
		for _, c := range shards {
			for _, m := range c.members {
				hosted = hosted || m.addr == a
			}
		}
		if liveHost[a] || (!hosted && r.Intn(4) != 0) {
			op := hostReport(a, false, map[int]bool{0: true}, true)
			// stray replicas: the host also runs a replica of a shard it hosts no member of, with a membership older than the
			// view's (also for shards that are about to be restored or repaired)
			for _, c := range shards {
				mine := false
				for _, m := range c.members {
					mine = mine || m.addr == a
				}
				if !mine && c.ver > 0 && r.Intn(3) == 0 {
					in := dbx.Info{S: c.id, R: uint64(8000 + 10*int(c.id) + int(a[1]-'0')), Cci: c.ver - 1, Inc: r.Intn(2) == 0}
					if !in.Inc {
						in.Reps = [][]interface{}{{in.R, a}}
					}
					op.IDs = append(op.IDs, c.id)
					op.Infos = append(op.Infos, in)
				}
			}
			ops = append(ops, op)
		}
	}
	for i := 0; i < r.Intn(3); i++ {
		ops = append(ops, dbx.Op{Op: "tick"})
	}
	ops = append(ops, dbx.Op{Op: "sched", Mode: "maintain"})
	switch r.Intn(3) {
	case 0:
		for i := 0; i < 1+r.Intn(13); i++ {
			ops = append(ops, dbx.Op{Op: "tick"})
		}
		ops = append(ops, dbx.Op{Op: "sched", Mode: "maintain"})
	case 1:
		// the next round at the same logical time (the leader's tick proposals failed in between), after silent members
		// have come back: what it decides is justified by the views as they are now
		for _, a := range addrs {
			if r.Intn(3) != 0 {
				ops = append(ops, hostReport(a, true, map[int]bool{0: true, 1: true}, r.Intn(2) == 0))
			}
		}
		ops = append(ops, dbx.Op{Op: "sched", Mode: "maintain"})
	}
	return ops
}

func main() {
	for _, n := range []string{"drummer", "raft", "rsm", "transport", "dragonboat", "logdb", "config", "grpc"} {
		logger.GetLogger(n).SetLevel(logger.CRITICAL)
	}
	seed := flag.Int64("seed", hx.Seed(), "PRNG seed")
	n := flag.Int("n", 100, "number of sequences")
	maxLen := flag.Int("len", 120, "maximal sequence length")
	profile := flag.String("profile", "general", "generator profile (general | launch | repair)")
	out := flag.String("out", "", "output directory")
	flag.Parse()
	if *out == "" {
		hx.Die("need -out")
	}
	// Drummer.maintainShards logs d.nh.RaftAddress(): the hook's Drummer owns one real, shard-less NodeHost
	dir, _ := os.MkdirTemp("", "scheddiff")
	defer os.RemoveAll(dir)
	nh, err := dragonboat.NewNodeHost(config.NodeHostConfig{WALDir: dir, NodeHostDir: dir, RTTMillisecond: 50,
		RaftAddress: fmt.Sprintf("127.0.0.1:%d", 26000+os.Getpid()%3000), Expert: config.ExpertConfig{LogDB: config.GetTinyMemLogDBConfig()}})
	if err != nil {
		hx.Die("nodehost: %v", err)
	}
	defer nh.Close()
	run := hx.NewRun(*out)
	defer run.Close()
	for s := 0; s < *n; s++ {
		r := hx.Rng(*seed, s)
		var sched *drummer.VerifScheduler
		g := dbx.NewGen(r, map[string]string{"general": "general", "launch": "c09", "repair": "c05"}[*profile])
		if *profile != "general" {
			g.Malformed = false
		}
		db := drummer.NewDB(0, 1)
		run.OpLine(dbx.Op{Op: "new"})
		run.OutLine("new")
		length := 20 + r.Intn(*maxLen)
		prelude := []dbx.Op{}
		if r.Intn(8) != 0 {
			for _, sid := range g.Shards {
				if r.Intn(10) != 0 {
					nm := 3
					if r.Intn(4) == 0 {
						nm = 1 + r.Intn(5)
					}
					members := []uint64{}
					for i := 0; i < nm; i++ {
						members = append(members, uint64(100*int(sid)+i+1))
					}
					prelude = append(prelude, dbx.Op{Op: "shard", ID: sid, Members: members, App: "app"})
				}
			}
		}
		if r.Intn(6) != 0 {
			regs := []string{"reg0", "reg1"}
			counts := []uint64{uint64(r.Intn(3)), uint64(r.Intn(3))}
			switch r.Intn(9) {
			case 0, 1, 2:
				counts = []uint64{1, 2}
			case 7:
				regs = []string{"", "reg1"} // a region with the empty name is a region like any other (no NodeHost is in it here)
				counts = []uint64{1 + uint64(r.Intn(2)), 1}
			case 3:
				counts = counts[:1] // count list shorter than region list
			case 4:
				counts = append(counts, uint64(r.Intn(2))) // longer, the surplus possibly 0
			case 5:
				regs = []string{"reg0", "reg0"} // duplicate region
				counts = []uint64{1, 2}
			case 6:
				regs = []string{"reg0", "nowhere"} // unknown region
			}
			if r.Intn(40) == 0 {
				counts[0] = 1 << 63 // negative once converted to int
			}
			prelude = append(prelude, regionsOp(regs, counts, false))
		}
		dead := map[string]int{}
		for _, a := range g.Addrs {
			if r.Intn(3) == 0 {
				dead[a] = 10 + r.Intn(length)
			}
		}
		var script []dbx.Op
		if *profile == "launch" && r.Intn(5) != 0 {
			script = launchScenario(r)
			length = len(script)
		} else if *profile == "repair" && r.Intn(5) != 0 {
			script = repairScenario(r)
			length = len(script)
		}
		done := []dbx.Op{}
		var orc *dbx.Oracle
		var pre *dbx.Dump
		launchOdds := 6
		if *profile == "launch" {
			launchOdds = 1
		}
		for i := 0; i < length; i++ {
			var op dbx.Op
			if script != nil {
				op = script[i]
			} else if i < len(prelude) {
				op = prelude[i]
			}
			if script != nil && op.Op != "sched" {
				// scripted command
			} else if script == nil && i < len(prelude) {
				// prelude command
			} else if script != nil || r.Intn(100) < 12 || (*profile == "launch" && i < len(prelude)+12 && r.Intn(3) == 0) {
				mode := "maintain"
				if r.Intn(launchOdds) == 0 {
					mode = "launch"
				}
				if script != nil {
					mode = op.Mode
				}
				draws := []uint64{}
				for k := 0; k < 80; k++ {
					d := uint64(r.Intn(1000))
					if r.Intn(300) != 0 {
						d++ // a zero draw (replacement id 0) is rare, as in F-C02
					}
					draws = append(draws, d)
				}
				if r.Intn(6) == 0 {
					// an unlucky random source: runs of draws that are no good as a replica id (zero, or the id of a current member
					// of one of the shards) with a usable one only every fifth draw - whatever the planner needs a fresh id for, it
					// has to keep drawing until it gets one
					sh := uint64(1 + r.Intn(4))
					for k := range draws {
						switch k % 5 {
						case 0, 1:
							draws[k] = 0
						case 2:
							draws[k] = 100*sh + 1 + uint64(r.Intn(3))
						case 3:
							draws[k] = 100*sh + 1 + uint64(r.Intn(3))
						default:
							draws[k] = 9000 + uint64(r.Intn(900))
						}
					}
				}
				ctx, cp := dbx.LookupContext(db)
				if cp || ctx == nil {
					hx.Die("scheduler context lookup failed")
				}
				if sched == nil || r.Intn(12) == 0 {
					sched = drummer.VerifNewScheduler() // a new leader; otherwise the scheduler object lives on across rounds
				}
				res := sched.Schedule(nh, ctx, draws, mode)
				op = dbx.Op{Op: "sched", Mode: mode, Draws: draws, ShardsO: res.ShardsOrder, HostsO: res.HostsOrder}
				for _, cr := range res.Repairs {
					op.Repairs = append(op.Repairs, dbx.RepairOrder{S: cr.ShardID, F: cr.Failed, O: cr.OK, W: cr.ToStart})
				}
				run.OpLine(op)
				done = append(done, op)
				exhausted := strings.Contains(res.Panic, "random draws exhausted")
				j := &schedx.Judge{Run: run, Seq: s, Idx: i, Ops: append([]dbx.Op{}, done...), ConsistentHistory: script != nil, Draws: draws}
				c := schedx.ParseContext(ctx)
				if mode == "launch" {
					j.Launch(c, &res, exhausted)
				} else {
					j.Maintain(c, &res, exhausted, draws)
				}
				var b strings.Builder
				switch {
				case exhausted:
					b.WriteString("sched " + mode + " panic")
				case res.Panic != "":
					b.WriteString("sched " + mode + " panic")
					run.Count("op_sched:" + mode + ":panic")
				case res.Err != "":
					b.WriteString("sched " + mode + " error")
					run.Count("op_sched:" + mode + ":error")
				default:
					fmt.Fprintf(&b, "sched %s used=%d reqs=[", mode, res.DrawsUsed)
					for _, rq := range res.Requests {
						b.WriteString(pbReqStr(rq) + ",")
						run.Count("req:" + rq.Change.Type.String() + map[bool]string{true: ":restore", false: ""}[rq.Restore] + map[bool]string{true: ":join", false: ""}[rq.Join])
					}
					b.WriteString("]")
					run.Count("op_sched:" + mode + ":ok")
					if len(res.Requests) > 0 {
						run.Nontrivial(fmt.Sprintf("%d/%d", s, i))
					}
				}
				run.OutLine(b.String())
				continue
			} else {
				op = g.Next()
				if op.Op == "snap" {
					op = dbx.Op{Op: "tick"}
				}
				if op.Op == "kv" && op.Key == "regions-key" {
					op.Key = "k2" // the regions record is written by the regions op only (as SetRegions does)
				}
				if op.Op == "report" {
					if at, ok := dead[op.Addr]; ok && i > at {
						op = dbx.Op{Op: "tick"}
					}
				}
			}
			run.OpLine(op)
			done = append(done, op)
			if orc == nil {
				// the DB-level oracles run here too: what the scheduler decides on is what the history of reports dictates
				// (a member it removes as silent really is silent, not merely recorded so)
				orc = dbx.NewOracle(run, s)
				orc.Also = map[string][]string{"liveness-record": {"C02", "C12"}, "first-observed": {"C02"}, "view-members": {"C02", "C12"}, "view-version": {"C02"}}
				pre = dbx.TakeDump(db)
			}
			res := dbx.Apply(db, op.ToUpdate())
			run.Count(op.Op + ":" + map[bool]string{true: "panic", false: "ok"}[res == "panic"])
			if res == "panic" {
				run.OutLine("panic")
				break
			}
			post := dbx.TakeDump(db)
			if op.Op == "tick" || op.Op == "report" || op.Op == "shard" || op.Op == "reqs" {
				orc.Ops = done
				orc.Observe(i, op, res, pre, post, db)
			}
			pre = post
			run.OutLine(res + " " + post.Canon())
		}
		if len(done) > 6 {
			run.Sample(done[len(done)-3:])
		}
	}
}
