module verif/harness

go 1.14

require (
	github.com/lni/dragonboat/v4 v4.0.0-20230917160253-d9f49378cd2d
	github.com/lni/drummer/v3 v3.0.0
	github.com/lni/goutils v1.3.1-0.20230922113924-384b59002dd4
	github.com/lni/vfs v0.2.1-0.20220616104132-8852fd867376
	github.com/cockroachdb/pebble v0.0.0-20221207173255-0f086d933dac
	google.golang.org/grpc v1.38.0
	google.golang.org/protobuf v1.26.0
)

replace github.com/lni/drummer/v3 => /repo
