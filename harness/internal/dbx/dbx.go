// Package dbx drives the real Drummer DB (drummer.NewDB) with line-protocol
// operations, prints canonical state dumps and evaluates the Go-side oracles of
// the DB-level properties on the implementation's observed states.
package dbx

import (
	"bytes"
	"encoding/hex"
	"encoding/json"
	"fmt"
	"sort"
	"strings"

	sm "github.com/lni/dragonboat/v4/statemachine"
	drummer "github.com/lni/drummer/v3"
	pb "github.com/lni/drummer/v3/drummerpb"
	"verif/harness/internal/hx"
	"google.golang.org/protobuf/proto"
)

// ---------------------------------------------------------------- operations

type Info struct {
	S      uint64          `json:"s"`
	R      uint64          `json:"r"`
	Leader bool            `json:"leader"`
	Cci    uint64          `json:"cci"`
	Inc    bool            `json:"inc"`
	Pend   bool            `json:"pend"`
	Reps   [][]interface{} `json:"reps,omitempty"` // [[id, addr], ...] in a fixed order
}

type Req struct {
	T       string   `json:"t"` // create delete add kill
	S       uint64   `json:"s"`
	Members []uint64 `json:"members"`
	Ccid    uint64   `json:"ccid"`
	IDs     []uint64 `json:"ids"`
	Addrs   []string `json:"addrs"`
	Inst    uint64   `json:"inst"`
	Addr    string   `json:"addr"`
	Join    bool     `json:"join"`
	Restore bool     `json:"restore"`
	App     string   `json:"app"`
}

type Op struct {
	Op string `json:"op"` // new tick shard kv report reqs snap states
	// shard
	ID      uint64   `json:"id,omitempty"`
	Members []uint64 `json:"members,omitempty"`
	App     string   `json:"app,omitempty"`
	// kv
	Key   string `json:"key,omitempty"`
	Value string `json:"value,omitempty"`
	Inst  uint64 `json:"inst,omitempty"`
	Old   uint64 `json:"old,omitempty"`
	Tick  uint64 `json:"tick,omitempty"`
	Fin   bool   `json:"fin,omitempty"`
	// report
	Addr    string     `json:"addr,omitempty"`
	RPC     string     `json:"rpc,omitempty"`
	Region  string     `json:"region,omitempty"`
	PlogInc bool       `json:"plog_inc,omitempty"`
	Plog    [][]uint64 `json:"plog,omitempty"`
	IDs     []uint64   `json:"ids,omitempty"`
	Infos   []Info     `json:"infos,omitempty"`
	LT      uint64     `json:"lt,omitempty"` // LastTick as sent by the client: the DB stamps its own tick, whatever the message says
	// reqs
	Reqs []Req `json:"reqs,omitempty"`
	// regions (scheddiff): the protobuf-encoded pb.Regions written under regions-key
	Hex    string   `json:"hex,omitempty"`
	Regs   []string `json:"regs,omitempty"`
	Counts []uint64 `json:"counts,omitempty"`
	// sched (scheddiff): one scheduling call on the current context
	Mode    string        `json:"mode,omitempty"`
	Draws   []uint64      `json:"draws,omitempty"`
	ShardsO []uint64      `json:"shards,omitempty"`
	HostsO  []string      `json:"hosts,omitempty"`
	Repairs []RepairOrder `json:"repairs,omitempty"`
}

// RepairOrder is the classification of one shard in the scheduler's own
// iteration order (Go map order is an explicit input of the model).
type RepairOrder struct {
	S uint64   `json:"s"`
	F []uint64 `json:"f"`
	O []uint64 `json:"o"`
	W []uint64 `json:"w"`
}

func repID(p []interface{}) uint64 {
	switch x := p[0].(type) {
	case uint64:
		return x
	case int:
		return uint64(x)
	case float64:
		return uint64(x)
	case json.Number:
		n, _ := x.Int64()
		return uint64(n)
	}
	panic(fmt.Sprintf("repID %T", p[0]))
}
func repAddr(p []interface{}) string { return p[1].(string) }

// RepsMap is the membership carried by a report entry.
func (in *Info) RepsMap() map[uint64]string {
	m := map[uint64]string{}
	for _, p := range in.Reps {
		m[repID(p)] = repAddr(p)
	}
	return m
}

var reqTypes = map[string]pb.Request_Type{"create": pb.Request_CREATE, "delete": pb.Request_DELETE, "add": pb.Request_ADD, "kill": pb.Request_KILL}

func (rq *Req) PB() *pb.NodeHostRequest {
	return &pb.NodeHostRequest{
		Change:        &pb.Request{Type: reqTypes[rq.T], ShardId: rq.S, Members: rq.Members, ConfChangeId: rq.Ccid},
		ReplicaIdList: rq.IDs, AddressList: rq.Addrs, InstantiateReplicaId: rq.Inst,
		RaftAddress: rq.Addr, Join: rq.Join, Restore: rq.Restore, AppName: rq.App}
}

func (rq *Req) IsLaunch() bool { return rq.T == "create" && !rq.Join && !rq.Restore }

// ToUpdate builds the protobuf command the real DB receives.
func (op *Op) ToUpdate() *pb.Update {
	switch op.Op {
	case "tick":
		return &pb.Update{Type: pb.Update_TICK}
	case "shard":
		return &pb.Update{Type: pb.Update_SHARD, Change: &pb.Change{Type: pb.Change_CREATE, ShardId: op.ID, Members: op.Members, AppName: op.App}}
	case "kv":
		return &pb.Update{Type: pb.Update_KV, KvUpdate: &pb.KV{Key: []byte(op.Key), Value: []byte(op.Value), InstanceId: op.Inst, OldInstanceId: op.Old, Tick: op.Tick, Finalized: op.Fin}}
	case "report":
		nhi := &pb.NodeHostInfo{RaftAddress: op.Addr, RPCAddress: op.RPC, Region: op.Region, PlogInfoIncluded: op.PlogInc, ShardIdList: op.IDs, LastTick: op.LT}
		for _, p := range op.Plog {
			nhi.PlogInfo = append(nhi.PlogInfo, &pb.LogInfo{ShardId: p[0], ReplicaId: p[1]})
		}
		for i := range op.Infos {
			in := &op.Infos[i]
			si := &pb.ShardInfo{ShardId: in.S, ReplicaId: in.R, IsLeader: in.Leader, Incomplete: in.Inc, Pending: in.Pend, ConfigChangeIndex: in.Cci}
			if in.Reps != nil {
				si.Replicas = in.RepsMap()
			}
			nhi.ShardInfo = append(nhi.ShardInfo, si)
		}
		return &pb.Update{Type: pb.Update_NODEHOST_INFO, NodehostInfo: nhi}
	case "regions":
		raw, err := hex.DecodeString(op.Hex)
		if err != nil {
			panic(err)
		}
		return &pb.Update{Type: pb.Update_KV, KvUpdate: &pb.KV{Key: []byte("regions-key"), Value: raw, Finalized: true}}
	case "reqs":
		col := &pb.NodeHostRequestCollection{}
		for i := range op.Reqs {
			col.Requests = append(col.Requests, op.Reqs[i].PB())
		}
		return &pb.Update{Type: pb.Update_REQUESTS, Requests: col}
	}
	panic("unknown op " + op.Op)
}

// Apply runs one command on the real DB; a Go panic becomes the result "panic".
func Apply(db sm.IStateMachine, u *pb.Update) (res string) {
	defer func() {
		if r := recover(); r != nil {
			res = "panic"
		}
	}()
	data, err := proto.Marshal(u)
	if err != nil {
		panic(err)
	}
	r, _ := db.Update(sm.Entry{Cmd: data})
	return fmt.Sprint(r.Value)
}

// ---------------------------------------------------------------- state dump

type DReplica struct {
	ShardID       uint64
	ReplicaID     uint64
	Address       string
	IsLeader      bool
	Tick          uint64
	FirstObserved uint64
}
type DShard struct {
	ShardID           uint64
	ConfigChangeIndex uint64
	Replicas          map[uint64]*DReplica
}
type DKill struct {
	ShardID   uint64
	ReplicaID uint64
	Address   string
}
type DHost struct {
	Address       string
	RPCAddress    string
	Region        string
	Tick          uint64
	PersistentLog []*pb.LogInfo
	Shards        map[uint64]struct{}
}
type Dump struct {
	Version        uint64
	Tick           uint64
	LaunchDeadline uint64
	Failed         bool
	Shards         map[uint64]*pb.Shard
	KVMap          map[string][]byte
	ShardImage     struct {
		Shards         map[uint64]*DShard
		ReplicasToKill []DKill
	}
	NodeHostImage struct {
		Nodehosts map[string]*DHost
	}
	NodeHostInfo map[string]*pb.NodeHostInfo
	Requests     map[string][]*pb.NodeHostRequest
	Outgoing     map[string][]*pb.NodeHostRequest
}

// TakeDump serialises the real DB exactly as SaveSnapshot does (json.Marshal of
// the exported fields) and decodes it into typed form.
func TakeDump(db sm.IStateMachine) *Dump {
	data, err := json.Marshal(db)
	if err != nil {
		panic(err)
	}
	var d Dump
	if err := json.Unmarshal(data, &d); err != nil {
		panic(err)
	}
	return &d
}

func u64s(l []uint64) string {
	parts := make([]string, len(l))
	for i, x := range l {
		parts[i] = fmt.Sprint(x)
	}
	return "[" + strings.Join(parts, ",") + "]"
}
func strl(l []string) string { return "[" + strings.Join(l, ",") + "]" }

func ReqStr(r *pb.NodeHostRequest) string {
	ch := r.Change
	if ch == nil {
		ch = &pb.Request{}
	}
	return fmt.Sprintf("{%d:%d:%s:%d:%s:%s:%d:%s:%v:%v:%s}", int(ch.Type), ch.ShardId, u64s(ch.Members), ch.ConfChangeId,
		u64s(r.ReplicaIdList), strl(r.AddressList), r.InstantiateReplicaId, r.RaftAddress, r.Join, r.Restore, r.AppName)
}

func sortedU(m interface{}) []uint64 {
	var ks []uint64
	switch x := m.(type) {
	case map[uint64]*pb.Shard:
		for k := range x {
			ks = append(ks, k)
		}
	case map[uint64]*DShard:
		for k := range x {
			ks = append(ks, k)
		}
	case map[uint64]*DReplica:
		for k := range x {
			ks = append(ks, k)
		}
	case map[uint64]struct{}:
		for k := range x {
			ks = append(ks, k)
		}
	default:
		panic("sortedU")
	}
	sort.Slice(ks, func(i, j int) bool { return ks[i] < ks[j] })
	return ks
}

func sortedS(n int, each func(func(string))) []string {
	ks := make([]string, 0, n)
	each(func(k string) { ks = append(ks, k) })
	sort.Strings(ks)
	return ks
}

// Canon prints the canonical one-line form compared with the Lean driver's:
// maps sorted by key, the replicated slices (kill list, queues, log info) in
// their stored order.
func (d *Dump) Canon() string {
	var b strings.Builder
	fmt.Fprintf(&b, "T=%d;D=%d;F=%v;", d.Tick, d.LaunchDeadline, d.Failed)
	b.WriteString("defs=[")
	for _, k := range sortedU(d.Shards) {
		c := d.Shards[k]
		fmt.Fprintf(&b, "%d:%s:%s,", c.ShardId, u64s(c.Members), c.AppName)
	}
	b.WriteString("];kv=[")
	for _, k := range sortedS(len(d.KVMap), func(f func(string)) {
		for k := range d.KVMap {
			f(k)
		}
	}) {
		var rec pb.KV
		if err := proto.Unmarshal(d.KVMap[k], &rec); err != nil {
			panic(err)
		}
		val := string(rec.Value)
		if string(rec.Key) == "regions-key" {
			val = hex.EncodeToString(rec.Value) // protobuf bytes
		}
		fmt.Fprintf(&b, "%s:%s:%d:%d:%d:%v,", string(rec.Key), val, rec.InstanceId, rec.Tick, rec.OldInstanceId, rec.Finalized)
	}
	b.WriteString("];img=[")
	for _, k := range sortedU(d.ShardImage.Shards) {
		c := d.ShardImage.Shards[k]
		fmt.Fprintf(&b, "%d:%d:[", c.ShardID, c.ConfigChangeIndex)
		for _, rk := range sortedU(c.Replicas) {
			r := c.Replicas[rk]
			fmt.Fprintf(&b, "%d@%s:%v:%d:%d,", r.ReplicaID, r.Address, r.IsLeader, r.Tick, r.FirstObserved)
		}
		b.WriteString("],")
	}
	b.WriteString("];kill=[")
	for _, e := range d.ShardImage.ReplicasToKill {
		fmt.Fprintf(&b, "(%d,%d,%s),", e.ShardID, e.ReplicaID, e.Address)
	}
	b.WriteString("];hosts=[")
	for _, k := range sortedS(len(d.NodeHostImage.Nodehosts), func(f func(string)) {
		for k := range d.NodeHostImage.Nodehosts {
			f(k)
		}
	}) {
		h := d.NodeHostImage.Nodehosts[k]
		fmt.Fprintf(&b, "%s:%s:%s:%d:[", h.Address, h.RPCAddress, h.Region, h.Tick)
		for _, e := range h.PersistentLog {
			fmt.Fprintf(&b, "(%d,%d),", e.ShardId, e.ReplicaId)
		}
		b.WriteString("]:[")
		for _, sk := range sortedU(h.Shards) {
			fmt.Fprintf(&b, "%d,", sk)
		}
		b.WriteString("],")
	}
	for i, m := range []map[string][]*pb.NodeHostRequest{d.Requests, d.Outgoing} {
		fmt.Fprintf(&b, "];%s=[", []string{"Requests", "Outgoing"}[i])
		for _, k := range sortedS(len(m), func(f func(string)) {
			for k := range m {
				f(k)
			}
		}) {
			fmt.Fprintf(&b, "%s:[", k)
			for _, x := range m[k] {
				b.WriteString(ReqStr(x) + ",")
			}
			b.WriteString("],")
		}
	}
	b.WriteString("];info=[")
	for _, k := range sortedS(len(d.NodeHostInfo), func(f func(string)) {
		for k := range d.NodeHostInfo {
			f(k)
		}
	}) {
		fmt.Fprintf(&b, "%s:%d,", k, d.NodeHostInfo[k].LastTick)
	}
	b.WriteString("]")
	return b.String()
}

// ---------------------------------------------------------------- queries

func lookup(db sm.IStateMachine, req *pb.LookupRequest) (out []byte, panicked bool) {
	defer func() {
		if r := recover(); r != nil {
			panicked = true
		}
	}()
	data, err := proto.Marshal(req)
	if err != nil {
		panic(err)
	}
	v, _ := db.Lookup(data)
	if v == nil {
		return nil, false
	}
	return v.([]byte), false
}

// LookupRequests is the REQUESTS query the service issues after a report.
func LookupRequests(db sm.IStateMachine, addr string) ([]*pb.NodeHostRequest, bool) {
	data, p := lookup(db, &pb.LookupRequest{Type: pb.LookupRequest_REQUESTS, Address: addr})
	if p {
		return nil, true
	}
	var resp pb.LookupResponse
	if err := proto.Unmarshal(data, &resp); err != nil {
		panic(err)
	}
	if resp.Requests == nil {
		return nil, false
	}
	return resp.Requests.Requests, false
}

// LookupStates is the SHARD_STATES query: availability per shard as the
// service would answer it (nil when any listed shard is unknown).
func LookupStates(db sm.IStateMachine, ids []uint64) ([]*pb.ShardState, bool) {
	data, p := lookup(db, &pb.LookupRequest{Type: pb.LookupRequest_SHARD_STATES, Stats: &pb.ShardStateRequest{ShardIdList: ids}})
	if p {
		return nil, true
	}
	if data == nil {
		return nil, false
	}
	var c pb.ShardStates
	if err := proto.Unmarshal(data, &c); err != nil {
		panic(err)
	}
	return c.Collection, false
}

func LookupShards(db sm.IStateMachine) ([]*pb.Shard, bool) {
	data, p := lookup(db, &pb.LookupRequest{Type: pb.LookupRequest_SHARD})
	if p {
		return nil, true
	}
	var resp pb.LookupResponse
	if err := proto.Unmarshal(data, &resp); err != nil {
		panic(err)
	}
	return resp.Shards, false
}

func LookupKV(db sm.IStateMachine, key string) (*pb.KV, bool) {
	data, p := lookup(db, &pb.LookupRequest{Type: pb.LookupRequest_KV, KvLookup: &pb.KV{Key: []byte(key)}})
	if p {
		return nil, true
	}
	var resp pb.LookupResponse
	if err := proto.Unmarshal(data, &resp); err != nil {
		panic(err)
	}
	return resp.KvResult, false
}

func LookupContext(db sm.IStateMachine) ([]byte, bool) {
	return lookup(db, &pb.LookupRequest{Type: pb.LookupRequest_SCHEDULER_CONTEXT})
}

// LookupAll answers every kind of query the DB serves, canonically (context as served: it is JSON with sorted map keys;
// shard definitions sorted by id; one state line per known shard; KV for the given keys; pending batch per address).
func LookupAll(db sm.IStateMachine, d *Dump, keys []string, addrs []string) (out string, panicked bool) {
	defer func() {
		if r := recover(); r != nil {
			panicked = true
		}
	}()
	var sb strings.Builder
	ctx, p := LookupContext(db)
	if p {
		return "", true
	}
	sb.WriteString("ctx=" + string(ctx))
	shards, p := LookupShards(db)
	if p {
		return "", true
	}
	sort.Slice(shards, func(i, j int) bool { return shards[i].ShardId < shards[j].ShardId })
	for _, c := range shards {
		sb.WriteString(fmt.Sprintf(";def %d %v %s", c.ShardId, c.Members, c.AppName))
	}
	sb.WriteString(";" + StatesLine(db, d))
	for _, k := range keys {
		kv, p := LookupKV(db, k)
		if p {
			return "", true
		}
		if kv == nil {
			sb.WriteString(fmt.Sprintf(";kv %q=nil", k))
		} else {
			sb.WriteString(fmt.Sprintf(";kv %q=%q:%q:%d:%d:%d:%v", k, kv.Key, kv.Value, kv.InstanceId, kv.Tick, kv.OldInstanceId, kv.Finalized))
		}
	}
	for _, a := range addrs {
		rs, p := LookupRequests(db, a)
		if p {
			return "", true
		}
		sb.WriteString(";req " + a + "=")
		for _, r := range rs {
			sb.WriteString(ReqStr(r))
		}
	}
	return sb.String(), false
}

// Hash returns the state hash (the DB implements IHash).
func Hash(db sm.IStateMachine) (h uint64, panicked bool) {
	defer func() {
		if r := recover(); r != nil {
			panicked = true
		}
	}()
	v, err := db.(interface{ GetHash() (uint64, error) }).GetHash()
	if err != nil {
		panic(err)
	}
	return v, false
}

// Snapshot saves the DB; panicked reports a fail-stopped DB.
func Snapshot(db sm.IStateMachine) (data []byte, panicked bool) {
	defer func() {
		if r := recover(); r != nil {
			panicked = true
		}
	}()
	var buf bytes.Buffer
	if err := db.SaveSnapshot(&buf, nil, nil); err != nil {
		panic(err)
	}
	return buf.Bytes(), false
}

// Restore installs a snapshot into a fresh replica.
func Restore(data []byte) (db sm.IStateMachine, panicked bool) {
	defer func() {
		if r := recover(); r != nil {
			panicked = true
		}
	}()
	n := drummer.NewDB(0, 2)
	if err := n.RecoverFromSnapshot(hx.NewShortReader(data), nil, nil); err != nil {
		panic(err)
	}
	return n, false
}

// RestoreInto installs a snapshot into an existing (possibly lagging) replica, as dragonboat does when a replica
// falls behind: RecoverFromSnapshot is called on the live instance.
func RestoreInto(db sm.IStateMachine, data []byte) (panicked bool) {
	defer func() {
		if r := recover(); r != nil {
			panicked = true
		}
	}()
	if err := db.RecoverFromSnapshot(hx.NewShortReader(data), nil, nil); err != nil {
		panic(err)
	}
	return false
}

// StatesLine is the canonical answer to the "states" op: availability of every
// shard in the view, sorted by id.
func StatesLine(db sm.IStateMachine, d *Dump) string {
	var b strings.Builder
	b.WriteString("states ")
	for _, k := range sortedU(d.ShardImage.Shards) {
		st, p := LookupStates(db, []uint64{k})
		if p {
			b.WriteString("panic")
			break
		}
		if len(st) != 1 {
			fmt.Fprintf(&b, "%d:?,", k)
			continue
		}
		fmt.Fprintf(&b, "%d:%v:%d,", k, st[0].State == pb.ShardState_OK, st[0].LeaderReplicaId)
	}
	return b.String()
}
