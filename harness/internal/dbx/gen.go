package dbx

import (
	"math/rand"
	"sort"
	"strconv"
)

// Gen produces mostly-valid command sequences for the Drummer DB: reports are
// drawn from a random linear membership history per shard (each replica may
// report any version it could have seen, stale, duplicated, reordered, partial
// or pending); a separate malformed stream violates that consistency and the
// argument checks.
type Gen struct {
	R         *rand.Rand
	Addrs     []string
	Shards    []uint64
	Hist      map[uint64][]Membership
	Malformed bool
	Profile   string
	queue     []Op
	lastRep   map[string]Op // the previous report of each address
}

type Membership struct {
	Ver  uint64
	Reps map[uint64]string
}

func NewGen(r *rand.Rand, profile string) *Gen {
	g := &Gen{R: r, Profile: profile, Hist: map[uint64][]Membership{}}
	g.Addrs = []string{"a1", "a2", "a3", "a4", "a5", "a6"}[:2+r.Intn(5)]
	g.Shards = []uint64{1, 2, 3}[:1+r.Intn(3)]
	g.Malformed = r.Intn(5) == 0
	if profile == "c09" || profile == "c05" || profile == "c11" {
		g.Malformed = false
		if len(g.Addrs) < 3 {
			g.Addrs = []string{"a1", "a2", "a3"}
		}
	}
	return g
}

func copyMap(m map[uint64]string) map[uint64]string {
	c := map[uint64]string{}
	for k, v := range m {
		c[k] = v
	}
	return c
}

func sortedIDs(m map[uint64]string) []uint64 {
	ks := make([]uint64, 0, len(m))
	for k := range m {
		ks = append(ks, k)
	}
	sort.Slice(ks, func(i, j int) bool { return ks[i] < ks[j] })
	return ks
}

// membership returns (building it on first use) the linear membership history
// of shard s: 1..4 versions, each differing from the previous one by one
// removal or one addition on an unused host, ids never reused.
func (g *Gen) membership(s uint64) []Membership {
	if h, ok := g.Hist[s]; ok {
		return h
	}
	n := 1 + g.R.Intn(4)
	reps := map[uint64]string{}
	perm := g.R.Perm(len(g.Addrs))
	for i := 0; i < 3 && i < len(perm); i++ {
		reps[uint64(100*int(s)+i+1)] = g.Addrs[perm[i]]
	}
	ver := uint64(1 + g.R.Intn(3))
	h := []Membership{{ver, copyMap(reps)}}
	next := 4
	for v := 1; v < n; v++ {
		ver += uint64(1 + g.R.Intn(5))
		if g.R.Intn(2) == 0 && len(reps) > 1 {
			ids := sortedIDs(reps)
			delete(reps, ids[g.R.Intn(len(ids))])
		} else {
			used := map[string]bool{}
			for _, a := range reps {
				used[a] = true
			}
			for _, a := range g.Addrs {
				if !used[a] {
					reps[uint64(100*int(s)+next)] = a
					next++
					break
				}
			}
		}
		h = append(h, Membership{ver, copyMap(reps)})
	}
	g.Hist[s] = h
	return h
}

func (g *Gen) pick(w map[string]int) string {
	keys := make([]string, 0, len(w))
	tot := 0
	for k, v := range w {
		keys = append(keys, k)
		tot += v
	}
	sort.Strings(keys)
	x := g.R.Intn(tot)
	for _, k := range keys {
		if x < w[k] {
			return k
		}
		x -= w[k]
	}
	return keys[0]
}

var weights = map[string]map[string]int{
	"general": {"tick": 20, "shard": 5, "kv": 13, "report": 40, "reqs": 18, "snap": 2, "burst": 2},
	"c03":     {"tick": 15, "shard": 6, "kv": 14, "report": 40, "reqs": 17, "snap": 7, "burst": 1},
	"c04":     {"tick": 15, "shard": 1, "kv": 1, "report": 75, "reqs": 4, "snap": 2, "burst": 2},
	"c05":     {"tick": 25, "shard": 1, "kv": 1, "report": 55, "reqs": 2, "snap": 1, "burst": 15},
	"c09":     {"tick": 25, "shard": 4, "kv": 3, "report": 40, "reqs": 18, "snap": 4, "burst": 6},
	"c10":     {"tick": 5, "shard": 1, "kv": 2, "report": 40, "reqs": 50, "snap": 2, "burst": 0},
	"c11":     {"tick": 12, "shard": 1, "kv": 1, "report": 78, "reqs": 4, "snap": 2, "burst": 2},
	"c13":     {"tick": 3, "shard": 25, "kv": 60, "report": 2, "reqs": 4, "snap": 6, "burst": 0},
}

// Next returns the next operation of the sequence.
func (g *Gen) Next() Op {
	if len(g.queue) > 0 {
		op := g.queue[0]
		g.queue = g.queue[1:]
		return op
	}
	w, ok := weights[g.Profile]
	if !ok {
		w = weights["general"]
	}
	switch g.pick(w) {
	case "tick":
		return Op{Op: "tick"}
	case "burst":
		// a silence of about one failure timeout (12 ticks of 5 = TTL 60): one
		// step shorter, exact, one step longer
		n := 10 + g.R.Intn(4)
		if g.Profile == "c09" {
			n = 20 + g.R.Intn(6) // around the launch deadline of 24 ticks
		}
		for i := 1; i < n; i++ {
			g.queue = append(g.queue, Op{Op: "tick"})
		}
		return Op{Op: "tick"}
	case "shard":
		return g.shardOp()
	case "kv":
		return g.kvOp()
	case "report":
		return g.reportOp()
	case "snap":
		return Op{Op: "snap"}
	default:
		return g.reqsOp()
	}
}

func (g *Gen) shardOp() Op {
	s := g.Shards[g.R.Intn(len(g.Shards))]
	if g.Profile == "c13" {
		s = uint64(1 + g.R.Intn(4))
	}
	members := []uint64{}
	for i := 0; i < 1+g.R.Intn(3); i++ {
		members = append(members, uint64(100*int(s)+i+1))
	}
	if g.R.Intn(3) == 0 {
		// member lists are kept as submitted: not every client sends them in ascending order
		g.R.Shuffle(len(members), func(i, j int) { members[i], members[j] = members[j], members[i] })
	}
	app := "app"
	if g.R.Intn(3) == 0 {
		app = "app" + strconv.Itoa(g.R.Intn(2))
	}
	if g.Malformed && g.R.Intn(4) == 0 {
		members = nil
	}
	if g.Malformed && g.R.Intn(4) == 0 {
		app = ""
	}
	return Op{Op: "shard", ID: s, Members: members, App: app}
}

var kvKeys = []string{"k1", "k2", "election-key", "launched-flag", "bootstrapped-flag", "regions-key", "deployment-id"}

func (g *Gen) kvOp() Op {
	val := "v" + strconv.Itoa(g.R.Intn(3))
	key := kvKeys[g.R.Intn(len(kvKeys))]
	if g.Profile == "c09" || g.Profile == "c10" {
		// leave the launched flag to the launch batches
		key = []string{"k1", "election-key", "regions-key"}[g.R.Intn(3)]
	}
	if g.Malformed && g.R.Intn(5) == 0 {
		val = ""
	}
	if g.Malformed && g.R.Intn(8) == 0 {
		key = ""
	}
	return Op{Op: "kv", Key: key, Value: val, Inst: uint64(g.R.Intn(3)), Old: uint64(g.R.Intn(3)), Tick: uint64(g.R.Intn(5)), Fin: g.R.Intn(3) == 0}
}

func (g *Gen) reportOp() Op {
	op := g.freshReportOp()
	if g.lastRep == nil {
		g.lastRep = map[string]Op{}
	}
	// a host in steady state sends the same shard details cycle after cycle: one report in six repeats the shard part of
	// the sender's previous report verbatim (whatever Drummer has learnt from other hosts in between)
	if prev, ok := g.lastRep[op.Addr]; ok && g.R.Intn(6) == 0 {
		op.Infos = append([]Info{}, prev.Infos...)
		op.IDs = append([]uint64{}, prev.IDs...)
	}
	g.lastRep[op.Addr] = op
	return op
}

func (g *Gen) freshReportOp() Op {
	addr := g.Addrs[g.R.Intn(len(g.Addrs))]
	infos := []Info{}
	ids := []uint64{}
	for _, s := range g.Shards {
		skip := 2
		if g.Profile == "c05" || g.Profile == "c09" {
			skip = 6
		}
		if g.R.Intn(skip) == 0 {
			continue
		}
		h := g.membership(s)
		vi := g.R.Intn(len(h))
		if (g.Profile == "c05" || g.Profile == "c09") && g.R.Intn(4) != 0 {
			vi = len(h) - 1
		}
		m := h[vi]
		var rid uint64
		for _, k := range sortedIDs(m.Reps) {
			if m.Reps[k] == addr {
				rid = k
			}
		}
		if rid == 0 {
			odds := 3 // one report in three of a non-member host carries a stray replica
			if g.Profile == "c11" {
				odds = 2
			}
			if g.R.Intn(odds) != 0 {
				continue
			}
			// a stray replica: not a member in this version (maybe a member of another one)
			rid = uint64(100*int(s) + 1 + g.R.Intn(7))
			if a, ok := m.Reps[rid]; ok && a != addr {
				continue
			}
			if g.R.Intn(6) == 0 {
				// replacement members get full 64-bit random ids: a stray replica can carry one (beyond 2^53, where a float64
				// no longer holds every integer)
				rid = 1<<63 + 1<<53 + uint64(100*int(s)+1+g.R.Intn(7))
			}
		}
		ids = append(ids, s)
		info := Info{S: s, R: rid, Leader: g.R.Intn(4) == 0, Cci: m.Ver}
		y := g.R.Intn(10)
		if y < 2 {
			info.Pend = true
			info.Cci = 0
		} else if y < 4 {
			info.Inc = true
			if g.R.Intn(3) == 0 {
				// a careless client: flagged incomplete, yet a member list is attached (any list: the entry must be treated as
				// incomplete whatever it carries)
				junk := [][]interface{}{}
				for _, k := range sortedIDs(m.Reps) {
					if g.R.Intn(3) != 0 {
						junk = append(junk, []interface{}{k, m.Reps[k]})
					}
				}
				junk = append(junk, []interface{}{uint64(100*int(s) + 9), addr})
				info.Reps = junk
			}
		} else {
			reps := [][]interface{}{}
			ks := sortedIDs(m.Reps)
			g.R.Shuffle(len(ks), func(i, j int) { ks[i], ks[j] = ks[j], ks[i] })
			for _, k := range ks {
				reps = append(reps, []interface{}{k, m.Reps[k]})
			}
			if g.Malformed && g.R.Intn(3) == 0 && len(reps) > 0 {
				if g.R.Intn(2) == 0 {
					reps = reps[1:]
				} else {
					reps[0][1] = g.Addrs[g.R.Intn(len(g.Addrs))]
				}
			}
			info.Reps = reps
		}
		infos = append(infos, info)
	}
	if g.R.Intn(12) == 0 {
		// a host may list a shard id without details, or details without listing
		if len(ids) > 0 && g.R.Intn(2) == 0 {
			ids = ids[1:]
		} else {
			ids = append(ids, g.Shards[g.R.Intn(len(g.Shards))])
		}
	}
	plog := [][]uint64{}
	for i := 0; i < g.R.Intn(3); i++ {
		s := g.Shards[g.R.Intn(len(g.Shards))]
		rid := uint64(100*int(s) + 1 + g.R.Intn(4))
		// one log record in five belongs to a replica whose ids only look like a current one's: same low decimal digits (the
		// ids as log lines print them, modulo 100000), another shard or another replica
		switch g.R.Intn(10) {
		case 0:
			s += 100000 * uint64(1+g.R.Intn(3))
		case 1:
			rid += 100000 * uint64(1+g.R.Intn(3))
		}
		plog = append(plog, []uint64{s, rid})
	}
	// fields of the message the DB must not trust: the report time is the DB's tick, not the sender's
	lt := []uint64{0, 0, 0, 0, 0, 0, 0, 0, 1, 7, 1000, 1 << 40}[g.R.Intn(12)]
	return Op{Op: "report", Addr: addr, RPC: "rpc-" + addr + strconv.Itoa(g.R.Intn(2)), Region: "reg" + strconv.Itoa(g.R.Intn(2)),
		PlogInc: g.R.Intn(3) == 0, Plog: plog, IDs: ids, Infos: infos, LT: lt}
}

func (g *Gen) reqsOp() Op {
	n := g.R.Intn(5)
	launch := g.R.Intn(4) == 0
	if g.Profile == "c09" {
		launch = g.R.Intn(2) == 0
		n = 1 + g.R.Intn(4)
	}
	reqs := []Req{}
	for i := 0; i < n; i++ {
		s := g.Shards[g.R.Intn(len(g.Shards))]
		addr := g.Addrs[g.R.Intn(len(g.Addrs))]
		t := []string{"create", "delete", "add", "kill"}[g.R.Intn(4)]
		rq := Req{T: t, S: s, Members: []uint64{uint64(100*int(s) + 1)}, Ccid: uint64(g.R.Intn(9)), IDs: []uint64{uint64(100*int(s) + 1 + i)},
			Addrs: []string{addr}, Inst: uint64(100*int(s) + 1 + i), Addr: addr, Join: g.R.Intn(2) == 0, App: "app"}
		if launch && !(g.Malformed && g.R.Intn(4) == 0) {
			rq.T = "create"
			rq.Join = false
		} else if !launch && t == "create" && !(g.Malformed && g.R.Intn(6) == 0) {
			if g.R.Intn(3) == 0 {
				rq.Join = false
				rq.Restore = true
			} else {
				rq.Join = true
			}
		}
		reqs = append(reqs, rq)
	}
	return Op{Op: "reqs", Reqs: reqs}
}

// LaunchScenario (profile c09) emits: definitions, a launch batch, then ticks
// and the reports that complete (or fail to complete) the launch around the
// deadline, repeated launch attempts and snapshots.
func (g *Gen) LaunchScenario() []Op {
	ops := []Op{}
	for i := 0; i < g.R.Intn(4); i++ {
		ops = append(ops, Op{Op: "tick"})
	}
	nsh := 1 + g.R.Intn(len(g.Shards))
	defs := g.Shards[:nsh]
	type placed struct {
		s    uint64
		reps map[uint64]string
	}
	pl := []placed{}
	for _, s := range defs {
		perm := g.R.Perm(len(g.Addrs))
		reps := map[uint64]string{}
		members := []uint64{}
		for i := 0; i < 3 && i < len(perm); i++ {
			id := uint64(100*int(s) + i + 1)
			reps[id] = g.Addrs[perm[i]]
			members = append(members, id)
		}
		g.Hist[s] = []Membership{{1, reps}}
		pl = append(pl, placed{s, reps})
		ops = append(ops, Op{Op: "shard", ID: s, Members: members, App: "app"})
	}
	// sometimes an extra shard that runs (is reported) without ever being defined
	var stray *placed
	if g.R.Intn(3) == 0 {
		s := uint64(9)
		reps := map[uint64]string{901: g.Addrs[0], 902: g.Addrs[1], 903: g.Addrs[2]}
		g.Hist[s] = []Membership{{1, reps}}
		stray = &placed{s, reps}
	}
	launch := Op{Op: "reqs"}
	for _, p := range pl {
		ids := sortedIDs(p.reps)
		addrs := []string{}
		for _, id := range ids {
			addrs = append(addrs, p.reps[id])
		}
		for _, id := range ids {
			launch.Reqs = append(launch.Reqs, Req{T: "create", S: p.s, Members: ids, IDs: ids, Addrs: addrs, Inst: id, Addr: p.reps[id], App: "app"})
		}
	}
	ops = append(ops, launch)
	// which (shard, replica) pairs will have reported before the deadline
	complete := g.R.Intn(3) != 0
	missing := -1
	if !complete {
		missing = g.R.Intn(len(pl))
	}
	total := 20 + g.R.Intn(10) // ticks emitted; the deadline is 24 ticks after acceptance
	reportAt := map[int][]Op{}
	mk := func(p placed, id uint64, pend bool) Op {
		reps := [][]interface{}{}
		for _, k := range sortedIDs(p.reps) {
			reps = append(reps, []interface{}{k, p.reps[k]})
		}
		in := Info{S: p.s, R: id, Cci: 1, Reps: reps, Leader: g.R.Intn(3) == 0}
		if pend {
			in = Info{S: p.s, R: id, Pend: true}
		}
		return Op{Op: "report", Addr: p.reps[id], RPC: "rpc-" + p.reps[id], Region: "reg0", IDs: []uint64{p.s}, Infos: []Info{in}}
	}
	for i, p := range pl {
		ids := sortedIDs(p.reps)
		for j, id := range ids {
			at := 1 + g.R.Intn(26)
			switch g.R.Intn(6) {
			case 0:
				at = 23
			case 1:
				at = 24
			case 2:
				at = 25
			}
			if i == missing && j == 0 {
				if g.R.Intn(2) == 0 {
					continue // never reports
				}
				at = 25 + g.R.Intn(3) // too late
			}
			if g.R.Intn(5) == 0 {
				reportAt[at/2] = append(reportAt[at/2], mk(p, id, true))
			}
			reportAt[at] = append(reportAt[at], mk(p, id, false))
		}
	}
	// a shard that was fully reporting gains a member that never reports (a membership change seen through a report
	// at a higher version) while another shard is still incomplete: the launch is NOT complete when that other shard
	// completes, and the deadline must still fire
	if len(pl) >= 2 && g.R.Intn(3) == 0 {
		i := g.R.Intn(len(pl))
		j := (i + 1 + g.R.Intn(len(pl)-1)) % len(pl)
		reportAt = map[int][]Op{}
		for _, id := range sortedIDs(pl[i].reps) {
			at := 1 + g.R.Intn(4)
			reportAt[at] = append(reportAt[at], mk(pl[i], id, false))
		}
		grown := map[uint64]string{}
		for k, v := range pl[i].reps {
			grown[k] = v
		}
		newID := uint64(100*int(pl[i].s) + 9)
		grown[newID] = g.Addrs[g.R.Intn(len(g.Addrs))]
		g.Hist[pl[i].s] = append(g.Hist[pl[i].s], Membership{2, grown})
		big := placed{pl[i].s, grown}
		first := sortedIDs(pl[i].reps)[g.R.Intn(len(pl[i].reps))]
		up := mk(big, first, false)
		up.Infos[0].Cci = 2
		at := 6 + g.R.Intn(3)
		reportAt[at] = append(reportAt[at], up)
		for k, p := range pl {
			if k == i {
				continue
			}
			for _, id := range sortedIDs(p.reps) {
				at := 1 + g.R.Intn(20)
				if k == j && id == sortedIDs(p.reps)[0] {
					at = 10 + g.R.Intn(12) // the report that completes shard j, after shard i grew
				}
				reportAt[at] = append(reportAt[at], mk(p, id, false))
			}
		}
		if g.R.Intn(2) == 0 {
			// the new member does report in the end: sometimes in time, sometimes too late
			at := 12 + g.R.Intn(16)
			late := mk(big, newID, false)
			late.Infos[0].Cci = 2
			reportAt[at] = append(reportAt[at], late)
		}
	}
	if stray != nil {
		for _, id := range sortedIDs(stray.reps) {
			at := 1 + g.R.Intn(20)
			reportAt[at] = append(reportAt[at], mk(*stray, id, false))
		}
	}
	for t := 1; t <= total; t++ {
		ops = append(ops, Op{Op: "tick"})
		rs := reportAt[t]
		g.R.Shuffle(len(rs), func(i, j int) { rs[i], rs[j] = rs[j], rs[i] })
		ops = append(ops, rs...)
		if g.R.Intn(12) == 0 {
			ops = append(ops, launch) // repeated launch attempt
		}
		if g.R.Intn(15) == 0 {
			ops = append(ops, Op{Op: "snap"})
		}
		if g.R.Intn(15) == 0 {
			ops = append(ops, g.reqsOp())
		}
	}
	return ops
}
