package dbx

import (
	"encoding/json"
	"bytes"
	"fmt"
	"sort"

	sm "github.com/lni/dragonboat/v4/statemachine"
	drummer "github.com/lni/drummer/v3"
	pb "github.com/lni/drummer/v3/drummerpb"
	"github.com/lni/drummer/v3/settings"
	"google.golang.org/protobuf/proto"
	"verif/harness/internal/hx"
)

// Oracle evaluates, on the states the real DB goes through, the conclusions of
// the DB-level property theorems (C04, C05, C09, C10, C11, C13), each restated
// as a function of the command history alone. It never looks at the Lean model:
// it is the search for a concrete failing input on the implementation.
type Oracle struct {
	Run  *hx.Run
	Seq  int
	Ops  []Op
	TTL  uint64
	LDT  uint64 // launch deadline in ticks
	Step uint64 // logical time step per tick, learnt from the first tick
	// C10 mailbox specification
	pending map[string][]string
	out     map[string][]string
	addrs   map[string]struct{}
	// C09
	acceptedLaunch int
	// C04 / C05 view specification
	view map[uint64]*specView
	// C12: what each host said about its persisted logs in its last report that carried the list
	hostLog map[string]map[[2]uint64]int
	// Also: signature -> further properties a finding with that signature is raised for
	Also map[string][]string
}

type specView struct {
	ver     uint64
	members map[uint64]string
	first   map[uint64]uint64
	lastOwn map[uint64]uint64
}

func NewOracle(run *hx.Run, seq int) *Oracle {
	return &Oracle{Run: run, Seq: seq, TTL: settings.Soft.NodeHostTTL, LDT: settings.LaunchDeadlineTick,
		pending: map[string][]string{}, out: map[string][]string{}, addrs: map[string]struct{}{}, view: map[uint64]*specView{}, hostLog: map[string]map[[2]uint64]int{}}
}

func (o *Oracle) fail(prop, clause, sig, what string, idx int) {
	ops := make([]Op, len(o.Ops))
	copy(ops, o.Ops)
	o.Run.Violate(hx.Violation{Property: prop, Clause: clause, Signature: sig, What: what, Seq: o.Seq, OpIndex: idx, Ops: ops})
	// findings that other properties rest on in the harness at hand (e.g. the scheduler's decisions rest on the liveness
	// record): raised for them as well
	for _, p := range o.Also[sig] {
		o.Run.Violate(hx.Violation{Property: p, Clause: "decision_input_" + clause, Signature: sig, What: what, Seq: o.Seq, OpIndex: idx, Ops: ops})
	}
}

func kvRec(d *Dump, k string) (*pb.KV, []byte) {
	raw, ok := d.KVMap[k]
	if !ok {
		return nil, nil
	}
	var rec pb.KV
	if err := proto.Unmarshal(raw, &rec); err != nil {
		panic(err)
	}
	return &rec, raw
}

func sameKV(a *pb.KV, key, val string, inst, old, tick uint64, fin bool) bool {
	return string(a.Key) == key && string(a.Value) == val && a.InstanceId == inst && a.OldInstanceId == old && a.Tick == tick && a.Finalized == fin
}

func reqStrs(l []*pb.NodeHostRequest) []string {
	out := make([]string, len(l))
	for i, r := range l {
		out[i] = ReqStr(r)
	}
	return out
}

func eqStrs(a, b []string) bool {
	if len(a) != len(b) {
		return false
	}
	for i := range a {
		if a[i] != b[i] {
			return false
		}
	}
	return true
}

func batchKind(reqs []Req) (launch bool, mixed bool) {
	n := 0
	for i := range reqs {
		if reqs[i].IsLaunch() {
			n++
		}
	}
	return n > 0, n > 0 && n != len(reqs)
}

// Observe is called after every command with the result the real DB returned
// and the dumps before and after.
func (o *Oracle) Observe(idx int, op Op, res string, pre, post *Dump, db sm.IStateMachine) {
	switch op.Op {
	case "tick":
		o.tick(idx, res, pre, post, db)
	case "kv":
		o.kv(idx, op, res, pre, post)
	case "shard":
		o.shard(idx, op, res, pre, post)
	case "reqs":
		o.reqs(idx, op, res, pre, post)
	case "report":
		o.report(idx, op, res, pre, post)
	}
	if res == "panic" {
		return
	}
	if op.Op != "tick" && post.Tick != pre.Tick {
		o.fail("C05", "tick_step", "time-moved-without-tick", fmt.Sprintf("logical time changed from %d to %d by %s", pre.Tick, post.Tick, op.Op), idx)
	}
	o.everyOp(idx, op, pre, post, db)
}

// ---- C05 logical time, C09 deadline

func (o *Oracle) tick(idx int, res string, pre, post *Dump, db sm.IStateMachine) {
	if o.Step == 0 && res != "panic" {
		o.Step = post.Tick - pre.Tick
	}
	step := o.Step
	if step == 0 {
		step = 5
	}
	late := pre.LaunchDeadline > 0 && pre.Tick+step > pre.LaunchDeadline
	if late {
		o.Run.Count("c09:deadline_missed")
		if res != "panic" {
			o.fail("C09", "deadline_missed_failstop", "late-tick-survived", fmt.Sprintf("tick to %d past the launch deadline %d did not fail-stop", pre.Tick+step, pre.LaunchDeadline), idx)
			return
		}
		// fail-stopped: every further update, query, snapshot and hash is refused
		if r := Apply(db, (&Op{Op: "tick"}).ToUpdate()); r != "panic" {
			o.fail("C09", "failstop_refuses_updates", "update-after-failstop", "an update was accepted after the fail-stop", idx)
		}
		if r := Apply(db, (&Op{Op: "kv", Key: "k1", Value: "v"}).ToUpdate()); r != "panic" {
			o.fail("C09", "failstop_refuses_updates", "kv-after-failstop", "a KV update was accepted after the fail-stop", idx)
		}
		if _, p := LookupShards(db); !p {
			o.fail("C09", "failstop_refuses_queries", "query-after-failstop", "a query was answered after the fail-stop", idx)
		}
		if _, p := LookupRequests(db, "a1"); !p {
			o.fail("C09", "failstop_refuses_queries", "requests-query-after-failstop", "a requests query was answered after the fail-stop", idx)
		}
		// every other kind of query, with the shapes the service sends them in
		known := []uint64{}
		for sid := range pre.ShardImage.Shards {
			known = append(known, sid)
		}
		sort.Slice(known, func(i, j int) bool { return known[i] < known[j] })
		for name, q := range map[string]func() bool{
			"kv":                  func() bool { _, p := LookupKV(db, "launched-flag"); return p },
			"kv-absent":           func() bool { _, p := LookupKV(db, "no-such-key"); return p },
			"scheduler-context":   func() bool { _, p := LookupContext(db); return p },
			"shard-states-known":  func() bool { _, p := LookupStates(db, known); return p },
			"shard-states-empty":  func() bool { _, p := LookupStates(db, []uint64{}); return p },
			"shard-states-absent": func() bool { _, p := LookupStates(db, []uint64{987654321}); return p },
			"requests-other-host": func() bool { _, p := LookupRequests(db, "no-such-host"); return p },
		} {
			o.Run.Count("c09:query_after_failstop_checked")
			if !q() {
				o.fail("C09", "failstop_refuses_queries", "query-after-failstop:"+name, "a "+name+" query was answered after the fail-stop", idx)
			}
		}
		// and every other kind of update
		for name, u := range map[string]*Op{
			"report":     {Op: "report", Addr: "a1"},
			"definition": {Op: "shard", ID: 99, Members: []uint64{1, 2, 3}, App: "app"},
			"requests":   {Op: "reqs"},
		} {
			func() {
				defer func() { recover() }()
				up := u.ToUpdate()
				if up == nil {
					return
				}
				if r := Apply(db, up); r != "panic" {
					o.fail("C09", "failstop_refuses_updates", "update-after-failstop:"+name, "a "+name+" update was accepted after the fail-stop", idx)
				}
			}()
		}
		if _, p := Snapshot(db); !p {
			o.fail("C09", "failstop_refuses_snapshots", "snapshot-after-failstop", "a snapshot was produced after the fail-stop", idx)
		}
		if _, p := Hash(db); !p {
			o.fail("C09", "failstop_refuses_hash", "hash-after-failstop", "a hash was produced after the fail-stop", idx)
		}
		// the fail-stop is for good: installing a snapshot (as dragonboat does for a replica that fell behind) is
		// refused, or at least leaves the replica failed
		if snap, p := Snapshot(drummer.NewDB(0, 7)); !p {
			o.Run.Count("c09:snapshot_install_after_failstop_checked")
			refused := RestoreInto(db, snap)
			_, q := LookupShards(db)
			if !q || Apply(db, (&Op{Op: "tick"}).ToUpdate()) != "panic" {
				o.fail("C09", "failstop_is_for_good", "failstop-lifted-by-snapshot-install", fmt.Sprintf("a fail-stopped replica serves again after a snapshot was installed into it (install refused=%v)", refused), idx)
			}
		}
		return
	}
	if res == "panic" {
		o.fail("C09", "no_early_failstop", "early-failstop", fmt.Sprintf("tick at %d fail-stopped although deadline=%d", pre.Tick, pre.LaunchDeadline), idx)
		return
	}
	if post.Tick-pre.Tick != step {
		o.fail("C05", "tick_step", "uneven-step", fmt.Sprintf("tick advanced time by %d, earlier ticks by %d", post.Tick-pre.Tick, step), idx)
	}
	if res != fmt.Sprint(post.Tick) {
		o.fail("C05", "tick_step", "tick-result", "tick result is not the new logical time", idx)
	}
	if post.LaunchDeadline != pre.LaunchDeadline || post.Failed {
		o.fail("C09", "deadline_changes_only_by_launch_or_report", "tick-changed-deadline", "a tick changed the deadline or the failed flag", idx)
	}
}

// ---- C13

func (o *Oracle) kv(idx int, op Op, res string, pre, post *Dump) {
	if op.Key == "" || op.Value == "" {
		if res != "panic" {
			o.fail("C13", "empty_kv_refused", "empty-kv-accepted", "empty key or value was not refused", idx)
		}
		return
	}
	if res == "panic" {
		o.fail("C13", "kv_total", "kv-panic", "a well-formed KV write crashed the DB", idx)
		return
	}
	old, oldRaw := kvRec(pre, op.Key)
	now, nowRaw := kvRec(post, op.Key)
	if now == nil {
		o.fail("C13", "kv_written", "kv-lost", "key absent after a write", idx)
		return
	}
	isNew := sameKV(now, op.Key, op.Value, op.Inst, op.Old, op.Tick, op.Fin)
	switch {
	case old == nil:
		o.Run.Count("c13:kv_fresh")
		if res != "0" || !isNew {
			o.fail("C13", "first_write_stored", "first-write", fmt.Sprintf("first write of %q: result %s, stored=%v", op.Key, res, isNew), idx)
		}
	case old.Finalized:
		o.Run.Count("c13:kv_on_finalized")
		if res != "1" || !bytes.Equal(oldRaw, nowRaw) {
			o.fail("C13", "finalized_immutable", "finalized-changed", fmt.Sprintf("write to finalized key %q: result %s, changed=%v", op.Key, res, !bytes.Equal(oldRaw, nowRaw)), idx)
		}
	case old.InstanceId == op.Inst || old.InstanceId == op.Old:
		o.Run.Count("c13:kv_cas_ok")
		if res != "0" || !isNew {
			o.fail("C13", "holder_write_applies", "cas-holder-refused", fmt.Sprintf("holder write to %q: result %s, stored=%v", op.Key, res, isNew), idx)
		}
	default:
		o.Run.Count("c13:kv_cas_rejected")
		if res != "2" || !bytes.Equal(oldRaw, nowRaw) {
			o.fail("C13", "nonfinal_changes_only_by_holder", "cas-stranger-accepted", fmt.Sprintf("write to %q by a non-holder: result %s, changed=%v", op.Key, res, !bytes.Equal(oldRaw, nowRaw)), idx)
		}
	}
}

func sameDef(a *pb.Shard, b *pb.Shard) bool {
	if a.ShardId != b.ShardId || a.AppName != b.AppName || len(a.Members) != len(b.Members) {
		return false
	}
	for i := range a.Members {
		if a.Members[i] != b.Members[i] {
			return false
		}
	}
	return true
}

func (o *Oracle) shard(idx int, op Op, res string, pre, post *Dump) {
	if len(op.Members) == 0 || op.App == "" {
		if res != "panic" {
			o.fail("C13", "malformed_definition_refused", "bad-def-accepted", "a definition without members or app name was not refused", idx)
		}
		return
	}
	if res == "panic" {
		o.fail("C13", "shard_total", "shard-panic", "a well-formed definition crashed the DB", idx)
		return
	}
	_, boot := pre.KVMap["bootstrapped-flag"]
	old, exists := pre.Shards[op.ID]
	now := post.Shards[op.ID]
	switch {
	case boot:
		o.Run.Count("c13:def_after_bootstrap")
		if res != "2" || len(post.Shards) != len(pre.Shards) || (exists != (now != nil)) {
			o.fail("C13", "shard_gate", "def-after-bootstrap", fmt.Sprintf("definition after bootstrap: result %s, defs %d -> %d", res, len(pre.Shards), len(post.Shards)), idx)
		}
	case exists:
		o.Run.Count("c13:def_exists")
		if res != "1" || now == nil || !sameDef(old, now) {
			o.fail("C13", "existing_definition_unaltered", "def-altered", fmt.Sprintf("re-submission of shard %d: result %s", op.ID, res), idx)
		}
	default:
		o.Run.Count("c13:def_added")
		if res != "0" || now == nil || !sameDef(now, &pb.Shard{ShardId: op.ID, Members: op.Members, AppName: op.App}) {
			o.fail("C13", "definition_added", "def-not-added", fmt.Sprintf("new shard %d: result %s", op.ID, res), idx)
		}
	}
}

// ---- C09 / C10 request batches

func (o *Oracle) reqs(idx int, op Op, res string, pre, post *Dump) {
	launch, mixed := batchKind(op.Reqs)
	if mixed {
		o.Run.Count("c09:mixed_batch")
		if res != "panic" {
			o.fail("C09", "never_mixed", "mixed-batch-accepted", "a batch mixing launch requests with others was not refused", idx)
		}
		return
	}
	if res == "panic" {
		o.fail("C09", "batch_total", "batch-panic", "a well-formed batch crashed the DB", idx)
		return
	}
	_, launched := pre.KVMap["launched-flag"]
	if launch && launched {
		o.Run.Count("c09:launch_repeated")
		if res != "0" || pre.Canon() != post.Canon() {
			o.fail("C09", "launch_once", "second-launch-accepted", fmt.Sprintf("a launch batch after launch: result %s, state changed=%v", res, pre.Canon() != post.Canon()), idx)
		}
		return
	}
	if res != fmt.Sprint(len(op.Reqs)) {
		o.fail("C10", "batch_accepted", "batch-result", fmt.Sprintf("batch of %d answered %s", len(op.Reqs), res), idx)
	}
	if launch {
		o.Run.Count("c09:launch_accepted")
		o.acceptedLaunch++
		if o.acceptedLaunch > 1 {
			o.fail("C09", "launch_once", "two-launches", "two launch batches accepted in one lifetime", idx)
		}
		step := o.Step
		if step == 0 {
			step = 5
		}
		rec, _ := kvRec(post, "launched-flag")
		if rec == nil || !rec.Finalized {
			o.fail("C09", "launch_recorded", "launch-flag-missing", "accepted launch did not record a finalized launched flag", idx)
			// the flags the DB writes itself are write-once like any finalized key (C13)
			o.fail("C13", "finalized_immutable", "db-written-flag-not-finalized", "the launched flag written by the DB itself is not finalized: a later KV write can change it", idx)
		}
		if post.LaunchDeadline <= pre.Tick {
			o.fail("C09", "deadline_set", "no-deadline", fmt.Sprintf("deadline %d not after acceptance time %d", post.LaunchDeadline, pre.Tick), idx)
		}
	} else if post.LaunchDeadline != pre.LaunchDeadline {
		o.fail("C09", "deadline_changes_only_by_launch_or_report", "batch-changed-deadline", "a non-launch batch changed the deadline", idx)
	}
	if _, after := post.KVMap["launched-flag"]; !launch && !launched && after {
		// a batch without a single launch request (an empty round included) is not the launch: if it sets the flag, the real
		// launch round that follows is ignored as a whole and its requests never reach their NodeHosts
		o.fail("C09", "launch_once", "non-launch-batch-set-launched-flag", fmt.Sprintf("a batch of %d requests, none of them a launch request, set the launched flag", len(op.Reqs)), idx)
		o.fail("C10", "batch_accepted", "non-launch-batch-set-launched-flag", fmt.Sprintf("a batch of %d requests, none of them a launch request, set the launched flag: the launch round scheduled next will be ignored and never delivered", len(op.Reqs)), idx)
	}
	// C10: the batch replaces, per address, what was pending
	by := map[string][]string{}
	order := []string{}
	for i := range op.Reqs {
		a := op.Reqs[i].Addr
		if _, ok := by[a]; !ok {
			order = append(order, a)
		}
		by[a] = append(by[a], ReqStr(op.Reqs[i].PB()))
	}
	// ... and every request of the batch is now pending for its addressee, in order: nothing is dropped on the way in
	for _, a := range order {
		got := []string{}
		for _, r := range post.Requests[a] {
			got = append(got, ReqStr(r))
		}
		o.Run.Count("c10:stored_batch_checked")
		if fmt.Sprint(got) != fmt.Sprint(by[a]) {
			why := fmt.Sprintf("the batch carried %d request(s) for %s, %d are pending for it after the update: %v vs %v", len(by[a]), a, len(got), by[a], got)
			o.fail("C10", "batch_stored", "batch-not-stored", why, idx)
			for i := range op.Reqs {
				if op.Reqs[i].Addr == a && op.Reqs[i].T == "kill" {
					o.fail("C11", "kill_delivered", "kill-request-dropped", why, idx)
					break
				}
			}
		}
	}
	for _, a := range order {
		if _, had := o.pending[a]; had {
			o.Run.Count("c10:superseded")
		}
		o.pending[a] = by[a]
		o.addrs[a] = struct{}{}
	}
}

// ---- reports: C04, C05, C09, C10, C11

func (o *Oracle) report(idx int, op Op, res string, pre, post *Dump) {
	if res == "panic" {
		o.Run.Count("report:panic")
		return
	}
	a := op.Addr
	o.addrs[a] = struct{}{}
	// C10: hand out what is pending for a, forget what was handed out before
	if p, ok := o.pending[a]; ok {
		o.out[a] = p
		delete(o.pending, a)
		o.Run.Count("c10:picked_up")
		if res != fmt.Sprint(len(p)) {
			o.fail("C10", "report_result", "report-count", fmt.Sprintf("report answered %s, %d requests pending", res, len(p)), idx)
		}
	} else {
		delete(o.out, a)
		if res != "0" {
			o.fail("C10", "report_result", "report-count", fmt.Sprintf("report answered %s, nothing pending", res), idx)
		}
	}
	// C12 "data known to exist": the log records Drummer keeps for a host are exactly what the host listed in its last
	// report that carried the list (an empty list means the logs are gone); reports without the list change nothing
	if op.PlogInc || o.hostLog[a] == nil {
		m := map[[2]uint64]int{}
		if op.PlogInc {
			for _, p := range op.Plog {
				m[[2]uint64{p[0], p[1]}]++
			}
		}
		o.hostLog[a] = m
	}
	if h := post.NodeHostImage.Nodehosts[a]; h != nil {
		got := map[[2]uint64]int{}
		for _, e := range h.PersistentLog {
			got[[2]uint64{e.ShardId, e.ReplicaId}]++
		}
		same := len(got) == len(o.hostLog[a])
		for k, n := range got {
			if o.hostLog[a][k] != n {
				same = false
			}
		}
		o.Run.Count("c12:host_log_record_checked")
		if !same {
			o.fail("C12", "restore_needs_log", "host-log-record", fmt.Sprintf("after the report of %s Drummer's record of its persisted logs is %v, the host's last list was %v", a, got, o.hostLog[a]), idx)
		}
	}
	// C05 "a NodeHost is live iff its last report is within the timeout": the record of the NodeHost that just reported
	// carries the current time, whatever else the report said (lost logs, new region, ...)
	if h := post.NodeHostImage.Nodehosts[a]; h == nil {
		o.fail("C05", "host_stamped", "reporting-host-not-recorded", fmt.Sprintf("%s just reported; Drummer has no record of it", a), idx)
	} else {
		o.Run.Count("c05:host_stamp_checked")
		if h.Tick != pre.Tick {
			why := fmt.Sprintf("%s just reported at time %d; Drummer's record of it says it last reported at %d: placement and restore will treat it as dead", a, pre.Tick, h.Tick)
			o.fail("C05", "host_stamped", "reporting-host-not-stamped", why, idx)
			o.fail("C01", "host_stamped", "reporting-host-not-stamped", why, idx)
		}
	}
	// C08 / C02 "a NodeHost that does not already host the shard": the shards Drummer records for a host include every
	// shard the host listed in the report just applied (placement filters on this record)
	if h := post.NodeHostImage.Nodehosts[a]; h != nil {
		o.Run.Count("c08:host_shard_record_checked")
		for _, sid := range op.IDs {
			if _, ok := h.Shards[sid]; !ok {
				why := fmt.Sprintf("%s just reported that it hosts shard %d; Drummer's record of the shards on that host is %v: placement would treat the host as free for shard %d", a, sid, sortedU(h.Shards), sid)
				o.fail("C08", "plan_valid", "hosted-shard-not-recorded", why, idx)
				o.fail("C02", "no_colocation", "hosted-shard-not-recorded", why, idx)
				break
			}
		}
	}
	// ... and every shard whose view names a recorded NodeHost as the address of a member (placement must not put a second
	// member of the shard there)
	{
		hosts := []string{}
		for ha := range post.NodeHostImage.Nodehosts {
			hosts = append(hosts, ha)
		}
		sort.Strings(hosts)
		sids := sortedU(post.ShardImage.Shards)
	outer:
		for _, ha := range hosts {
			hrec := post.NodeHostImage.Nodehosts[ha]
			for _, sid := range sids {
				v := post.ShardImage.Shards[sid]
				for _, rid := range sortedU(v.Replicas) {
					if v.Replicas[rid].Address != ha {
						continue
					}
					o.Run.Count("c08:member_host_shard_record_checked")
					if _, ok := hrec.Shards[sid]; !ok {
						why := fmt.Sprintf("after the report of %s: Drummer's view of shard %d has member %d at %s, its record of the shards on %s is %v: placement would treat that host as free for shard %d", a, sid, rid, ha, ha, sortedU(hrec.Shards), sid)
						o.fail("C08", "plan_valid", "member-host-shard-not-recorded", why, idx)
						o.fail("C02", "no_colocation", "member-host-shard-not-recorded", why, idx)
						break outer
					}
				}
			}
		}
	}
	// C04: the view is the membership of the complete entry with the highest version so far
	T := pre.Tick
	for i := range op.Infos {
		in := &op.Infos[i]
		if in.Pend || in.Inc {
			continue
		}
		m := in.RepsMap()
		v, ok := o.view[in.S]
		if !ok {
			nv := &specView{ver: in.Cci, members: m, first: map[uint64]uint64{}, lastOwn: map[uint64]uint64{}}
			for r := range m {
				nv.first[r] = T
			}
			o.view[in.S] = nv
			o.Run.Count("c04:view_created")
		} else if in.Cci > v.ver {
			nv := &specView{ver: in.Cci, members: m, first: map[uint64]uint64{}, lastOwn: map[uint64]uint64{}}
			for r := range m {
				if _, kept := v.members[r]; kept {
					nv.first[r] = v.first[r]
					nv.lastOwn[r] = v.lastOwn[r]
				} else {
					nv.first[r] = T
				}
			}
			o.view[in.S] = nv
			o.Run.Count("c04:view_advanced")
		} else if in.Cci < v.ver {
			o.Run.Count("c04:older_entry")
		} else {
			o.Run.Count("c04:same_version_entry")
		}
	}
	// C04 "an older report never alters the view": when every entry of this report about shard s carries a version below
	// the view's, the membership, the version and the leader flags of the view of s are as before (only report times move)
	{
		maxCci := map[uint64]uint64{}
		anyInfo := map[uint64]bool{}
		for i := range op.Infos {
			in := &op.Infos[i]
			anyInfo[in.S] = true
			if in.Cci > maxCci[in.S] {
				maxCci[in.S] = in.Cci
			}
		}
		for sid := range anyInfo {
			pv, qv := pre.ShardImage.Shards[sid], post.ShardImage.Shards[sid]
			if pv == nil || qv == nil || maxCci[sid] >= pv.ConfigChangeIndex {
				continue
			}
			o.Run.Count("c04:older_report_checked")
			same := qv.ConfigChangeIndex == pv.ConfigChangeIndex && len(qv.Replicas) == len(pv.Replicas)
			for rid, pr := range pv.Replicas {
				qr := qv.Replicas[rid]
				if qr == nil || qr.Address != pr.Address || qr.IsLeader != pr.IsLeader || qr.FirstObserved != pr.FirstObserved {
					same = false
				}
			}
			if !same {
				o.fail("C04", "older_report_ignored", "older-report-altered-view", fmt.Sprintf("shard %d: a report whose entries carry versions <= %d changed the view at version %d (members, version, leader flags or first-seen times)", sid, maxCci[sid], pv.ConfigChangeIndex), idx)
			}
		}
	}
	// C04 "mirrors the newest report", leader part: a replica that is a member of the view after this report and reports
	// for a version at least the view's is marked leader exactly when it says so (one entry per shard in the report)
	{
		per := map[uint64]int{}
		for i := range op.Infos {
			per[op.Infos[i].S]++
		}
		for i := range op.Infos {
			in := &op.Infos[i]
			qv := post.ShardImage.Shards[in.S]
			if per[in.S] != 1 || qv == nil || qv.ConfigChangeIndex > in.Cci {
				continue
			}
			qr := qv.Replicas[in.R]
			if qr == nil {
				continue
			}
			o.Run.Count("c04:leader_flag_checked")
			if qr.IsLeader != in.Leader {
				o.fail("C04", "view_mirrors_max", "leader-not-as-reported", fmt.Sprintf("shard %d: member %d reported leader=%v for version %d, the view (version %d) marks it leader=%v", in.S, in.R, in.Leader, in.Cci, qv.ConfigChangeIndex, qr.IsLeader), idx)
			}
		}
	}
	// C05: a listed replica that is in the view has now been reported at time T
	for i := range op.Infos {
		in := &op.Infos[i]
		if v, ok := o.view[in.S]; ok {
			if _, member := v.members[in.R]; member {
				v.lastOwn[in.R] = T
			}
		}
	}
	// C11: new kill entries are justified; entries of this address that are no longer reported are gone
	listed := map[[2]uint64]*Info{}
	for i := range op.Infos {
		listed[[2]uint64{op.Infos[i].S, op.Infos[i].R}] = &op.Infos[i]
	}
	preCount := map[DKill]int{}
	for _, e := range pre.ShardImage.ReplicasToKill {
		preCount[e]++
	}
	postCount := map[DKill]int{}
	for _, e := range post.ShardImage.ReplicasToKill {
		postCount[e]++
	}
	for e, n := range postCount {
		if n > preCount[e] {
			o.Run.Count("c11:kill_added")
			in := listed[[2]uint64{e.ShardID, e.ReplicaID}]
			v := post.ShardImage.Shards[e.ShardID]
			just := e.Address == a && in != nil && v != nil && in.Cci < v.ConfigChangeIndex
			if just {
				if _, member := v.Replicas[e.ReplicaID]; member {
					just = false
				}
			}
			if !just {
				o.fail("C11", "kill_entry_justified", "unjustified-kill", fmt.Sprintf("kill entry (%d,%d,%s) recorded without a stale non-member report from that host", e.ShardID, e.ReplicaID, e.Address), idx)
			}
		}
		if e.Address == a {
			if _, still := listed[[2]uint64{e.ShardID, e.ReplicaID}]; !still {
				o.fail("C11", "kill_stops", "kill-entry-outlives-report", fmt.Sprintf("kill entry (%d,%d,%s) still recorded after %s reported without that replica", e.ShardID, e.ReplicaID, e.Address, a), idx)
			}
			if n > 1 {
				o.fail("C11", "kill_stops", "kill-entry-duplicated", fmt.Sprintf("kill entry (%d,%d,%s) recorded %d times", e.ShardID, e.ReplicaID, e.Address, n), idx)
			}
		}
	}
	// a stale non-member that is reported is (still) on the list
	for k, in := range listed {
		v := post.ShardImage.Shards[k[0]]
		if v == nil || in.Cci >= v.ConfigChangeIndex || len(v.Replicas) == 0 {
			continue
		}
		if _, member := v.Replicas[k[1]]; member {
			continue
		}
		o.Run.Count("c11:stray_reported")
		if postCount[DKill{k[0], k[1], a}] == 0 {
			o.fail("C11", "kill_while_reported", "stray-not-listed", fmt.Sprintf("stray replica (%d,%d) reported by %s is not on the kill list", k[0], k[1], a), idx)
		}
	}
	// C09: the deadline is cancelled exactly when every defined shard is fully reporting
	if pre.LaunchDeadline > 0 {
		all := true
		for sid := range post.Shards {
			v := post.ShardImage.Shards[sid]
			if v == nil {
				all = false
				break
			}
			for _, r := range v.Replicas {
				if r.Tick == 0 {
					all = false
				}
			}
		}
		if all {
			o.Run.Count("c09:launch_completed")
			if post.LaunchDeadline != 0 {
				o.fail("C09", "deadline_cancelled", "deadline-kept", "every defined shard is fully reporting but the deadline is still armed", idx)
			}
		} else {
			o.Run.Count("c09:launch_incomplete_report")
			if post.LaunchDeadline != pre.LaunchDeadline {
				sig := "deadline-cancelled-early"
				o.fail("C09", "deadline_cancelled_only_when_complete", sig, fmt.Sprintf("deadline went %d -> %d although a defined shard is not fully reporting", pre.LaunchDeadline, post.LaunchDeadline), idx)
			}
		}
	} else if post.LaunchDeadline != 0 {
		o.fail("C09", "deadline_cancelled_for_good", "deadline-rearmed", "a report armed a deadline", idx)
	}
}

// ---- checks after every command

func (o *Oracle) everyOp(idx int, op Op, pre, post *Dump, db sm.IStateMachine) {
	// C13: finalized records never change, whatever the command
	for k, raw := range pre.KVMap {
		rec, _ := kvRec(pre, k)
		if rec.Finalized && !bytes.Equal(raw, post.KVMap[k]) {
			o.fail("C13", "finalized_immutable", "finalized-changed", fmt.Sprintf("finalized key %q changed by %s", k, op.Op), idx)
		}
		if !(op.Op == "kv" && op.Key == k) && !(op.Op == "reqs" && k == "launched-flag") && !bytes.Equal(raw, post.KVMap[k]) {
			o.fail("C13", "kv_frame", "unrelated-key-changed", fmt.Sprintf("key %q changed by %s", k, op.Op), idx)
		}
	}
	if op.Op != "shard" {
		if len(pre.Shards) != len(post.Shards) {
			o.fail("C13", "shard_gate", "defs-changed", fmt.Sprintf("definitions changed by %s", op.Op), idx)
		}
	}
	for id, d := range pre.Shards {
		if n := post.Shards[id]; n == nil || !sameDef(d, n) {
			o.fail("C13", "existing_definition_unaltered", "def-altered", fmt.Sprintf("definition of shard %d altered by %s", id, op.Op), idx)
		}
	}
	// C10: what a host would be given now
	as := make([]string, 0, len(o.addrs))
	for a := range o.addrs {
		as = append(as, a)
	}
	sort.Strings(as)
	for _, a := range as {
		got, p := LookupRequests(db, a)
		if p {
			o.fail("C10", "lookup_total", "lookup-panic", "requests lookup crashed", idx)
			continue
		}
		gs := reqStrs(got)
		if !eqStrs(gs, o.out[a]) {
			o.fail("C10", "reply_is_latest_batch", "wrong-batch", fmt.Sprintf("host %s would receive %v, the latest batch picked up by its last report is %v", a, gs, o.out[a]), idx)
		}
		for _, r := range got {
			if r.RaftAddress != a {
				o.fail("C10", "only_addressee", "foreign-request", fmt.Sprintf("host %s would receive a request addressed to %s", a, r.RaftAddress), idx)
			}
		}
		if len(got) > 0 {
			o.Run.Count("c10:nonempty_reply")
		}
	}
	// C04 / C05 on the view
	if len(post.ShardImage.Shards) != len(o.view) {
		o.fail("C04", "view_mirrors_max", "view-shard-set", fmt.Sprintf("view has %d shards, history gives %d", len(post.ShardImage.Shards), len(o.view)), idx)
	}
	now := post.Tick
	for sid, v := range o.view {
		c := post.ShardImage.Shards[sid]
		if c == nil {
			o.fail("C04", "view_mirrors_max", "view-missing", fmt.Sprintf("shard %d has complete reports but no view", sid), idx)
			continue
		}
		if pc := pre.ShardImage.Shards[sid]; pc != nil && c.ConfigChangeIndex < pc.ConfigChangeIndex {
			o.fail("C04", "cci_monotone", "version-decreased", fmt.Sprintf("shard %d version went %d -> %d", sid, pc.ConfigChangeIndex, c.ConfigChangeIndex), idx)
		}
		if c.ConfigChangeIndex != v.ver {
			o.fail("C04", "view_mirrors_max", "view-version", fmt.Sprintf("shard %d view version %d, highest complete report %d", sid, c.ConfigChangeIndex, v.ver), idx)
			continue
		}
		same := len(c.Replicas) == len(v.members)
		for r, addr := range v.members {
			if cr := c.Replicas[r]; cr == nil || cr.Address != addr {
				same = false
			}
		}
		if !same {
			o.fail("C04", "view_mirrors_max", "view-members", fmt.Sprintf("shard %d view members differ from the membership of version %d", sid, v.ver), idx)
			continue
		}
		leaders, healthy := 0, 0
		for r, cr := range c.Replicas {
			if cr.IsLeader {
				leaders++
			}
			if cr.FirstObserved != v.first[r] {
				o.fail("C04", "first_observed_stable", "first-observed", fmt.Sprintf("replica (%d,%d) first observed %d, history says %d", sid, r, cr.FirstObserved, v.first[r]), idx)
			}
			if cr.Tick != v.lastOwn[r] {
				o.fail("C05", "last_report_recorded", "liveness-record", fmt.Sprintf("replica (%d,%d) recorded report time %d, history says %d", sid, r, cr.Tick, v.lastOwn[r]), idx)
			}
			if cr.Tick > now || cr.FirstObserved > now {
				o.fail("C05", "stored_le_now", "future-tick", fmt.Sprintf("replica (%d,%d) carries a time after now", sid, r), idx)
			}
			lo := v.lastOwn[r]
			switch {
			case lo > 0 && now-lo <= o.TTL:
				healthy++
				o.Run.Count("c05:healthy")
				if now-lo == o.TTL {
					o.Run.Count("c05:healthy_at_ttl_boundary")
				}
			case lo > 0:
				o.Run.Count("c05:failed_stale")
				if now-lo == o.TTL+o.stepOr5() {
					o.Run.Count("c05:failed_one_step_past_ttl")
				}
			case v.first[r] > 0:
				o.Run.Count("c05:waiting")
			default:
				o.Run.Count("c05:failed_never_seen")
			}
		}
		if leaders > 1 {
			o.fail("C04", "at_most_one_leader", "two-leaders", fmt.Sprintf("shard %d has %d leaders", sid, leaders), idx)
		}
		st, p := LookupStates(db, []uint64{sid})
		if p || len(st) != 1 {
			o.fail("C05", "states_total", "states-lookup", fmt.Sprintf("state lookup of shard %d failed", sid), idx)
			continue
		}
		wantOK := 2*healthy > len(v.members)
		if wantOK {
			o.Run.Count("c05:available")
		} else {
			o.Run.Count("c05:unavailable")
		}
		if 2*healthy == len(v.members)+1 || 2*healthy == len(v.members) || 2*healthy == len(v.members)-1 {
			o.Run.Count("c05:majority_boundary")
		}
		if (st[0].State == pb.ShardState_OK) != wantOK {
			o.fail("C05", "available_iff_strict_majority", "availability", fmt.Sprintf("shard %d reported available=%v with %d healthy of %d members at time %d", sid, st[0].State == pb.ShardState_OK, healthy, len(v.members), now), idx)
		}
		if st[0].ConfigChangeIndex != v.ver || len(st[0].Replicas) != len(v.members) {
			o.fail("C04", "view_mirrors_max", "state-answer", fmt.Sprintf("shard state answer for %d does not carry the view", sid), idx)
		}
	}
	// the time the scheduler is given is the clock: one fixed step per tick, seen by every observer at once
	if ctx, p := LookupContext(db); !p && ctx != nil {
		var sc struct{ Tick uint64 }
		if json.Unmarshal(ctx, &sc) == nil {
			o.Run.Count("c05:context_time_checked")
			if sc.Tick != post.Tick {
				o.fail("C05", "time_advances_by_ticks", "context-time-not-the-clock", fmt.Sprintf("after %s the DB's logical time is %d, the scheduler context it serves says %d", op.Op, post.Tick, sc.Tick), idx)
			}
		}
	}
	// host records: time of the last report, never in the future
	for a, h := range post.NodeHostImage.Nodehosts {
		if h.Tick > now {
			o.fail("C05", "stored_le_now", "future-host-tick", fmt.Sprintf("host %s carries a time after now", a), idx)
		}
	}
	// C09: a cancelled or never armed deadline stays 0 unless a launch batch is accepted
	if op.Op != "reqs" && pre.LaunchDeadline == 0 && post.LaunchDeadline != 0 {
		o.fail("C09", "deadline_cancelled_for_good", "deadline-rearmed", fmt.Sprintf("deadline re-armed by %s", op.Op), idx)
	}
	if post.Failed {
		o.fail("C09", "failed_only_by_deadline", "failed-flag", "failed flag set on a live DB", idx)
	}
}

func (o *Oracle) stepOr5() uint64 {
	if o.Step == 0 {
		return 5
	}
	return o.Step
}
