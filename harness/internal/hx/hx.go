// Package hx holds what every correspondence driver shares: the run directory
// layout, the seeded PRNG, counters and the oracle report file.
package hx

import (
	"bufio"
	"encoding/json"
	"fmt"
	"io"
	"math/rand"
	"os"
	"path/filepath"
	"sort"
	"strconv"
)

// Run is one harness run writing ops.jsonl, go.out, stats.json and oracle.jsonl
// into a directory.
type Run struct {
	Dir      string
	Ops      *bufio.Writer
	Out      *bufio.Writer
	opsF     *os.File
	outF     *os.File
	Counts   map[string]int
	Samples  []interface{}
	Distinct map[string]struct{}
	Viol     []Violation
	Extra    map[string]interface{}
}

// Violation is one failing input found by a Go-side oracle on the real code.
type Violation struct {
	Property  string      `json:"property"`
	Clause    string      `json:"clause"`
	What      string      `json:"what"`
	Signature string      `json:"signature"`
	Seq       int         `json:"seq"`
	OpIndex   int         `json:"op_index"`
	Ops       interface{} `json:"ops,omitempty"`
}

func NewRun(dir string) *Run {
	if err := os.MkdirAll(dir, 0o755); err != nil {
		panic(err)
	}
	of, err := os.Create(filepath.Join(dir, "ops.jsonl"))
	if err != nil {
		panic(err)
	}
	gf, err := os.Create(filepath.Join(dir, "go.out"))
	if err != nil {
		panic(err)
	}
	return &Run{Dir: dir, opsF: of, outF: gf, Ops: bufio.NewWriterSize(of, 1<<20), Out: bufio.NewWriterSize(gf, 1<<20),
		Counts: map[string]int{}, Distinct: map[string]struct{}{}, Extra: map[string]interface{}{}}
}

func (r *Run) Count(k string)      { r.Counts[k]++ }
func (r *Run) Add(k string, n int) { r.Counts[k] += n }

// Nontrivial registers a distinct non-trivial case by its key.
func (r *Run) Nontrivial(key string) { r.Distinct[key] = struct{}{} }

func (r *Run) Sample(s interface{}) {
	if len(r.Samples) < 3 {
		r.Samples = append(r.Samples, s)
	}
}

func (r *Run) Violate(v Violation) {
	// keep the first few failing inputs of every signature (a run may hit one defect thousands of times)
	k := "viol:" + v.Property + ":" + v.Signature
	if r.Counts[k] < 4 && len(r.Viol) < 200 {
		r.Viol = append(r.Viol, v)
		// written at once as well: a harness that dies or hangs later must not take its findings with it
		if f, err := os.OpenFile(filepath.Join(r.Dir, "oracle.partial.jsonl"), os.O_APPEND|os.O_CREATE|os.O_WRONLY, 0o644); err == nil {
			if b, err := json.Marshal(v); err == nil {
				f.Write(b)
				f.Write([]byte("\n"))
			}
			f.Close()
		}
	}
	r.Counts[k]++
	r.Counts["oracle_violations:"+v.Property]++
}

func (r *Run) OpLine(v interface{}) {
	b, err := json.Marshal(v)
	if err != nil {
		panic(err)
	}
	r.Ops.Write(b)
	r.Ops.WriteByte('\n')
}

func (r *Run) OutLine(s string) {
	r.Out.WriteString(s)
	r.Out.WriteByte('\n')
}

func (r *Run) Close() {
	r.Ops.Flush()
	r.Out.Flush()
	r.opsF.Close()
	r.outF.Close()
	st := map[string]interface{}{"counts": r.Counts, "samples": r.Samples, "distinct_nontrivial": len(r.Distinct), "extra": r.Extra}
	b, _ := json.MarshalIndent(st, "", " ")
	if err := os.WriteFile(filepath.Join(r.Dir, "stats.json"), b, 0o644); err != nil {
		panic(err)
	}
	f, err := os.Create(filepath.Join(r.Dir, "oracle.jsonl"))
	if err != nil {
		panic(err)
	}
	for _, v := range r.Viol {
		b, _ := json.Marshal(v)
		f.Write(b)
		f.Write([]byte("\n"))
	}
	f.Close()
}

// Seed returns VERIF_SEED (default 1).
func Seed() int64 {
	if s := os.Getenv("VERIF_SEED"); s != "" {
		if n, err := strconv.ParseInt(s, 10, 64); err == nil {
			return n
		}
	}
	return 1
}

// Rng derives the PRNG of case number i from the run seed: every random choice
// of a case comes from this one state, so a case replays exactly.
func Rng(seed int64, i int) *rand.Rand {
	return rand.New(rand.NewSource(seed*1000003 + int64(i)))
}

func SortedKeysU(m map[uint64]struct{}) []uint64 {
	ks := make([]uint64, 0, len(m))
	for k := range m {
		ks = append(ks, k)
	}
	sort.Slice(ks, func(i, j int) bool { return ks[i] < ks[j] })
	return ks
}

func Die(format string, a ...interface{}) {
	fmt.Fprintf(os.Stderr, format+"\n", a...)
	os.Exit(2)
}

// ShortReader hands out data in short, irregular reads (1..4096 bytes, sometimes a single byte): what a snapshot
// image looks like when it arrives through a file or network stream rather than a bytes.Buffer. io.Reader allows
// every Read to return fewer bytes than asked for; code that ignores the returned count only works on in-memory readers.
type ShortReader struct {
	data []byte
	pos  int
	st   uint64
}

func NewShortReader(data []byte) *ShortReader {
	return &ShortReader{data: data, st: uint64(len(data))*2654435761 + 12345}
}

func (s *ShortReader) Read(p []byte) (int, error) {
	if s.pos >= len(s.data) {
		return 0, io.EOF
	}
	if len(p) == 0 {
		return 0, nil
	}
	s.st = s.st*6364136223846793005 + 1442695040888963407
	n := int((s.st>>33)%4096) + 1
	if (s.st>>20)%16 == 0 {
		n = 1
	}
	if n > len(p) {
		n = len(p)
	}
	if n > len(s.data)-s.pos {
		n = len(s.data) - s.pos
	}
	copy(p, s.data[s.pos:s.pos+n])
	s.pos += n
	return n, nil
}
