// Package nhx starts throw-away in-process dragonboat NodeHosts for the
// real-NodeHost harnesses.
package nhx

import (
	"context"
	"fmt"
	"net"
	"os"
	"sync"
	"time"

	"github.com/lni/dragonboat/v4"
	"github.com/lni/dragonboat/v4/config"
	"github.com/lni/dragonboat/v4/logger"
	sm "github.com/lni/dragonboat/v4/statemachine"
	drummer "github.com/lni/drummer/v3"
)

func Quiet() {
	for _, n := range []string{"raft", "rsm", "transport", "dragonboat", "logdb", "config", "grpc", "drummer", "drummer/client", "tests", "pebble", "raftpb", "settings", "utils"} {
		logger.GetLogger(n).SetLevel(logger.CRITICAL)
	}
}

// FreeAddr returns a loopback address with a port that is free right now.
func FreeAddr() string {
	l, err := net.Listen("tcp", "127.0.0.1:0")
	if err != nil {
		panic(err)
	}
	a := l.Addr().String()
	l.Close()
	return a
}

type Host struct {
	NH   *dragonboat.NodeHost
	Dir  string
	Addr string
}

func (h *Host) Close() {
	h.NH.Close()
	os.RemoveAll(h.Dir)
}

// NewHost starts a NodeHost on a fresh directory (retrying on a port clash).
func NewHost(rtt uint64) *Host {
	var last error
	for i := 0; i < 20; i++ {
		dir, _ := os.MkdirTemp("", "nhx")
		addr := FreeAddr()
		nh, err := dragonboat.NewNodeHost(config.NodeHostConfig{WALDir: dir, NodeHostDir: dir, RTTMillisecond: rtt, RaftAddress: addr,
			Expert: config.ExpertConfig{LogDB: config.GetTinyMemLogDBConfig()}})
		if err == nil {
			return &Host{NH: nh, Dir: dir, Addr: addr}
		}
		last = err
		os.RemoveAll(dir)
	}
	panic(fmt.Sprintf("cannot start a NodeHost: %v", last))
}

// NewDrummerDBHost starts a NodeHost running a single-replica Drummer DB
// (shard 0) and waits until it has a leader.
func NewDrummerDBHost() *Host { return NewDrummerDBHostLimit(0) }

// NewDrummerDBHostLimit: as NewDrummerDBHost, with the shard's MaxInMemLogSize set (0 = unlimited) so that oversized
// proposals are refused by dragonboat (ErrPayloadTooBig / ErrSystemBusy): a way to make an update fail.
func NewDrummerDBHostLimit(maxInMem uint64) *Host {
	h := NewHost(2)
	if err := h.NH.StartReplica(map[uint64]string{1: h.Addr}, false, drummer.NewDB,
		config.Config{ReplicaID: 1, ShardID: 0, ElectionRTT: 10, HeartbeatRTT: 1, MaxInMemLogSize: maxInMem}); err != nil {
		panic(err)
	}
	for i := 0; i < 2000; i++ {
		ctx, cancel := context.WithTimeout(context.Background(), time.Second)
		_, err := h.NH.SyncGetSession(ctx, 0)
		cancel()
		if err == nil {
			return h
		}
		time.Sleep(5 * time.Millisecond)
	}
	panic("drummer DB shard did not become ready")
}

// ReopenHost restarts a NodeHost on an existing directory (data preserved).
func ReopenHost(dir, addr string, rtt uint64) *Host {
	var last error
	for i := 0; i < 50; i++ {
		nh, err := dragonboat.NewNodeHost(config.NodeHostConfig{WALDir: dir, NodeHostDir: dir, RTTMillisecond: rtt, RaftAddress: addr,
			Expert: config.ExpertConfig{LogDB: config.GetTinyMemLogDBConfig()}})
		if err == nil {
			return &Host{NH: nh, Dir: dir, Addr: addr}
		}
		last = err
		time.Sleep(100 * time.Millisecond)
	}
	panic(fmt.Sprintf("cannot reopen the NodeHost: %v", last))
}

// slowDB wraps the Drummer DB: the next `*Delay` updates are held back for that long before they are applied.
type slowDB struct {
	sm.IStateMachine
	hold *SlowControl
}

// SlowControl holds back updates of a wrapped Drummer DB.
type SlowControl struct {
	mu    sync.Mutex
	left  int
	delay time.Duration
}

// HoldNext makes the next n updates wait d before they are applied.
func (c *SlowControl) HoldNext(n int, d time.Duration) {
	c.mu.Lock()
	c.left, c.delay = n, d
	c.mu.Unlock()
}

func (s *slowDB) Update(e sm.Entry) (sm.Result, error) {
	s.hold.mu.Lock()
	d := time.Duration(0)
	if s.hold.left > 0 {
		s.hold.left--
		d = s.hold.delay
	}
	s.hold.mu.Unlock()
	if d > 0 {
		time.Sleep(d)
	}
	return s.IStateMachine.Update(e)
}

// NewSlowDrummerDBHost: a Drummer DB whose updates can be held back (a proposal that is applied after its caller gave up).
func NewSlowDrummerDBHost() (*Host, *SlowControl) {
	c := &SlowControl{}
	h := NewHost(2)
	if err := h.NH.StartReplica(map[uint64]string{1: h.Addr}, false, func(sid, rid uint64) sm.IStateMachine {
		return &slowDB{drummer.NewDB(sid, rid), c}
	}, config.Config{ReplicaID: 1, ShardID: 0, ElectionRTT: 10, HeartbeatRTT: 1}); err != nil {
		panic(err)
	}
	for i := 0; i < 2000; i++ {
		ctx, cancel := context.WithTimeout(context.Background(), time.Second)
		_, err := h.NH.SyncGetSession(ctx, 0)
		cancel()
		if err == nil {
			return h, c
		}
		time.Sleep(5 * time.Millisecond)
	}
	panic("drummer DB shard did not become ready")
}
