// Package schedx evaluates, on what the real scheduler produced for a real
// scheduler context, the conclusions of the scheduler-level property theorems
// (C02 per decision, C08, C11 kill requests, C12). The oracles are functions of
// the context (as the DB answers the SCHEDULER_CONTEXT query), the
// classification the scheduler computed (read back through the hook) and the
// requests; they never look at the Lean model.
package schedx

import (
	"encoding/json"
	"fmt"
	"sort"
	"strings"

	drummer "github.com/lni/drummer/v3"
	pb "github.com/lni/drummer/v3/drummerpb"
	"github.com/lni/drummer/v3/settings"
	"verif/harness/internal/dbx"
	"verif/harness/internal/hx"
)

// Context is the decoded SCHEDULER_CONTEXT answer.
type Context struct {
	Tick       uint64
	Shards     map[uint64]*pb.Shard
	Regions    *pb.Regions
	ShardImage struct {
		Shards         map[uint64]*dbx.DShard
		ReplicasToKill []dbx.DKill
	}
	NodeHostImage struct {
		Nodehosts map[string]*dbx.DHost
	}
}

func ParseContext(data []byte) *Context {
	var c Context
	if err := json.Unmarshal(data, &c); err != nil {
		panic(err)
	}
	return &c
}

var TTL = settings.Soft.NodeHostTTL

func (c *Context) live(h *dbx.DHost) bool      { return c.Tick-h.Tick < TTL }    // placement (liveFilter)
func (c *Context) available(h *dbx.DHost) bool { return !(c.Tick-h.Tick > TTL) } // restore (nodeHostSpec.available)
func hosts(h *dbx.DHost, sid uint64) bool      { _, ok := h.Shards[sid]; return ok }
func hasLog(h *dbx.DHost, s, r uint64) bool {
	for _, l := range h.PersistentLog {
		if l.ShardId == s && l.ReplicaId == r {
			return true
		}
	}
	return false
}

type classes struct{ failed, ok, waiting map[uint64]bool }

func classOf(res *drummer.VerifSchedResult) map[uint64]*classes {
	m := map[uint64]*classes{}
	for _, r := range res.Repairs {
		c := &classes{map[uint64]bool{}, map[uint64]bool{}, map[uint64]bool{}}
		for _, x := range r.Failed {
			c.failed[x] = true
		}
		for _, x := range r.OK {
			c.ok[x] = true
		}
		for _, x := range r.ToStart {
			c.waiting[x] = true
		}
		m[r.ShardID] = c
	}
	return m
}

type Judge struct {
	Draws             []uint64 // the scripted draws of this round (launch: to follow the planner)
	Run *hx.Run
	Seq int
	Idx int
	Ops interface{}
	// ConsistentHistory: the reports Drummer received come from one membership history per shard (ordered changes, a removed
	// id never returns), as reports of real NodeHosts do. With arbitrary random reports an id can leave the view and come
	// back, so an entry recorded while it was away names a member again: outside what C11 quantifies over.
	ConsistentHistory bool
	// Also: findings (by signature) that are raised under further properties as well, where the caller's setting makes them
	// a failing input of those too
	Also map[string][]string
}

func (j *Judge) fail(prop, clause, sig, what string) {
	j.Run.Violate(hx.Violation{Property: prop, Clause: clause, Signature: sig, What: what, Seq: j.Seq, OpIndex: j.Idx, Ops: j.Ops})
	for _, p := range j.Also[sig] {
		if p != prop {
			j.Run.Violate(hx.Violation{Property: p, Clause: clause, Signature: sig, What: what, Seq: j.Seq, OpIndex: j.Idx, Ops: j.Ops})
		}
	}
}

func eqU(a, b []uint64) bool {
	if len(a) != len(b) {
		return false
	}
	for i := range a {
		if a[i] != b[i] {
			return false
		}
	}
	return true
}

// Launch judges one launch() result (C08).
func (j *Judge) Launch(c *Context, res *drummer.VerifSchedResult, exhausted bool) {
	run := j.Run
	if res.Panic != "" && exhausted && c.Regions != nil {
		// running out of 80 draws is inconclusive for a sane specification (rejection sampling), but a count beyond any shard
		// size must be refused before a single host is drawn
		for _, n := range c.Regions.Count {
			if n > 1<<32 {
				j.fail("C08", "launch_total", "launch-runs-away-on-huge-count", fmt.Sprintf("a region count of %d (beyond any shard size; negative as a signed integer) was not refused: the planner kept drawing hosts until the scripted random source ran dry", n))
				return
			}
		}
	}
	if res.Panic != "" && exhausted && c.Regions != nil && len(c.Regions.Region) == len(c.Regions.Count) {
		// running out of draws is inconclusive only while the planner is sampling for an entry that can be satisfied. Follow the
		// planner through the shards in its own order: an entry with fewer suitable hosts than its count is given up without a
		// draw, any other entry takes draws until `count` distinct hosts are hit. A shard with an entry that cannot be satisfied
		// has to be refused when its entries are done; if the scripted draws last that far, running dry means the planner never
		// stops drawing for a placement that does not exist.
		pos := 0
		for _, sid := range res.ShardsOrder {
			def := c.Shards[sid]
			if def == nil {
				break
			}
			short := ""
			for i, reg := range c.Regions.Region {
				cnt := c.Regions.Count[i]
				if cnt > uint64(len(def.Members)) {
					short = fmt.Sprintf("region %s wants %d of %d members", reg, cnt, len(def.Members))
					break
				}
				n := uint64(0)
				for _, h := range c.NodeHostImage.Nodehosts {
					if h.Region == reg && c.live(h) && !hosts(h, sid) {
						n++
					}
				}
				if n < cnt {
					short = fmt.Sprintf("region %s has %d suitable NodeHosts for %d members", reg, n, cnt)
					continue
				}
				hit := map[uint64]bool{}
				for uint64(len(hit)) < cnt && pos < len(j.Draws) {
					hit[j.Draws[pos]%n] = true
					pos++
				}
				if uint64(len(hit)) < cnt {
					pos = len(j.Draws) + 1 // ran dry while sampling for a satisfiable entry: inconclusive
					break
				}
			}
			if pos > len(j.Draws) {
				break
			}
			if short != "" {
				j.fail("C08", "launch_total", "launch-runs-away-when-unplaceable", fmt.Sprintf("shard %d cannot be placed (%s) and the scripted draws (%d of %d used by then) last until the planner has to refuse: it kept drawing hosts until the random source ran dry instead", sid, short, pos, len(j.Draws)))
				return
			}
		}
	}
	if res.Panic != "" {
		if exhausted {
			run.Count("c08:draws_exhausted")
			return
		}
		run.Count("c08:launch_panic")
		j.fail("C08", "launch_total", "launch-crash", "launch planning crashed: "+res.Panic)
		return
	}
	// what the specification demands of the region specification
	ids := make([]uint64, 0, len(c.Shards))
	for id := range c.Shards {
		ids = append(ids, id)
	}
	sort.Slice(ids, func(a, b int) bool { return ids[a] < ids[b] })
	specBad := ""
	if len(ids) > 0 {
		switch {
		case c.Regions == nil:
			specBad = "absent"
		case len(c.Regions.Region) != len(c.Regions.Count):
			specBad = "length-mismatch"
		default:
			sum := uint64(0)
			huge := false
			for _, n := range c.Regions.Count {
				if n > 1<<32 {
					huge = true // no wrapping around in the oracle's own sum
				}
				sum += n
			}
			for _, id := range ids {
				if huge || sum != uint64(len(c.Shards[id].Members)) {
					specBad = "sum-mismatch"
				}
			}
		}
	}
	if res.Err != "" {
		run.Count("c08:launch_refused")
		run.Count("c08:refused:" + res.Err)
		if len(res.Requests) != 0 {
			j.fail("C08", "launch_all_or_nothing", "partial-plan", "launch refused with an error but returned requests")
		}
		return
	}
	run.Count("c08:launch_planned")
	if specBad != "" {
		j.fail("C08", "refusal_complete", "bad-spec-accepted:"+specBad, "a launch plan was produced although the region specification is "+specBad)
		return
	}
	by := map[uint64][]*pb.NodeHostRequest{}
	for _, r := range res.Requests {
		if r.Change == nil || r.Change.Type != pb.Request_CREATE || r.Join || r.Restore {
			j.fail("C08", "plan_valid", "non-launch-request", "a launch plan contains a request that is not a plain start request")
			return
		}
		by[r.Change.ShardId] = append(by[r.Change.ShardId], r)
	}
	for sid := range by {
		if _, ok := c.Shards[sid]; !ok {
			j.fail("C08", "plan_valid", "undefined-shard", fmt.Sprintf("the plan starts shard %d which is not defined", sid))
		}
	}
	for _, sid := range ids {
		def := c.Shards[sid]
		rs := by[sid]
		if len(rs) != len(def.Members) {
			j.fail("C08", "plan_complete", "wrong-request-count", fmt.Sprintf("shard %d has %d members, the plan has %d start requests", sid, len(def.Members), len(rs)))
			continue
		}
		seen := map[string]bool{}
		perRegion := map[string]uint64{}
		for i, r := range rs {
			if r.InstantiateReplicaId != def.Members[i] {
				j.fail("C08", "plan_valid", "member-order", fmt.Sprintf("shard %d request %d instantiates %d, member is %d", sid, i, r.InstantiateReplicaId, def.Members[i]))
			}
			if seen[r.RaftAddress] {
				j.fail("C08", "plan_valid", "host-used-twice", fmt.Sprintf("shard %d places two members on %s", sid, r.RaftAddress))
			}
			seen[r.RaftAddress] = true
			h := c.NodeHostImage.Nodehosts[r.RaftAddress]
			if h == nil {
				j.fail("C08", "plan_valid", "unknown-host", fmt.Sprintf("shard %d placed on unknown host %s", sid, r.RaftAddress))
				continue
			}
			if !c.live(h) {
				j.fail("C08", "plan_valid", "dead-host", fmt.Sprintf("shard %d placed on %s, silent for %d", sid, r.RaftAddress, c.Tick-h.Tick))
				if c.Tick-h.Tick > TTL {
					j.fail("C05", "silent_host_never_used", "silent-host-used-for-placement", fmt.Sprintf("launch places shard %d on %s which has been silent for %d (timeout %d)", sid, r.RaftAddress, c.Tick-h.Tick, TTL))
				}
			}
			if hosts(h, sid) {
				j.fail("C08", "plan_valid", "host-already-hosts-shard", fmt.Sprintf("shard %d placed on %s which already hosts it", sid, r.RaftAddress))
			}
			perRegion[h.Region]++
			if !eqU(r.ReplicaIdList, rs[0].ReplicaIdList) || fmt.Sprint(r.AddressList) != fmt.Sprint(rs[0].AddressList) {
				j.fail("C08", "plan_valid", "member-map-differs", fmt.Sprintf("requests of shard %d carry different member-to-address maps", sid))
			}
			if !eqU(r.ReplicaIdList, def.Members) || len(r.AddressList) != len(def.Members) || (i < len(r.AddressList) && r.AddressList[i] != r.RaftAddress) {
				j.fail("C08", "plan_valid", "member-map-wrong", fmt.Sprintf("request %d of shard %d: member-to-address map does not pair member i with target i", i, sid))
			}
			if r.AppName != def.AppName || r.AppName == "" || r.InstantiateReplicaId == 0 || r.RaftAddress == "" {
				j.fail("C08", "plan_valid", "request-invalid", fmt.Sprintf("request %d of shard %d would not pass request validation", i, sid))
			}
		}
		want := map[string]uint64{}
		for i, reg := range c.Regions.Region {
			want[reg] += c.Regions.Count[i]
		}
		for reg, n := range want {
			if perRegion[reg] != n {
				j.fail("C08", "region_quota", "quota", fmt.Sprintf("shard %d: %d members placed in region %s, quota %d", sid, perRegion[reg], reg, n))
			}
		}
		for reg, n := range perRegion {
			if want[reg] != n {
				j.fail("C08", "region_quota", "quota", fmt.Sprintf("shard %d: %d members placed in region %s, quota %d", sid, n, reg, want[reg]))
			}
		}
	}
	if len(res.Requests) > 0 {
		run.Count("c08:nonempty_plan")
	}
}

// Maintain judges one maintainShards() result (C02, C11, C12).
func (j *Judge) Maintain(c *Context, res *drummer.VerifSchedResult, exhausted bool, draws []uint64) {
	run := j.Run
	if res.Panic != "" {
		if exhausted {
			run.Count("sched:draws_exhausted")
			return
		}
		if strings.Contains(res.Panic, "failed to locate the shard") {
			// a running shard without a definition: outside the scheduler's precondition (shards are
			// started from their definitions); the model panics at the same point
			run.Count("sched:undefined_shard_in_view")
			return
		}
		run.Count("sched:maintain_panic")
		// the only sanctioned crash: validation of a request the scheduler itself built
		j.fail("C02", "maintain_total", "maintain-crash:"+res.Panic, "maintenance crashed: "+res.Panic)
		return
	}
	if res.Err != "" {
		run.Count("sched:maintain_error")
		if res.Err == "not enough node host" {
			// C05 "a NodeHost that reported more recently than the timeout is eligible": the only way to this error is a
			// replacement that found no host; a host that reported less than the timeout ago and hosts nothing at all is
			// suitable for every shard, so the search cannot have come back empty
			names := []string{}
			for a := range c.NodeHostImage.Nodehosts {
				names = append(names, a)
			}
			sort.Strings(names)
			for _, a := range names {
				h := c.NodeHostImage.Nodehosts[a]
				if h.Tick <= c.Tick && c.live(h) && len(h.Shards) == 0 {
					run.Count("c05:eligible_host_checked")
					why := fmt.Sprintf("the round failed with %q although NodeHost %s reported %d logical seconds ago (timeout %d) and hosts no replica of any shard: a recent host was not eligible for placement", res.Err, a, c.Tick-h.Tick, TTL)
					j.fail("C05", "recent_host_eligible", "recent-host-not-eligible-for-placement", why)
					j.fail("C01", "no_silent_stall", "recent-host-not-eligible-for-placement", why)
					break
				}
			}
		}
		return
	}
	cls := classOf(res)
	// C05 class partition, on the scheduler's own classification: every member of a view listed for repair is in exactly
	// one of failed / healthy / waiting-to-be-started
	for _, rp := range res.Repairs {
		seen := map[uint64]int{}
		for _, l := range [][]uint64{rp.Failed, rp.OK, rp.ToStart} {
			for _, x := range l {
				seen[x]++
			}
		}
		if v := c.ShardImage.Shards[rp.ShardID]; v != nil {
			run.Count("c05:classification_checked")
			for rid := range v.Replicas {
				if seen[rid] != 1 {
					j.fail("C05", "class_partition", "member-not-in-exactly-one-class", fmt.Sprintf("shard %d: member %d is in %d of the scheduler's classes (failed %v, healthy %v, waiting %v)", rp.ShardID, rid, seen[rid], rp.Failed, rp.OK, rp.ToStart))
					break
				}
			}
		}
	}
	// ... and that classification is the one the views dictate at this round's logical time (C05), not one left over from
	// an earlier round: what the round decides is justified by the view it was computed from (C02, C12)
	{
		want := map[uint64][3]map[uint64]bool{}
		for sid, v := range c.ShardImage.Shards {
			f, o, w := map[uint64]bool{}, map[uint64]bool{}, map[uint64]bool{}
			for rid, m := range v.Replicas {
				failed := (m.Tick == 0 && m.FirstObserved == 0) || (m.Tick != 0 && c.Tick-m.Tick > TTL)
				switch {
				case failed:
					f[rid] = true
				case m.Tick == 0:
					w[rid] = true
				default:
					o[rid] = true
				}
			}
			if len(f) > 0 || len(w) > 0 {
				want[sid] = [3]map[uint64]bool{f, o, w}
			}
		}
		same := len(want) == len(cls)
		why := fmt.Sprintf("%d views need repair, the scheduler lists %d", len(want), len(cls))
		for sid, k := range cls {
			x, ok := want[sid]
			if !ok {
				same, why = false, fmt.Sprintf("shard %d is listed for repair but its view has no failed or waiting member", sid)
				break
			}
			eq := func(a, b map[uint64]bool) bool {
				if len(a) != len(b) {
					return false
				}
				for q := range a {
					if !b[q] {
						return false
					}
				}
				return true
			}
			if !eq(k.failed, x[0]) || !eq(k.ok, x[1]) || !eq(k.waiting, x[2]) {
				same, why = false, fmt.Sprintf("shard %d: the scheduler has failed %v healthy %v waiting %v, the view at time %d gives failed %v healthy %v waiting %v", sid, keys(k.failed), keys(k.ok), keys(k.waiting), c.Tick, keys(x[0]), keys(x[1]), keys(x[2]))
				break
			}
		}
		run.Count("c05:round_classification_checked")
		if !same {
			j.fail("C05", "class_follows_view", "round-classification-not-the-views", why)
			j.fail("C12", "decision_input", "round-classification-not-the-views", why)
			j.fail("C02", "decision_input", "round-classification-not-the-views", why)
		}
	}
	restored := map[uint64]int{}
	changes := map[uint64]int{}
	kills := map[dbx.DKill]int{}
	restoreFor := map[[2]uint64]bool{}
	for _, r := range res.Requests {
		sid := r.Change.ShardId
		v := c.ShardImage.Shards[sid]
		k := cls[sid]
		switch {
		case r.Change.Type == pb.Request_KILL:
			run.Count("c11:kill_request")
			if len(r.Change.Members) != 1 {
				j.fail("C11", "kill_shape", "kill-shape", "kill request without exactly one target")
				continue
			}
			e := dbx.DKill{ShardID: sid, ReplicaID: r.Change.Members[0], Address: r.RaftAddress}
			kills[e]++
			if v != nil {
				if m, ok := v.Replicas[e.ReplicaID]; ok && !j.ConsistentHistory {
					run.Count("c11:recorded_stray_is_member_again_inconsistent_reports")
				} else if ok {
					j.fail("C11", "member_never_killed", "member-killed", fmt.Sprintf("kill request for (%d,%d) which is a member of the view (at %s)", sid, e.ReplicaID, m.Address))
				}
			}
		case r.Change.Type == pb.Request_CREATE && r.Restore:
			run.Count("c12:restore_request")
			restored[sid]++
			rid := r.InstantiateReplicaId
			restoreFor[[2]uint64{sid, rid}] = true
			if v == nil || k == nil {
				j.fail("C12", "restore_target_ok", "restore-unknown-shard", fmt.Sprintf("restore for shard %d which needs no repair", sid))
				continue
			}
			m := v.Replicas[rid]
			if m == nil || !k.failed[rid] {
				j.fail("C12", "restore_target_ok", "restore-not-failed", fmt.Sprintf("restore request for (%d,%d) which is not classified failed", sid, rid))
				continue
			}
			h := c.NodeHostImage.Nodehosts[m.Address]
			if h == nil || !c.available(h) {
				j.fail("C12", "restore_target_ok", "restore-dead-host", fmt.Sprintf("restore request for (%d,%d) on %s which is not live", sid, rid, m.Address))
				if h != nil && c.Tick-h.Tick > TTL {
					j.fail("C05", "silent_host_never_used", "silent-host-used-for-restore", fmt.Sprintf("restore request for (%d,%d) on %s which has been silent for %d (timeout %d)", sid, rid, m.Address, c.Tick-h.Tick, TTL))
				}
			} else if !hasLog(h, sid, rid) {
				j.fail("C12", "restore_target_ok", "restore-without-log", fmt.Sprintf("restore request for (%d,%d) on %s which reported no persisted log for it", sid, rid, m.Address))
			}
			if r.Join || r.RaftAddress != m.Address {
				j.fail("C12", "restore_shape", "restore-shape", fmt.Sprintf("restore request for (%d,%d): join=%v addressed to %s", sid, rid, r.Join, r.RaftAddress))
			}
			if def := c.Shards[sid]; def == nil || r.AppName != def.AppName {
				j.fail("C12", "restore_shape", "restore-app", fmt.Sprintf("restore request for (%d,%d) carries app %q", sid, rid, r.AppName))
			}
			if len(r.ReplicaIdList) != len(v.Replicas) || len(r.AddressList) != len(v.Replicas) {
				j.fail("C12", "restore_shape", "restore-membership", fmt.Sprintf("restore request for (%d,%d) does not carry the view's membership", sid, rid))
			} else {
				for i, id := range r.ReplicaIdList {
					if vm := v.Replicas[id]; vm == nil || vm.Address != r.AddressList[i] {
						j.fail("C12", "restore_shape", "restore-membership", fmt.Sprintf("restore request for (%d,%d) does not carry the view's membership", sid, rid))
						break
					}
				}
			}
		case r.Change.Type == pb.Request_CREATE && r.Join:
			run.Count("c02:join_create")
			changes[sid]++
			rid := r.InstantiateReplicaId
			if v == nil || k == nil || !k.waiting[rid] {
				j.fail("C02", "create_justified", "join-not-waiting", fmt.Sprintf("join start for (%d,%d) which is not waiting to be started", sid, rid))
				continue
			}
			if m := v.Replicas[rid]; m == nil || m.Address != r.RaftAddress {
				j.fail("C02", "create_justified", "join-wrong-host", fmt.Sprintf("join start for (%d,%d) sent to %s", sid, rid, r.RaftAddress))
			}
		case r.Change.Type == pb.Request_CREATE:
			j.fail("C09", "never_mixed", "launch-request-in-maintenance", "maintenance produced a launch request")
		case r.Change.Type == pb.Request_DELETE:
			run.Count("c02:delete")
			changes[sid]++
			def := c.Shards[sid]
			if v == nil || k == nil || def == nil || len(r.Change.Members) != 1 {
				j.fail("C02", "delete_justified", "delete-unknown", fmt.Sprintf("remove-member request for shard %d without a view needing repair", sid))
				continue
			}
			t := r.Change.Members[0]
			if !k.failed[t] {
				j.fail("C02", "delete_justified", "delete-not-failed", fmt.Sprintf("remove-member request targets (%d,%d) which is not classified failed", sid, t))
			}
			if m := v.Replicas[t]; m != nil {
				// "a removal targets only a replica whose NodeHost has been silent": a member whose NodeHost reported within the
				// timeout and lists the replica's log is restarted from its data (a restore), never removed
				if h := c.NodeHostImage.Nodehosts[m.Address]; h != nil && c.available(h) && hasLog(h, sid, t) {
					why := fmt.Sprintf("remove-member request targets (%d,%d) on %s, a NodeHost that reported %d logical seconds ago (timeout %d) and lists the replica's log: the member can be restarted from its data", sid, t, m.Address, c.Tick-h.Tick, TTL)
					j.fail("C02", "delete_justified", "delete-targets-restorable-member", why)
					j.fail("C12", "restore_excludes_repair", "delete-targets-restorable-member", why)
				}
			}
			if !(2*len(k.ok) > len(v.Replicas)) {
				j.fail("C02", "delete_justified", "delete-without-majority", fmt.Sprintf("remove-member request for shard %d with %d healthy of %d", sid, len(k.ok), len(v.Replicas)))
			}
			if !(len(k.failed)+len(k.ok) > len(def.Members)) {
				j.fail("C02", "delete_justified", "delete-below-size", fmt.Sprintf("remove-member request for shard %d: failed %d + healthy %d not above size %d", sid, len(k.failed), len(k.ok), len(def.Members)))
			}
			j.fence(c, r, k, v, "delete")
		case r.Change.Type == pb.Request_ADD:
			run.Count("c02:add")
			changes[sid]++
			def := c.Shards[sid]
			if v == nil || k == nil || def == nil || len(r.Change.Members) != 1 || len(r.AddressList) != 1 {
				j.fail("C02", "add_justified", "add-unknown", fmt.Sprintf("add-member request for shard %d without a view needing repair", sid))
				continue
			}
			if !(2*len(k.ok) > len(v.Replicas)) || len(k.waiting) != 0 || len(k.failed) == 0 {
				j.fail("C02", "add_justified", "add-unjustified", fmt.Sprintf("add-member request for shard %d with healthy %d failed %d waiting %d of %d", sid, len(k.ok), len(k.failed), len(k.waiting), len(v.Replicas)))
			}
			if len(k.failed)+len(k.ok) > len(def.Members) {
				j.fail("C02", "size_bound", "add-over-size", fmt.Sprintf("add-member request for shard %d which already has a surplus member", sid))
			}
			h := c.NodeHostImage.Nodehosts[r.AddressList[0]]
			if h == nil || !c.live(h) {
				j.fail("C02", "add_justified", "add-dead-host", fmt.Sprintf("add-member request for shard %d onto %s which is not live", sid, r.AddressList[0]))
				if h != nil && c.Tick-h.Tick > TTL {
					j.fail("C05", "silent_host_never_used", "silent-host-used-for-placement", fmt.Sprintf("add-member request for shard %d onto %s which has been silent for %d (timeout %d)", sid, r.AddressList[0], c.Tick-h.Tick, TTL))
				}
			} else if hosts(h, sid) {
				j.fail("C02", "no_colocation", "add-host-hosts-shard", fmt.Sprintf("add-member request for shard %d onto %s which already hosts a replica of it", sid, r.AddressList[0]))
			}
			for _, m := range v.Replicas {
				if m.Address == r.AddressList[0] {
					j.fail("C02", "no_colocation", "add-colocated", fmt.Sprintf("add-member request for shard %d onto %s where member %d lives", sid, m.Address, m.ReplicaID))
				}
			}
			nid := r.Change.Members[0]
			if _, dup := v.Replicas[nid]; nid == 0 || dup {
				j.fail("C02", "fresh_id", "replacement-id-not-fresh", fmt.Sprintf("add-member request for shard %d uses replica id %d", sid, nid))
			}
			j.fence(c, r, k, v, "add")
		}
	}
	for sid, n := range changes {
		if n > 1 {
			j.fail("C02", "one_change_per_shard_per_round", "two-changes", fmt.Sprintf("%d membership-affecting requests for shard %d in one round", n, sid))
		}
		if restored[sid] > 0 {
			j.fail("C12", "restore_excludes_repair", "restore-mixed-with-repair", fmt.Sprintf("shard %d receives a restore and a membership change / join in the same round", sid))
		}
	}
	// restore quorum for shards without a healthy majority
	for sid, n := range restored {
		k, v := cls[sid], c.ShardImage.Shards[sid]
		if k == nil || v == nil {
			continue
		}
		if 2*len(k.ok) > len(v.Replicas) {
			run.Count("c12:restore_available_shard")
			continue
		}
		run.Count("c12:restore_unavailable_shard")
		if len(k.ok)+n < len(v.Replicas)/2+1 {
			sig := "restore-below-quorum"
			if len(k.waiting) > 0 {
				sig = "restore-below-quorum-with-waiting-member"
			}
			j.fail("C12", "restore_quorum", sig, fmt.Sprintf("shard %d: %d healthy + %d restored < quorum %d (waiting %d)", sid, len(k.ok), n, len(v.Replicas)/2+1, len(k.waiting)))
		}
	}
	// progress (theorems every_restorable_member_gets_a_restore / never_silent_on_a_shard_that_needs_work restated on the
	// implementation): a failed member whose NodeHost is live and lists its log (all records are looked at) gets a restore
	// request in this round whenever its shard is handled by one of the two restore passes
	for sid, k := range cls {
		v := c.ShardImage.Shards[sid]
		if v == nil || c.Shards[sid] == nil {
			continue
		}
		quorum := (len(k.failed)+len(k.ok)+len(k.waiting))/2 + 1
		need := !(len(k.ok) >= quorum || len(k.waiting) > 0)
		restorable := []uint64{}
		for rid := range k.failed {
			m := v.Replicas[rid]
			if m == nil {
				continue
			}
			if h := c.NodeHostImage.Nodehosts[m.Address]; h != nil && c.available(h) && hasLog(h, sid, rid) {
				restorable = append(restorable, rid)
			}
		}
		if need && len(k.ok)+len(restorable) < quorum {
			continue // an unavailable shard that cannot reach a majority yet: nothing is restored
		}
		for _, rid := range restorable {
			run.Count("c01:restorable_member_checked")
			if !restoreFor[[2]uint64{sid, rid}] {
				j.fail("C01", "no_silent_stall", "restorable-member-not-restored", fmt.Sprintf("shard %d: failed member %d is on a live NodeHost that lists its log, the shard is handled by the restore pass (healthy %d, restorable %d, waiting %d, quorum %d), but the round has no restore request for it", sid, rid, len(k.ok), len(restorable), len(k.waiting), quorum))
				j.fail("C12", "restore_complete", "restorable-member-not-restored", fmt.Sprintf("shard %d: no restore request for the restorable member %d", sid, rid))
				if m := v.Replicas[rid]; m != nil {
					if h := c.NodeHostImage.Nodehosts[m.Address]; h != nil {
						// C05: a NodeHost that reported more recently than the timeout is eligible for restore
						j.fail("C05", "recent_host_eligible", "recent-host-not-eligible-for-restore", fmt.Sprintf("shard %d member %d: NodeHost %s reported %d logical seconds ago (timeout %d) and lists the replica's log, yet it was not used for the restore", sid, rid, m.Address, c.Tick-h.Tick, TTL))
					}
				}
			}
		}
	}
	// kill requests are exactly the recorded stray replicas
	want := map[dbx.DKill]int{}
	for _, e := range c.ShardImage.ReplicasToKill {
		want[e]++
	}
	for e, n := range want {
		if kills[e] != n {
			j.fail("C11", "kill_while_reported", "kill-request-missing", fmt.Sprintf("stray replica (%d,%d,%s) recorded %d times, %d kill requests", e.ShardID, e.ReplicaID, e.Address, n, kills[e]))
		}
	}
	for e, n := range kills {
		if want[e] != n {
			j.fail("C11", "kill_entry_justified", "kill-request-unrecorded", fmt.Sprintf("%d kill requests for (%d,%d,%s), recorded %d times", n, e.ShardID, e.ReplicaID, e.Address, want[e]))
		}
	}
	if len(res.Requests) == 0 {
		run.Count("sched:quiet_round")
	}
}

func (j *Judge) fence(c *Context, r *pb.NodeHostRequest, k *classes, v *dbx.DShard, kind string) {
	sid := r.Change.ShardId
	if r.Change.ConfChangeId != v.ConfigChangeIndex {
		j.fail("C02", "fenced", kind+"-unfenced", fmt.Sprintf("%s request for shard %d carries version %d, the view is at %d", kind, sid, r.Change.ConfChangeId, v.ConfigChangeIndex))
	}
	okAddr := false
	for id := range k.ok {
		if m := v.Replicas[id]; m != nil && m.Address == r.RaftAddress {
			okAddr = true
		}
	}
	if !okAddr {
		j.fail("C02", "sent_to_healthy", kind+"-sent-to-unhealthy", fmt.Sprintf("%s request for shard %d sent to %s which runs no healthy member", kind, sid, r.RaftAddress))
	}
}

func keys(m map[uint64]bool) []uint64 {
	l := []uint64{}
	for k := range m {
		l = append(l, k)
	}
	sort.Slice(l, func(a, b int) bool { return l[a] < l[b] })
	return l
}
