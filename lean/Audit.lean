import Lean
/-! `lake env lean --run Audit.lean <Module>` lists every theorem declared in the module as
    `#print axioms <name>` commands (stdout is a Lean file the runner then elaborates, so that the
    axioms reported are those of Lean's own `#print axioms`). -/
open Lean

def main (args : List String) : IO UInt32 := do
  initSearchPath (← findSysroot)
  let mod := args.head!.toName
  let env ← importModules #[{ module := mod }] {} (loadExts := false)
  let some idx := env.getModuleIdx? mod | do IO.eprintln s!"module {mod} not found"; return 1
  IO.println s!"import {mod}"
  let mut names : Array Name := #[]
  for (c, ci) in env.constants.map₁.toList do
    if env.getModuleIdxFor? c == some idx then
      if let .thmInfo _ := ci then
        if c.isInternalDetail then continue
        names := names.push c
  for c in names.qsort Name.lt do
    IO.println s!"#print axioms {c}"
  return 0
