import DrummerVerif.Drv.DbProto
import DrummerVerif.Model.Agent
/-! driver of M-AGENT: report construction and request dispatch -/
open Lean Drummer Drv

def parseLocal (j : Json) : LocalShard :=
  { shardId := jn j "s", replicaId := jn j "r", cci := jn j "cci", isLeader := jb j "leader", pending := jb j "pend",
    members := (ja j "reps").toList.map parseRep }

def infoStr (i : ShardInfo) : String :=
  s!"[{i.shardId}/{i.replicaId} cci={i.cci} leader={i.isLeader} inc={i.incomplete} pend={i.pending} members=" ++
    seqStr ((sortBy (·.1) i.replicas).map fun (r, a) => s!"{r}@{a}") ++ "]"

/-- effect of a request on "is a replica of this shard running here" (launch / kill only; used to observe the order in
    which the agent's workers execute the requests of one shard) -/
def effect (running : Bool) (r : Request) : Bool :=
  match r.type with
  | .create => true
  | .kill => false
  | _ => running

partial def loop (h : IO.FS.Stream) : IO Unit := do
  let line ← h.getLine
  if line.isEmpty then return ()
  match Json.parse line with
  | .error e => IO.println s!"bad-json {e}"; loop h
  | .ok j =>
    match js j "op" with
    | "report" =>
      let adv := (ja j "adv").toList.map fun p =>
        let a := (p.getArr?.toOption).getD #[]
        ((a[0]!.getNat?).toOption.getD 0, (a[1]!.getNat?).toOption.getD 0)
      let r := agentReport (js j "addr") (js j "api") ((ja j "locals").toList.map parseLocal) adv (jb j "plog_inc")
        ((ja j "plog").toList.map parseLog)
      IO.println (s!"report {r.raftAddress} rpc={r.rpcAddress} region={r.region} ids={listStr (r.shardIdList.map toString)} plog={r.plogIncluded}:" ++
        seqStr (r.plogInfo.map fun l => s!"({l.shardId},{l.replicaId})") ++ " " ++ String.join (r.shardInfo.map infoStr))
    | "dispatch" =>
      let reqs := (ja j "reqs").toList.map parseReq
      let ws := dispatch reqs
      IO.println ("final " ++ seqStr ((sortBy (·.1) ws).map fun (s, l) => s!"{s}:{l.foldl effect false}"))
    | "inst" =>
      IO.println s!"inst started={(instantiate (jb j "join") (jb j "restore") (jb j "has")).started}"
    | _ => IO.println "bad-op"
    loop h

def main : IO Unit := do loop (← IO.getStdin)
