import DrummerVerif.Drv.DbProto
import DrummerVerif.Model.Api
/-! driver of M-API: one service call per line, canonical answers -/
open Lean Drummer Drv

def codeStr (n : Nat) : String := if n == Gen.DBUpdated then "OK" else if n == Gen.ShardExists then "SHARD_EXIST" else if n == Gen.DBBootstrapped then "BOOTSTRAPPED" else s!"code{n}"
def outStr : ApiOut → String
  | .code n => codeStr n
  | .invalidArgument => "refused"
  | .crashed _ => "CRASH"

partial def loop (h : IO.FS.Stream) (d : DB) : IO Unit := do
  let line ← h.getLine
  if line.isEmpty then return ()
  match Json.parse line with
  | .error e => IO.println s!"bad-json {e}"; loop h d
  | .ok j =>
    match js j "op" with
    | "new" => IO.println "new"; loop h {}
    | "submit" =>
      let (o, d') := apiSubmitChange d { shardId := jn j "id", members := jnums j "members", appName := js j "app" }
      IO.println (outStr o); loop h d'
    | "regions" =>
      let (o, d') := apiSetRegions d (jstrs j "regs") (jnums j "counts") (unhex (js j "hex"))
      IO.println (outStr o); loop h d'
    | "boot" =>
      let (o, d') := apiSetBootstrapped d
      IO.println (outStr o); loop h d'
    | "getshards" =>
      IO.println ("shards " ++ seqStr ((sortBy (·.shardId) (apiGetShards d)).map fun c => s!"{c.shardId}:{listStr (c.members.map toString)}:{c.appName}"))
      loop h d
    | "gethosts" =>
      let (t, hs) := apiGetHosts d
      IO.println (s!"hosts tick={t} " ++ seqStr ((sortByStr (·.1) hs).map fun (a, i) => s!"{a}:{i.lastTick}:{i.region}:{i.rpcAddress}"))
      loop h d
    | "getcci" =>
      IO.println ("cci " ++ seqStr ((sortBy (·.1) (apiGetCci d)).map fun (s, c) => s!"{s}:{c}")); loop h d
    | "getstates" =>
      match apiGetStates d (jnums j "ids") with
      | none => IO.println "states notfound"
      | some l => IO.println ("states " ++ seqStr (l.map fun a =>
          s!"{a.shardId}:{a.cci}:{a.available}:{a.leader}:[" ++ seqStr ((sortBy (·.1) a.members).map fun (r, ad) => s!"{r}@{ad}") ++ "]:[" ++
            seqStr ((sortBy (·.1) a.rpc).map fun (r, ad) => s!"{r}@{ad}") ++ "]"))
      loop h d
    | "getdeploy" =>
      match apiGetDeployment d with
      | some n => IO.println s!"did {n}"
      | none => IO.println "did error"
      loop h d
    | "report" =>
      match parseCmd j with
      | some (.report nhi) =>
        match apiReport d nhi with
        | (some rs, d') => IO.println ("reply " ++ seqStr (rs.map reqStr)); loop h d'
        | (none, _) => IO.println "CRASH"; loop h d
      | _ => IO.println "bad-op"; loop h d
    | _ =>
      -- commands the Drummer leader loop proposes itself (ticks, request batches, the deployment id)
      match parseCmd j with
      | some c =>
        match d.apply c with
        | .ok (d', n) => IO.println s!"applied {n}"; loop h d'
        | .panic _ => IO.println "CRASH"; loop h d
      | none => IO.println "bad-op"; loop h d

def main : IO Unit := do loop (← IO.getStdin) {}
