import Lean.Data.Json
import DrummerVerif.Model.Codec
open Lean Codec

def jn (j : Json) (k : String) : Nat := (j.getObjValAs? Nat k).toOption.getD 0
def js (j : Json) (k : String) : String := (j.getObjValAs? String k).toOption.getD ""

def unhex (s : String) : Bytes :=
  let v (c : Char) : Nat := if c.isDigit then c.toNat - '0'.toNat else c.toNat - 'a'.toNat + 10
  let rec go : List Char → Bytes
    | a :: b :: rest => UInt8.ofNat (v a * 16 + v b) :: go rest
    | _ => []
  go s.toList
def hexDigit (n : Nat) : Char := "0123456789abcdef".toList[n]!
def hexOf (b : Bytes) : String := String.ofList (b.flatMap fun x => [hexDigit (x.toNat / 16), hexDigit (x.toNat % 16)])

def digest (b : Bytes) : String :=
  let (sum, x, _) := b.foldl (fun (acc : Nat × Nat × Nat) c =>
    let (sum, x, i) := acc
    ((sum + c.toNat * (i % 251 + 1)) % 4294967296, (x * 31 + c.toNat) % 4294967296, i + 1)) (0, 0, 0)
  let head := b.take 12
  let tail := b.drop (b.length - 12)
  s!"{b.length}:{hexOf head}:{hexOf tail}:{sum}:{x}"

def errStr : Err → String
  | .eof => "eof" | .max => "max" | .header i => s!"header@{i}" | .tail i => s!"tail@{i}"

def encode (k v : Bytes) : String :=
  let o : KV := { key := k, val := v }
  match marshalLen o with
  | .max =>
    -- MarshalLen returns (0, err) for an oversized field and (l, err) for an oversized struct; not reached by this stream
    "len=?/max marshal=max"
  | .ok l =>
    let data := marshal o
    let rt := match unmarshalBinary {} data with
      | .ok _ o' => s!"nil/{decide (o' = o)}"
      | .err e o' => s!"{errStr e}/{decide (o' = o)}"
      | .oob => "OOB"
    s!"len={l}/nil bytes={digest data} rt={rt}"

def decode (pk pv data : Bytes) : String :=
  let o : KV := { key := pk, val := pv }
  let part (r : Res) : String :=
    match r with
    | .ok n o' => s!"n={n} err=nil key={digest o'.key} val={digest o'.val}"
    | .err e o' => s!"n=0 err={errStr e} key={digest o'.key} val={digest o'.val}"
    | .oob => "OOB"
  let part2 (r : Res) : String :=
    match r with
    | .ok _ o' => s!"bin=nil key={digest o'.key} val={digest o'.val}"
    | .err e o' => s!"bin={errStr e} key={digest o'.key} val={digest o'.val}"
    | .oob => "OOB"
  s!"{part (unmarshal o data)} {part2 (unmarshalBinary o data)}"

partial def loop (h : IO.FS.Stream) : IO Unit := do
  let line ← h.getLine
  if line.isEmpty then return ()
  match Json.parse line with
  | .error e => IO.println s!"bad-json {e}"; loop h
  | .ok j =>
    match js j "op" with
    | "encrep" => IO.println (encode (List.replicate (jn j "kn") (UInt8.ofNat (jn j "kb"))) (List.replicate (jn j "vn") (UInt8.ofNat (jn j "vb"))))
    | "enc" => IO.println (encode (unhex (js j "k")) (unhex (js j "v")))
    | "dec" => IO.println (decode (unhex (js j "pk")) (unhex (js j "pv")) (unhex (js j "data")))
    | _ => IO.println "bad-op"
    loop h

def main : IO Unit := do loop (← IO.getStdin)
