import DrummerVerif.Drv.DbProto
open Lean Drummer Drv

partial def loop (h : IO.FS.Stream) (d : Option DB) : IO Unit := do
  let line ← h.getLine
  if line.isEmpty then return ()
  match Json.parse line with
  | .error e => IO.println s!"bad-json {e}"; loop h d
  | .ok j =>
    if js j "op" == "new" then
      IO.println "new"; loop h (some {})
    else if js j "op" == "snap" then
      match d with
      | some db =>
        -- snapshot + restore: `assertNotFailed`, then the JSON round trip, which is the identity on the
        -- modelled fields for valid-UTF-8 keys (the only ones this protocol can carry)
        if db.failed then do IO.println "panic"; loop h none
        else do IO.println s!"snap {canon db}"; loop h d
      | none => loop h none
    else if js j "op" == "states" then
      match d with
      | some db => IO.println (statesLine db); loop h d
      | none => loop h none
    else match d, parseCmd j with
      | some db, some c =>
        match db.apply c with
        | .ok (db', n) => IO.println s!"{n} {canon db'}"; IO.println (statesLine db'); loop h (some db')
        | .panic _ => IO.println "panic"; loop h none
      | none, _ => loop h none     -- sequence already fail-stopped
      | _, none => IO.println "bad-op"; loop h d

def main : IO Unit := do loop (← IO.getStdin) none
