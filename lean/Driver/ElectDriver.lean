import Lean.Data.Json
import DrummerVerif.Model.ElectF
open Lean Elect

def jn (j : Json) (k : String) : Nat := (j.getObjValAs? Nat k).toOption.getD 0
def js (j : Json) (k : String) : String := (j.getObjValAs? String k).toOption.getD ""
def jb (j : Json) (k : String) : Bool := (j.getObjValAs? Bool k).toOption.getD false

def show_ (ss : List SrvF) (r : Rec) : String :=
  s!"rec={recInst r}/{recTick r}" ++ String.join (ss.map fun (sf : SrvF) =>
    let s := sf.base
    match s.cur with
    | some c => s!" [{s.leader} {c.inst}/{c.tick}/{c.static}]"
    | none => s!" [{s.leader} -]")

partial def loop (h : IO.FS.Stream) (ss : List SrvF) (r : Rec) : IO Unit := do
  let line ← h.getLine
  if line.isEmpty then return ()
  match Json.parse line with
  | .error e => IO.println s!"bad-json {e}"; loop h ss r
  | .ok j =>
    if js j "op" == "new" then
      IO.println "new"
      loop h ((List.range (jn j "n")).map fun i => { base := { id := i + 1 } }) none
    else
      let i := jn j "srv"
      match ss[i]? with
      | none => IO.println "bad-op"; loop h ss r
      | some s =>
        -- "fail": k = the DB operations of the turn fail from the k-th on (0: none); "cancel" = the whole turn fails
        let fa := if jb j "cancel" then 1 else jn j "fail"
        match turnF s r fa with
        | none => IO.println "panic"; loop h ss r
        | some (s', r') =>
          let ss' := ss.set i s'
          IO.println (show_ ss' r')
          loop h ss' r'

def main : IO Unit := do loop (← IO.getStdin) [] none
