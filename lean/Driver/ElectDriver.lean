import Lean.Data.Json
import DrummerVerif.Model.ElectO
open Lean Elect

def jn (j : Json) (k : String) : Nat := (j.getObjValAs? Nat k).toOption.getD 0
def js (j : Json) (k : String) : String := (j.getObjValAs? String k).toOption.getD ""
def jb (j : Json) (k : String) : Bool := (j.getObjValAs? Bool k).toOption.getD false

def show_ (ss : List SrvO) (r : Rec) : String :=
  s!"rec={recInst r}/{recTick r}" ++ String.join (ss.map fun (sf : SrvO) =>
    let s := sf.base
    match s.cur with
    | some c => s!" [{s.leader} {c.inst}/{c.tick}/{c.static}]"
    | none => s!" [{s.leader} -]")

/-- which DB operation is next for a server in this state -/
def kindOf (s : SrvO) : String :=
  match s.pend with
  | .idle => "read"
  | .readBack => "read"
  | _ => if s.sess then "vote" else "session"

partial def loop (h : IO.FS.Stream) (ss : List SrvO) (r : Rec) : IO Unit := do
  let line ← h.getLine
  if line.isEmpty then return ()
  match Json.parse line with
  | .error e => IO.println s!"bad-json {e}"; loop h ss r
  | .ok j =>
    if js j "op" == "new" then
      IO.println "new"
      loop h ((List.range (jn j "n")).map fun i => { base := { id := i + 1 } }) none
    else
      let i := jn j "srv"
      match ss[i]? with
      | none => IO.println "bad-op"; loop h ss r
      | some s =>
        if js j "op" == "micro" then
          -- one DB operation of server i against the record as it is now
          match micro s r (jb j "fail") with
          | none => IO.println "panic"; loop h ss r
          | some (s', r') =>
            let ss' := ss.set i s'
            IO.println (s!"{kindOf s} done={decide (s'.pend = .idle)} " ++ show_ ss' r')
            loop h ss' r'
        else
        -- a whole turn, nothing in between ("fail": k = the DB operations of the turn fail from the k-th on (0: none);
        -- "cancel" = the whole turn fails); `turnF` = `runTurn` by `Lemmas/C14O.runTurn_eq_turnF`
        if s.pend != .idle then IO.println "turn-in-flight"; loop h ss r else
        let fa := if jb j "cancel" then 1 else jn j "fail"
        match turnF { base := s.base, sess := s.sess } r fa with
        | none => IO.println "panic"; loop h ss r
        | some (s', r') =>
          let ss' := ss.set i { base := s'.base, sess := s'.sess, pend := .idle }
          IO.println (show_ ss' r')
          loop h ss' r'

def main : IO Unit := do loop (← IO.getStdin) [] none
