import Lean.Data.Json
import DrummerVerif.Model.Fs
/-! prints the model's file-system call sequences in the vocabulary the harness canonicalises the real trace to -/
open Lean DiskKV

def js (j : Json) (k : String) : String := (j.getObjValAs? String k).toOption.getD ""

partial def loop (h : IO.FS.Stream) : IO Unit := do
  let line ← h.getLine
  if line.isEmpty then return ()
  match Json.parse line with
  | .error e => IO.println s!"bad-json {e}"; loop h
  | .ok j =>
    let name := js j "name"
    let seq : Option (List Prim) := match name with
      | "open" => some (fixedOpenNew 1)
      | "recover" => some (recoverSeq 2 1)
      | "reopen" => some reopenSeq
      | _ => none
    match seq with
    | some l => IO.println s!"seq {name} {",".intercalate (l.map Prim.name)}"
    | none => IO.println "bad-op"
    loop h

def main : IO Unit := do loop (← IO.getStdin)
