import Lean.Data.Json
import DrummerVerif.Model.JepsenBuild
/-! driver of M-JEPSEN: formats recorded events as log lines, parses the log back, builds the checker's history -/
open Lean Jepsen

def ja (j : Json) (k : String) : Array Json := ((j.getObjVal? k).toOption.bind (·.getArr?.toOption)).getD #[]

def evOf (e : Json) : Ev :=
  let a := (e.getArr?.toOption).getD #[]
  let n (i : Nat) : Nat := (a[i]!.getNat?).toOption.getD 0
  let isNil : Bool := match a[3]! with | .num _ => false | _ => true
  { typ := if n 0 == 0 then .read else .write,
    res := match n 1 with | 0 => .invoke | 1 => .ok | _ => .fail,
    id := n 2, value := if isNil then none else some (n 3) }

def pevStr : PEv → String
  | .call id op arg => s!"call {id} op={op} arg={arg}"
  | .ret id ex v unk => s!"ret {id} exists={ex} value={v} unknown={unk}"

partial def loop (h : IO.FS.Stream) : IO Unit := do
  let line ← h.getLine
  if line.isEmpty then return ()
  match Json.parse line with
  | .error e => IO.println s!"bad-json {e}"; loop h
  | .ok j =>
    let evs := (ja j "events").toList.map evOf
    for e in evs do
      IO.println ("line " ++ String.ofList (fmt e))
    let (ps, tail) := build (parseLog (evs.map fmt))
    -- operations still open are closed at the end in Go map order: the maximal trailing run of unknown returns is
    -- compared as a sorted list on both sides
    let all := ps ++ tail.map fun i => PEv.ret i false 0 true
    let isUnk : PEv → Bool | .ret _ _ _ true => true | _ => false
    let idOf : PEv → Nat | .ret i _ _ _ => i | .call i _ _ => i
    let run := (all.reverse.takeWhile isUnk)
    let head := all.take (all.length - run.length)
    let sorted := (run.toArray.qsort (fun a b => idOf a < idOf b)).toList
    IO.println ("parsed " ++ "; ".intercalate ((head ++ sorted).map pevStr))
    loop h

def main : IO Unit := do loop (← IO.getStdin)
