import Lean.Data.Json
import DrummerVerif.Model.Kvsm
/-! line-protocol driver of M-KVSM: several machines (replicas) by id; prints what the real machines are asked for -/
open Lean Kvsm

def jn (j : Json) (k : String) : Nat := (j.getObjValAs? Nat k).toOption.getD 0
def js (j : Json) (k : String) : String := (j.getObjValAs? String k).toOption.getD ""
def jb (j : Json) (k : String) : Bool := (j.getObjValAs? Bool k).toOption.getD false
def ja (j : Json) (k : String) : Array Json := ((j.getObjVal? k).toOption.bind (·.getArr?.toOption)).getD #[]

def unhex (s : String) : Codec.Bytes :=
  let v (c : Char) : Nat := if c.isDigit then c.toNat - '0'.toNat else c.toNat - 'a'.toNat + 10
  let rec go : List Char → Codec.Bytes
    | a :: b :: rest => UInt8.ofNat (v a * 16 + v b) :: go rest
    | _ => []
  go s.toList
def hexDigit (n : Nat) : Char := "0123456789abcdef".toList[n]!
def hexOf (b : Codec.Bytes) : String := String.ofList (b.flatMap fun x => [hexDigit (x.toNat / 16), hexDigit (x.toNat % 16)])

def kindOf : String → Kind | "conc" => .conc | "disk" => .disk | _ => .mem
def kindStr : Kind → String | .mem => "mem" | .conc => "conc" | .disk => "disk"

/-- canonical form of the hashed value: pairs sorted by key, then the count (mem, conc) / the applied index (disk) -/
def canon (s : SM) : String :=
  let ps := ((contents s).map fun (k, v) => (hexOf k, hexOf v)).toArray.qsort (fun a b => a.1 < b.1)
  let tail := if s.kind = .disk then s!"applied={s.applied}" else s!"count={s.count}"
  s!"{kindStr s.kind}|" ++ String.join (ps.toList.map fun (k, v) => s!"{k}={v};") ++ tail

structure St where
  ms : List (Nat × SM) := []
  seen : Array String := #[]
  prepared : List (Nat × Snap) := []     -- snapshots fixed by PrepareSnapshot, not yet saved

def St.get? (st : St) (id : Nat) : Option SM := (st.ms.find? (·.1 == id)).map (·.2)
def St.set (st : St) (id : Nat) (s : SM) : St := { st with ms := (id, s) :: st.ms.filter (·.1 != id) }

partial def loop (h : IO.FS.Stream) (st : St) : IO Unit := do
  let line ← h.getLine
  if line.isEmpty then return ()
  match Json.parse line with
  | .error e => IO.println s!"bad-json {e}"; loop h st
  | .ok j =>
    let id := jn j "id"
    match js j "op" with
    | "reset" => IO.println "reset"; loop h {}
    | "new" => IO.println "ok"; loop h (st.set id { kind := kindOf (js j "kind") })
    | "update" =>
      match st.get? id with
      | none => IO.println "dead"; loop h st
      | some s =>
        let ents : List Entry := (ja j "cmds").toList.zipIdx.map fun (c, i) =>
          (jn j "idx" + i, unhex ((c.getStr?).toOption.getD ""), jb j "pooled")
        match updateBatch s ents with
        | some s' => IO.println "ok"; loop h (st.set id s')
        | none => IO.println "panic"; loop h { st with ms := st.ms.filter (·.1 != id) }
    | "lookup" =>
      match st.get? id with
      | none => IO.println "dead"; loop h st
      | some s => IO.println (hexOf (lookup s (unhex (js j "key")))); loop h st
    | "hash" =>
      match st.get? id with
      | none => IO.println "dead"; loop h st
      | some s =>
        let c := canon s
        match st.seen.findIdx? (· == c) with
        | some i => IO.println s!"class {i}"; loop h st
        | none => IO.println s!"class {st.seen.size}"; loop h { st with seen := st.seen.push c }
    | "prep" =>
      match st.get? id with
      | some s => IO.println "ok"; loop h { st with prepared := (id, snapshot s) :: st.prepared.filter (·.1 != id) }
      | none => IO.println "dead"; loop h st
    | "unprep" => IO.println "ok"; loop h { st with prepared := st.prepared.filter (·.1 != id) }
    | "snapprep" =>
      -- machine `to` installs the snapshot that machine `id` PREPARED earlier (point in time = the prepare)
      match (st.prepared.find? (·.1 == id)).map (·.2), st.get? (jn j "to") with
      | some sn, some t =>
        match recover t sn with
        | some t' => IO.println "ok"; loop h { (st.set (jn j "to") t') with prepared := st.prepared.filter (·.1 != id) }
        | none => IO.println "panic"; loop h { st with ms := st.ms.filter (·.1 != jn j "to") }
      | _, _ => IO.println "dead"; loop h st
    | "snap" =>
      -- machine `to` (fresh or not) installs a snapshot of machine `id`
      match st.get? id, st.get? (jn j "to") with
      | some s, some t =>
        match recover t (snapshot s) with
        | some t' => IO.println "ok"; loop h (st.set (jn j "to") t')
        | none => IO.println "panic"; loop h { st with ms := st.ms.filter (·.1 != jn j "to") }
      | _, _ => IO.println "dead"; loop h st
    | "extra" =>
      match st.get? id with
      | none => IO.println "dead"; loop h st
      | some s =>
        let o : Op := match js j "what" with
          | "sync" => .sync | "prepare" => .prepare | "save" => .save | "reopen" => .reopen | _ => .lookup []
        match step s o with
        | some s' => IO.println "ok"; loop h (st.set id s')
        | none => IO.println "panic"; loop h st
    | _ => IO.println "bad-op"; loop h st

def main : IO Unit := do loop (← IO.getStdin) {}
