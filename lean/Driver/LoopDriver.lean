import Lean.Data.Json
import DrummerVerif.Model.Loop
import DrummerVerif.Model.Launch
open Lean Drummer

def jn (j : Json) (k : String) : Nat := (j.getObjValAs? Nat k).toOption.getD 0
def js (j : Json) (k : String) : String := (j.getObjValAs? String k).toOption.getD ""
def jb (j : Json) (k : String) : Bool := (j.getObjValAs? Bool k).toOption.getD false
def ja (j : Json) (k : String) : Array Json := ((j.getObjVal? k).toOption.bind (·.getArr?.toOption)).getD #[]
def jnums (j : Json) (k : String) : List Nat := (ja j k).toList.map fun x => (x.getNat?).toOption.getD 0
def jstrs (j : Json) (k : String) : List String := (ja j k).toList.map fun x => (x.getStr?).toOption.getD ""

def bytes (s : String) : Bytes := s.toUTF8.toList
def unbytes (b : Bytes) : String := (String.fromUTF8? ⟨b.toArray⟩).getD "?"

def parseReq (j : Json) : Request :=
  { type := match js j "t" with | "create" => .create | "delete" => .delete | "add" => .add | _ => .kill,
    shardId := jn j "s", members := jnums j "members", confChangeId := jn j "ccid",
    replicaIdList := jnums j "ids", addressList := jstrs j "addrs", instantiateReplicaId := jn j "inst",
    raftAddress := js j "addr", join := jb j "join", restore := jb j "restore", appName := js j "app" }

def parseRep (p : Json) : Nat × String :=
  let a := (p.getArr?.toOption).getD #[]
  ((a[0]!.getNat?).toOption.getD 0, (a[1]!.getStr?).toOption.getD "")

def parseInfo (j : Json) : ShardInfo :=
  { shardId := jn j "s", replicaId := jn j "r", isLeader := jb j "leader", cci := jn j "cci",
    incomplete := jb j "inc", pending := jb j "pend",
    replicas := (ja j "reps").toList.map parseRep }

def parseLog (p : Json) : LogInfo :=
  let a := (p.getArr?.toOption).getD #[]
  { shardId := (a[0]!.getNat?).toOption.getD 0, replicaId := (a[1]!.getNat?).toOption.getD 0 }

def parseCmd (j : Json) : Option Cmd :=
  match js j "op" with
  | "tick" => some .tick
  | "shard" => some (.shard { shardId := jn j "id", members := jnums j "members", appName := js j "app" })
  | "kv" => some (.kv { key := bytes (js j "key"), value := bytes (js j "value"), instanceId := jn j "inst",
                        oldInstanceId := jn j "old", tick := jn j "tick", finalized := jb j "fin" })
  | "report" =>
    let nhi : NodeHostInfo := {
      raftAddress := js j "addr"
      rpcAddress := js j "rpc"
      region := js j "region"
      plogIncluded := jb j "plog_inc"
      plogInfo := (ja j "plog").toList.map parseLog
      shardIdList := jnums j "ids"
      shardInfo := (ja j "infos").toList.map parseInfo }
    some (.report nhi)
  | "reqs" => some (.requests ((ja j "reqs").toList.map parseReq))
  | _ => none

def sortBy {α : Type} (f : α → Nat) (l : List α) : List α := (l.toArray.qsort (fun a b => f a < f b)).toList
def sortByStr {α : Type} (f : α → String) (l : List α) : List α := (l.toArray.qsort (fun a b => f a < f b)).toList
def listStr (l : List String) : String := "[" ++ ",".intercalate l ++ "]"
def seqStr (l : List String) : String := String.join (l.map (· ++ ","))

def reqTypeNum : ReqType → Nat | .create => 0 | .delete => 1 | .add => 2 | .kill => 3
def reqStr (r : Request) : String :=
  "{" ++ s!"{reqTypeNum r.type}:{r.shardId}:{listStr (r.members.map toString)}:{r.confChangeId}:{listStr (r.replicaIdList.map toString)}:{listStr r.addressList}:{r.instantiateReplicaId}:{r.raftAddress}:{r.join}:{r.restore}:{r.appName}" ++ "}"

def hexDigit (n : Nat) : Char := "0123456789abcdef".toList[n]!
def hexOf (b : Bytes) : String := String.ofList (b.flatMap fun x => [hexDigit (x.toNat / 16), hexDigit (x.toNat % 16)])
def unhex (s : String) : Bytes :=
  let v (c : Char) : Nat := if c.isDigit then c.toNat - '0'.toNat else c.toNat - 'a'.toNat + 10
  let rec go : List Char → Bytes
    | a :: b :: rest => UInt8.ofNat (v a * 16 + v b) :: go rest
    | _ => []
  go s.toList

def sortPairs (ids : List Nat) (addrs : List String) : List Nat × List String :=
  let ps := ((ids.zip addrs).toArray.qsort (fun a b => a.1 < b.1)).toList
  (ps.map (·.1), ps.map (·.2))

def schedReqStr (r : Request) : String :=
  let (ids, addrs, members) :=
    if r.type == .create && (r.join || r.restore) && r.replicaIdList.length == r.addressList.length then
      let (i, a) := sortPairs r.replicaIdList r.addressList
      (i, a, (r.members.toArray.qsort (· < ·)).toList)
    else (r.replicaIdList, r.addressList, r.members)
  "{" ++ s!"{reqTypeNum r.type}:{r.shardId}:{listStr (members.map toString)}:{r.confChangeId}:{listStr (ids.map toString)}:{listStr addrs}:{r.instantiateReplicaId}:{r.raftAddress}:{r.join}:{r.restore}:{r.appName}" ++ "}"

def canon (d : DB) : String :=
  let defs := seqStr ((sortBy (·.shardId) d.shards).map fun c => s!"{c.shardId}:{listStr (c.members.map toString)}:{c.appName}")
  let kv := seqStr ((sortByStr (fun (e : Bytes × KVRec) => unbytes e.1) d.kv).map fun (_, r) =>
    let v := if unbytes r.key == "regions-key" then hexOf r.value else unbytes r.value
    s!"{unbytes r.key}:{v}:{r.instanceId}:{r.tick}:{r.oldInstanceId}:{r.finalized}")
  let img := seqStr ((sortBy (·.shardId) d.image.shards).map fun (c : Shard) =>
    s!"{c.shardId}:{c.cci}:[" ++ seqStr ((sortBy (·.replicaId) c.replicas).map fun (r : Replica) =>
      s!"{r.replicaId}@{r.address}:{r.isLeader}:{r.tick}:{r.firstObserved}") ++ "]")
  let kill := seqStr (d.image.toKill.map fun k => s!"({k.shardId},{k.replicaId},{k.address})")
  let hosts := seqStr ((sortByStr (·.address) d.hosts).map fun (h : HostSpec) =>
    s!"{h.address}:{h.rpcAddress}:{h.region}:{h.tick}:[" ++ seqStr (h.plog.map fun l => s!"({l.shardId},{l.replicaId})") ++ "]:[" ++
      seqStr ((sortBy id h.shards).map toString) ++ "]")
  let mbox (m : List (Addr × List Request)) : String :=
    seqStr ((sortByStr (·.1) m).map fun (a, q) => s!"{a}:[" ++ seqStr (q.map schedReqStr) ++ "]")
  let info := seqStr ((sortByStr (·.1) d.hostInfo).map fun (a, i) => s!"{a}:{i.lastTick}")
  s!"T={d.tick};D={d.launchDeadline};F={d.failed};defs=[{defs}];kv=[{kv}];img=[{img}];kill=[{kill}];hosts=[{hosts}];Requests=[{mbox d.requests}];Outgoing=[{mbox d.outgoing}];info=[{info}]"


def sameSet (a b : List Nat) : Bool := a.all (b.contains ·) && b.all (a.contains ·) && a.length == b.length

def buildCtx (d : DB) (regions : Option Regions) (j : Json) : Ctx × Bool :=
  let defs := (jnums j "shards").filterMap fun sid => d.shards.find? (·.shardId == sid)
  let hosts := (jstrs j "hosts").filterMap fun a => hostFind? d.hosts a
  let okOrders := defs.length == d.shards.length && hosts.length == d.hosts.length
  let reps := (ja j "repairs").toList.filterMap fun rj =>
    match d.image.find? (jn rj "s") with
    | none => none
    | some (c : Shard) =>
      let pick (k : String) : List Replica := (jnums rj k).filterMap c.find?
      some ({ shard := c, failed := pick "f", ok := pick "o", toStart := pick "w" } : ShardRepair)
  -- the model's own classification must agree (as sets) with what the scheduler computed
  let mine := d.image.shards.filter fun (c : Shard) => !(c.failedReplicas d.tick).isEmpty || !(c.toStart d.tick).isEmpty
  let agree := mine.length == reps.length && reps.all fun cr =>
    sameSet (cr.failed.map (·.replicaId)) ((cr.shard.failedReplicas d.tick).map (·.replicaId)) &&
    sameSet (cr.ok.map (·.replicaId)) ((cr.shard.okReplicas d.tick).map (·.replicaId)) &&
    sameSet (cr.toStart.map (·.replicaId)) ((cr.shard.toStart d.tick).map (·.replicaId))
  ({ tick := d.tick, defs := defs, regions := regions, hosts := hosts, allHosts := d.hosts, repairs := reps,
     toKill := d.image.toKill }, okOrders && agree)


def fleetStr (l : Drummer.Loop) : String :=
  let hs := seqStr (l.hosts.map fun (h : Host) =>
    let run := seqStr ((sortBy (fun (r : SimReplica) => r.shard) h.running).map fun (r : SimReplica) => s!"{r.shard}/{r.id}@{r.applied}")
    let dat := seqStr ((sortBy (fun (e : (Nat × Nat) × Int) => e.1.1 * 1000000000000 + e.1.2) h.data).map fun e => s!"{e.1.1}/{e.1.2}@{e.2}")
    let q := seqStr (h.queue.map schedReqStr)
    s!"{h.addr}:{h.up}:{h.reportCount}:run[{run}]data[{dat}]q[{q}]")
  let gs := seqStr ((sortBy (fun (g : Group) => g.shard) l.groups).map fun (g : Group) =>
    s!"{g.shard}:[" ++ String.join (g.hist.map fun (m : Membership) =>
      "v" ++ toString m.ver ++ "{" ++ seqStr ((sortBy (·.1) m.members).map fun (i, a) => s!"{i}@{a}") ++ "}") ++ "]")
  s!"hosts=[{hs}];groups=[{gs}]"

def out (res : String) (l : Drummer.Loop) : IO Unit := IO.println s!"{res} {canon l.db} {fleetStr l}"

def applyAll (d : DB) (cs : List Cmd) : DB := cs.foldl (fun d c => match d.apply c with | .ok (d', _) => d' | .panic _ => d) d

partial def loop (h : IO.FS.Stream) (l : Drummer.Loop) : IO Unit := do
  let line ← h.getLine
  if line.isEmpty then return ()
  match Json.parse line with
  | .error e => IO.println s!"bad-json {e}"; loop h l
  | .ok j =>
    match js j "op" with
    | "new" =>
      let defs := (ja j "defs").toList.map fun d => Cmd.shard { shardId := jn d "id", members := jnums d "members", appName := js d "app" }
      let db := applyAll {} (defs ++ [.kv { key := bytes "regions-key", value := unhex (js j "regions_hex"), finalized := true },
                                      .kv { key := bytes "bootstrapped-flag", value := bytes "true", finalized := true }])
      let hs : List Host := (jstrs j "hosts").map fun a => { addr := a }
      let rg : Regions := { region := jstrs j "region", count := jnums j "count" }
      let l' : Drummer.Loop := { db := db, hosts := hs, regions := some rg }
      out "new" l'; loop h l'
    | "tick" =>
      match l.db.apply .tick with
      | .ok (db', n) => let l' := { l with db := db' }; out (toString n) l'; loop h l'
      | .panic _ => IO.println "panic"; loop h l
    | "late_report" =>
      -- a copy of an earlier report arrives late: the replicated state applies it like any report, nobody waits for the reply
      let nhi : NodeHostInfo := {
        raftAddress := js j "addr"
        rpcAddress := js j "rpc"
        region := js j "region"
        plogIncluded := jb j "plog_inc"
        plogInfo := (ja j "plog").toList.map parseLog
        shardIdList := jnums j "ids"
        shardInfo := (ja j "infos").toList.map parseInfo }
      match l.db.apply (.report nhi) with
      | .ok (db', n) => let l' := { l with db := db' }; out (toString n) l'; loop h l'
      | .panic _ => IO.println "panic"; loop h l
    | "report" =>
      match l.report (js j "addr") (jb j "replyLost") with
      | .ok (l', n) => out (toString n) l'; loop h l'
      | .panic _ => IO.println "panic"; loop h l
    | "schedule" =>
      let (cx, agree) := buildCtx l.db l.regions j
      if !agree then IO.println "sched classify-mismatch"; loop h l else
      let r := if js j "mode" == "launch" then launchF cx (jnums j "draws") else maintain cx (jnums j "draws")
      match r with
      | .panic _ => out "sched panic" l; loop h l
      | .error _ => out "sched error" l; loop h l
      | .ok rs _ =>
        if rs.isEmpty then out "sched 0 0" l; loop h l else
        match l.db.apply (.requests rs) with
        | .ok (db', n) => let l' := { l with db := db' }; out s!"sched {rs.length} {n}" l'; loop h l'
        | .panic _ => IO.println "panic"; loop h l
    | "execute" => let l' := (l.execute (js j "addr")).settle (js j "addr"); out "exec" l'; loop h l'
    | "progress" => let l' := (l.progress (js j "addr") (jb j "all")).settle (js j "addr"); out "progress" l'; loop h l'
    | "crash" => let l' := l.crash (js j "addr"); out "crash" l'; loop h l'
    | "restart" => let l' := l.restart (js j "addr"); out "restart" l'; loop h l'
    | _ => IO.println "bad-op"; loop h l

def main : IO Unit := do loop (← IO.getStdin) {}
