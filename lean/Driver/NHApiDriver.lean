import Lean.Data.Json
import DrummerVerif.Lemmas.C19
/-! driver of M-NHAPI: the session-kind cache and the error table -/
open Lean NHApi

def jn (j : Json) (k : String) : Nat := (j.getObjValAs? Nat k).toOption.getD 0
def js (j : Json) (k : String) : String := (j.getObjValAs? String k).toOption.getD ""
def ja (j : Json) (k : String) : Array Json := ((j.getObjVal? k).toOption.bind (·.getArr?.toOption)).getD #[]

def typeOf : Nat → SMType | 1 => .regular | 2 => .concurrent | _ => .onDisk
def errOf : String → Err
  | "invalidSession" => .invalidSession | "payloadTooBig" => .payloadTooBig | "timeoutTooSmall" => .timeoutTooSmall
  | "systemBusy" => .systemBusy | "closed" => .closed | "shardClosed" => .shardClosed | "shardNotFound" => .shardNotFound
  | "ctxCanceled" => .ctxCanceled | "canceled" => .canceled | "ctxDeadline" => .ctxDeadline | "timeout" => .timeout
  | _ => .other
def codeStr : Code → String
  | .invalidArgument => "InvalidArgument" | .unavailable => "Unavailable" | .notFound => "NotFound" | .canceled => "Canceled"
  | .deadlineExceeded => "DeadlineExceeded" | .unknown => "Unknown"

partial def loop (h : IO.FS.Stream) (hosted : List (Nat × SMType)) (c : Cache) : IO Unit := do
  let line ← h.getLine
  if line.isEmpty then return ()
  match Json.parse line with
  | .error e => IO.println s!"bad-json {e}"; loop h hosted c
  | .ok j =>
    match js j "op" with
    | "new" =>
      let hs := (ja j "hosted").toList.map fun p =>
        let a := (p.getArr?.toOption).getD #[]
        ((a[0]!.getNat?).toOption.getD 0, typeOf ((a[1]!.getNat?).toOption.getD 0))
      IO.println "new"; loop h hs []
    | "get" =>
      let (r, c') := supportNew hosted c (jn j "sid")
      IO.println (match r with | some true => "tracked" | some false => "noop" | none => "error")
      loop h hosted c'
    | "err" => IO.println (codeStr (grpcCode (errOf (js j "e")))); loop h hosted c
    | _ => IO.println "bad-op"; loop h hosted c

def main : IO Unit := do loop (← IO.getStdin) [] []
