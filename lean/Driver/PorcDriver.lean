import Lean.Data.Json
import DrummerVerif.Model.Etcd
open Lean WGL

def jn (j : Json) (k : String) : Nat := (j.getObjValAs? Nat k).toOption.getD 0
def jb (j : Json) (k : String) : Bool := (j.getObjValAs? Bool k).toOption.getD false
def ja (j : Json) (k : String) : Array Json := ((j.getObjVal? k).toOption.bind (·.getArr?.toOption)).getD #[]

def showStep (st : Int) (i o : Op) (r : Bool × Int) : String :=
  s!"{st}" ++ "{" ++ s!"op:{i.op} arg1:{i.a1} arg2:{i.a2}" ++ "}{" ++ s!"ok:{o.ok} exists:{o.ex} value:{o.val} unknown:{o.unk}" ++ "}>" ++ s!"{r.1}{r.2};"

-- traced twin of `WGL.dfs` / `WGL.scan` (same control flow, additionally returns the Step-call log)
mutual
partial def tdfs (inp : Nat → Op) (fuel : Nat) (rem : List Entry) (st : Int) (lin : List Nat) (c : Cache Int) (log : Array String) :
    Bool × Cache Int × Array String :=
  if fuel = 0 then (rem.isEmpty, c, log) else
  if rem.isEmpty then (true, c, log) else tscan inp (fuel - 1) rem rem st lin c log
partial def tscan (inp : Nat → Op) (fuel : Nat) (rem suf : List Entry) (st : Int) (lin : List Nat) (c : Cache Int) (log : Array String) :
    Bool × Cache Int × Array String :=
  match suf with
  | [] => (false, c, log)
  | e :: suf' =>
    match e.kind with
    | .ret => (false, c, log)
    | .call =>
      let r := etcd.step st (inp e.id) (inp e.id)
      let log := log.push (showStep st (inp e.id) (inp e.id) r)
      if r.1 && !cacheContains c (e.id :: lin) r.2 then
        let (ok, c', log') := tdfs inp fuel (lift rem e.id) r.2 (e.id :: lin) ((e.id :: lin, r.2) :: c) log
        if ok then (true, c', log') else tscan inp fuel rem suf' st lin c' log'
      else tscan inp fuel rem suf' st lin c log
end

partial def loop (h : IO.FS.Stream) : IO Unit := do
  let line ← h.getLine
  if line.isEmpty then return ()
  match Json.parse line with
  | .error e => IO.println s!"bad-json {e}"; loop h
  | .ok j =>
    let ops := (ja j "ops").map fun o =>
      ({ op := jn o "op", a1 := jn o "a1", a2 := jn o "a2", ok := jb o "ok", ex := jb o "ex", val := jn o "val", unk := jb o "unk" } : Op)
    let evs := (ja j "events").toList.map fun e =>
      let a := (e.getArr?.toOption).getD #[]
      let n (i : Nat) : Nat := (a[i]!.getNat?).toOption.getD 0
      (n 0, n 1, n 2)
    -- entries carry the external ids; the op table is looked up through them
    let entries : List Entry := evs.map fun (k, _, ext) => ⟨if k = 0 then .call else .ret, ext⟩
    let table (ext : Nat) : Op :=
      match evs.find? (fun (_, _, x) => x = ext) with
      | some (_, idx, _) => ops[idx]!
      | none => ops[0]!
    let verdict := (dfs etcd table table (entries.length + 1) entries etcd.init [] []).1
    let (v2, _, log) := tdfs table (entries.length + 1) entries etcd.init [] [] #[]
    if verdict != v2 then IO.println "twin-mismatch" else
    IO.println s!"{verdict} {String.join log.toList}"
    loop h

def main : IO Unit := do loop (← IO.getStdin)
