import DrummerVerif.Drv.DbProto
import DrummerVerif.Model.Launch
open Lean Drummer Drv

def sortPairs (ids : List Nat) (addrs : List String) : List Nat × List String :=
  let ps := ((ids.zip addrs).toArray.qsort (fun a b => a.1 < b.1)).toList
  (ps.map (·.1), ps.map (·.2))

def schedReqStr (r : Request) : String :=
  let (ids, addrs, members) :=
    if r.type == .create && (r.join || r.restore) && r.replicaIdList.length == r.addressList.length then
      let (i, a) := sortPairs r.replicaIdList r.addressList
      (i, a, (r.members.toArray.qsort (· < ·)).toList)
    else (r.replicaIdList, r.addressList, r.members)
  "{" ++ s!"{reqTypeNum r.type}:{r.shardId}:{listStr (members.map toString)}:{r.confChangeId}:{listStr (ids.map toString)}:{listStr addrs}:{r.instantiateReplicaId}:{r.raftAddress}:{r.join}:{r.restore}:{r.appName}" ++ "}"

def sameSet (a b : List Nat) : Bool := a.all (b.contains ·) && b.all (a.contains ·) && a.length == b.length

def buildCtx (d : DB) (regions : Option Regions) (j : Json) : Ctx × Bool :=
  let defs := (jnums j "shards").filterMap fun sid => d.shards.find? (·.shardId == sid)
  let hosts := (jstrs j "hosts").filterMap fun a => hostFind? d.hosts a
  let okOrders := defs.length == d.shards.length && hosts.length == d.hosts.length
  let reps := (ja j "repairs").toList.filterMap fun rj =>
    match d.image.find? (jn rj "s") with
    | none => none
    | some (c : Shard) =>
      let pick (k : String) : List Replica := (jnums rj k).filterMap c.find?
      some ({ shard := c, failed := pick "f", ok := pick "o", toStart := pick "w" } : ShardRepair)
  -- the model's own classification must agree (as sets) with what the scheduler computed
  let mine := d.image.shards.filter fun (c : Shard) => !(c.failedReplicas d.tick).isEmpty || !(c.toStart d.tick).isEmpty
  let agree := mine.length == reps.length && reps.all fun cr =>
    sameSet (cr.failed.map (·.replicaId)) ((cr.shard.failedReplicas d.tick).map (·.replicaId)) &&
    sameSet (cr.ok.map (·.replicaId)) ((cr.shard.okReplicas d.tick).map (·.replicaId)) &&
    sameSet (cr.toStart.map (·.replicaId)) ((cr.shard.toStart d.tick).map (·.replicaId))
  ({ tick := d.tick, defs := defs, regions := regions, hosts := hosts, allHosts := d.hosts, repairs := reps,
     toKill := d.image.toKill }, okOrders && agree)

partial def loop (h : IO.FS.Stream) (d : Option DB) (regions : Option Regions) : IO Unit := do
  let line ← h.getLine
  if line.isEmpty then return ()
  match Json.parse line with
  | .error e => IO.println s!"bad-json {e}"; loop h d regions
  | .ok j =>
    let op := js j "op"
    if op == "new" then
      IO.println "new"; loop h (some {}) none
    else if op == "sched" then
      match d with
      | none => loop h none regions
      | some db =>
        let (cx, agree) := buildCtx db regions j
        let mode := js j "mode"
        if !agree then IO.println s!"sched {mode} classify-mismatch" else
        let r := if mode == "launch" then Drummer.launchF cx (jnums j "draws") else maintain cx (jnums j "draws")
        match r with
        | .panic _ => IO.println s!"sched {mode} panic"
        | .error _ => IO.println s!"sched {mode} error"
        | .ok rs rest =>
          IO.println s!"sched {mode} used={(jnums j "draws").length - rest.length} reqs=[{seqStr (rs.map schedReqStr)}]"
        loop h d regions
    else if op == "regions" then
      match d with
      | none => loop h none regions
      | some db =>
        match db.apply (.kv { key := bytes "regions-key", value := unhex (js j "hex"), finalized := true }) with
        | .ok (db', n) =>
          IO.println s!"{n} {canon db'}"
          let regions' := if n == 0 && (kvGet db.kv (bytes "regions-key")).isNone then
            some { region := jstrs j "regs", count := jnums j "counts" } else regions
          loop h (some db') regions'
        | .panic _ => IO.println "panic"; loop h none regions
    else match d, parseCmd j with
      | some db, some c =>
        match db.apply c with
        | .ok (db', n) => IO.println s!"{n} {canon db'}"; loop h (some db') regions
        | .panic _ => IO.println "panic"; loop h none regions
      | none, _ => loop h none regions
      | _, none => IO.println "bad-op"; loop h d regions

def main : IO Unit := do loop (← IO.getStdin) none none
