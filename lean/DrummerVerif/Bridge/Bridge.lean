import DrummerVerif.Gen.GenPred
import DrummerVerif.Lemmas.C05
/-! Bridge lemmas: each regenerated predicate equals the hand-written model definition the theorems use.
    A fixed tactic portfolio is tried; nothing here is specific to the current shape of the Go code. -/
namespace Drummer

macro "bridge" : tactic => `(tactic| first
  | rfl
  | (simp only [Gen.usub64, Gen.nodeHostTTL, Gen.entityFailed, Gen.replica_failed, Gen.replica_waiting, Gen.shard_quorum,
        Gen.shard_okReplicas, Gen.shard_toStart, Gen.shard_failedReplicas, Gen.shard_available, Gen.repair_quorum,
        Gen.repair_available, Gen.repair_addRequired, Gen.repair_createRequired, Gen.repair_deleteRequired,
        Gen.repair_needToBeRestored,
        usub64, nodeHostTTL, entityFailed, Replica.failed, Replica.waiting, Shard.quorum, Shard.okReplicas, Shard.toStart,
        Shard.failedReplicas, Shard.available, ShardRepair.quorum, ShardRepair.available, ShardRepair.addRequired,
        ShardRepair.createRequired, ShardRepair.deleteRequired, ShardRepair.needToBeRestored] <;> first | rfl | grind)
  )

theorem bridge_entityFailed (a b : Nat) : Gen.entityFailed a b = entityFailed a b := by bridge
theorem bridge_failed (n : Replica) (t : Nat) : Gen.replica_failed n t = n.failed t := by bridge
theorem bridge_waiting (n : Replica) (t : Nat) : Gen.replica_waiting n t = n.waiting t := by bridge
theorem bridge_quorum (c : Shard) : Gen.shard_quorum c = c.quorum := by bridge
theorem bridge_ok (c : Shard) (t : Nat) : Gen.shard_okReplicas c t = c.okReplicas t := by bridge
theorem bridge_toStart (c : Shard) (t : Nat) : Gen.shard_toStart c t = c.toStart t := by bridge
theorem bridge_failedReplicas (c : Shard) (t : Nat) : Gen.shard_failedReplicas c t = c.failedReplicas t := by bridge
theorem bridge_available (c : Shard) (t : Nat) : Gen.shard_available c t = c.available t := by bridge
theorem bridge_rquorum (cr : ShardRepair) : Gen.repair_quorum cr = cr.quorum := by bridge
theorem bridge_ravailable (cr : ShardRepair) : Gen.repair_available cr = cr.available := by bridge
theorem bridge_addRequired (cr : ShardRepair) : Gen.repair_addRequired cr = cr.addRequired := by bridge
theorem bridge_createRequired (cr : ShardRepair) : Gen.repair_createRequired cr = cr.createRequired := by bridge
theorem bridge_deleteRequired (cr : ShardRepair) (n : Nat) : Gen.repair_deleteRequired cr n = cr.deleteRequired n := by bridge
theorem bridge_needToBeRestored (cr : ShardRepair) : Gen.repair_needToBeRestored cr = cr.needToBeRestored := by bridge

#print axioms bridge_deleteRequired
end Drummer
