import DrummerVerif.Gen.GenPred
import DrummerVerif.Gen.GenOrder
import DrummerVerif.Gen.GenFields
import DrummerVerif.Model.Sched2
import DrummerVerif.Model.Agent
/-! Bridge lemmas: each regenerated predicate equals the hand-written model definition the theorems use.
    A fixed tactic portfolio is tried; nothing here is specific to the current shape of the Go code. -/
namespace Drummer

macro "bridge" : tactic => `(tactic| first
  | rfl
  | (simp only [Gen.usub64, Gen.nodeHostTTL, Gen.entityFailed, Gen.replica_failed, Gen.replica_waiting, Gen.shard_quorum,
        Gen.shard_okReplicas, Gen.shard_toStart, Gen.shard_failedReplicas, Gen.shard_available, Gen.repair_quorum,
        Gen.repair_available, Gen.repair_addRequired, Gen.repair_createRequired, Gen.repair_deleteRequired,
        Gen.repair_needToBeRestored, Gen.host_available, Gen.liveFilter_filter, Gen.regionFilter_filter, Gen.deadline_missed,
        Gen.kv_holder_ok, Gen.kill_version_guard, Gen.is_launch_request, Gen.agent_incomplete, reportIncomplete, HostSpec.available, liveFilter, isLaunchReq,
        usub64, nodeHostTTL, entityFailed, Replica.failed, Replica.waiting, Shard.quorum, Shard.okReplicas, Shard.toStart,
        Shard.failedReplicas, Shard.available, ShardRepair.quorum, ShardRepair.available, ShardRepair.addRequired,
        ShardRepair.createRequired, ShardRepair.deleteRequired, ShardRepair.needToBeRestored] <;> first | rfl | grind)
  )

theorem bridge_entityFailed (a b : Nat) : Gen.entityFailed a b = entityFailed a b := by bridge
theorem bridge_failed (n : Replica) (t : Nat) : Gen.replica_failed n t = n.failed t := by bridge
theorem bridge_waiting (n : Replica) (t : Nat) : Gen.replica_waiting n t = n.waiting t := by bridge
theorem bridge_quorum (c : Shard) : Gen.shard_quorum c = c.quorum := by bridge
theorem bridge_ok (c : Shard) (t : Nat) : Gen.shard_okReplicas c t = c.okReplicas t := by bridge
theorem bridge_toStart (c : Shard) (t : Nat) : Gen.shard_toStart c t = c.toStart t := by bridge
theorem bridge_failedReplicas (c : Shard) (t : Nat) : Gen.shard_failedReplicas c t = c.failedReplicas t := by bridge
theorem bridge_available (c : Shard) (t : Nat) : Gen.shard_available c t = c.available t := by bridge
theorem bridge_rquorum (cr : ShardRepair) : Gen.repair_quorum cr = cr.quorum := by bridge
theorem bridge_ravailable (cr : ShardRepair) : Gen.repair_available cr = cr.available := by bridge
theorem bridge_addRequired (cr : ShardRepair) : Gen.repair_addRequired cr = cr.addRequired := by bridge
theorem bridge_createRequired (cr : ShardRepair) : Gen.repair_createRequired cr = cr.createRequired := by bridge
theorem bridge_deleteRequired (cr : ShardRepair) (n : Nat) : Gen.repair_deleteRequired cr n = cr.deleteRequired n := by bridge
theorem bridge_needToBeRestored (cr : ShardRepair) : Gen.repair_needToBeRestored cr = cr.needToBeRestored := by bridge

theorem bridge_hostAvailable (h : HostSpec) (t : Nat) : Gen.host_available h t = h.available t := by bridge
theorem bridge_liveFilter (t gap : Nat) (hs : List HostSpec) : Gen.liveFilter_filter t gap hs = hs.filter (liveFilter t gap) := by bridge
theorem bridge_regionFilter (r : String) (hs : List HostSpec) : Gen.regionFilter_filter r hs = hs.filter (fun h => r == h.region) := by bridge
/-- `checkLaunchDeadline`: the tick fail-stops exactly when the model's `applyTick` does (on the state after the time step) -/
theorem bridge_deadlineMissed (d : DB) :
    Gen.deadline_missed d = (decide (d.launchDeadline > 0) && decide (d.tick > d.launchDeadline)) := by bridge
theorem bridge_kvHolder (o n : KVRec) :
    Gen.kv_holder_ok o n = (o.instanceId == n.instanceId || o.instanceId == n.oldInstanceId) := by bridge
theorem bridge_killGuard (c : Shard) (ci : ShardInfo) : Gen.kill_version_guard c ci = decide (c.cci ≤ ci.cci) := by bridge
theorem bridge_isLaunchReq (r : Request) : Gen.is_launch_request r = isLaunchReq r := by bridge

/-- client/nodehost.go: the report leaves the details out exactly when the model's `reportIncomplete` says so
    (`ok` = Drummer advertises a version for the shard, `k` = that version) -/
theorem bridge_agentIncomplete (k cci : Nat) (pending : Bool) :
    Gen.agent_incomplete true k cci pending = reportIncomplete (some k) cci pending ∧
    Gen.agent_incomplete false k cci pending = reportIncomplete none cci pending := by
  constructor <;> bridge

/-! ### program order (lcm/process.go) and field facts (db.go, nodehostapi.go) -/
theorem startWrite_ok : StartOK Gen.prog_StartWrite = true := by decide
theorem startRead_ok : StartOK Gen.prog_StartRead = true := by decide
/-- every serialised field of `DB` is restored by `RecoverFromSnapshot`, and nothing else is -/
theorem snapshot_fields_agree : Gen.dbSerialised = Gen.dbRestored := by decide
/-- C09 `failed_persisted` -/
theorem failed_persisted : "Failed" ∈ Gen.dbRestored ∧ "LaunchDeadline" ∈ Gen.dbRestored := by decide
/-- C19: the three session conversions copy the same four fields, each onto itself -/
theorem session_fields :
    Gen.session_ToNodeHostSession = ["ClientID<-ClientID", "RespondedTo<-RespondedTo", "SeriesID<-SeriesID", "ShardID<-ShardID"] ∧
    Gen.session_ToPBSession = Gen.session_ToNodeHostSession ∧ Gen.session_updatePBSession = Gen.session_ToNodeHostSession := by decide
end Drummer
