import Lean.Data.Json
import DrummerVerif.Model.Db
/-! line protocol shared by the drivers: JSON op lines -> model commands, canonical state printing -/
open Lean Drummer
namespace Drv

def jn (j : Json) (k : String) : Nat := (j.getObjValAs? Nat k).toOption.getD 0
def js (j : Json) (k : String) : String := (j.getObjValAs? String k).toOption.getD ""
def jb (j : Json) (k : String) : Bool := (j.getObjValAs? Bool k).toOption.getD false
def ja (j : Json) (k : String) : Array Json := ((j.getObjVal? k).toOption.bind (·.getArr?.toOption)).getD #[]
def jnums (j : Json) (k : String) : List Nat := (ja j k).toList.map fun x => (x.getNat?).toOption.getD 0
def jstrs (j : Json) (k : String) : List String := (ja j k).toList.map fun x => (x.getStr?).toOption.getD ""

def bytes (s : String) : Bytes := s.toUTF8.toList
def unbytes (b : Bytes) : String := (String.fromUTF8? ⟨b.toArray⟩).getD "?"

def parseReq (j : Json) : Request :=
  { type := match js j "t" with | "create" => .create | "delete" => .delete | "add" => .add | _ => .kill,
    shardId := jn j "s", members := jnums j "members", confChangeId := jn j "ccid",
    replicaIdList := jnums j "ids", addressList := jstrs j "addrs", instantiateReplicaId := jn j "inst",
    raftAddress := js j "addr", join := jb j "join", restore := jb j "restore", appName := js j "app" }

def parseRep (p : Json) : Nat × String :=
  let a := (p.getArr?.toOption).getD #[]
  ((a[0]!.getNat?).toOption.getD 0, (a[1]!.getStr?).toOption.getD "")

def parseInfo (j : Json) : ShardInfo :=
  { shardId := jn j "s", replicaId := jn j "r", isLeader := jb j "leader", cci := jn j "cci",
    incomplete := jb j "inc", pending := jb j "pend",
    replicas := (ja j "reps").toList.map parseRep }

def parseLog (p : Json) : LogInfo :=
  let a := (p.getArr?.toOption).getD #[]
  { shardId := (a[0]!.getNat?).toOption.getD 0, replicaId := (a[1]!.getNat?).toOption.getD 0 }

def parseCmd (j : Json) : Option Cmd :=
  match js j "op" with
  | "tick" => some .tick
  | "shard" => some (.shard { shardId := jn j "id", members := jnums j "members", appName := js j "app" })
  | "kv" => some (.kv { key := bytes (js j "key"), value := bytes (js j "value"), instanceId := jn j "inst",
                        oldInstanceId := jn j "old", tick := jn j "tick", finalized := jb j "fin" })
  | "report" =>
    let nhi : NodeHostInfo := {
      raftAddress := js j "addr"
      rpcAddress := js j "rpc"
      region := js j "region"
      plogIncluded := jb j "plog_inc"
      plogInfo := (ja j "plog").toList.map parseLog
      shardIdList := jnums j "ids"
      shardInfo := (ja j "infos").toList.map parseInfo }
    some (.report nhi)
  | "reqs" => some (.requests ((ja j "reqs").toList.map parseReq))
  | _ => none

def sortBy {α : Type} (f : α → Nat) (l : List α) : List α := (l.toArray.qsort (fun a b => f a < f b)).toList
def sortByStr {α : Type} (f : α → String) (l : List α) : List α := (l.toArray.qsort (fun a b => f a < f b)).toList
def listStr (l : List String) : String := "[" ++ ",".intercalate l ++ "]"
def seqStr (l : List String) : String := String.join (l.map (· ++ ","))

def reqTypeNum : ReqType → Nat | .create => 0 | .delete => 1 | .add => 2 | .kill => 3
def reqStr (r : Request) : String :=
  "{" ++ s!"{reqTypeNum r.type}:{r.shardId}:{listStr (r.members.map toString)}:{r.confChangeId}:{listStr (r.replicaIdList.map toString)}:{listStr r.addressList}:{r.instantiateReplicaId}:{r.raftAddress}:{r.join}:{r.restore}:{r.appName}" ++ "}"

def hexDigit (n : Nat) : Char := "0123456789abcdef".toList[n]!
def hexOf (b : Bytes) : String := String.ofList (b.flatMap fun x => [hexDigit (x.toNat / 16), hexDigit (x.toNat % 16)])
def unhex (s : String) : Bytes :=
  let v (c : Char) : Nat := if c.isDigit then c.toNat - '0'.toNat else c.toNat - 'a'.toNat + 10
  let rec go : List Char → Bytes
    | a :: b :: rest => UInt8.ofNat (v a * 16 + v b) :: go rest
    | _ => []
  go s.toList

def canon (d : DB) : String :=
  let defs := seqStr ((sortBy (·.shardId) d.shards).map fun c => s!"{c.shardId}:{listStr (c.members.map toString)}:{c.appName}")
  let kv := seqStr ((sortByStr (fun (e : Bytes × KVRec) => unbytes e.1) d.kv).map fun (_, r) =>
    let v := if unbytes r.key == "regions-key" then hexOf r.value else unbytes r.value
    s!"{unbytes r.key}:{v}:{r.instanceId}:{r.tick}:{r.oldInstanceId}:{r.finalized}")
  let img := seqStr ((sortBy (·.shardId) d.image.shards).map fun (c : Shard) =>
    s!"{c.shardId}:{c.cci}:[" ++ seqStr ((sortBy (·.replicaId) c.replicas).map fun (r : Replica) =>
      s!"{r.replicaId}@{r.address}:{r.isLeader}:{r.tick}:{r.firstObserved}") ++ "]")
  let kill := seqStr (d.image.toKill.map fun k => s!"({k.shardId},{k.replicaId},{k.address})")
  let hosts := seqStr ((sortByStr (·.address) d.hosts).map fun (h : HostSpec) =>
    s!"{h.address}:{h.rpcAddress}:{h.region}:{h.tick}:[" ++ seqStr (h.plog.map fun l => s!"({l.shardId},{l.replicaId})") ++ "]:[" ++
      seqStr ((sortBy id h.shards).map toString) ++ "]")
  let mbox (m : List (Addr × List Request)) : String :=
    seqStr ((sortByStr (·.1) m).map fun (a, q) => s!"{a}:[" ++ seqStr (q.map reqStr) ++ "]")
  let info := seqStr ((sortByStr (·.1) d.hostInfo).map fun (a, i) => s!"{a}:{i.lastTick}")
  s!"T={d.tick};D={d.launchDeadline};F={d.failed};defs=[{defs}];kv=[{kv}];img=[{img}];kill=[{kill}];hosts=[{hosts}];Requests=[{mbox d.requests}];Outgoing=[{mbox d.outgoing}];info=[{info}]"



/-- the answer of the SHARD_STATES query for every shard of the view (`toShardState`, server.go:252-290) -/
def statesLine (d : DB) : String :=
  "states " ++ seqStr ((sortBy (·.shardId) d.image.shards).map fun (c : Shard) =>
    let leader := match c.replicas.find? (·.isLeader) with | some r => r.replicaId | none => 0
    s!"{c.shardId}:{c.available d.tick}:{leader}")
end Drv
