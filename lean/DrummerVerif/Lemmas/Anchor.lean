import DrummerVerif.Lemmas.C11W
import DrummerVerif.Lemmas.Mono
import DrummerVerif.Lemmas.C04H
import DrummerVerif.Lemmas.HostKeys
/-! C11 inside the closed loop: a replica that Drummer flags for killing has been removed from its Raft group -/
namespace Drummer

/-- `v` is the version of a membership the group of shard `s` has had -/
def VerIn (l : Loop) (s v : Nat) : Prop := ∃ g, l.group? s = some g ∧ ∃ m ∈ g.hist, m.ver = v

/-- every view carries a version its group has had -/
def Loop.ViewVer (l : Loop) : Prop := ∀ c ∈ l.db.image.shards, VerIn l c.shardId c.cci

/-- the replica ids of the (immutable) shard definitions are known to every membership of the shard's group -/
def Loop.DefsKnown (defIds : Nat → List Nat) (l : Loop) : Prop :=
  ∀ s g, l.group? s = some g → ∀ m ∈ g.hist, ∀ x ∈ defIds s, m.Known x

/-- replica `r` of shard `s` is anchored: it is a defined initial member, or every membership of the group from the
    version of Drummer's current view on knows it (it was a member of the view when Drummer asked for it to be started) -/
def Loop.Anch (defIds : Nat → List Nat) (l : Loop) (s r : Nat) : Prop :=
  r ∈ defIds s ∨
  ∃ g, l.group? s = some g ∧ ∃ c ∈ l.db.image.shards, c.shardId = s ∧ ∀ m ∈ g.hist, c.cci ≤ m.ver → m.Known r

/-- some membership of the group of `s` lists `r` as removed -/
def Loop.Removed (l : Loop) (s r : Nat) : Prop := ∃ g, l.group? s = some g ∧ ∃ m ∈ g.hist, r ∈ m.removed

/-- C11 `member_never_killed`, the consequence: a removed replica is not a member of the current membership -/
theorem removed_not_member (l : Loop) (hn : l.AllNR) (s r : Nat) (h : l.Removed s r) :
    ∀ g, l.group? s = some g → r ∉ g.cur.members.map (·.1) := by
  intro g hg
  obtain ⟨g', hg', m, hm, hr⟩ := h
  rw [hg] at hg'; cases hg'
  obtain ⟨hgm, _⟩ := group?_mem l s g hg
  exact (NoReturn.never_again g (hn g hgm).1 (hn g hgm).2 m hm r).1 hr

/-- what holds of an image while a report of a consistent fleet is being processed -/
structure ImgOK (l : Loop) (mc : MultiShard) : Prop where
  mir : ∀ c ∈ mc.shards, c.Mirrors l.H
  ver : ∀ c ∈ mc.shards, VerIn l c.shardId c.cci
  uniq : UniqueShards mc
  cov : Covers l.db.image mc

/-- the key step: an entry flagged against an image that mirrors the loop's history names a removed replica,
    provided the reporting replica is anchored -/
theorem flagged_removed (defIds : Nat → List Nat) (l : Loop) (hok : l.HistOK) (hdk : l.DefsKnown defIds)
    (t : Nat) (mi mi' : MultiShard) (ci : ShardInfo) (himg : ImgOK l mi')
    (hf : doUpdate1 t mi ci = .ok (mi', true)) (ha : l.Anch defIds ci.shardId ci.replicaId) :
    l.Removed ci.shardId ci.replicaId := by
  obtain ⟨c, hc, hid, hgt, hnot⟩ := doUpdate1_kill_justified t mi mi' ci hf
  obtain ⟨g, hg, mc, hmc, hver⟩ := himg.ver c hc
  obtain ⟨hgm, hgs⟩ := group?_mem l _ g hg
  refine ⟨g, by rw [← hid]; exact hg, mc, hmc, ?_⟩
  -- the replica is known at the view's version
  have hknown : mc.Known ci.replicaId := by
    rcases ha with hd | ⟨g', hg', c0, hc0, hid0, hall⟩
    · exact hdk _ g hg mc hmc _ (by rw [hid]; exact hd)
    · rw [← hid, hg] at hg'; cases hg'
      obtain ⟨c', hc', hid', hle⟩ := himg.cov c0 hc0
      have : c' = c := himg.uniq c' hc' c hc (by rw [hid', hid0, hid])
      subst this
      exact hall mc hmc (by rw [hver]; exact hle)
  -- and it is not a member at that version
  have hnm : ci.replicaId ∉ mc.members.map (·.1) := by
    intro hmem
    obtain ⟨p, hp, hp1⟩ := List.mem_map.mp hmem
    have hH := H_of_mem l hok g hgm mc hmc
    have : p ∈ c.pairs := by
      apply ((himg.mir c hc).same p).mpr
      rw [← hgs, ← hver] at *
      rw [hH]; exact hp
    unfold Shard.pairs at this
    obtain ⟨rr, hrr, rfl⟩ := List.mem_map.mp this
    exact hnot rr hrr hp1
  rcases hknown with h | h
  · exact absurd h hnm
  · exact h

/-- `ImgOK` survives the processing of one entry of a report whose complete entries are consistent with the loop's
    history and carry a version the group has had -/
theorem imgOK_step (l : Loop) (t : Nat) (mi mi' : MultiShard) (ci : ShardInfo) (k : Bool) (himg : ImgOK l mi)
    (hcons : ¬ (ci.pending || ci.incomplete) = true → ci.Consistent l.H ∧ VerIn l ci.shardId ci.cci)
    (h : doUpdate1 t mi ci = .ok (mi', k)) : ImgOK l mi' := by
  refine ⟨?_, ?_, doUpdate1_unique t mi mi' ci k himg.uniq h, Covers.trans himg.cov (doUpdate1_covers t mi mi' ci k himg.uniq h).1⟩
  · exact doUpdate1_inv (fun c => c.Mirrors l.H) t mi mi' ci k
      (fun hp => getShard_mirrors l.H ci t (hcons hp).1)
      (fun hp c rej c' _ hid hq hs => (sync_mirrors l.H c c' ci t rej hq (hcons hp).1 hid hs).1)
      himg.mir h
  · exact doUpdate1_inv (fun c => VerIn l c.shardId c.cci) t mi mi' ci k
      (fun hp => (hcons hp).2)
      (fun hp c rej c' _ hid hq hs => by
        obtain ⟨hid', _, _, hor⟩ := sync_cci c c' ci t rej hs
        rcases hor with e | e
        · show VerIn l c'.shardId c'.cci
          rw [hid', e]; exact hq
        · show VerIn l c'.shardId c'.cci
          rw [hid', e, hid]; exact (hcons hp).2)
      himg.ver h

/-- complete entries of a report built by the fleet carry a version the group has had -/
theorem buildReport_verIn (l : Loop) (h : Host) (count : Nat) :
    ∀ ci ∈ (l.buildReport h count).shardInfo, ¬ (ci.pending || ci.incomplete) = true → VerIn l ci.shardId ci.cci := by
  intro ci hci hcomplete
  unfold Loop.buildReport at hci
  simp only [List.mem_filterMap] at hci
  obtain ⟨sid, _, hsome⟩ := hci
  cases hr : h.run? sid with
  | none => simp [hr] at hsome
  | some r =>
    simp only [hr] at hsome
    by_cases hpend : r.applied < 0
    · simp only [hpend, if_true, Option.some.injEq] at hsome
      subst hsome
      simp at hcomplete
    · simp only [hpend, if_false] at hsome
      cases hg : l.group? sid with
      | none => simp [hg] at hsome
      | some g =>
        simp only [hg] at hsome
        cases hm : g.hist[r.applied.toNat]? with
        | none => simp [hm] at hsome
        | some m =>
          simp only [hm] at hsome
          have hmmem : m ∈ g.hist := List.mem_of_getElem? hm
          have key : ∀ x : ShardInfo, x.shardId = sid → x.cci = m.ver → VerIn l x.shardId x.cci := by
            intro x h1 h2
            rw [h1, h2]; exact ⟨g, hg, m, hmmem, rfl⟩
          cases hk : (l.db.image.find? sid).map (fun (c : Shard) => c.cci) with
          | none =>
            simp only [hk, Option.some.injEq] at hsome
            subst hsome
            exact key _ rfl rfl
          | some k =>
            simp only [hk] at hsome
            by_cases hge : k ≥ m.ver
            · simp only [hge, if_true, Option.some.injEq] at hsome
              subst hsome
              simp at hcomplete
            · simp only [hge, if_false, Option.some.injEq] at hsome
              subst hsome
              exact key _ rfl rfl

/-- every entry of a report built by the fleet is about a replica the reporting host runs -/
theorem buildReport_running (l : Loop) (h : Host) (count : Nat) :
    ∀ ci ∈ (l.buildReport h count).shardInfo, ∃ rep ∈ h.running, rep.shard = ci.shardId ∧ rep.id = ci.replicaId := by
  intro ci hci
  unfold Loop.buildReport at hci
  simp only [List.mem_filterMap] at hci
  obtain ⟨sid, _, hsome⟩ := hci
  cases hr : h.run? sid with
  | none => simp [hr] at hsome
  | some r =>
    simp only [hr] at hsome
    obtain ⟨hrm, hrs⟩ := run?_mem h sid r hr
    have key : ∀ x : ShardInfo, x.shardId = sid → x.replicaId = r.id →
        ∃ rep ∈ h.running, rep.shard = x.shardId ∧ rep.id = x.replicaId := by
      intro x h1 h2; exact ⟨r, hrm, by rw [h1, hrs], by rw [h2]⟩
    by_cases hpend : r.applied < 0
    · simp only [hpend, if_true, Option.some.injEq] at hsome
      subst hsome; exact key _ rfl rfl
    · simp only [hpend, if_false] at hsome
      cases hg : l.group? sid with
      | none => simp [hg] at hsome
      | some g =>
        simp only [hg] at hsome
        cases hm : g.hist[r.applied.toNat]? with
        | none => simp [hm] at hsome
        | some m =>
          simp only [hm] at hsome
          cases hk : (l.db.image.find? sid).map (fun (c : Shard) => c.cci) with
          | none =>
            simp only [hk, Option.some.injEq] at hsome
            subst hsome; exact key _ rfl rfl
          | some k =>
            simp only [hk] at hsome
            by_cases hge : k ≥ m.ver
            · simp only [hge, if_true, Option.some.injEq] at hsome
              subst hsome; exact key _ rfl rfl
            · simp only [hge, if_false, Option.some.injEq] at hsome
              subst hsome; exact key _ rfl rfl

#print axioms flagged_removed
#print axioms imgOK_step
end Drummer
