import DrummerVerif.Lemmas.C01L
import DrummerVerif.Lemmas.LoopH
import DrummerVerif.Lemmas.KStep
/-!
# A replica is never ahead of its group: the applied index of every running replica and of every data record is a
  position of the group's membership history (or "pending")

Invariant of the closed loop through every event (`KStep`). Consequences: the fleet model's report never drops a
running replica (`report_lists_every_running_replica`: the `none` branches of `Loop.buildReport` are unreachable), which
is what the delivery chain of `C01L` needs to close the loop.
-/
namespace Drummer

def InRange (l : Loop) (s : Nat) (ap : Int) : Prop := ap < 0 ∨ ∃ g, l.group? s = some g ∧ ap.toNat < g.hist.length

structure Loop.AR (l : Loop) : Prop where
  hist : ∀ s g, l.group? s = some g → g.hist ≠ []
  run : ∀ h ∈ l.hosts, ∀ rep ∈ h.running, InRange l rep.shard rep.applied
  data : ∀ h ∈ l.hosts, ∀ e ∈ h.data, InRange l e.1.1 e.2

/-- histories only grow -/
def Grows (l l' : Loop) : Prop := ∀ s g, l.group? s = some g → ∃ g', l'.group? s = some g' ∧ g.hist.length ≤ g'.hist.length

theorem Grows.refl (l : Loop) : Grows l l := fun _ g hg => ⟨g, hg, Nat.le_refl _⟩

theorem inRange_grows (l l' : Loop) (hg : Grows l l') (s : Nat) (ap : Int) (h : InRange l s ap) : InRange l' s ap := by
  rcases h with h | ⟨g, h1, h2⟩
  · exact Or.inl h
  · obtain ⟨g', h3, h4⟩ := hg s g h1
    exact Or.inr ⟨g', h3, Nat.lt_of_lt_of_le h2 h4⟩

theorem group?_setHost (l : Loop) (h : Host) (s : Nat) : (l.setHost h).group? s = l.group? s := rfl

theorem mem_dataPut' (h : Host) (s r : Nat) (v : Int) (e : (Nat × Nat) × Int) (he : e ∈ (h.dataPut s r v).data) :
    e = ((s, r), v) ∨ e ∈ h.data := by
  unfold Host.dataPut at he
  simp only [List.mem_cons, List.mem_filter] at he
  rcases he with he | ⟨he, _⟩
  · exact Or.inl he
  · exact Or.inr he

/-- replacing one host by one whose replicas and data records are in range keeps the invariant -/
theorem ar_setHost (l : Loop) (h' : Host) (har : l.AR) (hr : ∀ rep ∈ h'.running, InRange l rep.shard rep.applied)
    (hd : ∀ e ∈ h'.data, InRange l e.1.1 e.2) : (l.setHost h').AR := by
  refine ⟨fun s g hg => har.hist s g hg, ?_, ?_⟩
  · intro x hx rep hrep
    rcases mem_setHost l h' x hx with rfl | hm
    · exact hr rep hrep
    · exact har.run x hm rep hrep
  · intro x hx e he
    rcases mem_setHost l h' x hx with rfl | hm
    · exact hd e he
    · exact har.data x hm e he

/-- the same hosts over grown histories -/
theorem ar_grow (l l' : Loop) (hh : l'.hosts = l.hosts) (hg : Grows l l') (hhist : ∀ s g, l'.group? s = some g → g.hist ≠ [])
    (har : l.AR) : l'.AR := by
  refine ⟨hhist, ?_, ?_⟩
  · intro x hx rep hrep; rw [hh] at hx; exact inRange_grows l l' hg _ _ (har.run x hx rep hrep)
  · intro x hx e he; rw [hh] at hx; exact inRange_grows l l' hg _ _ (har.data x hx e he)

theorem ar_db (l : Loop) (db' : DB) (har : l.AR) : ({ l with db := db' } : Loop).AR :=
  ⟨har.hist, har.run, har.data⟩

theorem inRange_start (l : Loop) (s : Nat) (g : Group) (hg : l.group? s = some g) (hne : g.hist ≠ []) : InRange l s 0 := by
  refine Or.inr ⟨g, hg, ?_⟩
  cases hh : g.hist with
  | nil => exact absurd hh hne
  | cons _ _ => simp

theorem ar_execCreate (l : Loop) (h : Host) (r : Request) (hm : h ∈ l.hosts) (har : l.AR) : (l.execCreate h r).AR := by
  unfold Loop.execCreate
  simp only
  split
  · exact har
  · split
    · cases hd : h.dataGet r.shardId r.instantiateReplicaId with
      | none => exact har
      | some ap =>
        simp only
        have hin : InRange l r.shardId ap := by
          unfold Host.dataGet at hd
          cases hf : h.data.find? (fun e => e.1 == (r.shardId, r.instantiateReplicaId)) with
          | none => simp [hf] at hd
          | some e =>
            simp only [hf, Option.map_some, Option.some.injEq] at hd
            have hem := List.mem_of_find?_eq_some hf
            have hk : e.1 = (r.shardId, r.instantiateReplicaId) := by simpa using List.find?_some hf
            have := har.data h hm e hem
            rw [hk, hd] at this; exact this
        apply ar_setHost l _ har
        · intro rep hrep
          rcases mem_setRun h _ rep hrep with rfl | hrm
          · exact hin
          · exact har.run h hm rep hrm
        · intro e he; exact har.data h hm e he
    · split
      · -- join
        have hin : InRange l r.shardId ((h.dataGet r.shardId r.instantiateReplicaId).getD (-1)) := by
          cases hd : h.dataGet r.shardId r.instantiateReplicaId with
          | none => exact Or.inl (by simp)
          | some ap =>
            simp only [Option.getD_some]
            unfold Host.dataGet at hd
            cases hf : h.data.find? (fun e => e.1 == (r.shardId, r.instantiateReplicaId)) with
            | none => simp [hf] at hd
            | some e =>
              simp only [hf, Option.map_some, Option.some.injEq] at hd
              have hem := List.mem_of_find?_eq_some hf
              have hk : e.1 = (r.shardId, r.instantiateReplicaId) := by simpa using List.find?_some hf
              have := har.data h hm e hem
              rw [hk, hd] at this; exact this
        apply ar_setHost l _ har
        · intro rep hrep
          rw [dataPut_running] at hrep
          rcases mem_setRun h _ rep hrep with rfl | hrm
          · exact hin
          · exact har.run h hm rep hrm
        · intro e he
          rcases mem_dataPut' _ _ _ _ e he with rfl | hem
          · exact hin
          · exact har.data h hm e hem
      · split
        · exact har
        · -- launch: the group exists already, or is founded now
          cases hg : (l.group? r.shardId).isSome with
          | true =>
            simp only [if_true]
            obtain ⟨g, hgs⟩ := Option.isSome_iff_exists.mp hg
            have hin := inRange_start l r.shardId g hgs (har.hist _ g hgs)
            apply ar_setHost l _ har
            · intro rep hrep
              rw [dataPut_running] at hrep
              rcases mem_setRun h _ rep hrep with rfl | hrm
              · exact hin
              · exact har.run h hm rep hrm
            · intro e he
              rcases mem_dataPut' _ _ _ _ e he with rfl | hem
              · exact hin
              · exact har.data h hm e hem
          | false =>
            simp only [Bool.false_eq_true, if_false]
            have hnone : l.group? r.shardId = none := by simpa using hg
            let g0 : Group := { shard := r.shardId, hist := [{ ver := l.nextVer + 1, members := r.replicaIdList.zip r.addressList, removed := [] }] }
            have hX : (({ l with nextVer := l.nextVer + 1 } : Loop).setGroup g0).AR := by
              apply ar_grow l _ (by unfold Loop.setGroup; split <;> rfl) ?_ ?_ har
              · intro s g hgs
                refine ⟨g, ?_, Nat.le_refl _⟩
                rw [group?_setGroup]
                by_cases hs : g0.shard = s
                · have : l.group? s = none := by rw [← hs]; exact hnone
                  rw [this] at hgs; cases hgs
                · simp only [hs, if_false]; exact hgs
              · intro s g hgs
                rw [group?_setGroup] at hgs
                by_cases hs : g0.shard = s
                · simp only [hs, if_true, Option.some.injEq] at hgs
                  rw [← hgs]; simp [g0]
                · simp only [hs, if_false] at hgs
                  exact har.hist s g hgs
            have hin : InRange (({ l with nextVer := l.nextVer + 1 } : Loop).setGroup g0) r.shardId 0 := by
              apply inRange_start _ r.shardId g0 ?_ (by simp [g0])
              rw [group?_setGroup]; simp [g0]
            have hm' : h ∈ (({ l with nextVer := l.nextVer + 1 } : Loop).setGroup g0).hosts := by
              have : (({ l with nextVer := l.nextVer + 1 } : Loop).setGroup g0).hosts = l.hosts := by
                unfold Loop.setGroup; split <;> rfl
              rw [this]; exact hm
            apply ar_setHost _ _ hX
            · intro rep hrep
              rw [dataPut_running] at hrep
              rcases mem_setRun h _ rep hrep with rfl | hrm
              · exact hin
              · exact hX.run h hm' rep hrm
            · intro e he
              rcases mem_dataPut' _ _ _ _ e he with rfl | hem
              · exact hin
              · exact hX.data h hm' e hem

#print axioms ar_execCreate

theorem ar_execKill (l : Loop) (h : Host) (r : Request) (hm : h ∈ l.hosts) (har : l.AR) : (l.execKill h r).AR := by
  unfold Loop.execKill
  cases r.members.head? with
  | none => exact har
  | some rid =>
    cases h.run? r.shardId with
    | none => exact har
    | some rep =>
      simp only
      split
      · apply ar_setHost l _ har
        · intro x hx
          rw [dataDel_running] at hx
          exact har.run h hm x (List.mem_filter.mp hx).1
        · intro e he; exact har.data h hm e (mem_dataDel _ _ _ e he)
      · exact har

theorem ar_execChange (l : Loop) (h : Host) (r : Request) (hm : h ∈ l.hosts) (har : l.AR) : (l.execChange h r).AR := by
  unfold Loop.execChange
  cases hg : l.group? r.shardId with
  | none => exact har
  | some g =>
    cases r.members.head? with
    | none => exact har
    | some id =>
      simp only
      cases hc : l.changeApplicable h g r with
      | none => exact har
      | some rep =>
        simp only
        cases changeMembers g.cur r id with
        | none => exact har
        | some p =>
          obtain ⟨ms, rm⟩ := p
          simp only
          have hrun := changeApplicable_some l h g r rep hc
          have hsh : rep.shard = r.shardId := (run?_mem h r.shardId rep hrun).2
          have hgs : g.shard = r.shardId := (group?_mem l r.shardId g hg).2
          let g' : Group := { g with hist := g.hist ++ [{ ver := l.nextVer + 1, members := ms, removed := rm }] }
          have hX : (({ l with nextVer := l.nextVer + 1 } : Loop).setGroup g').AR := by
            apply ar_grow l _ (by unfold Loop.setGroup; split <;> rfl) ?_ ?_ har
            · intro s g0 hg0
              rw [group?_setGroup]
              by_cases hs : g'.shard = s
              · simp only [hs, if_true]
                refine ⟨g', rfl, ?_⟩
                have : g0 = g := by
                  have h1 : l.group? s = some g := by rw [← hs]; show l.group? g.shard = some g; rw [hgs]; exact hg
                  rw [h1] at hg0; cases hg0; rfl
                rw [this]; simp [g']
              · simp only [hs, if_false]; exact ⟨g0, hg0, Nat.le_refl _⟩
            · intro s g0 hg0
              rw [group?_setGroup] at hg0
              by_cases hs : g'.shard = s
              · simp only [hs, if_true, Option.some.injEq] at hg0
                rw [← hg0]; simp [g']
              · simp only [hs, if_false] at hg0
                exact har.hist s g0 hg0
          have hin : InRange (({ l with nextVer := l.nextVer + 1 } : Loop).setGroup g') r.shardId ((g'.hist.length : Int) - 1) := by
            refine Or.inr ⟨g', ?_, ?_⟩
            · rw [group?_setGroup]
              have : g'.shard = r.shardId := hgs
              simp [this]
            · simp [g']
          have hm' : h ∈ (({ l with nextVer := l.nextVer + 1 } : Loop).setGroup g').hosts := by
            have : (({ l with nextVer := l.nextVer + 1 } : Loop).setGroup g').hosts = l.hosts := by
              unfold Loop.setGroup; split <;> rfl
            rw [this]; exact hm
          apply ar_setHost _ _ hX
          · intro x hx
            rw [dataPut_running] at hx
            rcases mem_setRun h _ x hx with rfl | hrm
            · show InRange _ rep.shard _; rw [hsh]; exact hin
            · exact hX.run h hm' x hrm
          · intro e he
            rcases mem_dataPut' _ _ _ _ e he with rfl | hem
            · exact hin
            · exact hX.data h hm' e hem

theorem ar_exec1 (l : Loop) (a : Addr) (r : Request) (har : l.AR) : (l.exec1 a r).AR := by
  unfold Loop.exec1
  cases hh : l.host? a with
  | none => exact har
  | some h =>
    have hm := host?_mem l a h hh
    simp only
    cases r.type with
    | create => exact ar_execCreate l h r hm har
    | kill => exact ar_execKill l h r hm har
    | add => exact ar_execChange l h r hm har
    | delete => exact ar_execChange l h r hm har

theorem ar_execList (a : Addr) : ∀ (q : List Request) (l : Loop), l.AR → (q.foldl (fun l r => l.exec1 a r) l).AR := by
  intro q
  induction q with
  | nil => intro l h; exact h
  | cons x xs ih => intro l h; exact ih _ (ar_exec1 l a x h)

theorem ar_execute (l : Loop) (a : Addr) (har : l.AR) : (l.execute a).AR := by
  unfold Loop.execute
  cases hh : l.host? a with
  | none => exact har
  | some h =>
    have hm := host?_mem l a h hh
    simp only
    apply ar_execList
    exact ar_setHost l _ har (fun x hx => har.run h hm x hx) (fun e he => har.data h hm e he)

theorem ar_report (l l' : Loop) (a : Addr) (lost : Bool) (n : Nat) (h : l.report a lost = .ok (l', n)) (har : l.AR) :
    l'.AR := by
  unfold Loop.report at h
  cases hh : l.host? a with
  | none => simp [hh] at h
  | some hst =>
    have hm := host?_mem l a hst hh
    simp only [hh] at h
    cases ha : l.db.applyReport (l.buildReport { hst with reportCount := hst.reportCount + 1 } (hst.reportCount + 1)) with
    | panic w => simp [ha] at h
    | ok p =>
      simp only [ha] at h
      cases h
      apply ar_setHost _ _ (ar_db l p.1 har)
      · intro x hx
        have : x ∈ hst.running := by
          cases lost <;> simpa using hx
        exact har.run hst hm x this
      · intro e he
        have : e ∈ hst.data := by
          cases lost <;> simpa using he
        exact har.data hst hm e this

theorem ar_crash (l : Loop) (a : Addr) (har : l.AR) : (l.crash a).AR := by
  unfold Loop.crash
  cases hh : l.host? a with
  | none => exact har
  | some h =>
    have hm := host?_mem l a h hh
    exact ar_setHost l _ har (fun x hx => by cases hx) (fun e he => har.data h hm e he)

theorem ar_restart (l : Loop) (a : Addr) (har : l.AR) : (l.restart a).AR := by
  unfold Loop.restart
  cases hh : l.host? a with
  | none => exact har
  | some h =>
    have hm := host?_mem l a h hh
    exact ar_setHost l _ har (fun x hx => har.run h hm x hx) (fun e he => har.data h hm e he)

theorem ar_settle (l : Loop) (a : Addr) (har : l.AR) : (l.settle a).AR := by
  unfold Loop.settle
  cases hh : l.host? a with
  | none => exact har
  | some h =>
    have hm := host?_mem l a h hh
    exact ar_setHost l _ har (fun x hx => har.run h hm x (List.mem_filter.mp hx).1) (fun e he => har.data h hm e he)

/-- catching up: each replica moves to a later position of its own group's history, never past its end -/
theorem ar_progress (l : Loop) (a : Addr) (all : Bool) (har : l.AR) : (l.progress a all).AR := by
  unfold Loop.progress
  cases hh : l.host? a with
  | none => exact har
  | some h =>
    have hm := host?_mem l a h hh
    simp only
    -- the fold keeps "every replica and record of the accumulated host is in range"
    have key : ∀ (rs : List SimReplica) (hh0 : Host),
        (∀ x ∈ hh0.running, InRange l x.shard x.applied) → (∀ e ∈ hh0.data, InRange l e.1.1 e.2) →
        (∀ x ∈ (rs.foldl (fun (hh : Host) r =>
          match l.group? r.shard with
          | none => hh
          | some g =>
            if !l.quorumRunning r.shard then hh else
            let last : Int := (g.hist.length : Int) - 1
            if r.applied < last then
              let ap := if all then last else r.applied + 1
              (hh.setRun { r with applied := ap }).dataPut r.shard r.id ap
            else hh) hh0).running, InRange l x.shard x.applied) ∧
        (∀ e ∈ (rs.foldl (fun (hh : Host) r =>
          match l.group? r.shard with
          | none => hh
          | some g =>
            if !l.quorumRunning r.shard then hh else
            let last : Int := (g.hist.length : Int) - 1
            if r.applied < last then
              let ap := if all then last else r.applied + 1
              (hh.setRun { r with applied := ap }).dataPut r.shard r.id ap
            else hh) hh0).data, InRange l e.1.1 e.2) := by
      intro rs
      induction rs with
      | nil => intro hh0 h1 h2; exact ⟨h1, h2⟩
      | cons r rs ih =>
        intro hh0 h1 h2
        simp only [List.foldl_cons]
        apply ih
        · cases hg : l.group? r.shard with
          | none => exact h1
          | some g =>
            simp only
            split
            · exact h1
            · split
              · rename_i hlt
                intro x hx
                rw [dataPut_running] at hx
                rcases mem_setRun hh0 _ x hx with rfl | hxm
                · show InRange l r.shard (if all = true then (g.hist.length : Int) - 1 else r.applied + 1)
                  by_cases hn : (if all = true then (g.hist.length : Int) - 1 else r.applied + 1) < 0
                  · exact Or.inl hn
                  · refine Or.inr ⟨g, hg, ?_⟩
                    split at hn <;> split <;> omega
                · exact h1 x hxm
              · exact h1
        · cases hg : l.group? r.shard with
          | none => exact h2
          | some g =>
            simp only
            split
            · exact h2
            · split
              · rename_i hlt
                intro e he
                rcases mem_dataPut' _ _ _ _ e he with rfl | hem
                · show InRange l r.shard (if all = true then (g.hist.length : Int) - 1 else r.applied + 1)
                  by_cases hn : (if all = true then (g.hist.length : Int) - 1 else r.applied + 1) < 0
                  · exact Or.inl hn
                  · refine Or.inr ⟨g, hg, ?_⟩
                    split at hn <;> split <;> omega
                · exact h2 e hem
              · exact h2
    obtain ⟨k1, k2⟩ := key h.running h (fun x hx => har.run h hm x hx) (fun e he => har.data h hm e he)
    exact ar_setHost l _ har k1 k2

/-- the invariant through every event of the closed loop -/
theorem ar_kstep (size : Nat → Nat) (defIds : Nat → List Nat) (l l' : Loop) (har : l.AR) (h : KStep size defIds l l') :
    l'.AR := by
  cases h with
  | dbLocal db' _ _ _ => exact ar_db l db' har
  | report _ a lost n h => exact ar_report l l' a lost n h har
  | schedule cx draws rest rs db' n _ _ _ _ _ => exact ar_db l db' har
  | launch cx draws rest rs db' n _ _ _ _ => exact ar_db l db' har
  | execute a => exact ar_execute l a har
  | crash a => exact ar_crash l a har
  | restart a => exact ar_restart l a har
  | progress a all => exact ar_progress l a all har
  | settle a => exact ar_settle l a har

theorem ar_ksteps (size : Nat → Nat) (defIds : Nat → List Nat) (l l' : Loop) (har : l.AR)
    (hs : KSteps size defIds l l') : l'.AR := by
  induction hs with
  | refl => exact har
  | tail l' l'' _ hstep ih => exact ar_kstep size defIds l' l'' ih hstep

theorem ar_cold (l : Loop) (hg : l.groups = []) (hh : ∀ x ∈ l.hosts, x.running = [] ∧ x.data = []) : l.AR := by
  refine ⟨?_, ?_, ?_⟩
  · intro s g hgs
    have := (group?_mem l s g hgs).1
    rw [hg] at this; cases this
  · intro x hx rep hrep; rw [(hh x hx).1] at hrep; cases hrep
  · intro x hx e he; rw [(hh x hx).2] at he; cases he

/-- C18 inside the loop, "every hosted replica is listed": in every reachable state of the closed loop a host's report
    has an entry for every replica it runs (the `none` branches of the fleet model's report builder are dead) -/
theorem report_lists_every_running_replica (l : Loop) (har : l.AR) (h : Host) (hm : h ∈ l.hosts) (count : Nat)
    (rep : SimReplica) (hrun : h.run? rep.shard = some rep) :
    ∃ ci ∈ (l.buildReport h count).shardInfo, ci.shardId = rep.shard ∧ ci.replicaId = rep.id := by
  apply buildReport_lists_running l h count rep hrun
  rcases har.run h hm rep (run?_mem h rep.shard rep hrun).1 with hneg | ⟨g, hg, hlt⟩
  · exact Or.inl hneg
  · by_cases hneg : rep.applied < 0
    · exact Or.inl hneg
    · right
      have : rep.applied.toNat < g.hist.length := hlt
      exact ⟨g, g.hist[rep.applied.toNat], hg, by simp [this]⟩

#print axioms ar_kstep
#print axioms ar_cold
#print axioms report_lists_every_running_replica
end Drummer
