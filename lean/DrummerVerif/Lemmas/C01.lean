import DrummerVerif.Lemmas.C12
/-! C01 prototype: per-round progress lemmas over M-SCHED (the completeness duals of C12 / C02) -/
namespace Drummer

theorem concatOutcome_complete {α β : Type} (f : α → Outcome (List β)) :
    ∀ (l : List α) (bs : List β), concatOutcome f l = .ok bs →
      ∀ a ∈ l, ∀ one, f a = .ok one → ∀ b ∈ one, b ∈ bs := by
  intro l
  induction l with
  | nil => intro bs _ a ha; simp at ha
  | cons x rest ih =>
    intro bs h a ha one hone b hb
    unfold concatOutcome at h
    cases h1 : f x with
    | panic w => simp [h1] at h
    | ok o1 =>
      simp only [h1] at h
      cases h2 : concatOutcome f rest with
      | panic w => simp [h2] at h
      | ok bs' =>
        simp only [h2] at h
        cases h
        rcases List.mem_cons.mp ha with rfl | ha'
        · rw [h1] at hone; cases hone
          exact List.mem_append_left _ hb
        · exact List.mem_append_right _ (ih bs' h2 a ha' one hone b hb)

/-- progress 1: whenever the restore phase succeeds, every failed member whose host is live and lists its log gets a
    restore request — provided its shard is handled by one of the two restore passes (it has a healthy majority or a
    waiting member, or the restorable members complete a majority) -/
theorem restore_complete (cx : Ctx) (rs : List Request) (h : restore cx = .ok rs)
    (cr : ShardRepair) (hcr : cr ∈ cx.repairs)
    (hpass : cr.restoreNow cx = true ∨ (cr.needToBeRestored = false ∧ (doneShards cx).contains cr.shard.shardId = false))
    (n : Replica) (hn : n ∈ restorable cx cr) (d : ShardDef) (hd : cx.def? cr.shard.shardId = some d) :
    createReq n cr.shard d.appName false true ∈ rs := by
  unfold restore at h
  cases hu : concatOutcome (restoreUnavailable1 cx) cx.repairs with
  | panic w => simp [hu] at h
  | ok u =>
    simp only [hu] at h
    cases hf : concatOutcome (restoreFailed1 cx (doneShards cx)) cx.repairs with
    | panic w => simp [hf] at h
    | ok f =>
      simp only [hf] at h
      cases h
      have hreqs : restoreReqs cx cr (restorable cx cr) = .ok ((restorable cx cr).map (createReq · cr.shard d.appName false true)) := by
        unfold restoreReqs
        have hne : (restorable cx cr).isEmpty = false := by
          cases hr : restorable cx cr with
          | nil => rw [hr] at hn; simp at hn
          | cons a t => rfl
        simp [hne, hd]
      have hmem : createReq n cr.shard d.appName false true ∈ (restorable cx cr).map (createReq · cr.shard d.appName false true) :=
        List.mem_map_of_mem hn
      rcases hpass with hnow | ⟨hneed, hdone⟩
      · apply List.mem_append_left
        refine concatOutcome_complete _ _ u hu cr hcr _ ?_ _ hmem
        unfold restoreUnavailable1; simp [hnow, hreqs]
      · apply List.mem_append_right
        refine concatOutcome_complete _ _ f hf cr hcr _ ?_ _ hmem
        unfold restoreFailed1
        have hnm : cr.shard.shardId ∉ doneShards cx := by
          intro hm
          have : (doneShards cx).contains cr.shard.shardId = true := by simpa using hm
          rw [hdone] at this; cases this
        simp [hneed, hreqs, hnm]

/-- the requests decided for a repair entry of a shard that was not restored are all in the round's output -/
theorem repair_includes (cx : Ctx) (restored : List Nat) : ∀ (l : List ShardRepair) (draws : List Nat)
    (rs : List Request) (rest : List Nat), repair cx restored l draws = .ok rs rest →
    ∀ cr ∈ l, restored.contains cr.shard.shardId = false →
      ∃ dr one dr', repairOne cx cr dr = .ok one dr' ∧ ∀ r ∈ one, r ∈ rs := by
  intro l
  induction l with
  | nil => intro draws rs rest _ cr hcr; simp at hcr
  | cons x tl ih =>
    intro draws rs rest h cr hcr hnot
    unfold repair at h
    by_cases hres : restored.contains x.shard.shardId = true
    · simp only [hres, if_true] at h
      rcases List.mem_cons.mp hcr with rfl | hm
      · rw [hres] at hnot; cases hnot
      · exact ih draws rs rest h cr hm hnot
    · simp only [hres] at h
      cases hone : repairOne cx x draws with
      | panic w => simp [hone] at h
      | error w => simp [hone] at h
      | ok one dr =>
        simp only [hone] at h
        cases htl : repair cx restored tl dr with
        | panic w => simp [htl] at h
        | error w => simp [htl] at h
        | ok rs' dr' =>
          simp only [htl] at h
          rcases List.mem_cons.mp hcr with rfl | hm
          · cases h
            exact ⟨draws, one, dr, hone, fun r hr => List.mem_append_left _ hr⟩
          · obtain ⟨a, b, c, e1, e2⟩ := ih dr rs' dr' htl cr hm hnot
            cases h
            exact ⟨a, b, c, e1, fun r hr => List.mem_append_right _ (e2 r hr)⟩

/-- progress 2: a waiting member of a shard that is neither restored nor due for a removal gets its join request -/
theorem create_progress (cx : Ctx) (cr : ShardRepair) (draws : List Nat) (one : List Request) (rest : List Nat)
    (d : ShardDef) (hd : cx.def? cr.shard.shardId = some d) (hnd : cr.deleteRequired d.members.length = false)
    (t : Replica) (tt : List Replica) (hts : cr.toStart = t :: tt)
    (h : repairOne cx cr draws = .ok one rest) : one = [createReq t cr.shard d.appName true false] := by
  unfold repairOne at h
  simp only [hd, hnd, Bool.false_eq_true, if_false] at h
  have hc : cr.createRequired = true := by unfold ShardRepair.createRequired; simp [hts]
  simp only [hc, if_true] at h
  unfold createOne at h
  simp only [hts] at h
  cases h; rfl

#print axioms restore_complete
#print axioms repair_includes
#print axioms create_progress
end Drummer
