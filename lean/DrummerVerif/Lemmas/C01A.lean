import DrummerVerif.Lemmas.C01F
/-! C01, the replacement path, first round: a member whose NodeHost is gone for good (no recent record with its log, so it
    cannot be restored) in a shard that keeps a majority and has no member waiting gets exactly one ADD request: addressed
    to the NodeHost of a healthy member, fenced by the view's version, naming an eligible NodeHost and a fresh id. -/
namespace Drummer

/-- progress 3 (dual of the add branch of `repairOne_spec`): an entry that needs neither a removal nor a start but has a
    failed member and a majority yields exactly one request, an ADD, whenever the decision succeeds -/
theorem add_progress (cx : Ctx) (cr : ShardRepair) (draws : List Nat) (one : List Request) (rest : List Nat)
    (d : ShardDef) (hd : cx.def? cr.shard.shardId = some d) (hnd : cr.deleteRequired d.members.length = false)
    (hnc : cr.createRequired = false) (hadd : cr.addRequired = true)
    (h : repairOne cx cr draws = .ok one rest) : ∃ r, one = [r] ∧ r.type = .add := by
  unfold repairOne at h
  simp only [hd, hnd, hnc, hadd, Bool.false_eq_true, if_false, if_true] at h
  unfold addOne at h
  cases hff : cr.failed with
  | nil => simp [hff] at h
  | cons f ft =>
    simp only [hff] at h
    cases hrep : replacement cx f draws with
    | none => simp [hrep] at h
    | some pr =>
      obtain ⟨oh, dr1⟩ := pr
      cases oh with
      | none => simp [hrep] at h
      | some hst =>
        cases dr1 with
        | nil => simp [hrep] at h
        | cons d1 dr2 =>
          simp only [hrep] at h
          cases hfr : freshId cr.shard dr2 with
          | none => simp [hfr] at h
          | some p =>
            obtain ⟨d2, draws2⟩ := p
            simp only [hfr] at h
            cases hvia : nth? cr.ok (d1 % cr.ok.length) with
            | none => simp [hvia] at h
            | some via =>
              simp only [hvia, SRes.ok.injEq] at h
              exact ⟨addReq cr hst via d2, h.1.symm, rfl⟩

/-- **the round for a member that is gone for good is exactly one ADD request**: every view but `c` healthy, `c` with
    exactly the member `m` failed, nobody waiting, a majority healthy, the view no larger than the shard's defined size,
    `m` NOT restorable (no record of its NodeHost, or not recent, or without the log), no stray recorded. Whenever the
    round succeeds (enough scripted draws, an eligible NodeHost exists) it is one request, and that request is justified
    as an ADD by `RepairJust`. -/
theorem round_is_one_add (d : DB) (cx : Ctx) (hcx : CtxOnce d cx)
    (draws rest : List Nat) (rs : List Request) (hm : maintain cx draws = .ok rs rest)
    (hidsAll : ∀ c ∈ d.image.shards, c.IdsOK) (hk : d.image.toKill = [])
    (c : Shard) (hc : c ∈ d.image.shards)
    (m : Replica) (hfail : c.failedReplicas d.tick = [m]) (hwait : c.toStart d.tick = [])
    (havail : c.available d.tick = true)
    (hothers : ∀ c' ∈ d.image.shards, c' ≠ c → c'.failedReplicas d.tick = [] ∧ c'.toStart d.tick = [])
    (dd : ShardDef) (hdd : dd ∈ d.shards) (hdds : dd.shardId = c.shardId)
    (hsize : ∀ dx ∈ d.shards, dx.shardId = c.shardId → c.replicas.length ≤ dx.members.length)
    (hgone : ∀ spec, hostFind? d.hosts m.address = some spec →
      (spec.available d.tick && spec.hasLog m.shardId m.replicaId) = false) :
    ∃ cr r, cr ∈ cx.repairs ∧ cr.shard = c ∧ rs = [r] ∧ r.type = .add ∧ RepairJust cx cr r := by
  obtain ⟨cr, hcr, hcrs⟩ := hcx.complete c hc (Or.inl (by rw [hfail]; simp))
  have hall : ∀ cr' ∈ cx.repairs, cr'.shard = c := by
    intro cr' hcr'
    obtain ⟨hin, pf', _, pw'⟩ := hcx.repairs cr' hcr'
    by_cases he : cr'.shard = c
    · exact he
    · exfalso
      obtain ⟨hf0, hw0⟩ := hothers cr'.shard hin he
      rw [hf0] at pf'; rw [hw0] at pw'
      rcases hcx.needed cr' hcr' with h | h
      · exact h (List.Perm.eq_nil pf')
      · exact h (List.Perm.eq_nil pw')
  have hone : cx.repairs = [cr] := by
    have hnd := hcx.once
    match hrep : cx.repairs, hcr with
    | [x], hx => simp at hx; rw [hx]
    | x :: y :: tl, _ =>
      exfalso
      rw [hrep] at hnd hall
      have hx := hall x (by simp)
      have hy := hall y (by simp)
      simp only [List.map_cons, List.nodup_cons, List.mem_cons] at hnd
      exact hnd.1 (Or.inl (by rw [hx, hy]))
  obtain ⟨_, pf, po, pw⟩ := hcx.repairs cr hcr
  rw [hcrs] at pf po pw
  rw [hfail] at pf; rw [hwait] at pw
  have hf1 : cr.failed = [m] := perm_singleton_eq _ _ pf
  have hw0 : cr.toStart = [] := List.Perm.eq_nil pw
  have hpart := classes_partition c d.tick
  rw [hfail, hwait] at hpart
  simp only [List.length_cons, List.length_nil] at hpart
  have hav : cr.available = true := by
    unfold Shard.available Shard.quorum at havail
    have hav' : (c.okReplicas d.tick).length ≥ c.replicas.length / 2 + 1 := by simpa using havail
    unfold ShardRepair.available ShardRepair.quorum
    rw [hf1, hw0, po.length_eq]
    simp only [List.length_cons, List.length_nil]
    simp
    omega
  have hneed : cr.needToBeRestored = false := by
    unfold ShardRepair.needToBeRestored; rw [hav]; rfl
  have hdefs : ∃ dx, cx.def? cr.shard.shardId = some dx := by
    unfold Ctx.def?
    cases hfd : cx.defs.find? (·.shardId == cr.shard.shardId) with
    | some dx => exact ⟨dx, rfl⟩
    | none =>
      have := List.find?_eq_none.mp hfd dd (hcx.defsAll dd hdd)
      rw [hcrs] at this
      simp [hdds] at this
  obtain ⟨dx, hdef⟩ := hdefs
  have hdxin : dx ∈ d.shards := by
    unfold Ctx.def? at hdef
    exact hcx.defs dx (List.mem_of_find?_eq_some hdef)
  have hdxs : dx.shardId = c.shardId := by
    unfold Ctx.def? at hdef
    have := List.find?_some hdef
    rw [hcrs] at this
    simpa using this
  have hmem : m ∈ c.replicas := by
    have : m ∈ c.failedReplicas d.tick := by rw [hfail]; exact List.mem_cons_self
    unfold Shard.failedReplicas at this
    exact (List.mem_filter.mp this).1
  have hrest : restorable cx cr = [] := by
    unfold restorable
    rw [hf1]
    simp only [List.filter_cons, List.filter_nil]
    rw [hcx.hostsAll, hcx.now]
    cases hsp : hostFind? d.hosts m.address with
    | none => simp
    | some spec => simp [hgone spec hsp]
  have hnow : cr.restoreNow cx = false := by unfold ShardRepair.restoreNow; rw [hneed]; rfl
  have hnd : cr.deleteRequired dx.members.length = false := by
    unfold ShardRepair.deleteRequired
    have hsz := hsize dx hdxin hdxs
    have : ¬ (cr.failed.length + cr.ok.length > dx.members.length) := by
      rw [hf1, po.length_eq]
      simp only [List.length_cons, List.length_nil]
      omega
    simp [this]
  have hnc : cr.createRequired = false := by unfold ShardRepair.createRequired; rw [hw0]; rfl
  have haddr : cr.addRequired = true := by unfold ShardRepair.addRequired; rw [hf1, hw0, hav]; rfl
  unfold maintain restore at hm
  rw [hone] at hm
  simp only [concatOutcome, restoreUnavailable1, hnow, Bool.false_eq_true, if_false, doneShards, hone,
    List.filter_cons, List.filter_nil, Bool.false_and, List.map_nil, restoreFailed1, hneed, List.contains_nil,
    Bool.or_false, restoreReqs, hrest, List.isEmpty_nil, if_true, List.append_nil] at hm
  simp only [repair, List.contains_nil, Bool.false_eq_true, if_false, killReqs, hcx.kills, hk, List.map_nil, List.append_nil] at hm
  cases hro : repairOne cx cr draws with
  | panic w => simp [hro] at hm
  | error w => simp [hro] at hm
  | ok one dr =>
    simp only [hro, List.append_nil, List.nil_append] at hm
    obtain ⟨r, hr1, hrt⟩ := add_progress cx cr draws one dr dx hdef hnd hnc haddr hro
    have hwf : ∀ x ∈ cr.failed, x.shardId = cr.shard.shardId := by
      intro x hx
      rw [hf1] at hx
      simp only [List.mem_cons, List.not_mem_nil, or_false] at hx
      subst hx
      rw [hcrs]; exact hidsAll c hc x hmem
    have hjust := (repairOne_spec cx cr draws one dr hwf hro).2 r (by rw [hr1]; exact List.mem_cons_self)
    split at hm
    · cases hm
    · cases hm
      exact ⟨cr, r, hcr, hcrs, hr1, hrt, hjust⟩

#print axioms round_is_one_add

/-! ### the ADD is executed -/

/-- the membership an accepted ADD of `(id, na)` produces -/
def Membership.added (cur : Membership) (ver id : Nat) (na : Addr) : Membership :=
  { ver := ver, members := cur.members ++ [(id, na)], removed := cur.removed }

/-- **an ADD that dragonboat accepts extends the group**: the request reaches a NodeHost that runs a member of the
    shard, is fenced by the group's current version, a majority of the members is running, and `(id, na)` is admissible
    (id never used in the group - neither a member nor removed -, no member at `na`). Then the group's history grows by
    exactly the membership with `(id, na)` appended, at a new version; the executing replica is at the new entry. -/
theorem execChange_add (l : Loop) (h : Host) (r : Request) (g : Group) (rep : SimReplica) (id : Nat) (na : Addr)
    (hg : l.group? r.shardId = some g) (hid : r.members = [id]) (hty : r.type = .add) (hna : r.addressList = [na])
    (hrun : h.run? r.shardId = some rep) (hmemb : g.cur.members.any (·.1 == rep.id) = true)
    (hcc : r.confChangeId = g.cur.ver) (hq : l.quorumRunning r.shardId = true)
    (hrem : id ∉ g.cur.removed) (hnew : g.cur.members.any (·.1 == id) = false)
    (hnaf : g.cur.members.any (·.2 == na) = false) :
    l.execChange h r =
      (({ l with nextVer := l.nextVer + 1 } : Loop).setGroup { g with hist := g.hist ++ [g.cur.added (l.nextVer + 1) id na] }).setHost
        ((h.setRun { rep with applied := ((g.hist ++ [g.cur.added (l.nextVer + 1) id na]).length : Int) - 1 }).dataPut r.shardId rep.id
          (((g.hist ++ [g.cur.added (l.nextVer + 1) id na]).length : Int) - 1)) := by
  have happ : l.changeApplicable h g r = some rep := by
    unfold Loop.changeApplicable
    simp [hrun, hmemb, hcc, hq]
  have hcm : changeMembers g.cur r id = some (g.cur.members ++ [(id, na)], g.cur.removed) := by
    unfold changeMembers
    simp [hty, hna, hrem, hnew, hnaf]
  unfold Loop.execChange
  simp only [hg, hid, List.head?_cons, happ, hcm]
  rfl

#print axioms execChange_add

theorem quorumRunning_sameFleet (l l' : Loop) (hf : SameFleet l l') (s : Nat) : l'.quorumRunning s = l.quorumRunning s := by
  unfold Loop.quorumRunning Loop.group?
  rw [hf.1]
  cases hg : l.groups.find? (·.shard == s) with
  | none => rfl
  | some g =>
    simp only
    have : (g.cur.members.filter fun (p : Nat × Addr) =>
        match l'.host? p.2 with
        | some h => h.up && (match h.run? s with | some r => r.id == p.1 | none => false)
        | none => false) =
      (g.cur.members.filter fun (p : Nat × Addr) =>
        match l.host? p.2 with
        | some h => h.up && (match h.run? s with | some r => r.id == p.1 | none => false)
        | none => false) := by
      apply List.filter_congr
      intro p _
      have hv := hf.2 p.2
      cases h1 : l'.host? p.2 with
      | none =>
        cases h2 : l.host? p.2 with
        | none => rfl
        | some x => rw [h1, h2] at hv; simp at hv
      | some y =>
        cases h2 : l.host? p.2 with
        | none => rw [h1, h2] at hv; simp at hv
        | some x =>
          rw [h1, h2] at hv
          simp only [Option.map_some, Option.some.injEq, Host.view, Prod.mk.injEq] at hv
          obtain ⟨hr, hu, _⟩ := hv
          simp only [Host.run?, hr, hu]
    exact congrArg (fun L => decide (List.length L ≥ g.cur.members.length / 2 + 1)) this

/-- a round that is one membership-change request, applied with nothing scheduled: one batch for its addressee -/
theorem applyRequests_one_change (d d' : DB) (r : Request) (n : Nat) (hr : d.requests = []) (hty : r.type ≠ .create)
    (h : d.applyRequests [r] = .ok (d', n)) : d' = { d with requests := [(r.raftAddress, [r])] } := by
  unfold DB.applyRequests isLaunchBatch at h
  have hl : isLaunchReq r = false := by
    unfold isLaunchReq
    cases ht : r.type <;> simp_all
  simp [hl, DB.mergeRequests, hr, groupStep, amGet, amPut, amDel] at h
  exact h.1.symm

#print axioms quorumRunning_sameFleet
#print axioms applyRequests_one_change

theorem report_nextVer (l l' : Loop) (a : Addr) (lost : Bool) (n : Nat) (h : l.report a lost = .ok (l', n)) :
    l'.nextVer = l.nextVer := by
  unfold Loop.report at h
  cases hh : l.host? a with
  | none => simp [hh] at h
  | some h0 =>
    simp only [hh] at h
    cases ha : l.db.applyReport (l.buildReport { h0 with reportCount := h0.reportCount + 1 } (h0.reportCount + 1)) with
    | panic w => simp [ha] at h
    | ok p =>
      obtain ⟨db2, n2⟩ := p
      simp only [ha, Outcome.ok.injEq, Prod.mk.injEq] at h
      obtain ⟨rfl, _⟩ := h
      rfl

/-- **the replacement member is added** (C01, replacement path, first leg end to end): a settled fleet whose only anomaly
    is one member `m` of shard `c.shardId`, classified failed and NOT restorable; the view mirrors the group, the healthy
    members are running on their NodeHosts and form a running majority. ONE round (any context built from the state, any
    draws for which it succeeds), the report of the NodeHost the request is addressed to, and its execution: the group's
    membership is the old one with `(id, na)` appended at a new version, where `na` is the address of a NodeHost Drummer
    holds a recent record of that does not host the shard and `id` is non-zero and not the id of a member of the view.
    Admissibility of `(id, na)` against what dragonboat remembers but Drummer does not check (ids of removed members,
    members the view has not seen) is a hypothesis: dragonboat rejects such a change and Drummer redraws next round. -/
theorem replacement_member_is_added (l : Loop) (hs : l.Settled)
    (cx : Ctx) (hcx : CtxOnce l.db cx) (draws rest : List Nat) (rs : List Request) (hm : maintain cx draws = .ok rs rest)
    (db' : DB) (n : Nat) (hap : l.db.applyRequests rs = .ok (db', n))
    (hidsAll : ∀ c ∈ l.db.image.shards, c.IdsOK) (c : Shard) (hc : c ∈ l.db.image.shards)
    (m : Replica) (hfail : c.failedReplicas l.db.tick = [m]) (hwait : c.toStart l.db.tick = [])
    (havail : c.available l.db.tick = true)
    (hothers : ∀ c' ∈ l.db.image.shards, c' ≠ c → c'.failedReplicas l.db.tick = [] ∧ c'.toStart l.db.tick = [])
    (dd : ShardDef) (hdd : dd ∈ l.db.shards) (hdds : dd.shardId = c.shardId)
    (hsize : ∀ dx ∈ l.db.shards, dx.shardId = c.shardId → c.replicas.length ≤ dx.members.length)
    (hgone : ∀ spec, hostFind? l.db.hosts m.address = some spec →
      (spec.available l.db.tick && spec.hasLog m.shardId m.replicaId) = false)
    (g : Group) (hg : l.group? c.shardId = some g)
    (hmirror : ∀ x ∈ c.replicas, (x.replicaId, x.address) ∈ g.cur.members)
    (hrunning : ∀ x ∈ c.okReplicas l.db.tick, ∃ hx rep, l.host? x.address = some hx ∧ hx.run? c.shardId = some rep ∧
      rep.id = x.replicaId)
    (hquorum : l.quorumRunning c.shardId = true)
    (hadm : ∀ r ∈ rs, ∀ id na, r.members = [id] → r.addressList = [na] →
      id ∉ g.cur.removed ∧ ∀ p ∈ g.cur.members, p.1 ≠ id ∧ p.2 ≠ na) :
    ∃ r via id spec, rs = [r] ∧ r.type = .add ∧ r.members = [id] ∧ r.addressList = [spec.address] ∧
      via ∈ c.okReplicas l.db.tick ∧ r.raftAddress = via.address ∧
      spec ∈ cx.hosts ∧ liveFilter l.db.tick nodeHostTTL spec = true ∧ basicFilter c.shardId spec = true ∧
      id ≠ 0 ∧ (∀ x ∈ c.replicas, x.replicaId ≠ id) ∧
      ∀ (l2 : Loop) (k : Nat), ({ l with db := db' } : Loop).report via.address false = .ok (l2, k) →
        (l2.execute via.address).group? c.shardId =
            some { g with hist := g.hist ++ [g.cur.added (l.nextVer + 1) id spec.address] } ∧
          (∀ s, s ≠ c.shardId → (l2.execute via.address).group? s = l.group? s) ∧
          (l2.execute via.address).db.requests = [] ∧ (∀ x ∈ (l2.execute via.address).hosts, x.queue = []) := by
  obtain ⟨cr, r, hcr, hcrs, hrs, hty, hjust⟩ := round_is_one_add l.db cx hcx draws rest rs hm hidsAll hs.noKill c hc m hfail
    hwait havail hothers dd hdd hdds hsize hgone
  subst hrs
  have hshard : r.shardId = c.shardId := by rw [hjust.shard, hcrs]
  rcases hjust.just with ⟨hdel, _⟩ | ⟨hcre, _⟩ | ⟨_, hcc, _, _, _, ⟨via, hvia, hra⟩, ⟨spec, hspec, hal, hlive, hbasic⟩, _, id, hid, hnz, hnew⟩
  · rw [hty] at hdel; cases hdel
  · rw [hty] at hcre; cases hcre
  obtain ⟨_, _, po, _⟩ := hcx.repairs cr hcr
  rw [hcrs] at po hcc hbasic hnew
  have hviaok : via ∈ c.okReplicas l.db.tick := po.mem_iff.mp hvia
  rw [hcx.now] at hlive
  refine ⟨r, via, id, spec, rfl, hty, hid, hal, hviaok, hra, hspec, hlive, hbasic, hnz, hnew, ?_⟩
  intro l2 k hrep
  have hdb' := applyRequests_one_change l.db db' r n hs.noReqs (by rw [hty]; exact fun e => by cases e) hap
  subst hdb'
  rw [hra] at hrep
  -- the pick-up
  have hcore1 : ({ l with db := { l.db with requests := [(via.address, [r])] } } : Loop).Core := ⟨hs.views, hs.running, hs.noKill⟩
  obtain ⟨hc2, hf2, _, hr2, ⟨h2, hh2, hq2⟩, hqo2⟩ := report_pickup _ l2 via.address k [r] hcore1 rfl hs.queues hrep
  have hnv : l2.nextVer = ({ l with db := { l.db with requests := [(via.address, [r])] } } : Loop).nextVer :=
    report_nextVer _ l2 _ _ _ hrep
  obtain ⟨hx, rep, hhx, hrunx, hrid⟩ := hrunning via hviaok
  obtain ⟨h2', hh2', hrun2, _, _⟩ := sameFleet_host _ l2 hf2 via.address hx hhx
  rw [hh2] at hh2'
  cases hh2'
  have ha2 : h2.addr = via.address := host?_addr l2 _ h2 hh2
  have hg2 : l2.group? c.shardId = some g := by
    unfold Loop.group? at hg ⊢
    rw [hf2.1]; exact hg
  have hviarep : via ∈ c.replicas := by
    unfold Shard.okReplicas at hviaok
    exact (List.mem_filter.mp hviaok).1
  -- the execution is one accepted change
  have hgcur : c.cci = g.cur.ver := by
    obtain ⟨g', hg', hv⟩ := hs.views c hc
    rw [hg] at hg'; cases hg'; exact hv
  obtain ⟨hnotrem, hnotmem⟩ := hadm r List.mem_cons_self id spec.address hid hal
  have hX : SameFleet l (l2.setHost { h2 with queue := [] }) :=
    sameFleet_trans _ _ _ hf2 (setHost_sameFleet l2 l2 via.address h2 _ hh2 ha2 rfl rfl rfl)
  have hex : l2.execute via.address =
      ((({ (l2.setHost { h2 with queue := [] }) with nextVer := (l2.setHost { h2 with queue := [] }).nextVer + 1 } : Loop).setGroup
        { g with hist := g.hist ++ [g.cur.added ((l2.setHost { h2 with queue := [] }).nextVer + 1) id spec.address] }).setHost
        (((({ h2 with queue := [] } : Host).setRun { rep with applied := ((g.hist ++ [g.cur.added ((l2.setHost { h2 with queue := [] }).nextVer + 1) id spec.address]).length : Int) - 1 }).dataPut r.shardId rep.id
          (((g.hist ++ [g.cur.added ((l2.setHost { h2 with queue := [] }).nextVer + 1) id spec.address]).length : Int) - 1)))) := by
    unfold Loop.execute
    simp only [hh2, hq2, List.foldl_cons, List.foldl_nil]
    unfold Loop.exec1
    rw [host?_setHost l2 via.address h2 { h2 with queue := [] } hh2 ha2]
    simp only [hty]
    apply execChange_add _ _ r g rep id spec.address (by rw [hshard]; exact hg2) hid hty hal
    · show h2.run? r.shardId = some rep
      rw [hshard]
      unfold Host.run? at hrunx ⊢
      rw [hrun2]; exact hrunx
    · rw [hrid]
      apply List.any_eq_true.mpr
      exact ⟨(via.replicaId, via.address), hmirror via hviarep, by simp⟩
    · rw [hcc]; exact hgcur
    · rw [hshard, quorumRunning_sameFleet l _ hX]; exact hquorum
    · exact hnotrem
    · apply Bool.eq_false_iff.mpr
      intro ha
      obtain ⟨p, hp, he⟩ := List.any_eq_true.mp ha
      exact (hnotmem p hp).1 (by simpa using he)
    · apply Bool.eq_false_iff.mpr
      intro ha
      obtain ⟨p, hp, he⟩ := List.any_eq_true.mp ha
      exact (hnotmem p hp).2 (by simpa using he)
  have hnv2 : (l2.setHost { h2 with queue := [] }).nextVer = l.nextVer := hnv
  rw [hnv2] at hex
  have hgshard : g.shard = c.shardId := (group?_mem l _ g hg).2
  refine ⟨?_, ?_, ?_, ?_⟩
  · rw [hex, group?_setHost, group?_setGroup]
    simp [hgshard]
  · intro s hne
    rw [hex, group?_setHost, group?_setGroup]
    have : ¬ g.shard = s := by rw [hgshard]; exact fun e => hne e.symm
    simp only [this, if_false]
    show (l2.setHost { h2 with queue := [] }).group? s = l.group? s
    unfold Loop.group?
    rw [hX.1]
  · rw [execute_db]; exact hr2
  · intro x hx'
    rw [hex] at hx'
    rcases mem_setHost' _ _ x hx' with rfl | ⟨hx2, hxa⟩
    · rfl
    · rw [setGroup_hosts] at hx2
      rcases mem_setHost' _ _ x hx2 with rfl | ⟨hx3, hxa3⟩
      · rfl
      · exact hqo2 x hx3 (by rw [← ha2]; exact hxa3)

#print axioms replacement_member_is_added
end Drummer
