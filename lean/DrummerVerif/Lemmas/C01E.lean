import DrummerVerif.Lemmas.C01H
/-! C01 end to end for the simplest fault: a healed fleet, one member crashes with its NodeHost (which comes back with
    the data), the timeout passes, and the fleet is healed again - settled, every member running - after one scheduling
    round, the NodeHost's report, its execution and its next report. -/
namespace Drummer

/-- the scheduler context lists every view at most once (shardsToRepair is built from a map keyed by shard id) -/
structure CtxOnce (d : DB) (cx : Ctx) : Prop extends CtxFull d cx where
  once : (cx.repairs.map (·.shard.shardId)).Nodup

/-- **the round is exactly one restore request**: every view but `c` healthy, `c` with exactly the member `m` failed,
    nobody waiting, a majority healthy, `m` restorable, no stray recorded -/
theorem round_is_one_restore (d : DB) (hu : UniqueShards d.image) (cx : Ctx) (hcx : CtxOnce d cx)
    (draws rest : List Nat) (rs : List Request) (hm : maintain cx draws = .ok rs rest)
    (hidsAll : ∀ c ∈ d.image.shards, c.IdsOK) (hk : d.image.toKill = [])
    (c : Shard) (hc : c ∈ d.image.shards)
    (m : Replica) (hfail : c.failedReplicas d.tick = [m]) (hwait : c.toStart d.tick = [])
    (havail : c.available d.tick = true)
    (hothers : ∀ c' ∈ d.image.shards, c' ≠ c → c'.failedReplicas d.tick = [] ∧ c'.toStart d.tick = [])
    (dd : ShardDef) (hdd : dd ∈ d.shards) (hdds : dd.shardId = c.shardId)
    (spec : HostSpec) (hspec : hostFind? d.hosts m.address = some spec)
    (hlive : spec.available d.tick = true) (hlog : spec.hasLog c.shardId m.replicaId = true) :
    ∃ app, rs = [createReq m c app false true] ∧ rest = draws := by
  -- the only entry of the round
  obtain ⟨cr, hcr, hcrs⟩ := hcx.complete c hc (Or.inl (by rw [hfail]; simp))
  have hall : ∀ cr' ∈ cx.repairs, cr'.shard = c := by
    intro cr' hcr'
    obtain ⟨hin, pf', _, pw'⟩ := hcx.repairs cr' hcr'
    by_cases he : cr'.shard = c
    · exact he
    · exfalso
      obtain ⟨hf0, hw0⟩ := hothers cr'.shard hin he
      rw [hf0] at pf'; rw [hw0] at pw'
      rcases hcx.needed cr' hcr' with h | h
      · exact h (List.Perm.eq_nil pf')
      · exact h (List.Perm.eq_nil pw')
  have hone : cx.repairs = [cr] := by
    have hnd := hcx.once
    match hrep : cx.repairs, hcr with
    | [x], hx => simp at hx; rw [hx]
    | x :: y :: tl, _ =>
      exfalso
      rw [hrep] at hnd hall
      have hx := hall x (by simp)
      have hy := hall y (by simp)
      simp only [List.map_cons, List.nodup_cons, List.mem_cons] at hnd
      exact hnd.1 (Or.inl (by rw [hx, hy]))
  obtain ⟨_, pf, po, pw⟩ := hcx.repairs cr hcr
  rw [hcrs] at pf po pw
  rw [hfail] at pf; rw [hwait] at pw
  have hf1 : cr.failed = [m] := perm_singleton_eq _ _ pf
  have hw0 : cr.toStart = [] := List.Perm.eq_nil pw
  have hmem : m ∈ c.replicas := by
    have : m ∈ c.failedReplicas d.tick := by rw [hfail]; exact List.mem_cons_self
    unfold Shard.failedReplicas at this
    exact (List.mem_filter.mp this).1
  have hms : m.shardId = c.shardId := hidsAll c hc m hmem
  have hneed : cr.needToBeRestored = false := by
    have hpart := classes_partition c d.tick
    rw [hfail, hwait] at hpart
    unfold Shard.available Shard.quorum at havail
    have hav : (c.okReplicas d.tick).length ≥ c.replicas.length / 2 + 1 := by simpa using havail
    unfold ShardRepair.needToBeRestored ShardRepair.available ShardRepair.quorum
    rw [hf1, hw0, po.length_eq]
    simp only [List.length_cons, List.length_nil] at hpart ⊢
    simp
    omega
  have hdefs : ∃ dx, cx.def? cr.shard.shardId = some dx := by
    unfold Ctx.def?
    cases hfd : cx.defs.find? (·.shardId == cr.shard.shardId) with
    | some dx => exact ⟨dx, rfl⟩
    | none =>
      have := List.find?_eq_none.mp hfd dd (hcx.defsAll dd hdd)
      rw [hcrs] at this
      simp [hdds] at this
  obtain ⟨dx, hdef⟩ := hdefs
  have hrest : restorable cx cr = [m] := by
    unfold restorable
    rw [hf1]
    simp only [List.filter_cons, List.filter_nil]
    rw [hcx.hostsAll, hspec, hcx.now, hms]
    simp [hlive, hlog]
  have hnow : cr.restoreNow cx = false := by unfold ShardRepair.restoreNow; rw [hneed]; rfl
  refine ⟨dx.appName, ?_⟩
  unfold maintain restore at hm
  rw [hone] at hm
  simp only [concatOutcome, restoreUnavailable1, hnow, Bool.false_eq_true, if_false, doneShards, hone,
    List.filter_cons, List.filter_nil, Bool.false_and, List.map_nil, restoreFailed1, hneed, List.contains_nil,
    Bool.or_false, restoreReqs, hrest, List.isEmpty_cons, hdef, List.map_cons, List.append_nil, List.nil_append] at hm
  have hsid : (createReq m cr.shard dx.appName false true).shardId = cr.shard.shardId := rfl
  simp only [repair, hsid, List.contains_cons, beq_self_eq_true, Bool.true_or, if_true, killReqs, hcx.kills, hk,
    List.map_nil, List.append_nil] at hm
  split at hm
  · cases hm
  · cases hm
    rw [hcrs]
    exact ⟨rfl, rfl⟩

/-! ### the settled state with something in the mailbox -/

/-- the part of `Settled` that does not talk about mailboxes and queues -/
structure Loop.Core (l : Loop) : Prop where
  views : ∀ c ∈ l.db.image.shards, ∃ g, l.group? c.shardId = some g ∧ c.cci = g.cur.ver
  running : ∀ h ∈ l.hosts, ∀ rep ∈ h.running,
    ∃ g, l.group? rep.shard = some g ∧ g.hist ≠ [] ∧ rep.applied = (g.hist.length : Int) - 1 ∧ l.db.image.HasView rep.shard
  noKill : l.db.image.toKill = []

theorem Loop.Settled.core {l : Loop} (h : l.Settled) : l.Core := ⟨h.views, h.running, h.noKill⟩

theorem settled_of_core (l : Loop) (h : l.Core) (hq : ∀ x ∈ l.hosts, x.queue = []) (hr : l.db.requests = []) : l.Settled :=
  ⟨h.views, h.running, hq, hr, h.noKill⟩

/-- `buildReport_current` needs the views only -/
theorem buildReport_current' (l : Loop) (hv : ∀ c ∈ l.db.image.shards, ∃ g, l.group? c.shardId = some g ∧ c.cci = g.cur.ver)
    (h : Host)
    (hrun : ∀ rep ∈ h.running,
      ∃ g, l.group? rep.shard = some g ∧ g.hist ≠ [] ∧ rep.applied = (g.hist.length : Int) - 1 ∧ l.db.image.HasView rep.shard)
    (count : Nat) : ∀ ci ∈ (l.buildReport h count).shardInfo, ci.Current l.db.image := by
  intro ci hci
  unfold Loop.buildReport at hci
  simp only [List.mem_filterMap] at hci
  obtain ⟨sid, _, hsome⟩ := hci
  cases hr : h.run? sid with
  | none => simp [hr] at hsome
  | some r =>
    simp only [hr] at hsome
    obtain ⟨hmem, hsid⟩ := run?_mem h sid r hr
    obtain ⟨g, hg, hne, hap, hvw⟩ := hrun r hmem
    rw [hsid] at hg hvw
    have hlen : 0 < g.hist.length := List.length_pos_iff.mpr hne
    have hneg : ¬ r.applied < 0 := by rw [hap]; omega
    have htn : r.applied.toNat = g.hist.length - 1 := by rw [hap]; omega
    simp only [hneg, if_false, hg, htn, hist_last_cur g hne] at hsome
    obtain ⟨c, hc⟩ := hasView_find _ sid hvw
    obtain ⟨hcm, hcs⟩ := find?_mem _ _ _ hc
    obtain ⟨g', hg', hcci⟩ := hv c hcm
    rw [hcs, hg] at hg'
    cases hg'
    simp only [hc, Option.map_some, hcci, ge_iff_le, Nat.le_refl, if_true, Option.some.injEq] at hsome
    subst hsome
    refine ⟨rfl, rfl, ?_⟩
    intro ec hec
    simp only at hec
    rw [hc] at hec
    cases hec
    simp only; rw [hcci]; exact Nat.le_refl _

/-- a report keeps the core, whatever is in the mailboxes: views keep their versions, nothing is recorded for killing, the
    fleet's replicas, data and power state do not change; the reporting NodeHost's queue grows by the reply -/
theorem report_core (l l' : Loop) (a : Addr) (lost : Bool) (n : Nat) (hs : l.Core) (h : l.report a lost = .ok (l', n)) :
    l'.Core ∧ SameFleet l l' ∧ (∀ s, l.db.image.HasView s → l'.db.image.HasView s) := by
  unfold Loop.report at h
  cases hh : l.host? a with
  | none => simp [hh] at h
  | some h0 =>
    simp only [hh] at h
    cases ha : l.db.applyReport (l.buildReport { h0 with reportCount := h0.reportCount + 1 } (h0.reportCount + 1)) with
    | panic w => simp [ha] at h
    | ok p =>
      obtain ⟨db2, n2⟩ := p
      simp only [ha, Outcome.ok.injEq, Prod.mk.injEq] at h
      obtain ⟨rfl, rfl⟩ := h
      have hmem : h0 ∈ l.hosts := by unfold Loop.host? at hh; exact List.mem_of_find?_eq_some hh
      have ha0 : h0.addr = a := host?_addr l a h0 hh
      have hcur := buildReport_current' l hs.views { h0 with reportCount := h0.reportCount + 1 } (hs.running h0 hmem) (h0.reportCount + 1)
      have hu := applyReport_image l.db db2 _ n2 ha
      have hcur' : ∀ ci ∈ ({ (l.buildReport { h0 with reportCount := h0.reportCount + 1 } (h0.reportCount + 1)) with
          lastTick := l.db.tick } : NodeHostInfo).shardInfo, ci.Current l.db.image := hcur
      obtain ⟨hQ, hV, hK⟩ := update_current_spec l.db.image db2.image _ hcur' hu
      -- the host after the report: same replicas, data, power state
      have hview : ∀ q : List Request, ({ h0 with reportCount := h0.reportCount + 1, queue := q } : Host).view = h0.view := fun _ => rfl
      have hh2v : (if lost = true then { h0 with reportCount := h0.reportCount + 1 }
          else { h0 with reportCount := h0.reportCount + 1, queue := h0.queue ++ db2.lookupRequests a } : Host).view = h0.view := by
        cases lost <;> rfl
      have hh2a : (if lost = true then { h0 with reportCount := h0.reportCount + 1 }
          else { h0 with reportCount := h0.reportCount + 1, queue := h0.queue ++ db2.lookupRequests a } : Host).addr = a := by
        cases lost <;> exact ha0
      have hh2r : (if lost = true then { h0 with reportCount := h0.reportCount + 1 }
          else { h0 with reportCount := h0.reportCount + 1, queue := h0.queue ++ db2.lookupRequests a } : Host).running = h0.running := by
        cases lost <;> rfl
      refine ⟨⟨?_, ?_, ?_⟩, setHost_sameFleet l _ a h0 _ hh hh2a hh2v rfl rfl, fun s hsv => hV s hsv⟩
      · intro c hc
        have hc2 : c ∈ db2.image.shards := hc
        exact hQ (fun c => ∃ g, l.group? c.shardId = some g ∧ c.cci = g.cur.ver) (fun c f _ hq => hq) hs.views c hc2
      · intro x' hx' rep hrep
        rcases mem_setHost _ _ x' hx' with rfl | hx
        · rw [hh2r] at hrep
          obtain ⟨g, hg, hne, hap, hv⟩ := hs.running h0 hmem rep hrep
          exact ⟨g, hg, hne, hap, hV _ hv⟩
        · obtain ⟨g, hg, hne, hap, hv⟩ := hs.running x' hx rep hrep
          exact ⟨g, hg, hne, hap, hV _ hv⟩
      · show db2.image.toKill = []
        cases hk : db2.image.toKill with
        | nil => rfl
        | cons k rest =>
          have := hK k (by rw [hk]; exact List.mem_cons_self)
          rw [hs.noKill] at this
          exact absurd this List.not_mem_nil

theorem mem_setHost' (X : Loop) (h' x : Host) (hx : x ∈ (X.setHost h').hosts) :
    x = h' ∨ (x ∈ X.hosts ∧ x.addr ≠ h'.addr) := by
  unfold Loop.setHost at hx
  simp only [List.mem_map] at hx
  obtain ⟨y, hy, hxy⟩ := hx
  by_cases he : (y.addr == h'.addr) = true
  · simp only [he, if_true] at hxy; exact Or.inl hxy.symm
  · have hf : (y.addr == h'.addr) = false := by simpa using he
    simp only [hf, Bool.false_eq_true, if_false] at hxy
    subst hxy
    exact Or.inr ⟨hy, by simpa using hf⟩

theorem host?_setHost_ne (X : Loop) (h' : Host) (b : Addr) (hne : h'.addr ≠ b) : (X.setHost h').host? b = X.host? b := by
  unfold Loop.setHost Loop.host?
  simp only
  rw [find?_map_addr]
  cases hb : X.hosts.find? (·.addr == b) with
  | none => rfl
  | some x =>
    have hxb : x.addr = b := by simpa using List.find?_some hb
    have hne' : ¬ x.addr = h'.addr := by rw [hxb]; exact fun e => hne e.symm
    simp [hne']

/-- a round that consists of one restore request, applied to a state with nothing scheduled: the request is scheduled for
    its addressee, nothing else changes -/
theorem applyRequests_one_restore (d d' : DB) (r : Request) (n : Nat) (hr : d.requests = []) (hres : r.restore = true)
    (h : d.applyRequests [r] = .ok (d', n)) :
    d' = { d with requests := [(r.raftAddress, [r])] } ∧ n = 1 := by
  unfold DB.applyRequests isLaunchBatch at h
  have hl : isLaunchReq r = false := by unfold isLaunchReq; simp [hres]
  simp [hl, DB.mergeRequests, hr, groupStep, amGet, amPut, amDel] at h
  exact ⟨h.1.symm, h.2.symm⟩

/-- the addressee's report picks the batch up -/
theorem applyReport_pickup (d d' : DB) (nhi : NodeHostInfo) (n : Nat) (q : List Request)
    (hr : d.requests = [(nhi.raftAddress, q)]) (h : d.applyReport nhi = .ok (d', n)) :
    d'.requests = [] ∧ d'.lookupRequests nhi.raftAddress = q := by
  unfold DB.applyReport at h
  cases hv : d.reportView nhi with
  | panic w => simp [hv] at h
  | ok d1 =>
    simp only [hv, Outcome.ok.injEq, Prod.mk.injEq] at h
    have h1 : d1.requests = [(nhi.raftAddress, q)] := by
      unfold DB.reportView at hv
      cases hu : d.image.update { nhi with lastTick := d.tick } with
      | panic w => simp [hu] at hv
      | ok image => simp only [hu] at hv; cases hv; exact hr
    have hm : d1.moveRequests nhi.raftAddress =
        ({ d1 with requests := [], outgoing := amPut (amDel d1.outgoing nhi.raftAddress) nhi.raftAddress q }, q.length) := by
      unfold DB.moveRequests
      simp [h1, amGet, amDel]
    rw [hm] at h
    obtain ⟨rfl, _⟩ := h
    have ho : ∀ x : DB, x.onUpdatedShardInfo.requests = x.requests ∧ x.onUpdatedShardInfo.outgoing = x.outgoing := by
      intro x; unfold DB.onUpdatedShardInfo; split <;> exact ⟨rfl, rfl⟩
    refine ⟨by rw [(ho _).1], ?_⟩
    unfold DB.lookupRequests
    rw [(ho _).2]
    simp [amGet, amPut]

/-- the addressee's report (reply not lost) on a core state with one batch scheduled: the batch is in its queue, nothing
    is scheduled any more, every other queue is as it was -/
theorem report_pickup (l l' : Loop) (a : Addr) (n : Nat) (q : List Request) (hs : l.Core)
    (hr : l.db.requests = [(a, q)]) (hq : ∀ x ∈ l.hosts, x.queue = [])
    (h : l.report a false = .ok (l', n)) :
    l'.Core ∧ SameFleet l l' ∧ (∀ s, l.db.image.HasView s → l'.db.image.HasView s) ∧ l'.db.requests = [] ∧
      (∃ h2, l'.host? a = some h2 ∧ h2.queue = q) ∧ (∀ x ∈ l'.hosts, x.addr ≠ a → x.queue = []) := by
  obtain ⟨hc, hf, hvw⟩ := report_core l l' a false n hs h
  refine ⟨hc, hf, hvw, ?_⟩
  unfold Loop.report at h
  cases hh : l.host? a with
  | none => simp [hh] at h
  | some h0 =>
    simp only [hh] at h
    cases ha : l.db.applyReport (l.buildReport { h0 with reportCount := h0.reportCount + 1 } (h0.reportCount + 1)) with
    | panic w => simp [ha] at h
    | ok p =>
      obtain ⟨db2, n2⟩ := p
      simp only [ha, Outcome.ok.injEq, Prod.mk.injEq] at h
      obtain ⟨rfl, rfl⟩ := h
      have hmem : h0 ∈ l.hosts := by unfold Loop.host? at hh; exact List.mem_of_find?_eq_some hh
      have ha0 : h0.addr = a := host?_addr l a h0 hh
      have haddr : (l.buildReport { h0 with reportCount := h0.reportCount + 1 } (h0.reportCount + 1)).raftAddress = a := ha0
      obtain ⟨hreq, hlook⟩ := applyReport_pickup l.db db2 _ n2 q (by rw [haddr]; exact hr) ha
      rw [haddr] at hlook
      simp only [Bool.false_eq_true, if_false]
      refine ⟨hreq, ⟨_, host?_setHost _ a h0 _ (by exact hh) ha0, ?_⟩, ?_⟩
      · simp only; rw [hq h0 hmem, hlook]; rfl
      · intro x hx hxa
        rcases mem_setHost _ _ x hx with rfl | hx'
        · exact absurd ha0 hxa
        · exact hq x hx'

/-- executing a queue that holds exactly one restore request, on a NodeHost that does not run the shard, holds the
    replica's data at the group's newest index: the replica is running again, the state is settled -/
theorem execute_one_restore (l : Loop) (a : Addr) (r : Request) (h2 : Host) (hs : l.Core) (hr : l.db.requests = [])
    (hh : l.host? a = some h2) (hq2 : h2.queue = [r]) (hqo : ∀ x ∈ l.hosts, x.addr ≠ a → x.queue = [])
    (hc : r.type = .create) (hres : r.restore = true) (hj : r.join = false)
    (hnr : h2.run? r.shardId = none) (g : Group) (hg : l.group? r.shardId = some g) (hne : g.hist ≠ [])
    (hd : h2.dataGet r.shardId r.instantiateReplicaId = some ((g.hist.length : Int) - 1))
    (hv : l.db.image.HasView r.shardId) :
    (l.execute a).Settled ∧ (l.execute a).groups = l.groups ∧
      (∃ h3, (l.execute a).host? a = some h3 ∧ h3.up = h2.up ∧
        h3.run? r.shardId = some ⟨r.shardId, r.instantiateReplicaId, (g.hist.length : Int) - 1⟩) ∧
      (∀ b, b ≠ a → (l.execute a).host? b = l.host? b) := by
  have ha : h2.addr = a := host?_addr l a h2 hh
  have hmem : h2 ∈ l.hosts := by unfold Loop.host? at hh; exact List.mem_of_find?_eq_some hh
  have hex : l.execute a = (l.setHost { h2 with queue := [] }).setHost
      (({ h2 with queue := [] } : Host).setRun ⟨r.shardId, r.instantiateReplicaId, (g.hist.length : Int) - 1⟩) := by
    unfold Loop.execute
    simp only [hh, hq2, List.foldl_cons, List.foldl_nil]
    unfold Loop.exec1
    rw [host?_setHost l a h2 { h2 with queue := [] } hh ha]
    simp only [hc]
    exact execCreate_restore_runs _ _ r _ hnr hres hj hd
  rw [hex]
  refine ⟨⟨hs.views, ?_, ?_, hr, hs.noKill⟩, rfl,
    ⟨({ h2 with queue := [] } : Host).setRun ⟨r.shardId, r.instantiateReplicaId, (g.hist.length : Int) - 1⟩, ?_, rfl,
      run?_setRun _ ⟨r.shardId, r.instantiateReplicaId, (g.hist.length : Int) - 1⟩⟩, ?_⟩
  · intro x hx rep hrep
    rcases mem_setHost _ _ x hx with rfl | hx1
    · unfold Host.setRun at hrep
      simp only [List.mem_cons, List.mem_filter] at hrep
      rcases hrep with rfl | ⟨hrep', _⟩
      · exact ⟨g, hg, hne, rfl, hv⟩
      · exact hs.running h2 hmem rep hrep'
    · rcases mem_setHost _ _ x hx1 with rfl | hx2
      · exact hs.running h2 hmem rep hrep
      · exact hs.running x hx2 rep hrep
  · intro x hx
    rcases mem_setHost _ _ x hx with rfl | hx1
    · rfl
    · rcases mem_setHost' _ _ x hx1 with rfl | ⟨hx2, hxa⟩
      · rfl
      · exact hqo x hx2 (by rw [← ha]; exact hxa)
  · exact host?_setHost _ a { h2 with queue := [] } _ (host?_setHost l a h2 { h2 with queue := [] } hh ha) ha
  · intro b hb
    rw [host?_setHost_ne _ _ b (by show h2.addr ≠ b; rw [ha]; exact fun e => hb e.symm),
        host?_setHost_ne _ _ b (by show h2.addr ≠ b; rw [ha]; exact fun e => hb e.symm)]

/-- what `SameFleet` says about one address -/
theorem sameFleet_host (l l' : Loop) (hf : SameFleet l l') (b : Addr) (h : Host) (hh : l.host? b = some h) :
    ∃ h', l'.host? b = some h' ∧ h'.running = h.running ∧ h'.up = h.up ∧ h'.data = h.data := by
  have := hf.2 b
  rw [hh] at this
  cases hh' : l'.host? b with
  | none => simp [hh'] at this
  | some h' =>
    simp only [hh', Option.map_some, Option.some.injEq, Host.view, Prod.mk.injEq] at this
    exact ⟨h', rfl, this.1, this.2.1, this.2.2⟩

/-- **healed again** (C01 for the simplest fault, end to end): a settled fleet whose only anomaly is one member `m` of
    shard `c.shardId`, classified failed, on a NodeHost that is up, runs no replica of the shard and holds `m`'s data at
    the group's newest index (it crashed and came back), Drummer holding that NodeHost's recent record with the log; every
    other member of every group running. ONE scheduling round (any context built from the state, any draws), the
    NodeHost's report, its execution and its next report: the fleet is settled again and EVERY member is running. -/
theorem crashed_member_is_healed_again (l : Loop) (hs : l.Settled) (hu : UniqueShards l.db.image)
    (cx : Ctx) (hcx : CtxOnce l.db cx) (draws rest : List Nat) (rs : List Request) (hm : maintain cx draws = .ok rs rest)
    (db' : DB) (n : Nat) (hap : l.db.applyRequests rs = .ok (db', n))
    (hidsAll : ∀ c ∈ l.db.image.shards, c.IdsOK) (c : Shard) (hc : c ∈ l.db.image.shards)
    (m : Replica) (hfail : c.failedReplicas l.db.tick = [m]) (hwait : c.toStart l.db.tick = [])
    (havail : c.available l.db.tick = true)
    (hothers : ∀ c' ∈ l.db.image.shards, c' ≠ c → c'.failedReplicas l.db.tick = [] ∧ c'.toStart l.db.tick = [])
    (dd : ShardDef) (hdd : dd ∈ l.db.shards) (hdds : dd.shardId = c.shardId)
    (spec : HostSpec) (hspec : hostFind? l.db.hosts m.address = some spec)
    (hlive : spec.available l.db.tick = true) (hlog : spec.hasLog c.shardId m.replicaId = true)
    (h : Host) (hh : l.host? m.address = some h) (hup : h.up = true) (hnr : h.run? c.shardId = none)
    (g : Group) (hg : l.group? c.shardId = some g) (hne : g.hist ≠ [])
    (hd : h.dataGet c.shardId m.replicaId = some ((g.hist.length : Int) - 1))
    (hrunOthers : ∀ g' ∈ l.groups, ∀ p ∈ g'.cur.members,
      (g'.shard = c.shardId ∧ p = (m.replicaId, m.address)) ∨
      (p.2 ≠ m.address ∧ ∃ h', l.host? p.2 = some h' ∧ h'.up = true ∧ ∃ rep, h'.run? g'.shard = some rep ∧ rep.id = p.1))
    (l2 : Loop) (k : Nat) (hrep : ({ l with db := db' } : Loop).report m.address false = .ok (l2, k))
    (lost : Bool) (l4 : Loop) (k4 : Nat) (hrep4 : (l2.execute m.address).report m.address lost = .ok (l4, k4)) :
    l4.Settled ∧ l4.AllRunning := by
  -- the round
  obtain ⟨app, hrs, _⟩ := round_is_one_restore l.db hu cx hcx draws rest rs hm hidsAll hs.noKill c hc m hfail hwait havail
    hothers dd hdd hdds spec hspec hlive hlog
  subst hrs
  obtain ⟨hdb', _⟩ := applyRequests_one_restore l.db db' _ n hs.noReqs rfl hap
  subst hdb'
  -- the pick-up
  have hcore1 : ({ l with db := { l.db with requests := [((createReq m c app false true).raftAddress, [createReq m c app false true])] } } : Loop).Core :=
    ⟨hs.views, hs.running, hs.noKill⟩
  obtain ⟨hc2, hf2, hv2, hr2, ⟨h2, hh2, hq2⟩, hqo2⟩ :=
    report_pickup _ l2 m.address k [createReq m c app false true] hcore1 rfl hs.queues hrep
  obtain ⟨h2', hh2', hrun2, hup2, hdat2⟩ := sameFleet_host _ l2 hf2 m.address h hh
  rw [hh2] at hh2'
  cases hh2'
  have hview : l.db.image.HasView c.shardId := ⟨c, hc, rfl⟩
  have hg2 : l2.group? c.shardId = some g := by
    unfold Loop.group? at hg ⊢
    rw [hf2.1]; exact hg
  -- the execution
  have hnr2 : h2.run? (createReq m c app false true).shardId = none := by
    unfold Host.run? at hnr ⊢
    rw [hrun2]; exact hnr
  have hd2 : h2.dataGet (createReq m c app false true).shardId (createReq m c app false true).instantiateReplicaId =
      some ((g.hist.length : Int) - 1) := by
    unfold Host.dataGet at hd ⊢
    rw [hdat2]; exact hd
  obtain ⟨hs3, hg3, ⟨h3, hh3, hup3, hrun3⟩, hoth3⟩ :=
    execute_one_restore l2 m.address (createReq m c app false true) h2 hc2 hr2 hh2 hq2 hqo2 rfl rfl rfl hnr2 g hg2 hne hd2
      (hv2 c.shardId hview)
  -- the next report
  obtain ⟨hs4, _, hf4⟩ := report_settled _ l4 m.address lost k4 hs3 hrep4
  refine ⟨hs4, allRunning_sameFleet _ l4 hf4 ?_⟩
  intro g' hg' p hp
  have hg'l : g' ∈ l.groups := by
    rw [hg3, hf2.1] at hg'; exact hg'
  rcases hrunOthers g' hg'l p hp with ⟨hsid, hpe⟩ | ⟨hne', h', hh', hup', rep, hrun', hid'⟩
  · subst hpe
    refine ⟨h3, hh3, by rw [hup3, hup2]; exact hup, ⟨c.shardId, m.replicaId, (g.hist.length : Int) - 1⟩, ?_, rfl⟩
    rw [hsid]; exact hrun3
  · obtain ⟨h'', hh'', hrun'', hup'', _⟩ := sameFleet_host _ l2 hf2 p.2 h' hh'
    refine ⟨h'', ?_, by rw [hup'']; exact hup', rep, ?_, hid'⟩
    · rw [hoth3 p.2 hne']; exact hh''
    · unfold Host.run? at hrun' ⊢
      rw [hrun'']; exact hrun'

#print axioms round_is_one_restore
#print axioms crashed_member_is_healed_again
#print axioms report_core
end Drummer
