import DrummerVerif.Lemmas.Rounds
/-! C01 for a whole NodeHost: the NodeHost crashes with every replica it runs (one per shard, any number of shards) and
    comes back with the data. Once the members are classified failed, ONE round restores them all: the round is exactly one
    restore request per affected shard, all addressed to that NodeHost; its report picks them up, its execution starts
    every replica, its next report finds the fleet settled and every member running. -/
namespace Drummer

theorem setHost_setHost (X : Loop) (h1 h2 : Host) (ha : h1.addr = h2.addr) : (X.setHost h1).setHost h2 = X.setHost h2 := by
  unfold Loop.setHost
  simp only [List.map_map]
  congr 1
  apply List.map_congr_left
  intro x _
  simp only [Function.comp]
  by_cases hx : (x.addr == h1.addr) = true
  · have hx2 : (x.addr == h2.addr) = true := by rw [← ha]; exact hx
    have h12 : (h1.addr == h2.addr) = true := by simp [ha]
    simp [hx, hx2, h12]
  · have hxf : (x.addr == h1.addr) = false := by simpa using hx
    have hx2 : (x.addr == h2.addr) = false := by rw [← ha]; exact hxf
    simp [hxf, hx2]

/-- a restore request as the restore pass builds it, for a replica whose data is at index `ap` -/
structure RestoreOK (X : Loop) (h : Host) (r : Request) : Prop where
  create : r.type = .create
  restore : r.restore = true
  join : r.join = false
  grp : ∃ g, X.group? r.shardId = some g ∧ g.hist ≠ [] ∧
    h.dataGet r.shardId r.instantiateReplicaId = some ((g.hist.length : Int) - 1)

/-- executing a queue of restore requests for distinct shards none of which the NodeHost runs: every one of them starts
    its replica from the data, at the index the data holds; nothing else on the NodeHost changes -/
theorem exec_restores (a : Addr) : ∀ (rs : List Request) (X : Loop) (h0 h : Host), X.host? a = some h0 → h.addr = a →
    (∀ r ∈ rs, RestoreOK X h r ∧ h.run? r.shardId = none) → (rs.map (·.shardId)).Nodup →
    ∃ h', rs.foldl (fun l r => l.exec1 a r) (X.setHost h) = X.setHost h' ∧ h'.addr = a ∧ h'.up = h.up ∧
      h'.queue = h.queue ∧ h'.data = h.data ∧
      (∀ r ∈ rs, ∃ g, X.group? r.shardId = some g ∧
        h'.run? r.shardId = some ⟨r.shardId, r.instantiateReplicaId, (g.hist.length : Int) - 1⟩) ∧
      (∀ s, s ∉ rs.map (·.shardId) → h'.run? s = h.run? s) ∧
      (∀ rep ∈ h'.running, rep ∈ h.running ∨ ∃ r ∈ rs, ∃ g, X.group? r.shardId = some g ∧
        rep = ⟨r.shardId, r.instantiateReplicaId, (g.hist.length : Int) - 1⟩) := by
  intro rs
  induction rs with
  | nil =>
    intro X h0 h _ ha _ _
    exact ⟨h, rfl, ha, rfl, rfl, rfl, fun r hr => absurd hr List.not_mem_nil, fun _ _ => rfl, fun rep hr => Or.inl hr⟩
  | cons r rest ih =>
    intro X h0 h hh ha hall hnd
    obtain ⟨hok, hnr⟩ := hall r List.mem_cons_self
    obtain ⟨g, hg, hne, hd⟩ := hok.grp
    simp only [List.foldl_cons]
    -- the first request
    have hstep : (X.setHost h).exec1 a r = X.setHost (h.setRun ⟨r.shardId, r.instantiateReplicaId, (g.hist.length : Int) - 1⟩) := by
      unfold Loop.exec1
      rw [host?_setHost X a h0 h hh ha]
      simp only [hok.create]
      rw [execCreate_restore_runs _ _ r _ hnr hok.restore hok.join hd]
      exact setHost_setHost X h _ rfl
    rw [hstep]
    simp only [List.map_cons, List.nodup_cons] at hnd
    obtain ⟨hnotin, hnd'⟩ := hnd
    have hall' : ∀ r' ∈ rest, RestoreOK X (h.setRun ⟨r.shardId, r.instantiateReplicaId, (g.hist.length : Int) - 1⟩) r' ∧
        (h.setRun ⟨r.shardId, r.instantiateReplicaId, (g.hist.length : Int) - 1⟩).run? r'.shardId = none := by
      intro r' hr'
      obtain ⟨hok', hnr'⟩ := hall r' (List.mem_cons_of_mem _ hr')
      have hne' : r'.shardId ≠ r.shardId := by
        intro e
        exact hnotin (List.mem_map.mpr ⟨r', hr', e⟩)
      refine ⟨⟨hok'.create, hok'.restore, hok'.join, ?_⟩, ?_⟩
      · obtain ⟨g', hg', hne'', hd'⟩ := hok'.grp
        exact ⟨g', hg', hne'', by rw [dataGet_setRun]; exact hd'⟩
      · rw [run?_setRun_ne h _ r'.shardId hne']; exact hnr'
    obtain ⟨h', heq, ha', hup', hq', hdat', hruns, hother, hback⟩ :=
      ih X h0 (h.setRun ⟨r.shardId, r.instantiateReplicaId, (g.hist.length : Int) - 1⟩) hh ha hall' hnd'
    refine ⟨h', heq, ha', hup', hq', hdat', ?_, ?_, ?_⟩
    · intro r' hr'
      rcases List.mem_cons.mp hr' with rfl | hr''
      · refine ⟨g, hg, ?_⟩
        rw [hother r'.shardId hnotin]
        exact run?_setRun h ⟨r'.shardId, r'.instantiateReplicaId, (g.hist.length : Int) - 1⟩
      · exact hruns r' hr''
    · intro s hs
      simp only [List.map_cons, List.mem_cons, not_or] at hs
      rw [hother s hs.2]
      exact run?_setRun_ne h _ s hs.1
    · intro rep hrep
      rcases hback rep hrep with hin | ⟨r', hr', g', hg', he⟩
      · unfold Host.setRun at hin
        simp only [List.mem_cons, List.mem_filter] at hin
        rcases hin with rfl | ⟨hin', _⟩
        · exact Or.inr ⟨r, List.mem_cons_self, g, hg, rfl⟩
        · exact Or.inl hin'
      · exact Or.inr ⟨r', List.mem_cons_of_mem _ hr', g', hg', he⟩

#print axioms exec_restores

/-! ### the round -/

theorem concatOutcome_all {α β : Type} (f : α → Outcome (List β)) (g : α → List β) : ∀ L : List α,
    (∀ x ∈ L, f x = .ok (g x)) → concatOutcome f L = .ok (L.flatMap g) := by
  intro L
  induction L with
  | nil => intro _; rfl
  | cons x xs ih =>
    intro h
    simp only [concatOutcome, h x List.mem_cons_self, ih (fun y hy => h y (List.mem_cons_of_mem _ hy)), List.flatMap_cons]

theorem repair_all_restored (cx : Ctx) (restored : List Nat) : ∀ (L : List ShardRepair) (draws : List Nat),
    (∀ cr ∈ L, restored.contains cr.shard.shardId = true) → repair cx restored L draws = .ok [] draws := by
  intro L
  induction L with
  | nil => intro draws _; rfl
  | cons cr rest ih =>
    intro draws h
    unfold repair
    simp only [h cr List.mem_cons_self, if_true]
    exact ih draws (fun x hx => h x (List.mem_cons_of_mem _ hx))

/-- the restore requests the round issues for one entry -/
def restoreReqsOf (cx : Ctx) (cr : ShardRepair) : List Request :=
  match cx.def? cr.shard.shardId with
  | some d => cr.failed.map (createReq · cr.shard d.appName false true)
  | none => []

/-- an entry the restore pass handles completely: a majority healthy, nobody waiting, every failed member restorable -/
structure EntryOK (cx : Ctx) (cr : ShardRepair) : Prop where
  need : cr.needToBeRestored = false
  rest : restorable cx cr = cr.failed
  nonempty : cr.failed ≠ []
  dfn : ∃ d, cx.def? cr.shard.shardId = some d

theorem round_is_restores_ctx (cx : Ctx) (hall : ∀ cr ∈ cx.repairs, EntryOK cx cr) (hk : cx.toKill = [])
    (draws rest : List Nat) (rs : List Request) (hm : maintain cx draws = .ok rs rest) :
    rs = cx.repairs.flatMap (restoreReqsOf cx) ∧ rest = draws := by
  have hnow : ∀ cr ∈ cx.repairs, cr.restoreNow cx = false := by
    intro cr hcr; unfold ShardRepair.restoreNow; rw [(hall cr hcr).need]; rfl
  have h1 : concatOutcome (restoreUnavailable1 cx) cx.repairs = .ok (cx.repairs.flatMap (fun _ => ([] : List Request))) := by
    apply concatOutcome_all
    intro cr hcr
    unfold restoreUnavailable1
    simp [hnow cr hcr]
  have hdone : doneShards cx = [] := by
    unfold doneShards
    have : cx.repairs.filter (fun cr => cr.restoreNow cx && !(restorable cx cr).isEmpty) = [] := by
      apply List.filter_eq_nil_iff.mpr
      intro cr hcr
      simp [hnow cr hcr]
    rw [this]; rfl
  have h2 : concatOutcome (restoreFailed1 cx (doneShards cx)) cx.repairs = .ok (cx.repairs.flatMap (restoreReqsOf cx)) := by
    apply concatOutcome_all
    intro cr hcr
    obtain ⟨d, hd⟩ := (hall cr hcr).dfn
    have hne := (hall cr hcr).nonempty
    unfold restoreFailed1 restoreReqs restoreReqsOf
    rw [hdone, (hall cr hcr).need, (hall cr hcr).rest, hd]
    have : cr.failed.isEmpty = false := by
      cases hf : cr.failed with
      | nil => exact absurd hf hne
      | cons _ _ => rfl
    simp [this]
  have hflat : cx.repairs.flatMap (fun _ => ([] : List Request)) = [] := by
    induction cx.repairs with
    | nil => rfl
    | cons _ _ ih => simpa using ih
  have hres : restore cx = .ok (cx.repairs.flatMap (restoreReqsOf cx)) := by
    unfold restore
    rw [h1, h2, hflat]; rfl
  have hrep : repair cx ((cx.repairs.flatMap (restoreReqsOf cx)).map (·.shardId)) cx.repairs draws = .ok [] draws := by
    apply repair_all_restored
    intro cr hcr
    obtain ⟨d, hd⟩ := (hall cr hcr).dfn
    have hne := (hall cr hcr).nonempty
    cases hf : cr.failed with
    | nil => exact absurd hf hne
    | cons m tl =>
      simp only [List.contains_eq_mem, List.mem_map, List.mem_flatMap, decide_eq_true_eq]
      refine ⟨createReq m cr.shard d.appName false true, ⟨cr, hcr, ?_⟩, rfl⟩
      unfold restoreReqsOf
      rw [hd, hf]
      exact List.mem_cons_self
  unfold maintain at hm
  rw [hres] at hm
  simp only [hrep, killReqs, hk, List.map_nil, List.append_nil] at hm
  split at hm
  · cases hm
  · cases hm; exact ⟨rfl, rfl⟩

/-- what the views look like after a NodeHost `a` crashed and the timeout passed: every view is healthy, or has exactly
    one failed member, on `a`, nobody waiting, a majority healthy, the member's log on `a`'s record, the shard defined -/
def DB.OneHostDown (d : DB) (a : Addr) (spec : HostSpec) : Prop :=
  ∀ c ∈ d.image.shards, (c.failedReplicas d.tick = [] ∧ c.toStart d.tick = []) ∨
    (∃ m, c.failedReplicas d.tick = [m] ∧ c.toStart d.tick = [] ∧ c.available d.tick = true ∧ m.address = a ∧
      spec.hasLog c.shardId m.replicaId = true ∧ ∃ dd ∈ d.shards, dd.shardId = c.shardId)

theorem entryOK_of_oneHostDown (d : DB) (cx : Ctx) (hcx : CtxFull d cx) (hidsAll : ∀ c ∈ d.image.shards, c.IdsOK)
    (a : Addr) (spec : HostSpec) (hspec : hostFind? d.hosts a = some spec) (hlive : spec.available d.tick = true)
    (hdown : d.OneHostDown a spec) (cr : ShardRepair) (hcr : cr ∈ cx.repairs) :
    EntryOK cx cr ∧ ∃ m, cr.shard.failedReplicas d.tick = [m] ∧ cr.failed = [m] ∧ m.address = a := by
  obtain ⟨hin, pf, po, pw⟩ := hcx.repairs cr hcr
  rcases hdown cr.shard hin with ⟨hf0, hw0⟩ | ⟨m, hfail, hwait, havail, hma, hlog, dd, hdd, hdds⟩
  · exfalso
    rw [hf0] at pf; rw [hw0] at pw
    rcases hcx.needed cr hcr with h | h
    · exact h (List.Perm.eq_nil pf)
    · exact h (List.Perm.eq_nil pw)
  · rw [hfail] at pf; rw [hwait] at pw
    have hf1 : cr.failed = [m] := perm_singleton_eq _ _ pf
    have hw0 : cr.toStart = [] := List.Perm.eq_nil pw
    have hmem : m ∈ cr.shard.replicas := by
      have : m ∈ cr.shard.failedReplicas d.tick := by rw [hfail]; exact List.mem_cons_self
      unfold Shard.failedReplicas at this
      exact (List.mem_filter.mp this).1
    have hms : m.shardId = cr.shard.shardId := hidsAll cr.shard hin m hmem
    have hneed : cr.needToBeRestored = false := by
      have hpart := classes_partition cr.shard d.tick
      rw [hfail, hwait] at hpart
      unfold Shard.available Shard.quorum at havail
      have hav : (cr.shard.okReplicas d.tick).length ≥ cr.shard.replicas.length / 2 + 1 := by simpa using havail
      unfold ShardRepair.needToBeRestored ShardRepair.available ShardRepair.quorum
      rw [hf1, hw0, po.length_eq]
      simp only [List.length_cons, List.length_nil] at hpart ⊢
      simp
      omega
    have hdefs : ∃ dx, cx.def? cr.shard.shardId = some dx := by
      unfold Ctx.def?
      cases hfd : cx.defs.find? (·.shardId == cr.shard.shardId) with
      | some dx => exact ⟨dx, rfl⟩
      | none =>
        have := List.find?_eq_none.mp hfd dd (hcx.defsAll dd hdd)
        simp [hdds] at this
    have hrest : restorable cx cr = cr.failed := by
      unfold restorable
      rw [hf1]
      simp only [List.filter_cons, List.filter_nil]
      rw [hcx.hostsAll, hma, hspec, hcx.now, hms]
      simp [hlive, hlog]
    exact ⟨⟨hneed, hrest, by rw [hf1]; simp, hdefs⟩, m, hfail, hf1, hma⟩

/-- **the round after a NodeHost crash is exactly one restore request per affected shard, all addressed to it** -/
theorem round_is_restores (d : DB) (cx : Ctx) (hcx : CtxOnce d cx) (draws rest : List Nat) (rs : List Request)
    (hm : maintain cx draws = .ok rs rest) (hidsAll : ∀ c ∈ d.image.shards, c.IdsOK) (hk : d.image.toKill = [])
    (a : Addr) (spec : HostSpec) (hspec : hostFind? d.hosts a = some spec) (hlive : spec.available d.tick = true)
    (hdown : d.OneHostDown a spec) :
    rest = draws ∧ (rs.map (·.shardId)).Nodup ∧
    (∀ r ∈ rs, ∃ c ∈ d.image.shards, ∃ m app, c.failedReplicas d.tick = [m] ∧ m.address = a ∧
      r = createReq m c app false true) ∧
    (∀ c ∈ d.image.shards, ∀ m, c.failedReplicas d.tick = [m] → ∃ app, createReq m c app false true ∈ rs) := by
  have hE := fun cr hcr => entryOK_of_oneHostDown d cx hcx.toCtxFull hidsAll a spec hspec hlive hdown cr hcr
  obtain ⟨hrs, hrest⟩ := round_is_restores_ctx cx (fun cr hcr => (hE cr hcr).1) (by rw [hcx.kills]; exact hk) draws rest rs hm
  have hone : ∀ cr ∈ cx.repairs, ∃ m app, cr.shard.failedReplicas d.tick = [m] ∧ m.address = a ∧
      restoreReqsOf cx cr = [createReq m cr.shard app false true] := by
    intro cr hcr
    obtain ⟨hok, m, hfail, hf1, hma⟩ := hE cr hcr
    obtain ⟨dx, hdx⟩ := hok.dfn
    refine ⟨m, dx.appName, hfail, hma, ?_⟩
    unfold restoreReqsOf
    rw [hdx, hf1]; rfl
  have hmap : ∀ L : List ShardRepair, (∀ cr ∈ L, cr ∈ cx.repairs) →
      (L.flatMap (restoreReqsOf cx)).map (·.shardId) = L.map (·.shard.shardId) := by
    intro L
    induction L with
    | nil => intro _; rfl
    | cons cr tl ih =>
      intro hL
      obtain ⟨m, app, _, _, he⟩ := hone cr (hL cr List.mem_cons_self)
      simp only [List.flatMap_cons, List.map_append, List.map_cons, he, List.map_nil]
      rw [ih (fun x hx => hL x (List.mem_cons_of_mem _ hx))]
      rfl
  refine ⟨hrest, ?_, ?_, ?_⟩
  · rw [hrs, hmap cx.repairs (fun _ h => h)]; exact hcx.once
  · intro r hr
    rw [hrs] at hr
    obtain ⟨cr, hcr, hrin⟩ := List.mem_flatMap.mp hr
    obtain ⟨m, app, hfail, hma, he⟩ := hone cr hcr
    rw [he] at hrin
    simp only [List.mem_cons, List.not_mem_nil, or_false] at hrin
    exact ⟨cr.shard, (hcx.repairs cr hcr).1, m, app, hfail, hma, hrin⟩
  · intro c hc m hfail
    obtain ⟨cr, hcr, hcrs⟩ := hcx.complete c hc (Or.inl (by rw [hfail]; simp))
    obtain ⟨m', app, hfail', _, he⟩ := hone cr hcr
    rw [hcrs, hfail] at hfail'
    cases hfail'
    refine ⟨app, ?_⟩
    rw [hrs]
    apply List.mem_flatMap.mpr
    refine ⟨cr, hcr, ?_⟩
    rw [he, hcrs]; exact List.mem_cons_self

#print axioms round_is_restores

/-! ### scheduling, pick-up, execution -/

theorem groupFold_one_addr (a : Addr) : ∀ (rs q : List Request), (∀ r ∈ rs, r.raftAddress = a) →
    rs.foldl groupStep [(a, q)] = [(a, q ++ rs)] := by
  intro rs
  induction rs with
  | nil => intro q _; simp
  | cons r tl ih =>
    intro q h
    have hr : r.raftAddress = a := h r List.mem_cons_self
    have h1 : groupStep [(a, q)] r = [(a, q ++ [r])] := by
      simp [groupStep, amPut, amGet, amDel, hr]
    simp only [List.foldl_cons, h1]
    rw [ih (q ++ [r]) (fun x hx => h x (List.mem_cons_of_mem _ hx))]
    simp

/-- a round of restore requests all addressed to `a`, applied with nothing scheduled: one batch, for `a` -/
theorem applyRequests_restores (d d' : DB) (rs : List Request) (a : Addr) (n : Nat) (hr : d.requests = [])
    (hall : ∀ r ∈ rs, r.raftAddress = a ∧ r.restore = true) (hne : rs ≠ [])
    (h : d.applyRequests rs = .ok (d', n)) : d' = { d with requests := [(a, rs)] } := by
  have hfil : rs.filter isLaunchReq = [] := by
    apply List.filter_eq_nil_iff.mpr
    intro r hr'
    unfold isLaunchReq
    simp [(hall r hr').2]
  have hl : isLaunchBatch rs = .ok false := by
    unfold isLaunchBatch
    simp [hfil]
  unfold DB.applyRequests at h
  simp only [hl, Bool.and_false, Bool.false_eq_true, if_false, Outcome.ok.injEq, Prod.mk.injEq] at h
  rw [← h.1]
  unfold DB.mergeRequests
  cases rs with
  | nil => exact absurd rfl hne
  | cons r tl =>
    have hra : r.raftAddress = a := (hall r List.mem_cons_self).1
    have h0 : groupStep [] r = [(a, [r])] := by simp [groupStep, amPut, amGet, amDel, hra]
    simp only [List.foldl_cons, h0]
    rw [groupFold_one_addr a tl [r] (fun x hx => (hall x (List.mem_cons_of_mem _ hx)).1)]
    simp [hr, amPut, amDel]

/-- executing a queue of restore requests (distinct shards, none running here, data at the groups' newest indexes): every
    replica is running again, the state is settled -/
theorem execute_restores (l : Loop) (a : Addr) (rs : List Request) (h2 : Host) (hs : l.Core) (hr : l.db.requests = [])
    (hh : l.host? a = some h2) (hq2 : h2.queue = rs) (hqo : ∀ x ∈ l.hosts, x.addr ≠ a → x.queue = [])
    (hall : ∀ r ∈ rs, RestoreOK l h2 r ∧ h2.run? r.shardId = none ∧ l.db.image.HasView r.shardId)
    (hnd : (rs.map (·.shardId)).Nodup) :
    (l.execute a).Settled ∧ (l.execute a).groups = l.groups ∧
      (∃ h3, (l.execute a).host? a = some h3 ∧ h3.up = h2.up ∧
        (∀ r ∈ rs, ∃ g, l.group? r.shardId = some g ∧
          h3.run? r.shardId = some ⟨r.shardId, r.instantiateReplicaId, (g.hist.length : Int) - 1⟩)) ∧
      (∀ b, b ≠ a → (l.execute a).host? b = l.host? b) := by
  have ha : h2.addr = a := host?_addr l a h2 hh
  have hmem : h2 ∈ l.hosts := by unfold Loop.host? at hh; exact List.mem_of_find?_eq_some hh
  have hall' : ∀ r ∈ rs, RestoreOK l ({ h2 with queue := [] } : Host) r ∧ ({ h2 with queue := [] } : Host).run? r.shardId = none := by
    intro r hr'
    obtain ⟨hok, hnr, _⟩ := hall r hr'
    exact ⟨⟨hok.create, hok.restore, hok.join, hok.grp⟩, hnr⟩
  obtain ⟨h', heq, ha', hup', hq', _, hruns, _, hback⟩ :=
    exec_restores a rs l h2 ({ h2 with queue := [] } : Host) hh ha hall' hnd
  have hex : l.execute a = l.setHost h' := by
    unfold Loop.execute
    simp only [hh, hq2]
    exact heq
  rw [hex]
  refine ⟨⟨hs.views, ?_, ?_, hr, hs.noKill⟩, rfl, ⟨h', host?_setHost l a h2 h' hh ha', hup', hruns⟩, ?_⟩
  · intro x hx rep hrep
    rcases mem_setHost _ _ x hx with rfl | hx1
    · rcases hback rep hrep with hin | ⟨r, hr', g, hg, he⟩
      · exact hs.running h2 hmem rep hin
      · obtain ⟨hok, _, hv⟩ := hall r hr'
        obtain ⟨g', hg', hne', _⟩ := hok.grp
        rw [hg] at hg'
        cases hg'
        subst he
        exact ⟨g, hg, hne', rfl, hv⟩
    · exact hs.running x hx1 rep hrep
  · intro x hx
    rcases mem_setHost' _ _ x hx with rfl | ⟨hx2, hxa⟩
    · exact hq'
    · exact hqo x hx2 (by rw [← ha']; exact hxa)
  · intro b hb
    exact host?_setHost_ne _ _ b (by rw [ha']; exact fun e => hb e.symm)

#print axioms applyRequests_restores
#print axioms execute_restores

/-- **a crashed NodeHost is healed again** (C01 for a whole NodeHost, end to end): a settled fleet; NodeHost `a` crashed
    with every replica it ran - one per shard, any number of shards - and came back with the data; the timeout has passed,
    so in every affected view exactly the member on `a` is classified failed (`OneHostDown`), Drummer holding `a`'s recent
    record with the logs; every other member of every group is running. ONE scheduling round (any context built from the
    state, any draws), `a`'s report, its execution and its next report: the fleet is settled again and EVERY member of
    EVERY group is running. -/
theorem crashed_nodehost_is_healed_again (l : Loop) (hs : l.Settled)
    (cx : Ctx) (hcx : CtxOnce l.db cx) (draws rest : List Nat) (rs : List Request) (hm : maintain cx draws = .ok rs rest)
    (db' : DB) (n : Nat) (hap : l.db.applyRequests rs = .ok (db', n))
    (hidsAll : ∀ c ∈ l.db.image.shards, c.IdsOK)
    (a : Addr) (spec : HostSpec) (hspec : hostFind? l.db.hosts a = some spec) (hlive : spec.available l.db.tick = true)
    (hdown : l.db.OneHostDown a spec)
    (c0 : Shard) (hc0 : c0 ∈ l.db.image.shards) (m0 : Replica) (hfail0 : c0.failedReplicas l.db.tick = [m0])
    (h : Host) (hh : l.host? a = some h) (hup : h.up = true)
    (hfleet : ∀ c ∈ l.db.image.shards, ∀ m, c.failedReplicas l.db.tick = [m] → h.run? c.shardId = none ∧
      ∃ g, l.group? c.shardId = some g ∧ g.hist ≠ [] ∧ h.dataGet c.shardId m.replicaId = some ((g.hist.length : Int) - 1))
    (hrunOthers : ∀ g' ∈ l.groups, ∀ p ∈ g'.cur.members,
      (∃ c ∈ l.db.image.shards, ∃ m, c.shardId = g'.shard ∧ c.failedReplicas l.db.tick = [m] ∧ p = (m.replicaId, m.address)) ∨
      (p.2 ≠ a ∧ ∃ h', l.host? p.2 = some h' ∧ h'.up = true ∧ ∃ rep, h'.run? g'.shard = some rep ∧ rep.id = p.1))
    (l2 : Loop) (k : Nat) (hrep : ({ l with db := db' } : Loop).report a false = .ok (l2, k))
    (lost : Bool) (l4 : Loop) (k4 : Nat) (hrep4 : (l2.execute a).report a lost = .ok (l4, k4)) :
    l4.Settled ∧ l4.AllRunning := by
  -- the round
  obtain ⟨_, hnd, hA, hC⟩ := round_is_restores l.db cx hcx draws rest rs hm hidsAll hs.noKill a spec hspec hlive hdown
  have hne : rs ≠ [] := by
    obtain ⟨app, hin⟩ := hC c0 hc0 m0 hfail0
    intro e; rw [e] at hin; exact absurd hin List.not_mem_nil
  have hdb' := applyRequests_restores l.db db' rs a n hs.noReqs (fun r hr => by
    obtain ⟨c, _, m, app, _, hma, he⟩ := hA r hr
    subst he
    exact ⟨hma, rfl⟩) hne hap
  subst hdb'
  -- the pick-up
  have hcore1 : ({ l with db := { l.db with requests := [(a, rs)] } } : Loop).Core := ⟨hs.views, hs.running, hs.noKill⟩
  obtain ⟨hc2, hf2, hv2, hr2, ⟨h2, hh2, hq2⟩, hqo2⟩ := report_pickup _ l2 a k rs hcore1 rfl hs.queues hrep
  obtain ⟨h2', hh2', hrun2, hup2, hdat2⟩ := sameFleet_host _ l2 hf2 a h hh
  rw [hh2] at hh2'
  cases hh2'
  have hgrp : ∀ s, l2.group? s = l.group? s := by
    intro s; unfold Loop.group?; rw [hf2.1]
  -- the execution
  have hall : ∀ r ∈ rs, RestoreOK l2 h2 r ∧ h2.run? r.shardId = none ∧ l2.db.image.HasView r.shardId := by
    intro r hr
    obtain ⟨c, hc, m, app, hfail, _, he⟩ := hA r hr
    obtain ⟨hnr, g, hg, hgne, hd⟩ := hfleet c hc m hfail
    subst he
    refine ⟨⟨rfl, rfl, rfl, g, by rw [hgrp]; exact hg, hgne, ?_⟩, ?_, hv2 c.shardId ⟨c, hc, rfl⟩⟩
    · unfold Host.dataGet at hd ⊢
      rw [hdat2]; exact hd
    · unfold Host.run? at hnr ⊢
      rw [hrun2]; exact hnr
  obtain ⟨hs3, hg3, ⟨h3, hh3, hup3, hruns3⟩, hoth3⟩ := execute_restores l2 a rs h2 hc2 hr2 hh2 hq2 hqo2 hall hnd
  -- the next report
  obtain ⟨hs4, _, hf4⟩ := report_settled _ l4 a lost k4 hs3 hrep4
  refine ⟨hs4, allRunning_sameFleet _ l4 hf4 ?_⟩
  intro g' hg' p hp
  have hg'l : g' ∈ l.groups := by
    rw [hg3, hf2.1] at hg'; exact hg'
  rcases hrunOthers g' hg'l p hp with ⟨c, hc, m, hsid, hfail, hpe⟩ | ⟨hne', h', hh', hup', rep, hrun', hid'⟩
  · subst hpe
    obtain ⟨app, hin⟩ := hC c hc m hfail
    obtain ⟨g, _, hrun⟩ := hruns3 _ hin
    have hma : m.address = a := by
      rcases hdown c hc with ⟨hf0, _⟩ | ⟨m', hf', _, _, hma', _⟩
      · rw [hf0] at hfail; cases hfail
      · rw [hf'] at hfail; cases hfail; exact hma'
    refine ⟨h3, by show (l2.execute a).host? m.address = some h3; rw [hma]; exact hh3, by rw [hup3, hup2]; exact hup,
      ⟨c.shardId, m.replicaId, (g.hist.length : Int) - 1⟩, ?_, rfl⟩
    rw [← hsid]; exact hrun
  · obtain ⟨h'', hh'', hrun'', hup'', _⟩ := sameFleet_host _ l2 hf2 p.2 h' hh'
    refine ⟨h'', ?_, by rw [hup'']; exact hup', rep, ?_, hid'⟩
    · rw [hoth3 p.2 hne']; exact hh''
    · unfold Host.run? at hrun' ⊢
      rw [hrun'']; exact hrun'

#print axioms crashed_nodehost_is_healed_again
end Drummer
