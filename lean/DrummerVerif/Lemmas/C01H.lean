import DrummerVerif.Lemmas.Quiet
import DrummerVerif.Lemmas.C01R
/-! C01, the restore half of the healing timeline stated on states and events: in a settled state whose only anomaly is
    one member classified failed on a NodeHost that is back with its data and has reported its logs, ONE scheduling
    round + the NodeHost's report + its execution + its next report bring the member back, running and reported now.
    All hypotheses of `detected_member_is_restored_by_one_round` about the inside of the round (which views are listed
    for repair, which pass handles the shard, what else is queued for the shard) are derived here. -/
namespace Drummer

/-- the parts of a successful maintenance round -/
theorem maintain_parts (cx : Ctx) (draws rest : List Nat) (rs : List Request) (hm : maintain cx draws = .ok rs rest) :
    ∃ rr rp dr, restore cx = .ok rr ∧ repair cx (rr.map (·.shardId)) cx.repairs draws = .ok rp dr ∧
      rs = rr ++ rp ++ killReqs cx := by
  unfold maintain at hm
  cases hr : restore cx with
  | panic w => simp [hr] at hm
  | ok rr =>
    simp only [hr] at hm
    cases hp : repair cx (rr.map (·.shardId)) cx.repairs draws with
    | ok rp dr =>
      simp only [hp] at hm
      split at hm
      · cases hm
      · cases hm
        exact ⟨rr, rp, _, rfl, hp, rfl⟩
    | error e => simp [hp] at hm
    | panic w => simp [hp] at hm

theorem perm_singleton_eq {α : Type} (l : List α) (a : α) (h : l.Perm [a]) : l = [a] := by
  have hl := h.length_eq
  match l, hl with
  | [x], _ =>
    have : x ∈ [a] := h.subset List.mem_cons_self
    simp at this
    rw [this]

/-- the scheduler context also carries every definition of the replicated state -/
structure CtxFull (d : DB) (cx : Ctx) : Prop extends CtxExact d cx where
  defsAll : ∀ dd ∈ d.shards, dd ∈ cx.defs

/-- **one round heals a detected member** (state-level hypotheses): `l` is settled; the view `c` of shard `s` has exactly
    one failed member `m` (nobody waiting, a majority healthy); `m`'s NodeHost is known to Drummer, reported within the
    timeout and lists `m`'s log; in the fleet that NodeHost is there, runs no replica of `s` and holds `m`'s data. Then for
    ANY scheduler context built from the state, any draws: after the round, the NodeHost's report (reply not lost), its
    execution and its next report, `m` is running on it and its record carries the time of that report. -/
theorem one_round_heals_the_detected_member (l : Loop) (hs : l.Settled) (har : l.AR) (hu : UniqueShards l.db.image)
    (cx : Ctx) (hcx : CtxFull l.db cx) (draws rest : List Nat) (rs : List Request) (hm : maintain cx draws = .ok rs rest)
    (db' : DB) (n : Nat) (hap : l.db.applyRequests rs = .ok (db', n))
    (hidsAll : ∀ c ∈ l.db.image.shards, c.IdsOK) (c : Shard) (hc : c ∈ l.db.image.shards)
    (m : Replica) (hfail : c.failedReplicas l.db.tick = [m]) (hwait : c.toStart l.db.tick = [])
    (havail : c.available l.db.tick = true)
    (dd : ShardDef) (hdd : dd ∈ l.db.shards) (hdds : dd.shardId = c.shardId)
    (spec : HostSpec) (hspec : hostFind? l.db.hosts m.address = some spec)
    (hlive : spec.available l.db.tick = true) (hlog : spec.hasLog c.shardId m.replicaId = true)
    (h : Host) (hh : l.host? m.address = some h) (hnr : h.run? c.shardId = none) (ap : Int)
    (hd : h.dataGet c.shardId m.replicaId = some ap)
    (l2 : Loop) (k : Nat) (hrep : ({ l with db := db' } : Loop).report m.address false = .ok (l2, k))
    (lost : Bool) (l4 : Loop) (k4 : Nat) (hrep4 : (l2.execute m.address).report m.address lost = .ok (l4, k4)) :
    (∃ h3, (l2.execute m.address).host? m.address = some h3 ∧ (h3.run? c.shardId).map (·.id) = some m.replicaId) ∧
    ∀ c' ∈ l4.db.image.shards, c'.shardId = c.shardId → ∀ x ∈ c'.replicas, x.replicaId = m.replicaId →
      x.tick = l2.db.tick := by
  -- the entry of the round for shard `s`
  obtain ⟨cr, hcr, hcrs⟩ := hcx.complete c hc (Or.inl (by rw [hfail]; simp))
  obtain ⟨_, pf, po, pw⟩ := hcx.repairs cr hcr
  rw [hcrs] at pf po pw
  rw [hfail] at pf; rw [hwait] at pw
  have hf1 : cr.failed = [m] := perm_singleton_eq _ _ pf
  have hw0 : cr.toStart = [] := List.Perm.eq_nil pw
  have hmem : m ∈ c.replicas := by
    have : m ∈ c.failedReplicas l.db.tick := by rw [hfail]; exact List.mem_cons_self
    unfold Shard.failedReplicas at this
    exact (List.mem_filter.mp this).1
  have hms : m.shardId = c.shardId := hidsAll c hc m hmem
  -- every entry of the round for shard `s` is about the view `c` and is not in need of the quorum pass
  have hentry : ∀ cr' ∈ cx.repairs, cr'.shard.shardId = c.shardId →
      cr'.shard = c ∧ cr'.failed = [m] ∧ cr'.toStart = [] ∧ cr'.needToBeRestored = false := by
    intro cr' hcr' hid
    obtain ⟨hin, pf', po', pw'⟩ := hcx.repairs cr' hcr'
    have heq : cr'.shard = c := hu _ hin _ hc hid
    rw [heq] at pf' po' pw'
    rw [hfail] at pf'; rw [hwait] at pw'
    have hf' : cr'.failed = [m] := perm_singleton_eq _ _ pf'
    have hw' : cr'.toStart = [] := List.Perm.eq_nil pw'
    refine ⟨heq, hf', hw', ?_⟩
    have hpart := classes_partition c l.db.tick
    rw [hfail, hwait] at hpart
    unfold Shard.available Shard.quorum at havail
    have hav : (c.okReplicas l.db.tick).length ≥ c.replicas.length / 2 + 1 := by simpa using havail
    unfold ShardRepair.needToBeRestored ShardRepair.available ShardRepair.quorum
    rw [hf', hw', po'.length_eq]
    simp only [List.length_cons, List.length_nil] at hpart ⊢
    simp
    omega
  obtain ⟨_, _, _, hneed⟩ := hentry cr hcr (by rw [hcrs])
  -- the definition
  have hdefs : ∃ d, cx.def? cr.shard.shardId = some d := by
    unfold Ctx.def?
    cases hfd : cx.defs.find? (·.shardId == cr.shard.shardId) with
    | some d => exact ⟨d, rfl⟩
    | none =>
      have := List.find?_eq_none.mp hfd dd (hcx.defsAll dd hdd)
      rw [hcrs] at this
      simp [hdds] at this
  obtain ⟨d, hdef⟩ := hdefs
  -- the member is restorable
  have hrest : m ∈ restorable cx cr := by
    unfold restorable
    rw [hf1]
    simp only [List.filter_cons, List.filter_nil]
    rw [hcx.hostsAll, hspec, hcx.now, hms]
    simp [hlive, hlog]
  -- not handled by the quorum pass
  have hdone : (doneShards cx).contains cr.shard.shardId = false := by
    unfold doneShards
    rw [List.contains_eq_any_beq]
    simp only [List.any_map, List.any_filter, Bool.eq_false_iff, ne_eq]
    intro hany
    rw [List.any_eq_true] at hany
    obtain ⟨cr', hcr', hx⟩ := hany
    simp only [Function.comp, Bool.and_eq_true, beq_iff_eq] at hx
    obtain ⟨⟨hnow, _⟩, hid⟩ := hx
    have := (hentry cr' hcr' (by rw [← hcrs]; exact hid.symm ▸ rfl)).2.2.2
    unfold ShardRepair.restoreNow at hnow
    rw [this] at hnow
    simp at hnow
  -- the queue and the round hold nothing else for this shard on this NodeHost
  have hmemh : h ∈ l.hosts := by unfold Loop.host? at hh; exact List.mem_of_find?_eq_some hh
  have hq0 : h.queue = [] := hs.queues h hmemh
  obtain ⟨rr, rp, dr, hrr, hrp, hrs⟩ := maintain_parts cx draws rest rs hm
  have hin : createReq m cr.shard d.appName false true ∈ rr :=
    restore_complete cx rr hrr cr hcr (Or.inr ⟨hneed, hdone⟩) m hrest d hdef
  have hq : ∀ x ∈ h.queue ++ forAddr rs m.address, x.shardId = cr.shard.shardId →
      x = createReq m cr.shard d.appName false true ∨
        (x.type ≠ .create ∧ ¬ (x.type = .kill ∧ x.members.head? = some m.replicaId)) := by
    intro x hx hxs
    rw [hq0, List.nil_append] at hx
    unfold forAddr at hx
    have hxr : x ∈ rs := (List.mem_filter.mp hx).1
    rw [hrs] at hxr
    rcases List.mem_append.mp hxr with hx12 | hx3
    · rcases List.mem_append.mp hx12 with hx1 | hx2
      · -- a restore request for this shard is the restore request for `m`
        left
        obtain ⟨cr', hcr', n', hn', host', d', _, _, _, hdef', hxe, _⟩ := (restore_just cx rr hrr x hx1).ex
        have hid : cr'.shard.shardId = c.shardId := by
          rw [← hcrs, ← hxs, hxe]; rfl
        obtain ⟨heq, hf', _, _⟩ := hentry cr' hcr' hid
        rw [hf'] at hn'
        simp at hn'
        subst hn'
        have hd' : d' = d := by
          rw [heq, ← hcrs, hdef] at hdef'
          cases hdef'; rfl
        rw [hxe, heq, hd', hcrs]
      · -- the repair pass skips a shard that has just been given a restore request
        exfalso
        have hwf : ∀ cr ∈ cx.repairs, ∀ x ∈ cr.failed, x.shardId = cr.shard.shardId := by
          intro cr0 hcr0 x0 hx0
          obtain ⟨hin0, pf0, _, _⟩ := hcx.repairs cr0 hcr0
          have := pf0.subset hx0
          unfold Shard.failedReplicas at this
          exact hidsAll cr0.shard hin0 x0 (List.mem_filter.mp this).1
        obtain ⟨h1, _⟩ := repair_spec cx (rr.map (·.shardId)) cx.repairs draws rp dr hwf hrp
        apply (h1 x hx2).1
        rw [hxs]
        exact List.mem_map.mpr ⟨_, hin, rfl⟩
    · exfalso
      unfold killReqs at hx3
      rw [hcx.kills, hs.noKill] at hx3
      simp at hx3
  have hnr' : h.run? cr.shard.shardId = none := by rw [hcrs]; exact hnr
  have hd' : h.dataGet cr.shard.shardId m.replicaId = some ap := by rw [hcrs]; exact hd
  have res := detected_member_is_restored_by_one_round l har hu cx draws rest rs hm db' n hap cr hcr
    (Or.inr ⟨hneed, hdone⟩) m hrest d hdef h hh hnr' ap hd' hq l2 k hrep lost l4 k4 hrep4
  rw [hcrs] at res
  exact res

/-! ### the quiet phase between the crash and the detection -/

theorem notRunning_sameFleet (s rid : Nat) (l l' : Loop) (hf : SameFleet l l') (h : l.NotRunning s rid) :
    l'.NotRunning s rid := by
  intro a h' hh' rep hrun
  have := hf.2 a
  rw [hh'] at this
  cases hh : l.host? a with
  | none => simp [hh] at this
  | some h0 =>
    simp only [hh, Option.map_some, Option.some.injEq, Host.view, Prod.mk.injEq] at this
    obtain ⟨hr, _, _⟩ := this
    apply h a h0 hh rep
    unfold Host.run? at hrun ⊢
    rw [← hr]; exact hrun

/-- a fault-free event of a settled fleet is an event of the closed loop (`Step`) -/
theorem quietStep_step (size : Nat → Nat) (l l' : Loop) (hs : l.Settled) (hq : QuietStep l l') : Step size l l' := by
  cases hq with
  | tick db' n ht => exact tick_step_db size l db' n ht
  | report _ a lost n h => exact Step.report l l' a lost n h
  | execute a => exact Step.execute l a
  | progress a all =>
    rcases progress_step size l a all with h | h
    · exact h
    · rw [h]; exact Step.dbLocal l l.db rfl rfl rfl
  | schedule cx draws rest rs db' n hcx hh hm hap =>
    have hrs : rs = [] := by
      have := healthy_round_is_empty l.db cx draws hcx hh hs.noKill
      rw [this] at hm
      cases hm; rfl
    subst hrs
    obtain ⟨hd, _⟩ := empty_round_changes_nothing l.db db' n hap
    subst hd
    exact Step.dbLocal l l.db rfl rfl rfl

/-- **between the crash and the detection**: a settled fleet in which replica `rid` of shard `s` runs nowhere goes through
    any sequence of fault-free events: it stays settled, the fleet does not move (so the replica keeps running nowhere
    and its NodeHost keeps its data), and the run is a run of the closed loop during which the replica is down - which is
    what `crashed_member_is_detected` asks for -/
theorem quiet_run_keeps_member_down (size : Nat → Nat) (s rid : Nat) (l1 l : Loop) (hs : l1.Settled)
    (hnr : l1.NotRunning s rid) (hq : QuietSteps l1 l) :
    l.Settled ∧ SameFleet l1 l ∧ StepsWhile size (Loop.NotRunning s rid) l1 l := by
  induction hq with
  | refl => exact ⟨hs, sameFleet_refl l1, .refl l1 hnr⟩
  | tail la lb _ hstep ih =>
    obtain ⟨hsa, hfa, hwa⟩ := ih
    obtain ⟨hsb, hfb⟩ := quiet_step la lb hsa hstep
    have hf := sameFleet_trans l1 la lb hfa hfb
    exact ⟨hsb, hf, .tail l1 la lb hwa (quietStep_step size la lb hsa hstep) (notRunning_sameFleet s rid l1 lb hf hnr)⟩

/-- **a member that crashed in a healed fleet is classified failed once the timeout has passed** - and the fleet is
    still settled then, its NodeHost still holding its data: the state `one_round_heals_the_detected_member` starts from -/
theorem crashed_member_is_detected_in_a_quiet_run (size : Nat → Nat) (s rid t0 : Nat) (l1 l : Loop) (hs : l1.Settled)
    (hnr : l1.NotRunning s rid) (hq : QuietSteps l1 l)
    (hrec : ∀ c ∈ l1.db.image.shards, c.shardId = s → ∀ r ∈ c.replicas, r.replicaId = rid → r.tick = t0)
    (hpos : 0 < t0) (hwrap : l.db.tick < 18446744073709551616) (hlate : l.db.tick - t0 > nodeHostTTL) :
    l.Settled ∧ SameFleet l1 l ∧
    ∀ c' ∈ l.db.image.shards, c'.shardId = s → ∀ r' ∈ c'.replicas, r'.replicaId = rid →
      r'.failed l.db.tick = true ∨ r'.tick = 0 := by
  obtain ⟨h1, h2, h3⟩ := quiet_run_keeps_member_down size s rid l1 l hs hnr hq
  exact ⟨h1, h2, crashed_member_is_detected size s rid t0 l1 l h3 hrec hpos hwrap hlate⟩

#print axioms one_round_heals_the_detected_member
#print axioms crashed_member_is_detected_in_a_quiet_run
end Drummer
