import DrummerVerif.Lemmas.C01A
/-! C01, the replacement path, second round: once the new member is in the view (never reported: waiting to be started)
    the round is exactly one join request for it, addressed to its NodeHost. -/
namespace Drummer

/-- **the round for a member waiting to be started is exactly its join request**: every view but `c` healthy; `c` with
    exactly the member `t` waiting, its failed members (the lost one, still in the view) not restorable, and no more
    failed plus healthy members than the defined size (so no removal is due yet); no stray recorded -/
theorem round_is_one_join (d : DB) (cx : Ctx) (hcx : CtxOnce d cx)
    (draws rest : List Nat) (rs : List Request) (hm : maintain cx draws = .ok rs rest)
    (hk : d.image.toKill = [])
    (c : Shard) (hc : c ∈ d.image.shards)
    (t : Replica) (hwait : c.toStart d.tick = [t])
    (hothers : ∀ c' ∈ d.image.shards, c' ≠ c → c'.failedReplicas d.tick = [] ∧ c'.toStart d.tick = [])
    (dd : ShardDef) (hdd : dd ∈ d.shards) (hdds : dd.shardId = c.shardId)
    (hsize : ∀ dx ∈ d.shards, dx.shardId = c.shardId →
      (c.failedReplicas d.tick).length + (c.okReplicas d.tick).length ≤ dx.members.length)
    (hgone : ∀ m ∈ c.failedReplicas d.tick, ∀ spec, hostFind? d.hosts m.address = some spec →
      (spec.available d.tick && spec.hasLog m.shardId m.replicaId) = false) :
    ∃ app, rs = [createReq t c app true false] ∧ rest = draws := by
  obtain ⟨cr, hcr, hcrs⟩ := hcx.complete c hc (Or.inr (by rw [hwait]; simp))
  have hall : ∀ cr' ∈ cx.repairs, cr'.shard = c := by
    intro cr' hcr'
    obtain ⟨hin, pf', _, pw'⟩ := hcx.repairs cr' hcr'
    by_cases he : cr'.shard = c
    · exact he
    · exfalso
      obtain ⟨hf0, hw0⟩ := hothers cr'.shard hin he
      rw [hf0] at pf'; rw [hw0] at pw'
      rcases hcx.needed cr' hcr' with h | h
      · exact h (List.Perm.eq_nil pf')
      · exact h (List.Perm.eq_nil pw')
  have hone : cx.repairs = [cr] := by
    have hnd := hcx.once
    match hrep : cx.repairs, hcr with
    | [x], hx => simp at hx; rw [hx]
    | x :: y :: tl, _ =>
      exfalso
      rw [hrep] at hnd hall
      have hx := hall x (by simp)
      have hy := hall y (by simp)
      simp only [List.map_cons, List.nodup_cons, List.mem_cons] at hnd
      exact hnd.1 (Or.inl (by rw [hx, hy]))
  obtain ⟨_, pf, po, pw⟩ := hcx.repairs cr hcr
  rw [hcrs] at pf po pw
  rw [hwait] at pw
  have hw1 : cr.toStart = [t] := perm_singleton_eq _ _ pw
  have hneed : cr.needToBeRestored = false := by
    unfold ShardRepair.needToBeRestored; rw [hw1]; simp
  have hdefs : ∃ dx, cx.def? cr.shard.shardId = some dx := by
    unfold Ctx.def?
    cases hfd : cx.defs.find? (·.shardId == cr.shard.shardId) with
    | some dx => exact ⟨dx, rfl⟩
    | none =>
      have := List.find?_eq_none.mp hfd dd (hcx.defsAll dd hdd)
      rw [hcrs] at this
      simp [hdds] at this
  obtain ⟨dx, hdef⟩ := hdefs
  have hdxin : dx ∈ d.shards := by
    unfold Ctx.def? at hdef
    exact hcx.defs dx (List.mem_of_find?_eq_some hdef)
  have hdxs : dx.shardId = c.shardId := by
    unfold Ctx.def? at hdef
    have := List.find?_some hdef
    rw [hcrs] at this
    simpa using this
  have hrest : restorable cx cr = [] := by
    unfold restorable
    apply List.filter_eq_nil_iff.mpr
    intro m hmem
    have hm' : m ∈ c.failedReplicas d.tick := pf.mem_iff.mp hmem
    rw [hcx.hostsAll, hcx.now]
    cases hsp : hostFind? d.hosts m.address with
    | none => simp
    | some spec => simp [hgone m hm' spec hsp]
  have hnow : cr.restoreNow cx = false := by unfold ShardRepair.restoreNow; rw [hneed]; rfl
  have hnd : cr.deleteRequired dx.members.length = false := by
    unfold ShardRepair.deleteRequired
    have hsz := hsize dx hdxin hdxs
    have : ¬ (cr.failed.length + cr.ok.length > dx.members.length) := by
      rw [pf.length_eq, po.length_eq]; omega
    simp [this]
  unfold maintain restore at hm
  rw [hone] at hm
  simp only [concatOutcome, restoreUnavailable1, hnow, Bool.false_eq_true, if_false, doneShards, hone,
    List.filter_cons, List.filter_nil, Bool.false_and, List.map_nil, restoreFailed1, hneed, List.contains_nil,
    Bool.or_false, restoreReqs, hrest, List.isEmpty_nil, if_true, List.append_nil] at hm
  simp only [repair, List.contains_nil, Bool.false_eq_true, if_false, killReqs, hcx.kills, hk, List.map_nil, List.append_nil] at hm
  cases hro : repairOne cx cr draws with
  | panic w => simp [hro] at hm
  | error w => simp [hro] at hm
  | ok one dr =>
    simp only [hro, List.append_nil, List.nil_append] at hm
    have hone' := create_progress cx cr draws one dr dx hdef hnd t [] hw1 hro
    have hdr : dr = draws := by
      unfold repairOne at hro
      simp only [hdef, hnd, Bool.false_eq_true, if_false] at hro
      have hc' : cr.createRequired = true := by unfold ShardRepair.createRequired; simp [hw1]
      simp only [hc', if_true] at hro
      unfold createOne at hro
      simp only [hw1] at hro
      cases hro; rfl
    split at hm
    · cases hm
    · cases hm
      exact ⟨dx.appName, by rw [hone', hcrs], hdr⟩

#print axioms round_is_one_join
end Drummer
