import DrummerVerif.Lemmas.C10
import DrummerVerif.Lemmas.C02Events
import DrummerVerif.Lemmas.C01X
import DrummerVerif.Lemmas.Stamp
import DrummerVerif.Lemmas.HostKeys
/-!
# C01, closed loop: the delivery chain report → schedule → deliver → execute → report, on the loop model

Each link of the chain the property names, as a statement about `Loop` events (not about the scheduler, the DB or a
host in isolation): a request of an accepted round reaches the queue of its addressee at that host's next report whose
reply is not lost (`scheduled_request_is_delivered`), a delivered restore request starts the replica from its data
whatever else is in the queue (`delivered_restore_runs`), and a running member is recorded as reported now by its
host's next report (`running_member_is_stamped`), hence healthy.
-/
namespace Drummer

theorem host?_addr (l : Loop) (a : Addr) (h : Host) (hh : l.host? a = some h) : h.addr = a := by
  have := List.find?_some hh
  simpa using this

/-- schedule → deliver: a request of an accepted round is in the queue of the host it is addressed to after that
    host's next report, if the reply to that report arrives -/
theorem scheduled_request_is_delivered (l : Loop) (rs : List Request) (db' : DB) (n : Nat)
    (hs : l.db.applyRequests rs = .ok (db', n)) (hacc : n ≠ 0)
    (r : Request) (hr : r ∈ rs) (l2 : Loop) (k : Nat)
    (hrep : ({ l with db := db' } : Loop).report r.raftAddress false = .ok (l2, k)) :
    ∃ h2, l2.host? r.raftAddress = some h2 ∧ r ∈ h2.queue := by
  have hrel : Rel l.db r.raftAddress ⟨amGet l.db.requests r.raftAddress, amGet l.db.outgoing r.raftAddress⟩ := ⟨rfl, rfl⟩
  have hfor : r ∈ forAddr rs r.raftAddress := by
    unfold forAddr; exact List.mem_filter.mpr ⟨hr, by simp⟩
  have hne : (forAddr rs r.raftAddress).isEmpty = false := by
    cases hf : forAddr rs r.raftAddress with
    | nil => rw [hf] at hfor; cases hfor
    | cons _ _ => rfl
  rcases applyRequests_refines l.db db' rs n r.raftAddress _ hs hrel with ⟨hrel', _⟩ | ⟨_, h0⟩
  · unfold Loop.report at hrep
    cases hh : ({ l with db := db' } : Loop).host? r.raftAddress with
    | none => simp [hh] at hrep
    | some h =>
      simp only [hh] at hrep
      cases ha : db'.applyReport (({ l with db := db' } : Loop).buildReport { h with reportCount := h.reportCount + 1 }
          (h.reportCount + 1)) with
      | panic w => simp [ha] at hrep
      | ok p =>
        obtain ⟨db2, n2⟩ := p
        simp only [ha] at hrep
        have haddr : h.addr = r.raftAddress := host?_addr _ _ _ hh
        have hra : (({ l with db := db' } : Loop).buildReport { h with reportCount := h.reportCount + 1 }
            (h.reportCount + 1)).raftAddress = r.raftAddress := by
          unfold Loop.buildReport; exact haddr
        obtain ⟨_, hlook⟩ := applyReport_refines db' db2 _ n2 r.raftAddress _ ha hrel'
        obtain ⟨_, hlk⟩ := hlook hra
        simp only [Bool.false_eq_true, if_false] at hrep
        cases hrep
        refine ⟨_, host?_setHost _ r.raftAddress h _ (by exact hh) (by exact haddr), ?_⟩
        show r ∈ h.queue ++ db2.lookupRequests r.raftAddress
        rw [hlk]
        unfold Box.sched
        simp only [hne, Bool.not_false, Bool.and_true, if_true, Option.getD_some]
        exact List.mem_append_right _ hfor
  · exact absurd h0 hacc

#print axioms scheduled_request_is_delivered

/-! ## deliver → execute: what one executed request does to the host it is executed on -/

theorem find?_filter_shard (s s' : Nat) (hne : s ≠ s') : ∀ (l : List SimReplica),
    (l.filter (·.shard != s')).find? (·.shard == s) = l.find? (·.shard == s) := by
  intro l
  induction l with
  | nil => rfl
  | cons x xs ih =>
    by_cases hx : x.shard = s'
    · have h1 : (x.shard != s') = false := by simp [hx]
      have h2 : (x.shard == s) = false := by simp [hx]; exact fun h => hne h.symm
      simp only [List.filter_cons, h1, Bool.false_eq_true, if_false, List.find?_cons, h2, ih]
    · have h1 : (x.shard != s') = true := by simp [hx]
      simp only [List.filter_cons, h1, if_true, List.find?_cons, ih]

theorem find?_filter_key (k k' : Nat × Nat) (hne : k ≠ k') : ∀ (d : List ((Nat × Nat) × Int)),
    (d.filter (fun e => e.1 != k')).find? (fun e => e.1 == k) = d.find? (fun e => e.1 == k) := by
  intro d
  induction d with
  | nil => rfl
  | cons x xs ih =>
    by_cases hx : x.1 = k'
    · have h1 : (x.1 != k') = false := by simp [hx]
      have h2 : (x.1 == k) = false := by simp [hx]; exact fun h => hne h.symm
      simp only [List.filter_cons, h1, Bool.false_eq_true, if_false, List.find?_cons, h2, ih]
    · have h1 : (x.1 != k') = true := by simp [hx]
      simp only [List.filter_cons, h1, if_true, List.find?_cons, ih]

theorem run?_setRun_ne (h : Host) (r : SimReplica) (s : Nat) (hs : s ≠ r.shard) : (h.setRun r).run? s = h.run? s := by
  unfold Host.setRun Host.run?
  have h2 : (r.shard == s) = false := by simp; exact fun h => hs h.symm
  simp only [List.find?_cons, h2]
  exact find?_filter_shard s r.shard hs h.running

theorem run?_stop_ne (h : Host) (s s' : Nat) (hs : s ≠ s') :
    ({ h with running := h.running.filter (·.shard != s') } : Host).run? s = h.run? s := by
  unfold Host.run?
  exact find?_filter_shard s s' hs h.running

theorem dataGet_setRun (h : Host) (r : SimReplica) (s id : Nat) : (h.setRun r).dataGet s id = h.dataGet s id := rfl
theorem dataGet_stop (h : Host) (rs : List SimReplica) (s id : Nat) :
    ({ h with running := rs } : Host).dataGet s id = h.dataGet s id := rfl
theorem run?_dataDel (h : Host) (s r x : Nat) : (h.dataDel s r).run? x = h.run? x := rfl

theorem dataGet_dataPut_ne (h : Host) (s' r' : Nat) (v : Int) (s id : Nat) (hne : (s, id) ≠ (s', r')) :
    (h.dataPut s' r' v).dataGet s id = h.dataGet s id := by
  unfold Host.dataPut Host.dataGet
  have h2 : (((s', r'), v).1 == (s, id)) = false := by
    simp only [beq_eq_false_iff_ne, ne_eq]; exact fun h => hne h.symm
  simp only [List.find?_cons, h2]
  rw [find?_filter_key (s, id) (s', r') hne]

theorem dataGet_dataDel_ne (h : Host) (s' r' : Nat) (s id : Nat) (hne : (s, id) ≠ (s', r')) :
    (h.dataDel s' r').dataGet s id = h.dataGet s id := by
  unfold Host.dataDel Host.dataGet
  rw [find?_filter_key (s, id) (s', r') hne]

theorem host?_setGroup (l : Loop) (g : Group) (a : Addr) : (l.setGroup g).host? a = l.host? a := by
  unfold Loop.setGroup Loop.host?; split <;> rfl

/-- the host a request is executed on afterwards, in terms of that host before: the other shards' replicas and data
    are as they were -/
def SameElsewhere (sid : Nat) (h h' : Host) : Prop :=
  h'.addr = h.addr ∧ ∀ s, s ≠ sid → h'.run? s = h.run? s ∧ ∀ id, h'.dataGet s id = h.dataGet s id

theorem SameElsewhere.refl (sid : Nat) (h : Host) : SameElsewhere sid h h := ⟨rfl, fun _ _ => ⟨rfl, fun _ => rfl⟩⟩

theorem sameElsewhere_start (sid rid : Nat) (ap : Int) (h : Host) : SameElsewhere sid h (h.setRun ⟨sid, rid, ap⟩) :=
  ⟨rfl, fun s hs => ⟨run?_setRun_ne h _ s hs, fun _ => rfl⟩⟩

theorem sameElsewhere_startPut (sid rid : Nat) (ap v : Int) (h : Host) :
    SameElsewhere sid h ((h.setRun ⟨sid, rid, ap⟩).dataPut sid rid v) :=
  ⟨rfl, fun s hs => ⟨by rw [run?_dataPut]; exact run?_setRun_ne h _ s hs,
    fun id => by rw [dataGet_dataPut_ne _ _ _ _ _ _ (by intro hh; exact hs (Prod.mk.inj hh).1)]; rfl⟩⟩

/-- `execCreate` on host `h` of `l`: the host afterwards -/
theorem execCreate_host (l : Loop) (a : Addr) (h : Host) (r : Request) (hh : l.host? a = some h) :
    ∃ h', (l.execCreate h r).host? a = some h' ∧ SameElsewhere r.shardId h h' ∧
      (h.run? r.shardId ≠ none → h' = h) := by
  have ha : h.addr = a := host?_addr l a h hh
  unfold Loop.execCreate
  simp only
  split
  · exact ⟨h, hh, SameElsewhere.refl _ h, fun _ => rfl⟩
  · rename_i hnr
    have hnone : h.run? r.shardId = none := by simpa using hnr
    split
    · cases hd : h.dataGet r.shardId r.instantiateReplicaId with
      | none => exact ⟨h, hh, SameElsewhere.refl _ h, fun _ => rfl⟩
      | some ap =>
        exact ⟨_, host?_setHost l a h _ hh ha, sameElsewhere_start _ _ _ h, fun hc => absurd hnone hc⟩
    · split
      · exact ⟨_, host?_setHost l a h _ hh ha, sameElsewhere_startPut _ _ _ _ h, fun hc => absurd hnone hc⟩
      · split
        · exact ⟨h, hh, SameElsewhere.refl _ h, fun _ => rfl⟩
        · split
          · exact ⟨_, host?_setHost l a h _ hh ha, sameElsewhere_startPut _ _ _ _ h, fun hc => absurd hnone hc⟩
          · refine ⟨_, host?_setHost _ a h _ ?_ ha, sameElsewhere_startPut _ _ _ _ h, fun hc => absurd hnone hc⟩
            rw [host?_setGroup]; exact hh

/-- `execKill` on host `h` of `l`: the host afterwards -/
theorem execKill_host (l : Loop) (a : Addr) (h : Host) (r : Request) (hh : l.host? a = some h) :
    ∃ h', (l.execKill h r).host? a = some h' ∧ SameElsewhere r.shardId h h' ∧
      (h.run? r.shardId = none → h' = h) ∧
      (∀ rep, h.run? r.shardId = some rep → r.members.head? ≠ some rep.id → h' = h) := by
  have ha : h.addr = a := host?_addr l a h hh
  unfold Loop.execKill
  cases hm : r.members.head? with
  | none => exact ⟨h, hh, SameElsewhere.refl _ h, fun _ => rfl, fun _ _ _ => rfl⟩
  | some rid =>
    cases hr : h.run? r.shardId with
    | none => exact ⟨h, hh, SameElsewhere.refl _ h, fun _ => rfl, fun _ _ _ => rfl⟩
    | some rep =>
      simp only
      by_cases hid : (rep.id == rid) = true
      · simp only [hid, if_true]
        refine ⟨_, host?_setHost l a h _ hh ha, ⟨rfl, fun s hs => ⟨?_, fun id => ?_⟩⟩, (fun hc => by cases hc), ?_⟩
        · rw [run?_dataDel]; exact run?_stop_ne h s r.shardId hs
        · rw [dataGet_dataDel_ne _ _ _ _ _ (by intro hh2; exact hs (Prod.mk.inj hh2).1)]; rfl
        · intro rep' hrep' hne
          cases hrep'
          exact absurd (by simpa using hid : rep.id = rid).symm (fun h2 => hne (by rw [h2]))
      · simp only [hid, Bool.false_eq_true, if_false]
        exact ⟨h, hh, SameElsewhere.refl _ h, fun _ => rfl, fun _ _ _ => rfl⟩

#print axioms execCreate_host
#print axioms execKill_host

theorem run?_setRun_applied (h : Host) (rep : SimReplica) (x : Int) :
    ((h.setRun { rep with applied := x }).run? rep.shard).map (·.id) = some rep.id := by
  have := run?_setRun h { rep with applied := x }
  rw [show ({ rep with applied := x } : SimReplica).shard = rep.shard from rfl] at this
  rw [this]; rfl

theorem changeApplicable_some (l : Loop) (h : Host) (g : Group) (r : Request) (rep : SimReplica)
    (hc : l.changeApplicable h g r = some rep) : h.run? r.shardId = some rep := by
  unfold Loop.changeApplicable at hc
  cases hr : h.run? r.shardId with
  | none => simp [hr] at hc
  | some rep' =>
    simp only [hr] at hc
    split at hc
    · cases hc
    · split at hc
      · cases hc
      · cases hc; rfl

/-- `execChange` on host `h` of `l`: the host afterwards runs the same replica of the shard (further along), if any -/
theorem execChange_host (l : Loop) (a : Addr) (h : Host) (r : Request) (hh : l.host? a = some h) :
    ∃ h', (l.execChange h r).host? a = some h' ∧ SameElsewhere r.shardId h h' ∧
      (h.run? r.shardId = none → h' = h) ∧
      (∀ rep, h.run? r.shardId = some rep → (h'.run? r.shardId).map (·.id) = some rep.id) := by
  have ha : h.addr = a := host?_addr l a h hh
  have same : ∃ h', l.host? a = some h' ∧ SameElsewhere r.shardId h h' ∧ (h.run? r.shardId = none → h' = h) ∧
      (∀ rep, h.run? r.shardId = some rep → (h'.run? r.shardId).map (·.id) = some rep.id) :=
    ⟨h, hh, SameElsewhere.refl _ h, fun _ => rfl, fun rep hrep => by rw [hrep]; rfl⟩
  unfold Loop.execChange
  cases hg : l.group? r.shardId with
  | none => exact same
  | some g =>
    cases hm : r.members.head? with
    | none => exact same
    | some id =>
      simp only
      cases hc : l.changeApplicable h g r with
      | none => exact same
      | some rep =>
        simp only
        cases hcm : changeMembers g.cur r id with
        | none => exact same
        | some p =>
          obtain ⟨ms, rm⟩ := p
          simp only
          have hrun := changeApplicable_some l h g r rep hc
          have hsh : rep.shard = r.shardId := (run?_mem h r.shardId rep hrun).2
          refine ⟨_, host?_setHost _ a h _ (by rw [host?_setGroup]; exact hh) ha, ⟨rfl, fun s hs => ⟨?_, fun i => ?_⟩⟩,
            (fun hn => by rw [hn] at hrun; cases hrun), ?_⟩
          · rw [run?_dataPut]; exact run?_setRun_ne h _ s (by show s ≠ rep.shard; rw [hsh]; exact hs)
          · rw [dataGet_dataPut_ne _ _ _ _ _ _ (by intro h2; exact hs (Prod.mk.inj h2).1)]; rfl
          · intro rep' hrep'
            rw [hrun] at hrep'; cases hrep'
            rw [run?_dataPut, ← hsh]
            exact run?_setRun_applied h rep _

#print axioms execChange_host

/-- one executed request, seen from a shard `s` it is not about: nothing changes for `s` on that host -/
theorem exec1_other_shard (l : Loop) (a : Addr) (r : Request) (h : Host) (hh : l.host? a = some h) (s : Nat)
    (hs : s ≠ r.shardId) :
    ∃ h', (l.exec1 a r).host? a = some h' ∧ h'.run? s = h.run? s ∧ ∀ id, h'.dataGet s id = h.dataGet s id := by
  unfold Loop.exec1
  simp only [hh]
  cases r.type with
  | create =>
    obtain ⟨h', h1, h2, _⟩ := execCreate_host l a h r hh
    exact ⟨h', h1, (h2.2 s hs).1, (h2.2 s hs).2⟩
  | kill =>
    obtain ⟨h', h1, h2, _⟩ := execKill_host l a h r hh
    exact ⟨h', h1, (h2.2 s hs).1, (h2.2 s hs).2⟩
  | add =>
    obtain ⟨h', h1, h2, _⟩ := execChange_host l a h r hh
    exact ⟨h', h1, (h2.2 s hs).1, (h2.2 s hs).2⟩
  | delete =>
    obtain ⟨h', h1, h2, _⟩ := execChange_host l a h r hh
    exact ⟨h', h1, (h2.2 s hs).1, (h2.2 s hs).2⟩

/-- a request that is not a start request finds nothing to act on when the host does not run the shard -/
theorem exec1_not_running (l : Loop) (a : Addr) (r : Request) (h : Host) (hh : l.host? a = some h)
    (hnr : h.run? r.shardId = none) (hnc : r.type ≠ .create) : (l.exec1 a r).host? a = some h := by
  unfold Loop.exec1
  simp only [hh]
  cases ht : r.type with
  | create => exact absurd ht hnc
  | kill =>
    obtain ⟨h', h1, _, h3, _⟩ := execKill_host l a h r hh
    rw [h1, h3 hnr]
  | add =>
    obtain ⟨h', h1, _, h3, _⟩ := execChange_host l a h r hh
    rw [h1, h3 hnr]
  | delete =>
    obtain ⟨h', h1, _, h3, _⟩ := execChange_host l a h r hh
    rw [h1, h3 hnr]

/-- a running replica keeps running (the same replica id) through every request for its shard except its own kill -/
theorem exec1_running (l : Loop) (a : Addr) (r : Request) (h : Host) (hh : l.host? a = some h) (rep : SimReplica)
    (hrun : h.run? r.shardId = some rep) (hnk : ¬ (r.type = .kill ∧ r.members.head? = some rep.id)) :
    ∃ h', (l.exec1 a r).host? a = some h' ∧ (h'.run? r.shardId).map (·.id) = some rep.id := by
  unfold Loop.exec1
  simp only [hh]
  cases ht : r.type with
  | create =>
    obtain ⟨h', h1, _, h3⟩ := execCreate_host l a h r hh
    refine ⟨h', h1, ?_⟩
    rw [h3 (by rw [hrun]; exact fun hc => by cases hc), hrun]; rfl
  | kill =>
    obtain ⟨h', h1, _, _, h4⟩ := execKill_host l a h r hh
    refine ⟨h', h1, ?_⟩
    rw [h4 rep hrun (fun hc => hnk ⟨ht, hc⟩), hrun]; rfl
  | add =>
    obtain ⟨h', h1, _, _, h4⟩ := execChange_host l a h r hh
    exact ⟨h', h1, h4 rep hrun⟩
  | delete =>
    obtain ⟨h', h1, _, _, h4⟩ := execChange_host l a h r hh
    exact ⟨h', h1, h4 rep hrun⟩

#print axioms exec1_other_shard
#print axioms exec1_not_running
#print axioms exec1_running

/-- while the host does not run shard `s`, requests that are not start requests for `s` leave that so, and leave the
    data of `s` alone -/
theorem execList_waiting (a : Addr) (s rid : Nat) (ap : Int) : ∀ (q : List Request) (l : Loop),
    (∃ h, l.host? a = some h ∧ h.run? s = none ∧ h.dataGet s rid = some ap) →
    (∀ x ∈ q, x.shardId = s → x.type ≠ .create) →
    ∃ h, (q.foldl (fun l r => l.exec1 a r) l).host? a = some h ∧ h.run? s = none ∧ h.dataGet s rid = some ap := by
  intro q
  induction q with
  | nil => intro l hl _; exact hl
  | cons x xs ih =>
    intro l hl hq
    obtain ⟨h, hh, hnr, hd⟩ := hl
    apply ih (l.exec1 a x) ?_ (fun y hy => hq y (List.mem_cons_of_mem _ hy))
    by_cases hx : x.shardId = s
    · have hnc := hq x List.mem_cons_self hx
      refine ⟨h, exec1_not_running l a x h hh (by rw [hx]; exact hnr) hnc, hnr, hd⟩
    · obtain ⟨h', h1, h2, h3⟩ := exec1_other_shard l a x h hh s (fun hc => hx hc.symm)
      exact ⟨h', h1, by rw [h2]; exact hnr, by rw [h3]; exact hd⟩

/-- once the host runs replica `rid` of shard `s`, it keeps doing so through every request except a kill of `rid` -/
theorem execList_running (a : Addr) (s rid : Nat) : ∀ (q : List Request) (l : Loop),
    (∃ h, l.host? a = some h ∧ (h.run? s).map (·.id) = some rid) →
    (∀ x ∈ q, ¬ (x.shardId = s ∧ x.type = .kill ∧ x.members.head? = some rid)) →
    ∃ h, (q.foldl (fun l r => l.exec1 a r) l).host? a = some h ∧ (h.run? s).map (·.id) = some rid := by
  intro q
  induction q with
  | nil => intro l hl _; exact hl
  | cons x xs ih =>
    intro l hl hq
    obtain ⟨h, hh, hrun⟩ := hl
    apply ih (l.exec1 a x) ?_ (fun y hy => hq y (List.mem_cons_of_mem _ hy))
    by_cases hx : x.shardId = s
    · cases hr : h.run? s with
      | none => rw [hr] at hrun; cases hrun
      | some rep =>
        rw [hr] at hrun
        have hid : rep.id = rid := by simpa using hrun
        obtain ⟨h', h1, h2⟩ := exec1_running l a x h hh rep (by rw [hx]; exact hr)
          (fun hc => hq x List.mem_cons_self ⟨hx, hc.1, by rw [hc.2, hid]⟩)
        exact ⟨h', h1, by rw [← hx, h2, hid]⟩
    · obtain ⟨h', h1, h2, _⟩ := exec1_other_shard l a x h hh s (fun hc => hx hc.symm)
      exact ⟨h', h1, by rw [h2]; exact hrun⟩

theorem exec1_restore (L : Loop) (a : Addr) (r : Request) (h1 : Host) (ap : Int) (hh1 : L.host? a = some h1)
    (hc : r.type = .create) (hres : r.restore = true) (hj : r.join = false)
    (hnr1 : h1.run? r.shardId = none) (hd1 : h1.dataGet r.shardId r.instantiateReplicaId = some ap) :
    ∃ h, (L.exec1 a r).host? a = some h ∧ (h.run? r.shardId).map (·.id) = some r.instantiateReplicaId := by
  have hstep : L.exec1 a r = L.setHost (h1.setRun ⟨r.shardId, r.instantiateReplicaId, ap⟩) := by
    unfold Loop.exec1
    simp only [hh1, hc]
    exact execCreate_restore_runs L h1 r ap hnr1 hres hj hd1
  rw [hstep]
  refine ⟨_, host?_setHost L a h1 _ hh1 (host?_addr L a h1 hh1), ?_⟩
  have := run?_setRun h1 ⟨r.shardId, r.instantiateReplicaId, ap⟩
  rw [this]; rfl

/-- deliver → execute: a restore request in the queue of a host that holds the replica's data and does not run the
    shard starts that replica when the queue is executed — whatever else is queued for other shards, before or after,
    and for this shard anything but an earlier start request or a later kill of the same replica -/
theorem delivered_restore_runs (l : Loop) (a : Addr) (h : Host) (hh : l.host? a = some h)
    (pre post : List Request) (r : Request) (hq : h.queue = pre ++ r :: post)
    (hc : r.type = .create) (hres : r.restore = true) (hj : r.join = false)
    (hnr : h.run? r.shardId = none) (ap : Int) (hd : h.dataGet r.shardId r.instantiateReplicaId = some ap)
    (hpre : ∀ x ∈ pre, x.shardId = r.shardId → x.type ≠ .create)
    (hpost : ∀ x ∈ post, ¬ (x.shardId = r.shardId ∧ x.type = .kill ∧ x.members.head? = some r.instantiateReplicaId)) :
    ∃ h', (l.execute a).host? a = some h' ∧ (h'.run? r.shardId).map (·.id) = some r.instantiateReplicaId := by
  have ha : h.addr = a := host?_addr l a h hh
  unfold Loop.execute
  simp only [hh, hq, List.foldl_append, List.foldl_cons]
  have h0 : ∃ h0, (l.setHost { h with queue := [] }).host? a = some h0 ∧ h0.run? r.shardId = none ∧
      h0.dataGet r.shardId r.instantiateReplicaId = some ap :=
    ⟨_, host?_setHost l a h _ hh ha, hnr, hd⟩
  obtain ⟨h1, hh1, hnr1, hd1⟩ := execList_waiting a r.shardId r.instantiateReplicaId ap pre _ h0 hpre
  exact execList_running a r.shardId r.instantiateReplicaId post _
    (exec1_restore _ a r h1 ap hh1 hc hres hj hnr1 hd1) hpost

#print axioms delivered_restore_runs

theorem exec1_join (L : Loop) (a : Addr) (r : Request) (h1 : Host) (hh1 : L.host? a = some h1)
    (hc : r.type = .create) (hj : r.join = true) (hnr1 : h1.run? r.shardId = none) :
    ∃ h, (L.exec1 a r).host? a = some h ∧ (h.run? r.shardId).map (·.id) = some r.instantiateReplicaId := by
  have hstep : L.exec1 a r = L.setHost ((h1.setRun ⟨r.shardId, r.instantiateReplicaId,
      (h1.dataGet r.shardId r.instantiateReplicaId).getD (-1)⟩).dataPut r.shardId r.instantiateReplicaId
      ((h1.dataGet r.shardId r.instantiateReplicaId).getD (-1))) := by
    unfold Loop.exec1
    simp only [hh1, hc]
    unfold Loop.execCreate
    simp only [hnr1, Option.isSome_none, Bool.false_eq_true, if_false, hj, Bool.not_true, Bool.and_false, if_true]
  rw [hstep]
  refine ⟨_, host?_setHost L a h1 _ hh1 (host?_addr L a h1 hh1), ?_⟩
  rw [run?_dataPut]
  have := run?_setRun h1 ⟨r.shardId, r.instantiateReplicaId, (h1.dataGet r.shardId r.instantiateReplicaId).getD (-1)⟩
  rw [this]; rfl

/-- the join variant: a join request starts the replica whether or not the host has data for it -/
theorem delivered_join_runs (l : Loop) (a : Addr) (h : Host) (hh : l.host? a = some h)
    (pre post : List Request) (r : Request) (hq : h.queue = pre ++ r :: post)
    (hc : r.type = .create) (hj : r.join = true) (hnr : h.run? r.shardId = none)
    (hpre : ∀ x ∈ pre, x.shardId = r.shardId → x.type ≠ .create)
    (hpost : ∀ x ∈ post, ¬ (x.shardId = r.shardId ∧ x.type = .kill ∧ x.members.head? = some r.instantiateReplicaId)) :
    ∃ h', (l.execute a).host? a = some h' ∧ (h'.run? r.shardId).map (·.id) = some r.instantiateReplicaId := by
  have ha : h.addr = a := host?_addr l a h hh
  unfold Loop.execute
  simp only [hh, hq, List.foldl_append, List.foldl_cons]
  -- the data of the replica plays no role: follow only "does not run the shard" through `pre`
  have wait : ∀ (q : List Request) (L : Loop), (∃ h, L.host? a = some h ∧ h.run? r.shardId = none) →
      (∀ x ∈ q, x.shardId = r.shardId → x.type ≠ .create) →
      ∃ h, (q.foldl (fun l r => l.exec1 a r) L).host? a = some h ∧ h.run? r.shardId = none := by
    intro q
    induction q with
    | nil => intro L hL _; exact hL
    | cons x xs ih =>
      intro L hL hqq
      obtain ⟨h0, hh0, hnr0⟩ := hL
      apply ih (L.exec1 a x) ?_ (fun y hy => hqq y (List.mem_cons_of_mem _ hy))
      by_cases hx : x.shardId = r.shardId
      · exact ⟨h0, exec1_not_running L a x h0 hh0 (by rw [hx]; exact hnr0) (hqq x List.mem_cons_self hx), hnr0⟩
      · obtain ⟨h', h1, h2, _⟩ := exec1_other_shard L a x h0 hh0 r.shardId (fun hc => hx hc.symm)
        exact ⟨h', h1, by rw [h2]; exact hnr0⟩
  obtain ⟨h1, hh1, hnr1⟩ := wait pre _ ⟨_, host?_setHost l a h { h with queue := [] } hh ha, hnr⟩ hpre
  exact execList_running a r.shardId r.instantiateReplicaId post _ (exec1_join _ a r h1 hh1 hc hj hnr1) hpost

#print axioms delivered_join_runs

/-! ## execute → report: a running member is recorded as reported now -/

theorem mem_insertSorted (x y : Nat) : ∀ (l : List Nat), y ∈ insertSorted x l ↔ y = x ∨ y ∈ l := by
  intro l
  induction l with
  | nil => simp [insertSorted]
  | cons z zs ih =>
    unfold insertSorted
    split
    · simp
    · simp only [List.mem_cons, ih]
      constructor
      · rintro (h | h | h)
        · exact Or.inr (Or.inl h)
        · exact Or.inl h
        · exact Or.inr (Or.inr h)
      · rintro (h | h | h)
        · exact Or.inr (Or.inl h)
        · exact Or.inl h
        · exact Or.inr (Or.inr h)

theorem mem_sortNat (y : Nat) : ∀ (l : List Nat), y ∈ sortNat l ↔ y ∈ l := by
  intro l
  induction l with
  | nil => simp [sortNat]
  | cons z zs ih =>
    have : sortNat (z :: zs) = insertSorted z (sortNat zs) := rfl
    rw [this, mem_insertSorted, ih]; simp

/-- a replica the host runs — pending, or at a position of its group's history — has an entry in the host's report -/
theorem buildReport_lists_running (l : Loop) (h : Host) (count : Nat) (rep : SimReplica)
    (hrun : h.run? rep.shard = some rep)
    (hpos : rep.applied < 0 ∨ ∃ g m, l.group? rep.shard = some g ∧ g.hist[rep.applied.toNat]? = some m) :
    ∃ ci ∈ (l.buildReport h count).shardInfo, ci.shardId = rep.shard ∧ ci.replicaId = rep.id := by
  unfold Loop.buildReport
  simp only [List.mem_filterMap]
  have hmem : rep.shard ∈ sortNat (h.running.map (·.shard)) := by
    rw [mem_sortNat]
    exact List.mem_map.mpr ⟨rep, (run?_mem h rep.shard rep hrun).1, rfl⟩
  by_cases hneg : rep.applied < 0
  · refine ⟨{ shardId := rep.shard, replicaId := rep.id, pending := true }, ⟨rep.shard, hmem, ?_⟩, rfl, rfl⟩
    simp only [hrun, hneg, if_true]
  · rcases hpos with hp | ⟨g, m, hg, hm⟩
    · exact absurd hp hneg
    · cases hk : (l.db.image.find? rep.shard).map (fun (c : Shard) => c.cci) with
      | none =>
        refine ⟨{ shardId := rep.shard, replicaId := rep.id, cci := m.ver, replicas := m.members },
          ⟨rep.shard, hmem, ?_⟩, rfl, rfl⟩
        simp only [hrun, hneg, if_false, hg, hm, hk]
      | some k =>
        by_cases hkm : k ≥ m.ver
        · refine ⟨{ shardId := rep.shard, replicaId := rep.id, cci := m.ver, incomplete := true },
            ⟨rep.shard, hmem, ?_⟩, rfl, rfl⟩
          simp only [hrun, hneg, if_false, hg, hm, hk, hkm, if_true]
        · refine ⟨{ shardId := rep.shard, replicaId := rep.id, cci := m.ver, replicas := m.members },
            ⟨rep.shard, hmem, ?_⟩, rfl, rfl⟩
          simp only [hrun, hneg, if_false, hg, hm, hk, hkm]

/-- execute → report: after a host's report (reply lost or not), every member of a view that this host runs carries
    the current logical time as its last report -/
theorem running_member_is_stamped (l l' : Loop) (a : Addr) (lost : Bool) (n : Nat)
    (hu : UniqueShards l.db.image) (hrep : l.report a lost = .ok (l', n))
    (h : Host) (hh : l.host? a = some h) (rep : SimReplica) (hrun : h.run? rep.shard = some rep)
    (hpos : rep.applied < 0 ∨ ∃ g m, l.group? rep.shard = some g ∧ g.hist[rep.applied.toNat]? = some m) :
    ∀ c ∈ l'.db.image.shards, c.shardId = rep.shard → ∀ r ∈ c.replicas, r.replicaId = rep.id → r.tick = l.db.tick := by
  unfold Loop.report at hrep
  simp only [hh] at hrep
  cases ha : l.db.applyReport (l.buildReport { h with reportCount := h.reportCount + 1 } (h.reportCount + 1)) with
  | panic w => simp [ha] at hrep
  | ok p =>
    obtain ⟨db2, n2⟩ := p
    simp only [ha] at hrep
    have himg := applyReport_image l.db db2 _ n2 ha
    obtain ⟨_, hst⟩ := update_stamps l.db.image db2.image _ hu himg
    have hl' : l'.db.image = db2.image := by
      cases hrep
      rfl
    intro c hc hcs r hr hri
    rw [hl'] at hc
    obtain ⟨ci, hci, h1, h2⟩ := buildReport_lists_running l { h with reportCount := h.reportCount + 1 }
      (h.reportCount + 1) rep hrun hpos
    exact hst c hc r hr ⟨ci, hci, by rw [h1, hcs], by rw [h2, hri]⟩

#print axioms running_member_is_stamped
end Drummer
