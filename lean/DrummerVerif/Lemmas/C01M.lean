import DrummerVerif.Lemmas.Applied
import DrummerVerif.Lemmas.LoopSys
/-!
# C01, the delivery chain composed: one scheduling round heals a crashed member

From a scheduling round that contains a restore request for a member whose host is up, holds the replica's data and does
not run it: after that host's next answered report, the execution of its queue and its report after that, the member
runs there and Drummer's view records it as reported at the current logical time — hence healthy (`stamped_is_ok`).
The hypotheses about the rest of the queue are exactly those of `delivered_restore_runs`.
-/
namespace Drummer

theorem exec1_db (l : Loop) (a : Addr) (r : Request) : (l.exec1 a r).db = l.db := by
  unfold Loop.exec1
  cases l.host? a with
  | none => rfl
  | some h =>
    simp only
    cases r.type with
    | create => exact execCreate_db l h r
    | kill => exact execKill_db l h r
    | add => exact execChange_db l h r
    | delete => exact execChange_db l h r

theorem execList_db (a : Addr) : ∀ (q : List Request) (l : Loop), (q.foldl (fun l r => l.exec1 a r) l).db = l.db := by
  intro q
  induction q with
  | nil => intro l; rfl
  | cons x xs ih => intro l; simp only [List.foldl_cons]; rw [ih, exec1_db]

theorem execute_db (l : Loop) (a : Addr) : (l.execute a).db = l.db := by
  unfold Loop.execute
  cases l.host? a with
  | none => rfl
  | some h => simp only; rw [execList_db]; rfl

theorem applyRequests_image (d d' : DB) (rs : List Request) (n : Nat) (h : d.applyRequests rs = .ok (d', n)) :
    d'.image = d.image := by
  unfold DB.applyRequests at h
  cases hl : isLaunchBatch rs with
  | panic w => simp [hl] at h
  | ok launch =>
    simp only [hl] at h
    split at h
    · cases h; rfl
    · split at h
      · cases hm : (d.mergeRequests rs).markLaunched with
        | panic w => simp [hm] at h
        | ok d2 =>
          simp only [hm] at h
          cases h
          unfold DB.markLaunched at hm
          cases hk : (d.mergeRequests rs).applyKV launchedRec with
          | panic w => simp [hk] at hm
          | ok p =>
            obtain ⟨d3, code⟩ := p
            simp only [hk] at hm
            split at hm
            · cases hm
            · cases hm
              have : d3.image = (d.mergeRequests rs).image := by
                unfold DB.applyKV at hk
                split at hk
                · cases hk
                · split at hk
                  · cases hk; rfl
                  · split at hk
                    · cases hk; rfl
                    · split at hk <;> cases hk <;> rfl
              show d3.image = d.image
              rw [this]; rfl
      · cases h; rfl

/-- what a report does to the reporting host: its replicas and data are untouched, its queue grows by the reply -/
theorem report_host (l l2 : Loop) (a : Addr) (lost : Bool) (k : Nat) (h : Host) (hh : l.host? a = some h)
    (hrep : l.report a lost = .ok (l2, k)) :
    ∃ h2, l2.host? a = some h2 ∧ h2.running = h.running ∧ h2.data = h.data ∧
      h2.queue = (if lost then h.queue else h.queue ++ l2.db.lookupRequests a) ∧ l2.groups = l.groups := by
  unfold Loop.report at hrep
  simp only [hh] at hrep
  cases ha : l.db.applyReport (l.buildReport { h with reportCount := h.reportCount + 1 } (h.reportCount + 1)) with
  | panic w => simp [ha] at hrep
  | ok p =>
    obtain ⟨db2, n2⟩ := p
    simp only [ha] at hrep
    cases hrep
    have haddr : h.addr = a := host?_addr l a h hh
    refine ⟨_, host?_setHost _ a h _ (by exact hh) (by cases lost <;> exact haddr), ?_, ?_, ?_, rfl⟩
    · cases lost <;> rfl
    · cases lost <;> rfl
    · cases lost <;> rfl

/-- **one round heals a crashed member** (report → schedule → deliver → execute → report): see the file header -/
theorem restore_round_heals_member (l : Loop) (har : l.AR) (hu : UniqueShards l.db.image)
    (rs : List Request) (db' : DB) (n : Nat) (hs : l.db.applyRequests rs = .ok (db', n)) (hacc : n ≠ 0)
    (r : Request) (hr : r ∈ rs) (hc : r.type = .create) (hres : r.restore = true) (hj : r.join = false)
    (h : Host) (hh : l.host? r.raftAddress = some h) (hnr : h.run? r.shardId = none) (ap : Int)
    (hd : h.dataGet r.shardId r.instantiateReplicaId = some ap)
    (hq : ∀ x ∈ h.queue ++ forAddr rs r.raftAddress, x.shardId = r.shardId →
      x = r ∨ (x.type ≠ .create ∧ ¬ (x.type = .kill ∧ x.members.head? = some r.instantiateReplicaId)))
    (l2 : Loop) (k : Nat) (hrep : ({ l with db := db' } : Loop).report r.raftAddress false = .ok (l2, k))
    (lost : Bool) (l4 : Loop) (k4 : Nat) (hrep4 : (l2.execute r.raftAddress).report r.raftAddress lost = .ok (l4, k4)) :
    (∃ h3, (l2.execute r.raftAddress).host? r.raftAddress = some h3 ∧
      (h3.run? r.shardId).map (·.id) = some r.instantiateReplicaId) ∧
    ∀ c ∈ l4.db.image.shards, c.shardId = r.shardId → ∀ m ∈ c.replicas, m.replicaId = r.instantiateReplicaId →
      m.tick = l2.db.tick := by
  -- deliver
  have hh' : ({ l with db := db' } : Loop).host? r.raftAddress = some h := hh
  obtain ⟨h2, hh2, hrun2, hdata2, hq2, hg2⟩ := report_host _ l2 r.raftAddress false k h hh' hrep
  have hrel : Rel l.db r.raftAddress ⟨amGet l.db.requests r.raftAddress, amGet l.db.outgoing r.raftAddress⟩ := ⟨rfl, rfl⟩
  have hfor : r ∈ forAddr rs r.raftAddress := by
    unfold forAddr; exact List.mem_filter.mpr ⟨hr, by simp⟩
  have hlook : l2.db.lookupRequests r.raftAddress = forAddr rs r.raftAddress := by
    rcases applyRequests_refines l.db db' rs n r.raftAddress _ hs hrel with ⟨hrel', _⟩ | ⟨_, h0⟩
    · unfold Loop.report at hrep
      simp only [hh'] at hrep
      cases ha : db'.applyReport (({ l with db := db' } : Loop).buildReport { h with reportCount := h.reportCount + 1 }
          (h.reportCount + 1)) with
      | panic w => simp [ha] at hrep
      | ok p =>
        obtain ⟨db2, n2⟩ := p
        simp only [ha] at hrep
        have hra : (({ l with db := db' } : Loop).buildReport { h with reportCount := h.reportCount + 1 }
            (h.reportCount + 1)).raftAddress = r.raftAddress := by
          unfold Loop.buildReport; exact host?_addr _ _ _ hh'
        obtain ⟨_, hl2⟩ := applyReport_refines db' db2 _ n2 r.raftAddress _ ha hrel'
        obtain ⟨_, hlk⟩ := hl2 hra
        cases hrep
        show db2.lookupRequests r.raftAddress = _
        rw [hlk]
        unfold Box.sched
        have hne : (forAddr rs r.raftAddress).isEmpty = false := by
          cases hf : forAddr rs r.raftAddress with
          | nil => rw [hf] at hfor; cases hfor
          | cons _ _ => rfl
        simp [hne]
    · exact absurd h0 hacc
  have hq2' : h2.queue = h.queue ++ forAddr rs r.raftAddress := by
    rw [hq2, hlook]; rfl
  -- execute: split the queue at the first occurrence of `r`
  have hrq : r ∈ h2.queue := by rw [hq2']; exact List.mem_append_right _ hfor
  obtain ⟨pre, post, hsplit, hnotin⟩ := List.eq_append_cons_of_mem hrq
  have hall : ∀ x ∈ h2.queue, x.shardId = r.shardId →
      x = r ∨ (x.type ≠ .create ∧ ¬ (x.type = .kill ∧ x.members.head? = some r.instantiateReplicaId)) := by
    intro x hx; rw [hq2'] at hx; exact hq x hx
  have hpre : ∀ x ∈ pre, x.shardId = r.shardId → x.type ≠ .create := by
    intro x hx hxs
    rcases hall x (by rw [hsplit]; exact List.mem_append_left _ hx) hxs with rfl | ⟨h1, _⟩
    · exact absurd hx hnotin
    · exact h1
  have hpost : ∀ x ∈ post, ¬ (x.shardId = r.shardId ∧ x.type = .kill ∧ x.members.head? = some r.instantiateReplicaId) := by
    intro x hx ⟨hxs, hxk, hxm⟩
    rcases hall x (by rw [hsplit]; exact List.mem_append_right _ (List.mem_cons_of_mem _ hx)) hxs with rfl | ⟨_, h2'⟩
    · rw [hc] at hxk; cases hxk
    · exact h2' ⟨hxk, hxm⟩
  have hnr2 : h2.run? r.shardId = none := by unfold Host.run?; rw [hrun2]; exact hnr
  have hd2 : h2.dataGet r.shardId r.instantiateReplicaId = some ap := by unfold Host.dataGet; rw [hdata2]; exact hd
  obtain ⟨h3, hh3, hrun3⟩ := delivered_restore_runs l2 r.raftAddress h2 hh2 pre post r hsplit hc hres hj hnr2 ap hd2 hpre hpost
  refine ⟨⟨h3, hh3, hrun3⟩, ?_⟩
  -- report
  have har2 : l2.AR := ar_report _ l2 r.raftAddress false k hrep (ar_db l db' har)
  have har3 : (l2.execute r.raftAddress).AR := ar_execute l2 r.raftAddress har2
  cases hr3 : h3.run? r.shardId with
  | none => rw [hr3] at hrun3; cases hrun3
  | some rep =>
    rw [hr3] at hrun3
    have hid : rep.id = r.instantiateReplicaId := by simpa using hrun3
    have hsh : rep.shard = r.shardId := (run?_mem h3 r.shardId rep hr3).2
    have hu2 : UniqueShards l2.db.image := by
      have himg : db'.image = l.db.image := applyRequests_image l.db db' rs n hs
      unfold Loop.report at hrep
      simp only [hh'] at hrep
      cases ha : db'.applyReport (({ l with db := db' } : Loop).buildReport { h with reportCount := h.reportCount + 1 }
          (h.reportCount + 1)) with
      | panic w => simp [ha] at hrep
      | ok p =>
        obtain ⟨db2, n2⟩ := p
        simp only [ha] at hrep
        cases hrep
        have := applyReport_image db' db2 _ _ ha
        exact (update_stamps db'.image db2.image _ (himg ▸ hu) this).1
    have hu3 : UniqueShards (l2.execute r.raftAddress).db.image := by rw [execute_db]; exact hu2
    have hpos : rep.applied < 0 ∨ ∃ g m, (l2.execute r.raftAddress).group? rep.shard = some g ∧ g.hist[rep.applied.toNat]? = some m := by
      rcases har3.run h3 (host?_mem _ _ h3 hh3) rep (run?_mem h3 r.shardId rep hr3).1 with hneg | ⟨g, hg, hlt⟩
      · exact Or.inl hneg
      · by_cases hneg : rep.applied < 0
        · exact Or.inl hneg
        · exact Or.inr ⟨g, g.hist[rep.applied.toNat], hg, by simp [hlt]⟩
    have hst := running_member_is_stamped (l2.execute r.raftAddress) l4 r.raftAddress lost k4 hu3 hrep4 h3 hh3 rep
      (by rw [hsh]; exact hr3) hpos
    intro c hc4 hcs m hm hmi
    have := hst c hc4 (by rw [hsh]; exact hcs) m hm (by rw [hid]; exact hmi)
    rw [this, execute_db]

#print axioms restore_round_heals_member
end Drummer
