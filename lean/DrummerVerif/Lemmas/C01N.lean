import DrummerVerif.Lemmas.C01
import DrummerVerif.Lemmas.C12
/-! C01: the control loop never falls silent on a shard that needs work while all its members' NodeHosts are up -/
namespace Drummer

theorem filter_all_length {α : Type} (p : α → Bool) : ∀ (l : List α), (∀ x ∈ l, x ∈ l.filter p) → (l.filter p).length = l.length
  | [], _ => rfl
  | a :: t, h => by
    have ha : p a = true := by
      have := h a (by simp)
      exact (List.mem_filter.mp this).2
    have : ∀ x ∈ t, x ∈ t.filter p := by
      intro x hx
      have := h x (by simp [hx])
      exact List.mem_filter.mpr ⟨hx, (List.mem_filter.mp this).2⟩
    simp [List.filter, ha, filter_all_length p t this]

/-- **no silent stall**: whenever a maintenance round succeeds, a shard listed for repair whose failed members are all
    restorable (their NodeHosts are up and list their logs) gets at least one request in that round — a restore request
    for a stopped member, or the start request of a waiting member -/
theorem maintain_not_silent (cx : Ctx) (draws rest : List Nat) (rs : List Request)
    (h : maintain cx draws = .ok rs rest) (cr : ShardRepair) (hcr : cr ∈ cx.repairs)
    (huniq : ∀ cr' ∈ cx.repairs, cr'.shard.shardId = cr.shard.shardId → cr' = cr)
    (d : ShardDef) (hd : cx.def? cr.shard.shardId = some d)
    (hwork : cr.failed ≠ [] ∨ cr.toStart ≠ [])
    (hrest : ∀ n ∈ cr.failed, n ∈ restorable cx cr) :
    ∃ r ∈ rs, r.shardId = cr.shard.shardId ∧ r.type = .create := by
  unfold maintain at h
  cases hr : restore cx with
  | panic w => simp [hr] at h
  | ok rr =>
    simp only [hr] at h
    cases hp : repair cx (rr.map (·.shardId)) cx.repairs draws with
    | panic w => simp [hp] at h
    | error w => simp [hp] at h
    | ok rp dr =>
      simp only [hp] at h
      split at h
      · cases h
      · cases h
        by_cases hf : cr.failed = []
        · -- only waiting members: the start request of the first one
          have hts : cr.toStart ≠ [] := by
            rcases hwork with hw | hw
            · exact absurd hf hw
            · exact hw
          obtain ⟨t, tt, htt⟩ : ∃ t tt, cr.toStart = t :: tt := by
            cases hc : cr.toStart with
            | nil => exact absurd hc hts
            | cons t tt => exact ⟨t, tt, rfl⟩
          have hnotres : (rr.map (·.shardId)).contains cr.shard.shardId = false := by
            cases hc : (rr.map (·.shardId)).contains cr.shard.shardId with
            | false => rfl
            | true =>
              exfalso
              have hm : cr.shard.shardId ∈ rr.map (·.shardId) := by simpa using hc
              obtain ⟨r, hrm, hrs⟩ := List.mem_map.mp hm
              obtain ⟨cr', hcr', n, hn, _, _, _, _, _, _, hreq, _⟩ := (restore_just cx rr hr r hrm).ex
              have : cr'.shard.shardId = cr.shard.shardId := by rw [← hrs, hreq]; rfl
              have := huniq cr' hcr' this
              subst this
              rw [hf] at hn; cases hn
          obtain ⟨dr1, one, dr2, hone, hsub⟩ := repair_includes cx _ cx.repairs draws rp _ hp cr hcr hnotres
          have hnd : cr.deleteRequired d.members.length = false := by
            unfold ShardRepair.deleteRequired; simp [hf]
          have := create_progress cx cr dr1 one dr2 d hd hnd t tt htt hone
          subst this
          exact ⟨createReq t cr.shard d.appName true false,
            List.mem_append_left _ (List.mem_append_right _ (hsub _ (by simp))), rfl, rfl⟩
        · -- a stopped member: its restore request
          obtain ⟨n, tl, hnl⟩ : ∃ n tl, cr.failed = n :: tl := by
            cases hc : cr.failed with
            | nil => exact absurd hc hf
            | cons n tl => exact ⟨n, tl, rfl⟩
          have hn : n ∈ cr.failed := by rw [hnl]; simp
          have hnr := hrest n hn
          have hlen : (restorable cx cr).length = cr.failed.length := by
            unfold restorable
            exact filter_all_length _ cr.failed (fun x hx => by have := hrest x hx; unfold restorable at this; exact this)
          have hpass : cr.restoreNow cx = true ∨ (cr.needToBeRestored = false ∧ (doneShards cx).contains cr.shard.shardId = false) := by
            cases hneed : cr.needToBeRestored with
            | true =>
              left
              unfold ShardRepair.restoreNow
              simp only [hneed, Bool.true_and, decide_eq_true_eq]
              have hw0 : cr.toStart.length = 0 := by
                unfold ShardRepair.needToBeRestored at hneed
                simp only [Bool.not_eq_true', Bool.or_eq_false_iff, decide_eq_false_iff_not] at hneed
                omega
              have hfl : cr.failed.length ≥ 1 := by rw [hnl]; simp
              unfold ShardRepair.quorum
              rw [hlen, hw0]
              omega
            | false =>
              right
              refine ⟨rfl, ?_⟩
              cases hc : (doneShards cx).contains cr.shard.shardId with
              | false => rfl
              | true =>
                exfalso
                have hm : cr.shard.shardId ∈ doneShards cx := by simpa using hc
                unfold doneShards at hm
                obtain ⟨cr', hcr', hid⟩ := List.mem_map.mp hm
                obtain ⟨hcrm, hnow⟩ := List.mem_filter.mp hcr'
                have := huniq cr' hcrm hid
                subst this
                unfold ShardRepair.restoreNow at hnow
                simp [hneed] at hnow
          have hmem := restore_complete cx rr hr cr hcr hpass n hnr d hd
          exact ⟨createReq n cr.shard d.appName false true, List.mem_append_left _ (List.mem_append_left _ hmem), rfl, rfl⟩

#print axioms maintain_not_silent
end Drummer
