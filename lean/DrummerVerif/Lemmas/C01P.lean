import DrummerVerif.Lemmas.C01E
/-! C01 / C12: where the hypothesis "Drummer holds the NodeHost's log record" of the healing theorems comes from: the
    first report of a NodeHost after it came back announces its persisted logs, and the replicated state records them
    under the NodeHost's address, stamped with the current time. -/
namespace Drummer

theorem hostFind_hostPut (hs : List HostSpec) (h : HostSpec) (a : Addr) (ha : h.address = a) :
    hostFind? (hostPut hs h) a = some h := by
  unfold hostFind? hostPut
  simp [ha]

/-- what `hostsUpdate` leaves under the reporting address when the report announces its logs -/
theorem hostsUpdate_spec (hs : List HostSpec) (nhi : NodeHostInfo) (hinc : nhi.plogIncluded = true) :
    ∃ spec, hostFind? (hostsUpdate hs nhi) nhi.raftAddress = some spec ∧ spec.tick = nhi.lastTick ∧
      spec.plog = nhi.plogInfo := by
  unfold hostsUpdate
  cases hf : hostFind? hs nhi.raftAddress with
  | some old =>
    simp only [hinc, if_true]
    have hoa : old.address = nhi.raftAddress := by
      unfold hostFind? at hf
      simpa using List.find?_some hf
    exact ⟨_, hostFind_hostPut hs _ nhi.raftAddress hoa, rfl, rfl⟩
  | none =>
    simp only [hinc, if_true]
    exact ⟨_, hostFind_hostPut hs _ nhi.raftAddress rfl, rfl, rfl⟩

theorem hostFind_syncShardInfo (hs : List HostSpec) (mc : MultiShard) (a : Addr) (spec : HostSpec)
    (h : hostFind? hs a = some spec) :
    ∃ spec', hostFind? (syncShardInfo hs mc) a = some spec' ∧ spec'.tick = spec.tick ∧ spec'.plog = spec.plog ∧
      spec'.address = spec.address := by
  unfold hostFind? syncShardInfo at *
  induction hs with
  | nil => simp at h
  | cons x xs ih =>
    simp only [List.map_cons, List.find?_cons] at h ⊢
    by_cases hx : (x.address == a) = true
    · simp only [hx] at h ⊢
      cases h
      exact ⟨_, rfl, rfl, rfl, rfl⟩
    · have hxf : (x.address == a) = false := by simpa using hx
      simp only [hxf] at h ⊢
      exact ih h

/-- the log list a NodeHost announces contains every replica it holds data for (replica ids below 10^12, the range the
    model's canonical order of the list is defined on) -/
theorem buildReport_announces_data (l : Loop) (h : Host) (count : Nat) (hc : count = 1 ∨ count % 3 = 0) (s rid : Nat)
    (ap : Int) (hd : ((s, rid), ap) ∈ h.data) (hlt : rid < 1000000000000) :
    (l.buildReport h count).plogIncluded = true ∧
      (⟨s, rid⟩ : LogInfo) ∈ (l.buildReport h count).plogInfo := by
  have hinc : (count == 1 || count % 3 == 0) = true := by
    rcases hc with h1 | h3
    · simp [h1]
    · simp [h3]
  unfold Loop.buildReport
  simp only [hinc, if_true]
  refine ⟨trivial, ?_⟩
  simp only [List.mem_map]
  refine ⟨(s, rid), ?_, rfl⟩
  refine ⟨s * 1000000000000 + rid, ?_, ?_⟩
  · rw [mem_sortNat]
    simp only [List.mem_map]
    exact ⟨(s, rid), ⟨((s, rid), ap), hd, rfl⟩, rfl⟩
  · have h1 : (s * 1000000000000 + rid) / 1000000000000 = s := by omega
    have h2 : (s * 1000000000000 + rid) % 1000000000000 = rid := by omega
    simp [h1, h2]

/-- **the first report after a restart records the logs**: a NodeHost that has just come back (report counter 0) and holds
    the data of replica `rid` of shard `s` reports; afterwards the replicated state has a record for its address, stamped
    with the current time, that lists the log of that replica - the `spec` of `one_round_heals_the_detected_member`. -/
theorem first_report_records_the_logs (l l' : Loop) (a : Addr) (lost : Bool) (n : Nat) (h0 : Host)
    (hh : l.host? a = some h0) (hcnt : h0.reportCount = 0 ∨ (h0.reportCount + 1) % 3 = 0)
    (s rid : Nat) (ap : Int) (hd : ((s, rid), ap) ∈ h0.data) (hlt : rid < 1000000000000)
    (h : l.report a lost = .ok (l', n)) :
    ∃ spec, hostFind? l'.db.hosts a = some spec ∧ spec.tick = l.db.tick ∧ spec.hasLog s rid = true := by
  unfold Loop.report at h
  simp only [hh] at h
  cases ha : l.db.applyReport (l.buildReport { h0 with reportCount := h0.reportCount + 1 } (h0.reportCount + 1)) with
  | panic w => simp [ha] at h
  | ok p =>
    obtain ⟨db2, n2⟩ := p
    simp only [ha, Outcome.ok.injEq, Prod.mk.injEq] at h
    obtain ⟨rfl, _⟩ := h
    have ha0 : h0.addr = a := host?_addr l a h0 hh
    have hc1 : h0.reportCount + 1 = 1 ∨ (h0.reportCount + 1) % 3 = 0 := by
      rcases hcnt with h1 | h3
      · left; omega
      · right; exact h3
    obtain ⟨hinc, hmem⟩ := buildReport_announces_data l { h0 with reportCount := h0.reportCount + 1 } (h0.reportCount + 1) hc1 s rid ap hd hlt
    -- the host table after the report
    unfold DB.applyReport at ha
    cases hv : l.db.reportView (l.buildReport { h0 with reportCount := h0.reportCount + 1 } (h0.reportCount + 1)) with
    | panic w => simp [hv] at ha
    | ok d1 =>
      simp only [hv, Outcome.ok.injEq, Prod.mk.injEq] at ha
      obtain ⟨rfl, _⟩ := ha
      have hhosts : ∀ x : DB, x.onUpdatedShardInfo.hosts = x.hosts := by
        intro x; unfold DB.onUpdatedShardInfo; split <;> rfl
      have hmove : ∀ (x : DB) (b : Addr), (x.moveRequests b).1.hosts = x.hosts := by
        intro x b; unfold DB.moveRequests; split <;> rfl
      show ∃ spec, hostFind? (((d1.moveRequests _).1.onUpdatedShardInfo).hosts) a = some spec ∧ _
      rw [hhosts, hmove]
      unfold DB.reportView at hv
      cases hu : l.db.image.update { (l.buildReport { h0 with reportCount := h0.reportCount + 1 } (h0.reportCount + 1)) with lastTick := l.db.tick } with
      | panic w => simp [hu] at hv
      | ok image =>
        simp only [hu] at hv
        cases hv
        simp only
        -- the record written by `hostsUpdate`
        have hra : (l.buildReport { h0 with reportCount := h0.reportCount + 1 } (h0.reportCount + 1)).raftAddress = a := ha0
        have hup : ∃ spec, hostFind? (hostsUpdate l.db.hosts
              { (l.buildReport { h0 with reportCount := h0.reportCount + 1 } (h0.reportCount + 1)) with lastTick := l.db.tick }) a = some spec ∧
            spec.tick = l.db.tick ∧
            spec.plog = (l.buildReport { h0 with reportCount := h0.reportCount + 1 } (h0.reportCount + 1)).plogInfo := by
          have h1 := hostsUpdate_spec l.db.hosts
            { (l.buildReport { h0 with reportCount := h0.reportCount + 1 } (h0.reportCount + 1)) with lastTick := l.db.tick } hinc
          obtain ⟨spec, e1, e2, e3⟩ := h1
          refine ⟨spec, ?_, e2, e3⟩
          rw [← hra]; exact e1
        obtain ⟨spec, hsp, htick, hplog⟩ := hup
        obtain ⟨spec', hsp', ht', hp', _⟩ := hostFind_syncShardInfo _ image a spec hsp
        refine ⟨spec', hsp', by rw [ht', htick], ?_⟩
        unfold HostSpec.hasLog
        rw [hp', hplog, List.any_eq_true]
        exact ⟨⟨s, rid⟩, hmem, by simp⟩


#print axioms first_report_records_the_logs
end Drummer
