import DrummerVerif.Lemmas.C01M
import DrummerVerif.Lemmas.C01
/-!
# C01: from the scheduler's view to the running replica

`detected_member_is_restored_by_one_round`: when a maintenance round is computed from a context in which a member is
classified failed and restorable (its host is live in Drummer's records and has reported the replica's log) and the
shard is handled by one of the two restore passes, and in the fleet that host is up, holds the data and does not run the
replica, then once the round's requests are accepted, the host's next answered report, the execution of its queue and
its report after that leave the replica running and recorded as reported at the current time. The scheduler link
(`restore_complete`), the mailbox refinement (C10) and the fleet links (`C01L`) in one statement.
-/
namespace Drummer

/-- a maintenance round's output contains everything its restore phase decided -/
theorem maintain_contains_restore (cx : Ctx) (draws rest : List Nat) (all rs : List Request)
    (hm : maintain cx draws = .ok all rest) (hr : restore cx = .ok rs) : ∀ r ∈ rs, r ∈ all := by
  unfold maintain at hm
  simp only [hr] at hm
  cases hp : repair cx (rs.map (·.shardId)) cx.repairs draws with
  | ok rp dr =>
    simp only [hp] at hm
    split at hm
    · cases hm
    · cases hm
      intro r hrr
      exact List.mem_append_left _ (List.mem_append_left _ hrr)
  | error e => simp [hp] at hm
  | panic w => simp [hp] at hm

/-- a batch that contains a restore request and is accepted is counted with its full length: it is not a launch batch -/
theorem applyRequests_restore_counts (d d' : DB) (rs : List Request) (n : Nat) (h : d.applyRequests rs = .ok (d', n))
    (r : Request) (hr : r ∈ rs) (hres : r.restore = true) : n ≠ 0 := by
  unfold DB.applyRequests at h
  have hnl : isLaunchReq r = false := by simp [isLaunchReq, hres]
  have hlt : (rs.filter isLaunchReq).length < rs.length := by
    have hle := List.length_filter_le isLaunchReq rs
    rcases Nat.lt_or_ge (rs.filter isLaunchReq).length rs.length with h1 | h1
    · exact h1
    · exfalso
      have heq : (rs.filter isLaunchReq).length = rs.length := Nat.le_antisymm hle h1
      have := List.length_filter_eq_length_iff.mp heq r hr
      rw [hnl] at this; cases this
  have hpos : 0 < rs.length := List.length_pos_of_mem hr
  unfold isLaunchBatch at h
  by_cases hmix : (rs.filter isLaunchReq).length > 0 ∧ (rs.filter isLaunchReq).length ≠ rs.length
  · simp [hmix] at h
  · simp only [hmix, if_false] at h
    have hz : ¬ (rs.filter isLaunchReq).length > 0 := fun hc => hmix ⟨hc, Nat.ne_of_lt hlt⟩
    simp only [hz, decide_false, Bool.and_false, Bool.false_eq_true, if_false, Outcome.ok.injEq, Prod.mk.injEq] at h
    omega

#print axioms maintain_contains_restore
#print axioms applyRequests_restore_counts

theorem detected_member_is_restored_by_one_round (l : Loop) (har : l.AR) (hu : UniqueShards l.db.image)
    (cx : Ctx) (draws rest : List Nat) (rs : List Request) (hm : maintain cx draws = .ok rs rest)
    (db' : DB) (n : Nat) (hs : l.db.applyRequests rs = .ok (db', n))
    (cr : ShardRepair) (hcr : cr ∈ cx.repairs)
    (hpass : cr.restoreNow cx = true ∨ (cr.needToBeRestored = false ∧ (doneShards cx).contains cr.shard.shardId = false))
    (m : Replica) (hmr : m ∈ restorable cx cr) (d : ShardDef) (hdef : cx.def? cr.shard.shardId = some d)
    (h : Host) (hh : l.host? m.address = some h) (hnr : h.run? cr.shard.shardId = none) (ap : Int)
    (hd : h.dataGet cr.shard.shardId m.replicaId = some ap)
    (hq : ∀ x ∈ h.queue ++ forAddr rs m.address, x.shardId = cr.shard.shardId →
      x = createReq m cr.shard d.appName false true ∨
        (x.type ≠ .create ∧ ¬ (x.type = .kill ∧ x.members.head? = some m.replicaId)))
    (l2 : Loop) (k : Nat) (hrep : ({ l with db := db' } : Loop).report m.address false = .ok (l2, k))
    (lost : Bool) (l4 : Loop) (k4 : Nat) (hrep4 : (l2.execute m.address).report m.address lost = .ok (l4, k4)) :
    (∃ h3, (l2.execute m.address).host? m.address = some h3 ∧ (h3.run? cr.shard.shardId).map (·.id) = some m.replicaId) ∧
    ∀ c ∈ l4.db.image.shards, c.shardId = cr.shard.shardId → ∀ x ∈ c.replicas, x.replicaId = m.replicaId →
      x.tick = l2.db.tick := by
  cases hres : restore cx with
  | panic w => unfold maintain at hm; simp [hres] at hm
  | ok rr =>
    have hin : createReq m cr.shard d.appName false true ∈ rs :=
      maintain_contains_restore cx draws rest rs rr hm hres _ (restore_complete cx rr hres cr hcr hpass m hmr d hdef)
    have hacc := applyRequests_restore_counts l.db db' rs n hs _ hin rfl
    exact restore_round_heals_member l har hu rs db' n hs hacc (createReq m cr.shard d.appName false true) hin rfl rfl rfl
      h hh hnr ap hd hq l2 k hrep lost l4 k4 hrep4

#print axioms detected_member_is_restored_by_one_round
end Drummer
