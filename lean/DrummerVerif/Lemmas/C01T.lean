import DrummerVerif.Lemmas.C01L
import DrummerVerif.Lemmas.C05S
import DrummerVerif.Lemmas.C01M
import DrummerVerif.Lemmas.C02
/-! C01 timeline, the link between the fleet and the detection half: a report lists only replicas its host runs, so a
    replica that runs nowhere is listed by nobody; with `silent_member_is_detected` a crashed member is classified failed
    once the timeout has passed, whatever the rest of the fleet and the scheduler do in between. -/
namespace Drummer

/-- C18 inside the loop, truthfulness: every entry of a host's report names a replica the host runs -/
theorem buildReport_lists_only_running (l : Loop) (h : Host) (count : Nat) (ci : ShardInfo)
    (hci : ci ∈ (l.buildReport h count).shardInfo) :
    ∃ rep, h.run? ci.shardId = some rep ∧ rep.id = ci.replicaId := by
  unfold Loop.buildReport at hci
  simp only [List.mem_filterMap] at hci
  obtain ⟨sid, _, hsome⟩ := hci
  cases hr : h.run? sid with
  | none => simp [hr] at hsome
  | some r =>
    simp only [hr] at hsome
    by_cases hneg : r.applied < 0
    · simp only [hneg, if_true, Option.some.injEq] at hsome
      subst hsome
      exact ⟨r, hr, rfl⟩
    · simp only [hneg, if_false] at hsome
      cases hg : l.group? sid with
      | none => simp [hg] at hsome
      | some g =>
        simp only [hg] at hsome
        cases hm : g.hist[r.applied.toNat]? with
        | none => simp [hm] at hsome
        | some m =>
          simp only [hm] at hsome
          cases hk : (l.db.image.find? sid).map (fun (c : Shard) => c.cci) with
          | none =>
            simp only [hk, Option.some.injEq] at hsome
            subst hsome
            exact ⟨r, hr, rfl⟩
          | some k =>
            simp only [hk] at hsome
            by_cases hkm : k ≥ m.ver
            · simp only [hkm, if_true, Option.some.injEq] at hsome
              subst hsome
              exact ⟨r, hr, rfl⟩
            · simp only [hkm, if_false, Option.some.injEq] at hsome
              subst hsome
              exact ⟨r, hr, rfl⟩

/-- a host that does not run replica `rid` of shard `s` sends a report that does not list it -/
theorem report_of_host_not_running_is_silent (l : Loop) (h : Host) (count : Nat) (s rid : Nat)
    (hno : ∀ rep, h.run? s = some rep → rep.id ≠ rid) :
    ¬ (Cmd.report (l.buildReport h count)).lists s rid := by
  intro hl
  obtain ⟨ci, hci, hs, hid⟩ := hl
  obtain ⟨rep, hrun, hrid⟩ := buildReport_lists_only_running l h count ci hci
  rw [hs] at hrun
  exact hno rep hrun (hrid.trans hid)

/-- nobody in the fleet runs replica `rid` of shard `s` -/
def Loop.NotRunning (s rid : Nat) (l : Loop) : Prop :=
  ∀ a h, l.host? a = some h → ∀ rep, h.run? s = some rep → rep.id ≠ rid

/-- event sequences of the closed loop along which `P` holds in every state gone through -/
inductive StepsWhile (size : Nat → Nat) (P : Loop → Prop) : Loop → Loop → Prop
  | refl (l : Loop) : P l → StepsWhile size P l l
  | tail (l l' l'' : Loop) : StepsWhile size P l l' → Step size l' l'' → P l'' → StepsWhile size P l l''

theorem stepsWhile_holds (size : Nat → Nat) (P : Loop → Prop) (l l' : Loop) (h : StepsWhile size P l l') : P l' := by
  cases h with
  | refl hp => exact hp
  | tail _ _ _ _ hp => exact hp

theorem kept_refl (mc : MultiShard) (s : Nat) (c' : Shard) (hc' : c' ∈ mc.shards) (hs : c'.shardId = s) (r' : Replica)
    (hr' : r' ∈ c'.replicas) : Kept mc s r' := Or.inl ⟨c', hc', hs, r', hr', rfl, rfl, rfl⟩

/-- one event of the loop, with nobody running the replica before it: the views keep its record -/
theorem step_kept (size : Nat → Nat) (l l' : Loop) (s rid : Nat) (hnr : l.NotRunning s rid) (hst : Step size l l') :
    ∀ c' ∈ l'.db.image.shards, c'.shardId = s → ∀ r' ∈ c'.replicas, r'.replicaId = rid → Kept l.db.image s r' := by
  intro c' hc' hs r' hr' hid
  cases hst with
  | dbLocal db' himg _ _ =>
    have hc'' : c' ∈ l.db.image.shards := by rw [← himg]; exact hc'
    exact kept_refl _ s c' hc'' hs r' hr'
  | report _ a lost n h =>
    unfold Loop.report at h
    cases hh : l.host? a with
    | none => simp [hh] at h
    | some h0 =>
      simp only [hh] at h
      cases ha : l.db.applyReport (l.buildReport { h0 with reportCount := h0.reportCount + 1 } (h0.reportCount + 1)) with
      | panic w => simp [ha] at h
      | ok p =>
        obtain ⟨db2, n2⟩ := p
        simp only [ha, Outcome.ok.injEq, Prod.mk.injEq] at h
        obtain ⟨rfl, _⟩ := h
        have hdb : (({ l with db := db2 } : Loop).setHost
            (if lost = true then { h0 with reportCount := h0.reportCount + 1 }
             else { h0 with reportCount := h0.reportCount + 1,
                            queue := h0.queue ++ db2.lookupRequests a })).db = db2 := by
          unfold Loop.setHost; rfl
        have hsil : ¬ (Cmd.report (l.buildReport { h0 with reportCount := h0.reportCount + 1 } (h0.reportCount + 1))).lists s rid :=
          report_of_host_not_running_is_silent l _ _ s rid (fun rep hrun => hnr a h0 hh rep hrun)
        have hu := applyReport_image l.db db2 _ n2 ha
        have hc2 : c' ∈ db2.image.shards := by
          have : c' ∈ (({ l with db := db2 } : Loop).setHost
            (if lost = true then { h0 with reportCount := h0.reportCount + 1 }
             else { h0 with reportCount := h0.reportCount + 1,
                            queue := h0.queue ++ db2.lookupRequests a })).db.image.shards := hc'
          rw [hdb] at this; exact this
        have hnot : ¬ ∃ ci ∈ ({ (l.buildReport { h0 with reportCount := h0.reportCount + 1 } (h0.reportCount + 1)) with
            lastTick := l.db.tick } : NodeHostInfo).shardInfo, ci.shardId = c'.shardId ∧ ci.replicaId = r'.replicaId := by
          rw [hs, hid]; exact hsil
        rcases update_unlisted l.db.image db2.image _ hu c' hc2 r' hr' hnot with hsrc | ⟨h0', _⟩
        · rw [hs] at hsrc; exact Or.inl hsrc
        · exact Or.inr h0'
  | schedule cx draws rest rs db' n _ _ _ hap =>
    have himg := applyRequests_image l.db db' rs n hap
    have hc'' : c' ∈ l.db.image.shards := by rw [← himg]; exact hc'
    exact kept_refl _ s c' hc'' hs r' hr'
  | launch cx draws rest rs db' n _ _ hap =>
    have himg := applyRequests_image l.db db' rs n hap
    have hc'' : c' ∈ l.db.image.shards := by rw [← himg]; exact hc'
    exact kept_refl _ s c' hc'' hs r' hr'
  | execute a =>
    have hdb : (l.execute a).db = l.db := execute_db l a
    rw [hdb] at hc'
    exact kept_refl _ s c' hc' hs r' hr'
  | hostLocal h h' _ _ =>
    have hdb : (l.setHost h').db = l.db := by unfold Loop.setHost; rfl
    rw [hdb] at hc'
    exact kept_refl _ s c' hc' hs r' hr'

/-- **the record of a crashed member survives everything the loop does while the member is down**: along any sequence
    of loop events (reports of every NodeHost with or without lost replies, scheduling rounds with any orders and draws,
    executions, crashes, restarts, catch-up, ticks) during which nobody runs replica `rid` of shard `s`, every record the
    views end up holding for it is one they held at the start, or has no report time -/
theorem crashed_member_record_survives (size : Nat → Nat) (s rid : Nat) (l l' : Loop)
    (hs : StepsWhile size (Loop.NotRunning s rid) l l') :
    ∀ c' ∈ l'.db.image.shards, c'.shardId = s → ∀ r' ∈ c'.replicas, r'.replicaId = rid → Kept l.db.image s r' := by
  induction hs with
  | refl hp => intro c' hc' hs' r' hr' _; exact kept_refl _ s c' hc' hs' r' hr'
  | tail l1 l2 hsw hstep _ ih =>
    intro c' hc' hs' r' hr' hid
    have hnr := stepsWhile_holds size _ l l1 hsw
    rcases step_kept size l1 l2 s rid hnr hstep c' hc' hs' r' hr' hid with ⟨c1, hc1, hs1, r1, hr1, e1, e2, e3⟩ | h0
    · rcases ih c1 hc1 hs1 r1 hr1 (e1.trans hid) with ⟨c0, hc0, hs0, r0, hr0, f1, f2, f3⟩ | h0
      · exact Or.inl ⟨c0, hc0, hs0, r0, hr0, f1.trans e1, f2.trans e2, f3.trans e3⟩
      · exact Or.inr (e2 ▸ h0)
    · exact Or.inr h0

/-- **a crashed member is detected, in the closed loop**: last reported at the positive time `t0`; then any sequence of
    loop events during which it runs nowhere; once the logical clock is more than the failure timeout past `t0`, every
    record the views hold for it is classified failed (or belongs to a member added anew). -/
theorem crashed_member_is_detected (size : Nat → Nat) (s rid t0 : Nat) (l l' : Loop)
    (hs : StepsWhile size (Loop.NotRunning s rid) l l')
    (hrec : ∀ c ∈ l.db.image.shards, c.shardId = s → ∀ r ∈ c.replicas, r.replicaId = rid → r.tick = t0)
    (hpos : 0 < t0) (hwrap : l'.db.tick < 18446744073709551616) (hlate : l'.db.tick - t0 > nodeHostTTL) :
    ∀ c' ∈ l'.db.image.shards, c'.shardId = s → ∀ r' ∈ c'.replicas, r'.replicaId = rid →
      r'.failed l'.db.tick = true ∨ r'.tick = 0 := by
  intro c' hc' hs' r' hr' hid
  rcases crashed_member_record_survives size s rid l l' hs c' hc' hs' r' hr' hid with
    ⟨c0, hc0, hs0, r0, hr0, e1, e2, _⟩ | h0
  · left
    have ht : r'.tick = t0 := by rw [← e2]; exact hrec c0 hc0 hs0 r0 hr0 (e1.trans hid)
    unfold Replica.failed
    have hne : (r'.tick == 0) = false := by rw [ht]; simp; omega
    simp only [hne, Bool.false_eq_true, if_false]
    unfold entityFailed usub64
    rw [ht]
    have : (l'.db.tick + 18446744073709551616 - t0) % 18446744073709551616 = l'.db.tick - t0 := by
      have h1 : l'.db.tick + 18446744073709551616 - t0 = (l'.db.tick - t0) + 18446744073709551616 := by omega
      rw [h1, Nat.add_mod_right, Nat.mod_eq_of_lt]; omega
    rw [this]
    simpa using hlate
  · exact Or.inr h0

#print axioms crashed_member_record_survives
#print axioms crashed_member_is_detected

#print axioms buildReport_lists_only_running
#print axioms report_of_host_not_running_is_silent
end Drummer
