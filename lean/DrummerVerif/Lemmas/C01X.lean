import DrummerVerif.Lemmas.C02Events
import DrummerVerif.Lemmas.Stamp
import DrummerVerif.Model.Agent
/-! C01 building blocks on the fleet side: what executing a CREATE achieves -/
namespace Drummer

theorem run?_setRun (h : Host) (r : SimReplica) : (h.setRun r).run? r.shard = some r := by
  unfold Host.setRun Host.run?
  simp

/-- a restore-CREATE executed on a host that is not running the shard and still has the replica's data starts exactly
    that replica, at the applied index it had persisted -/
theorem execCreate_restore_runs (l : Loop) (h : Host) (r : Request) (ap : Int) (hnot : h.run? r.shardId = none)
    (hres : r.restore = true) (hj : r.join = false) (hdata : h.dataGet r.shardId r.instantiateReplicaId = some ap) :
    l.execCreate h r = l.setHost (h.setRun ⟨r.shardId, r.instantiateReplicaId, ap⟩) := by
  unfold Loop.execCreate
  simp [hnot, hres, hj, hdata]

/-- a join-CREATE executed on a host that is not running the shard starts the replica (pending until it catches up) -/
theorem execCreate_join_runs (l : Loop) (h : Host) (r : Request) (hnot : h.run? r.shardId = none) (hj : r.join = true) :
    ∃ h', l.execCreate h r = l.setHost h' ∧
      h'.run? r.shardId = some ⟨r.shardId, r.instantiateReplicaId, (h.dataGet r.shardId r.instantiateReplicaId).getD (-1)⟩ := by
  unfold Loop.execCreate
  simp only [hnot, Option.isSome_none, Bool.false_eq_true, if_false, hj, Bool.not_true, Bool.and_false, if_true]
  refine ⟨_, rfl, ?_⟩
  unfold Host.dataPut
  exact run?_setRun h ⟨r.shardId, r.instantiateReplicaId, (h.dataGet r.shardId r.instantiateReplicaId).getD (-1)⟩

/-- C01 "and keeps holding", scheduler side: when no view has a failed or waiting member (so nothing is listed for
    repair) and no stray replica is recorded, a maintenance round issues nothing, consumes no draw, and cannot fail -/
theorem healed_quiet (cx : Ctx) (draws : List Nat) (hr : cx.repairs = []) (hk : cx.toKill = []) :
    maintain cx draws = .ok [] draws := by
  unfold maintain restore
  simp [hr, hk, concatOutcome, repair, killReqs]

#print axioms healed_quiet
#print axioms execCreate_restore_runs
#print axioms execCreate_join_runs
theorem run?_dataPut (h : Host) (s r : Nat) (v : Int) (x : Nat) : (h.dataPut s r v).run? x = h.run? x := by
  unfold Host.dataPut Host.run?; rfl

/-- the fleet half of the loop model follows the agent's launch / join / restore table (M-AGENT `instantiate`, compared
    row by row with real NodeHosts): on a host not running the shard, a CREATE request for which the table says
    "started" leaves a running replica, one for which it says "ignored" changes nothing -/
theorem execCreate_follows_table (l : Loop) (h : Host) (r : Request) (hnot : h.run? r.shardId = none)
    (hlaunch : r.join = false → r.restore = false → (l.group? r.shardId).isSome = false)
    (hnp : instantiate r.join r.restore (h.dataGet r.shardId r.instantiateReplicaId).isSome ≠ .panic) :
    if (instantiate r.join r.restore (h.dataGet r.shardId r.instantiateReplicaId).isSome).started then
      ∃ l' h', l.execCreate h r = Loop.setHost l' h' ∧ (h'.run? r.shardId).map (·.id) = some r.instantiateReplicaId
    else l.execCreate h r = l := by
  unfold Loop.execCreate
  simp only [hnot, Option.isSome_none, Bool.false_eq_true, if_false]
  cases hj : r.join <;> cases hr : r.restore <;> simp only [hj, hr] at hnp hlaunch ⊢
  · -- launch
    cases hd : h.dataGet r.shardId r.instantiateReplicaId with
    | some ap => simp [hd, instantiate] at hnp
    | none =>
      have hg := hlaunch trivial trivial
      simp only [instantiate, InstOutcome.started, Option.isSome_none, Bool.false_eq_true, if_false, if_true,
        Bool.and_false, Bool.not_false, Bool.and_true, hg]
      refine ⟨_, _, rfl, ?_⟩
      rw [run?_dataPut]
      exact congrArg _ (run?_setRun h ⟨r.shardId, r.instantiateReplicaId, 0⟩)
  · -- restore
    cases hd : h.dataGet r.shardId r.instantiateReplicaId with
    | some ap =>
      simp only [instantiate, InstOutcome.started, Option.isSome_some, if_true, Bool.not_false, Bool.and_true]
      refine ⟨_, _, rfl, ?_⟩
      exact congrArg _ (run?_setRun h ⟨r.shardId, r.instantiateReplicaId, ap⟩)
    | none => simp [instantiate, InstOutcome.started]
  · -- join
    simp only [instantiate, InstOutcome.started, if_true, Bool.not_true, Bool.and_false, Bool.false_eq_true, if_false]
    refine ⟨_, _, rfl, ?_⟩
    rw [run?_dataPut]
    exact congrArg _ (run?_setRun h ⟨r.shardId, r.instantiateReplicaId, _⟩)
  · simp [instantiate] at hnp

end Drummer
