import DrummerVerif.Lemmas.C02Events
import DrummerVerif.Lemmas.Stamp
/-! C01 building blocks on the fleet side: what executing a CREATE achieves -/
namespace Drummer

theorem run?_setRun (h : Host) (r : SimReplica) : (h.setRun r).run? r.shard = some r := by
  unfold Host.setRun Host.run?
  simp

/-- a restore-CREATE executed on a host that is not running the shard and still has the replica's data starts exactly
    that replica, at the applied index it had persisted -/
theorem execCreate_restore_runs (l : Loop) (h : Host) (r : Request) (ap : Int) (hnot : h.run? r.shardId = none)
    (hres : r.restore = true) (hj : r.join = false) (hdata : h.dataGet r.shardId r.instantiateReplicaId = some ap) :
    l.execCreate h r = l.setHost (h.setRun ⟨r.shardId, r.instantiateReplicaId, ap⟩) := by
  unfold Loop.execCreate
  simp [hnot, hres, hj, hdata]

/-- a join-CREATE executed on a host that is not running the shard starts the replica (pending until it catches up) -/
theorem execCreate_join_runs (l : Loop) (h : Host) (r : Request) (hnot : h.run? r.shardId = none) (hj : r.join = true) :
    ∃ h', l.execCreate h r = l.setHost h' ∧
      h'.run? r.shardId = some ⟨r.shardId, r.instantiateReplicaId, (h.dataGet r.shardId r.instantiateReplicaId).getD (-1)⟩ := by
  unfold Loop.execCreate
  simp only [hnot, Option.isSome_none, Bool.false_eq_true, if_false, hj, Bool.not_true, Bool.and_false, if_true]
  refine ⟨_, rfl, ?_⟩
  unfold Host.dataPut
  exact run?_setRun h ⟨r.shardId, r.instantiateReplicaId, (h.dataGet r.shardId r.instantiateReplicaId).getD (-1)⟩

/-- C01 "and keeps holding", scheduler side: when no view has a failed or waiting member (so nothing is listed for
    repair) and no stray replica is recorded, a maintenance round issues nothing, consumes no draw, and cannot fail -/
theorem healed_quiet (cx : Ctx) (draws : List Nat) (hr : cx.repairs = []) (hk : cx.toKill = []) :
    maintain cx draws = .ok [] draws := by
  unfold maintain restore
  simp [hr, hk, concatOutcome, repair, killReqs]

#print axioms healed_quiet
#print axioms execCreate_restore_runs
#print axioms execCreate_join_runs
end Drummer
