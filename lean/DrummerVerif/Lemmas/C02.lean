import DrummerVerif.Lemmas.LoopSys
import DrummerVerif.Lemmas.LoopLaunch
import DrummerVerif.Lemmas.C05
/-! C02: the closed loop of Drummer (M-DB + M-SCHED) and the fleet (M-LOOP) keeps every Raft group well-formed,
    from any state that satisfies the invariant, through any sequence of events -/
namespace Drummer

/-- the closed-loop invariant: groups and views (`StateInv`) plus "every request that exists anywhere — queued at a
    host, pending or handed out in the replicated state — is safe to execute" -/
structure SysInv (size : Nat → Nat) (l : Loop) : Prop where
  st : StateInv size l
  ids : ∀ c ∈ l.db.image.shards, c.IdsOK
  queues : ∀ x ∈ l.hosts, ∀ r ∈ x.queue, ExecOK size l r
  reqs : MboxAll (ExecOK size l) l.db.requests
  out : MboxAll (ExecOK size l) l.db.outgoing

/-- how the scheduler context of a round relates to the replicated state it was decoded from: the entries to repair
    are views of the image, classified by the model's own predicates at the state's tick (in any order — Go map
    iteration), and the definitions are the state's definitions -/
structure CtxFrom (d : DB) (cx : Ctx) : Prop where
  repairs : ∀ cr ∈ cx.repairs, cr.shard ∈ d.image.shards ∧ cr.failed.Perm (cr.shard.failedReplicas d.tick) ∧
    cr.ok.Perm (cr.shard.okReplicas d.tick) ∧ cr.toStart.Perm (cr.shard.toStart d.tick)
  defs : ∀ dd ∈ cx.defs, dd ∈ d.shards

/-- `size` is the size function of the run's (immutable, add-only) shard definitions -/
def DefsAgree (size : Nat → Nat) (d : DB) : Prop := ∀ dd ∈ d.shards, dd.members.length = size dd.shardId

theorem ctxOf_of_from (size : Nat → Nat) (l : Loop) (cx : Ctx) (hf : CtxFrom l.db cx) (hd : DefsAgree size l.db)
    (hids : ∀ c ∈ l.db.image.shards, c.IdsOK) : CtxOf size l cx := by
  constructor
  · intro cr hcr
    obtain ⟨hmem, pf, po, pw⟩ := hf.repairs cr hcr
    refine ⟨hmem, ?_, ?_⟩
    · have := classes_partition cr.shard l.db.tick
      rw [pf.length_eq, po.length_eq, pw.length_eq]; omega
    · intro x hx
      have hx' := pf.mem_iff.mp hx
      unfold Shard.failedReplicas at hx'
      exact hids cr.shard hmem x (List.mem_filter.mp hx').1
  · intro s dd hdd
    unfold Ctx.def? at hdd
    have h1 := List.mem_of_find?_eq_some hdd
    have h2 : dd.shardId = s := by simpa using List.find?_some hdd
    rw [← h2]; exact hd dd (hf.defs dd h1)

/-- the events of the closed loop; nondeterminism (who reports, lost replies, scheduler draws and map orders,
    crashes, progress of catching-up replicas) is in the event's arguments -/
inductive Step (size : Nat → Nat) : Loop → Loop → Prop
  /-- tick, KV and shard-definition commands: anything that leaves views and mailboxes alone -/
  | dbLocal (l : Loop) (db' : DB) : db'.image = l.db.image → db'.requests = l.db.requests →
      db'.outgoing = l.db.outgoing → Step size l { l with db := db' }
  | report (l l' : Loop) (a : Addr) (lost : Bool) (n : Nat) : l.report a lost = .ok (l', n) → Step size l l'
  | schedule (l : Loop) (cx : Ctx) (draws rest : List Nat) (rs : List Request) (db' : DB) (n : Nat) :
      CtxFrom l.db cx → DefsAgree size l.db → maintain cx draws = .ok rs rest → l.db.applyRequests rs = .ok (db', n) →
      Step size l { l with db := db' }
  /-- the (repaired) launch plan, accepted by the replicated state or ignored by it -/
  | launch (l : Loop) (cx : Ctx) (draws rest : List Nat) (rs : List Request) (db' : DB) (n : Nat) :
      DefsOK size cx → launchF cx draws = .ok rs rest → l.db.applyRequests rs = .ok (db', n) →
      Step size l { l with db := db' }
  | execute (l : Loop) (a : Addr) : Step size l (l.execute a)
  /-- crash, restart, log catch-up, a removed replica stopping itself: one host changes, its queue does not grow -/
  | hostLocal (l : Loop) (h h' : Host) : h ∈ l.hosts → (∀ r ∈ h'.queue, r ∈ h.queue) → Step size l (l.setHost h')

theorem execOK_congr (size : Nat → Nat) (l l' : Loop) (hg : l'.groups = l.groups) (hn : l'.nextVer = l.nextVer)
    (r : Request) : ExecOK size l r → ExecOK size l' r := execOK_of_same size l l' hg hn r

theorem step_inv (size : Nat → Nat) (l l' : Loop) (hinv : SysInv size l) (hs : Step size l l') : SysInv size l' := by
  cases hs with
  | dbLocal db' himg hreq hout =>
    have hst : StateInv size { l with db := db' } :=
      stateInv_of_same size l _ rfl rfl (by show ∀ c ∈ db'.image.shards, _; rw [himg]; exact hinv.st.mir) hinv.st
    refine ⟨hst, (by show ∀ c ∈ db'.image.shards, _; rw [himg]; exact hinv.ids),
      fun x hx r hr => execOK_congr size l _ rfl rfl r (hinv.queues x hx r hr), ?_, ?_⟩
    · show MboxAll _ db'.requests
      rw [hreq]; exact fun p hp r hr => execOK_congr size l _ rfl rfl r (hinv.reqs p hp r hr)
    · show MboxAll _ db'.outgoing
      rw [hout]; exact fun p hp r hr => execOK_congr size l _ rfl rfl r (hinv.out p hp r hr)
  | report _ a lost n h =>
    obtain ⟨hst, hg, hn⟩ := report_stateInv size l l' a lost n hinv.st h
    have hc : ∀ r, ExecOK size l r → ExecOK size l' r := fun r => execOK_congr size l l' hg hn r
    unfold Loop.report at h
    cases hh : l.host? a with
    | none => simp [hh] at h
    | some hst0 =>
      simp only [hh] at h
      cases ha : l.db.applyReport (l.buildReport { hst0 with reportCount := hst0.reportCount + 1 } (hst0.reportCount + 1)) with
      | panic w => simp [ha] at h
      | ok p =>
        obtain ⟨db', k⟩ := p
        simp only [ha] at h
        cases h
        obtain ⟨hrq, hout⟩ := applyReport_mbox (ExecOK size l) l.db db' _ _ ha hinv.reqs hinv.out
        refine ⟨hst, update_idsOK l.db.image db'.image _ hinv.ids (applyReport_image _ _ _ _ ha), ?_,
          fun p hp r hr => hc r (hrq p hp r hr), fun p hp r hr => hc r (hout p hp r hr)⟩
        intro x hx r hr
        apply hc
        rcases mem_setHost _ _ x hx with rfl | hm
        · have hold : ∀ r ∈ hst0.queue, ExecOK size l r := hinv.queues hst0 (host?_mem l a hst0 hh)
          cases lost with
          | true => exact hold r (by simpa using hr)
          | false =>
            simp only [Bool.false_eq_true, if_false, List.mem_append] at hr
            rcases hr with hr | hr
            · exact hold r hr
            · unfold DB.lookupRequests at hr
              cases hg2 : amGet db'.outgoing a with
              | none => simp [hg2] at hr
              | some rs => simp only [hg2, Option.getD_some] at hr; exact mboxAll_amGet _ _ _ rs hout hg2 r hr
        · exact hinv.queues x hm r hr
  | schedule cx draws rest rs db' n hfrom hdefs hm ha =>
    have hcx := ctxOf_of_from size l cx hfrom hdefs hinv.ids
    have hrs := maintain_execOK size l cx draws rs rest hcx hinv.st.histOK hinv.st.mir hm
    obtain ⟨himg, hout, hrq⟩ := applyRequests_frame (ExecOK size l) l.db db' rs n ha hinv.reqs hrs
    have hst : StateInv size { l with db := db' } :=
      stateInv_of_same size l _ rfl rfl (by show ∀ c ∈ db'.image.shards, _; rw [himg]; exact hinv.st.mir) hinv.st
    refine ⟨hst, (by show ∀ c ∈ db'.image.shards, _; rw [himg]; exact hinv.ids),
      fun x hx r hr => execOK_congr size l _ rfl rfl r (hinv.queues x hx r hr), ?_, ?_⟩
    · exact fun p hp r hr => execOK_congr size l _ rfl rfl r (hrq p hp r hr)
    · show MboxAll _ db'.outgoing
      rw [hout]; exact fun p hp r hr => execOK_congr size l _ rfl rfl r (hinv.out p hp r hr)
  | launch cx draws rest rs db' n hd hm ha =>
    have hrs := launchF_execOK size l cx draws rest rs hd hm
    obtain ⟨himg, hout, hrq⟩ := applyRequests_frame (ExecOK size l) l.db db' rs n ha hinv.reqs hrs
    have hst : StateInv size { l with db := db' } :=
      stateInv_of_same size l _ rfl rfl (by show ∀ c ∈ db'.image.shards, _; rw [himg]; exact hinv.st.mir) hinv.st
    refine ⟨hst, (by show ∀ c ∈ db'.image.shards, _; rw [himg]; exact hinv.ids),
      fun x hx r hr => execOK_congr size l _ rfl rfl r (hinv.queues x hx r hr), ?_, ?_⟩
    · exact fun p hp r hr => execOK_congr size l _ rfl rfl r (hrq p hp r hr)
    · show MboxAll _ db'.outgoing
      rw [hout]; exact fun p hp r hr => execOK_congr size l _ rfl rfl r (hinv.out p hp r hr)
  | execute a =>
    unfold Loop.execute
    cases hh : l.host? a with
    | none => exact hinv
    | some h =>
      simp only
      have hmem := host?_mem l a h hh
      have hst0 : StateInv size (l.setHost { h with queue := [] }) :=
        stateInv_of_same size l _ rfl rfl hinv.st.mir hinv.st
      have hc0 : ∀ r, ExecOK size l r → ExecOK size (l.setHost { h with queue := [] }) r :=
        fun r => execOK_congr size l _ rfl rfl r
      obtain ⟨i1, i2, i3, i4⟩ := execList_inv size a h.queue _ hst0 (fun r hr => hc0 r (hinv.queues h hmem r hr))
      refine ⟨i1, (by rw [i4]; exact hinv.ids), ?_, ?_, ?_⟩
      · intro x hx r hr
        obtain ⟨y, hy, e⟩ := i3 x hx
        rw [e] at hr
        apply i2; apply hc0
        rcases mem_setHost _ _ y hy with rfl | hym
        · simp at hr
        · exact hinv.queues y hym r hr
      · rw [i4]; exact fun p hp r hr => i2 r (hc0 r (hinv.reqs p hp r hr))
      · rw [i4]; exact fun p hp r hr => i2 r (hc0 r (hinv.out p hp r hr))
  | hostLocal h h' hmem hq =>
    refine ⟨stateInv_of_same size l _ rfl rfl hinv.st.mir hinv.st, hinv.ids, ?_,
      fun p hp r hr => execOK_congr size l _ rfl rfl r (hinv.reqs p hp r hr),
      fun p hp r hr => execOK_congr size l _ rfl rfl r (hinv.out p hp r hr)⟩
    intro x hx r hr
    apply execOK_congr size l _ rfl rfl
    rcases mem_setHost _ _ x hx with rfl | hm
    · exact hinv.queues h hmem r (hq r hr)
    · exact hinv.queues x hm r hr

/-- reflexive-transitive closure of `Step` -/
inductive Steps (size : Nat → Nat) : Loop → Loop → Prop
  | refl (l : Loop) : Steps size l l
  | tail (l l' l'' : Loop) : Steps size l l' → Step size l' l'' → Steps size l l''

theorem steps_inv (size : Nat → Nat) (l l' : Loop) (hinv : SysInv size l) (hs : Steps size l l') : SysInv size l' := by
  induction hs with
  | refl => exact hinv
  | tail l' l'' _ hstep ih => exact step_inv size l' l'' ih hstep

/-- C02: in every state the closed loop can reach — through any number of reports (with lost replies), scheduling
    rounds with any draws and orders, executions, crashes, restarts and catch-ups — every membership any Raft group
    has ever had has distinct replica ids, no two members on one NodeHost, and between `size` and `size + 1` members -/
theorem C02_reachable_groups_wf (size : Nat → Nat) (l l' : Loop) (hinv : SysInv size l) (hs : Steps size l l') :
    ∀ g ∈ l'.groups, ∀ m ∈ g.hist, (m.members.map (·.1)).Nodup ∧ (m.members.map (·.2)).Nodup ∧
      size g.shard ≤ m.members.length ∧ m.members.length ≤ size g.shard + 1 := by
  intro g hg m hm
  have := ((steps_inv size l l' hinv hs).st.wf g hg).2 m hm
  exact ⟨this.ids, this.addrs, this.lower, this.upper⟩

/-- and Drummer's views never invent members: each view equals the group's own membership at the view's version -/
theorem C02_reachable_views_mirror (size : Nat → Nat) (l l' : Loop) (hinv : SysInv size l) (hs : Steps size l l') :
    ∀ c ∈ l'.db.image.shards, c.Mirrors l'.H := fun c hc => ((steps_inv size l l' hinv hs).st.mir c hc).1

#print axioms step_inv
#print axioms C02_reachable_groups_wf
#print axioms C02_reachable_views_mirror
end Drummer
