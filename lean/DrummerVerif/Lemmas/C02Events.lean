import DrummerVerif.Lemmas.C02
/-! C02: the model's concrete events are `Step`s, and the invariant is satisfiable -/
namespace Drummer

theorem foldl_queue (f : Host → SimReplica → Host) (hf : ∀ hh r, (f hh r).queue = hh.queue) :
    ∀ (rs : List SimReplica) (h0 : Host), (rs.foldl f h0).queue = h0.queue := by
  intro rs
  induction rs with
  | nil => intro h0; rfl
  | cons r rest ih => intro h0; simp only [List.foldl_cons]; rw [ih, hf]

theorem progress_step (size : Nat → Nat) (l : Loop) (a : Addr) (all : Bool) :
    Step size l (l.progress a all) ∨ l.progress a all = l := by
  unfold Loop.progress
  cases hh : l.host? a with
  | none => right; rfl
  | some h =>
    left
    simp only
    apply Step.hostLocal l h _ (host?_mem l a h hh)
    intro r hr
    rw [foldl_queue] at hr
    · exact hr
    · intro hh0 r0
      split
      · rfl
      · split
        · rfl
        · split <;> rfl

theorem crash_step (size : Nat → Nat) (l : Loop) (a : Addr) : Step size l (l.crash a) ∨ l.crash a = l := by
  unfold Loop.crash
  cases hh : l.host? a with
  | none => right; rfl
  | some h => left; exact Step.hostLocal l h _ (host?_mem l a h hh) (fun r hr => by simp at hr)

theorem restart_step (size : Nat → Nat) (l : Loop) (a : Addr) : Step size l (l.restart a) ∨ l.restart a = l := by
  unfold Loop.restart
  cases hh : l.host? a with
  | none => right; rfl
  | some h => left; exact Step.hostLocal l h _ (host?_mem l a h hh) (fun r hr => hr)

/-- a replica that applied its own removal stopping (dragonboat's behaviour, `Loop.settle`) is a `Step` -/
theorem settle_step (size : Nat → Nat) (l : Loop) (a : Addr) : Step size l (l.settle a) ∨ l.settle a = l := by
  unfold Loop.settle
  cases hh : l.host? a with
  | none => right; rfl
  | some h => left; exact Step.hostLocal l h _ (host?_mem l a h hh) (fun r hr => hr)

theorem find?_map_replace_host (a : Addr) (h' : Host) (ha : h'.addr = a) : ∀ (hs : List Host) (h : Host),
    hs.find? (·.addr == a) = some h →
    (hs.map fun x => if x.addr == h'.addr then h' else x).find? (·.addr == a) = some h' := by
  intro hs
  induction hs with
  | nil => intro h hf; simp at hf
  | cons x xs ih =>
    intro h hf
    simp only [List.map_cons, List.find?_cons] at hf ⊢
    by_cases hx : (x.addr == a) = true
    · have hx' : (x.addr == h'.addr) = true := by rw [ha]; exact hx
      have ha' : (h'.addr == a) = true := by simp [ha]
      simp only [hx', if_true, ha']
    · have hxf : (x.addr == a) = false := by simpa using hx
      have hx' : (x.addr == h'.addr) = false := by rw [ha]; exact hxf
      simp only [hxf] at hf
      simp only [hx', Bool.false_eq_true, if_false, hxf]
      exact ih h hf

theorem host?_setHost (l : Loop) (a : Addr) (h h' : Host) (hh : l.host? a = some h) (ha : h'.addr = a) :
    (l.setHost h').host? a = some h' := by
  unfold Loop.setHost Loop.host?
  exact find?_map_replace_host a h' ha l.hosts h hh

/-- what `settle` achieves: afterwards no replica running on the host has applied its own removal (the group
    histories are untouched by `settle`, so the test means the same before and after) -/
theorem settle_spec (l : Loop) (a : Addr) (h : Host) (hh : l.host? a = some h) :
    (l.settle a).groups = l.groups ∧
    ∀ h', (l.settle a).host? a = some h' → ∀ r ∈ h'.running, l.appliedOwnRemoval r = false := by
  unfold Loop.settle
  simp only [hh]
  refine ⟨rfl, ?_⟩
  intro h' hh' r hr
  have ha : h.addr = a := by
    have := List.find?_some hh
    simpa using this
  have key := host?_setHost l a h { h with running := h.running.filter fun r => !l.appliedOwnRemoval r } hh ha
  rw [key] at hh'
  cases hh'
  simp only [List.mem_filter, Bool.not_eq_true'] at hr
  exact hr.2

theorem tick_step_db (size : Nat → Nat) (l : Loop) (db' : DB) (n : Nat) (h : l.db.applyTick = .ok (db', n)) :
    Step size l { l with db := db' } := by
  unfold DB.applyTick at h
  simp only at h
  split at h
  · cases h
  · cases h; exact Step.dbLocal l _ rfl rfl rfl

theorem kv_step_db (size : Nat → Nat) (l : Loop) (kv : KVRec) (db' : DB) (n : Nat) (h : l.db.applyKV kv = .ok (db', n)) :
    Step size l { l with db := db' } := by
  unfold DB.applyKV at h
  split at h
  · cases h
  · split at h
    · cases h; exact Step.dbLocal l _ rfl rfl rfl
    · split at h
      · cases h; exact Step.dbLocal l _ rfl rfl rfl
      · split at h <;> (cases h; exact Step.dbLocal l _ rfl rfl rfl)

theorem shard_step_db (size : Nat → Nat) (l : Loop) (c : ShardDef) (db' : DB) (n : Nat) (h : l.db.applyShard c = .ok (db', n)) :
    Step size l { l with db := db' } := by
  unfold DB.applyShard at h
  split at h
  · cases h
  · split at h
    · cases h
    · split at h
      · cases h; exact Step.dbLocal l _ rfl rfl rfl
      · split at h <;> (cases h; exact Step.dbLocal l _ rfl rfl rfl)

/-- non-vacuity: every freshly launched fleet — well-formed single-membership groups, one per shard, nothing queued,
    nothing pending, Drummer has not heard from anyone yet — satisfies the invariant -/
theorem sysInv_fresh (size : Nat → Nat) (l : Loop) (hwf : l.GroupsWF size) (hone : ∀ g ∈ l.groups, g.hist.length = 1)
    (hsh : ∀ g ∈ l.groups, ∀ g' ∈ l.groups, g.shard = g'.shard → g = g')
    (hver : ∀ g ∈ l.groups, ∀ m ∈ g.hist, m.ver ≤ l.nextVer) (hq : ∀ x ∈ l.hosts, x.queue = [])
    (hreq : l.db.requests = []) (hout : l.db.outgoing = []) (himg : l.db.image.shards = []) : SysInv size l := by
  refine ⟨⟨hwf, ?_, hsh, hver, by rw [himg]; intro c hc; simp at hc⟩, (by rw [himg]; intro c hc; simp at hc), ?_, ?_, ?_⟩
  · intro g hg m hm m' hm' _
    have h1 := hone g hg
    match hgh : g.hist, h1 with
    | [x], _ => rw [hgh] at hm hm'; simp at hm hm'; rw [hm, hm']
  · intro x hx r hr; rw [hq x hx] at hr; simp at hr
  · rw [hreq]; intro p hp; simp at hp
  · rw [hout]; intro p hp; simp at hp

/-- the state before anything happened — any hosts with empty queues, no groups, an empty replicated state — satisfies
    the invariant; so `C02_reachable_groups_wf` covers every run from a cold start, launch included -/
theorem sysInv_cold (size : Nat → Nat) (l : Loop) (hg : l.groups = []) (hq : ∀ x ∈ l.hosts, x.queue = [])
    (hreq : l.db.requests = []) (hout : l.db.outgoing = []) (himg : l.db.image.shards = []) : SysInv size l :=
  sysInv_fresh size l (by intro g h; rw [hg] at h; simp at h) (by intro g h; rw [hg] at h; simp at h)
    (by intro g h; rw [hg] at h; simp at h) (by intro g h; rw [hg] at h; simp at h) hq hreq hout himg

/-- a concrete instance: three hosts, one shard of size three, launched -/
def demoLoop : Loop :=
  { hosts := [{ addr := "a", running := [⟨1, 1, 0⟩], data := [((1, 1), 0)] },
              { addr := "b", running := [⟨1, 2, 0⟩], data := [((1, 2), 0)] },
              { addr := "c", running := [⟨1, 3, 0⟩], data := [((1, 3), 0)] }, { addr := "d" }],
    groups := [{ shard := 1, hist := [{ ver := 1, members := [(1, "a"), (2, "b"), (3, "c")], removed := [] }] }],
    nextVer := 1 }

example : SysInv (fun _ => 3) demoLoop := by
  apply sysInv_fresh
  · intro g hg
    simp only [demoLoop, List.mem_singleton] at hg
    subst hg
    refine ⟨by simp, ?_⟩
    intro m hm
    simp only [List.mem_singleton] at hm
    subst hm
    exact ⟨by decide, by decide, by decide, by decide⟩
  · intro g hg; simp only [demoLoop, List.mem_singleton] at hg; subst hg; rfl
  · intro g hg g' hg' _; simp only [demoLoop, List.mem_singleton] at hg hg'; rw [hg, hg']
  · intro g hg m hm; simp only [demoLoop, List.mem_singleton] at hg; subst hg
    simp only [List.mem_singleton] at hm; subst hm; decide
  · intro x hx; simp only [demoLoop, List.mem_cons, List.not_mem_nil, or_false] at hx
    rcases hx with rfl | rfl | rfl | rfl <;> rfl
  · rfl
  · rfl
  · rfl

#print axioms progress_step
#print axioms sysInv_fresh
end Drummer
