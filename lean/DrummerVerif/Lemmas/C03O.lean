import DrummerVerif.Lemmas.C10
/-! C03 prototype, `order_irrelevance` for the per-key assignment loop over a Go map (db.go:297-308): whatever order the
    grouped batches are visited in, every lookup in the resulting pending map is the same -/
namespace Drummer

theorem amGet_perm {ν : Type} : ∀ {g g' : List (Addr × ν)}, g.Perm g' → (g.map (·.1)).Nodup → ∀ a, amGet g a = amGet g' a := by
  intro g g' hp
  induction hp with
  | nil => intro _ _; rfl
  | cons x _ ih =>
    intro hnd a
    simp only [List.map_cons, List.nodup_cons] at hnd
    rw [amGet_cons, amGet_cons, ih hnd.2 a]
  | swap x y l =>
    intro hnd a
    simp only [List.map_cons, List.nodup_cons, List.mem_cons, not_or] at hnd
    rw [amGet_cons, amGet_cons, amGet_cons, amGet_cons]
    by_cases h1 : x.1 = a <;> by_cases h2 : y.1 = a
    · exact absurd (h2.trans h1.symm) hnd.1.1
    · simp [h1, h2]
    · simp [h1, h2]
    · simp [h1, h2]
  | trans h1 _ ih1 ih2 =>
    intro hnd a
    rw [ih1 hnd a]
    exact ih2 ((h1.map (·.1)).nodup_iff.mp hnd) a

/-- the merge loop visits the grouped batches in Go map order; the pending map it produces is the same map (same
    lookup for every address) for every visiting order -/
theorem merge_order_irrelevant (g g' m : List (Addr × List Request)) (hp : g.Perm g') (hnd : (g.map (·.1)).Nodup) (a : Addr) :
    amGet (g.foldl (fun m (p : Addr × List Request) => amPut m p.1 p.2) m) a =
    amGet (g'.foldl (fun m (p : Addr × List Request) => amPut m p.1 p.2) m) a := by
  rw [amGet_merge g m a hnd, amGet_merge g' m a ((hp.map (·.1)).nodup_iff.mp hnd), amGet_perm hp hnd a]

#print axioms merge_order_irrelevant
end Drummer
