import DrummerVerif.Lemmas.ImageInv
/-! C04 prototype: the view mirrors the membership history -/
namespace Drummer

/-- a linear membership history: shard → version → members -/
abbrev Hist := Nat → Nat → List (Nat × Addr)

def Shard.pairs (c : Shard) : List (Nat × Addr) := c.replicas.map fun r => (r.replicaId, r.address)

/-- well-formedness of a history: per version, ids are distinct; an id keeps its address across versions -/
structure Hist.WF (H : Hist) : Prop where
  nodup : ∀ s v, ((H s v).map (·.1)).Nodup
  stable : ∀ s v v' id a a', (id, a) ∈ H s v → (id, a') ∈ H s v' → a = a'

/-- a complete report entry is consistent with the history -/
def ShardInfo.Consistent (H : Hist) (ci : ShardInfo) : Prop :=
  (ci.replicas.map (·.1)).Nodup ∧ ∀ p, p ∈ ci.replicas ↔ p ∈ H ci.shardId ci.cci

/-- the view of one shard mirrors the history at its own version, with distinct replica ids -/
structure Shard.Mirrors (H : Hist) (c : Shard) : Prop where
  nodup : (c.replicas.map (·.replicaId)).Nodup
  same : ∀ p, p ∈ c.pairs ↔ p ∈ H c.shardId c.cci

theorem getShard_mirrors (H : Hist) (ci : ShardInfo) (t : Nat) (hc : ci.Consistent H) : (getShard ci t).Mirrors H := by
  constructor
  · have : (getShard ci t).replicas.map (·.replicaId) = ci.replicas.map (·.1) := by
      unfold getShard
      simp only [List.map_map]
      apply List.map_congr_left
      intro p _; rfl
    rw [this]; exact hc.1
  · intro p
    have : (getShard ci t).pairs = ci.replicas := by
      unfold Shard.pairs getShard
      simp only [List.map_map]
      conv => rhs; rw [← List.map_id ci.replicas]
      apply List.map_congr_left
      intro p _; rfl
    rw [this]
    exact hc.2 p

theorem list_find?_eq_some_of_mem : ∀ (l : List Replica), (l.map (·.replicaId)).Nodup → ∀ r ∈ l,
    l.find? (·.replicaId == r.replicaId) = some r := by
  intro l
  induction l with
  | nil => intro _ r hr; simp at hr
  | cons x xs ih =>
    intro hnd r hr
    simp only [List.map_cons, List.nodup_cons] at hnd
    rcases List.mem_cons.mp hr with rfl | hm
    · simp [List.find?]
    · have hne : x.replicaId ≠ r.replicaId := by
        intro he; apply hnd.1; rw [he]; exact List.mem_map_of_mem hm
      have hb : (x.replicaId == r.replicaId) = false := by simpa using hne
      simp only [List.find?, hb]
      exact ih hnd.2 r hm

theorem find?_eq_some_of_mem (c : Shard) (hnd : (c.replicas.map (·.replicaId)).Nodup) (r : Replica) (hr : r ∈ c.replicas) :
    c.find? r.replicaId = some r := list_find?_eq_some_of_mem c.replicas hnd r hr

theorem find?_none_iff (c : Shard) (rid : Nat) : c.find? rid = none ↔ ∀ r ∈ c.replicas, r.replicaId ≠ rid := by
  unfold Shard.find?
  simp [List.find?_eq_none]

theorem find?_some_mem (c : Shard) (rid : Nat) (r : Replica) (h : c.find? rid = some r) : r ∈ c.replicas ∧ r.replicaId = rid := by
  unfold Shard.find? at h
  exact ⟨List.mem_of_find?_eq_some h, by simpa using List.find?_some h⟩

/-- the result of a successful, not rejected `syncShard`, in closed form -/
theorem sync_ok_form (c c' : Shard) (ci : ShardInfo) (t : Nat) (rej : Bool) (hle : ¬ c.cci > ci.cci)
    (hs : c.sync ci t = .ok (rej, c')) :
    rej = false ∧
    c' = { c with cci := ci.cci, replicas :=
      c.replicas.filter (fun n => ci.replicas.any (fun (p : Nat × Addr) => p.1 == n.replicaId)) ++
      (ci.replicas.filter (fun (p : Nat × Addr) => (c.find? p.1).isNone)).map (fun (p : Nat × Addr) =>
        ({ shardId := ci.shardId, replicaId := p.1, address := p.2, firstObserved := t } : Replica)) } ∧
    (∀ p ∈ ci.replicas, ∀ n, c.find? p.1 = some n → n.address = p.2) := by
  unfold Shard.sync at hs
  simp only [hle, if_false] at hs
  split at hs
  · cases hs
  · split at hs
    · cases hs
    · split at hs
      · cases hs
      · rename_i haddr
        split at hs
        · cases hs
        · cases hs
          refine ⟨rfl, rfl, ?_⟩
          intro p hp n hn
          apply Classical.byContradiction
          intro hne
          apply haddr
          apply List.any_eq_true.mpr
          refine ⟨p, hp, ?_⟩
          obtain ⟨rid, a⟩ := p
          simp only at hn hne ⊢
          simp [hn, hne]

theorem sync_mirrors (H : Hist) (c c' : Shard) (ci : ShardInfo) (t : Nat) (rej : Bool)
    (hm : c.Mirrors H) (hc : ci.Consistent H) (hid : c.shardId = ci.shardId)
    (hs : c.sync ci t = .ok (rej, c')) :
    c'.Mirrors H ∧ c'.shardId = c.shardId ∧ c'.cci = max c.cci ci.cci := by
  by_cases hgt : c.cci > ci.cci
  · unfold Shard.sync at hs
    simp only [hgt, if_true] at hs
    cases hs
    exact ⟨hm, rfl, by omega⟩
  · obtain ⟨_, hform, haddr'⟩ := sync_ok_form c c' ci t rej hgt hs
    subst hform
    refine ⟨?_, rfl, by show ci.cci = max c.cci ci.cci; omega⟩
    constructor
    · -- distinct ids
      simp only [List.map_append, List.map_map]
      apply List.nodup_append.mpr
      refine ⟨?_, ?_, ?_⟩
      · exact hm.nodup.sublist (List.Sublist.map _ List.filter_sublist)
      · have : ((ci.replicas.filter (fun (p : Nat × Addr) => (c.find? p.1).isNone)).map
            ((fun r : Replica => r.replicaId) ∘ fun (p : Nat × Addr) =>
              ({ shardId := ci.shardId, replicaId := p.1, address := p.2, firstObserved := t } : Replica))) =
            (ci.replicas.filter (fun (p : Nat × Addr) => (c.find? p.1).isNone)).map (·.1) := by
          apply List.map_congr_left; intro p _; rfl
        rw [this]
        exact hc.1.sublist (List.Sublist.map _ List.filter_sublist)
      · intro a ha b hb
        simp only [List.mem_map, List.mem_filter, Function.comp] at ha hb
        obtain ⟨r, ⟨hr, _⟩, rfl⟩ := ha
        obtain ⟨p, ⟨_, hnone⟩, rfl⟩ := hb
        intro he
        have := (find?_none_iff c p.1).mp (by simpa using hnone) r hr
        exact this he
    · -- same pairs as the reported (hence the historical) membership
      intro p
      simp only [Shard.pairs, List.map_append, List.map_map, List.mem_append, List.mem_map, List.mem_filter,
        Function.comp]
      rw [hid, ← hc.2 p]
      constructor
      · rintro (⟨r, ⟨hr, hany⟩, rfl⟩ | ⟨q, ⟨hq, _⟩, rfl⟩)
        · obtain ⟨q, hq, hqe⟩ := List.any_eq_true.mp hany
          have hqe' : q.1 = r.replicaId := by simpa using hqe
          have hfind := find?_eq_some_of_mem c hm.nodup r hr
          have := haddr' q hq r (hqe' ▸ hfind)
          have : q = (r.replicaId, r.address) := by
            cases q; simp_all
          rw [← this]; exact hq
        · exact hq
      · intro hp
        cases hf : c.find? p.1 with
        | none => right; exact ⟨p, ⟨hp, by simp [hf]⟩, rfl⟩
        | some r =>
          left
          obtain ⟨hr, hrid⟩ := find?_some_mem c p.1 r hf
          refine ⟨r, ⟨hr, List.any_eq_true.mpr ⟨p, hp, by simp [hrid]⟩⟩, ?_⟩
          have := haddr' p hp r hf
          cases p; simp_all

/-- changing only ticks / leader flags of the replicas keeps the mirror property -/
theorem mirrors_map (H : Hist) (c : Shard) (f : Replica → Replica)
    (hf : ∀ r, (f r).replicaId = r.replicaId ∧ (f r).address = r.address) (hm : c.Mirrors H) :
    ({ c with replicas := c.replicas.map f } : Shard).Mirrors H := by
  constructor
  · have : (c.replicas.map f).map (·.replicaId) = c.replicas.map (·.replicaId) := by
      rw [List.map_map]; apply List.map_congr_left; intro r _; exact (hf r).1
    show ((c.replicas.map f).map (·.replicaId)).Nodup
    rw [this]; exact hm.nodup
  · intro p
    have : ({ c with replicas := c.replicas.map f } : Shard).pairs = c.pairs := by
      unfold Shard.pairs
      simp only [List.map_map]
      apply List.map_congr_left; intro r _
      simp [(hf r).1, (hf r).2]
    rw [this]; exact hm.same p

theorem updateNodeTick_mirrors (H : Hist) (nhi : NodeHostInfo) : ∀ (mc : MultiShard),
    (∀ c ∈ mc.shards, c.Mirrors H) → ∀ c ∈ (updateNodeTick mc nhi).shards, c.Mirrors H := by
  unfold updateNodeTick
  induction nhi.shardInfo with
  | nil => intro mc h; exact h
  | cons ci rest ih =>
    intro mc h
    simp only [List.foldl_cons]
    apply ih
    cases hf : mc.find? ci.shardId with
    | none => simpa using h
    | some ec =>
      simp only
      split
      · intro c hc
        rcases (mem_put _ _ _).mp hc with rfl | ⟨hm, _⟩
        · apply mirrors_map H ec _ _ (h ec (find?_mem _ _ _ hf).1)
          intro r; split <;> exact ⟨rfl, rfl⟩
        · exact h c hm
      · exact h

theorem syncLeaderInfo_mirrors (H : Hist) (nhi : NodeHostInfo) : ∀ (mc : MultiShard),
    (∀ c ∈ mc.shards, c.Mirrors H) → ∀ c ∈ (syncLeaderInfo mc nhi).shards, c.Mirrors H := by
  unfold syncLeaderInfo
  induction nhi.shardInfo with
  | nil => intro mc h; exact h
  | cons ci rest ih =>
    intro mc h
    simp only [List.foldl_cons]
    apply ih
    cases hf : mc.find? ci.shardId with
    | none => simpa using h
    | some ec =>
      simp only
      split
      · exact h
      · split
        · exact h
        · split
          · intro c hc
            rcases (mem_put _ _ _).mp hc with rfl | ⟨hm, _⟩
            · apply mirrors_map H ec _ _ (h ec (find?_mem _ _ _ hf).1)
              intro r; split <;> exact ⟨rfl, rfl⟩
            · exact h c hm
          · split
            · intro c hc
              rcases (mem_put _ _ _).mp hc with rfl | ⟨hm, _⟩
              · exact mirrors_map H ec _ (fun r => ⟨rfl, rfl⟩) (h ec (find?_mem _ _ _ hf).1)
              · exact h c hm
            · exact h

/-- C04 core: processing any report whose complete entries are consistent with the membership history keeps every
    view equal to the history at the view's own version -/
theorem update_mirrors (H : Hist) (mc mc' : MultiShard) (nhi : NodeHostInfo)
    (hinv : ∀ c ∈ mc.shards, c.Mirrors H)
    (hcons : ∀ ci ∈ nhi.shardInfo, ¬ (ci.pending || ci.incomplete) = true → ci.Consistent H)
    (h : mc.update nhi = .ok mc') : ∀ c ∈ mc'.shards, c.Mirrors H := by
  unfold MultiShard.update at h
  cases hl : doUpdateLoop nhi.lastTick mc nhi.shardInfo [] with
  | panic w => simp [hl, bind] at h
  | ok p =>
    obtain ⟨mc1, toKill⟩ := p
    simp only [hl, bind, pure] at h
    cases h
    have h1 : ∀ c ∈ mc1.shards, c.Mirrors H :=
      doUpdateLoop_inv (fun c => c.Mirrors H) nhi.lastTick nhi.shardInfo mc mc1 [] toKill
        (fun ci hci hp => getShard_mirrors H ci _ (hcons ci hci hp))
        (fun ci hci hp c rej c' hid hq hs => (sync_mirrors H c c' ci _ rej hq (hcons ci hci hp) hid hs).1)
        hinv hl
    apply syncLeaderInfo_mirrors
    intro c hc
    have := updateNodeTick_mirrors H nhi mc1 h1
    exact this c hc

#print axioms sync_mirrors
#print axioms update_mirrors
end Drummer
