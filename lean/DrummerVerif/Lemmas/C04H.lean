import DrummerVerif.Lemmas.C04
import DrummerVerif.Lemmas.C05L
/-! C04 over histories: the view's version of a shard is the highest version carried by a complete report so far,
    and the view mirrors the membership history at that version -/
namespace Drummer

def ShardInfo.complete (ci : ShardInfo) : Prop := ¬ (ci.pending || ci.incomplete) = true

/-- every view of `mc` has a view of the same shard in `mc'` whose version is not lower -/
def Covers (mc mc' : MultiShard) : Prop :=
  ∀ c ∈ mc.shards, ∃ c' ∈ mc'.shards, c'.shardId = c.shardId ∧ c.cci ≤ c'.cci

theorem Covers.refl (mc : MultiShard) : Covers mc mc := fun c hc => ⟨c, hc, rfl, Nat.le_refl _⟩
theorem Covers.trans {a b c : MultiShard} (h1 : Covers a b) (h2 : Covers b c) : Covers a c := by
  intro x hx
  obtain ⟨y, hy, hid, hle⟩ := h1 x hx
  obtain ⟨z, hz, hid2, hle2⟩ := h2 y hy
  exact ⟨z, hz, hid2.trans hid, Nat.le_trans hle hle2⟩

theorem sync_cci (c c' : Shard) (ci : ShardInfo) (t : Nat) (rej : Bool) (hs : c.sync ci t = .ok (rej, c')) :
    c'.shardId = c.shardId ∧ c.cci ≤ c'.cci ∧ ci.cci ≤ c'.cci ∧ (c'.cci = c.cci ∨ c'.cci = ci.cci) := by
  by_cases h1 : c.cci > ci.cci
  · unfold Shard.sync at hs
    simp only [h1, if_true] at hs; cases hs
    exact ⟨rfl, Nat.le_refl _, Nat.le_of_lt h1, Or.inl rfl⟩
  · obtain ⟨_, hform, _⟩ := sync_ok_form c c' ci t rej h1 hs
    subst hform
    exact ⟨rfl, Nat.le_of_not_gt h1, Nat.le_refl _, Or.inr rfl⟩

theorem find?_none_ne (mc : MultiShard) (sid : Nat) (h : mc.find? sid = none) : ∀ c ∈ mc.shards, c.shardId ≠ sid := by
  unfold MultiShard.find? at h
  intro c hc
  have := List.find?_eq_none.mp h c hc
  simpa using this

/-- one loop iteration never lowers a version or drops a view, and a complete entry is covered afterwards -/
theorem doUpdate1_covers (t : Nat) (mc mc' : MultiShard) (ci : ShardInfo) (k : Bool) (hu : UniqueShards mc)
    (h : doUpdate1 t mc ci = .ok (mc', k)) :
    Covers mc mc' ∧ (ci.complete → ∃ c' ∈ mc'.shards, c'.shardId = ci.shardId ∧ ci.cci ≤ c'.cci) := by
  unfold doUpdate1 at h
  cases hf : mc.find? ci.shardId with
  | none =>
    simp only [hf] at h
    by_cases hp : (ci.pending || ci.incomplete) = true
    · simp only [hp, if_true] at h; cases h
      exact ⟨Covers.refl _, fun hc => absurd hp hc⟩
    · simp only [hp] at h; cases h
      refine ⟨fun c hc => ⟨c, (mem_put _ _ _).mpr (Or.inr ⟨hc, ?_⟩), rfl, Nat.le_refl _⟩,
              fun _ => ⟨getShard ci t, (mem_put _ _ _).mpr (Or.inl rfl), rfl, Nat.le_refl _⟩⟩
      exact find?_none_ne mc ci.shardId hf c hc
  | some ec =>
    simp only [hf] at h
    obtain ⟨hec, hecid⟩ := find?_mem mc ci.shardId ec hf
    by_cases hp : (ci.pending || ci.incomplete) = true
    · simp only [hp, if_true] at h; cases h
      exact ⟨Covers.refl _, fun hc => absurd hp hc⟩
    · simp only [hp] at h
      cases hs : ec.sync ci t with
      | panic w => simp [hs] at h
      | ok p =>
        obtain ⟨rej, ec'⟩ := p
        simp only [hs] at h; cases h
        obtain ⟨hid, hle1, hle2, _⟩ := sync_cci ec ec' ci t rej hs
        refine ⟨fun c hc => ?_, fun _ => ⟨ec', (mem_put _ _ _).mpr (Or.inl rfl), hid.trans hecid, hle2⟩⟩
        by_cases hcid : c.shardId = ec'.shardId
        · have : c = ec := hu c hc ec hec (hcid.trans hid)
          subst this
          exact ⟨ec', (mem_put _ _ _).mpr (Or.inl rfl), hid, hle1⟩
        · exact ⟨c, (mem_put _ _ _).mpr (Or.inr ⟨hc, hcid⟩), rfl, Nat.le_refl _⟩

theorem doUpdateLoop_covers (t : Nat) : ∀ (infos : List ShardInfo) (mc mc' : MultiShard) (acc out : List ShardInfo),
    UniqueShards mc → doUpdateLoop t mc infos acc = .ok (mc', out) →
    Covers mc mc' ∧ ∀ ci ∈ infos, ci.complete → ∃ c' ∈ mc'.shards, c'.shardId = ci.shardId ∧ ci.cci ≤ c'.cci := by
  intro infos
  induction infos with
  | nil =>
    intro mc mc' acc out _ h
    simp [doUpdateLoop] at h; obtain ⟨rfl, _⟩ := h
    exact ⟨Covers.refl _, fun ci hci => by cases hci⟩
  | cons ci rest ih =>
    intro mc mc' acc out hu h
    unfold doUpdateLoop at h
    cases h1 : doUpdate1 t mc ci with
    | panic w => simp [h1] at h
    | ok p =>
      obtain ⟨mc1, kill⟩ := p
      simp only [h1] at h
      obtain ⟨hc1, hcov1⟩ := doUpdate1_covers t mc mc1 ci kill hu h1
      have hu1 : UniqueShards mc1 := doUpdate1_unique t mc mc1 ci kill hu h1
      obtain ⟨hc2, hcov2⟩ := ih mc1 mc' _ out hu1 h
      refine ⟨hc1.trans hc2, fun x hx hcomp => ?_⟩
      rcases List.mem_cons.mp hx with rfl | hx
      · obtain ⟨c1, hc1m, hid1, hle1⟩ := hcov1 hcomp
        obtain ⟨c2, hc2m, hid2, hle2⟩ := hc2 c1 hc1m
        exact ⟨c2, hc2m, hid2.trans hid1, Nat.le_trans hle1 hle2⟩
      · exact hcov2 x hx hcomp


/-- the only way the two post-passes of `update` (stamping, leader flags) touch the image: replace the replica list of
    a view that is there, keeping its id and version -/
def SameStep (mc mc' : MultiShard) : Prop :=
  mc' = mc ∨ ∃ ec rs, mc.find? ec.shardId = some ec ∧ mc' = mc.put { ec with replicas := rs }

theorem sameStep_covers (mc mc' : MultiShard) (hu : UniqueShards mc) (h : SameStep mc mc') :
    Covers mc mc' ∧ UniqueShards mc' ∧ (∀ c' ∈ mc'.shards, ∃ c ∈ mc.shards, c.shardId = c'.shardId ∧ c.cci = c'.cci) := by
  rcases h with rfl | ⟨ec, rs, hf, rfl⟩
  · exact ⟨Covers.refl _, hu, fun c hc => ⟨c, hc, rfl, rfl⟩⟩
  · obtain ⟨hec, _⟩ := find?_mem mc ec.shardId ec hf
    refine ⟨fun c hc => ?_, put_unique mc _ hu, fun c' hc' => ?_⟩
    · by_cases hcid : c.shardId = ec.shardId
      · have : c = ec := hu c hc ec hec hcid
        subst this
        exact ⟨_, (mem_put _ _ _).mpr (Or.inl rfl), rfl, Nat.le_refl _⟩
      · exact ⟨c, (mem_put _ _ _).mpr (Or.inr ⟨hc, hcid⟩), rfl, Nat.le_refl _⟩
    · rcases (mem_put _ _ _).mp hc' with rfl | ⟨hm, _⟩
      · exact ⟨ec, hec, rfl, rfl⟩
      · exact ⟨c', hm, rfl, rfl⟩

theorem foldl_sameStep (f : MultiShard → ShardInfo → MultiShard) (hf : ∀ mc ci, SameStep mc (f mc ci)) :
    ∀ (infos : List ShardInfo) (mc : MultiShard), UniqueShards mc →
      Covers mc (infos.foldl f mc) ∧ UniqueShards (infos.foldl f mc) ∧
      (∀ c' ∈ (infos.foldl f mc).shards, ∃ c ∈ mc.shards, c.shardId = c'.shardId ∧ c.cci = c'.cci) := by
  intro infos
  induction infos with
  | nil => intro mc hu; exact ⟨Covers.refl _, hu, fun c hc => ⟨c, hc, rfl, rfl⟩⟩
  | cons ci rest ih =>
    intro mc hu
    simp only [List.foldl_cons]
    obtain ⟨h1, hu1, hb1⟩ := sameStep_covers mc (f mc ci) hu (hf mc ci)
    obtain ⟨h2, hu2, hb2⟩ := ih (f mc ci) hu1
    refine ⟨h1.trans h2, hu2, fun c' hc' => ?_⟩
    obtain ⟨c1, hc1, hid1, hcc1⟩ := hb2 c' hc'
    obtain ⟨c0, hc0, hid0, hcc0⟩ := hb1 c1 hc1
    exact ⟨c0, hc0, hid0.trans hid1, hcc0.trans hcc1⟩

theorem updateNodeTick_sameStep (nhi : NodeHostInfo) (mc : MultiShard) (ci : ShardInfo) :
    SameStep mc (match mc.find? ci.shardId with
      | some ec =>
        if ec.replicas.any (·.replicaId == ci.replicaId) then
          mc.put { ec with replicas := ec.replicas.map fun n =>
            if n.replicaId == ci.replicaId then { n with tick := nhi.lastTick } else n }
        else mc
      | none => mc) := by
  cases hf : mc.find? ci.shardId with
  | none => exact Or.inl rfl
  | some ec =>
    simp only
    split
    · obtain ⟨_, hid⟩ := find?_mem mc ci.shardId ec hf
      exact Or.inr ⟨ec, _, by rw [hid]; exact hf, rfl⟩
    · exact Or.inl rfl

theorem syncLeaderInfo_sameStep (mc : MultiShard) (ci : ShardInfo) :
    SameStep mc (match mc.find? ci.shardId with
      | none => mc
      | some c =>
        if c.cci > ci.cci then mc else
        match c.find? ci.replicaId with
        | none => mc
        | some n =>
          if !ci.isLeader && n.isLeader then
            mc.put { c with replicas := c.replicas.map fun r =>
              if r.replicaId == ci.replicaId then { r with isLeader := false } else r }
          else if ci.isLeader && !n.isLeader then
            mc.put { c with replicas := c.replicas.map fun r =>
              { r with isLeader := r.replicaId == ci.replicaId } }
          else mc) := by
  cases hf : mc.find? ci.shardId with
  | none => exact Or.inl rfl
  | some c =>
    obtain ⟨_, hid⟩ := find?_mem mc ci.shardId c hf
    have hf' : mc.find? c.shardId = some c := by rw [hid]; exact hf
    simp only
    split
    · exact Or.inl rfl
    · cases c.find? ci.replicaId with
      | none => exact Or.inl rfl
      | some n =>
        simp only
        split
        · exact Or.inr ⟨c, _, hf', rfl⟩
        · split
          · exact Or.inr ⟨c, _, hf', rfl⟩
          · exact Or.inl rfl

theorem updateNodeTick_covers (mc : MultiShard) (nhi : NodeHostInfo) (hu : UniqueShards mc) :
    Covers mc (updateNodeTick mc nhi) ∧ UniqueShards (updateNodeTick mc nhi) := by
  unfold updateNodeTick
  obtain ⟨a, b, _⟩ := foldl_sameStep _ (updateNodeTick_sameStep nhi) nhi.shardInfo mc hu
  exact ⟨a, b⟩

theorem syncLeaderInfo_covers (mc : MultiShard) (nhi : NodeHostInfo) (hu : UniqueShards mc) :
    Covers mc (syncLeaderInfo mc nhi) ∧ UniqueShards (syncLeaderInfo mc nhi) := by
  unfold syncLeaderInfo
  obtain ⟨a, b, _⟩ := foldl_sameStep _ syncLeaderInfo_sameStep nhi.shardInfo mc hu
  exact ⟨a, b⟩

/-- the two post-passes with any kill-list rewrite in between -/
theorem postPasses_covers (mc1 : MultiShard) (nhi : NodeHostInfo) (K : List KillEntry) (hu1 : UniqueShards mc1) :
    Covers mc1 (syncLeaderInfo { updateNodeTick mc1 nhi with toKill := K } nhi) ∧
    UniqueShards (syncLeaderInfo { updateNodeTick mc1 nhi with toKill := K } nhi) := by
  obtain ⟨hc2, hu2⟩ := updateNodeTick_covers mc1 nhi hu1
  have hu3 : UniqueShards { updateNodeTick mc1 nhi with toKill := K } := hu2
  have hc3 : Covers mc1 { updateNodeTick mc1 nhi with toKill := K } := hc2
  obtain ⟨hc4, hu4⟩ := syncLeaderInfo_covers _ nhi hu3
  exact ⟨hc3.trans hc4, hu4⟩

/-- one report: no version is lowered, no view dropped, every complete entry is covered afterwards -/
theorem update_covers (mc mc' : MultiShard) (nhi : NodeHostInfo) (hu : UniqueShards mc) (h : mc.update nhi = .ok mc') :
    Covers mc mc' ∧ UniqueShards mc' ∧
    (∀ ci ∈ nhi.shardInfo, ci.complete → ∃ c' ∈ mc'.shards, c'.shardId = ci.shardId ∧ ci.cci ≤ c'.cci) := by
  unfold MultiShard.update at h
  cases hl : doUpdateLoop nhi.lastTick mc nhi.shardInfo [] with
  | panic w => simp [hl, bind] at h
  | ok p =>
    obtain ⟨mc1, toKill⟩ := p
    simp only [hl, bind, pure, Outcome.ok.injEq] at h
    obtain ⟨hc1, hcov1⟩ := doUpdateLoop_covers nhi.lastTick nhi.shardInfo mc mc1 [] toKill hu hl
    have hu1 : UniqueShards mc1 := doUpdateLoop_unique nhi.lastTick nhi.shardInfo mc mc1 [] toKill hu hl
    obtain ⟨hc24, hu4⟩ := postPasses_covers mc1 nhi _ hu1
    rw [h] at hc24 hu4
    refine ⟨hc1.trans hc24, hu4, fun ci hci hcomp => ?_⟩
    obtain ⟨c1, hm1, hid1, hle1⟩ := hcov1 ci hci hcomp
    obtain ⟨c4, hm4, hid4, hle4⟩ := hc24 c1 hm1
    exact ⟨c4, hm4, hid4.trans hid1, Nat.le_trans hle1 hle4⟩


/-! ### one command of the DB, then whole histories -/

/-- what a command does to the image: nothing, or the update by a report stamped with the current time -/
theorem apply_image_cases (d d' : DB) (c : Cmd) (n : Nat) (h : d.apply c = .ok (d', n)) :
    d'.image = d.image ∨ ∃ nhi, c = .report nhi ∧ d.image.update { nhi with lastTick := d.tick } = .ok d'.image := by
  unfold DB.apply at h
  by_cases hfail : d.failed = true
  · simp [hfail] at h
  · simp only [hfail] at h
    cases c with
    | tick =>
      simp only at h
      cases ht : d.applyTick with
      | panic w => simp [ht] at h
      | ok p =>
        simp only [ht] at h; cases h
        unfold DB.applyTick at ht
        simp only at ht
        split at ht
        · cases ht
        · cases ht; exact Or.inl rfl
    | shard sc => exact Or.inl (applyShard_image d d' sc n h)
    | kv rec => exact Or.inl (applyKV_image d d' rec n h)
    | report nhi => exact Or.inr ⟨nhi, rfl, applyReport_image d d' nhi n h⟩
    | requests rs =>
      exact Or.inl (applyRequests_frame (fun _ => True) d d' rs n h (fun _ _ _ _ => trivial) (fun _ _ => trivial)).1

/-- a complete entry of version `v` for shard `s` occurs in a report of the history -/
def SeenIn (cs : List Cmd) (s v : Nat) : Prop :=
  ∃ nhi ci, Cmd.report nhi ∈ cs ∧ ci ∈ nhi.shardInfo ∧ ci.complete ∧ ci.shardId = s ∧ ci.cci = v

/-- one report preserves any predicate on (shard id, version) that holds of the old views and of the report's
    complete entries -/
theorem update_seen (P : Nat → Nat → Prop) (mc mc' : MultiShard) (nhi : NodeHostInfo)
    (hinv : ∀ c ∈ mc.shards, P c.shardId c.cci) (hrep : ∀ ci ∈ nhi.shardInfo, ci.complete → P ci.shardId ci.cci)
    (h : mc.update nhi = .ok mc') : ∀ c ∈ mc'.shards, P c.shardId c.cci := by
  unfold MultiShard.update at h
  cases hl : doUpdateLoop nhi.lastTick mc nhi.shardInfo [] with
  | panic w => simp [hl, bind] at h
  | ok p =>
    obtain ⟨mc1, toKill⟩ := p
    simp only [hl, bind, pure] at h
    cases h
    have h1 : ∀ c ∈ mc1.shards, P c.shardId c.cci :=
      doUpdateLoop_inv (fun c => P c.shardId c.cci) nhi.lastTick nhi.shardInfo mc mc1 [] toKill
        (fun ci hci hc => hrep ci hci hc)
        (fun ci hci hc c rej c' hid hq hs => by
          obtain ⟨hid', _, _, hor⟩ := sync_cci c c' ci _ rej hs
          rcases hor with e | e
          · rw [hid', e]; exact hq
          · rw [hid', e, hid]; exact hrep ci hci hc)
        hinv hl
    apply syncLeaderInfo_inv (fun c => P c.shardId c.cci) (fun _ _ _ h => h)
    intro c hc
    exact updateNodeTick_inv (fun c => P c.shardId c.cci) (fun _ _ _ h => h) nhi mc1 h1 c hc

/-- every view's version is one that a complete report of the history carried -/
theorem history_seen : ∀ (cs : List Cmd) (d d' : DB), runCmds d cs = .ok d' → ∀ (P : Nat → Nat → Prop),
    (∀ c ∈ d.image.shards, P c.shardId c.cci) → (∀ s v, SeenIn cs s v → P s v) →
    ∀ c ∈ d'.image.shards, P c.shardId c.cci := by
  intro cs
  induction cs with
  | nil => intro d d' h P hinv _; simp [runCmds] at h; subst h; exact hinv
  | cons c cs ih =>
    intro d d' h P hinv hseen
    unfold runCmds at h
    cases ha : d.apply c with
    | panic w => simp [ha] at h
    | ok p =>
      obtain ⟨d1, n⟩ := p
      simp only [ha] at h
      refine ih d1 d' h P ?_ (fun s v ⟨nhi, ci, hm, x⟩ => hseen s v ⟨nhi, ci, List.mem_cons_of_mem _ hm, x⟩)
      rcases apply_image_cases d d1 c n ha with e | ⟨nhi, rfl, hu⟩
      · rw [e]; exact hinv
      · exact update_seen P d.image d1.image { nhi with lastTick := d.tick } hinv
          (fun ci hci hc => hseen _ _ ⟨nhi, ci, List.mem_cons_self .., hci, hc, rfl, rfl⟩) hu

/-- no version is ever lowered, no view dropped, and every complete entry of the history is covered at the end -/
theorem history_covers : ∀ (cs : List Cmd) (d d' : DB), runCmds d cs = .ok d' → UniqueShards d.image →
    Covers d.image d'.image ∧ ∀ s v, SeenIn cs s v → ∃ c ∈ d'.image.shards, c.shardId = s ∧ v ≤ c.cci := by
  intro cs
  induction cs with
  | nil =>
    intro d d' h _
    simp [runCmds] at h; subst h
    exact ⟨Covers.refl _, fun s v ⟨_, _, hm, _⟩ => by cases hm⟩
  | cons c cs ih =>
    intro d d' h hu
    unfold runCmds at h
    cases ha : d.apply c with
    | panic w => simp [ha] at h
    | ok p =>
      obtain ⟨d1, n⟩ := p
      simp only [ha] at h
      have hu1 : UniqueShards d1.image := apply_unique d d1 c n ha hu
      obtain ⟨hc2, hcov2⟩ := ih d1 d' h hu1
      have step : Covers d.image d1.image ∧
          ∀ nhi, c = .report nhi → ∀ ci ∈ nhi.shardInfo, ci.complete → ∃ x ∈ d1.image.shards, x.shardId = ci.shardId ∧ ci.cci ≤ x.cci := by
        rcases apply_image_cases d d1 c n ha with e | ⟨nhi, rfl, hup⟩
        · rw [e]
          refine ⟨Covers.refl _, fun nhi hn ci hci hcomp => ?_⟩
          subst hn
          have hup := applyReport_image d d1 nhi n (by
            unfold DB.apply at ha
            by_cases hfail : d.failed = true
            · simp [hfail] at ha
            · simpa [hfail] using ha)
          obtain ⟨_, _, hcov⟩ := update_covers d.image d1.image _ hu hup
          rw [e] at hcov
          exact hcov ci hci hcomp
        · obtain ⟨hc, _, hcov⟩ := update_covers d.image d1.image _ hu hup
          refine ⟨hc, fun nhi' hn ci hci hcomp => ?_⟩
          cases hn
          exact hcov ci hci hcomp
      refine ⟨step.1.trans hc2, fun s v ⟨nhi, ci, hm, hci, hcomp, hs, hv⟩ => ?_⟩
      rcases List.mem_cons.mp hm with e | hm
      · obtain ⟨x, hx, hid, hle⟩ := step.2 nhi e.symm ci hci hcomp
        obtain ⟨y, hy, hid2, hle2⟩ := hc2 x hx
        exact ⟨y, hy, by rw [hid2, hid, hs], by rw [← hv]; exact Nat.le_trans hle hle2⟩
      · exact hcov2 s v ⟨nhi, ci, hm, hci, hcomp, hs, hv⟩

/-- **C04, over histories**: after any command history applied to the empty DB (any number of reports - stale,
    duplicated, reordered, partial, pending - interleaved with anything else), for every view: its version is the
    version of some complete report entry of the history for that shard, and no complete entry of the history for
    that shard carries a higher one - i.e. it is the highest membership version seen so far; and every shard that has
    a complete entry has a view -/
theorem view_version_is_max_seen (cs : List Cmd) (d : DB) (h : runCmds {} cs = .ok d) :
    (∀ c ∈ d.image.shards, SeenIn cs c.shardId c.cci ∧ ∀ v, SeenIn cs c.shardId v → v ≤ c.cci) ∧
    (∀ s v, SeenIn cs s v → ∃ c ∈ d.image.shards, c.shardId = s) := by
  have hu0 : UniqueShards ({} : DB).image := fun c hc => by simp at hc
  have hu : UniqueShards d.image := unique_history cs {} d h hu0
  obtain ⟨_, hcov⟩ := history_covers cs {} d h hu0
  have hseen := history_seen cs {} d h (SeenIn cs) (fun c hc => by simp at hc) (fun _ _ x => x)
  refine ⟨fun c hc => ⟨hseen c hc, fun v hv => ?_⟩, fun s v hv => ?_⟩
  · obtain ⟨c2, hc2, hid, hle⟩ := hcov c.shardId v hv
    have : c2 = c := hu c2 hc2 c hc hid
    subst this; exact hle
  · obtain ⟨c2, hc2, hid, _⟩ := hcov s v hv
    exact ⟨c2, hc2, hid⟩


/-- every complete entry of every report of the history is consistent with the membership history `H` -/
def ConsistentWith (H : Hist) (cs : List Cmd) : Prop :=
  ∀ nhi ci, Cmd.report nhi ∈ cs → ci ∈ nhi.shardInfo → ci.complete → ci.Consistent H

theorem history_mirrors (H : Hist) : ∀ (cs : List Cmd) (d d' : DB), runCmds d cs = .ok d' →
    (∀ c ∈ d.image.shards, c.Mirrors H) → ConsistentWith H cs → ∀ c ∈ d'.image.shards, c.Mirrors H := by
  intro cs
  induction cs with
  | nil => intro d d' h hinv _; simp [runCmds] at h; subst h; exact hinv
  | cons c cs ih =>
    intro d d' h hinv hcons
    unfold runCmds at h
    cases ha : d.apply c with
    | panic w => simp [ha] at h
    | ok p =>
      obtain ⟨d1, n⟩ := p
      simp only [ha] at h
      refine ih d1 d' h ?_ (fun nhi ci hm => hcons nhi ci (List.mem_cons_of_mem _ hm))
      rcases apply_image_cases d d1 c n ha with e | ⟨nhi, rfl, hu⟩
      · rw [e]; exact hinv
      · exact update_mirrors H d.image d1.image { nhi with lastTick := d.tick } hinv
          (fun ci hci hc => hcons nhi ci List.mem_cons_self hci hc) hu

/-- **C04 `view_mirrors_max`**: after any history of commands whose complete report entries are consistent with a
    linear membership history `H` (every replica may report any version it could have seen, stale, duplicated,
    reordered, partial or pending, from any host, interleaved with ticks and anything else), Drummer's view of every
    shard carries the HIGHEST version among the complete entries seen so far for that shard and exactly the membership
    `H` has at that version (ids and addresses, ids distinct) -/
theorem view_mirrors_max (H : Hist) (cs : List Cmd) (d : DB) (h : runCmds {} cs = .ok d) (hcons : ConsistentWith H cs) :
    ∀ c ∈ d.image.shards,
      SeenIn cs c.shardId c.cci ∧ (∀ v, SeenIn cs c.shardId v → v ≤ c.cci) ∧
      (∀ p, p ∈ c.pairs ↔ p ∈ H c.shardId c.cci) ∧ (c.replicas.map (·.replicaId)).Nodup := by
  intro c hc
  obtain ⟨h1, _⟩ := view_version_is_max_seen cs d h
  have hm := history_mirrors H cs {} d h (fun c hc => by simp at hc) hcons c hc
  exact ⟨(h1 c hc).1, (h1 c hc).2, hm.same, hm.nodup⟩

end Drummer
