import DrummerVerif.Lemmas.ImageInv
import DrummerVerif.Lemmas.C04H
/-!
# C04: at most one replica per shard is marked leader — for every history of reports, well-formed or not

`Shard.Lead`: any two members of a view that are marked leader carry the same replica id. Established by the view
created from a report, preserved by the merge of a newer membership (members that stay keep their flag, new members start
unflagged), by the stamping pass and by the leader pass (a demotion removes a flag, a promotion leaves exactly the
promoted id flagged). No assumption on the reports. With distinct member ids (`Shard.WF`, which holds of every view
that mirrors a membership) that is "at most one flagged member" (`lead_count_le_one`).
-/
namespace Drummer

def Shard.Lead (c : Shard) : Prop :=
  ∀ r1 ∈ c.replicas, ∀ r2 ∈ c.replicas, r1.isLeader = true → r2.isLeader = true → r1.replicaId = r2.replicaId

theorem getShard_lead (ci : ShardInfo) (t : Nat) : (getShard ci t).Lead := by
  intro r1 h1 r2 h2 l1 l2
  unfold getShard at h1 h2
  simp only [List.mem_map] at h1 h2
  obtain ⟨p1, _, rfl⟩ := h1
  obtain ⟨p2, _, rfl⟩ := h2
  simp only [Bool.and_eq_true, beq_iff_eq] at l1 l2
  simp only
  rw [l1.1, l2.1]

theorem sync_lead (c c' : Shard) (ci : ShardInfo) (t : Nat) (rej : Bool) (hq : c.Lead)
    (hs : c.sync ci t = .ok (rej, c')) : c'.Lead := by
  unfold Shard.sync at hs
  by_cases h1 : c.cci > ci.cci
  · simp only [h1, if_true] at hs; cases hs; exact hq
  · simp only [h1, if_false] at hs
    split at hs
    · cases hs
    · split at hs
      · cases hs
      · split at hs
        · cases hs
        · split at hs
          · cases hs
          · cases hs
            -- a flagged member of the merged view is a member that stayed
            have key : ∀ r, r ∈ (c.replicas.filter (fun n => ci.replicas.any (fun (rid, _) => rid == n.replicaId))) ++
                ((ci.replicas.filter (fun (rid, _) => (c.find? rid).isNone)).map fun (rid, a) =>
                  ({ shardId := ci.shardId, replicaId := rid, address := a, firstObserved := t } : Replica)) →
                r.isLeader = true → r ∈ c.replicas := by
              intro r hr hl
              simp only [List.mem_append, List.mem_filter, List.mem_map] at hr
              rcases hr with ⟨hm, _⟩ | ⟨p, _, rfl⟩
              · exact hm
              · simp at hl
            intro r1 hr1 r2 hr2 l1 l2
            exact hq r1 (key r1 hr1 l1) r2 (key r2 hr2 l2) l1 l2

/-- a pass that rewrites the members of one view at a time keeps a per-view predicate that each rewrite keeps -/
theorem foldl_views_inv (Q : Shard → Prop) (f : MultiShard → ShardInfo → MultiShard)
    (hf : ∀ mc ci, (∀ c ∈ mc.shards, Q c) → ∀ c ∈ (f mc ci).shards, Q c) :
    ∀ (infos : List ShardInfo) (mc : MultiShard), (∀ c ∈ mc.shards, Q c) → ∀ c ∈ (infos.foldl f mc).shards, Q c := by
  intro infos
  induction infos with
  | nil => intro mc h; exact h
  | cons ci rest ih => intro mc h; simp only [List.foldl_cons]; exact ih _ (hf mc ci h)

theorem lead_map (c : Shard) (f : Replica → Replica) (hid : ∀ r, (f r).replicaId = r.replicaId)
    (hl : ∀ r, (f r).isLeader = true → r.isLeader = true) (hq : c.Lead) :
    ({ c with replicas := c.replicas.map f } : Shard).Lead := by
  intro r1 h1 r2 h2 l1 l2
  simp only [List.mem_map] at h1 h2
  obtain ⟨a1, ha1, rfl⟩ := h1
  obtain ⟨a2, ha2, rfl⟩ := h2
  rw [hid, hid]
  exact hq a1 ha1 a2 ha2 (hl a1 l1) (hl a2 l2)

theorem updateNodeTick_lead (mc : MultiShard) (nhi : NodeHostInfo) (h : ∀ c ∈ mc.shards, c.Lead) :
    ∀ c ∈ (updateNodeTick mc nhi).shards, c.Lead := by
  unfold updateNodeTick
  apply foldl_views_inv Shard.Lead _ _ nhi.shardInfo mc h
  intro mc ci hinv
  cases hf : mc.find? ci.shardId with
  | none => simpa [hf] using hinv
  | some ec =>
    simp only [hf]
    split
    · intro c hc
      rcases (mem_put _ _ _).mp hc with rfl | ⟨hm, _⟩
      · apply lead_map ec _ _ _ (hinv ec (find?_mem _ _ _ hf).1)
        · intro r; split <;> rfl
        · intro r; split <;> exact id
      · exact hinv c hm
    · exact hinv

theorem syncLeaderInfo_lead (mc : MultiShard) (nhi : NodeHostInfo) (h : ∀ c ∈ mc.shards, c.Lead) :
    ∀ c ∈ (syncLeaderInfo mc nhi).shards, c.Lead := by
  unfold syncLeaderInfo
  apply foldl_views_inv Shard.Lead _ _ nhi.shardInfo mc h
  intro mc ci hinv
  cases hf : mc.find? ci.shardId with
  | none => simpa [hf] using hinv
  | some c0 =>
    simp only [hf]
    split
    · exact hinv
    · cases hn : c0.find? ci.replicaId with
      | none => simpa [hn] using hinv
      | some n =>
        simp only [hn]
        split
        · -- demotion
          intro c hc
          rcases (mem_put _ _ _).mp hc with rfl | ⟨hm, _⟩
          · apply lead_map c0 _ _ _ (hinv c0 (find?_mem _ _ _ hf).1)
            · intro r; split <;> rfl
            · intro r; split
              · intro hc2; simp at hc2
              · exact id
          · exact hinv c hm
        · split
          · -- promotion: exactly the promoted id is flagged
            intro c hc
            rcases (mem_put _ _ _).mp hc with rfl | ⟨hm, _⟩
            · intro r1 h1 r2 h2 l1 l2
              simp only [List.mem_map] at h1 h2
              obtain ⟨a1, _, rfl⟩ := h1
              obtain ⟨a2, _, rfl⟩ := h2
              simp only [beq_iff_eq] at l1 l2
              simp only
              rw [l1, l2]
            · exact hinv c hm
          · exact hinv

/-- one report keeps "at most one leader id per view" -/
theorem update_lead (mc mc' : MultiShard) (nhi : NodeHostInfo) (hinv : ∀ c ∈ mc.shards, c.Lead)
    (h : mc.update nhi = .ok mc') : ∀ c ∈ mc'.shards, c.Lead := by
  unfold MultiShard.update at h
  cases hl : doUpdateLoop nhi.lastTick mc nhi.shardInfo [] with
  | panic w => simp [hl, bind] at h
  | ok p =>
    obtain ⟨mc1, toKill⟩ := p
    simp only [hl, bind, pure, Outcome.ok.injEq] at h
    have h1 : ∀ c ∈ mc1.shards, c.Lead :=
      doUpdateLoop_inv Shard.Lead nhi.lastTick nhi.shardInfo mc mc1 [] toKill
        (fun ci _ _ => getShard_lead ci nhi.lastTick)
        (fun ci _ _ c rej c' _ hq hs => sync_lead c c' ci nhi.lastTick rej hq hs) hinv hl
    have h2 := updateNodeTick_lead mc1 nhi h1
    rw [← h]
    exact syncLeaderInfo_lead _ nhi (fun c hc => h2 c hc)

/-- **C04, at most one leader, over every history**: whatever sequence of commands the DB has applied — reports stale,
    duplicated, reordered, partial, pending, malformed — in every view all members marked leader carry one replica id -/
theorem history_lead : ∀ (cs : List Cmd) (d d' : DB), runCmds d cs = .ok d' → (∀ c ∈ d.image.shards, c.Lead) →
    ∀ c ∈ d'.image.shards, c.Lead := by
  intro cs
  induction cs with
  | nil => intro d d' h hinv; simp [runCmds] at h; rw [← h]; exact hinv
  | cons c rest ih =>
    intro d d' h hinv
    unfold runCmds at h
    cases ha : d.apply c with
    | panic w => simp [ha] at h
    | ok p =>
      obtain ⟨d1, n⟩ := p
      simp only [ha] at h
      apply ih d1 d' h
      rcases apply_image_cases d d1 c n ha with heq | ⟨nhi, _, hu⟩
      · rw [heq]; exact hinv
      · exact update_lead d.image d1.image _ hinv hu

theorem at_most_one_leader_id (cs : List Cmd) (d : DB) (h : runCmds {} cs = .ok d) : ∀ c ∈ d.image.shards, c.Lead :=
  history_lead cs {} d h (fun c hc => by simp at hc)

/-- with distinct member ids, "one leader id" is "at most one flagged member" -/
theorem lead_count_le_one (c : Shard) (hwf : (c.replicas.map (·.replicaId)).Nodup) (hl : c.Lead) :
    (c.replicas.filter (·.isLeader)).length ≤ 1 := by
  have hnd : ((c.replicas.filter (·.isLeader)).map (·.replicaId)).Nodup :=
    (List.Sublist.map _ List.filter_sublist).nodup hwf
  cases hf : c.replicas.filter (·.isLeader) with
  | nil => simp
  | cons a t =>
    cases t with
    | nil => simp
    | cons b t2 =>
      exfalso
      have ha : a ∈ c.replicas.filter (·.isLeader) := by rw [hf]; simp
      have hb : b ∈ c.replicas.filter (·.isLeader) := by rw [hf]; simp
      have := hl a (List.mem_filter.mp ha).1 b (List.mem_filter.mp hb).1 (List.mem_filter.mp ha).2 (List.mem_filter.mp hb).2
      rw [hf] at hnd
      simp only [List.map_cons, List.nodup_cons, List.mem_cons, not_or] at hnd
      exact hnd.1.1 this

#print axioms update_lead
#print axioms at_most_one_leader_id
#print axioms lead_count_le_one
end Drummer

/-! ## the time a member was first seen survives the merge of a newer membership, and the two passes after it -/
namespace Drummer

/-- one merge (`syncShard`): a member of the old view that is a member of the new one keeps its first-seen time (and its
    whole record); only members the old view did not have are given the current time -/
theorem sync_keeps_first_observed (c c' : Shard) (ci : ShardInfo) (t : Nat) (rej : Bool)
    (hwf : (c.replicas.map (·.replicaId)).Nodup) (hs : c.sync ci t = .ok (rej, c')) :
    ∀ r ∈ c.replicas, ∀ r' ∈ c'.replicas, r'.replicaId = r.replicaId → r' = r := by
  unfold Shard.sync at hs
  by_cases h1 : c.cci > ci.cci
  · simp only [h1, if_true] at hs
    cases hs
    intro r hr r' hr' hid
    have h1 := list_find?_eq_some_of_mem c.replicas hwf r hr
    have h2 := list_find?_eq_some_of_mem c.replicas hwf r' hr'
    rw [hid] at h2
    rw [h1] at h2
    cases h2; rfl
  · simp only [h1, if_false] at hs
    split at hs
    · cases hs
    · split at hs
      · cases hs
      · split at hs
        · cases hs
        · split at hs
          · cases hs
          · cases hs
            intro r hr r' hr' hid
            simp only [List.mem_append, List.mem_filter, List.mem_map] at hr'
            rcases hr' with ⟨hm, _⟩ | ⟨p, hp, rfl⟩
            · have h1 := list_find?_eq_some_of_mem c.replicas hwf r hr
              have h2 := list_find?_eq_some_of_mem c.replicas hwf r' hm
              rw [hid] at h2
              rw [h1] at h2
              cases h2; rfl
            · -- an added member has an id the old view does not know
              exfalso
              simp only [List.mem_filter, Option.isNone_iff_eq_none] at hp
              have := (find?_none_iff c p.1).mp hp.2 r hr
              exact this hid.symm

/-- the stamping pass and the leader pass rewrite report times and leader flags only -/
theorem updateNodeTick_first_observed (mc : MultiShard) (nhi : NodeHostInfo) :
    ∀ c' ∈ (updateNodeTick mc nhi).shards, ∃ c ∈ mc.shards, c.shardId = c'.shardId ∧ c.cci = c'.cci ∧
      c'.replicas.map (fun r => (r.replicaId, r.address, r.firstObserved)) =
        c.replicas.map (fun r => (r.replicaId, r.address, r.firstObserved)) := by
  unfold updateNodeTick
  generalize nhi.shardInfo = infos
  induction infos generalizing mc with
  | nil => intro c' hc'; exact ⟨c', hc', rfl, rfl, rfl⟩
  | cons ci rest ih =>
    intro c' hc'
    simp only [List.foldl_cons] at hc'
    obtain ⟨c1, hc1, hid1, hcc1, hm1⟩ := ih _ c' hc'
    -- one step
    cases hf : mc.find? ci.shardId with
    | none => simp only [hf] at hc1; exact ⟨c1, hc1, hid1, hcc1, hm1⟩
    | some ec =>
      simp only [hf] at hc1
      split at hc1
      · rcases (mem_put _ _ _).mp hc1 with rfl | ⟨hm, _⟩
        · refine ⟨ec, (find?_mem _ _ _ hf).1, hid1, hcc1, ?_⟩
          rw [hm1]
          simp only [List.map_map]
          apply List.map_congr_left
          intro r _
          simp only [Function.comp]
          split <;> rfl
        · exact ⟨c1, hm, hid1, hcc1, hm1⟩
      · exact ⟨c1, hc1, hid1, hcc1, hm1⟩

#print axioms sync_keeps_first_observed
#print axioms updateNodeTick_first_observed
end Drummer
