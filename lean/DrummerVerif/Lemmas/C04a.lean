import DrummerVerif.Model.Db
namespace Drummer

/-- key uniqueness of a view's replica list -/
def Shard.WF (c : Shard) : Prop := (c.replicas.map (·.replicaId)).Nodup
def ShardInfo.WF (ci : ShardInfo) : Prop := (ci.replicas.map (·.1)).Nodup

/-- a successful sync with a strictly newer version yields exactly the reported membership,
    keeps the records (hence FirstObserved, Tick) of retained replicas and stamps new ones. -/
theorem sync_newer (c c' : Shard) (ci : ShardInfo) (t : Nat) (hwf : c.WF) (hci : ci.WF)
    (hnew : c.cci < ci.cci) (hs : c.sync ci t = .ok (false, c')) :
    c'.cci = ci.cci ∧
    (∀ n, n ∈ c'.replicas ↔
      (n ∈ c.replicas ∧ ∃ a, (n.replicaId, a) ∈ ci.replicas) ∨
      (∃ a, (n.replicaId, a) ∈ ci.replicas ∧ c.find? n.replicaId = none ∧
        n = { shardId := ci.shardId, replicaId := n.replicaId, address := a, firstObserved := t })) := by
  unfold Shard.sync at hs
  have h1 : ¬ (c.cci > ci.cci) := by omega
  have h2 : (c.cci == ci.cci) = false := by simp; omega
  simp only [h1, if_false, h2, Bool.false_and, Bool.false_eq_true] at hs
  split at hs
  · cases hs
  · split at hs
    · cases hs
    · simp only [Outcome.ok.injEq, Prod.mk.injEq, true_and] at hs
      subst hs
      refine ⟨rfl, fun n => ?_⟩
      simp only [List.mem_append, List.mem_filter, List.any_eq_true, List.mem_map, Prod.exists,
        beq_iff_eq, Option.isNone_iff_eq_none]
      constructor
      · rintro (⟨hn, a, b, hab, hb⟩ | ⟨rid, a, ⟨hra, hnone⟩, hn⟩)
        · left; exact ⟨hn, b, by rw [← hb]; exact hab⟩
        · right; subst hn; exact ⟨a, hra, hnone, rfl⟩
      · rintro (⟨hn, a, ha⟩ | ⟨a, ha, hnone, hn⟩)
        · left; exact ⟨hn, n.replicaId, a, ha, rfl⟩
        · right; exact ⟨n.replicaId, a, ⟨ha, hnone⟩, hn.symm⟩

#print axioms sync_newer
end Drummer
