import DrummerVerif.Model.Db
/-! C05 prototype on M-DB: classes, availability, tick discipline -/
namespace Drummer

def Replica.ok (n : Replica) (tick : Nat) : Bool := !n.failed tick && !n.waiting tick

theorem entityFailed_iff (l c : Nat) (h : l ≤ c) (hc : c < 18446744073709551616) :
    entityFailed l c = true ↔ c - l > nodeHostTTL := by
  unfold entityFailed usub64 nodeHostTTL
  simp only [decide_eq_true_eq]
  omega

/-- every member is in exactly one class, and the classes are what C05 says -/
theorem class_characterisation (n : Replica) (now : Nat) (h : n.tick ≤ now) (hc : now < 18446744073709551616) :
    (n.ok now = true ↔ n.tick > 0 ∧ now - n.tick ≤ nodeHostTTL) ∧
    (n.failed now = true ↔ (n.tick > 0 ∧ now - n.tick > nodeHostTTL) ∨ (n.tick = 0 ∧ n.firstObserved = 0)) ∧
    (n.waiting now = true ↔ n.tick = 0 ∧ n.firstObserved > 0) := by
  have := entityFailed_iff n.tick now h hc
  unfold Replica.ok Replica.waiting Replica.failed nodeHostTTL at *
  by_cases ht : n.tick = 0 <;> by_cases hf : n.firstObserved = 0 <;>
    by_cases he : entityFailed n.tick now = true <;> simp_all <;> omega

theorem classes_exclusive (n : Replica) (now : Nat) :
    (n.ok now && n.failed now) = false ∧ (n.ok now && n.waiting now) = false ∧ (n.failed now && n.waiting now) = false ∧
    (n.ok now || n.failed now || n.waiting now) = true := by
  unfold Replica.ok Replica.waiting
  cases n.failed now <;> cases (n.tick == 0) <;> simp

/-- the three lists of `getShardForRepair` partition the members -/
theorem classes_partition (c : Shard) (now : Nat) :
    (c.okReplicas now).length + (c.failedReplicas now).length + (c.toStart now).length = c.replicas.length := by
  unfold Shard.okReplicas Shard.failedReplicas Shard.toStart
  induction c.replicas with
  | nil => rfl
  | cons n ns ih =>
    have := classes_exclusive n now
    unfold Replica.ok at this
    simp only [List.filter_cons, List.length_cons]
    cases hf : n.failed now <;> cases hw : n.waiting now <;> simp_all <;> omega

/-- available ⇔ a strict majority of the members is healthy -/
theorem available_iff_strict_majority (c : Shard) (now : Nat) :
    c.available now = true ↔ 2 * (c.okReplicas now).length > c.replicas.length := by
  unfold Shard.available Shard.quorum
  simp only [decide_eq_true_eq]
  omega

/-- a host silent for longer than the timeout passes neither the placement nor the restore test;
    one that reported more recently than the timeout passes both -/
def HostSpec.restoreOK (h : HostSpec) (tick : Nat) : Bool := !entityFailed h.tick tick
def HostSpec.placementOK (h : HostSpec) (tick : Nat) : Bool := decide (usub64 tick h.tick < nodeHostTTL)

theorem silent_host_never_used (h : HostSpec) (now : Nat) (hle : h.tick ≤ now) (hc : now < 18446744073709551616) :
    (now - h.tick > nodeHostTTL → h.restoreOK now = false ∧ h.placementOK now = false) ∧
    (now - h.tick < nodeHostTTL → h.restoreOK now = true ∧ h.placementOK now = true) := by
  have := entityFailed_iff h.tick now hle hc
  unfold HostSpec.restoreOK HostSpec.placementOK usub64 nodeHostTTL at *
  constructor
  · intro hgt
    have : entityFailed h.tick now = true := this.mpr hgt
    simp [this]; omega
  · intro hlt
    have : ¬ entityFailed h.tick now = true := fun hh => by have := this.mp hh; omega
    simp [this]; omega

theorem applyKV_tick (d d' : DB) (kv : KVRec) (c : Nat) (h : d.applyKV kv = .ok (d', c)) : d'.tick = d.tick := by
  unfold DB.applyKV at h
  by_cases h0 : (kv.key.isEmpty || kv.value.isEmpty) = true
  · simp [h0] at h
  · simp only [h0] at h
    cases hg : kvGet d.kv kv.key with
    | none => simp only [hg] at h; cases h; rfl
    | some old =>
      simp only [hg] at h
      by_cases hf : old.finalized = true
      · simp only [hf, if_true] at h; cases h; rfl
      · simp only [hf] at h
        by_cases hc : (old.instanceId == kv.instanceId || old.instanceId == kv.oldInstanceId) = true
        · simp only [hc, if_true] at h; cases h; rfl
        · simp only [hc] at h; cases h; rfl

theorem applyShard_tick (d d' : DB) (c : ShardDef) (n : Nat) (h : d.applyShard c = .ok (d', n)) : d'.tick = d.tick := by
  unfold DB.applyShard at h
  by_cases h1 : c.members.isEmpty = true
  · simp [h1] at h
  · simp only [h1] at h
    by_cases h2 : c.appName.isEmpty = true
    · simp [h2] at h
    · simp only [h2] at h
      by_cases h3 : d.bootstrapped = true
      · simp only [h3, if_true] at h; cases h; rfl
      · simp only [h3] at h
        by_cases h4 : (d.shards.any (·.shardId == c.shardId)) = true
        · simp only [h4, if_true] at h; cases h; rfl
        · simp only [h4] at h; cases h; rfl

theorem applyRequests_tick (d d' : DB) (rs : List Request) (n : Nat) (h : d.applyRequests rs = .ok (d', n)) :
    d'.tick = d.tick := by
  unfold DB.applyRequests at h
  cases hl : isLaunchBatch rs with
  | panic w => simp [hl] at h
  | ok launch =>
    simp only [hl] at h
    by_cases h1 : (d.launched && launch) = true
    · simp only [h1, if_true] at h; cases h; rfl
    · simp only [h1] at h
      by_cases h2 : launch = true
      · simp only [h2, if_true] at h
        cases hm : (d.mergeRequests rs).markLaunched with
        | panic w => simp [hm] at h
        | ok d2 =>
          simp only [hm] at h
          cases h
          unfold DB.markLaunched at hm
          cases hk : (d.mergeRequests rs).applyKV launchedRec with
          | panic w => simp [hk] at hm
          | ok p =>
            obtain ⟨d3, code⟩ := p
            simp only [hk] at hm
            by_cases hc : (code != DBKVUpdated) = true
            · simp [hc] at hm
            · simp only [hc] at hm
              cases hm
              have := applyKV_tick _ _ _ _ hk
              simpa [DB.mergeRequests] using this
      · simp only [h2] at h; cases h; rfl

theorem applyReport_tick (d d' : DB) (nhi : NodeHostInfo) (n : Nat) (h : d.applyReport nhi = .ok (d', n)) :
    d'.tick = d.tick := by
  unfold DB.applyReport at h
  cases hv : d.reportView nhi with
  | panic w => simp [hv] at h
  | ok d1 =>
    simp only [hv] at h
    cases h
    have h1 : d1.tick = d.tick := by
      unfold DB.reportView at hv
      cases hu : d.image.update { nhi with lastTick := d.tick } with
      | panic w => simp [hu] at hv
      | ok image => simp only [hu] at hv; cases hv; rfl
    have h2 : (d1.moveRequests nhi.raftAddress).1.tick = d1.tick := by
      unfold DB.moveRequests; split <;> rfl
    have h3 : ∀ x : DB, x.onUpdatedShardInfo.tick = x.tick := by
      intro x; unfold DB.onUpdatedShardInfo; split <;> rfl
    rw [h3, h2, h1]

/-- logical time advances only in `tick`, by exactly one step -/
theorem tick_step (d d' : DB) (c : Cmd) (n : Nat) (h : d.apply c = .ok (d', n)) :
    match c with
    | .tick => d'.tick = d.tick + tickInterval
    | _ => d'.tick = d.tick := by
  unfold DB.apply at h
  by_cases hf : d.failed = true
  · simp [hf] at h
  · simp only [hf] at h
    cases c with
    | tick =>
      simp only at h ⊢
      cases ht : d.applyTick with
      | panic w => simp [ht] at h
      | ok p =>
        simp only [ht] at h
        cases h
        unfold DB.applyTick at ht
        simp only at ht
        by_cases hd : (decide (d.launchDeadline > 0) && decide (d.tick + tickInterval > d.launchDeadline)) = true
        · simp [hd] at ht
        · simp only [hd] at ht
          cases ht; rfl
    | shard c => exact applyShard_tick d d' c n h
    | kv r => exact applyKV_tick d d' r n h
    | report nhi => exact applyReport_tick d d' nhi n h
    | requests rs => exact applyRequests_tick d d' rs n h

#print axioms tick_step
#print axioms class_characterisation
#print axioms classes_partition
#print axioms silent_host_never_used
end Drummer
