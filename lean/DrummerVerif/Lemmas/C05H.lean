import DrummerVerif.Lemmas.LoopSys
import DrummerVerif.Lemmas.C05
import DrummerVerif.Lemmas.C13H
/-! C05 prototype, lifted to histories: `stored_le_now` — in every reachable state every stored tick is ≤ `DB.Tick`,
    so the uint64 subtractions of the classification never wrap and `class_characterisation` applies unconditionally -/
namespace Drummer

/-- the only ways `update` rewrites a replica after the loop: stamp its tick with the report's, or set its leader flag -/
def Touch (t : Nat) (f : Replica → Replica) : Prop :=
  ∀ r, f r = r ∨ f r = { r with tick := t } ∨ ∃ b, f r = { r with isLeader := b }

theorem updateNodeTick_inv' (Q : Shard → Prop) (nhi : NodeHostInfo)
    (hmap : ∀ (c : Shard) (f : Replica → Replica), Touch nhi.lastTick f → Q c → Q { c with replicas := c.replicas.map f }) :
    ∀ (mc : MultiShard), (∀ c ∈ mc.shards, Q c) → ∀ c ∈ (updateNodeTick mc nhi).shards, Q c := by
  unfold updateNodeTick
  induction nhi.shardInfo with
  | nil => intro mc h; exact h
  | cons ci rest ih =>
    intro mc h
    simp only [List.foldl_cons]
    apply ih
    cases hf : mc.find? ci.shardId with
    | none => simpa using h
    | some ec =>
      simp only
      split
      · intro c hc
        rcases (mem_put _ _ _).mp hc with rfl | ⟨hm, _⟩
        · exact hmap ec _ (fun r => by split; exact Or.inr (Or.inl rfl); exact Or.inl rfl) (h ec (find?_mem _ _ _ hf).1)
        · exact h c hm
      · exact h

theorem syncLeaderInfo_inv' (Q : Shard → Prop) (nhi : NodeHostInfo) (t : Nat)
    (hmap : ∀ (c : Shard) (f : Replica → Replica), Touch t f → Q c → Q { c with replicas := c.replicas.map f }) :
    ∀ (mc : MultiShard), (∀ c ∈ mc.shards, Q c) → ∀ c ∈ (syncLeaderInfo mc nhi).shards, Q c := by
  unfold syncLeaderInfo
  induction nhi.shardInfo with
  | nil => intro mc h; exact h
  | cons ci rest ih =>
    intro mc h
    simp only [List.foldl_cons]
    apply ih
    cases hf : mc.find? ci.shardId with
    | none => simpa using h
    | some ec =>
      simp only
      split
      · exact h
      · split
        · exact h
        · split
          · intro c hc
            rcases (mem_put _ _ _).mp hc with rfl | ⟨hm, _⟩
            · exact hmap ec _ (fun r => by split; exact Or.inr (Or.inr ⟨_, rfl⟩); exact Or.inl rfl) (h ec (find?_mem _ _ _ hf).1)
            · exact h c hm
          · split
            · intro c hc
              rcases (mem_put _ _ _).mp hc with rfl | ⟨hm, _⟩
              · exact hmap ec _ (fun r => Or.inr (Or.inr ⟨_, rfl⟩)) (h ec (find?_mem _ _ _ hf).1)
              · exact h c hm
            · exact h

theorem ticksLe_touch (t : Nat) (c : Shard) (f : Replica → Replica) (hf : Touch t f) (hc : c.ticksLe t) :
    Shard.ticksLe t { c with replicas := c.replicas.map f } := by
  intro r hr
  simp only [List.mem_map] at hr
  obtain ⟨x, hx, rfl⟩ := hr
  rcases hf x with e | e | ⟨b, e⟩ <;> rw [e]
  · exact hc x hx
  · exact ⟨Nat.le_refl _, (hc x hx).2⟩
  · exact hc x hx

theorem update_ticksLe (mc mc' : MultiShard) (nhi : NodeHostInfo) (hinv : ∀ c ∈ mc.shards, c.ticksLe nhi.lastTick)
    (h : mc.update nhi = .ok mc') : ∀ c ∈ mc'.shards, c.ticksLe nhi.lastTick := by
  unfold MultiShard.update at h
  cases hl : doUpdateLoop nhi.lastTick mc nhi.shardInfo [] with
  | panic w => simp [hl, bind] at h
  | ok p =>
    obtain ⟨mc1, toKill⟩ := p
    simp only [hl, bind, pure] at h
    cases h
    have h1 : ∀ c ∈ mc1.shards, c.ticksLe nhi.lastTick :=
      doUpdateLoop_inv (Shard.ticksLe nhi.lastTick) nhi.lastTick nhi.shardInfo mc mc1 [] toKill
        (fun ci _ _ => getShard_ticksLe ci _)
        (fun ci _ _ c rej c' _ hq hs => sync_ticksLe c c' ci _ rej hq hs)
        hinv hl
    apply syncLeaderInfo_inv' (Shard.ticksLe nhi.lastTick) nhi nhi.lastTick (ticksLe_touch nhi.lastTick)
    intro c hc
    exact updateNodeTick_inv' (Shard.ticksLe nhi.lastTick) nhi (ticksLe_touch nhi.lastTick) mc1 h1 c hc

theorem ticksLe_mono (c : Shard) (t t' : Nat) (h : t ≤ t') (hc : c.ticksLe t) : c.ticksLe t' :=
  fun r hr => ⟨Nat.le_trans (hc r hr).1 h, Nat.le_trans (hc r hr).2 h⟩

theorem applyShard_image (d d' : DB) (c : ShardDef) (n : Nat) (h : d.applyShard c = .ok (d', n)) : d'.image = d.image := by
  unfold DB.applyShard at h
  split at h
  · cases h
  · split at h
    · cases h
    · split at h
      · cases h; rfl
      · split at h <;> (cases h; rfl)

theorem applyKV_image (d d' : DB) (kv : KVRec) (n : Nat) (h : d.applyKV kv = .ok (d', n)) : d'.image = d.image := by
  unfold DB.applyKV at h
  split at h
  · cases h
  · split at h
    · cases h; rfl
    · split at h
      · cases h; rfl
      · split at h <;> (cases h; rfl)

def DB.TicksOK (d : DB) : Prop := ∀ c ∈ d.image.shards, c.ticksLe d.tick

theorem apply_ticksOK (d d' : DB) (c : Cmd) (n : Nat) (h : d.apply c = .ok (d', n)) (hok : d.TicksOK) : d'.TicksOK := by
  unfold DB.apply at h
  by_cases hfail : d.failed = true
  · simp [hfail] at h
  · simp only [hfail] at h
    unfold DB.TicksOK at *
    cases c with
    | tick =>
      simp only at h
      cases ht : d.applyTick with
      | panic w => simp [ht] at h
      | ok p =>
        simp only [ht] at h; cases h
        unfold DB.applyTick at ht
        simp only at ht
        split at ht
        · cases ht
        · cases ht
          intro c hc
          exact ticksLe_mono c d.tick _ (Nat.le_add_right _ _) (hok c hc)
    | shard sc => rw [applyShard_image d d' sc n h, applyShard_tick d d' sc n h]; exact hok
    | kv rec => rw [applyKV_image d d' rec n h, applyKV_tick d d' rec n h]; exact hok
    | report nhi =>
      have himg := applyReport_image d d' nhi n h
      have ht := applyReport_tick d d' nhi n h
      rw [ht]
      exact update_ticksLe d.image d'.image { nhi with lastTick := d.tick } hok himg
    | requests rs =>
      obtain ⟨e1, _, _⟩ := applyRequests_frame (fun _ => True) d d' rs n h (fun _ _ _ _ => trivial) (fun _ _ => trivial)
      rw [e1, applyRequests_tick d d' rs n h]; exact hok

/-- C05 `stored_le_now`: after any history from the empty DB, every tick stored in any view is ≤ `DB.Tick` -/
theorem stored_le_now : ∀ (cs : List Cmd) (d d' : DB), runCmds d cs = .ok d' → d.TicksOK → d'.TicksOK := by
  intro cs
  induction cs with
  | nil => intro d d' h hok; simp [runCmds] at h; subst h; exact hok
  | cons c cs ih =>
    intro d d' h hok
    unfold runCmds at h
    cases ha : d.apply c with
    | panic w => simp [ha] at h
    | ok p =>
      obtain ⟨d1, n⟩ := p
      simp only [ha] at h
      exact ih d1 d' h (apply_ticksOK d d1 c n ha hok)

#print axioms stored_le_now
end Drummer
