import DrummerVerif.Lemmas.Unlisted
/-! C05 prototype: the per-report law of the liveness record at the level of the replicated state, in every reachable
    state -/
namespace Drummer

theorem apply_unique (d d' : DB) (c : Cmd) (n : Nat) (h : d.apply c = .ok (d', n)) (hu : UniqueShards d.image) :
    UniqueShards d'.image := by
  unfold DB.apply at h
  by_cases hfail : d.failed = true
  · simp [hfail] at h
  · simp only [hfail] at h
    cases c with
    | tick =>
      simp only at h
      cases ht : d.applyTick with
      | panic w => simp [ht] at h
      | ok p =>
        simp only [ht] at h; cases h
        unfold DB.applyTick at ht
        simp only at ht
        split at ht
        · cases ht
        · cases ht; exact hu
    | shard sc => rw [applyShard_image d d' sc n h]; exact hu
    | kv rec => rw [applyKV_image d d' rec n h]; exact hu
    | report nhi => exact (update_stamps d.image d'.image _ hu (applyReport_image d d' nhi n h)).1
    | requests rs =>
      obtain ⟨e1, _, _⟩ := applyRequests_frame (fun _ => True) d d' rs n h (fun _ _ _ _ => trivial) (fun _ _ => trivial)
      rw [e1]; exact hu

/-- one view per shard id, in every state reachable from the empty DB -/
theorem unique_history : ∀ (cs : List Cmd) (d d' : DB), runCmds d cs = .ok d' → UniqueShards d.image → UniqueShards d'.image := by
  intro cs
  induction cs with
  | nil => intro d d' h hu; simp [runCmds] at h; subst h; exact hu
  | cons c cs ih =>
    intro d d' h hu
    unfold runCmds at h
    cases ha : d.apply c with
    | panic w => simp [ha] at h
    | ok p =>
      obtain ⟨d1, n⟩ := p
      simp only [ha] at h
      exact ih d1 d' h (apply_unique d d1 c n ha hu)

/-- C05, the law of the liveness record for one report applied to any reachable state: a member the report lists is
    stamped with the current `DB.Tick`; a member it does not list keeps the tick and first-observed stamp it had, or is
    a member first seen in this report (tick 0, first observed now) -/
theorem report_law (cs : List Cmd) (d d' : DB) (nhi : NodeHostInfo) (n : Nat) (hr : runCmds {} cs = .ok d)
    (h : d.applyReport nhi = .ok (d', n)) :
    ∀ c ∈ d'.image.shards, ∀ r' ∈ c.replicas,
      ((∃ ci ∈ nhi.shardInfo, ci.shardId = c.shardId ∧ ci.replicaId = r'.replicaId) → r'.tick = d.tick) ∧
      ((¬ ∃ ci ∈ nhi.shardInfo, ci.shardId = c.shardId ∧ ci.replicaId = r'.replicaId) → Src d.image d.tick c.shardId r') := by
  have hu : UniqueShards d.image := unique_history cs {} d hr (fun c hc => by simp at hc)
  have himg := applyReport_image d d' nhi n h
  intro c hc r' hr'
  exact ⟨fun hl => (update_stamps d.image d'.image _ hu himg).2 c hc r' hr' hl,
         fun hn => update_unlisted d.image d'.image _ himg c hc r' hr' hn⟩

#print axioms report_law
end Drummer
