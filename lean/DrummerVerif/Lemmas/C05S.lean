import DrummerVerif.Lemmas.C04H
import DrummerVerif.Lemmas.C05
/-! C05 / C01, the detection half over whole command histories: a member that no report lists any more keeps the report
    time it had (or is a member first seen later, with no report time at all), whatever else is applied - ticks, other
    NodeHosts' reports in any order, request batches, KV writes - so once the failure timeout has passed on the logical
    clock it is classified failed. No bound on the history. -/
namespace Drummer

/-- does this command carry a report entry for replica `rid` of shard `s`? -/
def Cmd.lists (s rid : Nat) : Cmd → Prop
  | .report nhi => ∃ ci ∈ nhi.shardInfo, ci.shardId = s ∧ ci.replicaId = rid
  | _ => False

/-- `r'` has the liveness record some member of shard `s` had in `ref`, or has never been reported -/
def Kept (ref : MultiShard) (s : Nat) (r' : Replica) : Prop :=
  (∃ c ∈ ref.shards, c.shardId = s ∧ ∃ r ∈ c.replicas, SameRec r r') ∨ r'.tick = 0

theorem apply_kept (d d' : DB) (c : Cmd) (n : Nat) (h : d.apply c = .ok (d', n)) (s rid : Nat)
    (hn : ¬ c.lists s rid) :
    ∀ c' ∈ d'.image.shards, c'.shardId = s → ∀ r' ∈ c'.replicas, r'.replicaId = rid → Kept d.image s r' := by
  intro c' hc' hs r' hr' hid
  rcases apply_image_cases d d' c n h with himg | ⟨nhi, rfl, hu⟩
  · rw [himg] at hc'
    exact Or.inl ⟨c', hc', hs, r', hr', rfl, rfl, rfl⟩
  · have hnot : ¬ ∃ ci ∈ ({ nhi with lastTick := d.tick } : NodeHostInfo).shardInfo,
        ci.shardId = c'.shardId ∧ ci.replicaId = r'.replicaId := by
      rw [hs, hid]; exact hn
    rcases update_unlisted d.image d'.image _ hu c' hc' r' hr' hnot with hsrc | ⟨h0, _⟩
    · rw [hs] at hsrc; exact Or.inl hsrc
    · exact Or.inr h0

/-- **a silent member keeps its record, over any history**: along a command history in which no report lists replica
    `rid` of shard `s`, every record the final views hold for it is one the initial views held, or has no report time -/
theorem silent_member_keeps_its_record : ∀ (cs : List Cmd) (d d' : DB), runCmds d cs = .ok d' → ∀ (s rid : Nat),
    (∀ c ∈ cs, ¬ c.lists s rid) →
    ∀ c' ∈ d'.image.shards, c'.shardId = s → ∀ r' ∈ c'.replicas, r'.replicaId = rid → Kept d.image s r' := by
  intro cs
  induction cs with
  | nil =>
    intro d d' h s rid _ c' hc' hs r' hr' _
    simp [runCmds] at h; subst h
    exact Or.inl ⟨c', hc', hs, r', hr', rfl, rfl, rfl⟩
  | cons c cs ih =>
    intro d d' h s rid hsil c' hc' hs r' hr' hid
    unfold runCmds at h
    cases ha : d.apply c with
    | panic w => simp [ha] at h
    | ok p =>
      obtain ⟨d1, n⟩ := p
      simp only [ha] at h
      have h1 := ih d1 d' h s rid (fun x hx => hsil x (List.mem_cons_of_mem _ hx)) c' hc' hs r' hr' hid
      rcases h1 with ⟨c1, hc1, hs1, r1, hr1, e1, e2, e3⟩ | h0
      · have hk := apply_kept d d1 c n ha s rid (hsil c List.mem_cons_self) c1 hc1 hs1 r1 hr1 (e1.trans hid)
        rcases hk with ⟨c0, hc0, hs0, r0, hr0, f1, f2, f3⟩ | h0
        · exact Or.inl ⟨c0, hc0, hs0, r0, hr0, f1.trans e1, f2.trans e2, f3.trans e3⟩
        · exact Or.inr (e2 ▸ h0)
      · exact Or.inr h0

/-- number of tick commands of a history -/
def ticksIn : List Cmd → Nat
  | [] => 0
  | .tick :: cs => ticksIn cs + 1
  | _ :: cs => ticksIn cs

/-- the logical clock is the number of ticks applied, times the fixed step -/
theorem clock_counts_ticks : ∀ (cs : List Cmd) (d d' : DB), runCmds d cs = .ok d' →
    d'.tick = d.tick + ticksIn cs * tickInterval := by
  intro cs
  induction cs with
  | nil => intro d d' h; simp [runCmds] at h; subst h; simp [ticksIn]
  | cons c cs ih =>
    intro d d' h
    unfold runCmds at h
    cases ha : d.apply c with
    | panic w => simp [ha] at h
    | ok p =>
      obtain ⟨d1, n⟩ := p
      simp only [ha] at h
      have h1 := ih d1 d' h
      have h2 := tick_step d d1 c n ha
      cases c with
      | tick => simp only at h2; simp only [ticksIn]; rw [h1, h2, Nat.add_mul]; omega
      | shard x => simp only at h2; simp only [ticksIn]; rw [h1, h2]
      | kv x => simp only at h2; simp only [ticksIn]; rw [h1, h2]
      | report x => simp only at h2; simp only [ticksIn]; rw [h1, h2]
      | requests x => simp only at h2; simp only [ticksIn]; rw [h1, h2]

/-- **a silent member is detected**: if replica `rid` of shard `s` was last reported at the positive time `t0` and then
    a history follows in which no report lists it and whose ticks carry the clock more than the failure timeout past
    `t0`, then whatever record the views hold for it at the end is classified failed (or it is a member added anew, which
    has no report time). -/
theorem silent_member_is_detected (cs : List Cmd) (d d' : DB) (h : runCmds d cs = .ok d') (s rid t0 : Nat)
    (hsil : ∀ c ∈ cs, ¬ c.lists s rid)
    (hrec : ∀ c ∈ d.image.shards, c.shardId = s → ∀ r ∈ c.replicas, r.replicaId = rid → r.tick = t0)
    (hpos : 0 < t0) (hle : t0 ≤ d.tick) (hwrap : d'.tick < 18446744073709551616)
    (hlate : d.tick + ticksIn cs * tickInterval - t0 > nodeHostTTL) :
    ∀ c' ∈ d'.image.shards, c'.shardId = s → ∀ r' ∈ c'.replicas, r'.replicaId = rid →
      r'.failed d'.tick = true ∨ r'.tick = 0 := by
  intro c' hc' hs r' hr' hid
  rcases silent_member_keeps_its_record cs d d' h s rid hsil c' hc' hs r' hr' hid with
    ⟨c0, hc0, hs0, r0, hr0, e1, e2, _⟩ | h0
  · left
    have ht : r'.tick = t0 := by rw [← e2]; exact hrec c0 hc0 hs0 r0 hr0 (e1.trans hid)
    have hclock := clock_counts_ticks cs d d' h
    unfold Replica.failed
    have hne : (r'.tick == 0) = false := by rw [ht]; simp; omega
    simp only [hne, Bool.false_eq_true, if_false]
    unfold entityFailed usub64
    rw [ht]
    have : (d'.tick + 18446744073709551616 - t0) % 18446744073709551616 = d'.tick - t0 := by
      have h1 : d'.tick + 18446744073709551616 - t0 = (d'.tick - t0) + 18446744073709551616 := by omega
      rw [h1, Nat.add_mod_right, Nat.mod_eq_of_lt]; omega
    rw [this]
    simp only [decide_eq_true_eq]
    rw [hclock]; exact hlate
  · exact Or.inr h0

#print axioms silent_member_keeps_its_record
#print axioms silent_member_is_detected
end Drummer
