import DrummerVerif.Lemmas.LinSpec
/-! C06 prototype: the verdict does not depend on how operations are numbered -/
namespace WGL
variable {S I O : Type}

def rename (f : Nat → Nat) (H : List Entry) : List Entry := H.map fun e => ⟨e.kind, f e.id⟩
def ids (H : List Entry) : List Nat := H.map (·.id)

theorem opIds_rename (f : Nat → Nat) (H : List Entry) : opIds (rename f H) = (opIds H).map f := by
  unfold opIds rename
  induction H with
  | nil => rfl
  | cons e es ih =>
    simp only [List.map_cons, List.filter_cons]
    cases hk : (e.kind == Kind.call) <;> simp_all

theorem before_map {α β : Type} (φ : α → β) : ∀ (l : List α) (u v : β), Before (l.map φ) u v →
    ∃ x y, Before l x y ∧ φ x = u ∧ φ y = v := by
  intro l u v h
  obtain ⟨l1, l2, heq, hv⟩ := h
  obtain ⟨a1, rest, hl, h1, h2⟩ := List.map_eq_append_iff.mp heq
  obtain ⟨x, a2, hrest, hx, h3⟩ := List.map_eq_cons_iff.mp h2
  subst h3
  obtain ⟨y, hy, rfl⟩ := List.mem_map.mp hv
  exact ⟨x, y, ⟨a1, a2, by rw [hl, hrest], hy⟩, hx, rfl⟩

theorem opIds_sub_ids (H : List Entry) : ∀ i ∈ opIds H, i ∈ ids H := by
  intro i hi
  unfold opIds at hi
  obtain ⟨e, he, rfl⟩ := List.mem_map.mp hi
  exact List.mem_map_of_mem (List.mem_filter.mp he).1

theorem legal_rename (m : Model S I O) (inp : Nat → I) (out : Nat → O) (f g : Nat → Nat) : ∀ (ord : List Nat) (st : S),
    (∀ i ∈ ord, g (f i) = i) → Legal m inp out st ord → Legal m (inp ∘ g) (out ∘ g) st (ord.map f) := by
  intro ord
  induction ord with
  | nil => intro st _ _; trivial
  | cons i rest ih =>
    intro st hinv hl
    have hi : g (f i) = i := hinv i (by simp)
    simp only [List.map_cons, Legal, Function.comp, hi]
    exact ⟨hl.1, ih _ (fun x hx => hinv x (by simp [hx])) hl.2⟩

/-- renumbering the operations by any map that is invertible on the ids of the history keeps it linearizable -/
theorem linearizable_rename (m : Model S I O) (inp : Nat → I) (out : Nat → O) (H : List Entry) (st : S) (f g : Nat → Nat)
    (hinv : ∀ i ∈ ids H, g (f i) = i) (h : Linearizable m inp out H st) :
    Linearizable m (inp ∘ g) (out ∘ g) (rename f H) st := by
  obtain ⟨ord, hperm, hrt, hleg⟩ := h
  have hsub : ∀ i ∈ ord, i ∈ ids H := fun i hi => opIds_sub_ids H i (hperm.mem_iff.mp hi)
  refine ⟨ord.map f, by rw [opIds_rename]; exact hperm.map f, ?_, legal_rename m inp out f g ord st (fun i hi => hinv i (hsub i hi)) hleg⟩
  intro a' b' hprec hbad
  unfold Prec rename at hprec
  obtain ⟨x, y, hb, hx, hy⟩ := before_map _ H _ _ hprec
  obtain ⟨p, q, hb2, hp, hq⟩ := before_map f ord _ _ hbad
  have hxk : x.kind = .ret := by have := congrArg Entry.kind hx; simpa using this
  have hyk : y.kind = .call := by have := congrArg Entry.kind hy; simpa using this
  have hxa : f x.id = a' := by have := congrArg Entry.id hx; simpa using this
  have hyb : f y.id = b' := by have := congrArg Entry.id hy; simpa using this
  have hxm : x.id ∈ ids H := List.mem_map_of_mem (mem_of_before_left hb)
  have hym : y.id ∈ ids H := List.mem_map_of_mem (mem_of_before_right hb)
  have hpm := hsub p (mem_of_before_left hb2)
  have hqm := hsub q (mem_of_before_right hb2)
  -- injectivity on the ids of H
  have hpy : p = y.id := by
    have : g (f p) = g (f y.id) := by rw [hp, hyb]
    rwa [hinv p hpm, hinv y.id hym] at this
  have hqx : q = x.id := by
    have : g (f q) = g (f x.id) := by rw [hq, hxa]
    rwa [hinv q hqm, hinv x.id hxm] at this
  have hprecH : Prec H x.id y.id := by
    unfold Prec
    have ex : x = ⟨.ret, x.id⟩ := by
      obtain ⟨k, i⟩ := x; dsimp only at hxk; subst hxk; rfl
    have ey : y = ⟨.call, y.id⟩ := by
      obtain ⟨k, i⟩ := y; dsimp only at hyk; subst hyk; rfl
    rw [← ex, ← ey]; exact hb
  exact hrt x.id y.id hprecH (hpy ▸ hqx ▸ hb2)

#print axioms linearizable_rename

theorem rename_rename (f g : Nat → Nat) (H : List Entry) (hinv : ∀ i ∈ ids H, g (f i) = i) : rename g (rename f H) = H := by
  unfold rename
  rw [List.map_map]
  conv => rhs; rw [← List.map_id H]
  apply List.map_congr_left
  intro e he
  have := hinv e.id (List.mem_map_of_mem he)
  cases e; simp_all

theorem ids_rename (f : Nat → Nat) (H : List Entry) : ids (rename f H) = (ids H).map f := by
  unfold ids rename; simp [List.map_map, Function.comp_def]

theorem legal_congr (m : Model S I O) (inp inp' : Nat → I) (out out' : Nat → O) : ∀ (ord : List Nat) (st : S),
    (∀ i ∈ ord, inp i = inp' i ∧ out i = out' i) → Legal m inp out st ord → Legal m inp' out' st ord := by
  intro ord
  induction ord with
  | nil => intro _ _ _; trivial
  | cons i rest ih =>
    intro st hc hl
    obtain ⟨e1, e2⟩ := hc i (by simp)
    simp only [Legal, ← e1, ← e2]
    exact ⟨hl.1, ih _ (fun x hx => hc x (by simp [hx])) hl.2⟩

theorem linearizable_congr (m : Model S I O) (inp inp' : Nat → I) (out out' : Nat → O) (H : List Entry) (st : S)
    (hc : ∀ i ∈ ids H, inp i = inp' i ∧ out i = out' i) (h : Linearizable m inp out H st) :
    Linearizable m inp' out' H st := by
  obtain ⟨ord, hperm, hrt, hleg⟩ := h
  exact ⟨ord, hperm, hrt, legal_congr m inp inp' out out' ord st
    (fun i hi => hc i (opIds_sub_ids H i (hperm.mem_iff.mp hi))) hleg⟩

/-- C06 `verdict_renaming_invariant` at the level of the specification: for any renumbering `f` with an inverse `g` on
    the ids that occur, the renumbered history (with inputs and outputs carried along) is linearizable iff the
    original is — so by `check_exact` on both sides the checker's verdict is the same -/
theorem linearizable_rename_iff (m : Model S I O) (inp : Nat → I) (out : Nat → O) (H : List Entry) (st : S) (f g : Nat → Nat)
    (hinv : ∀ i ∈ ids H, g (f i) = i) :
    Linearizable m (inp ∘ g) (out ∘ g) (rename f H) st ↔ Linearizable m inp out H st := by
  constructor
  · intro h
    have hinv' : ∀ j ∈ ids (rename f H), f (g j) = j := by
      intro j hj
      rw [ids_rename] at hj
      obtain ⟨i, hi, rfl⟩ := List.mem_map.mp hj
      rw [hinv i hi]
    have := linearizable_rename m (inp ∘ g) (out ∘ g) (rename f H) st g f hinv' h
    rw [rename_rename f g H hinv] at this
    apply linearizable_congr m _ inp _ out H st _ this
    intro i hi
    simp only [Function.comp, hinv i hi, and_self]
  · exact linearizable_rename m inp out H st f g hinv

#print axioms linearizable_rename_iff

theorem before_map_of {α β : Type} (φ : α → β) (l : List α) (x y : α) (h : Before l x y) : Before (l.map φ) (φ x) (φ y) := by
  obtain ⟨l1, l2, heq, hy⟩ := h
  exact ⟨l1.map φ, l2.map φ, by rw [heq]; simp, List.mem_map_of_mem hy⟩

theorem mem_rename (f : Nat → Nat) (H : List Entry) (e : Entry) (he : e ∈ H) : (⟨e.kind, f e.id⟩ : Entry) ∈ rename f H :=
  List.mem_map_of_mem (f := fun e => (⟨e.kind, f e.id⟩ : Entry)) he

theorem mem_rename_inv (f g : Nat → Nat) (H : List Entry) (hinv : ∀ i ∈ ids H, g (f i) = i) (k : Kind) (j : Nat)
    (h : (⟨k, j⟩ : Entry) ∈ rename f H) : ∃ i, (⟨k, i⟩ : Entry) ∈ H ∧ f i = j := by
  obtain ⟨e, he, heq⟩ := List.mem_map.mp h
  have h1 : e.kind = k := by have := congrArg Entry.kind heq; simpa using this
  have h2 : f e.id = j := by have := congrArg Entry.id heq; simpa using this
  refine ⟨e.id, ?_, h2⟩
  obtain ⟨k', i'⟩ := e
  dsimp only at h1; subst h1; exact he

theorem nodup_map_of_inj_on {α β : Type} (φ : α → β) : ∀ (l : List α), l.Nodup →
    (∀ x ∈ l, ∀ y ∈ l, φ x = φ y → x = y) → (l.map φ).Nodup := by
  intro l
  induction l with
  | nil => intro _ _; simp
  | cons a as ih =>
    intro hnd hinj
    simp only [List.nodup_cons] at hnd
    simp only [List.map_cons, List.nodup_cons]
    refine ⟨?_, ih hnd.2 (fun x hx y hy => hinj x (by simp [hx]) y (by simp [hy]))⟩
    intro hm
    obtain ⟨y, hy, he⟩ := List.mem_map.mp hm
    have := hinj y (by simp [hy]) a (by simp) he
    exact hnd.1 (this ▸ hy)

/-- renumbering by a map that is invertible on the ids that occur keeps a history complete and well-formed -/
theorem wf_rename (f g : Nat → Nat) (H : List Entry) (hinv : ∀ i ∈ ids H, g (f i) = i) (hwf : WFHist H) : WFHist (rename f H) := by
  refine ⟨?_, ?_, ?_⟩
  · unfold rename
    apply nodup_map_of_inj_on _ H hwf.nodup
    intro x hx y hy hxy
    have h1 : x.kind = y.kind := by have := congrArg Entry.kind hxy; simpa using this
    have h2 : f x.id = f y.id := by have := congrArg Entry.id hxy; simpa using this
    have h3 : x.id = y.id := by
      have := congrArg g h2
      rwa [hinv x.id (List.mem_map_of_mem hx), hinv y.id (List.mem_map_of_mem hy)] at this
    cases x; cases y; simp_all
  · intro j hj
    obtain ⟨i, hi, rfl⟩ := mem_rename_inv f g H hinv .ret j hj
    exact before_map_of (fun e => (⟨e.kind, f e.id⟩ : Entry)) H _ _ (hwf.ret_after_call i hi)
  · intro j hj
    obtain ⟨i, hi, rfl⟩ := mem_rename_inv f g H hinv .call j hj
    exact mem_rename f H ⟨.ret, i⟩ (hwf.call_has_ret i hi)

/-- C06 `verdict_renaming_invariant`: the memoised search returns the same verdict on a history and on any
    renumbering of it (inputs and outputs carried along) -/
theorem verdict_renaming_invariant [DecidableEq S] (m : Model S I O) (inp : Nat → I) (out : Nat → O) (H : List Entry)
    (hwf : WFHist H) (f g : Nat → Nat) (hinv : ∀ i ∈ ids H, g (f i) = i) :
    (dfs m (inp ∘ g) (out ∘ g) ((rename f H).length + 1) (rename f H) m.init [] []).1 = true ↔
    (dfs m inp out (H.length + 1) H m.init [] []).1 = true := by
  rw [check_exact m (inp ∘ g) (out ∘ g) (rename f H) (wf_rename f g H hinv hwf), check_exact m inp out H hwf]
  exact linearizable_rename_iff m inp out H m.init f g hinv

#print axioms verdict_renaming_invariant
end WGL
