import DrummerVerif.Model.Jepsen
/-! C07 prototype: every line the recorder can emit (repaired format `%-4d %-8s%-8s%s`) is classified correctly by the
    parser model, for every process id -/
namespace Jepsen

inductive Typ | read | write deriving DecidableEq, Repr
inductive Res | invoke | ok | fail deriving DecidableEq, Repr

structure Ev where
  typ : Typ
  res : Res
  id : Nat
  value : Option Nat      -- `none` = math.MaxUint64, printed as nil
  deriving DecidableEq, Repr

def resStr (e : Ev) : List Char :=
  match e.res, e.typ with
  | .invoke, _ => ":invoke".toList
  | .ok, _ => ":ok".toList
  | .fail, .read => ":fail".toList
  | .fail, .write => ":info".toList
def typStr (e : Ev) : List Char := match e.typ with | .read => ":read".toList | .write => ":write".toList
def valStr (v : Option Nat) : List Char := match v with | none => "nil".toList | some n => digits n
def valField (e : Ev) : List Char :=
  match e.typ, e.res with
  | .read, .invoke => "nil".toList
  | .read, .fail => ":timed-out".toList
  | .read, .ok => valStr e.value
  | .write, .invoke => valStr e.value
  | .write, .fail => ":timed-out".toList
  | .write, .ok => valStr e.value

/-- repaired `toJepsenLogEntry` (without the trailing newline, which `ReadLine` strips) -/
def fmt (e : Ev) : List Char :=
  "INFO  jepsen.util - ".toList ++ (padRight 4 (digits e.id) ++ (' ' :: (padRight 8 (resStr e) ++ (padRight 8 (typStr e) ++ valField e))))

/-- a padded field followed by an explicit blank tokenises as the field, however long the field is -/
theorem tokens_pad_sp (n : Nat) (w rest : List Char) (hw : NoWs w) (hne : w ≠ []) :
    tokens (padRight n w ++ (' ' :: rest)) = w :: tokens rest := by
  unfold padRight
  cases hk : n - w.length with
  | zero => simp only [List.replicate_zero, List.append_nil]; exact tokens_word_sp w rest hw hne
  | succ k =>
    rw [List.replicate_succ, List.append_assoc, List.cons_append, tokens_word_sp w _ hw hne, tokens_spaces, tokens_sp]

theorem resStr_ok (e : Ev) : NoWs (resStr e) ∧ resStr e ≠ [] ∧ (resStr e).length < 8 := by
  unfold resStr; cases e.res <;> cases e.typ <;> decide
theorem typStr_ok (e : Ev) : NoWs (typStr e) ∧ typStr e ≠ [] ∧ (typStr e).length < 8 := by
  unfold typStr; cases e.typ <;> decide
theorem valStr_ok (v : Option Nat) : NoWs (valStr v) ∧ valStr v ≠ [] := by
  cases v with
  | none => unfold valStr; decide
  | some n => exact ⟨digits_noWs n, digits_ne_nil n⟩

theorem valField_ok (e : Ev) : NoWs (valField e) ∧ valField e ≠ [] := by
  unfold valField
  cases e.typ <;> cases e.res <;> dsimp only <;> first | decide | exact valStr_ok _

/-- every emitted line tokenises into exactly the seven fields, for every process id and value -/
theorem tokens_fmt (e : Ev) :
    tokens (fmt e) = ["INFO".toList, "jepsen.util".toList, "-".toList, digits e.id, resStr e, typStr e, valField e] := by
  unfold fmt
  have e0 : "INFO  jepsen.util - ".toList = "INFO".toList ++ ' ' :: (' ' :: ("jepsen.util".toList ++ ' ' :: ("-".toList ++ ' ' :: []))) := by decide
  rw [e0]
  simp only [List.append_assoc, List.cons_append, List.nil_append]
  rw [tokens_word_sp _ _ (by decide) (by decide), tokens_sp, tokens_word_sp _ _ (by decide) (by decide),
      tokens_word_sp _ _ (by decide) (by decide)]
  rw [tokens_pad_sp 4 _ _ (digits_noWs e.id) (digits_ne_nil e.id)]
  obtain ⟨r1, r2, r3⟩ := resStr_ok e
  obtain ⟨t1, t2, t3⟩ := typStr_ok e
  obtain ⟨v1, v2⟩ := valField_ok e
  rw [tokens_pad 8 _ _ r1 r2 r3, tokens_pad 8 _ _ t1 t2 t3, tokens_word_end _ v1 v2]

/-- the digits of a process id parse back to the id (core: `Nat.ofDigitChars_ten_toDigits`) -/
theorem id_roundtrip (n : Nat) : Nat.ofDigitChars 10 (digits n) 0 = n := Nat.ofDigitChars_ten_toDigits

#print axioms tokens_fmt
end Jepsen
