import DrummerVerif.Lemmas.C07
/-! C07 prototype: the line classifier (the seven regexps on the token level) recovers every recorded event -/
namespace Jepsen

inductive Line
  | invokeRead (id : Nat)
  | invokeWrite (id v : Nat)
  | returnRead (id : Nat) (v : Option Nat)
  | returnWrite (id v : Nat)
  | timeoutRead (id : Nat)
  deriving DecidableEq, Repr

def isDigits (w : List Char) : Bool := !w.isEmpty && w.all Char.isDigit
def num (w : List Char) : Nat := Nat.ofDigitChars 10 w 0

/-- the non-CAS regexps of `ParseJepsenLog` (etcd.go:70-76), on tokens; `none` = no regexp matches, the line is skipped -/
def classify (toks : List (List Char)) : Option Line :=
  match toks with
  | [a, b, c, id, res, typ, val] =>
    if a ≠ "INFO".toList ∨ b ≠ "jepsen.util".toList ∨ c ≠ "-".toList ∨ !isDigits id then none else
    if res = ":invoke".toList ∧ typ = ":read".toList ∧ val = "nil".toList then some (.invokeRead (num id))
    else if res = ":invoke".toList ∧ typ = ":write".toList ∧ isDigits val then some (.invokeWrite (num id) (num val))
    else if res = ":ok".toList ∧ typ = ":read".toList ∧ val = "nil".toList then some (.returnRead (num id) none)
    else if res = ":ok".toList ∧ typ = ":read".toList ∧ isDigits val then some (.returnRead (num id) (some (num val)))
    else if res = ":ok".toList ∧ typ = ":write".toList ∧ isDigits val then some (.returnWrite (num id) (num val))
    else if res = ":fail".toList ∧ typ = ":read".toList ∧ val = ":timed-out".toList then some (.timeoutRead (num id))
    else none
  | _ => none

/-- what the recorder meant by an event -/
def meaning (e : Ev) : Option Line :=
  match e.typ, e.res, e.value with
  | .read, .invoke, _ => some (.invokeRead e.id)
  | .write, .invoke, some v => some (.invokeWrite e.id v)
  | .write, .invoke, none => none
  | .read, .ok, v => some (.returnRead e.id v)
  | .write, .ok, some v => some (.returnWrite e.id v)
  | .write, .ok, none => none
  | .read, .fail, _ => some (.timeoutRead e.id)
  | .write, .fail, _ => none          -- `:info`: left open, closed at the end of the history (unknown outcome)

theorem digits_isDigits (n : Nat) : isDigits (digits n) = true := by
  unfold isDigits
  have h1 : (digits n).isEmpty = false := by
    cases h : digits n with
    | nil => exact absurd h (digits_ne_nil n)
    | cons _ _ => rfl
  have h2 : (digits n).all Char.isDigit = true := by
    rw [List.all_eq_true]
    intro c hc
    exact Nat.isDigit_of_mem_toDigits (by decide) (by decide) hc
  simp [h1, h2]

theorem digits_ne_nilstr (n : Nat) : ¬ digits n = ['n', 'i', 'l'] := by
  intro h
  have := digits_isDigits n
  rw [h] at this
  exact absurd this (by decide)

theorem num_digits (n : Nat) : num (digits n) = n := id_roundtrip n

/-- C07 (ii), line level: every line the recorder writes is classified as what the recorder meant, for every process
    id and every value; the only lines that match nothing are failed writes (`:info`) -/
theorem classify_fmt (e : Ev) (hw : e.typ = .write → e.res ≠ .fail → e.value ≠ none) :
    classify (tokens (fmt e)) = meaning e := by
  rw [tokens_fmt]
  unfold classify
  have hid := digits_isDigits e.id
  simp only [ne_eq, not_true_eq_false, hid, Bool.not_true, Bool.false_eq_true, or_self, if_false]
  rw [num_digits]
  obtain ⟨typ, res, id, value⟩ := e
  cases typ <;> cases res <;> cases value <;>
    simp_all [resStr, typStr, valField, valStr, meaning, digits_isDigits, num_digits, digits_ne_nilstr]


/-- whole logs: parsing the formatted event list yields exactly the meanings of the events, in order; failed writes
    are the only lines dropped -/
def parseLog (lines : List (List Char)) : List Line := lines.filterMap fun l => classify (tokens l)

theorem parseLog_fmt (es : List Ev) (hw : ∀ e ∈ es, e.typ = .write → e.res ≠ .fail → e.value ≠ none) :
    parseLog (es.map fmt) = es.filterMap meaning := by
  unfold parseLog
  induction es with
  | nil => rfl
  | cons e es ih =>
    simp only [List.map_cons, List.filterMap_cons]
    rw [classify_fmt e (hw e (by simp)), ih (fun x hx => hw x (by simp [hx]))]

#print axioms classify_fmt
#print axioms parseLog_fmt
end Jepsen
