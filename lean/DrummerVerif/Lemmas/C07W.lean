import DrummerVerif.Lemmas.LinSpec
/-! C07 (iii) prototype: interval widening — a recorded history whose real-time constraints are a subset of the true
    ones (every recorded interval contains the true interval) is linearizable whenever the true history is -/
namespace WGL
variable {S I O : Type}

theorem faithful_history_linearizable (m : Model S I O) (inp : Nat → I) (out : Nat → O) (Htrue Hrec : List Entry) (st : S)
    (hops : (opIds Hrec).Perm (opIds Htrue))
    (hwiden : ∀ a b, Prec Hrec a b → Prec Htrue a b)
    (h : Linearizable m inp out Htrue st) : Linearizable m inp out Hrec st := by
  obtain ⟨ord, hperm, hrt, hleg⟩ := h
  exact ⟨ord, hperm.trans hops.symm, fun a b hp => hrt a b (hwiden a b hp), hleg⟩

/-- hence accepted by the checker (C06 `check_exact`) -/
theorem faithful_history_accepted [DecidableEq S] (m : Model S I O) (inp : Nat → I) (out : Nat → O) (Htrue Hrec : List Entry)
    (hwf : WFHist Hrec) (hops : (opIds Hrec).Perm (opIds Htrue)) (hwiden : ∀ a b, Prec Hrec a b → Prec Htrue a b)
    (h : Linearizable m inp out Htrue m.init) :
    (dfs m inp out (Hrec.length + 1) Hrec m.init [] []).1 = true :=
  (check_exact m inp out Hrec hwf).mpr (faithful_history_linearizable m inp out Htrue Hrec m.init hops hwiden h)

#print axioms faithful_history_accepted
end WGL
