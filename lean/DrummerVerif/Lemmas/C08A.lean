import DrummerVerif.Lemmas.LaunchF
/-! C08 prototype (repaired launch): an accepted plan is complete — one valid per-shard plan for every definition, in
    definition order — and a refused launch returns no request at all (the result type has no partial plan) -/
namespace Drummer

inductive Plans (cx : Ctx) (rg : Regions) : List ShardDef → List (List Request) → Prop
  | nil : Plans cx rg [] []
  | cons {d ds reqs plans} (dr rest : List Nat) : launchShardF cx rg d dr = .ok reqs rest → Plans cx rg ds plans →
      Plans cx rg (d :: ds) (reqs :: plans)

theorem launchAllF_complete (cx : Ctx) (rg : Regions) : ∀ (ds : List ShardDef) (draws : List Nat) (rs : List Request) (rest : List Nat),
    launchAllF cx rg ds draws = .ok rs rest → ∃ plans, rs = plans.flatten ∧ Plans cx rg ds plans := by
  intro ds
  induction ds with
  | nil => intro draws rs rest h; unfold launchAllF at h; cases h; exact ⟨[], rfl, Plans.nil⟩
  | cons d ds ih =>
    intro draws rs rest h
    unfold launchAllF at h
    cases h1 : launchShardF cx rg d draws with
    | panic w => simp [h1] at h
    | error w => simp [h1] at h
    | ok reqs rest1 =>
      simp only [h1] at h
      cases h2 : launchAllF cx rg ds rest1 with
      | panic w => simp [h2] at h
      | error w => simp [h2] at h
      | ok rs2 dr2 =>
        simp only [h2] at h
        cases h
        obtain ⟨plans, hfl, hp⟩ := ih rest1 rs2 _ h2
        exact ⟨reqs :: plans, by simp [hfl], Plans.cons draws rest1 h1 hp⟩

/-- C08 `all_or_nothing`: an accepted launch is the concatenation, in definition order, of one plan per defined shard,
    each with exactly one CREATE per member on pairwise distinct hosts (`launchShardF_valid`) -/
theorem launchF_complete (cx : Ctx) (draws rest : List Nat) (rs : List Request) (h : launchF cx draws = .ok rs rest) :
    ∃ rg plans, cx.regions = some rg ∧ rs = plans.flatten ∧ Plans cx rg cx.defs plans := by
  unfold launchF at h
  cases hrg : cx.regions with
  | none => simp [hrg] at h
  | some rg =>
    simp only [hrg] at h
    split at h
    · cases h
    · obtain ⟨plans, h1, h2⟩ := launchAllF_complete cx rg cx.defs draws rs rest h
      exact ⟨rg, plans, rfl, h1, h2⟩

theorem plans_lengths (cx : Ctx) (rg : Regions) : ∀ (ds : List ShardDef) (plans : List (List Request)), Plans cx rg ds plans →
    plans.length = ds.length ∧ (plans.flatten).length = (ds.map (·.members.length)).sum := by
  intro ds plans h
  induction h with
  | nil => exact ⟨rfl, rfl⟩
  | cons dr rest hs _ ih =>
    obtain ⟨hl, _⟩ := launchShardF_valid cx rg _ dr _ rest hs
    simp [ih.1, ih.2, hl]

/-- the number of requests of an accepted launch is the total number of defined members -/
theorem launchF_count (cx : Ctx) (draws rest : List Nat) (rs : List Request) (h : launchF cx draws = .ok rs rest) :
    rs.length = (cx.defs.map (·.members.length)).sum := by
  obtain ⟨rg, plans, _, hfl, hp⟩ := launchF_complete cx draws rest rs h
  rw [hfl]; exact (plans_lengths cx rg cx.defs plans hp).2

#print axioms launchF_complete
#print axioms launchF_count
end Drummer
