import DrummerVerif.Lemmas.C08A
/-! C08 prototype (repaired launch): region quotas are met exactly -/
namespace Drummer

/-- the selection is a concatenation of one part per (region, count) entry, each with at most `count` suitable hosts of
    that region -/
inductive Parts (cx : Ctx) (sid : Nat) : List (String × Nat) → List (List HostSpec) → Prop
  | nil : Parts cx sid [] []
  | cons {reg cnt rc part parts} : part.length ≤ cnt → (∀ h ∈ part, regionFilter cx sid reg h = true) →
      Parts cx sid rc parts → Parts cx sid ((reg, cnt) :: rc) (part :: parts)

theorem selectRegions_parts (cx : Ctx) (sid : Nat) : ∀ (rc : List (String × Nat)) (draws : List Nat) (sel : List HostSpec) (rest : List Nat),
    selectRegions cx sid rc draws = some (sel, rest) → ∃ parts, sel = parts.flatten ∧ Parts cx sid rc parts := by
  intro rc
  induction rc with
  | nil => intro draws sel rest hs; simp [selectRegions] at hs; obtain ⟨rfl, _⟩ := hs; exact ⟨[], rfl, Parts.nil⟩
  | cons p rc ih =>
    obtain ⟨reg, cnt⟩ := p
    intro draws sel rest hs
    unfold selectRegions at hs
    cases h1 : findSuitable cx.hosts (regionFilter cx sid reg) cnt draws with
    | none => simp [h1] at hs
    | some q =>
      obtain ⟨hs1, d1⟩ := q
      simp only [h1] at hs
      cases h2 : selectRegions cx sid rc d1 with
      | none => simp [h2] at hs
      | some q2 =>
        obtain ⟨hs2, d2⟩ := q2
        simp only [h2, Option.some.injEq, Prod.mk.injEq] at hs
        obtain ⟨rfl, _⟩ := hs
        obtain ⟨parts, hfl, hp⟩ := ih d1 hs2 d2 h2
        refine ⟨hs1 :: parts, by simp [hfl], Parts.cons (findSuitable_length _ _ _ _ _ _ h1) ?_ hp⟩
        intro h hh
        exact (findSuitable_mem _ _ _ _ _ _ h1 h hh).2

theorem parts_le (cx : Ctx) (sid : Nat) (rc : List (String × Nat)) (parts : List (List HostSpec)) (h : Parts cx sid rc parts) :
    (parts.flatten).length ≤ (rc.map (·.2)).sum := by
  induction h with
  | nil => simp
  | cons hle _ _ ih => simp only [List.flatten_cons, List.length_append, List.map_cons, List.sum_cons]; omega

/-- if the parts together are as long as the counts together, every part is exactly as long as its count -/
theorem parts_exact (cx : Ctx) (sid : Nat) (rc : List (String × Nat)) (parts : List (List HostSpec)) (h : Parts cx sid rc parts) :
    (parts.flatten).length ≥ (rc.map (·.2)).sum → parts.map (·.length) = rc.map (·.2) := by
  induction h with
  | nil => intro _; rfl
  | cons hle _ hrest ih =>
    intro hsum
    simp only [List.flatten_cons, List.length_append, List.map_cons, List.sum_cons] at hsum
    have hrestle := parts_le cx sid _ _ hrest
    simp only [List.map_cons]
    rw [ih (by omega)]
    congr 1
    omega

theorem map_zip_snd_take {α β γ : Type} (g : β → γ) : ∀ (a : List α) (b : List β),
    (a.zip b).map (fun p => g p.2) = (b.take a.length).map g
  | [], b => by simp
  | _ :: _, [] => by simp
  | _ :: as, y :: ys => by simp [map_zip_snd_take g as ys]

/-- C08 `quotas_respected` (repaired launch): in an accepted per-shard plan the selected hosts are, region entry by
    region entry, exactly `count` live hosts of that region that do not host the shard -/
theorem launchShardF_quota (cx : Ctx) (rg : Regions) (d : ShardDef) (draws : List Nat) (reqs : List Request) (rest : List Nat)
    (h : launchShardF cx rg d draws = .ok reqs rest) :
    ∃ parts, Parts cx d.shardId (rg.region.zip rg.count) parts ∧
      parts.map (·.length) = (rg.region.zip rg.count).map (·.2) ∧
      reqs.map (·.raftAddress) = ((parts.flatten).take d.members.length).map (·.address) := by
  unfold launchShardF at h
  split at h
  · cases h
  · split at h
    · cases h
    · rename_i hsumeq
      cases hsel : selectRegions cx d.shardId (rg.region.zip rg.count) draws with
      | none => simp [hsel] at h
      | some q =>
        obtain ⟨sel, rest'⟩ := q
        simp only [hsel] at h
        split at h
        · cases h
        · rename_i hlen
          split at h
          · cases h
          · cases h
            obtain ⟨parts, hfl, hp⟩ := selectRegions_parts cx d.shardId _ draws sel rest hsel
            have hub := parts_le cx d.shardId _ _ hp
            have hz := sum_zip_le rg.region rg.count
            refine ⟨parts, hp, parts_exact cx d.shardId _ _ hp (by rw [← hfl]; simp at hsumeq hlen; omega), ?_⟩
            rw [← hfl]
            unfold launchReqs
            simp only [List.map_map]
            exact map_zip_snd_take (fun (h : HostSpec) => h.address) d.members sel

#print axioms launchShardF_quota
#print axioms selectRegions_parts
#print axioms parts_exact
end Drummer
