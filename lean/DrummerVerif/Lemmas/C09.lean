import DrummerVerif.Lemmas.C13
import DrummerVerif.Lemmas.C05
/-! C09 prototype on M-DB: launch is accepted once; the deadline discipline -/
namespace Drummer

theorem isLaunchBatch_spec (rs : List Request) (b : Bool) (h : isLaunchBatch rs = .ok b) :
    (b = true → rs ≠ [] ∧ ∀ r ∈ rs, isLaunchReq r = true) ∧ (b = false → ∀ r ∈ rs, isLaunchReq r = false) := by
  unfold isLaunchBatch at h
  split at h
  · cases h
  · rename_i hmix
    cases h
    constructor
    · intro hb
      simp only [decide_eq_true_eq] at hb
      have hall : (rs.filter isLaunchReq).length = rs.length := by
        apply Classical.byContradiction; intro hne; exact hmix ⟨hb, hne⟩
      refine ⟨by intro h0; subst h0; simp at hb, ?_⟩
      have := List.length_filter_eq_length_iff.mp hall
      exact this
    · intro hb
      simp only [decide_eq_false_iff_not, Nat.not_lt, Nat.le_zero_eq, List.length_eq_zero_iff] at hb
      intro r hr
      have : r ∉ rs.filter isLaunchReq := by rw [hb]; simp
      simp only [List.mem_filter, not_and, Bool.not_eq_true] at this
      exact this hr

/-- C09 `never_mixed`: an accepted batch is either all-launch or contains no launch request -/
theorem never_mixed (d d' : DB) (rs : List Request) (n : Nat) (h : d.applyRequests rs = .ok (d', n)) :
    (∀ r ∈ rs, isLaunchReq r = true) ∨ (∀ r ∈ rs, isLaunchReq r = false) := by
  unfold DB.applyRequests at h
  cases hl : isLaunchBatch rs with
  | panic w => simp [hl] at h
  | ok b =>
    cases b with
    | true => exact Or.inl ((isLaunchBatch_spec rs true hl).1 rfl).2
    | false => exact Or.inr ((isLaunchBatch_spec rs false hl).2 rfl)

/-- C09 `launch_once`: once the launched flag is set, a launch batch is ignored: result 0, state unchanged -/
theorem launch_ignored_when_launched (d d' : DB) (rs : List Request) (n : Nat) (hlaunched : d.launched = true)
    (hbatch : isLaunchBatch rs = .ok true) (h : d.applyRequests rs = .ok (d', n)) : d' = d ∧ n = 0 := by
  unfold DB.applyRequests at h
  simp only [hbatch, hlaunched, Bool.and_self, if_true] at h
  cases h; exact ⟨rfl, rfl⟩

/-- C09 `deadline_set`: an accepted launch batch sets the flag and arms the deadline at `tick + 24·5` -/
theorem launch_accepted (d d' : DB) (rs : List Request) (n : Nat) (hnot : d.launched = false)
    (hbatch : isLaunchBatch rs = .ok true) (h : d.applyRequests rs = .ok (d', n)) :
    d'.launched = true ∧ d'.launchDeadline = d.tick + launchDeadlineTick * tickInterval ∧ n = rs.length := by
  unfold DB.applyRequests at h
  simp only [hbatch, hnot, Bool.false_and, Bool.false_eq_true, if_false, if_true] at h
  cases hm : (d.mergeRequests rs).markLaunched with
  | panic w => simp [hm] at h
  | ok d2 =>
    simp only [hm] at h
    cases h
    unfold DB.markLaunched at hm
    cases hk : (d.mergeRequests rs).applyKV launchedRec with
    | panic w => simp [hk] at hm
    | ok p =>
      obtain ⟨d3, code⟩ := p
      simp only [hk] at hm
      by_cases hc : (code != DBKVUpdated) = true
      · simp [hc] at hm
      · simp only [hc] at hm
        cases hm
        have hget := applyKV_get _ _ _ _ hk launchedKey
        have htick : d3.tick = d.tick := by
          have := applyKV_tick (d.mergeRequests rs) d3 launchedRec code hk
          simpa [DB.mergeRequests] using this
        refine ⟨?_, by simp [htick], rfl⟩
        unfold DB.launched
        simp only
        rw [hget]
        simp only [launchedRec, if_true]
        cases hg : kvGet (d.mergeRequests rs).kv launchedKey with
        | none => simp
        | some old => simp only; split <;> simp; split <;> simp

end Drummer
