import DrummerVerif.Lemmas.C09H
/-! C09 prototype: the launch deadline over whole histories — armed once, never passed silently, disarmed for good -/
namespace Drummer

/-- the deadline-relevant part of a state: `Safe` = launched and disarmed; `Armed` = the clock has not passed it -/
def DB.DeadlineOK (d : DB) : Prop := d.launchDeadline > 0 → d.tick ≤ d.launchDeadline
def DB.Disarmed (d : DB) : Prop := d.launched = true ∧ d.launchDeadline = 0

theorem applyKV_frame (d d' : DB) (kv : KVRec) (n : Nat) (h : d.applyKV kv = .ok (d', n)) :
    d'.tick = d.tick ∧ d'.launchDeadline = d.launchDeadline := by
  unfold DB.applyKV at h
  split at h
  · cases h
  · split at h
    · cases h; exact ⟨rfl, rfl⟩
    · split at h
      · cases h; exact ⟨rfl, rfl⟩
      · split at h <;> (cases h; exact ⟨rfl, rfl⟩)

theorem applyShard_frame (d d' : DB) (c : ShardDef) (n : Nat) (h : d.applyShard c = .ok (d', n)) :
    d'.tick = d.tick ∧ d'.launchDeadline = d.launchDeadline := by
  unfold DB.applyShard at h
  split at h
  · cases h
  · split at h
    · cases h
    · split at h
      · cases h; exact ⟨rfl, rfl⟩
      · split at h <;> (cases h; exact ⟨rfl, rfl⟩)

/-- a report never moves the clock and can only disarm the deadline -/
theorem applyReport_frame (d d' : DB) (nhi : NodeHostInfo) (n : Nat) (h : d.applyReport nhi = .ok (d', n)) :
    d'.tick = d.tick ∧ (d'.launchDeadline = d.launchDeadline ∨ d'.launchDeadline = 0) := by
  unfold DB.applyReport at h
  cases hv : d.reportView nhi with
  | panic w => simp [hv] at h
  | ok d1 =>
    simp only [hv] at h
    cases h
    have h1 : d1.tick = d.tick ∧ d1.launchDeadline = d.launchDeadline := by
      unfold DB.reportView at hv
      cases hu : d.image.update { nhi with lastTick := d.tick } with
      | panic w => simp [hu] at hv
      | ok image => simp only [hu] at hv; cases hv; exact ⟨rfl, rfl⟩
    have h2 : (d1.moveRequests nhi.raftAddress).1.tick = d1.tick ∧
        (d1.moveRequests nhi.raftAddress).1.launchDeadline = d1.launchDeadline := by
      unfold DB.moveRequests; split <;> exact ⟨rfl, rfl⟩
    unfold DB.onUpdatedShardInfo
    split
    · exact ⟨by show (d1.moveRequests nhi.raftAddress).1.tick = d.tick; rw [h2.1, h1.1], Or.inr rfl⟩
    · exact ⟨by rw [h2.1, h1.1], Or.inl (by rw [h2.2, h1.2])⟩

/-- what a `requests` command does to clock and deadline: nothing, or (first launch batch) arm it 120 s ahead -/
theorem applyRequests_deadline (d d' : DB) (rs : List Request) (n : Nat) (h : d.applyRequests rs = .ok (d', n)) :
    d'.tick = d.tick ∧ (d'.launchDeadline = d.launchDeadline ∨
      (d.launched = false ∧ d'.launchDeadline = d.tick + launchDeadlineTick * tickInterval)) := by
  unfold DB.applyRequests at h
  cases hb : isLaunchBatch rs with
  | panic w => simp [hb] at h
  | ok launch =>
    simp only [hb] at h
    by_cases h1 : (d.launched && launch) = true
    · simp only [h1, if_true] at h; cases h; exact ⟨rfl, Or.inl rfl⟩
    · simp only [h1] at h
      by_cases h2 : launch = true
      · simp only [h2, if_true] at h
        have hnl : d.launched = false := by
          cases hl : d.launched with
          | false => rfl
          | true => simp [hl, h2] at h1
        cases hm : (d.mergeRequests rs).markLaunched with
        | panic w => simp [hm] at h
        | ok d2 =>
          simp only [hm] at h; cases h
          unfold DB.markLaunched at hm
          cases hk : (d.mergeRequests rs).applyKV launchedRec with
          | panic w => simp [hk] at hm
          | ok p =>
            obtain ⟨d3, code⟩ := p
            simp only [hk] at hm
            split at hm
            · cases hm
            · cases hm
              obtain ⟨e1, _⟩ := applyKV_frame _ _ _ _ hk
              have e3 : (d.mergeRequests rs).tick = d.tick := rfl
              exact ⟨by show d3.tick = d.tick; rw [e1, e3], Or.inr ⟨hnl, by show d3.tick + _ = _; rw [e1, e3]⟩⟩
      · simp only [h2] at h; cases h; exact ⟨rfl, Or.inl rfl⟩

/-- `deadline_missed_failstop`, one step: while the deadline is armed, the tick that would pass it panics — on every
    replica, since `apply` is a function — and no other tick does -/
theorem tick_failstop_iff (d : DB) (hf : d.failed = false) :
    (∃ w, d.apply .tick = .panic w) ↔ (d.launchDeadline > 0 ∧ d.tick + tickInterval > d.launchDeadline) := by
  unfold DB.apply DB.applyTick
  simp only [hf, Bool.false_eq_true, if_false]
  by_cases hc : (decide (d.launchDeadline > 0) && decide (d.tick + tickInterval > d.launchDeadline)) = true
  · simp only [hc, if_true]
    simp only [Bool.and_eq_true, decide_eq_true_eq] at hc
    exact ⟨fun _ => hc, fun _ => ⟨_, rfl⟩⟩
  · simp only [hc, if_false]
    simp only [Bool.and_eq_true, decide_eq_true_eq] at hc
    exact ⟨fun ⟨w, hw⟩ => (by cases hw), fun h => absurd h hc⟩

/-- one command keeps "the clock has not silently passed an armed deadline" -/
theorem apply_deadlineOK (d d' : DB) (c : Cmd) (n : Nat) (h : d.apply c = .ok (d', n)) (hok : d.DeadlineOK) :
    d'.DeadlineOK := by
  unfold DB.apply at h
  by_cases hfail : d.failed = true
  · simp [hfail] at h
  · simp only [hfail] at h
    unfold DB.DeadlineOK at *
    cases c with
    | tick =>
      simp only at h
      cases ht : d.applyTick with
      | panic w => simp [ht] at h
      | ok p =>
        simp only [ht] at h; cases h
        unfold DB.applyTick at ht
        simp only at ht
        split at ht
        · cases ht
        · rename_i hc
          cases ht
          intro hpos
          simp only [Bool.and_eq_true, decide_eq_true_eq, not_and, Nat.not_lt] at hc
          exact hc hpos
    | shard c => obtain ⟨e1, e2⟩ := applyShard_frame d d' c n h; rw [e1, e2]; exact hok
    | kv rec => obtain ⟨e1, e2⟩ := applyKV_frame d d' rec n h; rw [e1, e2]; exact hok
    | report nhi =>
      obtain ⟨e1, e2⟩ := applyReport_frame d d' nhi n h
      rcases e2 with e2 | e2
      · rw [e1, e2]; exact hok
      · rw [e2]; intro hc; cases hc
    | requests rs =>
      obtain ⟨e1, e2⟩ := applyRequests_deadline d d' rs n h
      rcases e2 with e2 | ⟨_, e2⟩
      · rw [e1, e2]; exact hok
      · rw [e1, e2]; intro _; omega

/-- one command keeps "launched and disarmed" -/
theorem apply_disarmed (d d' : DB) (c : Cmd) (n : Nat) (h : d.apply c = .ok (d', n)) (hd : d.Disarmed) : d'.Disarmed := by
  refine ⟨apply_preserves_present d d' c n h launchedKey hd.1, ?_⟩
  unfold DB.apply at h
  by_cases hfail : d.failed = true
  · simp [hfail] at h
  · simp only [hfail] at h
    cases c with
    | tick =>
      simp only at h
      cases ht : d.applyTick with
      | panic w => simp [ht] at h
      | ok p =>
        simp only [ht] at h; cases h
        unfold DB.applyTick at ht
        simp only at ht
        split at ht
        · cases ht
        · cases ht; exact hd.2
    | shard c => rw [(applyShard_frame d d' c n h).2]; exact hd.2
    | kv rec => rw [(applyKV_frame d d' rec n h).2]; exact hd.2
    | report nhi =>
      rcases (applyReport_frame d d' nhi n h).2 with e | e
      · rw [e]; exact hd.2
      · exact e
    | requests rs =>
      rcases (applyRequests_deadline d d' rs n h).2 with e | ⟨e, _⟩
      · rw [e]; exact hd.2
      · rw [hd.1] at e; cases e

/-- C09 `deadline_cancelled_for_good` and the safety half of `deadline_missed_failstop`, over any history: a run that
    does not fail-stop never lets the clock pass an armed deadline, and once launched-and-disarmed stays so for ever -/
theorem deadline_history : ∀ (cs : List Cmd) (d d' : DB), runCmds d cs = .ok d' →
    (d.DeadlineOK → d'.DeadlineOK) ∧ (d.Disarmed → d'.Disarmed) := by
  intro cs
  induction cs with
  | nil => intro d d' h; simp [runCmds] at h; subst h; exact ⟨id, id⟩
  | cons c cs ih =>
    intro d d' h
    unfold runCmds at h
    cases ha : d.apply c with
    | panic w => simp [ha] at h
    | ok p =>
      obtain ⟨d1, n⟩ := p
      simp only [ha] at h
      obtain ⟨i1, i2⟩ := ih d1 d' h
      exact ⟨fun hok => i1 (apply_deadlineOK d d1 c n ha hok), fun hd => i2 (apply_disarmed d d1 c n ha hd)⟩

theorem onUpdated_disarms (x : DB) (hall : x.onUpdatedShardInfo.allLaunched = true) :
    x.onUpdatedShardInfo.launchDeadline = 0 := by
  unfold DB.onUpdatedShardInfo at hall ⊢
  by_cases hc : (decide (x.launchDeadline > 0) && x.allLaunched) = true
  · rw [if_pos hc]
  · rw [if_neg hc] at hall ⊢
    rw [hall] at hc
    simpa using hc

/-- the disarming event itself (repaired semantics): a report after which every *defined* shard is fully reported -/
theorem report_disarms (d d' : DB) (nhi : NodeHostInfo) (n : Nat) (h : d.applyReport nhi = .ok (d', n))
    (hall : d'.allLaunched = true) : d'.launchDeadline = 0 := by
  unfold DB.applyReport at h
  cases hv : d.reportView nhi with
  | panic w => simp [hv] at h
  | ok d1 =>
    simp only [hv] at h
    cases h
    exact onUpdated_disarms _ hall

#print axioms deadline_history
#print axioms tick_failstop_iff
#print axioms report_disarms
end Drummer
