import DrummerVerif.Lemmas.C13H
import DrummerVerif.Lemmas.C09
/-! C09 prototype, lifted to histories: the launched flag is set at most once and for ever -/
namespace Drummer

theorem applyKV_present (d d' : DB) (kv : KVRec) (n : Nat) (h : d.applyKV kv = .ok (d', n)) (k : Bytes)
    (hp : (kvGet d.kv k).isSome = true) : (kvGet d'.kv k).isSome = true := by
  rw [applyKV_get d d' kv n h k]
  by_cases hk : k = kv.key
  · subst hk
    cases hg : kvGet d.kv kv.key with
    | none => rw [hg] at hp; cases hp
    | some old =>
      simp only [if_true]
      by_cases h1 : old.finalized = true
      · simp [h1]
      · by_cases h2 : old.instanceId = kv.instanceId ∨ old.instanceId = kv.oldInstanceId
        · simp [h1, h2]
        · simp [h1, h2]
  · simp [hk, hp]

theorem apply_preserves_present (d d' : DB) (c : Cmd) (n : Nat) (h : d.apply c = .ok (d', n))
    (k : Bytes) (hp : (kvGet d.kv k).isSome = true) : (kvGet d'.kv k).isSome = true := by
  unfold DB.apply at h
  by_cases hfail : d.failed = true
  · simp [hfail] at h
  · simp only [hfail] at h
    cases c with
    | tick =>
      simp only at h
      cases ht : d.applyTick with
      | panic w => simp [ht] at h
      | ok p =>
        simp only [ht] at h; cases h
        unfold DB.applyTick at ht
        simp only at ht
        split at ht
        · cases ht
        · cases ht; exact hp
    | shard c => rw [applyShard_kv d d' c n h]; exact hp
    | kv rec => exact applyKV_present d d' rec n h k hp
    | report nhi => rw [applyReport_kv d d' nhi n h]; exact hp
    | requests rs =>
      simp only at h
      unfold DB.applyRequests at h
      cases hl : isLaunchBatch rs with
      | panic w => simp [hl] at h
      | ok launch =>
        simp only [hl] at h
        by_cases h1 : (d.launched && launch) = true
        · simp only [h1, if_true] at h; cases h; exact hp
        · simp only [h1] at h
          by_cases h2 : launch = true
          · simp only [h2, if_true] at h
            cases hm : (d.mergeRequests rs).markLaunched with
            | panic w => simp [hm] at h
            | ok d2 =>
              simp only [hm] at h; cases h
              unfold DB.markLaunched at hm
              cases hk : (d.mergeRequests rs).applyKV launchedRec with
              | panic w => simp [hk] at hm
              | ok p =>
                obtain ⟨d3, code⟩ := p
                simp only [hk] at hm
                split at hm
                · cases hm
                · cases hm
                  exact applyKV_present (d.mergeRequests rs) d3 launchedRec code hk k (by simpa [DB.mergeRequests] using hp)
          · simp only [h2] at h; cases h; simpa [DB.mergeRequests] using hp

/-- C09 `launch_once`: once the DB is launched it stays launched through every further history, so every later
    launch batch is ignored (`launch_ignored_when_launched`) -/
theorem launched_forever : ∀ (cs : List Cmd) (d d' : DB), runCmds d cs = .ok d' → d.launched = true → d'.launched = true := by
  intro cs
  induction cs with
  | nil => intro d d' h hl; simp [runCmds] at h; subst h; exact hl
  | cons c cs ih =>
    intro d d' h hl
    unfold runCmds at h
    cases ha : d.apply c with
    | panic w => simp [ha] at h
    | ok p =>
      obtain ⟨d1, n⟩ := p
      simp only [ha] at h
      exact ih d1 d' h (apply_preserves_present d d1 c n ha launchedKey hl)

#print axioms launched_forever
end Drummer
