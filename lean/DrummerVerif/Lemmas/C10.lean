import DrummerVerif.Model.Db
/-! C10 prototype on M-DB: the per-address mailbox refinement -/
namespace Drummer

variable {ν : Type}

@[simp] theorem amGet_amDel (m : List (Addr × ν)) (a b : Addr) :
    amGet (amDel m a) b = if a = b then none else amGet m b := by
  unfold amGet amDel
  rw [List.find?_filter]
  by_cases h : a = b
  · subst h
    simp only [if_true, Option.map_eq_none_iff, List.find?_eq_none]
    intro x _; simp
  · simp only [h, if_false]
    congr 2
    funext e
    by_cases h2 : e.1 = b
    · have : ¬ e.1 = a := fun hh => h (hh ▸ h2)
      simp [h2, this]
      intro hh; exact absurd hh.symm h
    · simp [h2]

@[simp] theorem amGet_amPut (m : List (Addr × ν)) (a b : Addr) (v : ν) :
    amGet (amPut m a v) b = if a = b then some v else amGet m b := by
  by_cases h : a = b
  · simp [amPut, amGet, List.find?, h]
  · have := amGet_amDel m a b
    simp only [h, if_false] at this ⊢
    rw [← this]
    simp [amPut, amGet, List.find?, h]

def forAddr (rs : List Request) (a : Addr) : List Request := rs.filter (fun r => decide (r.raftAddress = a))

theorem amGet_foldl_groupStep (rs : List Request) (m : List (Addr × List Request)) (a : Addr) :
    amGet (rs.foldl groupStep m) a =
      if forAddr rs a = [] then amGet m a else some ((amGet m a).getD [] ++ forAddr rs a) := by
  induction rs generalizing m with
  | nil => simp [forAddr]
  | cons r rs ih =>
    simp only [List.foldl_cons, ih]
    by_cases h : r.raftAddress = a
    · simp [groupStep, h, forAddr, List.filter_cons]
    · simp [groupStep, h, forAddr, List.filter_cons]

/-- keys of the grouped map are exactly the addresses that occur, each once -/
theorem amGet_grouped (rs : List Request) (a : Addr) :
    amGet (rs.foldl groupStep []) a = if forAddr rs a = [] then none else some (forAddr rs a) := by
  rw [amGet_foldl_groupStep]; simp [amGet]

theorem amGet_cons (p : Addr × ν) (g : List (Addr × ν)) (a : Addr) :
    amGet (p :: g) a = if p.1 = a then some p.2 else amGet g a := by
  by_cases h : p.1 = a
  · simp [amGet, List.find?, h]
  · have hb : (p.1 == a) = false := by simpa using h
    simp [amGet, List.find?, h, hb]

theorem amGet_none_of_not_mem (g : List (Addr × ν)) (a : Addr) (h : a ∉ g.map (·.1)) : amGet g a = none := by
  unfold amGet
  simp only [Option.map_eq_none_iff, List.find?_eq_none]
  intro x hx hh
  apply h
  simp only [beq_iff_eq] at hh
  rw [← hh]; exact List.mem_map_of_mem hx

/-- merging the grouped batches into the pending map: last writer wins per address -/
theorem amGet_merge (g m : List (Addr × List Request)) (a : Addr) (hnd : (g.map (·.1)).Nodup) :
    amGet (g.foldl (fun m (p : Addr × List Request) => amPut m p.1 p.2) m) a =
      (amGet g a).orElse (fun _ => amGet m a) := by
  induction g generalizing m with
  | nil => simp [amGet]
  | cons p g ih =>
    simp only [List.map_cons, List.nodup_cons] at hnd
    simp only [List.foldl_cons]
    rw [ih _ hnd.2, amGet_cons]
    by_cases h : p.1 = a
    · subst h
      simp [amGet_none_of_not_mem g p.1 hnd.1]
    · simp [h]

theorem keys_amPut_nodup (m : List (Addr × ν)) (a : Addr) (v : ν) (h : (m.map (·.1)).Nodup) :
    ((amPut m a v).map (·.1)).Nodup := by
  unfold amPut amDel
  simp only [List.map_cons, List.nodup_cons]
  refine ⟨?_, h.sublist (List.Sublist.map _ List.filter_sublist)⟩
  simp

theorem keys_grouped_nodup (rs : List Request) : ∀ (m : List (Addr × List Request)),
    (m.map (·.1)).Nodup → ((rs.foldl groupStep m).map (·.1)).Nodup := by
  induction rs with
  | nil => intro m h; exact h
  | cons r rs ih => intro m h; exact ih _ (keys_amPut_nodup m _ _ h)

/-- abstract per-address mailbox -/
structure Box where
  pend : Option (List Request) := none
  out : Option (List Request) := none

def Rel (d : DB) (a : Addr) (b : Box) : Prop := amGet d.requests a = b.pend ∧ amGet d.outgoing a = b.out

/-- spec of a scheduling round for address `a`: the batch replaces the pending one iff it is accepted and
    contains something for `a` -/
def Box.sched (b : Box) (accepted : Bool) (rs : List Request) (a : Addr) : Box :=
  if accepted && !(forAddr rs a).isEmpty then { b with pend := some (forAddr rs a) } else b

/-- spec of a report from `addr`, seen from address `a` -/
def Box.report (b : Box) (addr a : Addr) : Box := if addr = a then { pend := none, out := b.pend } else b

theorem applyKV_mailboxes (d d' : DB) (kv : KVRec) (c : Nat) (h : d.applyKV kv = .ok (d', c)) :
    d'.requests = d.requests ∧ d'.outgoing = d.outgoing := by
  unfold DB.applyKV at h
  by_cases h0 : (kv.key.isEmpty || kv.value.isEmpty) = true
  · simp [h0] at h
  · simp only [h0] at h
    cases hg : kvGet d.kv kv.key with
    | none => simp only [hg] at h; cases h; exact ⟨rfl, rfl⟩
    | some old =>
      simp only [hg] at h
      by_cases hf : old.finalized = true
      · simp only [hf, if_true] at h; cases h; exact ⟨rfl, rfl⟩
      · simp only [hf] at h
        by_cases hc : (old.instanceId == kv.instanceId || old.instanceId == kv.oldInstanceId) = true
        · simp only [hc, if_true] at h; cases h; exact ⟨rfl, rfl⟩
        · simp only [hc] at h; cases h; exact ⟨rfl, rfl⟩

theorem mergeRequests_rel (d : DB) (rs : List Request) (a : Addr) (b : Box) (hr : Rel d a b) :
    Rel (d.mergeRequests rs) a (b.sched true rs a) := by
  unfold Rel Box.sched DB.mergeRequests
  simp only
  rw [amGet_merge _ _ _ (keys_grouped_nodup rs [] (by simp)), amGet_grouped]
  by_cases he : forAddr rs a = []
  · simp [he, hr.1, hr.2]
  · simp [he, hr.2]

theorem markLaunched_mailboxes (d d' : DB) (h : d.markLaunched = .ok d') :
    d'.requests = d.requests ∧ d'.outgoing = d.outgoing := by
  unfold DB.markLaunched at h
  cases hk : d.applyKV launchedRec with
  | panic w => simp [hk] at h
  | ok p =>
    obtain ⟨d2, code⟩ := p
    simp only [hk] at h
    by_cases hc : (code != DBKVUpdated) = true
    · simp [hc] at h
    · simp only [hc] at h
      cases h
      exact applyKV_mailboxes d d2 _ code hk

/-- C10, scheduling side: an accepted batch replaces, per address, exactly the pending batch of the addresses
    it mentions; an ignored launch batch changes nothing -/
theorem applyRequests_refines (d d' : DB) (rs : List Request) (n : Nat) (a : Addr) (b : Box)
    (h : d.applyRequests rs = .ok (d', n)) (hr : Rel d a b) :
    (Rel d' a (b.sched true rs a) ∧ n = rs.length) ∨ (d' = d ∧ n = 0) := by
  unfold DB.applyRequests at h
  cases hl : isLaunchBatch rs with
  | panic w => simp [hl] at h
  | ok launch =>
    simp only [hl] at h
    by_cases h1 : (d.launched && launch) = true
    · simp only [h1, if_true] at h; cases h; exact Or.inr ⟨rfl, rfl⟩
    · simp only [h1] at h
      by_cases h2 : launch = true
      · simp only [h2, if_true] at h
        cases hm : (d.mergeRequests rs).markLaunched with
        | panic w => simp [hm] at h
        | ok d2 =>
          simp only [hm] at h
          cases h
          left
          obtain ⟨e1, e2⟩ := markLaunched_mailboxes _ _ hm
          have := mergeRequests_rel d rs a b hr
          exact ⟨⟨e1 ▸ this.1, e2 ▸ this.2⟩, rfl⟩
      · simp only [h2] at h
        cases h
        exact Or.inl ⟨mergeRequests_rel d rs a b hr, rfl⟩

theorem reportView_mailboxes (d d1 : DB) (nhi : NodeHostInfo) (h : d.reportView nhi = .ok d1) :
    d1.requests = d.requests ∧ d1.outgoing = d.outgoing := by
  unfold DB.reportView at h
  cases hu : d.image.update { nhi with lastTick := d.tick } with
  | panic w => simp [hu] at h
  | ok image => simp only [hu] at h; cases h; exact ⟨rfl, rfl⟩

theorem onUpdatedShardInfo_mailboxes (d : DB) :
    d.onUpdatedShardInfo.requests = d.requests ∧ d.onUpdatedShardInfo.outgoing = d.outgoing := by
  unfold DB.onUpdatedShardInfo
  split <;> exact ⟨rfl, rfl⟩

theorem moveRequests_rel (d : DB) (addr a : Addr) (b : Box) (hr : Rel d a b) :
    Rel (d.moveRequests addr).1 a (b.report addr a) ∧
    (addr = a → (d.moveRequests addr).2 = (b.pend.getD []).length ∧
      (amGet (d.moveRequests addr).1.outgoing a).getD [] = b.pend.getD []) := by
  unfold DB.moveRequests Rel Box.report at *
  obtain ⟨h1, h2⟩ := hr
  cases hg : amGet d.requests addr with
  | some rs =>
    simp only
    by_cases he : addr = a
    · subst he
      rw [hg] at h1
      simp [← h1]
    · simp [he, h1, h2]
  | none =>
    simp only
    by_cases he : addr = a
    · subst he
      rw [hg] at h1
      simp [← h1, hg]
    · simp [he, h1, h2]

/-- C10, report side: the reply to a report from `addr` is exactly the batch pending for `addr` (empty if none),
    it is then no longer pending, what was handed out before is forgotten, and other addresses are untouched -/
theorem applyReport_refines (d d' : DB) (nhi : NodeHostInfo) (n : Nat) (a : Addr) (b : Box)
    (h : d.applyReport nhi = .ok (d', n)) (hr : Rel d a b) :
    Rel d' a (b.report nhi.raftAddress a) ∧
    (nhi.raftAddress = a → n = (b.pend.getD []).length ∧ d'.lookupRequests a = b.pend.getD []) := by
  unfold DB.applyReport at h
  cases hv : d.reportView nhi with
  | panic w => simp [hv] at h
  | ok d1 =>
    simp only [hv] at h
    cases h
    obtain ⟨e1, e2⟩ := reportView_mailboxes d d1 nhi hv
    have hr1 : Rel d1 a b := ⟨e1 ▸ hr.1, e2 ▸ hr.2⟩
    obtain ⟨m1, m2⟩ := moveRequests_rel d1 nhi.raftAddress a b hr1
    obtain ⟨o1, o2⟩ := onUpdatedShardInfo_mailboxes (d1.moveRequests nhi.raftAddress).1
    refine ⟨⟨o1 ▸ m1.1, o2 ▸ m1.2⟩, fun he => ?_⟩
    obtain ⟨k1, k2⟩ := m2 he
    refine ⟨k1, ?_⟩
    unfold DB.lookupRequests
    rw [o2]; exact k2

#print axioms applyRequests_refines
#print axioms applyReport_refines
end Drummer
