import DrummerVerif.Lemmas.C10
import DrummerVerif.Lemmas.C13H
/-! C10 prototype, lifted to histories: for every command history the two mailbox maps of the replicated state are,
    per address, exactly the two-slot box of the specification -/
namespace Drummer

/-- a launch batch is ignored once the DB is launched (C09) -/
def DB.ignores (d : DB) (rs : List Request) : Bool :=
  d.launched && (match isLaunchBatch rs with | .ok l => l | .panic _ => false)

/-- the specification: what one command does to the box of address `a` -/
def Box.step (b : Box) (d : DB) (a : Addr) : Cmd → Box
  | .requests rs => b.sched (!d.ignores rs) rs a
  | .report nhi => b.report nhi.raftAddress a
  | _ => b

theorem applyShard_mailboxes (d d' : DB) (c : ShardDef) (n : Nat) (h : d.applyShard c = .ok (d', n)) :
    d'.requests = d.requests ∧ d'.outgoing = d.outgoing := by
  unfold DB.applyShard at h
  split at h
  · cases h
  · split at h
    · cases h
    · split at h
      · cases h; exact ⟨rfl, rfl⟩
      · split at h <;> (cases h; exact ⟨rfl, rfl⟩)

theorem apply_refines (d d' : DB) (c : Cmd) (n : Nat) (a : Addr) (b : Box) (h : d.apply c = .ok (d', n)) (hr : Rel d a b) :
    Rel d' a (b.step d a c) := by
  unfold DB.apply at h
  by_cases hfail : d.failed = true
  · simp [hfail] at h
  · simp only [hfail] at h
    cases c with
    | tick =>
      simp only at h
      cases ht : d.applyTick with
      | panic w => simp [ht] at h
      | ok p =>
        simp only [ht] at h; cases h
        unfold DB.applyTick at ht
        simp only at ht
        split at ht
        · cases ht
        · cases ht; exact hr
    | shard sc =>
      obtain ⟨e1, e2⟩ := applyShard_mailboxes d d' sc n h
      exact ⟨e1 ▸ hr.1, e2 ▸ hr.2⟩
    | kv rec =>
      obtain ⟨e1, e2⟩ := applyKV_mailboxes d d' rec n h
      exact ⟨e1 ▸ hr.1, e2 ▸ hr.2⟩
    | report nhi => exact (applyReport_refines d d' nhi n a b h hr).1
    | requests rs =>
      simp only at h
      show Rel d' a (b.sched (!d.ignores rs) rs a)
      unfold DB.applyRequests at h
      unfold DB.ignores
      cases hl : isLaunchBatch rs with
      | panic w => simp [hl] at h
      | ok launch =>
        simp only [hl] at h
        by_cases h1 : (d.launched && launch) = true
        · simp only [h1, if_true] at h; cases h
          simp only [h1, Bool.not_true]
          unfold Box.sched; simpa using hr
        · simp only [h1] at h
          have hb : (!(d.launched && launch)) = true := by cases hx : (d.launched && launch) <;> simp_all
          rw [hb]
          by_cases h2 : launch = true
          · simp only [h2, if_true] at h
            cases hm : (d.mergeRequests rs).markLaunched with
            | panic w => simp [hm] at h
            | ok d2 =>
              simp only [hm] at h
              cases h
              obtain ⟨e1, e2⟩ := markLaunched_mailboxes _ _ hm
              have := mergeRequests_rel d rs a b hr
              exact ⟨e1 ▸ this.1, e2 ▸ this.2⟩
          · simp only [h2] at h
            cases h
            exact mergeRequests_rel d rs a b hr

/-- the box of `a` after a history, computed by the specification alone (the DB only says which launch batches
    were ignored) -/
def boxRun (a : Addr) : DB → Box → List Cmd → Box
  | _, b, [] => b
  | d, b, c :: cs =>
    match d.apply c with
    | .ok (d', _) => boxRun a d' (b.step d a c) cs
    | .panic _ => b

/-- C10 over histories: for every history that does not fail-stop and every address, the mailbox maps equal the
    specification's box -/
theorem history_refines (a : Addr) : ∀ (cs : List Cmd) (d d' : DB) (b : Box), runCmds d cs = .ok d' → Rel d a b →
    Rel d' a (boxRun a d b cs) := by
  intro cs
  induction cs with
  | nil => intro d d' b h hr; simp [runCmds] at h; subst h; exact hr
  | cons c cs ih =>
    intro d d' b h hr
    unfold runCmds at h
    cases ha : d.apply c with
    | panic w => simp [ha] at h
    | ok p =>
      obtain ⟨d1, n⟩ := p
      simp only [ha] at h
      unfold boxRun
      simp only [ha]
      exact ih d1 d' _ h (apply_refines d d1 c n a b ha hr)

/-- `only_addressee`, on the specification: a box only ever holds requests addressed to its own address -/
def Box.Mine (b : Box) (a : Addr) : Prop :=
  (∀ r ∈ b.pend.getD [], r.raftAddress = a) ∧ (∀ r ∈ b.out.getD [], r.raftAddress = a)

theorem step_mine (b : Box) (d : DB) (a : Addr) (c : Cmd) (hm : b.Mine a) : (b.step d a c).Mine a := by
  cases c with
  | requests rs =>
    show (b.sched (!d.ignores rs) rs a).Mine a
    unfold Box.sched
    split
    · refine ⟨?_, hm.2⟩
      intro r hr
      simp only [Option.getD_some, forAddr, List.mem_filter, decide_eq_true_eq] at hr
      exact hr.2
    · exact hm
  | report nhi =>
    show (b.report nhi.raftAddress a).Mine a
    unfold Box.report
    split
    · exact ⟨by intro r hr; simp at hr, hm.1⟩
    · exact hm
  | tick => exact hm
  | shard _ => exact hm
  | kv _ => exact hm

theorem boxRun_mine (a : Addr) : ∀ (cs : List Cmd) (d : DB) (b : Box), b.Mine a → (boxRun a d b cs).Mine a := by
  intro cs
  induction cs with
  | nil => intro d b h; exact h
  | cons c cs ih =>
    intro d b h
    unfold boxRun
    cases ha : d.apply c with
    | panic w => exact h
    | ok p => obtain ⟨d1, n⟩ := p; exact ih d1 _ (step_mine b d a c h)

/-- `only_addressee` for the implementation's state: after any history from the empty DB, whatever `lookupRequests a`
    returns is addressed to `a` -/
theorem only_addressee (a : Addr) (cs : List Cmd) (d' : DB) (h : runCmds {} cs = .ok d') :
    ∀ r ∈ d'.lookupRequests a, r.raftAddress = a := by
  have hr := history_refines a cs {} d' {} h ⟨rfl, rfl⟩
  have hm := boxRun_mine a cs {} {} ⟨by intro r hr; simp at hr, by intro r hr; simp at hr⟩
  unfold DB.lookupRequests
  rw [hr.2]
  exact hm.2

#print axioms history_refines
#print axioms only_addressee
end Drummer
