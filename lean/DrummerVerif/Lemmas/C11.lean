import DrummerVerif.Lemmas.ImageInv
/-! C11 prototype: a kill entry is recorded only for a replica outside the newest known membership whose own view is older -/
namespace Drummer

theorem killRequestRequired_spec (c : Shard) (ci : ShardInfo) (h : c.killRequestRequired ci = true) :
    c.cci > ci.cci ∧ ∀ r ∈ c.replicas, r.replicaId ≠ ci.replicaId := by
  unfold Shard.killRequestRequired at h
  by_cases hle : c.cci ≤ ci.cci
  · simp [hle] at h
  · simp only [hle, if_false, Bool.not_eq_true', List.any_eq_false, beq_iff_eq] at h
    exact ⟨by omega, fun r hr => by simpa using h r hr⟩

/-- C11 `kill_entry_justified`: whenever one iteration of `doUpdate` flags the entry for killing, the resulting image
    holds a view of that shard with a strictly newer version that does not contain the reported replica -/
theorem doUpdate1_kill_justified (t : Nat) (mc mc' : MultiShard) (ci : ShardInfo)
    (h : doUpdate1 t mc ci = .ok (mc', true)) :
    ∃ c ∈ mc'.shards, c.shardId = ci.shardId ∧ c.cci > ci.cci ∧ ∀ r ∈ c.replicas, r.replicaId ≠ ci.replicaId := by
  unfold doUpdate1 at h
  cases hf : mc.find? ci.shardId with
  | none =>
    simp only [hf] at h
    by_cases hp : (ci.pending || ci.incomplete) = true
    · simp [hp] at h
    · simp [hp] at h
  | some ec =>
    simp only [hf] at h
    obtain ⟨hmem, hid⟩ := find?_mem mc _ ec hf
    by_cases hp : (ci.pending || ci.incomplete) = true
    · simp only [hp, if_true, Outcome.ok.injEq, Prod.mk.injEq] at h
      obtain ⟨rfl, hk⟩ := h
      unfold Shard.weakKill at hk
      simp only [Bool.and_eq_true] at hk
      obtain ⟨h1, h2⟩ := killRequestRequired_spec ec ci hk.2
      exact ⟨ec, hmem, hid, h1, h2⟩
    · simp only [hp] at h
      cases hs : ec.sync ci t with
      | panic w => simp [hs] at h
      | ok p =>
        obtain ⟨rej, ec'⟩ := p
        simp only [hs] at h
        injection h with h
        injection h with hmc hkill
        subst hmc
        have hrej : rej = true := by cases rej <;> simp_all
        have hk : ec'.killRequestRequired ci = true := by cases rej <;> simp_all
        obtain ⟨h1, h2⟩ := killRequestRequired_spec ec' ci hk
        -- a rejected sync returns the shard unchanged
        have hsame : ec' = ec := by
          unfold Shard.sync at hs
          by_cases hgt : ec.cci > ci.cci
          · simp only [hgt, if_true, Outcome.ok.injEq, Prod.mk.injEq] at hs; exact hs.2.symm
          · simp only [hgt, if_false] at hs
            split at hs
            · cases hs
            · split at hs
              · cases hs
              · split at hs
                · cases hs
                · split at hs
                  · cases hs
                  · simp only [Outcome.ok.injEq, Prod.mk.injEq] at hs
                    rw [← hs.1] at hrej; cases hrej
        subst hsame
        exact ⟨ec', (mem_put _ _ _).mpr (Or.inl rfl), hid, h1, h2⟩

theorem doUpdateLoop_out_mem (t : Nat) : ∀ (infos : List ShardInfo) (mc mc' : MultiShard) (acc out : List ShardInfo),
    doUpdateLoop t mc infos acc = .ok (mc', out) → ∀ ci ∈ out, ci ∈ acc ∨ ci ∈ infos := by
  intro infos
  induction infos with
  | nil =>
    intro mc mc' acc out h ci hci
    simp [doUpdateLoop] at h
    obtain ⟨_, rfl⟩ := h
    left; simpa using hci
  | cons x rest ih =>
    intro mc mc' acc out h ci hci
    unfold doUpdateLoop at h
    cases h1 : doUpdate1 t mc x with
    | panic w => simp [h1] at h
    | ok p =>
      obtain ⟨mc1, k⟩ := p
      simp only [h1] at h
      rcases ih mc1 mc' _ out h ci hci with hm | hm
      · cases k with
        | true =>
          simp only [if_true] at hm
          rcases List.mem_cons.mp hm with rfl | hm'
          · right; simp
          · left; exact hm'
        | false => left; simpa using hm
      · right; simp [hm]

theorem updateNodeTick_toKill (mc : MultiShard) (nhi : NodeHostInfo) : (updateNodeTick mc nhi).toKill = mc.toKill := by
  unfold updateNodeTick
  induction nhi.shardInfo generalizing mc with
  | nil => rfl
  | cons ci rest ih =>
    simp only [List.foldl_cons]
    rw [ih]
    split
    · split <;> rfl
    · rfl

theorem syncLeaderInfo_toKill (mc : MultiShard) (nhi : NodeHostInfo) : (syncLeaderInfo mc nhi).toKill = mc.toKill := by
  unfold syncLeaderInfo
  induction nhi.shardInfo generalizing mc with
  | nil => rfl
  | cons ci rest ih =>
    simp only [List.foldl_cons]
    rw [ih]
    split
    · rfl
    · split
      · rfl
      · split
        · rfl
        · split
          · rfl
          · split <;> rfl

theorem doUpdate1_toKill (t : Nat) (mc mc' : MultiShard) (ci : ShardInfo) (k : Bool)
    (h : doUpdate1 t mc ci = .ok (mc', k)) : mc'.toKill = mc.toKill := by
  unfold doUpdate1 at h
  cases hf : mc.find? ci.shardId with
  | none =>
    simp only [hf] at h
    split at h <;> (cases h; rfl)
  | some ec =>
    simp only [hf] at h
    split at h
    · cases h; rfl
    · cases hs : ec.sync ci t with
      | panic w => simp [hs] at h
      | ok p => obtain ⟨rej, ec'⟩ := p; simp only [hs] at h; cases h; rfl

theorem doUpdateLoop_toKill (t : Nat) : ∀ (infos : List ShardInfo) (mc mc' : MultiShard) (acc out : List ShardInfo),
    doUpdateLoop t mc infos acc = .ok (mc', out) → mc'.toKill = mc.toKill := by
  intro infos
  induction infos with
  | nil => intro mc mc' acc out h; simp [doUpdateLoop] at h; obtain ⟨rfl, _⟩ := h; rfl
  | cons x rest ih =>
    intro mc mc' acc out h
    unfold doUpdateLoop at h
    cases h1 : doUpdate1 t mc x with
    | panic w => simp [h1] at h
    | ok p =>
      obtain ⟨mc1, k⟩ := p
      simp only [h1] at h
      rw [ih mc1 mc' _ out h, doUpdate1_toKill t mc mc1 x k h1]

/-- C11 `kill_stops` (repaired F-C11): after a report from `addr`, the kill entries of `addr` are exactly the replicas
    that *this* report listed (and flagged); entries of other addresses are untouched. A replica that is no longer
    reported is therefore never asked to be killed again, and a fleet whose hosts all report nothing stray ends up
    with an empty kill list. -/
theorem update_kill_list (mc mc' : MultiShard) (nhi : NodeHostInfo) (h : mc.update nhi = .ok mc') :
    ∀ k ∈ mc'.toKill,
      (k.address ≠ nhi.raftAddress ∧ k ∈ mc.toKill) ∨
      (k.address = nhi.raftAddress ∧ ∃ ci ∈ nhi.shardInfo, k.shardId = ci.shardId ∧ k.replicaId = ci.replicaId) := by
  unfold MultiShard.update at h
  cases hl : doUpdateLoop nhi.lastTick mc nhi.shardInfo [] with
  | panic w => simp [hl, bind] at h
  | ok p =>
    obtain ⟨mc1, flagged⟩ := p
    simp only [hl, bind, pure] at h
    cases h
    intro k hk
    rw [syncLeaderInfo_toKill] at hk
    simp only [List.mem_append, List.mem_filter, List.mem_map] at hk
    rcases hk with ⟨hm, hne⟩ | ⟨ci, hci, rfl⟩
    · left
      rw [updateNodeTick_toKill, doUpdateLoop_toKill _ _ _ _ _ _ hl] at hm
      exact ⟨by simpa using hne, hm⟩
    · right
      rcases doUpdateLoop_out_mem _ _ _ _ _ _ hl ci hci with hm | hm
      · simp at hm
      · exact ⟨rfl, ci, hm, rfl, rfl⟩

#print axioms doUpdate1_kill_justified
#print axioms update_kill_list
end Drummer
