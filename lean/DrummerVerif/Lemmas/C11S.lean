import DrummerVerif.Lemmas.C12
/-! C11, scheduler side: the kill requests of a maintenance round are exactly the recorded stray replicas -/
namespace Drummer

def killReq (k : KillEntry) : Request :=
  { type := .kill, shardId := k.shardId, members := [k.replicaId], raftAddress := k.address }

theorem killReqs_eq (cx : Ctx) : killReqs cx = cx.toKill.map killReq := rfl

/-- C11 "keeps being asked / no further kill request": a maintenance round that succeeds issues one kill request for
    every recorded stray replica, addressed to the NodeHost that reported it, and no other request of type kill;
    restore and repair never produce one -/
theorem maintain_kills_exact (cx : Ctx) (draws rest : List Nat) (rs : List Request)
    (hids : ∀ cr ∈ cx.repairs, ∀ x ∈ cr.failed, x.shardId = cr.shard.shardId)
    (h : maintain cx draws = .ok rs rest) :
    (∀ k ∈ cx.toKill, killReq k ∈ rs) ∧ (∀ r ∈ rs, r.type = .kill → ∃ k ∈ cx.toKill, r = killReq k) ∧
      (rs.filter (·.type == .kill)) = cx.toKill.map killReq := by
  unfold maintain at h
  cases hr : restore cx with
  | panic w => simp [hr] at h
  | ok rr =>
    simp only [hr] at h
    cases hp : repair cx (rr.map (·.shardId)) cx.repairs draws with
    | panic w => simp [hp] at h
    | error w => simp [hp] at h
    | ok rp dr =>
      simp only [hp] at h
      split at h
      · cases h
      · cases h
        have hrest : ∀ r ∈ rr, r.type = .create := by
          intro r hm
          obtain ⟨cr, _, n, _, host, d, _, _, _, _, hreq, _⟩ := (restore_just cx rr hr r hm).ex
          rw [hreq]; rfl
        have hrep : ∀ r ∈ rp, r.type ≠ .kill := by
          intro r hm
          obtain ⟨_, cr, _, hj⟩ := (repair_spec cx _ cx.repairs draws rp _ hids hp).1 r hm
          rcases hj.just with ⟨ht, _⟩ | ⟨ht, _⟩ | ⟨ht, _⟩ <;> rw [ht] <;> simp
        have hk : ∀ r ∈ killReqs cx, r.type = .kill := by
          intro r hm
          rw [killReqs_eq] at hm
          obtain ⟨k, _, rfl⟩ := List.mem_map.mp hm
          rfl
        refine ⟨?_, ?_, ?_⟩
        · intro k hk'
          apply List.mem_append_right
          rw [killReqs_eq]
          exact List.mem_map_of_mem hk'
        · intro r hm ht
          rcases List.mem_append.mp hm with hm | hm
          · rcases List.mem_append.mp hm with hm | hm
            · rw [hrest r hm] at ht; cases ht
            · exact absurd ht (hrep r hm)
          · rw [killReqs_eq] at hm
            obtain ⟨k, hk', rfl⟩ := List.mem_map.mp hm
            exact ⟨k, hk', rfl⟩
        · rw [List.filter_append, List.filter_append]
          have h1 : rr.filter (·.type == .kill) = [] := by
            apply List.filter_eq_nil_iff.mpr
            intro r hm; rw [hrest r hm]; simp
          have h2 : rp.filter (·.type == .kill) = [] := by
            apply List.filter_eq_nil_iff.mpr
            intro r hm; have := hrep r hm; simpa using this
          have h3 : (killReqs cx).filter (·.type == .kill) = killReqs cx := by
            apply List.filter_eq_self.mpr
            intro r hm; rw [hk r hm]; simp
          rw [h1, h2, h3, killReqs_eq]; rfl

#print axioms maintain_kills_exact
end Drummer

namespace Drummer
/-- C11 "a stray replica that keeps being reported keeps being asked": one report entry is flagged for killing exactly
    when Drummer holds a view of the shard that is newer than the replica's own and does not list the replica (for a
    pending or incomplete entry the view must in addition be non-empty and versioned) -/
theorem doUpdate1_flag_iff (t : Nat) (mc mc' : MultiShard) (ci : ShardInfo) (k : Bool)
    (h : doUpdate1 t mc ci = .ok (mc', k)) :
    k = true ↔ ∃ ec, mc.find? ci.shardId = some ec ∧ ec.cci > ci.cci ∧ (∀ r ∈ ec.replicas, r.replicaId ≠ ci.replicaId) ∧
      ((ci.pending || ci.incomplete) = true → ec.replicas.length > 0 ∧ ec.cci > 0) := by
  unfold doUpdate1 at h
  cases hf : mc.find? ci.shardId with
  | none =>
    simp only [hf] at h
    split at h <;> (cases h; simp)
  | some ec =>
    simp only [hf] at h
    have hkr : ∀ c : Shard, c.killRequestRequired ci = true ↔ (c.cci > ci.cci ∧ ∀ r ∈ c.replicas, r.replicaId ≠ ci.replicaId) := by
      intro c
      unfold Shard.killRequestRequired
      by_cases hle : c.cci ≤ ci.cci
      · simp [hle]; omega
      · simp only [hle, if_false, Bool.not_eq_true', List.any_eq_false, beq_iff_eq]
        constructor
        · intro hh; exact ⟨by omega, fun r hr => hh r hr⟩
        · intro hh r hr; exact hh.2 r hr
    split at h
    · rename_i hp
      cases h
      unfold Shard.weakKill
      simp only [Bool.and_eq_true, decide_eq_true_eq, hkr]
      constructor
      · rintro ⟨⟨h1, h2⟩, h3, h4⟩; exact ⟨ec, rfl, h3, h4, fun _ => ⟨h1, h2⟩⟩
      · rintro ⟨ec', he, h3, h4, h5⟩
        cases he
        exact ⟨h5 hp, h3, h4⟩
    · rename_i hp
      cases hs : ec.sync ci t with
      | panic w => simp [hs] at h
      | ok p =>
        obtain ⟨rej, ec'⟩ := p
        simp only [hs] at h
        cases h
        unfold Shard.sync at hs
        by_cases hgt : ec.cci > ci.cci
        · simp only [hgt, if_true] at hs
          cases hs
          simp only [Bool.true_and, hkr]
          constructor
          · rintro ⟨h3, h4⟩; exact ⟨ec, rfl, h3, h4, fun hh => absurd hh hp⟩
          · rintro ⟨ec', he, h3, h4, _⟩; cases he; exact ⟨h3, h4⟩
        · simp only [hgt, if_false] at hs
          have hrej : rej = false := by
            split at hs
            · cases hs
            · split at hs
              · cases hs
              · split at hs
                · cases hs
                · split at hs
                  · cases hs
                  · cases hs; rfl
          subst hrej
          simp only [Bool.false_and, Bool.false_eq_true, false_iff]
          rintro ⟨ec', he, h3, _⟩
          cases he
          exact hgt h3

#print axioms doUpdate1_flag_iff
end Drummer
