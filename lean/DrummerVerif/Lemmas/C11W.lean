import DrummerVerif.Lemmas.C11
/-! C11: every kill entry a report adds comes with the intermediate image that justified it -/
namespace Drummer

theorem doUpdateLoop_flagged (P : MultiShard → Prop) (t : Nat) : ∀ (infos : List ShardInfo) (mc mc' : MultiShard)
    (acc out : List ShardInfo),
    (∀ m ci m1 k, P m → ci ∈ infos → doUpdate1 t m ci = .ok (m1, k) → P m1) →
    P mc → doUpdateLoop t mc infos acc = .ok (mc', out) →
    ∀ ci ∈ out, ci ∈ acc ∨ ∃ mi mi', P mi ∧ P mi' ∧ ci ∈ infos ∧ doUpdate1 t mi ci = .ok (mi', true) := by
  intro infos
  induction infos with
  | nil =>
    intro mc mc' acc out _ _ h ci hci
    simp [doUpdateLoop] at h
    obtain ⟨_, rfl⟩ := h
    left; simpa using hci
  | cons x rest ih =>
    intro mc mc' acc out hstep hP h ci hci
    unfold doUpdateLoop at h
    cases h1 : doUpdate1 t mc x with
    | panic w => simp [h1] at h
    | ok p =>
      obtain ⟨mc1, k⟩ := p
      simp only [h1] at h
      have hP1 : P mc1 := hstep mc x mc1 k hP (by simp) h1
      rcases ih mc1 mc' _ out (fun m ci m1 k hm hci hd => hstep m ci m1 k hm (by simp [hci]) hd) hP1 h ci hci with hm | ⟨mi, mi', h2, h2', h3, h4⟩
      · cases k with
        | true =>
          simp only [if_true] at hm
          rcases List.mem_cons.mp hm with rfl | hm'
          · right; exact ⟨mc, mc1, hP, hP1, by simp, h1⟩
          · left; exact hm'
        | false => left; simpa using hm
      · right; exact ⟨mi, mi', h2, h2', by simp [h3], h4⟩

/-- the kill list after a report, with the witness for every entry of the reporting host: the entry of the report
    that was flagged and the images (satisfying any invariant `P` of the per-entry step) before and after it -/
theorem update_kill_witness (P : MultiShard → Prop) (mc mc' : MultiShard) (nhi : NodeHostInfo)
    (hstep : ∀ m ci m1 k, P m → ci ∈ nhi.shardInfo → doUpdate1 nhi.lastTick m ci = .ok (m1, k) → P m1)
    (hP : P mc) (h : mc.update nhi = .ok mc') :
    ∀ k ∈ mc'.toKill,
      (k.address ≠ nhi.raftAddress ∧ k ∈ mc.toKill) ∨
      (k.address = nhi.raftAddress ∧ ∃ ci ∈ nhi.shardInfo, k.shardId = ci.shardId ∧ k.replicaId = ci.replicaId ∧
        ∃ mi mi', P mi ∧ P mi' ∧ doUpdate1 nhi.lastTick mi ci = .ok (mi', true)) := by
  unfold MultiShard.update at h
  cases hl : doUpdateLoop nhi.lastTick mc nhi.shardInfo [] with
  | panic w => simp [hl, bind] at h
  | ok p =>
    obtain ⟨mc1, flagged⟩ := p
    simp only [hl, bind, pure] at h
    cases h
    intro k hk
    rw [syncLeaderInfo_toKill] at hk
    simp only [List.mem_append, List.mem_filter, List.mem_map] at hk
    rcases hk with ⟨hm, hne⟩ | ⟨ci, hci, rfl⟩
    · left
      rw [updateNodeTick_toKill, doUpdateLoop_toKill _ _ _ _ _ _ hl] at hm
      exact ⟨by simpa using hne, hm⟩
    · right
      rcases doUpdateLoop_flagged P _ _ _ _ _ _ hstep hP hl ci hci with hm | ⟨mi, mi', h2, h2', h3, h4⟩
      · simp at hm
      · exact ⟨rfl, ci, h3, rfl, rfl, mi, mi', h2, h2', h4⟩

#print axioms update_kill_witness
end Drummer
