import DrummerVerif.Model.Sched2
/-! C12 / C02 per-decision theorems on the executable M-SCHED prototype -/
namespace Drummer

theorem concatOutcome_mem {α β : Type} (f : α → Outcome (List β)) :
    ∀ (l : List α) (bs : List β), concatOutcome f l = .ok bs →
      ∀ b ∈ bs, ∃ a ∈ l, ∃ one, f a = .ok one ∧ b ∈ one := by
  intro l
  induction l with
  | nil => intro bs h; simp [concatOutcome] at h; subst h; intro b hb; simp at hb
  | cons a rest ih =>
    intro bs h
    unfold concatOutcome at h
    split at h
    · cases h
    · rename_i one h1
      split at h
      · cases h
      · rename_i bs' h2
        cases h
        intro b hb
        rcases List.mem_append.mp hb with hb | hb
        · exact ⟨a, by simp, one, h1, hb⟩
        · obtain ⟨a', ha', one', h3, h4⟩ := ih bs' h2 b hb
          exact ⟨a', by simp [ha'], one', h3, h4⟩

theorem restoreReqs_spec (cx : Ctx) (cr : ShardRepair) (nl : List Replica) (rs : List Request)
    (h : restoreReqs cx cr nl = .ok rs) :
    ∀ r ∈ rs, ∃ n ∈ nl, ∃ d, cx.def? cr.shard.shardId = some d ∧ r = createReq n cr.shard d.appName false true := by
  unfold restoreReqs at h
  split at h
  · cases h; intro r hr; simp at hr
  · split at h
    · cases h
    · rename_i d hd
      cases h
      intro r hr
      obtain ⟨n, hn, rfl⟩ := List.mem_map.mp hr
      exact ⟨n, hn, d, hd, rfl⟩

theorem restorable_spec (cx : Ctx) (cr : ShardRepair) (n : Replica) (hn : n ∈ restorable cx cr) :
    n ∈ cr.failed ∧ ∃ host, hostFind? cx.allHosts n.address = some host ∧ host.available cx.tick = true ∧
      host.hasLog n.shardId n.replicaId = true := by
  unfold restorable at hn
  obtain ⟨hmem, hp⟩ := List.mem_filter.mp hn
  refine ⟨hmem, ?_⟩
  split at hp
  · rename_i host hh
    simp only [Bool.and_eq_true] at hp
    exact ⟨host, hh, hp.1, hp.2⟩
  · cases hp

/-- what justifies one restore request -/
structure RestoreJust (cx : Ctx) (r : Request) : Prop where
  ex : ∃ cr ∈ cx.repairs, ∃ n ∈ cr.failed, ∃ host d,
      hostFind? cx.allHosts n.address = some host ∧ host.available cx.tick = true ∧
      host.hasLog n.shardId n.replicaId = true ∧ cx.def? cr.shard.shardId = some d ∧
      r = createReq n cr.shard d.appName false true ∧
      -- quorum clause: either handled by `restoreUnavailableShards` with enough restorable members,
      -- or by `restoreFailed` (shard available, or it has a member waiting to start)
      ((cr.needToBeRestored = true ∧ cr.ok.length + (restorable cx cr).length ≥ cr.quorum) ∨
       cr.needToBeRestored = false)

/-- C12 `restore_target_ok`, `restore_shape` and the provable part of `restore_quorum` -/
theorem restore_just (cx : Ctx) (rs : List Request) (h : restore cx = .ok rs) : ∀ r ∈ rs, RestoreJust cx r := by
  unfold restore at h
  split at h
  · cases h
  · rename_i u hu
    split at h
    · cases h
    · rename_i f hf
      cases h
      intro r hr
      rcases List.mem_append.mp hr with hr | hr
      · obtain ⟨cr, hcr, one, hone, hmem⟩ := concatOutcome_mem _ _ u hu r hr
        unfold restoreUnavailable1 at hone
        split at hone
        · rename_i hnow
          obtain ⟨n, hn, d, hd, hreq⟩ := restoreReqs_spec cx cr _ one hone r hmem
          obtain ⟨hfail, host, h1, h2, h3⟩ := restorable_spec cx cr n hn
          unfold ShardRepair.restoreNow at hnow
          simp only [Bool.and_eq_true, decide_eq_true_eq] at hnow
          exact ⟨cr, hcr, n, hfail, host, d, h1, h2, h3, hd, hreq, Or.inl hnow⟩
        · cases hone; simp at hmem
      · obtain ⟨cr, hcr, one, hone, hmem⟩ := concatOutcome_mem _ _ f hf r hr
        unfold restoreFailed1 at hone
        split at hone
        · cases hone; simp at hmem
        · rename_i hcond
          obtain ⟨n, hn, d, hd, hreq⟩ := restoreReqs_spec cx cr _ one hone r hmem
          obtain ⟨hfail, host, h1, h2, h3⟩ := restorable_spec cx cr n hn
          simp only [Bool.or_eq_true, not_or] at hcond
          exact ⟨cr, hcr, n, hfail, host, d, h1, h2, h3, hd, hreq, Or.inr (by simpa using hcond.1)⟩

/-- one repair decision: at most one request, of this shard, never a restore, fenced by the view's version,
    and justified by the classification -/
structure RepairJust (cx : Ctx) (cr : ShardRepair) (r : Request) : Prop where
  shard : r.shardId = cr.shard.shardId
  notRestore : r.restore = false
  just :
    (r.type = .delete ∧ r.confChangeId = cr.shard.cci ∧ cr.available = true ∧
      (∃ t ∈ cr.failed, r.members = [t.replicaId]) ∧ (∃ via ∈ cr.ok, r.raftAddress = via.address) ∧
      ∃ d, cx.def? cr.shard.shardId = some d ∧ cr.failed.length + cr.ok.length > d.members.length) ∨
    (r.type = .create ∧ r.join = true ∧ ∃ t ∈ cr.toStart, r.instantiateReplicaId = t.replicaId ∧ r.raftAddress = t.address) ∨
    (r.type = .add ∧ r.confChangeId = cr.shard.cci ∧ cr.available = true ∧ cr.toStart = [] ∧ cr.failed ≠ [] ∧
      (∃ via ∈ cr.ok, r.raftAddress = via.address) ∧
      (∃ h ∈ cx.hosts, r.addressList = [h.address] ∧ liveFilter cx.tick nodeHostTTL h = true ∧
        basicFilter cr.shard.shardId h = true) ∧
      (∃ d, cx.def? cr.shard.shardId = some d ∧ cr.failed.length + cr.ok.length + cr.toStart.length ≤ d.members.length) ∧
      -- the new member's id is non-zero and not the id of a member of the view (repaired, F-C02)
      ∃ id, r.members = [id] ∧ id ≠ 0 ∧ ∀ m ∈ cr.shard.replicas, m.replicaId ≠ id)

/-- the redraw loop returns a non-zero id that no member of the view uses -/
theorem freshId_spec (c : Shard) : ∀ (draws : List Nat) (id : Nat) (rest : List Nat), freshId c draws = some (id, rest) →
    id ≠ 0 ∧ ∀ m ∈ c.replicas, m.replicaId ≠ id := by
  intro draws
  induction draws with
  | nil => intro id rest h; simp [freshId] at h
  | cons d ds ih =>
    intro id rest h
    unfold freshId at h
    split at h
    · rename_i hc
      simp only [Option.some.injEq, Prod.mk.injEq] at h
      obtain ⟨rfl, _⟩ := h
      simp only [Bool.and_eq_true, bne_iff_ne, ne_eq, Bool.not_eq_true', List.any_eq_false, beq_iff_eq] at hc
      exact ⟨hc.1, fun m hm => hc.2 m hm⟩
    · exact ih id rest h

theorem nth?_mem {α : Type} {l : List α} {i : Nat} {a : α} (h : nth? l i = some a) : a ∈ l := by
  unfold nth? at h; exact List.mem_of_getElem? h

theorem pickDistinct_lt (n count : Nat) : ∀ (draws sel : List Nat) (idx rest : List Nat),
    (∀ x ∈ sel, x < n) → 0 < n → pickDistinct n count sel draws = some (idx, rest) → ∀ x ∈ idx, x < n := by
  intro draws
  induction draws with
  | nil =>
    intro sel idx rest hsel hn h
    unfold pickDistinct at h
    by_cases hc : sel.length = count
    · simp [hc] at h; obtain ⟨rfl, _⟩ := h; intro x hx; exact hsel x (by simpa using hx)
    · simp [hc] at h
  | cons d ds ih =>
    intro sel idx rest hsel hn h
    unfold pickDistinct at h
    by_cases hc : sel.length = count
    · simp [hc] at h; obtain ⟨rfl, _⟩ := h; intro x hx; exact hsel x (by simpa using hx)
    · simp only [hc, if_false] at h
      by_cases hcon : sel.contains (d % n) = true
      · simp only [hcon, if_true] at h
        exact ih sel idx rest hsel hn h
      · simp only [hcon] at h
        refine ih _ idx rest ?_ hn h
        intro x hx
        rcases List.mem_cons.mp hx with hx | hx
        · subst hx; exact Nat.mod_lt _ hn
        · exact hsel x hx

/-- every host returned by `findSuitable` comes from the list and passes the filter -/
theorem findSuitable_mem (hosts : List HostSpec) (p : HostSpec → Bool) (count : Nat) (draws : List Nat)
    (hs : List HostSpec) (rest : List Nat) (h : findSuitable hosts p count draws = some (hs, rest)) :
    ∀ x ∈ hs, x ∈ hosts ∧ p x = true := by
  unfold findSuitable at h
  simp only at h
  split at h
  · cases h; intro x hx; simp at hx
  · split at h
    · cases h
    · rename_i idx rest' _
      cases h
      intro x hx
      obtain ⟨i, _, hi⟩ := List.mem_filterMap.mp hx
      have := List.mem_of_getElem? hi
      exact List.mem_filter.mp this

theorem single?_mem {α : Type} {l : List α} {a : α} (h : single? l = some a) : a ∈ l := by
  cases l with
  | nil => simp [single?] at h
  | cons x t =>
    cases t with
    | nil => simp [single?] at h; subst h; simp
    | cons y t' => simp [single?] at h

theorem replacement_spec (cx : Ctx) (f : Replica) (draws : List Nat) (h : HostSpec) (rest : List Nat)
    (hr : replacement cx f draws = some (some h, rest)) :
    h ∈ cx.hosts ∧ liveFilter cx.tick nodeHostTTL h = true ∧ basicFilter f.shardId h = true := by
  unfold replacement at hr
  cases h1 : findSuitable cx.hosts (sameRegionFilter cx f) 1 draws with
  | none => simp [h1] at hr
  | some pr =>
    obtain ⟨l1, rest1⟩ := pr
    simp only [h1] at hr
    cases hs1 : single? l1 with
    | some x =>
      simp only [hs1, Option.some.injEq, Prod.mk.injEq] at hr
      obtain ⟨rfl, _⟩ := hr
      have := findSuitable_mem _ _ _ _ _ _ h1 x (single?_mem hs1)
      unfold sameRegionFilter at this
      simp only [Bool.and_eq_true] at this
      exact ⟨this.1, this.2.1.1, this.2.1.2⟩
    | none =>
      simp only [hs1] at hr
      cases h2 : findSuitable cx.hosts (anyRegionFilter cx f) 1 rest1 with
      | none => simp [h2] at hr
      | some pr2 =>
        obtain ⟨l2, rest2⟩ := pr2
        simp only [h2, Option.some.injEq, Prod.mk.injEq] at hr
        obtain ⟨hs2, _⟩ := hr
        have := findSuitable_mem _ _ _ _ _ _ h2 h (single?_mem hs2)
        unfold anyRegionFilter at this
        simp only [Bool.and_eq_true] at this
        exact ⟨this.1, this.2.1, this.2.2⟩

theorem repairOne_spec (cx : Ctx) (cr : ShardRepair) (draws : List Nat) (one : List Request) (rest : List Nat)
    (hwf : ∀ x ∈ cr.failed, x.shardId = cr.shard.shardId)
    (h : repairOne cx cr draws = .ok one rest) :
    one.length ≤ 1 ∧ ∀ r ∈ one, RepairJust cx cr r := by
  unfold repairOne at h
  cases hd : cx.def? cr.shard.shardId with
  | none => simp [hd] at h
  | some d =>
    simp only [hd] at h
    by_cases hdel : cr.deleteRequired d.members.length = true
    · -- delete
      simp only [hdel, if_true] at h
      unfold deleteOne at h
      cases hf : cr.failed with
      | nil => simp [hf] at h
      | cons t ft =>
        cases draws with
        | nil => simp [hf] at h
        | cons dr draws' =>
          simp only [hf] at h
          cases hvia : nth? cr.ok (dr % cr.ok.length) with
          | none => simp [hvia] at h
          | some via =>
            simp only [hvia, SRes.ok.injEq] at h
            obtain ⟨rfl, _⟩ := h
            refine ⟨by simp, fun r hr => ?_⟩
            simp at hr; subst hr
            unfold ShardRepair.deleteRequired at hdel
            simp only [Bool.and_eq_true, decide_eq_true_eq] at hdel
            exact ⟨rfl, rfl, Or.inl ⟨rfl, rfl, hdel.1.1, ⟨t, by simp [hf], rfl⟩, ⟨via, nth?_mem hvia, rfl⟩, d, hd, hdel.2⟩⟩
    · simp only [hdel] at h
      by_cases hcreate : cr.createRequired = true
      · -- create
        simp only [hcreate, if_true] at h
        unfold createOne at h
        cases hts : cr.toStart with
        | nil => simp [hts] at h
        | cons t tt =>
          simp only [hts, SRes.ok.injEq] at h
          obtain ⟨rfl, _⟩ := h
          refine ⟨by simp, fun r hr => ?_⟩
          simp at hr; subst hr
          exact ⟨rfl, rfl, Or.inr (Or.inl ⟨rfl, rfl, t, by simp [hts], rfl, rfl⟩)⟩
      · simp only [hcreate] at h
        by_cases hadd : cr.addRequired = true
        · -- add
          simp only [hadd, if_true] at h
          unfold addOne at h
          cases hff : cr.failed with
          | nil => simp [hff] at h
          | cons f ft =>
            simp only [hff] at h
            cases hrep : replacement cx f draws with
            | none => simp [hrep] at h
            | some pr =>
              obtain ⟨oh, dr1⟩ := pr
              cases oh with
              | none => simp [hrep] at h
              | some hst =>
                cases dr1 with
                | nil => simp [hrep] at h
                | cons d1 dr2 =>
                  simp only [hrep] at h
                  cases hfr : freshId cr.shard dr2 with
                  | none => simp [hfr] at h
                  | some p =>
                    obtain ⟨d2, draws2⟩ := p
                    simp only [hfr] at h
                    cases hvia : nth? cr.ok (d1 % cr.ok.length) with
                    | none => simp [hvia] at h
                    | some via =>
                      simp only [hvia, SRes.ok.injEq] at h
                      obtain ⟨rfl, _⟩ := h
                      refine ⟨by simp, fun r hr => ?_⟩
                      simp at hr; subst hr
                      obtain ⟨hmem, hlive, hbasic⟩ := replacement_spec cx f draws hst _ hrep
                      have hfs : f.shardId = cr.shard.shardId := hwf f (by simp [hff])
                      unfold ShardRepair.addRequired at hadd
                      unfold ShardRepair.deleteRequired at hdel
                      simp only [Bool.and_eq_true, decide_eq_true_eq] at hadd
                      obtain ⟨⟨hfpos, hs0⟩, hav⟩ := hadd
                      have hts : cr.toStart = [] := List.eq_nil_of_length_eq_zero hs0
                      have hsize : cr.failed.length + cr.ok.length + cr.toStart.length ≤ d.members.length := by
                        simp only [hav, Bool.true_and, Bool.and_eq_true, decide_eq_true_eq, not_and, Nat.not_lt] at hdel
                        have := hdel hfpos
                        omega
                      obtain ⟨hnz, hnew⟩ := freshId_spec cr.shard dr2 d2 _ hfr
                      refine ⟨rfl, rfl, Or.inr (Or.inr ⟨rfl, rfl, hav, hts, ?_, ⟨via, nth?_mem hvia, rfl⟩,
                        ⟨hst, hmem, rfl, hlive, hfs ▸ hbasic⟩, ⟨d, hd, hsize⟩, d2, rfl, hnz, hnew⟩)⟩
                      intro h0; rw [h0] at hfpos; simp at hfpos
        · simp only [hadd, SRes.ok.injEq] at h
          obtain ⟨rfl, _⟩ := h
          exact ⟨by simp, fun r hr => by simp at hr⟩

/-- C02 `one_change_per_shard_per_round`, `fenced`, `delete_justified`, `add_justified` and
    C12 `restore_excludes_repair`, for the whole repair phase -/
theorem repair_spec (cx : Ctx) (restored : List Nat) : ∀ (l : List ShardRepair) (draws : List Nat)
    (rs : List Request) (rest : List Nat),
    (∀ cr ∈ l, ∀ x ∈ cr.failed, x.shardId = cr.shard.shardId) →
    repair cx restored l draws = .ok rs rest →
    (∀ r ∈ rs, r.shardId ∉ restored ∧ ∃ cr ∈ l, RepairJust cx cr r) ∧ rs.length ≤ l.length := by
  intro l
  induction l with
  | nil =>
    intro draws rs rest _ h
    simp [repair] at h
    obtain ⟨rfl, _⟩ := h
    exact ⟨fun r hr => by simp at hr, by simp⟩
  | cons cr tl ih =>
    intro draws rs rest hwf h
    have hwf' : ∀ cr ∈ tl, ∀ x ∈ cr.failed, x.shardId = cr.shard.shardId := fun c hc => hwf c (by simp [hc])
    unfold repair at h
    by_cases hres : restored.contains cr.shard.shardId = true
    · simp only [hres, if_true] at h
      obtain ⟨h1, h2⟩ := ih draws rs rest hwf' h
      refine ⟨fun r hr => ?_, by simp; omega⟩
      obtain ⟨a, cr', hc, he⟩ := h1 r hr
      exact ⟨a, cr', by simp [hc], he⟩
    · have hnot' : cr.shard.shardId ∉ restored := by simpa using hres
      simp only [hres] at h
      cases hone : repairOne cx cr draws with
      | panic w => simp [hone] at h
      | error w => simp [hone] at h
      | ok one dr =>
        simp only [hone] at h
        obtain ⟨hlen, hjust⟩ := repairOne_spec cx cr draws one dr (hwf cr (by simp)) hone
        cases htl : repair cx restored tl dr with
        | panic w => simp [htl] at h
        | error w => simp [htl] at h
        | ok rs' dr' =>
          simp only [htl] at h
          obtain ⟨h1, h2⟩ := ih dr rs' dr' hwf' htl
          cases h
          refine ⟨fun r hr => ?_, by simp; omega⟩
          rcases List.mem_append.mp hr with hr | hr
          · have hj := hjust r hr
            exact ⟨hj.shard ▸ hnot', cr, by simp, hj⟩
          · obtain ⟨a, cr', hc, he⟩ := h1 r hr
            exact ⟨a, cr', by simp [hc], he⟩

#print axioms restore_just
#print axioms repair_spec
end Drummer
