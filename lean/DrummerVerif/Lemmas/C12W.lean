import DrummerVerif.Lemmas.C12
/-! F-C12 as a theorem about the model: a restore is issued although healthy + restorable members are below quorum,
    because the shard has a member waiting to be started (known finding — benign, the loop needs it to heal) -/
namespace Drummer

def w_mk (rid : Nat) (a : Addr) (tick fo : Nat) : Replica := { shardId := 1, replicaId := rid, address := a, tick := tick, firstObserved := fo }

/-- five members at tick 1000: #1 healthy, #2 failed on a live host that still has its log, #3 waiting to be started,
    #4 and #5 failed on hosts that are gone -/
def w_shard : Shard := { shardId := 1, cci := 7, replicas :=
  [w_mk 1 "a" 1000 10, w_mk 2 "b" 100 10, w_mk 3 "c" 0 990, w_mk 4 "d" 100 10, w_mk 5 "e" 100 10] }

def w_cx : Ctx :=
  { tick := 1000, defs := [{ shardId := 1, members := [1, 2, 3, 4, 5], appName := "kv" }], regions := none,
    hosts := [], allHosts := [{ address := "b", rpcAddress := "", region := "r", tick := 1000, plog := [{ shardId := 1, replicaId := 2 }], shards := [] }],
    repairs := [{ shard := w_shard, failed := [w_mk 2 "b" 100 10, w_mk 4 "d" 100 10, w_mk 5 "e" 100 10],
                  ok := [w_mk 1 "a" 1000 10], toStart := [w_mk 3 "c" 0 990] }],
    toKill := [] }

/-- quorum is 3, healthy + restorable = 2, and `restore` still issues the restore of #2 -/
theorem restore_below_quorum :
    (∃ rs, restore w_cx = .ok rs ∧ rs.length = 1 ∧ ∀ r ∈ rs, r.instantiateReplicaId = 2 ∧ r.restore = true) ∧
    (∀ cr ∈ w_cx.repairs, cr.quorum = 3 ∧ cr.ok.length + (restorable w_cx cr).length = 2) := by
  constructor
  · refine ⟨_, rfl, ?_⟩
    decide
  · decide

#print axioms restore_below_quorum
end Drummer
