import DrummerVerif.Model.Db
/-! C13 prototype on M-DB: finalized keys are write-once; CAS on non-finalized keys; shard gate -/
namespace Drummer

@[simp] theorem kvGet_kvPut (m : List (Bytes × KVRec)) (k k' : Bytes) (v : KVRec) :
    kvGet (kvPut m k v) k' = if k = k' then some v else kvGet m k' := by
  unfold kvGet kvPut
  by_cases h : k = k'
  · simp [List.find?, h]
  · have hb : (k == k') = false := by simpa using h
    simp only [List.find?, hb, h, if_false, List.find?_filter]
    congr 2
    funext a
    by_cases h2 : a.1 = k'
    · have : ¬ k' = k := fun hh => h hh.symm
      simp [h2, this]
    · simp [h2]

/-- every command other than a KV write leaves the KV map alone, except the launched flag set by an accepted launch batch -/
theorem applyKV_get (d d' : DB) (kv : KVRec) (n : Nat) (h : d.applyKV kv = .ok (d', n)) (k : Bytes) :
    kvGet d'.kv k =
      if k = kv.key then
        match kvGet d.kv kv.key with
        | none => some kv
        | some old => if old.finalized then some old
                      else if old.instanceId = kv.instanceId ∨ old.instanceId = kv.oldInstanceId then some kv
                      else some old
      else kvGet d.kv k := by
  unfold DB.applyKV at h
  split at h
  · cases h
  · split at h
    · rename_i hnone
      simp only [Outcome.ok.injEq, Prod.mk.injEq] at h
      obtain ⟨rfl, _⟩ := h
      by_cases hk : k = kv.key
      · subst hk; simp [hnone]
      · simp [hk, Ne.symm hk]
    · rename_i old hsome
      split at h
      · rename_i hfin
        simp only [Outcome.ok.injEq, Prod.mk.injEq] at h
        obtain ⟨rfl, _⟩ := h
        by_cases hk : k = kv.key
        · subst hk; simp [hsome, hfin]
        · simp [hk]
      · rename_i hfin
        split at h
        · rename_i hcas
          simp only [Outcome.ok.injEq, Prod.mk.injEq] at h
          obtain ⟨rfl, _⟩ := h
          by_cases hk : k = kv.key
          · subst hk
            simp only [Bool.or_eq_true, beq_iff_eq] at hcas
            simp [hsome, hfin, hcas]
          · simp [hk, Ne.symm hk]
        · rename_i hcas
          simp only [Outcome.ok.injEq, Prod.mk.injEq] at h
          obtain ⟨rfl, _⟩ := h
          by_cases hk : k = kv.key
          · subst hk
            simp only [Bool.or_eq_true, beq_iff_eq] at hcas
            simp [hsome, hfin, hcas]
          · simp [hk]

/-- a finalized record survives any single KV write -/
theorem finalized_survives_kv (d d' : DB) (kv : KVRec) (n : Nat) (h : d.applyKV kv = .ok (d', n))
    (k : Bytes) (r : KVRec) (hr : kvGet d.kv k = some r) (hf : r.finalized = true) :
    kvGet d'.kv k = some r := by
  rw [applyKV_get d d' kv n h k]
  by_cases hk : k = kv.key
  · subst hk; simp [hr, hf]
  · simp [hk, hr]

#print axioms finalized_survives_kv
end Drummer
