import DrummerVerif.Lemmas.C09H
import DrummerVerif.Lemmas.C09D
/-! C13 prototype: the bootstrap gate over histories — once bootstrapped, the shard definitions are frozen for ever; and
    definitions are add-only before that -/
namespace Drummer

theorem applyShard_shards (d d' : DB) (c : ShardDef) (n : Nat) (h : d.applyShard c = .ok (d', n)) :
    (d.bootstrapped = true → d'.shards = d.shards ∧ n = 2) ∧ (∀ x ∈ d.shards, x ∈ d'.shards) := by
  unfold DB.applyShard at h
  split at h
  · cases h
  · split at h
    · cases h
    · by_cases hb : d.bootstrapped = true
      · simp only [hb, if_true] at h; cases h
        exact ⟨fun _ => ⟨rfl, rfl⟩, fun x hx => hx⟩
      · simp only [hb] at h
        refine ⟨fun hh => absurd hh hb, ?_⟩
        by_cases hany : (d.shards.any (·.shardId == c.shardId)) = true
        · simp only [hany, if_true] at h; cases h; exact fun x hx => hx
        · simp only [hany] at h; cases h; exact fun x hx => by simp [hx]

theorem applyKV_shards (d d' : DB) (kv : KVRec) (n : Nat) (h : d.applyKV kv = .ok (d', n)) : d'.shards = d.shards := by
  unfold DB.applyKV at h
  split at h
  · cases h
  · split at h
    · cases h; rfl
    · split at h
      · cases h; rfl
      · split at h <;> (cases h; rfl)

theorem applyReport_shards (d d' : DB) (nhi : NodeHostInfo) (n : Nat) (h : d.applyReport nhi = .ok (d', n)) :
    d'.shards = d.shards := by
  unfold DB.applyReport at h
  cases hv : d.reportView nhi with
  | panic w => simp [hv] at h
  | ok d1 =>
    simp only [hv] at h
    cases h
    have h1 : d1.shards = d.shards := by
      unfold DB.reportView at hv
      cases hu : d.image.update { nhi with lastTick := d.tick } with
      | panic w => simp [hu] at hv
      | ok image => simp only [hu] at hv; cases hv; rfl
    have h2 : (d1.moveRequests nhi.raftAddress).1.shards = d1.shards := by unfold DB.moveRequests; split <;> rfl
    have h3 : ∀ x : DB, x.onUpdatedShardInfo.shards = x.shards := by intro x; unfold DB.onUpdatedShardInfo; split <;> rfl
    rw [h3, h2, h1]

theorem applyRequests_shards (d d' : DB) (rs : List Request) (n : Nat) (h : d.applyRequests rs = .ok (d', n)) :
    d'.shards = d.shards := by
  unfold DB.applyRequests at h
  cases hb : isLaunchBatch rs with
  | panic w => simp [hb] at h
  | ok launch =>
    simp only [hb] at h
    split at h
    · cases h; rfl
    · split at h
      · cases hm : (d.mergeRequests rs).markLaunched with
        | panic w => simp [hm] at h
        | ok d2 =>
          simp only [hm] at h; cases h
          unfold DB.markLaunched at hm
          cases hk : (d.mergeRequests rs).applyKV launchedRec with
          | panic w => simp [hk] at hm
          | ok p =>
            obtain ⟨d3, code⟩ := p
            simp only [hk] at hm
            split at hm
            · cases hm
            · cases hm
              show d3.shards = d.shards
              rw [applyKV_shards _ _ _ _ hk]; rfl
      · cases h; rfl

/-- one command: definitions are add-only, and frozen once bootstrapped -/
theorem apply_shards (d d' : DB) (c : Cmd) (n : Nat) (h : d.apply c = .ok (d', n)) :
    (∀ x ∈ d.shards, x ∈ d'.shards) ∧ (d.bootstrapped = true → d'.shards = d.shards) := by
  unfold DB.apply at h
  by_cases hfail : d.failed = true
  · simp [hfail] at h
  · simp only [hfail] at h
    cases c with
    | tick =>
      simp only at h
      cases ht : d.applyTick with
      | panic w => simp [ht] at h
      | ok p =>
        simp only [ht] at h; cases h
        unfold DB.applyTick at ht
        simp only at ht
        split at ht
        · cases ht
        · cases ht; exact ⟨fun x hx => hx, fun _ => rfl⟩
    | shard sc =>
      obtain ⟨h1, h2⟩ := applyShard_shards d d' sc n h
      exact ⟨h2, fun hb => (h1 hb).1⟩
    | kv rec => rw [applyKV_shards d d' rec n h]; exact ⟨fun x hx => hx, fun _ => rfl⟩
    | report nhi => rw [applyReport_shards d d' nhi n h]; exact ⟨fun x hx => hx, fun _ => rfl⟩
    | requests rs => rw [applyRequests_shards d d' rs n h]; exact ⟨fun x hx => hx, fun _ => rfl⟩

/-- C13 `bootstrap_gate` over histories: definitions only accumulate, and from the first state in which the bootstrapped
    flag is present they never change again -/
theorem defs_history : ∀ (cs : List Cmd) (d d' : DB), runCmds d cs = .ok d' →
    (∀ x ∈ d.shards, x ∈ d'.shards) ∧ (d.bootstrapped = true → d'.shards = d.shards ∧ d'.bootstrapped = true) := by
  intro cs
  induction cs with
  | nil => intro d d' h; simp [runCmds] at h; subst h; exact ⟨fun x hx => hx, fun hb => ⟨rfl, hb⟩⟩
  | cons c cs ih =>
    intro d d' h
    unfold runCmds at h
    cases ha : d.apply c with
    | panic w => simp [ha] at h
    | ok p =>
      obtain ⟨d1, n⟩ := p
      simp only [ha] at h
      obtain ⟨i1, i2⟩ := ih d1 d' h
      obtain ⟨s1, s2⟩ := apply_shards d d1 c n ha
      refine ⟨fun x hx => i1 x (s1 x hx), fun hb => ?_⟩
      have hb1 : d1.bootstrapped = true := apply_preserves_present d d1 c n ha bootstrappedKey hb
      obtain ⟨e1, e2⟩ := i2 hb1
      exact ⟨by rw [e1, s2 hb], e2⟩

#print axioms defs_history
end Drummer
