import DrummerVerif.Lemmas.C13
/-! C13 prototype, lifted to command histories: a finalized record never changes, whatever is applied later -/
namespace Drummer

def runCmds (d : DB) : List Cmd → Outcome DB
  | [] => .ok d
  | c :: cs =>
    match d.apply c with
    | .panic w => .panic w
    | .ok (d', _) => runCmds d' cs

theorem applyShard_kv (d d' : DB) (c : ShardDef) (n : Nat) (h : d.applyShard c = .ok (d', n)) : d'.kv = d.kv := by
  unfold DB.applyShard at h
  split at h
  · cases h
  · split at h
    · cases h
    · split at h
      · cases h; rfl
      · split at h <;> (cases h; rfl)

theorem applyReport_kv (d d' : DB) (nhi : NodeHostInfo) (n : Nat) (h : d.applyReport nhi = .ok (d', n)) : d'.kv = d.kv := by
  unfold DB.applyReport at h
  cases hv : d.reportView nhi with
  | panic w => simp [hv] at h
  | ok d1 =>
    simp only [hv] at h
    cases h
    have h1 : d1.kv = d.kv := by
      unfold DB.reportView at hv
      cases hu : d.image.update { nhi with lastTick := d.tick } with
      | panic w => simp [hu] at hv
      | ok image => simp only [hu] at hv; cases hv; rfl
    have h2 : (d1.moveRequests nhi.raftAddress).1.kv = d1.kv := by unfold DB.moveRequests; split <;> rfl
    have h3 : ∀ x : DB, x.onUpdatedShardInfo.kv = x.kv := by intro x; unfold DB.onUpdatedShardInfo; split <;> rfl
    rw [h3, h2, h1]

theorem apply_preserves_finalized (d d' : DB) (c : Cmd) (n : Nat) (h : d.apply c = .ok (d', n))
    (k : Bytes) (r : KVRec) (hr : kvGet d.kv k = some r) (hf : r.finalized = true) : kvGet d'.kv k = some r := by
  unfold DB.apply at h
  by_cases hfail : d.failed = true
  · simp [hfail] at h
  · simp only [hfail] at h
    cases c with
    | tick =>
      simp only at h
      cases ht : d.applyTick with
      | panic w => simp [ht] at h
      | ok p =>
        simp only [ht] at h; cases h
        unfold DB.applyTick at ht
        simp only at ht
        split at ht
        · cases ht
        · cases ht; exact hr
    | shard c => rw [applyShard_kv d d' c n h]; exact hr
    | kv rec => exact finalized_survives_kv d d' rec n h k r hr hf
    | report nhi => rw [applyReport_kv d d' nhi n h]; exact hr
    | requests rs =>
      simp only at h
      unfold DB.applyRequests at h
      cases hl : isLaunchBatch rs with
      | panic w => simp [hl] at h
      | ok launch =>
        simp only [hl] at h
        by_cases h1 : (d.launched && launch) = true
        · simp only [h1, if_true] at h; cases h; exact hr
        · simp only [h1] at h
          by_cases h2 : launch = true
          · simp only [h2, if_true] at h
            cases hm : (d.mergeRequests rs).markLaunched with
            | panic w => simp [hm] at h
            | ok d2 =>
              simp only [hm] at h; cases h
              unfold DB.markLaunched at hm
              cases hk : (d.mergeRequests rs).applyKV launchedRec with
              | panic w => simp [hk] at hm
              | ok p =>
                obtain ⟨d3, code⟩ := p
                simp only [hk] at hm
                split at hm
                · cases hm
                · cases hm
                  exact finalized_survives_kv (d.mergeRequests rs) d3 launchedRec code hk k r (by simpa [DB.mergeRequests] using hr) hf
          · simp only [h2] at h; cases h; simpa [DB.mergeRequests] using hr

/-- C13 `finalized_immutable`: once a key holds a finalized record it holds that record after any further history -/
theorem finalized_immutable : ∀ (cs : List Cmd) (d d' : DB), runCmds d cs = .ok d' →
    ∀ k r, kvGet d.kv k = some r → r.finalized = true → kvGet d'.kv k = some r := by
  intro cs
  induction cs with
  | nil => intro d d' h k r hr _; simp [runCmds] at h; subst h; exact hr
  | cons c cs ih =>
    intro d d' h k r hr hf
    unfold runCmds at h
    cases ha : d.apply c with
    | panic w => simp [ha] at h
    | ok p =>
      obtain ⟨d1, n⟩ := p
      simp only [ha] at h
      exact ih d1 d' h k r (apply_preserves_finalized d d1 c n ha k r hr hf) hf

#print axioms finalized_immutable
end Drummer
