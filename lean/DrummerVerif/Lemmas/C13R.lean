import DrummerVerif.Lemmas.C13H
/-! C13 over histories, as a refinement: whatever commands are applied (KV writes, definitions, ticks, reports, request
    batches - any number, any order), every key of the replicated KV map behaves as one compare-and-swap register
    (`casStep`); the only write that is not a client's is the launched flag set by the first accepted launch batch. -/
namespace Drummer

/-- the specification of one key: a CAS register with a write-once latch -/
def casStep (cur : Option KVRec) (w : KVRec) : Option KVRec :=
  match cur with
  | none => some w
  | some old => if old.finalized then some old
                else if old.instanceId = w.instanceId ∨ old.instanceId = w.oldInstanceId then some w
                else some old

abbrev KVSpec := Bytes → Option KVRec

/-- the write a command makes to the key-value map (none for ticks, definitions, reports, ordinary request batches) -/
def specWrite (S : KVSpec) : Cmd → Option KVRec
  | .kv r => some r
  | .requests rs =>
    match isLaunchBatch rs with
    | .ok true => if (S launchedKey).isSome then none else some launchedRec
    | _ => none
  | _ => none

def specStep (S : KVSpec) (c : Cmd) : KVSpec :=
  match specWrite S c with
  | none => S
  | some w => fun k => if k = w.key then casStep (S k) w else S k

def DB.absKV (d : DB) : KVSpec := fun k => kvGet d.kv k

theorem applyKV_casStep (d d' : DB) (kv : KVRec) (n : Nat) (h : d.applyKV kv = .ok (d', n)) (k : Bytes) :
    kvGet d'.kv k = if k = kv.key then casStep (kvGet d.kv k) kv else kvGet d.kv k := by
  rw [applyKV_get d d' kv n h k]
  by_cases hk : k = kv.key
  · subst hk
    simp only [if_true, casStep]
    cases kvGet d.kv kv.key <;> rfl
  · simp [hk]

theorem applyTick_kv (d d' : DB) (n : Nat) (h : d.applyTick = .ok (d', n)) : d'.kv = d.kv := by
  unfold DB.applyTick at h
  simp only at h
  split at h
  · cases h
  · cases h; rfl

/-- one command: the KV map moves exactly as the register specification says -/
theorem apply_refines_kv (d d' : DB) (c : Cmd) (n : Nat) (h : d.apply c = .ok (d', n)) (k : Bytes) :
    d'.absKV k = specStep d.absKV c k := by
  unfold DB.apply at h
  by_cases hfail : d.failed = true
  · simp [hfail] at h
  · simp only [hfail] at h
    cases c with
    | tick =>
      simp only at h
      cases ht : d.applyTick with
      | panic w => simp [ht] at h
      | ok p =>
        simp only [ht] at h; cases h
        simp [DB.absKV, specStep, specWrite, applyTick_kv d _ _ ht]
    | shard c => simp [DB.absKV, specStep, specWrite, applyShard_kv d d' c n h]
    | kv rec =>
      simp only [DB.absKV, specStep, specWrite]
      exact applyKV_casStep d d' rec n h k
    | report nhi => simp [DB.absKV, specStep, specWrite, applyReport_kv d d' nhi n h]
    | requests rs =>
      simp only at h
      unfold DB.applyRequests at h
      cases hl : isLaunchBatch rs with
      | panic w => simp [hl] at h
      | ok launch =>
        simp only [hl] at h
        cases launch with
        | false =>
          simp only [Bool.and_false, Bool.false_eq_true, if_false] at h
          cases h
          simp [DB.absKV, specStep, specWrite, hl, DB.mergeRequests]
        | true =>
          simp only [Bool.and_true, if_true] at h
          by_cases h1 : d.launched = true
          · simp only [h1, if_true] at h; cases h
            have : (d.absKV launchedKey).isSome = true := h1
            simp [specStep, specWrite, hl, this]
          · simp only [h1] at h
            cases hm : (d.mergeRequests rs).markLaunched with
            | panic w => simp [hm] at h
            | ok d2 =>
              simp only [hm] at h; cases h
              unfold DB.markLaunched at hm
              cases hk : (d.mergeRequests rs).applyKV launchedRec with
              | panic w => simp [hk] at hm
              | ok p =>
                obtain ⟨d3, code⟩ := p
                simp only [hk] at hm
                split at hm
                · cases hm
                · cases hm
                  have hs : (kvGet d.kv launchedKey).isSome = false := by
                    simpa [DB.launched] using h1
                  simp only [specStep, specWrite, hl, DB.absKV, hs, Bool.false_eq_true, if_false]
                  have := applyKV_casStep (d.mergeRequests rs) d3 launchedRec code hk k
                  simpa [DB.mergeRequests] using this

/-- **refinement over histories**: after any command history the value of every key is the value of the register
    specification run over the same history -/
theorem kv_history_refines : ∀ (cs : List Cmd) (d d' : DB), runCmds d cs = .ok d' →
    ∀ k, d'.absKV k = cs.foldl specStep d.absKV k := by
  intro cs
  induction cs with
  | nil => intro d d' h k; simp [runCmds] at h; subst h; rfl
  | cons c cs ih =>
    intro d d' h k
    unfold runCmds at h
    cases ha : d.apply c with
    | panic w => simp [ha] at h
    | ok p =>
      obtain ⟨d1, n⟩ := p
      simp only [ha] at h
      have h1 : d1.absKV = specStep d.absKV c := funext (apply_refines_kv d d1 c n ha)
      rw [ih d1 d' h k, h1]; rfl

/-! ### consequences read off the specification -/

/-- the register only ever moves by a successful compare-and-swap: if a step changes the value, the old value was not
    finalized and the writer presented the holder's instance id as its own or as the one it replaces (or the key was free) -/
theorem casStep_changes (cur : Option KVRec) (w : KVRec) (hne : casStep cur w ≠ cur) :
    casStep cur w = some w ∧
      (cur = none ∨ ∃ old, cur = some old ∧ old.finalized = false ∧
        (old.instanceId = w.instanceId ∨ old.instanceId = w.oldInstanceId)) := by
  unfold casStep at hne ⊢
  cases cur with
  | none => exact ⟨rfl, Or.inl rfl⟩
  | some old =>
    simp only at hne ⊢
    by_cases hf : old.finalized = true
    · simp [hf] at hne
    · by_cases hc : old.instanceId = w.instanceId ∨ old.instanceId = w.oldInstanceId
      · simp only [hf, hc]
        refine ⟨by simp, Or.inr ⟨old, rfl, by simpa using hf, hc⟩⟩
      · simp [hf, hc] at hne

/-- one command changes a key only by a successful compare-and-swap of a record written to exactly that key -/
theorem apply_changes_only_by_cas (d d' : DB) (c : Cmd) (n : Nat) (h : d.apply c = .ok (d', n)) (k : Bytes)
    (hne : kvGet d'.kv k ≠ kvGet d.kv k) :
    ∃ w, specWrite d.absKV c = some w ∧ w.key = k ∧ kvGet d'.kv k = some w ∧
      (kvGet d.kv k = none ∨ ∃ old, kvGet d.kv k = some old ∧ old.finalized = false ∧
        (old.instanceId = w.instanceId ∨ old.instanceId = w.oldInstanceId)) := by
  have hr := apply_refines_kv d d' c n h k
  unfold specStep at hr
  cases hw : specWrite d.absKV c with
  | none => simp only [hw] at hr; exact absurd hr hne
  | some w =>
    simp only [hw] at hr
    by_cases hk : k = w.key
    · simp only [hk, if_true] at hr
      have hne' : casStep (d.absKV w.key) w ≠ d.absKV w.key := by
        rw [← hr]; subst hk; exact hne
      obtain ⟨h1, h2⟩ := casStep_changes _ _ hne'
      subst hk
      exact ⟨w, rfl, rfl, by rw [← h1]; exact hr, h2⟩
    · simp only [hk, if_false] at hr; exact absurd hr hne

/-- a register that starts free and only ever receives finalized writes holds the first of them for good
    (bootstrapped flag, launched flag, regions, deployment id are written finalized: first writer wins) -/
theorem casFold_first_writer_wins (ws : List KVRec) (hall : ∀ w ∈ ws, w.finalized = true) :
    ws.foldl casStep none = ws.head? := by
  cases ws with
  | nil => rfl
  | cons w rest =>
    have hw : w.finalized = true := hall w (List.mem_cons_self)
    have : ∀ (l : List KVRec), l.foldl casStep (some w) = some w := by
      intro l
      induction l with
      | nil => rfl
      | cons x xs ih => simp only [List.foldl_cons, casStep, hw, if_true]; exact ih
    simp only [List.foldl_cons, List.head?_cons, casStep]
    exact this rest

/-- the writes to key `k` the specification sees along a history -/
def specWrites (k : Bytes) : KVSpec → List Cmd → List KVRec
  | _, [] => []
  | S, c :: cs =>
    match specWrite S c with
    | some w => if w.key = k then w :: specWrites k (specStep S c) cs else specWrites k (specStep S c) cs
    | none => specWrites k (specStep S c) cs

theorem specFold_key (k : Bytes) : ∀ (cs : List Cmd) (S : KVSpec),
    cs.foldl specStep S k = (specWrites k S cs).foldl casStep (S k) := by
  intro cs
  induction cs with
  | nil => intro S; rfl
  | cons c cs ih =>
    intro S
    simp only [List.foldl_cons]
    rw [ih (specStep S c)]
    simp only [specWrites]
    cases hw : specWrite S c with
    | none => simp [specStep, hw]
    | some w =>
      by_cases hk : w.key = k
      · simp only [hk, if_true, List.foldl_cons]
        simp [specStep, hw, hk]
      · have hk' : ¬ k = w.key := fun h => hk h.symm
        simp only [hk, if_false]
        simp [specStep, hw, hk']

/-- **first writer wins over histories**: a key that is free and only ever written finalized along a history holds the
    first record written to it, whatever else happens -/
theorem first_writer_wins (cs : List Cmd) (d d' : DB) (h : runCmds d cs = .ok d') (k : Bytes)
    (hfree : kvGet d.kv k = none) (hall : ∀ w ∈ specWrites k d.absKV cs, w.finalized = true) :
    kvGet d'.kv k = (specWrites k d.absKV cs).head? := by
  have := kv_history_refines cs d d' h k
  rw [specFold_key] at this
  have hf : d.absKV k = none := hfree
  rw [hf, casFold_first_writer_wins _ hall] at this
  exact this

#print axioms kv_history_refines
#print axioms apply_changes_only_by_cas
#print axioms first_writer_wins
end Drummer
