import DrummerVerif.Model.Elect
/-! C14 prototype: safety of the turn-level election model -/
namespace Elect

theorem campaign_leader (s : Srv) (r : Rec) (s' : Srv) (r' : Rec) (h : campaign s r = (s', r')) (hl : s.leader = false)
    (hl' : s'.leader = true) : recInst r' = s.id := by
  unfold campaign at h
  cases hw : write r s.id (oldInst s) s.tick with
  | mk r1 ok =>
    simp only [hw] at h
    cases ok with
    | false =>
      simp only [Prod.mk.injEq] at h
      obtain ⟨rfl, _⟩ := h
      simp [resetFollower] at hl'
    | true =>
      simp only at h
      by_cases hi : recInst r1 = s.id
      · simp only [hi, if_true, Prod.mk.injEq] at h
        obtain ⟨_, rfl⟩ := h; exact hi
      · simp only [hi, if_false, Prod.mk.injEq] at h
        obtain ⟨rfl, _⟩ := h
        rw [hl] at hl'; cases hl'

/-- C14 `leader_only_after_own_id`: a follower becomes leader in a turn only if no operation failed and it read the
    election record with its own instance id — before renewing, or after its successful campaign -/
theorem leader_only_after_own_id (s0 s' : Srv) (r r' : Rec) (cancel : Bool)
    (h : turn s0 r cancel = some (s', r')) (hf : s0.leader = false) (hl : s'.leader = true) :
    cancel = false ∧ (recInst r = s0.id ∨ recInst r' = s0.id) := by
  unfold turn at h
  simp only [hf, Bool.false_eq_true, if_false] at h
  by_cases hc : cancel = true
  · simp only [hc, if_true, Option.some.injEq, Prod.mk.injEq] at h
    obtain ⟨rfl, _⟩ := h
    simp [resetFollower] at hl
  · have hc' : cancel = false := by simpa using hc
    refine ⟨hc', ?_⟩
    simp only [hc', Bool.false_eq_true, if_false] at h
    by_cases h0 : recInst r = 0
    · simp only [h0, if_true, Option.some.injEq] at h
      right
      have := campaign_leader _ r s' r' h (by simp [hf]) hl
      simpa using this
    · simp only [h0, if_false] at h
      by_cases hown : recInst r = s0.id
      · left; exact hown
      · simp only [hown, if_false] at h
        cases hs : setLeaderInfo s0.cur (recInst r) (recTick r) with
        | unknownState => simp [hs] at h
        | ok c =>
          simp only [hs] at h
          by_cases hd : c.static > deadLeaderMinRound
          · simp only [hd, if_true, Option.some.injEq] at h
            right
            have := campaign_leader _ r s' r' h (by simp [hf]) hl
            simpa using this
          · simp only [hd, if_false, Option.some.injEq, Prod.mk.injEq] at h
            obtain ⟨rfl, _⟩ := h
            simp [hf] at hl

/-- C14 `step_down`: a leader whose read fails or names another instance is a follower after its turn -/
theorem step_down (s0 s' : Srv) (r r' : Rec) (cancel : Bool) (h : turn s0 r cancel = some (s', r'))
    (hl : s0.leader = true) (hbad : cancel = true ∨ recInst r ≠ s0.id) : s'.leader = false := by
  unfold turn at h
  simp only [hl, if_true] at h
  by_cases hc : cancel = true
  · simp only [hc, if_true, Option.some.injEq, Prod.mk.injEq] at h
    obtain ⟨rfl, _⟩ := h; rfl
  · have hne : recInst r ≠ s0.id := by rcases hbad with h1 | h1; exact absurd h1 hc; exact h1
    simp only [hc, if_false, ne_eq, hne, not_false_eq_true, if_true, Option.some.injEq, Prod.mk.injEq] at h
    obtain ⟨rfl, _⟩ := h; rfl

/-- C14 `cas_exclusive`: two campaigns naming the same old holder never both succeed -/
theorem cas_exclusive (r : Rec) (holder a b ta tb : Nat) (hr : recInst r = holder) (hne : r ≠ none)
    (hab : a ≠ b) (hah : a ≠ holder)
    (h1 : (write r a holder ta).2 = true) : (write (write r a holder ta).1 b holder tb).2 = false := by
  cases r with
  | none => exact absurd rfl hne
  | some p =>
    obtain ⟨h0, t0⟩ := p
    simp only [recInst] at hr
    subst hr
    have e1 : write (some (h0, t0)) a h0 ta = (some (a, ta), true) := by
      unfold write; simp
    rw [e1]
    have : ¬ (a = b ∨ a = h0) := by
      intro hh; rcases hh with hh | hh
      · exact hab hh
      · exact hah hh
    unfold write; simp [this]

/-- the record's holder never reverts to "nobody" -/
theorem write_holder (r : Rec) (a old t : Nat) (h : r ≠ none) : (write r a old t).1 ≠ none := by
  cases r with
  | none => exact absurd rfl h
  | some p => obtain ⟨h0, t0⟩ := p; simp only [write]; split <;> simp

#print axioms leader_only_after_own_id
#print axioms step_down
#print axioms cas_exclusive
end Elect
