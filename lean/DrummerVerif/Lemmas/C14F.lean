import DrummerVerif.Model.ElectF
import DrummerVerif.Lemmas.C14
/-! C14 with partial failures: the turn whose operations fail from some point on -/
namespace Elect

theorem fails_zero (k : Nat) : fails 0 k = false := by simp [fails]
theorem fails_one (k : Nat) (hk : 1 ≤ k) : fails 1 k = true := by simp [fails, hk]

theorem renewF_no_failure (s : SrvF) (r : Rec) (n : Nat) :
    renewF s r 0 n =
      (if (write r s.base.id 0 s.base.tick).2 then ({ s with sess := true } : SrvF)
       else { base := becomeFollowerNil s.base, sess := true }, (write r s.base.id 0 s.base.tick).1,
       !(write r s.base.id 0 s.base.tick).2) := by
  unfold renewF
  simp only [fails_zero, Bool.and_false, Bool.false_eq_true, if_false]
  generalize write r s.base.id 0 s.base.tick = w
  obtain ⟨r', ok⟩ := w
  cases ok <;> rfl

theorem campaignF_no_failure (s : SrvF) (r : Rec) (n : Nat) :
    ((campaignF s r 0 n).1.base, (campaignF s r 0 n).2) = campaign s.base r := by
  unfold campaignF campaign
  simp only [fails_zero, Bool.and_false, Bool.false_eq_true, if_false]
  generalize write r s.base.id (oldInst s.base) s.base.tick = w
  obtain ⟨r', ok⟩ := w
  cases ok
  · rfl
  · simp only
    by_cases hi : recInst r' = s.base.id <;> simp [hi]

/-- without failures the turn is the turn of M-ELECT (so every theorem about `turn` applies) -/
theorem turnF_no_failure (s : SrvF) (r : Rec) :
    (turnF s r 0).map (fun p => (p.1.base, p.2)) = turn s.base r false := by
  unfold turnF turn
  simp only [fails_zero, Bool.false_eq_true, if_false]
  by_cases hl : s.base.leader = true
  · simp only [hl, if_true]
    by_cases hr : recInst r ≠ s.base.id
    · simp [hr]
    · simp only [hr, if_false, renewF_no_failure, Option.map_some]
      generalize write r s.base.id 0 (s.base.tick + 1) = w
      obtain ⟨r', ok⟩ := w
      cases ok <;> simp [becomeFollowerNil]
  · simp only [hl, Bool.false_eq_true, if_false]
    by_cases h0 : recInst r = 0
    · simp only [h0, if_true, Option.map_some]
      exact congrArg some (campaignF_no_failure _ r 2)
    · simp only [h0, if_false]
      by_cases hid : recInst r = s.base.id
      · simp only [hid, if_true, renewF_no_failure, Option.map_some]
        -- the record names this server: its own renewal is accepted
        have hacc : (write r s.base.id 0 (s.base.tick + 1)).2 = true := by
          unfold write
          cases r with
          | none => exact absurd rfl h0
          | some p =>
            obtain ⟨hh, tt⟩ := p
            have : hh = s.base.id := hid
            simp [this]
        generalize hw : write r s.base.id 0 (s.base.tick + 1) = w at hacc
        obtain ⟨r', ok⟩ := w
        cases ok
        · cases hacc
        · simp
      · simp only [hid, if_false]
        cases hs : setLeaderInfo s.base.cur (recInst r) (recTick r) with
        | unknownState => simp
        | ok c =>
          simp only
          by_cases hd : c.static > deadLeaderMinRound
          · simp only [hd, if_true, Option.map_some]
            exact congrArg some (campaignF_no_failure _ r 2)
          · simp [hd]

/-- a turn all of whose operations fail is the failed turn of M-ELECT -/
theorem turnF_whole_failure (s : SrvF) (r : Rec) :
    (turnF s r 1).map (fun p => (p.1.base, p.2)) = turn s.base r true := by
  unfold turnF turn
  simp only [fails_one 1 (Nat.le_refl 1), if_true]
  by_cases hl : s.base.leader = true
  · simp [hl, becomeFollowerNil]
  · simp [hl]

/-- what `renewF` can do: the record is untouched or it is this server's own write; leadership is never gained -/
theorem renewF_spec (s : SrvF) (r : Rec) (fa n : Nat) :
    ((renewF s r fa n).2.1 = r ∨ (renewF s r fa n).2.1 = (write r s.base.id 0 s.base.tick).1) ∧
    ((renewF s r fa n).1.base.leader = true → s.base.leader = true) ∧
    (renewF s r fa n).1.base.id = s.base.id := by
  unfold renewF
  generalize hw : write r s.base.id 0 s.base.tick = w
  obtain ⟨r', ok⟩ := w
  cases hs : s.sess <;> cases h1 : fails fa n <;> cases h2 : fails fa (n + 1) <;> cases ok <;>
    simp [becomeFollowerNil, hs, h1, h2]

theorem renewF_out (X s' : SrvF) (r r' : Rec) (fa n : Nat) (e : Bool) (hc : renewF X r fa n = (s', r', e)) :
    (r' = r ∨ r' = (write r X.base.id 0 X.base.tick).1) ∧ (s'.base.leader = true → X.base.leader = true) ∧
      s'.base.id = X.base.id := by
  have h := renewF_spec X r fa n
  rw [hc] at h; exact h

/-- what `campaignF` can do: the record is untouched or it is this server's own compare-and-swap; leadership is gained
    only when the record names the server afterwards and the read after the vote did not fail -/
theorem campaignF_spec (s : SrvF) (r : Rec) (fa n : Nat) (hf : s.base.leader = false) :
    ((campaignF s r fa n).2 = r ∨ (campaignF s r fa n).2 = (write r s.base.id (oldInst s.base) s.base.tick).1) ∧
    ((campaignF s r fa n).1.base.leader = true → recInst (campaignF s r fa n).2 = s.base.id) ∧
    (campaignF s r fa n).1.base.id = s.base.id := by
  unfold campaignF
  generalize hw : write r s.base.id (oldInst s.base) s.base.tick = w
  obtain ⟨r', ok⟩ := w
  by_cases hi : recInst r' = s.base.id <;>
  cases hs : s.sess <;> cases h1 : fails fa n <;> cases h2 : fails fa (n + 1) <;> cases h3 : fails fa (n + 1 + 1) <;>
    cases ok <;> simp [resetFollower, hf, hi, hs, h1, h2, h3]

theorem campaignF_out (X s' : SrvF) (r r' : Rec) (fa n : Nat) (hX : X.base.leader = false)
    (hc : campaignF X r fa n = (s', r')) :
    (r' = r ∨ ∃ old t, r' = (write r X.base.id old t).1) ∧ (s'.base.leader = true → recInst r' = X.base.id) ∧
      s'.base.id = X.base.id := by
  have h := campaignF_spec X r fa n hX
  rw [hc] at h
  exact ⟨h.1.imp id (fun e => ⟨_, _, e⟩), h.2.1, h.2.2⟩

/-- C14 `leader_only_after_own_id`, with failures anywhere in the turn: a follower turns leader only in a turn whose
    first read succeeded and in which the record named it, before or after its own write -/
theorem turnF_leader_only_after_own_id (s s' : SrvF) (r r' : Rec) (fa : Nat) (h : turnF s r fa = some (s', r'))
    (hf : s.base.leader = false) (hl : s'.base.leader = true) :
    fails fa 1 = false ∧ (recInst r = s.base.id ∨ recInst r' = s.base.id) := by
  unfold turnF at h
  simp only [hf, Bool.false_eq_true, if_false] at h
  by_cases h1 : fails fa 1 = true
  · simp only [h1, if_true, Option.some.injEq, Prod.mk.injEq] at h
    obtain ⟨rfl, _⟩ := h
    simp [resetFollower] at hl
  · have h1' : fails fa 1 = false := by simpa using h1
    refine ⟨h1', ?_⟩
    simp only [h1', Bool.false_eq_true, if_false] at h
    by_cases h0 : recInst r = 0
    · simp only [h0, if_true, Option.some.injEq] at h
      exact Or.inr ((campaignF_out _ s' r r' fa 2 (by simp [hf]) h).2.1 hl)
    · simp only [h0, if_false] at h
      by_cases hid : recInst r = s.base.id
      · exact Or.inl hid
      · simp only [hid, if_false] at h
        cases hs : setLeaderInfo s.base.cur (recInst r) (recTick r) with
        | unknownState => simp [hs] at h
        | ok c =>
          simp only [hs] at h
          by_cases hd : c.static > deadLeaderMinRound
          · simp only [hd, if_true, Option.some.injEq] at h
            exact Or.inr ((campaignF_out _ s' r r' fa 2 (by simp [hf]) h).2.1 hl)
          · simp only [hd, if_false, Option.some.injEq, Prod.mk.injEq] at h
            obtain ⟨rfl, _⟩ := h
            simp [hf] at hl

/-- C14 `step_down`, with failures anywhere in the turn -/
theorem turnF_step_down (s s' : SrvF) (r r' : Rec) (fa : Nat) (h : turnF s r fa = some (s', r'))
    (hl : s.base.leader = true) (hc : fails fa 1 = true ∨ recInst r ≠ s.base.id) : s'.base.leader = false := by
  unfold turnF at h
  simp only [hl, if_true] at h
  by_cases h1 : fails fa 1 = true
  · simp only [h1, if_true, Option.some.injEq, Prod.mk.injEq] at h
    obtain ⟨rfl, _⟩ := h; rfl
  · have h1' : fails fa 1 = false := by simpa using h1
    simp only [h1', Bool.false_eq_true, if_false] at h
    rcases hc with hc | hc
    · rw [h1'] at hc; cases hc
    · simp only [hc, ne_eq, not_false_eq_true, if_true, Option.some.injEq, Prod.mk.injEq] at h
      obtain ⟨rfl, _⟩ := h; rfl

/-- the election record changes only by the compare-and-swap of the server whose turn it is -/
theorem turnF_record (s s' : SrvF) (r r' : Rec) (fa : Nat) (h : turnF s r fa = some (s', r')) :
    r' = r ∨ ∃ old t, r' = (write r s.base.id old t).1 := by
  unfold turnF at h
  by_cases hl : s.base.leader = true
  · simp only [hl, if_true] at h
    by_cases h1 : fails fa 1 = true
    · simp only [h1, if_true, Option.some.injEq, Prod.mk.injEq] at h; exact Or.inl h.2.symm
    · have h1' : fails fa 1 = false := by simpa using h1
      simp only [h1', Bool.false_eq_true, if_false] at h
      by_cases hr : recInst r ≠ s.base.id
      · simp only [hr, ne_eq, not_false_eq_true, if_true, Option.some.injEq, Prod.mk.injEq] at h; exact Or.inl h.2.symm
      · have hr' : recInst r = s.base.id := by simpa using hr
        simp only [hr', ne_eq, not_true_eq_false, if_false] at h
        generalize hrn : renewF _ r fa 2 = q at h
        obtain ⟨a, b, c⟩ := q
        simp only [Option.some.injEq, Prod.mk.injEq] at h
        obtain ⟨rfl, rfl⟩ := h
        exact (renewF_out _ _ r _ fa 2 c hrn).1.imp id (fun e => ⟨0, _, e⟩)
  · have hf : s.base.leader = false := by simpa using hl
    simp only [hf, Bool.false_eq_true, if_false] at h
    by_cases h1 : fails fa 1 = true
    · simp only [h1, if_true, Option.some.injEq, Prod.mk.injEq] at h; exact Or.inl h.2.symm
    · have h1' : fails fa 1 = false := by simpa using h1
      simp only [h1', Bool.false_eq_true, if_false] at h
      by_cases h0 : recInst r = 0
      · simp only [h0, if_true, Option.some.injEq] at h
        exact (campaignF_out _ s' r r' fa 2 (by simp [hf]) h).1
      · simp only [h0, if_false] at h
        by_cases hid : recInst r = s.base.id
        · simp only [hid, if_true] at h
          generalize hrn : renewF _ r fa 2 = q at h
          obtain ⟨a, b, c⟩ := q
          have ho := (renewF_out _ _ r _ fa 2 c hrn).1
          cases c <;> simp only [Option.some.injEq, Prod.mk.injEq] at h <;> obtain ⟨_, rfl⟩ := h <;>
            exact ho.imp id (fun e => ⟨0, _, e⟩)
        · simp only [hid, if_false] at h
          cases hs : setLeaderInfo s.base.cur (recInst r) (recTick r) with
          | unknownState => simp [hs] at h
          | ok c =>
            simp only [hs] at h
            by_cases hd : c.static > deadLeaderMinRound
            · simp only [hd, if_true, Option.some.injEq] at h
              exact (campaignF_out _ s' r r' fa 2 (by simp [hf]) h).1
            · simp only [hd, if_false, Option.some.injEq, Prod.mk.injEq] at h; exact Or.inl h.2.symm

/-- the turn panics exactly when the whole-turn model does: never from a reachable state (`no_unknown_state_panic`) -/
theorem turnF_panics_iff (s : SrvF) (r : Rec) (fa : Nat) (h1 : fails fa 1 = false) :
    turnF s r fa = none ↔ turn s.base r false = none := by
  unfold turnF turn
  simp only [h1, Bool.false_eq_true, if_false]
  by_cases hl : s.base.leader = true
  · simp only [hl, if_true]
    constructor
    · intro h; split at h <;> simp at h
    · intro h
      split at h
      · simp at h
      · split at h <;> simp at h
  · simp only [hl, Bool.false_eq_true, if_false]
    by_cases h0 : recInst r = 0
    · simp [h0]
    · simp only [h0, if_false]
      by_cases hid : recInst r = s.base.id
      · simp only [hid, if_true]
        constructor
        · intro h; split at h <;> simp at h
        · intro h; simp at h
      · simp only [hid, if_false]
        cases hs : setLeaderInfo s.base.cur (recInst r) (recTick r) with
        | unknownState => simp
        | ok c =>
          simp only
          constructor
          · intro h; split at h <;> simp at h
          · intro h; split at h <;> simp at h

#print axioms turnF_no_failure
#print axioms turnF_leader_only_after_own_id
#print axioms turnF_record
end Elect
