import DrummerVerif.Lemmas.C14V
/-! C14 prototype: `no_unknown_state_panic`, global half — in every reachable state of any number of servers under any
    schedule (incl. cancelled turns), nobody remembers for the named holder a tick larger than the record's -/
namespace Elect

structure GInv (ss : List Srv) (r : Rec) : Prop where
  ids : (ss.map (·.id)).Nodup
  recB : ∀ h ∈ ss, recInst r = h.id → recTick r ≤ h.tick
  curR : ∀ f ∈ ss, ∀ c, f.cur = some c → c.inst = recInst r → c.tick ≤ recTick r
  curH : ∀ f ∈ ss, ∀ c, f.cur = some c → ∀ h ∈ ss, h.id = c.inst → c.tick ≤ h.tick

theorem others_ne (pre post : List Srv) (s : Srv) (hnd : ((pre ++ s :: post).map (·.id)).Nodup) (x : Srv)
    (hx : x ∈ pre ∨ x ∈ post) : x.id ≠ s.id := by
  simp only [List.map_append, List.map_cons] at hnd
  rw [List.nodup_append] at hnd
  obtain ⟨_, h2, h3⟩ := hnd
  rcases hx with hx | hx
  · intro he
    exact h3 x.id (List.mem_map_of_mem hx) s.id (by simp) he
  · intro he
    have := (List.nodup_cons.mp h2).1
    exact this (he ▸ List.mem_map_of_mem hx)

/-- one turn of any server, cancelled or not, keeps the global invariant -/
theorem gstep_inv (pre post : List Srv) (s s' : Srv) (r r' : Rec) (cancel : Bool) (hinv : GInv (pre ++ s :: post) r)
    (h : turn s r cancel = some (s', r')) : GInv (pre ++ s' :: post) r' := by
  obtain ⟨hid, htk, hcur, hrec⟩ := turn_shape s r cancel s' r' h
  have hmem : ∀ x, x ∈ pre ++ s' :: post → x = s' ∨ ((x ∈ pre ∨ x ∈ post) ∧ x ∈ pre ++ s :: post) := by
    intro x hx
    simp only [List.mem_append, List.mem_cons] at hx ⊢
    rcases hx with hx | rfl | hx
    · exact Or.inr ⟨Or.inl hx, Or.inl hx⟩
    · exact Or.inl rfl
    · exact Or.inr ⟨Or.inr hx, Or.inr (Or.inr hx)⟩
  have hs : s ∈ pre ++ s :: post := by simp
  have hne := others_ne pre post s hinv.ids
  -- what `s'` remembers is bounded by clocks and record, w.r.t. the OLD record
  have hcurH' : ∀ c, s'.cur = some c → ∀ x ∈ pre ++ s :: post, x.id = c.inst → c.tick ≤ x.tick := by
    intro c hc x hx hxi
    rcases hcur with hn | ⟨c0, c', h0, h1, e1, e2⟩ | ⟨c', h1, e1, e2⟩
    · rw [hn] at hc; cases hc
    · rw [h1] at hc; cases hc
      rw [e2]; exact hinv.curH s hs c0 h0 x hx (hxi.trans e1)
    · rw [h1] at hc; cases hc
      rw [e2]; exact hinv.recB x hx (e1.symm.trans hxi.symm)
  have hcurR' : ∀ c, s'.cur = some c → c.inst = recInst r → c.tick ≤ recTick r := by
    intro c hc hci
    rcases hcur with hn | ⟨c0, c', h0, h1, e1, e2⟩ | ⟨c', h1, e1, e2⟩
    · rw [hn] at hc; cases hc
    · rw [h1] at hc; cases hc
      rw [e2]; exact hinv.curR s hs c0 h0 (e1.symm.trans hci)
    · rw [h1] at hc; cases hc
      rw [e2]; exact Nat.le_refl _
  have hids : ((pre ++ s' :: post).map (·.id)).Nodup := by
    have : (pre ++ s' :: post).map (·.id) = (pre ++ s :: post).map (·.id) := by simp [hid]
    rw [this]; exact hinv.ids
  have hcurH : ∀ f ∈ pre ++ s' :: post, ∀ c, f.cur = some c → ∀ x ∈ pre ++ s' :: post, x.id = c.inst → c.tick ≤ x.tick := by
    intro f hf c hc x hx hxi
    rcases hmem f hf with rfl | ⟨_, hfo⟩ <;> rcases hmem x hx with rfl | ⟨_, hxo⟩
    · have := hcurH' c hc s hs (hid ▸ hxi); omega
    · exact hcurH' c hc x hxo hxi
    · have := hinv.curH f hfo c hc s hs (hid ▸ hxi); omega
    · exact hinv.curH f hfo c hc x hxo hxi
  rcases hrec with rfl | rfl
  · -- record untouched
    refine ⟨hids, ?_, ?_, hcurH⟩
    · intro x hx hri
      rcases hmem x hx with rfl | ⟨_, hxo⟩
      · have := hinv.recB s hs (hri.trans hid); omega
      · exact hinv.recB x hxo hri
    · intro f hf c hc hci
      rcases hmem f hf with rfl | ⟨_, hfo⟩
      · exact hcurR' c hc hci
      · exact hinv.curR f hfo c hc hci
  · -- record now names this server with its new clock value
    refine ⟨hids, ?_, ?_, hcurH⟩
    · intro x hx hri
      simp only [recInst, recTick] at hri ⊢
      rcases hmem x hx with rfl | ⟨hxp, _⟩
      · omega
      · exact absurd hri.symm (hne x hxp)
    · intro f hf c hc hci
      simp only [recInst, recTick] at hci ⊢
      rcases hmem f hf with rfl | ⟨_, hfo⟩
      · have := hcurH' c hc s hs hci.symm; omega
      · have := hinv.curH f hfo c hc s hs hci.symm; omega

/-- reachable global states: any server takes any turn, cancelled or not, in any order -/
inductive GReach : List Srv → Rec → Prop
  | init (ss : List Srv) : (ss.map (·.id)).Nodup → (∀ s ∈ ss, s.cur = none) → GReach ss none
  | step (pre post : List Srv) (s s' : Srv) (r r' : Rec) (cancel : Bool) : GReach (pre ++ s :: post) r →
      turn s r cancel = some (s', r') → GReach (pre ++ s' :: post) r'

theorem greach_inv (ss : List Srv) (r : Rec) (h : GReach ss r) : GInv ss r := by
  induction h with
  | init ss hnd hc =>
    refine ⟨hnd, fun _ _ _ => Nat.zero_le _, ?_, ?_⟩
    · intro f hf c hcur; rw [hc f hf] at hcur; cases hcur
    · intro f hf c hcur; rw [hc f hf] at hcur; cases hcur
  | step pre post s s' r r' cancel _ ht ih => exact gstep_inv pre post s s' r r' cancel ih ht

/-- C14 `no_unknown_state_panic`: in every state reachable by any number of servers with distinct ids under any
    schedule, with any turns cancelled, no server's next turn — cancelled or not — reaches `panic("unknown state")` -/
theorem no_unknown_state_panic (ss : List Srv) (r : Rec) (h : GReach ss r) (s : Srv) (hs : s ∈ ss) (cancel : Bool) :
    ∃ p, turn s r cancel = some p :=
  turn_no_panic s r cancel ((greach_inv ss r h).curR s hs)

#print axioms no_unknown_state_panic
end Elect
