import DrummerVerif.Lemmas.C14T
/-! C14 prototype: take-over with any number of followers, round-fair turns, silent holder -/
namespace Elect

/-- every follower takes one turn, in list order, on the record the previous one left -/
def runFollowers : List Srv → Rec → Option (List Srv × Rec)
  | [], r => some ([], r)
  | f :: fs, r => match turn f r false with
    | none => none
    | some (f', r') => match runFollowers fs r' with
      | none => none
      | some (fs', r'') => some (f' :: fs', r'')

inductive All2 {α β : Type} (R : α → β → Prop) : List α → List β → Prop
  | nil : All2 R [] []
  | cons {a b as bs} : R a b → All2 R as bs → All2 R (a :: as) (b :: bs)

def Bumped (L t : Nat) (f f' : Srv) : Prop :=
  ∃ k, Watching L t k f ∧ k < deadLeaderMinRound ∧ Watching L t (k + 1) f' ∧ f'.id = f.id

def Follows (W tk : Nat) (g g' : Srv) : Prop := Calm W tk g' ∧ g'.id = g.id

/-- everybody behind the winner in the round's order sees the winner's record and follows -/
theorem losers_run (L t W tk : Nat) (hW0 : W ≠ 0) (hWL : L ≠ W) : ∀ (post : List Srv),
    (∀ g ∈ post, (∃ k, Watching L t k g) ∧ g.id ≠ W) →
    ∃ post', runFollowers post (some (W, tk)) = some (post', some (W, tk)) ∧ All2 (Follows W tk) post post' := by
  intro post
  induction post with
  | nil => intro _; exact ⟨[], rfl, All2.nil⟩
  | cons g gs ih =>
    intro h
    obtain ⟨⟨k, hl, _, _, hcur⟩, hne⟩ := h g (by simp)
    obtain ⟨g', ht, hcalm, hidg⟩ := loser_follows W tk g hl hW0 (fun e => hne e.symm)
      (fun c hc => by rw [hcur] at hc; cases hc; exact hWL)
    obtain ⟨gs', hr, hf⟩ := ih (fun x hx => h x (by simp [hx]))
    refine ⟨g' :: gs', ?_, All2.cons ⟨hcalm, hidg⟩ hf⟩
    rw [runFollowers, ht]; simp only; rw [hr]

/-- one round of watching followers against the dead holder's record: either nobody was at the threshold and everyone
    is bumped, or exactly the first follower at the threshold wins, those before it are bumped, those after it follow -/
theorem watching_round (L t : Nat) : ∀ (fs : List Srv), (fs.map (·.id)).Nodup → (∀ f ∈ fs, f.id ≠ 0) →
    (∀ f ∈ fs, ∃ k, Watching L t k f ∧ k ≤ deadLeaderMinRound) →
    (∃ fs', runFollowers fs (some (L, t)) = some (fs', some (L, t)) ∧ All2 (Bumped L t) fs fs') ∨
    (∃ pre w post pre' w' post' tk, fs = pre ++ w :: post ∧
      runFollowers fs (some (L, t)) = some (pre' ++ w' :: post', some (w.id, tk)) ∧
      All2 (Bumped L t) pre pre' ∧ w'.leader = true ∧ w'.id = w.id ∧
      All2 (Follows w.id tk) post post') := by
  intro fs
  induction fs with
  | nil => intro _ _ _; exact Or.inl ⟨[], rfl, All2.nil⟩
  | cons f fs ih =>
    intro hnd hnz hw
    obtain ⟨k, hwk, hk⟩ := hw f (by simp)
    simp only [List.map_cons, List.nodup_cons] at hnd
    by_cases hlt : k < deadLeaderMinRound
    · obtain ⟨f1, ht, hw1, hid⟩ := watch_step L t k f hwk hlt
      rcases ih hnd.2 (fun x hx => hnz x (by simp [hx])) (fun x hx => hw x (by simp [hx])) with
        ⟨fs', hr, hb⟩ | ⟨pre, w, post, pre', w', post', tk, hsplit, hr, hb, hl, hidw, hfo⟩
      · left
        refine ⟨f1 :: fs', ?_, All2.cons ⟨k, hwk, hlt, hw1, hid⟩ hb⟩
        rw [runFollowers, ht]; simp only; rw [hr]
      · right
        refine ⟨f :: pre, w, post, f1 :: pre', w', post', tk, by rw [hsplit]; rfl, ?_,
          All2.cons ⟨k, hwk, hlt, hw1, hid⟩ hb, hl, hidw, hfo⟩
        rw [runFollowers, ht]; simp only; rw [hr]; rfl
    · have hk3 : k = deadLeaderMinRound := by omega
      subst hk3
      obtain ⟨f1, ht, hl, hid⟩ := watch_campaign L t f hwk
      obtain ⟨_, hL0, hLf, _⟩ := hwk
      obtain ⟨post', hr, hfo⟩ := losers_run L t f.id (f.tick + 1) (hnz f (by simp)) hLf fs
        (fun g hg => ⟨(hw g (by simp [hg])).imp fun _ h => h.1,
          fun e => hnd.1 (e ▸ List.mem_map_of_mem hg)⟩)
      right
      refine ⟨[], f, fs, [], f1, post', f.tick + 1, rfl, ?_, All2.nil, hl, hid, hfo⟩
      rw [runFollowers, ht]; simp only; rw [hr]; rfl

#print axioms watching_round

theorem All2.forall_right {α β : Type} {R : α → β → Prop} {P : β → Prop} : ∀ {as : List α} {bs : List β},
    All2 R as bs → (∀ a b, R a b → P b) → ∀ b ∈ bs, P b
  | _, _, .nil, _, b, hb => by simp at hb
  | _, _, .cons h t, hp, b, hb => by
    rcases List.mem_cons.mp hb with rfl | hm
    · exact hp _ _ h
    · exact All2.forall_right t hp b hm

theorem All2.exists_left {α β : Type} {R : α → β → Prop} : ∀ {as : List α} {bs : List β},
    All2 R as bs → ∀ b ∈ bs, ∃ a ∈ as, R a b
  | _, _, .nil, b, hb => by simp at hb
  | _, _, .cons h t, b, hb => by
    rcases List.mem_cons.mp hb with rfl | hm
    · exact ⟨_, by simp, h⟩
    · obtain ⟨a, ha, hr⟩ := All2.exists_left t b hm
      exact ⟨a, by simp [ha], hr⟩

theorem All2.map_eq {α β γ : Type} {R : α → β → Prop} (f : α → γ) (g : β → γ) : ∀ {as : List α} {bs : List β},
    All2 R as bs → (∀ a b, R a b → g b = f a) → bs.map g = as.map f
  | _, _, .nil, _ => rfl
  | _, _, .cons h t, hp => by simp [hp _ _ h, All2.map_eq f g t hp]

theorem All2.ne_nil {α β : Type} {R : α → β → Prop} : ∀ {as : List α} {bs : List β}, All2 R as bs → as ≠ [] → bs ≠ []
  | _, _, .nil, h => absurd rfl h
  | _, _, .cons _ _, _ => by simp

theorem watching_unique (L t k k' : Nat) (f : Srv) (h : Watching L t k f) (h' : Watching L t k' f) : k = k' := by
  have := h.2.2.2.symm.trans h'.2.2.2
  simpa using this

def rounds : Nat → List Srv → Rec → Option (List Srv × Rec)
  | 0, fs, r => some (fs, r)
  | n + 1, fs, r => match runFollowers fs r with
    | none => none
    | some (fs', r') => rounds n fs' r'

/-- exactly one of the servers is leader and the record names it -/
def Won (out : List Srv) (r : Rec) : Prop :=
  ∃ pre w post tk, out = pre ++ w :: post ∧ r = some (w.id, tk) ∧ w.leader = true ∧
    (∀ f ∈ pre, f.leader = false) ∧ (∀ g ∈ post, g.leader = false)

/-- C14 `bounded_takeover`, any number of followers: if every follower has seen the dead holder's record at least
    `lo` times, then within `4 - lo` round-fair rounds exactly one follower is leader, the record names it and every
    other follower is still a follower -/
theorem takeover_rounds (L t : Nat) : ∀ (j lo : Nat) (fs : List Srv), lo + j = deadLeaderMinRound → fs ≠ [] →
    (fs.map (·.id)).Nodup → (∀ f ∈ fs, f.id ≠ 0) →
    (∀ f ∈ fs, ∃ k, Watching L t k f ∧ lo ≤ k ∧ k ≤ deadLeaderMinRound) →
    ∃ n out r, 1 ≤ n ∧ n ≤ j + 1 ∧ rounds n fs (some (L, t)) = some (out, r) ∧ Won out r := by
  intro j
  induction j with
  | zero =>
    intro lo fs hlo hne hnd hnz hw
    rcases watching_round L t fs hnd hnz (fun f hf => (hw f hf).imp fun _ h => ⟨h.1, h.2.2⟩) with
      ⟨fs', _, hb⟩ | ⟨pre, w, post, pre', w', post', tk, _, hr, hb, hl, hidw, hfo⟩
    · -- impossible: somebody is at the threshold
      cases fs with
      | nil => exact absurd rfl hne
      | cons f rest =>
        cases hb with
        | cons h _ =>
          obtain ⟨k, hwk, hk, _⟩ := h
          obtain ⟨k0, hw0, hlo0, _⟩ := hw f (by simp)
          have := watching_unique L t k k0 f hwk hw0
          omega
    · refine ⟨1, pre' ++ w' :: post', some (w.id, tk), by omega, by omega, by simp [rounds, hr], ?_⟩
      exact ⟨pre', w', post', tk, rfl, by rw [hidw], hl,
        All2.forall_right hb (fun _ _ ⟨_, _, _, hw', _⟩ => hw'.1), All2.forall_right hfo (fun _ _ h => h.1.1)⟩
  | succ j ih =>
    intro lo fs hlo hne hnd hnz hw
    rcases watching_round L t fs hnd hnz (fun f hf => (hw f hf).imp fun _ h => ⟨h.1, h.2.2⟩) with
      ⟨fs', hr, hb⟩ | ⟨pre, w, post, pre', w', post', tk, _, hr, hb, hl, hidw, hfo⟩
    · have hids : fs'.map (·.id) = fs.map (·.id) := All2.map_eq (·.id) (·.id) hb (fun _ _ ⟨_, _, _, _, hid⟩ => hid)
      obtain ⟨n, out, r, h1, hn, hrs, hwon⟩ := ih (lo + 1) fs' (by omega) (All2.ne_nil hb hne) (hids ▸ hnd)
        (by
          intro f' hf'
          obtain ⟨f, hf, _, _, _, _, hid⟩ := All2.exists_left hb f' hf'
          rw [hid]; exact hnz f hf)
        (by
          intro f' hf'
          obtain ⟨f, hf, k, hwk, hk, hw', _⟩ := All2.exists_left hb f' hf'
          obtain ⟨k0, hw0, hlo0, _⟩ := hw f hf
          have := watching_unique L t k k0 f hwk hw0
          exact ⟨k + 1, hw', by omega, by omega⟩)
      exact ⟨n + 1, out, r, by omega, by omega, by simp [rounds, hr, hrs], hwon⟩
    · refine ⟨1, pre' ++ w' :: post', some (w.id, tk), by omega, by omega, by simp [rounds, hr], ?_⟩
      exact ⟨pre', w', post', tk, rfl, by rw [hidw], hl,
        All2.forall_right hb (fun _ _ ⟨_, _, _, hw', _⟩ => hw'.1), All2.forall_right hfo (fun _ _ h => h.1.1)⟩

#print axioms takeover_rounds

/-- rounds in which the order of the followers is re-chosen every round -/
def roundsP (σ : Nat → List Srv → List Srv) : Nat → Nat → List Srv → Rec → Option (List Srv × Rec)
  | _, 0, fs, r => some (fs, r)
  | i, n + 1, fs, r => match runFollowers (σ i fs) r with
    | none => none
    | some (fs', r') => roundsP σ (i + 1) n fs' r'

/-- `takeover_rounds` with an arbitrary re-ordering of the followers before every round -/
theorem takeover_roundsP (L t : Nat) (σ : Nat → List Srv → List Srv) (hσ : ∀ i l, (σ i l).Perm l) :
    ∀ (j lo i : Nat) (fs : List Srv), lo + j = deadLeaderMinRound → fs ≠ [] →
    (fs.map (·.id)).Nodup → (∀ f ∈ fs, f.id ≠ 0) →
    (∀ f ∈ fs, ∃ k, Watching L t k f ∧ lo ≤ k ∧ k ≤ deadLeaderMinRound) →
    ∃ n out r, 1 ≤ n ∧ n ≤ j + 1 ∧ roundsP σ i n fs (some (L, t)) = some (out, r) ∧ Won out r := by
  intro j
  induction j with
  | zero =>
    intro lo i fs0 hlo hne0 hnd0 hnz0 hw0
    have hp := hσ i fs0
    have hne : σ i fs0 ≠ [] := fun h => hne0 (by have := hp.length_eq; rw [h] at this; exact List.eq_nil_of_length_eq_zero this.symm)
    have hnd : ((σ i fs0).map (·.id)).Nodup := ((hp.map (·.id)).nodup_iff).mpr hnd0
    have hnz : ∀ f ∈ σ i fs0, f.id ≠ 0 := fun f hf => hnz0 f (hp.mem_iff.mp hf)
    have hw : ∀ f ∈ σ i fs0, ∃ k, Watching L t k f ∧ lo ≤ k ∧ k ≤ deadLeaderMinRound := fun f hf => hw0 f (hp.mem_iff.mp hf)
    obtain ⟨fs, hfs⟩ : ∃ fs, σ i fs0 = fs := ⟨_, rfl⟩
    rw [hfs] at hne hnd hnz hw hp
    rcases watching_round L t fs hnd hnz (fun f hf => (hw f hf).imp fun _ h => ⟨h.1, h.2.2⟩) with
      ⟨fs', _, hb⟩ | ⟨pre, w, post, pre', w', post', tk, _, hr, hb, hl, hidw, hfo⟩
    · -- impossible: somebody is at the threshold
      cases fs with
      | nil => exact absurd rfl hne
      | cons f rest =>
        cases hb with
        | cons h _ =>
          obtain ⟨k, hwk, hk, _⟩ := h
          obtain ⟨k0, hw0, hlo0, _⟩ := hw f (by simp)
          have := watching_unique L t k k0 f hwk hw0
          omega
    · refine ⟨1, pre' ++ w' :: post', some (w.id, tk), by omega, by omega, by simp [roundsP, hfs, hr], ?_⟩
      exact ⟨pre', w', post', tk, rfl, by rw [hidw], hl,
        All2.forall_right hb (fun _ _ ⟨_, _, _, hw', _⟩ => hw'.1), All2.forall_right hfo (fun _ _ h => h.1.1)⟩
  | succ j ih =>
    intro lo i fs0 hlo hne0 hnd0 hnz0 hw0
    have hp := hσ i fs0
    have hne : σ i fs0 ≠ [] := fun h => hne0 (by have := hp.length_eq; rw [h] at this; exact List.eq_nil_of_length_eq_zero this.symm)
    have hnd : ((σ i fs0).map (·.id)).Nodup := ((hp.map (·.id)).nodup_iff).mpr hnd0
    have hnz : ∀ f ∈ σ i fs0, f.id ≠ 0 := fun f hf => hnz0 f (hp.mem_iff.mp hf)
    have hw : ∀ f ∈ σ i fs0, ∃ k, Watching L t k f ∧ lo ≤ k ∧ k ≤ deadLeaderMinRound := fun f hf => hw0 f (hp.mem_iff.mp hf)
    obtain ⟨fs, hfs⟩ : ∃ fs, σ i fs0 = fs := ⟨_, rfl⟩
    rw [hfs] at hne hnd hnz hw hp
    rcases watching_round L t fs hnd hnz (fun f hf => (hw f hf).imp fun _ h => ⟨h.1, h.2.2⟩) with
      ⟨fs', hr, hb⟩ | ⟨pre, w, post, pre', w', post', tk, _, hr, hb, hl, hidw, hfo⟩
    · have hids : fs'.map (·.id) = fs.map (·.id) := All2.map_eq (·.id) (·.id) hb (fun _ _ ⟨_, _, _, _, hid⟩ => hid)
      obtain ⟨n, out, r, h1, hn, hrs, hwon⟩ := ih (lo + 1) (i + 1) fs' (by omega) (All2.ne_nil hb hne) (hids ▸ hnd)
        (by
          intro f' hf'
          obtain ⟨f, hf, _, _, _, _, hid⟩ := All2.exists_left hb f' hf'
          rw [hid]; exact hnz f hf)
        (by
          intro f' hf'
          obtain ⟨f, hf, k, hwk, hk, hw', _⟩ := All2.exists_left hb f' hf'
          obtain ⟨k0, hw0, hlo0, _⟩ := hw f hf
          have := watching_unique L t k k0 f hwk hw0
          exact ⟨k + 1, hw', by omega, by omega⟩)
      exact ⟨n + 1, out, r, by omega, by omega, by simp [roundsP, hfs, hr, hrs], hwon⟩
    · refine ⟨1, pre' ++ w' :: post', some (w.id, tk), by omega, by omega, by simp [roundsP, hfs, hr], ?_⟩
      exact ⟨pre', w', post', tk, rfl, by rw [hidw], hl,
        All2.forall_right hb (fun _ _ ⟨_, _, _, hw', _⟩ => hw'.1), All2.forall_right hfo (fun _ _ h => h.1.1)⟩

#print axioms takeover_roundsP


/-- the first round after the holder's last renewal: every calm follower looks once and is then watching the frozen
    record with a counter of at most one; nobody writes -/
theorem observe_all (L t : Nat) : ∀ (fs : List Srv), (∀ f ∈ fs, Calm L t f) →
    ∃ fs', runFollowers fs (some (L, t)) = some (fs', some (L, t)) ∧
      All2 (fun f f' => (∃ k, Watching L t k f' ∧ k ≤ 1) ∧ f'.id = f.id) fs fs' := by
  intro fs
  induction fs with
  | nil => intro _; exact ⟨[], rfl, All2.nil⟩
  | cons f fs ih =>
    intro h
    have hc := h f (by simp)
    obtain ⟨f1, ht, hl1, hid1, c, hcur, hi, htk, hst, _⟩ := observe_calm L t f hc
    obtain ⟨_, hL0, hLf, _⟩ := hc
    obtain ⟨fs', hr, ha⟩ := ih (fun x hx => h x (by simp [hx]))
    refine ⟨f1 :: fs', ?_, All2.cons ⟨⟨c.static, ⟨hl1, hL0, hid1 ▸ hLf, ?_⟩, hst⟩, hid1⟩ ha⟩
    · rw [runFollowers, ht]; simp only; rw [hr]
    · rw [hcur]; cases c; simp_all

/-- C14 `bounded_takeover`: any number (≥ 1) of followers with distinct non-zero ids, all calm under the holder `L`
    when it stops renewing, taking round-fair turns in any fixed order: after at least two and at most five rounds
    exactly one of them is leader, the election record names it, and all the others are followers -/
theorem bounded_takeover (L t : Nat) (fs : List Srv) (hne : fs ≠ []) (hnd : (fs.map (·.id)).Nodup)
    (hnz : ∀ f ∈ fs, f.id ≠ 0) (hcalm : ∀ f ∈ fs, Calm L t f) :
    ∃ n out r, 2 ≤ n ∧ n ≤ 5 ∧ rounds n fs (some (L, t)) = some (out, r) ∧ Won out r := by
  obtain ⟨fs', hr, ha⟩ := observe_all L t fs hcalm
  have hids : fs'.map (·.id) = fs.map (·.id) := All2.map_eq (·.id) (·.id) ha (fun _ _ h => h.2)
  obtain ⟨n, out, r, h1, hn, hrs, hwon⟩ := takeover_rounds L t deadLeaderMinRound 0 fs' (by omega) (All2.ne_nil ha hne)
    (hids ▸ hnd)
    (by
      intro f' hf'
      obtain ⟨f, hf, _, hid⟩ := All2.exists_left ha f' hf'
      rw [hid]; exact hnz f hf)
    (by
      intro f' hf'
      obtain ⟨f, hf, ⟨k, hw, hk⟩, _⟩ := All2.exists_left ha f' hf'
      exact ⟨k, hw, by omega, by unfold deadLeaderMinRound Drummer.Gen.deadLeaderMinRound; omega⟩)
  refine ⟨n + 1, out, r, by omega, by unfold deadLeaderMinRound Drummer.Gen.deadLeaderMinRound at hn; omega, ?_, hwon⟩
  simp [rounds, hr, hrs]

#print axioms bounded_takeover
end Elect
