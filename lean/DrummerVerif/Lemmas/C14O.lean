import DrummerVerif.Model.ElectO
import DrummerVerif.Lemmas.C14F
/-! C14 at the granularity of single DB operations -/
namespace Elect

/-- a server in the middle of a leader's renewal is a leader; in the middle of anything else it is a follower -/
def SrvO.WF (s : SrvO) : Prop :=
  match s.pend with
  | .idle => True
  | .renewL => s.base.leader = true
  | _ => s.base.leader = false

theorem write_accepted_names (r r' : Rec) (i o t : Nat) (h : write r i o t = (r', true)) : recInst r' = i := by
  unfold write at h
  cases r with
  | none => simp at h; rw [← h]; rfl
  | some p =>
    obtain ⟨hh, tt⟩ := p
    simp only at h
    split at h
    · simp at h; rw [← h]; rfl
    · simp at h

theorem write_refused_same (r r' : Rec) (i o t : Nat) (h : write r i o t = (r', false)) : r' = r := by
  unfold write at h
  cases r with
  | none => simp at h
  | some p =>
    obtain ⟨hh, tt⟩ := p
    simp only at h
    split at h
    · simp at h
    · simp at h; exact h.symm

/-- **leader only after own id, for every interleaving**: whenever an operation leaves the server regarding itself as
    leader, that operation did not fail and the record names the server right after it (it read its own id, or its
    write was accepted) — or the operation was the session request of a leader's renewal, which does not touch the
    record and leaves the server what it was -/
theorem micro_leader_only_after_own_id (s s' : SrvO) (r r' : Rec) (fail : Bool) (hwf : s.WF)
    (h : micro s r fail = some (s', r')) (hl : s'.base.leader = true) :
    (fail = false ∧ recInst r' = s.base.id) ∨ (s.pend = .renewL ∧ s.sess = false ∧ s.base.leader = true ∧ r' = r) := by
  unfold micro at h
  unfold SrvO.WF at hwf
  cases hp : s.pend with
  | idle =>
    simp only [hp] at h
    by_cases hlead : s.base.leader = true
    · simp only [hlead, if_true] at h
      cases fail with
      | true => simp at h; obtain ⟨h1, _⟩ := h; rw [← h1] at hl; simp [becomeFollowerNil] at hl
      | false =>
        simp only [Bool.false_eq_true, if_false] at h
        split at h
        · simp only [Option.some.injEq, Prod.mk.injEq] at h
          obtain ⟨h1, _⟩ := h; rw [← h1] at hl; simp at hl
        · rename_i hr
          simp only [Option.some.injEq, Prod.mk.injEq] at h
          obtain ⟨_, h2⟩ := h
          left; refine ⟨rfl, ?_⟩
          rw [← h2]; exact Classical.not_not.mp hr
    · have hlf : s.base.leader = false := by simpa using hlead
      simp only [hlf, Bool.false_eq_true, if_false] at h
      exfalso
      cases fail with
      | true => simp at h; obtain ⟨h1, _⟩ := h; rw [← h1] at hl; simp [resetFollower] at hl
      | false =>
        simp only [Bool.false_eq_true, if_false] at h
        split at h
        · simp at h; obtain ⟨h1, _⟩ := h; rw [← h1] at hl; simp [hlf] at hl
        · split at h
          · simp at h; obtain ⟨h1, _⟩ := h; rw [← h1] at hl; simp [hlf] at hl
          · split at h
            · cases h
            · split at h
              · simp at h; obtain ⟨h1, _⟩ := h; rw [← h1] at hl; simp [hlf] at hl
              · simp at h; obtain ⟨h1, _⟩ := h; rw [← h1] at hl; simp [hlf] at hl
  | renewL =>
    simp only [hp] at h hwf
    cases hs : s.sess with
    | false =>
      simp only [hs, Bool.not_false, if_true] at h
      right
      refine ⟨rfl, rfl, hwf, ?_⟩
      cases fail <;> simp at h <;> exact h.2.symm
    | true =>
      simp only [hs, Bool.not_true, Bool.false_eq_true, if_false] at h
      cases fail with
      | true => simp at h; obtain ⟨h1, _⟩ := h; rw [← h1] at hl; simp [becomeFollowerNil] at hl
      | false =>
        simp only [Bool.false_eq_true, if_false] at h
        generalize hw : write r s.base.id 0 s.base.tick = w at h
        obtain ⟨r2, ok⟩ := w
        cases ok with
        | true =>
          simp only [Option.some.injEq, Prod.mk.injEq] at h
          left; refine ⟨rfl, ?_⟩
          rw [← h.2]; exact write_accepted_names r r2 _ _ _ hw
        | false =>
          simp only [Option.some.injEq, Prod.mk.injEq] at h
          obtain ⟨h1, _⟩ := h; rw [← h1] at hl; simp [becomeFollowerNil] at hl
  | renewR =>
    simp only [hp] at h hwf
    cases hs : s.sess with
    | false =>
      simp only [hs, Bool.not_false, if_true] at h
      exfalso
      cases fail <;> simp at h <;> (obtain ⟨h1, _⟩ := h; rw [← h1] at hl; simp [resetFollower, hwf] at hl)
    | true =>
      simp only [hs, Bool.not_true, Bool.false_eq_true, if_false] at h
      cases fail with
      | true => simp at h; obtain ⟨h1, _⟩ := h; rw [← h1] at hl; simp [becomeFollowerNil, resetFollower] at hl
      | false =>
        simp only [Bool.false_eq_true, if_false] at h
        generalize hw : write r s.base.id 0 s.base.tick = w at h
        obtain ⟨r2, ok⟩ := w
        cases ok with
        | true =>
          simp only [Option.some.injEq, Prod.mk.injEq] at h
          left; refine ⟨rfl, ?_⟩
          rw [← h.2]; exact write_accepted_names r r2 _ _ _ hw
        | false =>
          simp only [Option.some.injEq, Prod.mk.injEq] at h
          obtain ⟨h1, _⟩ := h; rw [← h1] at hl; simp [becomeFollowerNil, resetFollower] at hl
  | camp =>
    simp only [hp] at h hwf
    exfalso
    cases hs : s.sess with
    | false =>
      simp only [hs, Bool.not_false, if_true] at h
      cases fail <;> simp at h <;> (obtain ⟨h1, _⟩ := h; rw [← h1] at hl; simp [hwf] at hl)
    | true =>
      simp only [hs, Bool.not_true, Bool.false_eq_true, if_false] at h
      cases fail with
      | true => simp at h; obtain ⟨h1, _⟩ := h; rw [← h1] at hl; simp [resetFollower] at hl
      | false =>
        simp only [Bool.false_eq_true, if_false] at h
        generalize hw : write r s.base.id (oldInst s.base) s.base.tick = w at h
        obtain ⟨r2, ok⟩ := w
        cases ok with
        | true =>
          simp only [Option.some.injEq, Prod.mk.injEq] at h
          obtain ⟨h1, _⟩ := h; rw [← h1] at hl; simp [hwf] at hl
        | false =>
          simp only [Option.some.injEq, Prod.mk.injEq] at h
          obtain ⟨h1, _⟩ := h; rw [← h1] at hl; simp [resetFollower] at hl
  | readBack =>
    simp only [hp] at h hwf
    cases fail with
    | true => simp at h; obtain ⟨h1, _⟩ := h; rw [← h1] at hl; simp [resetFollower] at hl
    | false =>
      simp only [Bool.false_eq_true, if_false] at h
      by_cases hr : recInst r = s.base.id
      · simp only [hr, if_true, Option.some.injEq, Prod.mk.injEq] at h
        left; refine ⟨rfl, ?_⟩; rw [← h.2]; exact hr
      · simp only [hr, if_false, Option.some.injEq, Prod.mk.injEq] at h
        obtain ⟨h1, _⟩ := h; rw [← h1] at hl; simp [hwf] at hl

#print axioms micro_leader_only_after_own_id

/-! ## the turn is the operations run back to back -/


def toF (s : SrvO) : SrvF := { base := s.base, sess := s.sess }
def ofF (x : SrvF) : SrvO := { base := x.base, sess := x.sess, pend := .idle }

/-- the renewal of a leader, operation by operation, is `renewF` -/
theorem runOps_renewL (fa fuel k : Nat) (b : Srv) (ss : Bool) (r : Rec) :
    runOps fa (fuel + 2) k { base := b, sess := ss, pend := .renewL } r =
      some (ofF (renewF { base := b, sess := ss } r fa k).1, (renewF { base := b, sess := ss } r fa k).2.1) := by
  cases ss with
  | false =>
    cases h1 : fails fa k with
    | true => simp [runOps, micro, renewF, h1, ofF]
    | false =>
      cases h2 : fails fa (k + 1) with
      | true => simp [runOps, micro, renewF, h1, h2, ofF]
      | false =>
        generalize hw : write r b.id 0 b.tick = w
        obtain ⟨r2, ok⟩ := w
        cases ok <;> simp [runOps, micro, renewF, h1, h2, hw, ofF]
  | true =>
    cases h1 : fails fa k with
    | true => simp [runOps, micro, renewF, h1, ofF]
    | false =>
      generalize hw : write r b.id 0 b.tick = w
      obtain ⟨r2, ok⟩ := w
      cases ok <;> simp [runOps, micro, renewF, h1, hw, ofF]




/-- the renewal of a resuming follower, operation by operation -/
theorem runOps_renewR (fa fuel k : Nat) (b : Srv) (ss : Bool) (r : Rec) :
    runOps fa (fuel + 2) k { base := b, sess := ss, pend := .renewR } r =
      (match renewF { base := b, sess := ss } r fa k with
       | (s', r', true) => some (ofF { s' with base := resetFollower s'.base }, r')
       | (s', r', false) => some (ofF { s' with base := { s'.base with leader := true, cur := none } }, r')) := by
  cases ss with
  | false =>
    cases h1 : fails fa k with
    | true => simp [runOps, micro, renewF, h1, ofF]
    | false =>
      cases h2 : fails fa (k + 1) with
      | true => simp [runOps, micro, renewF, h1, h2, ofF]
      | false =>
        generalize hw : write r b.id 0 b.tick = w
        obtain ⟨r2, ok⟩ := w
        cases ok <;> simp [runOps, micro, renewF, h1, h2, hw, ofF]
  | true =>
    cases h1 : fails fa k with
    | true => simp [runOps, micro, renewF, h1, ofF]
    | false =>
      generalize hw : write r b.id 0 b.tick = w
      obtain ⟨r2, ok⟩ := w
      cases ok <;> simp [runOps, micro, renewF, h1, hw, ofF]

/-- a campaign, operation by operation, is `campaignF` -/
theorem runOps_camp (fa fuel k : Nat) (b : Srv) (ss : Bool) (r : Rec) :
    runOps fa (fuel + 3) k { base := b, sess := ss, pend := .camp } r =
      some (ofF (campaignF { base := b, sess := ss } r fa k).1, (campaignF { base := b, sess := ss } r fa k).2) := by
  cases ss with
  | false =>
    cases h1 : fails fa k with
    | true => simp [runOps, micro, campaignF, h1, ofF]
    | false =>
      cases h2 : fails fa (k + 1) with
      | true => simp [runOps, micro, campaignF, h1, h2, ofF]
      | false =>
        generalize hw : write r b.id (oldInst b) b.tick = w
        obtain ⟨r2, ok⟩ := w
        cases ok with
        | false => simp [runOps, micro, campaignF, h1, h2, hw, ofF]
        | true =>
          cases h3 : fails fa (k + 1 + 1) with
          | true => simp [runOps, micro, campaignF, h1, h2, h3, hw, ofF]
          | false =>
            by_cases hi : recInst r2 = b.id <;> simp [runOps, micro, campaignF, h1, h2, h3, hw, ofF, hi]
  | true =>
    cases h1 : fails fa k with
    | true => simp [runOps, micro, campaignF, h1, ofF]
    | false =>
      generalize hw : write r b.id (oldInst b) b.tick = w
      obtain ⟨r2, ok⟩ := w
      cases ok with
      | false => simp [runOps, micro, campaignF, h1, hw, ofF]
      | true =>
        cases h3 : fails fa (k + 1) with
        | true => simp [runOps, micro, campaignF, h1, h3, hw, ofF]
        | false =>
          by_cases hi : recInst r2 = b.id <;> simp [runOps, micro, campaignF, h1, h3, hw, ofF, hi]


/-- **the turn of `Model/ElectF` is the operation-level model run without anything in between** -/
theorem runTurn_eq_turnF (s : SrvO) (r : Rec) (fa : Nat) (hp : s.pend = .idle) :
    runTurn s r fa = (turnF (toF s) r fa).map (fun p => (ofF p.1, p.2)) := by
  obtain ⟨b, ss, p⟩ := s
  simp only at hp
  subst hp
  unfold runTurn turnF toF
  rw [show (4 : Nat) = 3 + 1 from rfl, runOps]
  cases hl : b.leader with
  | true =>
    cases h1 : fails fa 1 with
    | true => simp [micro, hl, h1, ofF]
    | false =>
      by_cases hr : recInst r ≠ b.id
      · simp [micro, hl, h1, hr, ofF]
      · have hr' : recInst r = b.id := Classical.not_not.mp hr
        simp only [micro, hl, h1, hr', if_true, Bool.false_eq_true, if_false, ne_eq, not_true_eq_false]
        simp only [reduceCtorEq, if_false]
        rw [show (3 : Nat) = 1 + 2 from rfl, runOps_renewL]
        simp
  | false =>
    cases h1 : fails fa 1 with
    | true => simp [micro, hl, h1, ofF]
    | false =>
      by_cases h0 : recInst r = 0
      · simp only [micro, hl, h1, h0, if_true, Bool.false_eq_true, if_false]
        simp only [reduceCtorEq, if_false]
        rw [show (3 : Nat) = 0 + 3 from rfl, runOps_camp]
        simp
      · by_cases hid : recInst r = b.id
        · have h0' : ¬ b.id = 0 := hid ▸ h0
          simp only [micro, hl, h0, h0', hid, if_true, Bool.false_eq_true, if_false]
          simp only [reduceCtorEq, if_false]
          rw [show (3 : Nat) = 1 + 2 from rfl, runOps_renewR]
          generalize renewF _ r fa _ = q
          obtain ⟨s', r', e⟩ := q
          cases e <;> simp
        · simp only [micro, hl, h1, h0, hid, if_true, Bool.false_eq_true, if_false]
          cases hs : setLeaderInfo b.cur (recInst r) (recTick r) with
          | unknownState => simp
          | ok c =>
            simp only
            by_cases hd : c.static > deadLeaderMinRound
            · simp only [hd, if_true]
              simp only [reduceCtorEq, if_false]
              rw [show (3 : Nat) = 0 + 3 from rfl, runOps_camp]
              simp
            · simp [hd, ofF]

/-! ## every operation keeps the bookkeeping straight -/

theorem micro_wf (s s' : SrvO) (r r' : Rec) (fail : Bool) (hwf : s.WF) (h : micro s r fail = some (s', r')) : s'.WF := by
  unfold micro at h
  unfold SrvO.WF at hwf ⊢
  cases hp : s.pend with
  | idle =>
    simp only [hp] at h
    by_cases hlead : s.base.leader = true
    · simp only [hlead, if_true] at h
      cases fail with
      | true => simp at h; obtain ⟨h1, _⟩ := h; rw [← h1] <;> simp [hp]
      | false =>
        simp only [Bool.false_eq_true, if_false] at h
        split at h
        · simp only [Option.some.injEq, Prod.mk.injEq] at h; obtain ⟨h1, _⟩ := h; rw [← h1] <;> simp [hp]
        · simp only [Option.some.injEq, Prod.mk.injEq] at h; obtain ⟨h1, _⟩ := h; rw [← h1] <;> simp [hlead]
    · have hlf : s.base.leader = false := by simpa using hlead
      simp only [hlf, Bool.false_eq_true, if_false] at h
      cases fail with
      | true => simp at h; obtain ⟨h1, _⟩ := h; rw [← h1] <;> simp [hp]
      | false =>
        simp only [Bool.false_eq_true, if_false] at h
        split at h
        · simp at h; obtain ⟨h1, _⟩ := h; rw [← h1] <;> simp [hlf]
        · split at h
          · simp at h; obtain ⟨h1, _⟩ := h; rw [← h1] <;> simp [hlf]
          · split at h
            · cases h
            · split at h
              · simp at h; obtain ⟨h1, _⟩ := h; rw [← h1] <;> simp [hlf]
              · simp at h; obtain ⟨h1, _⟩ := h; rw [← h1] <;> simp [hp]
  | renewL =>
    simp only [hp] at h hwf
    cases hs : s.sess with
    | false =>
      simp only [hs, Bool.not_false, if_true] at h
      cases fail <;> simp at h <;> (obtain ⟨h1, _⟩ := h; rw [← h1] <;> simp [hp, hwf])
    | true =>
      simp only [hs, Bool.not_true, Bool.false_eq_true, if_false] at h
      cases fail with
      | true => simp at h; obtain ⟨h1, _⟩ := h; rw [← h1] <;> simp
      | false =>
        simp only [Bool.false_eq_true, if_false] at h
        generalize write r s.base.id 0 s.base.tick = w at h
        obtain ⟨r2, ok⟩ := w
        cases ok <;> simp only [Option.some.injEq, Prod.mk.injEq] at h <;> (obtain ⟨h1, _⟩ := h; rw [← h1] <;> simp)
  | renewR =>
    simp only [hp] at h hwf
    cases hs : s.sess with
    | false =>
      simp only [hs, Bool.not_false, if_true] at h
      cases fail <;> simp at h <;> (obtain ⟨h1, _⟩ := h; rw [← h1] <;> simp [hp, hwf])
    | true =>
      simp only [hs, Bool.not_true, Bool.false_eq_true, if_false] at h
      cases fail with
      | true => simp at h; obtain ⟨h1, _⟩ := h; rw [← h1] <;> simp
      | false =>
        simp only [Bool.false_eq_true, if_false] at h
        generalize write r s.base.id 0 s.base.tick = w at h
        obtain ⟨r2, ok⟩ := w
        cases ok <;> simp only [Option.some.injEq, Prod.mk.injEq] at h <;> (obtain ⟨h1, _⟩ := h; rw [← h1] <;> simp)
  | camp =>
    simp only [hp] at h hwf
    cases hs : s.sess with
    | false =>
      simp only [hs, Bool.not_false, if_true] at h
      cases fail <;> simp at h <;> (obtain ⟨h1, _⟩ := h; rw [← h1] <;> simp [hp, hwf])
    | true =>
      simp only [hs, Bool.not_true, Bool.false_eq_true, if_false] at h
      cases fail with
      | true => simp at h; obtain ⟨h1, _⟩ := h; rw [← h1] <;> simp
      | false =>
        simp only [Bool.false_eq_true, if_false] at h
        generalize write r s.base.id (oldInst s.base) s.base.tick = w at h
        obtain ⟨r2, ok⟩ := w
        cases ok <;> simp only [Option.some.injEq, Prod.mk.injEq] at h <;> (obtain ⟨h1, _⟩ := h; rw [← h1] <;> simp [hwf])
  | readBack =>
    simp only [hp] at h hwf
    cases fail with
    | true => simp at h; obtain ⟨h1, _⟩ := h; rw [← h1] <;> simp
    | false =>
      simp only [Bool.false_eq_true, if_false] at h
      split at h <;> simp only [Option.some.injEq, Prod.mk.injEq] at h <;> (obtain ⟨h1, _⟩ := h; rw [← h1] <;> simp)

/-- **step down, for every interleaving**: the first operation of a leader's turn — the read — ends its leadership when
    it fails or finds another id in the record -/
theorem micro_step_down (s s' : SrvO) (r r' : Rec) (fail : Bool) (hp : s.pend = .idle) (hl : s.base.leader = true)
    (hbad : fail = true ∨ recInst r ≠ s.base.id) (h : micro s r fail = some (s', r')) :
    s'.base.leader = false ∧ s'.pend = .idle ∧ r' = r := by
  unfold micro at h
  simp only [hp, hl, if_true] at h
  cases fail with
  | true => simp at h; obtain ⟨h1, h2⟩ := h; rw [← h1]; exact ⟨by simp [becomeFollowerNil], rfl, h2.symm⟩
  | false =>
    rcases hbad with hb | hb
    · cases hb
    · simp only [Bool.false_eq_true, if_false] at h
      split at h
      · simp only [Option.some.injEq, Prod.mk.injEq] at h; obtain ⟨h1, h2⟩ := h; rw [← h1]; exact ⟨rfl, rfl, h2.symm⟩
      · rename_i hc; exact absurd hb hc

/-- **a refused renewal ends in a follower, for every interleaving** (the defect repaired by 84f492b was the resuming
    follower's case): when the vote of a renewal is refused — the record names someone else by now — the server does not
    regard itself as leader afterwards -/
theorem micro_refused_renewal (s s' : SrvO) (r r' : Rec) (hp : s.pend = .renewL ∨ s.pend = .renewR) (hs : s.sess = true)
    (href : (write r s.base.id 0 s.base.tick).2 = false) (h : micro s r false = some (s', r')) :
    s'.base.leader = false ∧ s'.pend = .idle ∧ r' = r := by
  unfold micro at h
  generalize hw : write r s.base.id 0 s.base.tick = w at h href
  obtain ⟨r2, ok⟩ := w
  simp only at href
  subst href
  have hr2 := write_refused_same r r2 _ _ _ hw
  rcases hp with hp | hp <;> simp only [hp, hs, Bool.not_true, Bool.false_eq_true, if_false, Option.some.injEq, Prod.mk.injEq] at h <;>
    (obtain ⟨h1, h2⟩ := h; rw [← h1, ← h2]; exact ⟨by simp [becomeFollowerNil, resetFollower], rfl, hr2⟩)

/-! ## the system: any interleaving of the servers' operations -/

def Sys.WF (y : Sys) : Prop := ∀ s ∈ y.srv, s.WF

theorem sysStep_wf (y y' : Sys) (i : Nat) (fail : Bool) (hwf : y.WF) (h : sysStep y i fail = some y') : y'.WF := by
  unfold sysStep at h
  cases hs : y.srv[i]? with
  | none => simp only [hs, Option.some.injEq] at h; rw [← h]; exact hwf
  | some s =>
    simp only [hs] at h
    cases hm : micro s y.record fail with
    | none => simp [hm] at h
    | some p =>
      obtain ⟨s', r'⟩ := p
      simp only [hm, Option.some.injEq] at h
      rw [← h]
      intro x hx
      have hmem : s ∈ y.srv := List.mem_of_getElem? hs
      rcases List.mem_or_eq_of_mem_set hx with h1 | h1
      · exact hwf x h1
      · rw [h1]; exact micro_wf s s' y.record r' fail (hwf s hmem) hm

/-- **C14, leader only after own id, over every interleaving of single DB operations**: in a well-formed system (every
    reachable one is, `sysStep_wf`), when server `i` performs its next operation and regards itself as leader afterwards,
    then that operation succeeded and left the record naming `i` — or it was the session request inside a leader's
    renewal, which leaves both the server's view and the record untouched; every other server is exactly what it was -/
theorem sys_leader_only_after_own_id (y y' : Sys) (i : Nat) (fail : Bool) (hwf : y.WF) (h : sysStep y i fail = some y')
    (s s' : SrvO) (hs : y.srv[i]? = some s) (hs' : y'.srv[i]? = some s') (hl : s'.base.leader = true) :
    ((fail = false ∧ recInst y'.record = s.base.id) ∨
      (s.pend = .renewL ∧ s.sess = false ∧ s.base.leader = true ∧ y'.record = y.record)) ∧
    ∀ j, j ≠ i → y'.srv[j]? = y.srv[j]? := by
  unfold sysStep at h
  simp only [hs] at h
  cases hm : micro s y.record fail with
  | none => simp [hm] at h
  | some p =>
    obtain ⟨s2, r2⟩ := p
    simp only [hm, Option.some.injEq] at h
    subst h
    have hi : i < y.srv.length := by
      have := (List.getElem?_eq_some_iff.mp hs).1; exact this
    have hs2 : s' = s2 := by
      simp only [List.getElem?_set_self hi, Option.some.injEq] at hs'
      exact hs'.symm
    subst hs2
    refine ⟨micro_leader_only_after_own_id s s' y.record r2 fail (hwf s (List.mem_of_getElem? hs)) hm hl, ?_⟩
    intro j hj
    simp only
    rw [List.getElem?_set_ne (fun hc => hj hc.symm)]

#print axioms micro_wf
#print axioms micro_step_down
#print axioms micro_refused_renewal
#print axioms sysStep_wf
#print axioms sys_leader_only_after_own_id
#print axioms runTurn_eq_turnF
end Elect
