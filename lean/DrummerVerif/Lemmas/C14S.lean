import DrummerVerif.Lemmas.C14
/-! C14 prototype: stability — while the holder renews once per round, a follower never campaigns (round-fair turns) -/
namespace Elect

/-- the holder's renewal: it writes its own id with its next tick -/
def renew (L t : Nat) : Rec := some (L, t + 1)

/-- what a follower may know about a holder `L` whose record currently carries tick `t` -/
def Calm (L t : Nat) (f : Srv) : Prop :=
  f.leader = false ∧ L ≠ 0 ∧ L ≠ f.id ∧
  ∀ c, f.cur = some c → c.inst = L → c.tick ≤ t ∧ c.static ≤ 1 ∧ (c.tick = t → c.static = 0)

theorem setLeaderInfo_calm (L t : Nat) (cur : Option Cur)
    (hc : ∀ c, cur = some c → c.inst = L → c.tick ≤ t ∧ c.static ≤ 1 ∧ (c.tick = t → c.static = 0)) :
    ∃ c', setLeaderInfo cur L t = .ok c' ∧ c'.inst = L ∧ c'.tick = t ∧ c'.static ≤ 1 ∧
      (c'.static = 1 → ∃ c0, cur = some c0 ∧ c0.inst = L ∧ c0.tick = t) := by
  cases cur with
  | none => exact ⟨⟨L, t, 0⟩, rfl, rfl, rfl, by simp, by intro h; cases h⟩
  | some c =>
    unfold setLeaderInfo
    simp only
    by_cases hi : c.inst = L
    · obtain ⟨hle, hst, heq⟩ := hc c rfl hi
      by_cases hlt : c.tick < t
      · have : c.inst = L ∧ c.tick < t := ⟨hi, hlt⟩
        simp only [this, and_self, if_true]
        exact ⟨⟨L, t, 0⟩, rfl, rfl, rfl, by simp, by intro h; cases h⟩
      · have heq' : c.tick = t := by omega
        have hs0 := heq heq'
        have h1 : ¬ (c.inst = L ∧ c.tick < t) := fun hh => hlt hh.2
        have h2 : c.inst = L ∧ c.tick = t := ⟨hi, heq'⟩
        rw [if_neg h1, if_pos h2]
        exact ⟨{ c with static := c.static + 1 }, rfl, hi, heq', by simp [hs0], fun _ => ⟨c, rfl, hi, heq'⟩⟩
    · have h1 : ¬ (c.inst = L ∧ c.tick < t) := fun hh => hi hh.1
      have h2 : ¬ (c.inst = L ∧ c.tick = t) := fun hh => hi hh.1
      simp only [h1, h2, if_false, ne_eq, hi, not_false_eq_true, if_true]
      exact ⟨⟨L, t, 0⟩, rfl, rfl, rfl, by simp, by intro h; cases h⟩

/-- one observation of the record `(L, t)` by a calm follower: it stays a follower, does not touch the record, and
    afterwards knows `(L, t)` with `static ≤ 1`; `static = 1` only if it had already seen tick `t` -/
theorem observe_calm (L t : Nat) (f : Srv) (h : Calm L t f) :
    ∃ f', turn f (some (L, t)) false = some (f', some (L, t)) ∧ f'.leader = false ∧ f'.id = f.id ∧
      ∃ c, f'.cur = some c ∧ c.inst = L ∧ c.tick = t ∧ c.static ≤ 1 ∧
        (c.static = 1 → ∃ c0, f.cur = some c0 ∧ c0.inst = L ∧ c0.tick = t) := by
  obtain ⟨hl, hL0, hLf, hc⟩ := h
  obtain ⟨c', hs, hi, htk, hst, hone⟩ := setLeaderInfo_calm L t f.cur hc
  refine ⟨{ f with tick := f.tick + 1, cur := some c' }, ?_, hl, rfl, c', rfl, hi, htk, hst, hone⟩
  unfold turn
  have hnd : ¬ (c'.static > deadLeaderMinRound) := by unfold deadLeaderMinRound Drummer.Gen.deadLeaderMinRound; omega
  simp only [hl, Bool.false_eq_true, if_false, recInst, recTick, hL0, hLf, hs, hnd]

/-- after the holder's renewal the follower is calm again — now strictly behind, whatever its counter is -/
theorem calm_after_renew (L t : Nat) (f : Srv) (hl : f.leader = false) (hL0 : L ≠ 0) (hLf : L ≠ f.id)
    (hc : ∀ c, f.cur = some c → c.inst = L → c.tick ≤ t ∧ c.static ≤ 1) : Calm L (t + 1) f := by
  refine ⟨hl, hL0, hLf, fun c hcur hi => ?_⟩
  obtain ⟨a, b⟩ := hc c hcur hi
  exact ⟨by omega, b, fun he => by omega⟩

/-- a round in which the follower observes before (`true`) or after (`false`) the holder's renewal -/
def round (L t : Nat) (f : Srv) (before : Bool) : Option (Srv × Rec) :=
  if before then (turn f (some (L, t)) false).map fun p => (p.1, renew L t)
  else turn f (renew L t) false

/-- C14 `stable_under_renewal`: a calm follower stays calm through any round (in either order), never becomes
    leader, never writes the record (it is exactly the holder's renewal), and its counter never exceeds 1 —
    far below the campaign threshold `deadLeaderMinRound = 3` -/
theorem round_calm (L t : Nat) (f : Srv) (before : Bool) (h : Calm L t f) :
    ∃ f', round L t f before = some (f', renew L t) ∧ Calm L (t + 1) f' := by
  obtain ⟨hl, hL0, hLf, hc⟩ := h
  cases before with
  | true =>
    obtain ⟨f', ht, hl', hid, c, hcur, hi, htk, hst, _⟩ := observe_calm L t f ⟨hl, hL0, hLf, hc⟩
    refine ⟨f', by simp [round, ht], ?_⟩
    apply calm_after_renew L t f' hl' hL0 (hid ▸ hLf)
    intro c' hc' _
    rw [hcur] at hc'; cases hc'
    exact ⟨by omega, hst⟩
  | false =>
    -- the follower is strictly behind the renewed record, so its observation resets the counter
    have hcalm1 : Calm L (t + 1) f := calm_after_renew L t f hl hL0 hLf (fun c hcur hi => ⟨(hc c hcur hi).1, (hc c hcur hi).2.1⟩)
    obtain ⟨f', ht, hl', hid, c, hcur, hi, htk, hst, hone⟩ := observe_calm L (t + 1) f hcalm1
    refine ⟨f', by simp [round, renew, ht], hl', hL0, hid ▸ hLf, ?_⟩
    intro c' hc' _
    rw [hcur] at hc'; cases hc'
    refine ⟨by omega, hst, fun _ => ?_⟩
    -- static = 1 would need the follower to have seen tick t+1 before, but it was calm at t
    rcases Nat.lt_or_ge c.static 1 with h0 | h1
    · omega
    · have h1' : c.static = 1 := by omega
      obtain ⟨c0, hc0, hi0, ht0⟩ := hone h1'
      have := (hc c0 hc0 hi0).1
      omega

#print axioms round_calm
end Elect
