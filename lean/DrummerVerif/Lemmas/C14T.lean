import DrummerVerif.Lemmas.C14S
/-! C14 prototype: take-over — once the holder stops renewing, a follower that keeps taking turns becomes leader
    within five of them, and every other follower that then looks at the record follows the winner -/
namespace Elect

/-- the follower knows the frozen record `(L, t)` and has seen it unchanged `k` times in a row -/
def Watching (L t k : Nat) (f : Srv) : Prop :=
  f.leader = false ∧ L ≠ 0 ∧ L ≠ f.id ∧ f.cur = some ⟨L, t, k⟩

/-- below the threshold an unchanged record only bumps the counter -/
theorem watch_step (L t k : Nat) (f : Srv) (h : Watching L t k f) (hk : k < deadLeaderMinRound) :
    ∃ f', turn f (some (L, t)) false = some (f', some (L, t)) ∧ Watching L t (k + 1) f' ∧ f'.id = f.id := by
  obtain ⟨hl, hL0, hLf, hcur⟩ := h
  refine ⟨{ f with tick := f.tick + 1, cur := some ⟨L, t, k + 1⟩ }, ?_, ⟨hl, hL0, hLf, rfl⟩, rfl⟩
  unfold turn setLeaderInfo
  have hnd : ¬ (k + 1 > deadLeaderMinRound) := by omega
  simp [hl, recInst, recTick, hL0, hLf, hcur, hnd]

/-- at the threshold the next look campaigns, and the campaign against the dead holder's record succeeds -/
theorem watch_campaign (L t : Nat) (f : Srv) (h : Watching L t deadLeaderMinRound f) :
    ∃ f', turn f (some (L, t)) false = some (f', some (f.id, f.tick + 1)) ∧ f'.leader = true ∧ f'.id = f.id := by
  obtain ⟨hl, hL0, hLf, hcur⟩ := h
  refine ⟨{ f with tick := f.tick + 1, leader := true, cur := none }, ?_, rfl, rfl⟩
  unfold turn setLeaderInfo
  have hd : deadLeaderMinRound + 1 > deadLeaderMinRound := by omega
  simp [hl, recInst, recTick, hL0, hLf, hcur, hd, campaign, write, oldInst]

/-- `n` consecutive turns of one server against a record nobody else touches -/
def turns : Nat → Srv → Rec → Option (Srv × Rec)
  | 0, s, r => some (s, r)
  | n + 1, s, r => match turn s r false with
    | some (s', r') => turns n s' r'
    | none => none

/-- from counter `k ≤ 3`, exactly `4 - k` more looks at the frozen record make the follower leader, with the record
    naming it -/
theorem takeover_from_watching : ∀ (j k : Nat) (L t : Nat) (f : Srv), k + j = deadLeaderMinRound → Watching L t k f →
    ∃ f' tk, turns (j + 1) f (some (L, t)) = some (f', some (f.id, tk)) ∧ f'.leader = true ∧ f'.id = f.id := by
  intro j
  induction j with
  | zero =>
    intro k L t f hk h
    have : k = deadLeaderMinRound := by omega
    subst this
    obtain ⟨f', ht, hl, hid⟩ := watch_campaign L t f h
    exact ⟨f', f.tick + 1, by simp [turns, ht], hl, hid⟩
  | succ j ih =>
    intro k L t f hk h
    obtain ⟨f1, ht, hw, hid⟩ := watch_step L t k f h (by omega)
    obtain ⟨f', tk, hts, hl, hid'⟩ := ih (k + 1) L t f1 (by omega) hw
    refine ⟨f', tk, ?_, hl, hid'.trans hid⟩
    rw [turns, ht]; simp only; rw [hts, hid]

/-- C14 `bounded_takeover`, single follower: a follower that was calm under the holder `L` (so: counter ≤ 1) and
    keeps taking turns after `L` stopped renewing is leader after at most five turns — four if it had already seen
    the last renewal —, and the record names it -/
theorem solo_takeover (L t : Nat) (f : Srv) (h : Calm L t f) :
    ∃ n f' tk, n ≤ 5 ∧ 4 ≤ n ∧ turns n f (some (L, t)) = some (f', some (f.id, tk)) ∧ f'.leader = true ∧ f'.id = f.id := by
  obtain ⟨f1, ht, hl1, hid1, c, hcur, hi, htk, hst, _⟩ := observe_calm L t f h
  obtain ⟨_, hL0, hLf, _⟩ := h
  have hw : Watching L t c.static f1 := by
    refine ⟨hl1, hL0, hid1 ▸ hLf, ?_⟩
    rw [hcur]; cases c; simp_all
  obtain ⟨f', tk, hts, hl, hid⟩ := takeover_from_watching (deadLeaderMinRound - c.static) c.static L t f1
    (by unfold deadLeaderMinRound Drummer.Gen.deadLeaderMinRound; omega) hw
  refine ⟨deadLeaderMinRound - c.static + 1 + 1, f', tk, by unfold deadLeaderMinRound Drummer.Gen.deadLeaderMinRound; omega,
    by unfold deadLeaderMinRound Drummer.Gen.deadLeaderMinRound; omega, ?_, hl, hid.trans hid1⟩
  rw [turns, ht]; simp only; rw [hts, hid1]

/-- the losers: a follower that does not know the winner yet and looks at the winner's record follows it — counter
    reset, no campaign, record untouched — and is `Calm` with respect to the winner, so `round_calm` takes over -/
theorem loser_follows (W tw : Nat) (g : Srv) (hl : g.leader = false) (hW0 : W ≠ 0) (hWg : W ≠ g.id)
    (hcur : ∀ c, g.cur = some c → c.inst ≠ W) :
    ∃ g', turn g (some (W, tw)) false = some (g', some (W, tw)) ∧ Calm W tw g' ∧ g'.id = g.id := by
  have hs : setLeaderInfo g.cur W tw = .ok ⟨W, tw, 0⟩ := by
    cases hc : g.cur with
    | none => rfl
    | some c =>
      have hne := hcur c hc
      unfold setLeaderInfo
      simp [hne]
  refine ⟨{ g with tick := g.tick + 1, cur := some ⟨W, tw, 0⟩ }, ?_, ⟨hl, hW0, hWg, ?_⟩, rfl⟩
  · unfold turn
    have hnd : ¬ (0 > deadLeaderMinRound) := by omega
    simp [hl, recInst, recTick, hW0, hWg, hs, hnd]
  · intro c hc _
    simp only [Option.some.injEq] at hc
    subst hc
    exact ⟨Nat.le_refl _, by simp, fun _ => rfl⟩

#print axioms solo_takeover
#print axioms loser_follows
end Elect
